(* C08/ProofsWitness.v — rational partial sums of exp (to bound exp at concrete
   points by computation), the known-finding classes as predicates, the
   "holds outside the class" lemma, and the concrete witnesses. *)
From Coq Require Import Reals Lra Lia QArith Qcanon Qcabs Qreals ZArith.
From Coquelicot Require Import Coquelicot.
From MV Require Import Base.Prelude Gen.Consts C08.Model C08.ProofsExp C08.ProofsSharp C08.ProofsLoop C08.ProofsLottery.
Open Scope R_scope.

(* ---- known-finding class 1: the lost exit beyond its validity range -------------- *)
(* x > 53/20, the exact comparison says won, and q exceeds some lost-threshold of the loop *)
Definition Known_large_x (c : Qc) (ev stake total : Z) : Prop :=
  53 / 20 < xr (QcR c) stake total /\
  draw ev < win_prob (QcR c) stake total /\
  exists n, (1 <= n)%nat /\ hi (IZR FACTOR) (xr (QcR c) stake total) n < qr ev.

Lemma FACTOR_ge_3 : 3 <= IZR FACTOR.
Proof. apply IZR_le. unfold FACTOR. vm_compute. discriminate. Qed.

Lemma FACTOR_pos : (0 < FACTOR)%Z.
Proof. assert (H := FACTOR_ge_3). apply lt_IZR. lra. Qed.

Lemma valid_sharp x : 0 <= x <= 53 / 20 -> lost_exit_valid x.
Proof. intros H n Hn. apply tail_ok_sharp; [exact FACTOR_ge_3 | exact H | exact Hn]. Qed.

Lemma BOUND_pos : (1 <= BOUND)%nat.
Proof. unfold BOUND. apply Nat.ltb_lt. vm_compute. reflexivity. Qed.

(* outside the class both answers of the loop are correct (the lost one up to equality,
   which would need exp x rational) *)
Lemma holds_outside phi c ev stake total :
  Dom c ev stake total -> ~ Known_large_x c ev stake total ->
  (lottery phi (Some c) ev stake total = Ok (Taylor Won) -> draw ev < win_prob (QcR c) stake total) /\
  (lottery phi (Some c) ev stake total = Ok (Taylor Lost) -> win_prob (QcR c) stake total <= draw ev).
Proof.
  intros D NK. split.
  - apply w_won_sound; [exact D | apply Z.lt_le_incl, FACTOR_pos].
  - intros H. destruct (Rle_or_lt (xr (QcR c) stake total) (53 / 20)) as [Hx|Hx].
    + left. apply (w_lost_sound phi c ev stake total D); [| exact H].
      apply valid_sharp. split; [apply (x_nonneg c ev); exact D | exact Hx].
    + apply Rnot_lt_le. intros Hp. apply NK. split; [exact Hx | split; [exact Hp|]].
      apply lottery_taylor in H. destruct H as (Ht & _ & H).
      apply lost_threshold in H; [| rewrite x_real by exact Ht; apply (x_nonneg c ev); exact D].
      destruct H as (n & Hn & Hq). rewrite q_real, x_real in Hq by (try exact Ht; apply D).
      exists n. split; [apply Hn | exact Hq].
Qed.

(* ---- witness 1: phi_f = 0.95, all the stake, draw 0.945 --------------------------- *)
Definition w1_phi : Qc := dyadic 4278419646001971 (-52).                       (* 0.95 *)
Definition w1_c : Qc := dyadic (-6745789375439759) (-51).                     (* f64 ln(1.0 - 0.95) = -2.99573227355399 *)
Definition w1_ev : Z := (2 ^ 512 * 945 / 1000)%Z.

Lemma exp_neg_upper (xq : Q) n : 0 <= Q2R xq -> exp (- Q2R xq) <= / Q2R (sq xq n).
Proof.
  intros H. rewrite exp_Ropp.
  assert (A := exp_ge_sq xq n H).
  assert (B : 1 <= Q2R (sq xq n)).
  { rewrite sq_real. apply Rle_trans with (S (Q2R xq) 0); [unfold S, t; simpl; lra | apply S_incr; [exact H | lia]]. }
  apply Rinv_le_contravar; lra.
Qed.

Lemma weight_1_1 : weight 1 1 = 1.
Proof. unfold weight. lra. Qed.

Lemma w1_dom : Dom w1_c w1_ev 1 1.
Proof.
  split; try lia.
  - unfold w1_ev, EV_MAX. split; [apply Z.div_pos; lia|]. apply Z.div_lt_upper_bound; lia.
  - unfold QcR. apply Rle_trans with (Q2R 0); [apply Qle_Rle; vm_compute; discriminate | unfold Q2R; simpl; lra].
Qed.

Lemma w1_lost : lottery w1_phi (Some w1_c) w1_ev 1 1 = Ok (Taylor Lost).
Proof. vm_compute. reflexivity. Qed.

Lemma w1_should_win : draw w1_ev < win_prob (QcR w1_c) 1 1.
Proof.
  unfold win_prob. rewrite weight_1_1, Rmult_1_l.
  set (xq := (- this w1_c)%Q).
  assert (Hx : QcR w1_c = - Q2R xq) by (unfold xq, QcR; rewrite Q2R_opp; lra).
  assert (Hx0 : 0 <= Q2R xq).
  { replace 0 with (Q2R 0) by (unfold Q2R; simpl; lra). apply Qle_Rle. vm_compute. discriminate. }
  rewrite Hx. assert (A := exp_neg_upper xq 8 Hx0).
  set (dq := ((EV_MAX - w1_ev) # (Z.to_pos EV_MAX))%Q).
  assert (Hd : Q2R dq = 1 - draw w1_ev).
  { unfold dq, draw, Q2R. cbn [Qnum Qden]. rewrite Z2Pos.id by (unfold EV_MAX; lia).
    rewrite minus_IZR. assert (P := EV_MAX_pos). field. lra. }
  assert (B : / Q2R (sq xq 8) < Q2R dq).
  { rewrite <- Q2R_inv; [apply Qlt_Rlt; vm_compute; reflexivity | vm_compute; discriminate]. }
  lra.
Qed.

Lemma w1_x_gt_2 : 53 / 20 < xr (QcR w1_c) 1 1.
Proof.
  unfold xr. rewrite weight_1_1, Rmult_1_l. unfold QcR. rewrite <- Q2R_opp.
  replace (53 / 20) with (Q2R (53 # 20)) by (unfold Q2R; simpl; lra). apply Qlt_Rlt. vm_compute. reflexivity.
Qed.

(* sharpness of the range at the level of the loop: at x = 27/10 the very first lost
   threshold 1 + x + (3/2) x^2 = 14.635 is already below exp x = 14.8797... *)
Lemma sharp_witness :
  taylor_comparison BOUND (Q2Qc (147 # 10)) (Q2Qc (27 # 10)) = Lost /\
  QcR (Q2Qc (147 # 10)) < exp (QcR (Q2Qc (27 # 10))).
Proof.
  split; [vm_compute; reflexivity|].
  rewrite !QcR_Q2Qc.
  assert (X0 : 0 <= Q2R (27 # 10)) by (unfold Q2R; simpl; lra).
  apply Rlt_le_trans with (Q2R (sq (27 # 10) 10)); [|apply exp_ge_sq; exact X0].
  apply Qlt_Rlt. vm_compute. reflexivity.
Qed.

(* ---- known-finding class 2 / witness 2: phi_f = 1 - 2^-53 treated as 1 ------------- *)
Definition w2_phi : Qc := dyadic 9007199254740991 (-53).                       (* 1 - 2^-53 *)
Definition w2_c : Qc := dyadic (-2585122521193469) (-46).                     (* f64 ln(2^-53) = -36.7368005696771 *)
Definition w2_ev : Z := (2 ^ 512 - 1)%Z.

Lemma w2_shortcut : phi_is_one w2_phi = true /\ w2_phi <> QcZ 1.
Proof.
  split; [vm_compute; reflexivity|]. intros E. apply (f_equal this) in E. vm_compute in E. discriminate.
Qed.

Lemma w2_should_lose : win_prob (QcR w2_c) 1 100 < draw w2_ev.
Proof.
  unfold win_prob. set (y := weight 1 100 * QcR w2_c).
  assert (Hy : -1/2 <= y).
  { unfold y, weight, QcR. replace (1 / 100) with (Q2R (1 # 100)) by (unfold Q2R; simpl; lra).
    rewrite <- Q2R_mult. replace (-1/2) with (Q2R (-1 # 2)) by (unfold Q2R; simpl; lra).
    apply Qle_Rle. vm_compute. discriminate. }
  assert (A := exp_ineq1_le y).
  assert (B : 1 - draw w2_ev < 1/2).
  { unfold draw, w2_ev, EV_MAX. rewrite minus_IZR. assert (P := EV_MAX_pos). unfold EV_MAX in P.
    set (M := IZR (2 ^ 512)) in *.
    assert (2 < M) by (apply (IZR_lt 2 (2 ^ 512)); reflexivity).
    replace (1 - (M - 1) / M) with (/ M) by (field; lra).
    apply Rmult_lt_reg_r with M; [lra|]. rewrite Rinv_l by lra. lra. }
  lra.
Qed.

(* the window of the shortcut on the f64 grid around 1 (spacing 2^-53 below 1):
   only 1 - 2^-53, 1 (and 1 + 2^-53, which is not an f64) pass the test *)
Lemma shortcut_window (k : Z) :
  phi_is_one (QcZ 1 + QcZ k * dyadic 1 (-53))%Qc = true -> (-1 <= k <= 1)%Z.
Proof.
  intros H. apply phi_is_one_spec in H.
  rewrite QcR_plus, QcR_mult, !QcR_Z in H.
  assert (E : QcR (dyadic 1 (-53)) = / 2 ^ 53).
  { unfold dyadic. rewrite QcR_Q2Qc.
    replace (inject_Z 1 * Qpower (2 # 1) (-53))%Q with (1 # (2 ^ 53))%Q by reflexivity.
    unfold Q2R. cbn [Qnum Qden]. rewrite Rmult_1_l. f_equal. rewrite pow_IZR. reflexivity. }
  rewrite E in H. replace (1 + IZR k * / 2 ^ 53 - 1) with (IZR k * / 2 ^ 53) in H by lra.
  assert (P : 0 < 2 ^ 53) by (apply pow_lt; lra).
  assert (Q : 2 ^ 53 = 2 * 2 ^ 52) by (simpl; lra).
  apply Rabs_def2 in H. destruct H as [H1 H2].
  assert (K1 : IZR k < 2).
  { apply Rmult_lt_reg_r with (/ 2 ^ 53); [apply Rinv_0_lt_compat; exact P|].
    eapply Rlt_le_trans; [exact H1|]. rewrite Q. right. field; try (apply pow_nonzero; lra). }
  assert (K2 : -2 < IZR k).
  { apply Rmult_lt_reg_r with (/ 2 ^ 53); [apply Rinv_0_lt_compat; exact P|].
    eapply Rle_lt_trans; [|exact H2]. rewrite Q. right. field; try (apply pow_nonzero; lra). }
  apply lt_IZR in K1. apply lt_IZR in K2. lia.
Qed.

(* ---- assembled statements --------------------------------------------------------- *)
Lemma exact_in_range phi c ev stake total v :
  Dom c ev stake total -> xr (QcR c) stake total <= 53 / 20 ->
  lottery phi (Some c) ev stake total = Ok (Taylor v) -> v <> Cap ->
  (verdict_bool (Taylor v) = true <-> draw ev < win_prob (QcR c) stake total).
Proof.
  intros D Hx H Hv. destruct v; [| |congruence]; cbn [verdict_bool].
  - split; [intros _|reflexivity]. apply (w_won_sound phi c ev stake total D); [apply Z.lt_le_incl, FACTOR_pos | exact H].
  - split; [discriminate|]. intros Hp.
    assert (V : lost_exit_valid (xr (QcR c) stake total)) by (apply valid_sharp; split; [apply (x_nonneg c ev); exact D | exact Hx]).
    assert (A := w_lost_sound phi c ev stake total D V H). lra.
Qed.

Lemma w1_known : Known_large_x w1_c w1_ev 1 1.
Proof.
  split; [exact w1_x_gt_2 | split; [exact w1_should_win|]].
  assert (H := w1_lost). apply lottery_taylor in H. destruct H as (Ht & _ & H).
  apply lost_threshold in H; [| rewrite x_real by exact Ht; apply (x_nonneg w1_c w1_ev); exact w1_dom].
  destruct H as (n & Hn & Hq). rewrite q_real, x_real in Hq by (try exact Ht; apply w1_dom).
  exists n. split; [apply Hn | exact Hq].
Qed.

Lemma refuted_large_x : exists phi c ev stake total,
  Dom c ev stake total /\ Known_large_x c ev stake total /\
  lottery phi (Some c) ev stake total = Ok (Taylor Lost) /\
  draw ev < win_prob (QcR c) stake total.
Proof.
  exists w1_phi, w1_c, w1_ev, 1%Z, 1%Z.
  split; [exact w1_dom | split; [exact w1_known | split; [exact w1_lost | exact w1_should_win]]].
Qed.

Lemma w2_dom : Dom w2_c w2_ev 1 100.
Proof.
  split; try lia.
  - unfold w2_ev, EV_MAX. lia.
  - unfold QcR. apply Rle_trans with (Q2R 0); [apply Qle_Rle; vm_compute; discriminate | unfold Q2R; simpl; lra].
Qed.

Lemma refuted_phi_shortcut : exists phi c ev stake total,
  phi <> QcZ 1 /\ Dom c ev stake total /\
  won phi (Some c) ev stake total = Ok true /\
  win_prob (QcR c) stake total < draw ev.
Proof.
  exists w2_phi, w2_c, w2_ev, 1%Z, 100%Z.
  split; [apply w2_shortcut | split; [exact w2_dom | split; [|exact w2_should_lose]]].
  apply w_phi_one. apply w2_shortcut.
Qed.

Lemma nonvacuous :
  let phi := dyadic 3602879701896397 (-54) in
  let c := dyadic (-8039593716390432) (-55) in
  Dom c (2 ^ 509) 1 3 /\ xr (QcR c) 1 3 <= 53 / 20 /\
  lottery phi (Some c) (2 ^ 505) 1 3 = Ok (Taylor Won) /\
  lottery phi (Some c) (2 ^ 509) 1 3 = Ok (Taylor Lost) /\
  lottery phi (Some c) 0 0 3 = Ok (Taylor Cap).
Proof.
  intros phi c.
  assert (Hc : QcR c <= 0).
  { unfold QcR. apply Rle_trans with (Q2R 0); [apply Qle_Rle; vm_compute; discriminate | unfold Q2R; simpl; lra]. }
  split; [split; try lia; [unfold EV_MAX; split; [apply Z.pow_nonneg; lia | apply Z.pow_lt_mono_r; lia] | exact Hc]|].
  split.
  - unfold xr, weight, QcR. replace (1 / 3) with (Q2R (1 # 3)) by (unfold Q2R; simpl; lra).
    rewrite <- Q2R_mult, <- Q2R_opp. replace (53 / 20) with (Q2R (53 # 20)) by (unfold Q2R; simpl; lra).
    apply Qle_Rle. vm_compute. discriminate.
  - repeat split; vm_compute; reflexivity.
Qed.
