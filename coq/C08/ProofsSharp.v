(* C08/ProofsSharp.v — the sharp validity range of the `factor * next_term` error bound:
   if it bounds the tail after the first iteration it does so after every iteration, and
   (exp x - 1 - x)/x^2 is increasing, so one numeric check at x = 53/20 settles [0, 53/20]. *)
From Coq Require Import Reals Lra Lia QArith Qreals ZArith.
From Coquelicot Require Import Coquelicot.
From MV Require Import C08.ProofsExp.
Open Scope R_scope.

(* (k+2)! (n+1)! <= 2 (n+1+k)!  for n >= 1 *)
Lemma fact_ratio n k : (1 <= n)%nat ->
  INR (fact (2 + k)) * INR (fact (Datatypes.S n)) <= 2 * INR (fact (Datatypes.S n + k)).
Proof.
  intros Hn. induction k as [|k IH].
  - rewrite !Nat.add_0_r. replace (INR (fact 2)) with 2 by (simpl; lra). lra.
  - replace (2 + Datatypes.S k)%nat with (Datatypes.S (2 + k)) by lia.
    replace (Datatypes.S n + Datatypes.S k)%nat with (Datatypes.S (Datatypes.S n + k)) by lia.
    rewrite (fact_simpl (2 + k)), (fact_simpl (Datatypes.S n + k)), !mult_INR.
    assert (H1 : INR (Datatypes.S (2 + k)) <= INR (Datatypes.S (Datatypes.S n + k))) by (apply le_INR; lia).
    assert (H2 : 0 <= INR (Datatypes.S (2 + k))) by apply pos_INR.
    assert (H3 : 0 < INR (fact (Datatypes.S n + k))) by apply INR_fact_lt_0.
    assert (H4 : 0 < INR (fact (2 + k)) * INR (fact (Datatypes.S n))) by (apply Rmult_lt_0_compat; apply INR_fact_lt_0).
    nra.
Qed.

(* termwise: t x (n+1+k) * t x 2 <= t x (n+1) * t x (2+k) *)
Lemma term_dom x n k : 0 <= x -> (1 <= n)%nat ->
  t x (Datatypes.S n + k) * t x 2 <= t x (Datatypes.S n) * t x (2 + k).
Proof.
  intros Hx Hn. unfold t.
  assert (F := fact_ratio n k Hn).
  assert (P1 : 0 < INR (fact (Datatypes.S n + k))) by apply INR_fact_lt_0.
  assert (P2 : 0 < INR (fact (Datatypes.S n))) by apply INR_fact_lt_0.
  assert (P3 : 0 < INR (fact (2 + k))) by apply INR_fact_lt_0.
  replace (INR (fact 2)) with 2 by (simpl; lra).
  rewrite !pow_add.
  assert (X : 0 <= x ^ Datatypes.S n * x ^ k * x ^ 2).
  { apply Rmult_le_pos; [apply Rmult_le_pos|]; apply pow_le; exact Hx. }
  replace (x ^ Datatypes.S n * x ^ k / INR (fact (Datatypes.S n + k)) * (x ^ 2 / 2))
    with ((x ^ Datatypes.S n * x ^ k * x ^ 2) * / (2 * INR (fact (Datatypes.S n + k)))) by (field; lra).
  replace (x ^ Datatypes.S n / INR (fact (Datatypes.S n)) * (x ^ 2 * x ^ k / INR (fact (2 + k))))
    with ((x ^ Datatypes.S n * x ^ k * x ^ 2) * / (INR (fact (2 + k)) * INR (fact (Datatypes.S n)))) by (field; lra).
  apply Rmult_le_compat_l; [exact X|].
  apply Rinv_le_contravar; [apply Rmult_lt_0_compat; assumption | exact F].
Qed.

Lemma tail_series x n : Series (fun k => t x (Datatypes.S n + k)) = exp x - S x n.
Proof.
  assert (Hs := exp_is_series x).
  assert (Hex : ex_series (t x)) by (exists (exp x); exact Hs).
  rewrite <- (is_series_unique _ _ Hs).
  rewrite (Series_incr_n (t x) (Datatypes.S n)); [| lia | exact Hex].
  simpl pred. unfold S. ring.
Qed.

Lemma ex_tail x n : ex_series (fun k => t x (Datatypes.S n + k)).
Proof.
  assert (Hex : ex_series (t x)) by (exists (exp x); apply exp_is_series).
  apply (ex_series_incr_n (t x) (Datatypes.S n)) in Hex. exact Hex.
Qed.

(* if F t_2 bounds the tail after S_1, then F t_{n+1} bounds the tail after S_n, n >= 1 *)
Lemma tail_from_first F x n : 0 < x -> (1 <= n)%nat ->
  exp x <= S x 1 + F * t x 2 -> exp x <= S x n + F * t x (Datatypes.S n).
Proof.
  intros Hx Hn H1.
  assert (T2 : 0 < t x 2) by (unfold t; apply Rmult_lt_0_compat; [apply pow_lt; exact Hx | apply Rinv_0_lt_compat, INR_fact_lt_0]).
  assert (Tn : 0 <= t x (Datatypes.S n)) by (apply t_nonneg; lra).
  assert (E1 := tail_series x 1). assert (En := tail_series x n).
  assert (L : Series (fun k => t x (Datatypes.S n + k)) <= Series (fun k => t x (Datatypes.S n) / t x 2 * t x (2 + k))).
  { apply Series_le.
    - intros k. split; [apply t_nonneg; lra|].
      assert (D := term_dom x n k (Rlt_le _ _ Hx) Hn).
      apply Rmult_le_reg_r with (t x 2); [exact T2|].
      replace (t x (Datatypes.S n) / t x 2 * t x (2 + k) * t x 2) with (t x (Datatypes.S n) * t x (2 + k)) by (field; lra).
      exact D.
    - apply ex_series_ext with (fun k => t x (2 + k) * (t x (Datatypes.S n) / t x 2)); [intros k; apply Rmult_comm|].
      apply ex_series_scal_r. apply (ex_tail x 1). }
  rewrite Series_scal_l in L. change (fun k => t x (2 + k)) with (fun k => t x (2 + k)) in L.
  rewrite E1 in L. rewrite En in L.
  assert (Q : t x (Datatypes.S n) / t x 2 * (exp x - S x 1) <= t x (Datatypes.S n) / t x 2 * (F * t x 2)).
  { apply Rmult_le_compat_l; [apply Rmult_le_pos; [exact Tn | left; apply Rinv_0_lt_compat; exact T2] | lra]. }
  replace (t x (Datatypes.S n) / t x 2 * (F * t x 2)) with (F * t x (Datatypes.S n)) in Q by (field; lra).
  lra.
Qed.

(* exp x - S_1(x) scales at most like x^2:  (exp x - 1 - x)/x^2 is increasing *)
Lemma first_tail_scale x y : 0 <= x <= y -> 0 < y ->
  (exp x - S x 1) * y ^ 2 <= (exp y - S y 1) * x ^ 2.
Proof.
  intros [Hx Hxy] Hy.
  rewrite <- (tail_series x 1), <- (tail_series y 1).
  rewrite <- !Series_scal_r.
  apply Series_le.
  - intros k. split.
    + apply Rmult_le_pos; [apply t_nonneg; exact Hx | apply pow_le; lra].
    + unfold t. replace (1 + 1 + k)%nat with (2 + k)%nat by lia. rewrite !pow_add.
      assert (P : 0 < INR (fact (2 + k))) by apply INR_fact_lt_0.
      assert (K : x ^ k <= y ^ k) by (apply pow_incr; lra).
      assert (X2 : 0 <= x ^ 2) by (apply pow_le; lra). assert (Y2 : 0 <= y ^ 2) by (apply pow_le; lra).
      replace (x ^ 2 * x ^ k / INR (fact (2 + k)) * y ^ 2) with ((x ^ 2 * y ^ 2 * / INR (fact (2 + k))) * x ^ k) by (field; lra).
      replace (y ^ 2 * y ^ k / INR (fact (2 + k)) * x ^ 2) with ((x ^ 2 * y ^ 2 * / INR (fact (2 + k))) * y ^ k) by (field; lra).
      apply Rmult_le_compat_l; [|exact K].
      apply Rmult_le_pos; [apply Rmult_le_pos; assumption | left; apply Rinv_0_lt_compat; exact P].
  - apply ex_series_scal_r. apply (ex_tail y 1).
Qed.

(* ---- rational partial sums (for numeric checks by computation) -------------------- *)
Fixpoint tq (x : Q) (k : nat) : Q :=
  match k with O => 1%Q | Datatypes.S k' => (tq x k' * x / inject_Z (Z.of_nat k))%Q end.
Fixpoint sq (x : Q) (n : nat) : Q :=
  match n with O => 1%Q | Datatypes.S n' => (sq x n' + tq x n)%Q end.

Lemma Q2R_inject_Z z : Q2R (inject_Z z) = IZR z.
Proof. unfold Q2R, inject_Z. cbn [Qnum Qden]. rewrite Rinv_1. lra. Qed.

Lemma tq_real x k : Q2R (tq x k) = t (Q2R x) k.
Proof.
  induction k as [|k IH].
  - unfold t. simpl. unfold Q2R. simpl. lra.
  - cbn [tq]. rewrite t_S, <- IH. unfold Qdiv. rewrite Q2R_mult, Q2R_mult, Q2R_inv.
    + rewrite Q2R_inject_Z, <- INR_IZR_INZ. reflexivity.
    + unfold Qeq, inject_Z. cbn [Qnum Qden]. lia.
Qed.

Lemma sq_real x n : Q2R (sq x n) = S (Q2R x) n.
Proof.
  induction n as [|n IH].
  - unfold S, t. simpl. unfold Q2R. simpl. lra.
  - cbn [sq]. rewrite Q2R_plus, IH, tq_real. reflexivity.
Qed.

Lemma exp_ge_sq x n : 0 <= Q2R x -> Q2R (sq x n) <= exp (Q2R x).
Proof. intros H. rewrite sq_real. apply exp_lower; exact H. Qed.

(* upper bound of exp at a rational point, by computation *)
Lemma exp_le_q (x : Q) n : 0 <= Q2R x -> Q2R x < INR (Datatypes.S (Datatypes.S n)) ->
  exp (Q2R x) <= Q2R (sq x n + tq x (Datatypes.S n) / (1 - x / inject_Z (Z.of_nat (Datatypes.S (Datatypes.S n)))))%Q.
Proof.
  intros H0 H1. assert (U := exp_upper (Q2R x) n H0 H1).
  assert (P : 0 < INR (Datatypes.S (Datatypes.S n))) by (apply lt_0_INR; lia).
  assert (NZ : ~ (inject_Z (Z.of_nat (Datatypes.S (Datatypes.S n))) == 0)%Q).
  { unfold Qeq, inject_Z. cbn [Qnum Qden]. lia. }
  assert (Ed : Q2R (x / inject_Z (Z.of_nat (Datatypes.S (Datatypes.S n))))%Q = Q2R x / INR (Datatypes.S (Datatypes.S n))).
  { unfold Qdiv. rewrite Q2R_mult, Q2R_inv by exact NZ. rewrite Q2R_inject_Z, <- INR_IZR_INZ. reflexivity. }
  assert (E1 : Q2R (1 - x / inject_Z (Z.of_nat (Datatypes.S (Datatypes.S n))))%Q = 1 - Q2R x / INR (Datatypes.S (Datatypes.S n))).
  { rewrite Q2R_minus, Ed. unfold Q2R at 1. simpl. lra. }
  assert (Pos : 0 < 1 - Q2R x / INR (Datatypes.S (Datatypes.S n))).
  { apply Rmult_lt_reg_r with (INR (Datatypes.S (Datatypes.S n))); [exact P|].
    replace ((1 - Q2R x / INR (Datatypes.S (Datatypes.S n))) * INR (Datatypes.S (Datatypes.S n))) with (INR (Datatypes.S (Datatypes.S n)) - Q2R x) by (field; lra). lra. }
  rewrite Q2R_plus, sq_real. unfold Qdiv at 1. rewrite Q2R_mult, Q2R_inv.
  - rewrite E1, tq_real. exact U.
  - intros E. apply Qeq_eqR in E. rewrite E1 in E.
    replace (Q2R 0) with 0 in E by (unfold Q2R; simpl; lra). lra.
Qed.

(* the numeric fact: exp (53/20) <= 1 + 53/20 + (3/2) (53/20)^2 *)
Lemma first_tail_at_265 : exp (Q2R (53 # 20)) - S (Q2R (53 # 20)) 1 <= 3 * t (Q2R (53 # 20)) 2.
Proof.
  assert (X0 : 0 <= Q2R (53 # 20)) by (unfold Q2R; simpl; lra).
  assert (X1 : Q2R (53 # 20) < INR 16) by (unfold Q2R; simpl; lra).
  assert (U := exp_le_q (53 # 20) 14 X0 X1).
  rewrite <- sq_real, <- tq_real.
  replace 3 with (Q2R 3) by (unfold Q2R; simpl; lra). rewrite <- Q2R_mult.
  apply Rle_trans with (Q2R (sq (53 # 20) 14 + tq (53 # 20) 15 / (1 - (53 # 20) / inject_Z (Z.of_nat 16)))%Q - Q2R (sq (53 # 20) 1)); [lra|].
  rewrite <- Q2R_minus. apply Qle_Rle. vm_compute. discriminate.
Qed.

(* sharp validity: for F >= 3 the error term bounds the tail on the whole of [0, 53/20] *)
Theorem tail_ok_sharp F x : 3 <= F -> 0 <= x <= 53 / 20 -> forall n, (1 <= n)%nat ->
  exp x <= S x n + F * t x (Datatypes.S n).
Proof.
  intros HF [Hx0 Hx1] n Hn.
  destruct (Rle_or_lt x 2) as [H2|H2].
  - apply lost_exit_bound; [exact Hx0 | lra | nra | exact Hn].
  - set (y := Q2R (53 # 20)).
    assert (Ey : y = 53 / 20) by (unfold y, Q2R; simpl; lra).
    assert (A := first_tail_at_265). fold y in A.
    assert (B := first_tail_scale x y ltac:(lra) ltac:(lra)).
    apply tail_from_first; [lra | exact Hn |].
    assert (T2x : t x 2 = x ^ 2 / 2) by (unfold t; simpl; lra).
    assert (T2y : t y 2 = y ^ 2 / 2) by (unfold t; simpl; lra).
    assert (Y2 : 0 < y ^ 2) by (apply pow_lt; lra).
    assert (X2 : 0 <= x ^ 2) by (apply pow_le; lra).
    assert (C : (exp x - S x 1) * y ^ 2 <= (3 * t y 2) * x ^ 2) by nra.
    rewrite T2y in C. rewrite T2x.
    assert (D : exp x - S x 1 <= 3 * (x ^ 2 / 2)).
    { apply Rmult_le_reg_r with (y ^ 2); [exact Y2|]. lra. }
    nra.
Qed.
