(* C08/ProofsExp.v — real analysis behind the lottery: the Taylor partial sums of
   exp, a rigorous bound of the tail by a geometric series, and the exact
   condition under which `factor * next_term` is an upper bound of the tail. *)
From Coq Require Import Reals Lra Lia.
From Coquelicot Require Import Coquelicot.
Open Scope R_scope.

(* k-th Taylor term of exp and the partial sum S_n = sum_{k<=n} t k *)
Definition t (x : R) (k : nat) : R := x ^ k / INR (fact k).
Definition S (x : R) (n : nat) : R := sum_f_R0 (t x) n.

Lemma exp_is_series x : is_series (t x) (exp x).
Proof.
  generalize (is_exp_Reals x). unfold is_pseries.
  apply is_series_ext. intros n. unfold t, scal; simpl. unfold mult; simpl.
  rewrite pow_n_pow. field. apply INR_fact_neq_0.
Qed.

Lemma t_nonneg x k : 0 <= x -> 0 <= t x k.
Proof. intros. unfold t. apply Rmult_le_pos. apply pow_le; lra. left; apply Rinv_0_lt_compat, INR_fact_lt_0. Qed.

Lemma t_S x k : t x (Datatypes.S k) = t x k * x / INR (Datatypes.S k).
Proof.
  unfold t. rewrite fact_simpl, mult_INR. simpl pow. field.
  split; [apply INR_fact_neq_0 | apply not_0_INR; lia].
Qed.

Lemma fact_ge n k : INR (fact (Datatypes.S n)) * INR (Datatypes.S (Datatypes.S n)) ^ k <= INR (fact (Datatypes.S n + k)).
Proof.
  induction k as [|k IH].
  - rewrite Nat.add_0_r, pow_O, Rmult_1_r. apply Rle_refl.
  - replace (Datatypes.S n + Datatypes.S k)%nat with (Datatypes.S (Datatypes.S n + k)) by lia.
    rewrite (fact_simpl (Datatypes.S n + k)), mult_INR. rewrite <- tech_pow_Rmult.
    assert (H1: INR (Datatypes.S (Datatypes.S n)) <= INR (Datatypes.S (Datatypes.S n + k))) by (apply le_INR; lia).
    assert (H0: 0 <= INR (fact (Datatypes.S n)) * INR (Datatypes.S (Datatypes.S n)) ^ k).
    { apply Rmult_le_pos. apply pos_INR. apply pow_le, pos_INR. }
    assert (H2: 0 <= INR (Datatypes.S (Datatypes.S n + k))) by apply pos_INR.
    apply Rle_trans with ((INR (fact (Datatypes.S n)) * INR (Datatypes.S (Datatypes.S n)) ^ k) * INR (Datatypes.S (Datatypes.S n + k))).
    + replace (INR (fact (Datatypes.S n)) * (INR (Datatypes.S (Datatypes.S n)) * INR (Datatypes.S (Datatypes.S n)) ^ k))
        with ((INR (fact (Datatypes.S n)) * INR (Datatypes.S (Datatypes.S n)) ^ k) * INR (Datatypes.S (Datatypes.S n))) by ring.
      apply Rmult_le_compat_l; assumption.
    + rewrite (Rmult_comm (INR (Datatypes.S (Datatypes.S n + k)))). apply Rmult_le_compat_r; assumption.
Qed.

Lemma tail_term x n k : 0 <= x ->
  t x (Datatypes.S n + k) <= t x (Datatypes.S n) * (x / INR (Datatypes.S (Datatypes.S n))) ^ k.
Proof.
  intros Hx. unfold t.
  assert (Hf := fact_ge n k).
  assert (Hp1: 0 < INR (fact (Datatypes.S n))) by apply INR_fact_lt_0.
  assert (Hp2: 0 < INR (fact (Datatypes.S n + k))) by apply INR_fact_lt_0.
  assert (Hp3: 0 < INR (Datatypes.S (Datatypes.S n))) by (apply lt_0_INR; lia).
  assert (Hp4: 0 < INR (Datatypes.S (Datatypes.S n)) ^ k) by (apply pow_lt; exact Hp3).
  rewrite pow_add. unfold Rdiv at 3. rewrite Rpow_mult_distr, <- Rinv_pow by lra.
  assert (Hxx: 0 <= x ^ Datatypes.S n * x ^ k) by (apply Rmult_le_pos; apply pow_le; exact Hx).
  replace (x ^ Datatypes.S n / INR (fact (Datatypes.S n)) * (x ^ k * / INR (Datatypes.S (Datatypes.S n)) ^ k))
     with ((x ^ Datatypes.S n * x ^ k) / (INR (fact (Datatypes.S n)) * INR (Datatypes.S (Datatypes.S n)) ^ k)) by (field; split; lra).
  unfold Rdiv. apply Rmult_le_compat_l; [exact Hxx|].
  apply Rinv_le_contravar; [nra | exact Hf].
Qed.

(* partial sums are lower bounds for x >= 0 *)
Lemma exp_lower x n : 0 <= x -> S x n <= exp x.
Proof. intros Hx. exact (exp_ge_taylor x n Hx). Qed.

(* strictly so for x > 0 *)
Lemma exp_lower_strict x n : 0 < x -> S x n < exp x.
Proof.
  intros Hx. assert (H := exp_ge_taylor x (Datatypes.S n) (Rlt_le _ _ Hx)).
  change (S x (Datatypes.S n) <= exp x) in H. unfold S in *. simpl in H.
  assert (0 < t x (Datatypes.S n)).
  { unfold t. apply Rmult_lt_0_compat. apply pow_lt; exact Hx. apply Rinv_0_lt_compat, INR_fact_lt_0. }
  lra.
Qed.

(* the tail after S_n is at most t_{n+1} / (1 - x/(n+2))  when x < n+2 *)
Theorem exp_upper x n : 0 <= x -> x < INR (Datatypes.S (Datatypes.S n)) ->
  exp x <= S x n + t x (Datatypes.S n) / (1 - x / INR (Datatypes.S (Datatypes.S n))).
Proof.
  intros Hx Hlt. unfold S.
  assert (Hp3: 0 < INR (Datatypes.S (Datatypes.S n))) by (apply lt_0_INR; lia).
  set (q := x / INR (Datatypes.S (Datatypes.S n))).
  assert (Hq0 : 0 <= q) by (unfold q; apply Rmult_le_pos; [lra | left; apply Rinv_0_lt_compat; lra]).
  assert (Hq1 : q < 1). { unfold q. apply Rmult_lt_reg_r with (INR (Datatypes.S (Datatypes.S n))); [lra|]. unfold Rdiv. rewrite Rmult_assoc, Rinv_l by lra. lra. }
  assert (Hs := exp_is_series x).
  assert (Hex : ex_series (t x)) by (exists (exp x); exact Hs).
  rewrite <- (is_series_unique _ _ Hs).
  rewrite (Series_incr_n (t x) (Datatypes.S n)); [| lia | exact Hex].
  simpl pred.
  apply Rplus_le_compat_l.
  apply Rle_trans with (Series (fun k => t x (Datatypes.S n) * q ^ k)).
  - apply Series_le.
    + intros k. split.
      * apply t_nonneg; exact Hx.
      * apply tail_term; exact Hx.
    + apply ex_series_ext with (fun k => q ^ k * t x (Datatypes.S n)); [intros k; apply Rmult_comm|]. apply ex_series_scal_r. apply ex_series_geom. rewrite Rabs_pos_eq; lra.
  - rewrite Series_scal_l, Series_geom by (rewrite Rabs_pos_eq; lra). unfold Rdiv. lra.
Qed.

(* `F * t_{n+1}` bounds the tail from iteration 1 on as soon as F * (3 - x) >= 3,
   i.e. x <= 3 * (1 - 1/F): x <= 2 for the code's F = 3 *)
Corollary lost_exit_bound F x n : 0 <= x -> 0 < F -> 3 <= F * (3 - x) -> (1 <= n)%nat ->
  exp x <= S x n + F * t x (Datatypes.S n).
Proof.
  intros Hx0 HFpos HF Hn.
  assert (H3: 3 <= INR (Datatypes.S (Datatypes.S n))). { replace 3 with (INR 3) by (simpl; lra). apply le_INR; lia. }
  assert (Hx3 : x < 3) by nra.
  assert (Hlt: x < INR (Datatypes.S (Datatypes.S n))) by lra.
  apply Rle_trans with (S x n + t x (Datatypes.S n) / (1 - x / INR (Datatypes.S (Datatypes.S n)))); [apply exp_upper; assumption|].
  apply Rplus_le_compat_l.
  assert (Ht: 0 <= t x (Datatypes.S n)) by (apply t_nonneg; exact Hx0).
  assert (Hq: x / INR (Datatypes.S (Datatypes.S n)) <= x / 3).
  { unfold Rdiv. apply Rmult_le_compat_l; [lra|]. apply Rinv_le_contravar; lra. }
  assert (Hd: / (1 - x / INR (Datatypes.S (Datatypes.S n))) <= F).
  { replace F with (/ / F) by (apply Rinv_inv).
    apply Rinv_le_contravar; [apply Rinv_0_lt_compat; exact HFpos|].
    apply Rle_trans with (1 - x / 3); [|lra].
    apply Rmult_le_reg_l with F; [exact HFpos|]. rewrite Rinv_r by lra. lra. }
  unfold Rdiv at 1. rewrite Rmult_comm. apply Rmult_le_compat_r; assumption.
Qed.

(* thresholds of iteration n (n >= 1): S_n +- F t_{n+1} *)
Definition hi (F x : R) (n : nat) := S x n + F * t x (Datatypes.S n).
Definition lo (F x : R) (n : nat) := S x n - F * t x (Datatypes.S n).

Lemma t_mono x y k : 0 <= x <= y -> t x k <= t y k.
Proof. intros [H0 H1]. unfold t, Rdiv. apply Rmult_le_compat_r. left; apply Rinv_0_lt_compat, INR_fact_lt_0. apply pow_incr; lra. Qed.
Lemma S_mono x y j : 0 <= x <= y -> S x j <= S y j.
Proof. intros H. unfold S. induction j as [|j IH]; simpl; [apply t_mono; exact H | apply Rplus_le_compat; [exact IH | apply t_mono; exact H]]. Qed.
Lemma hi_mono F x y j : 0 <= F -> 0 <= x <= y -> hi F x j <= hi F y j.
Proof. intros HF H. unfold hi. assert (A := S_mono x y j H). assert (B := t_mono x y (Datatypes.S j) H). nra. Qed.
Lemma S_incr x j k : 0 <= x -> (j <= k)%nat -> S x j <= S x k.
Proof. intros Hx Hjk. induction Hjk as [|k Hjk IH]; [lra|]. unfold S in *. simpl. assert (A := t_nonneg x (Datatypes.S k) Hx). lra. Qed.
Lemma lo_le_hi F x j k : 0 <= F -> 0 <= x -> (j <= k)%nat -> lo F x j <= hi F x k.
Proof.
  intros HF Hx Hjk. unfold lo, hi. assert (A := S_incr x j k Hx Hjk).
  assert (B := t_nonneg x (Datatypes.S j) Hx). assert (C := t_nonneg x (Datatypes.S k) Hx). nra.
Qed.
