(* C08/Properties.v — the property theorems, nothing else.
   C08: the signing lottery `is_lottery_won` is exact (outside a negligible band and
   within the stated validity range of its error bound), monotone in stake and in the
   draw, always lost for zero stake, always won when phi_f is 1.

   Vocabulary (C08.ProofsLottery): draw ev = ev / 2^512; weight stake total = stake/total;
   win_prob c stake total = 1 - exp (weight * c), which for c = ln (1 - phi_f) is the
   property's 1 - (1 - phi_f)^(stake/total) (C08_formulation); xr c stake total =
   -(stake/total) * c is the `x` of the code, qr ev = 2^512 / (2^512 - ev) its `q`.
   Dom c ev stake total: 0 <= ev < 2^512, 0 <= stake, 0 < total, c <= 0.
   `lottery` returns Ok Shortcut | Ok (Taylor Won|Lost|Cap) | Panic; the code's boolean is
   true exactly for Shortcut and Taylor Won (Model.verdict_bool).
   All statements are over the constants the translator reads from eligibility.rs
   (TAYLOR_BOUND = iteration cap, TAYLOR_ERR_FACTOR = the `3` of the error term). *)
From Coq Require Import Reals QArith Qcanon ZArith.
From MV Require Import Base.Prelude Gen.Consts C08.Model C08.ProofsExp C08.ProofsSharp C08.ProofsLoop C08.ProofsFast C08.ProofsLottery C08.ProofsWitness.
Open Scope R_scope.

(* the code's comparison `q < exp x` is the property's `ev/2^512 < 1 - (1-phi_f)^(stake/total)` *)
Theorem C08_formulation : forall c ev stake total, (0 <= ev < EV_MAX)%Z ->
  (qr ev < exp (xr c stake total) <-> draw ev < win_prob c stake total) /\
  (exp (xr c stake total) < qr ev <-> win_prob c stake total < draw ev).
Proof. exact link. Qed.

Theorem C08_formulation_pow : forall phi stake total, phi < 1 ->
  win_prob (ln (1 - phi)) stake total = 1 - Rpower (1 - phi) (weight stake total).
Proof. exact win_prob_pow. Qed.

(* the model's q and x are these reals *)
Theorem C08_inputs : forall c ev stake total, (0 <= ev < EV_MAX)%Z -> (total <> 0)%Z ->
  QcR (lottery_q ev) = qr ev /\ QcR (lottery_x c stake total) = xr (QcR c) stake total.
Proof. intros c ev stake total H1 H2. split; [apply q_real; exact H1 | apply x_real; exact H2]. Qed.

(* exit `true`: sound for every x >= 0 *)
Theorem C08_won_sound : forall phi c ev stake total,
  Dom c ev stake total ->
  lottery phi (Some c) ev stake total = Ok (Taylor Won) ->
  draw ev < win_prob (QcR c) stake total.
Proof. intros phi c ev stake total D. apply w_won_sound; [exact D | apply Z.lt_le_incl, FACTOR_pos]. Qed.

(* exit `false` before the cap: sound exactly where TAYLOR_ERR_FACTOR * next_term bounds the
   tail of the series; that holds on the whole range x <= 53/20 = 2.65 (C08_error_term_range)
   and fails from ~2.66 on (Refuted.v: x = 27/10, and phi_f = 0.95 with all the stake) *)
Theorem C08_lost_sound : forall phi c ev stake total,
  Dom c ev stake total -> xr (QcR c) stake total <= 53 / 20 ->
  lottery phi (Some c) ev stake total = Ok (Taylor Lost) ->
  win_prob (QcR c) stake total < draw ev.
Proof.
  intros phi c ev stake total D Hx.
  apply (w_lost_sound phi c ev stake total D). apply valid_sharp.
  split; [apply (x_nonneg c ev); exact D | exact Hx].
Qed.

(* the analytic core, over the translated factor: for 0 <= x <= 53/20 and every n >= 1,
   exp x <= S_n(x) + TAYLOR_ERR_FACTOR * x^(n+1)/(n+1)! *)
Theorem C08_error_term_range : forall x n, 0 <= x <= 53 / 20 -> (1 <= n)%nat ->
  exp x <= sum_f_R0 (fun k => x ^ k / INR (fact k)) n
           + IZR TAYLOR_ERR_FACTOR * (x ^ (Datatypes.S n) / INR (fact (Datatypes.S n))).
Proof. intros x n Hx Hn. exact (valid_sharp x Hx n Hn). Qed.

(* the integer loop evaluated by the correspondence run IS the literal transcription *)
Theorem C08_fast_model : forall pm pe c ev stake total,
  run pm pe c ev stake total = run_literal pm pe c ev stake total.
Proof. exact run_eq. Qed.

(* reaching the iteration cap (answer `false`): only inside the band
   exp x - 2*3*x^(B+1)/(B+1)! <= q <= exp x + 3*x^(B+1)/(B+1)!,  B = TAYLOR_BOUND *)
Theorem C08_cap : forall phi c ev stake total,
  Dom c ev stake total -> xr (QcR c) stake total <= 53 / 20 ->
  lottery phi (Some c) ev stake total = Ok (Taylor Cap) ->
  let x := xr (QcR c) stake total in
  let band := x ^ (Datatypes.S (N.to_nat TAYLOR_BOUND)) / INR (fact (Datatypes.S (N.to_nat TAYLOR_BOUND))) in
  - (2 * IZR TAYLOR_ERR_FACTOR * band) <= qr ev - exp x <= IZR TAYLOR_ERR_FACTOR * band.
Proof.
  intros phi c ev stake total D Hx.
  apply (w_cap_band phi c ev stake total D); [| exact BOUND_pos].
  apply valid_sharp. split; [apply (x_nonneg c ev); exact D | exact Hx].
Qed.

(* exactness: for x <= 53/20 the boolean answer is the exact comparison unless the cap was hit *)
Theorem C08_exact : forall phi c ev stake total v,
  Dom c ev stake total -> xr (QcR c) stake total <= 53 / 20 ->
  lottery phi (Some c) ev stake total = Ok (Taylor v) -> v <> Cap ->
  (verdict_bool (Taylor v) = true <-> draw ev < win_prob (QcR c) stake total).
Proof. exact exact_in_range. Qed.

(* more stake never turns won into lost (for every x >= 0, also where the lost exit is unsound) *)
Theorem C08_mono_stake : forall phi c ev stake stake' total,
  Dom c ev stake total -> (stake <= stake')%Z ->
  lottery phi (Some c) ev stake total = Ok (Taylor Won) ->
  lottery phi (Some c) ev stake' total <> Ok (Taylor Lost).
Proof. intros phi c ev stake stake' total. apply w_mono_stake. apply Z.lt_le_incl, FACTOR_pos. Qed.

(* a smaller draw never turns won into lost *)
Theorem C08_mono_draw : forall phi c ev ev' stake total,
  Dom c ev stake total -> (0 <= ev' <= ev)%Z ->
  lottery phi (Some c) ev stake total = Ok (Taylor Won) ->
  lottery phi (Some c) ev' stake total <> Ok (Taylor Lost).
Proof. intros phi c ev ev' stake total. apply w_mono_draw. apply Z.lt_le_incl, FACTOR_pos. Qed.

(* zero stake: never won through the comparison, whatever c and the draw (ev = 0 included) *)
Theorem C08_zero_stake : forall phi c ev total, (0 <= ev < EV_MAX)%Z ->
  lottery phi (Some c) ev 0 total <> Ok (Taylor Won).
Proof. intros phi c ev total. apply w_zero_stake. apply Z.lt_le_incl, FACTOR_pos. Qed.

(* phi_f = 1 (precisely: |phi_f - 1| < 2^-52): always won, before anything else is looked at *)
Theorem C08_phi_one : forall phi c ev stake total,
  Rabs (QcR phi - 1) < / 2 ^ 52 -> won phi c ev stake total = Ok true.
Proof. intros phi c ev stake total H. apply w_phi_one. apply phi_is_one_spec. exact H. Qed.

(* both known classes excluded, the loop's two answers are the exact comparison *)
Theorem C08_holds_outside : forall phi c ev stake total,
  Dom c ev stake total -> ~ Known_large_x c ev stake total ->
  (lottery phi (Some c) ev stake total = Ok (Taylor Won) -> draw ev < win_prob (QcR c) stake total) /\
  (lottery phi (Some c) ev stake total = Ok (Taylor Lost) -> win_prob (QcR c) stake total <= draw ev).
Proof. exact holds_outside. Qed.

(* on the f64 grid around 1 the shortcut fires only for 1 - 2^-53, 1 (1 + 2^-53 is not an f64) *)
Theorem C08_shortcut_window : forall k : Z,
  phi_is_one (QcZ 1 + QcZ k * dyadic 1 (-53))%Qc = true -> (-1 <= k <= 1)%Z.
Proof. exact shortcut_window. Qed.

(* non-vacuity: the hypotheses are met, with all three loop answers and x <= 2 *)
Example C08_nonvacuous :
  let phi := dyadic 3602879701896397 (-54) in            (* 0.2 *)
  let c := dyadic (-8039593716390432) (-55) in          (* f64 ln(0.8) *)
  Dom c (2 ^ 509) 1 3 /\ xr (QcR c) 1 3 <= 53 / 20 /\
  lottery phi (Some c) (2 ^ 505) 1 3 = Ok (Taylor Won) /\
  lottery phi (Some c) (2 ^ 509) 1 3 = Ok (Taylor Lost) /\
  lottery phi (Some c) 0 0 3 = Ok (Taylor Cap).
Proof. exact nonvacuous. Qed.
