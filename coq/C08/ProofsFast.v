(* C08/ProofsFast.v — the integer loop [taylor_fast] computes exactly what the literal
   transcription [taylor] computes, for every input. *)
From Coq Require Import Reals Lra Lia QArith Qcanon Qcabs Qreals ZArith.
From MV Require Import Base.Prelude Gen.Consts C08.Model C08.ProofsLoop.
Open Scope R_scope.

Lemma frac_R n d : (0 < d)%Z -> QcR (frac n d) = IZR n / IZR d.
Proof.
  intros H. unfold frac. rewrite QcR_Q2Qc. unfold Q2R. cbn [Qnum Qden].
  rewrite Z2Pos.id by exact H. reflexivity.
Qed.

Lemma Q2Qc_this (x : Qc) : Q2Qc (this x) = x.
Proof. apply Qc_is_canon. simpl. apply Qred_correct. Qed.

Lemma frac_this (x : Qc) : frac (Qnum (this x)) (Z.pos (Qden (this x))) = x.
Proof. unfold frac. cbn [Z.to_pos]. destruct x as [[n d] H]. cbn [this Qnum Qden]. apply (Q2Qc_this (Qcmake (n # d) H)). Qed.

Lemma frac_lt n1 d1 n2 d2 : (0 < d1)%Z -> (0 < d2)%Z ->
  ((frac n1 d1 < frac n2 d2)%Qc <-> (n1 * d2 < n2 * d1)%Z).
Proof.
  intros H1 H2. rewrite Qclt_R, !frac_R by assumption.
  assert (P1 : 0 < IZR d1) by (apply IZR_lt; exact H1).
  assert (P2 : 0 < IZR d2) by (apply IZR_lt; exact H2).
  split; intros H.
  - apply lt_IZR. rewrite !mult_IZR.
    apply (Rmult_lt_compat_r (IZR d1 * IZR d2)) in H; [| apply Rmult_lt_0_compat; assumption].
    replace (IZR n1 / IZR d1 * (IZR d1 * IZR d2)) with (IZR n1 * IZR d2) in H by (field; lra).
    replace (IZR n2 / IZR d2 * (IZR d1 * IZR d2)) with (IZR n2 * IZR d1) in H by (field; lra).
    exact H.
  - apply IZR_lt in H. rewrite !mult_IZR in H.
    apply (Rmult_lt_reg_r (IZR d1 * IZR d2)); [apply Rmult_lt_0_compat; assumption|].
    replace (IZR n1 / IZR d1 * (IZR d1 * IZR d2)) with (IZR n1 * IZR d2) by (field; lra).
    replace (IZR n2 / IZR d2 * (IZR d1 * IZR d2)) with (IZR n2 * IZR d1) by (field; lra).
    exact H.
Qed.

Lemma if_lt_dec {A} (a b : Qc) (z1 z2 : Z) (u v : A) :
  ((a < b)%Qc <-> (z1 < z2)%Z) ->
  (if Qclt_le_dec a b then u else v) = (if (z1 <? z2)%Z then u else v).
Proof.
  intros H. destruct (Qclt_le_dec a b) as [L|L]; destruct (Z.ltb_spec z1 z2) as [K|K]; try reflexivity.
  - apply H in L. lia.
  - apply H in K. exfalso. apply (Qcle_not_lt _ _ L K).
Qed.

Lemma fast_step_eq : forall bound F qn qd a b P M D j,
  (0 < qd)%Z -> (0 < b)%Z -> (0 < D)%Z -> (0 <= j)%Z ->
  taylor F bound (frac qn qd) (frac a b) (frac P D) (frac M D) j
  = taylor_fast F bound qn qd a b P M D j.
Proof.
  induction bound as [|bd IH]; intros F qn qd a b P M D j Hqd Hb HD Hj; [reflexivity|].
  cbn [taylor taylor_fast].
  set (j' := (j + 1)%Z). set (D' := (D * b * j')%Z). set (M' := ((M + P) * b * j')%Z).
  set (P' := (P * a)%Z). set (E := (Z.abs P' * F)%Z).
  assert (Hj' : (0 < j')%Z) by (unfold j'; lia).
  assert (HD' : (0 < D')%Z) by (unfold D'; apply Z.mul_pos_pos; [apply Z.mul_pos_pos|]; assumption).
  assert (RD : 0 < IZR D) by (apply IZR_lt; exact HD).
  assert (Rb : 0 < IZR b) by (apply IZR_lt; exact Hb).
  assert (Rj : 0 < IZR j') by (apply IZR_lt; exact Hj').
  assert (E1 : (frac M D + frac P D)%Qc = frac M' D').
  { apply QcR_inj. rewrite QcR_plus, !frac_R by assumption. unfold M', D'.
    rewrite !mult_IZR, plus_IZR. field. repeat split; lra. }
  assert (E2 : ((frac P D * frac a b) / QcZ j')%Qc = frac P' D').
  { apply QcR_inj. rewrite QcR_div; rewrite QcR_Z; [|lra].
    rewrite QcR_mult, !frac_R by assumption. unfold P', D'. rewrite !mult_IZR. field. repeat split; lra. }
  assert (E3 : (Qcabs (frac P' D') * QcZ F)%Qc = frac E D').
  { apply QcR_inj. rewrite QcR_mult, QcR_abs, QcR_Z, !frac_R by assumption. unfold E.
    rewrite mult_IZR, abs_IZR. unfold Rdiv. rewrite Rabs_mult, (Rabs_pos_eq (/ IZR D')).
    - ring.
    - left. apply Rinv_0_lt_compat, IZR_lt. exact HD'. }
  rewrite E1, E2, E3.
  assert (E4 : (frac M' D' + frac E D')%Qc = frac (M' + E) D').
  { apply QcR_inj. rewrite QcR_plus, !frac_R by assumption. rewrite plus_IZR. field.
    apply Rgt_not_eq, IZR_lt. exact HD'. }
  assert (E5 : (frac M' D' - frac E D')%Qc = frac (M' - E) D').
  { apply QcR_inj. rewrite QcR_minus, !frac_R by assumption. rewrite minus_IZR. field.
    apply Rgt_not_eq, IZR_lt. exact HD'. }
  rewrite E4, E5.
  rewrite (if_lt_dec (frac (M' + E) D') (frac qn qd) ((M' + E) * qd) (qn * D')) by (apply frac_lt; assumption).
  rewrite (if_lt_dec (frac qn qd) (frac (M' - E) D') (qn * D') ((M' - E) * qd)) by (apply frac_lt; assumption).
  rewrite (Z.mul_comm (M' + E) qd), (Z.mul_comm (M' - E) qd).
  rewrite IH by (try assumption; lia). reflexivity.
Qed.

Lemma fast2_eq : forall bound F qn qd a b P M D j, (0 < qd)%Z ->
  taylor_fast2 F bound a b (qn * D) (qd * M) (qd * P) j = taylor_fast F bound qn qd a b P M D j.
Proof.
  induction bound as [|bd IH]; intros F qn qd a b P M D j Hqd; [reflexivity|].
  cbn [taylor_fast2 taylor_fast].
  replace (qn * D * (b * (j + 1)))%Z with (qn * (D * b * (j + 1)))%Z by ring.
  replace ((qd * M + qd * P) * (b * (j + 1)))%Z with (qd * ((M + P) * b * (j + 1)))%Z by ring.
  replace (qd * P * a)%Z with (qd * (P * a))%Z by ring.
  rewrite (Z.abs_mul qd), (Z.abs_eq qd) by lia.
  replace (qd * ((M + P) * b * (j + 1)) + qd * Z.abs (P * a) * F)%Z
    with (qd * ((M + P) * b * (j + 1) + Z.abs (P * a) * F))%Z by ring.
  replace (qd * ((M + P) * b * (j + 1)) - qd * Z.abs (P * a) * F)%Z
    with (qd * ((M + P) * b * (j + 1) - Z.abs (P * a) * F))%Z by ring.
  rewrite IH by exact Hqd. reflexivity.
Qed.

Theorem fast_eq bound cmp x :
  taylor_comparison_fast bound cmp x = taylor_comparison bound cmp x.
Proof.
  unfold taylor_comparison_fast. destruct (Z.pos (Qden (this x)) <? 1048576)%Z; [reflexivity|].
  rewrite fast2_eq by lia.
  unfold taylor_comparison.
  rewrite <- fast_step_eq by lia.
  rewrite !frac_this. f_equal.
  apply QcR_inj. rewrite frac_R, QcR_Z by lia. field. apply Rgt_not_eq, IZR_lt. lia.
Qed.

Theorem lottery_fast_eq phi c ev stake total :
  lottery_fast phi c ev stake total = lottery phi c ev stake total.
Proof.
  unfold lottery_fast, lottery. destruct (phi_is_one phi); [reflexivity|].
  destruct c as [c|]; [|reflexivity]. destruct (total =? 0)%Z; [reflexivity|]. rewrite fast_eq. reflexivity.
Qed.

(* the two correspondence entry points are the same function *)
Theorem run_eq pm pe c ev stake total : run pm pe c ev stake total = run_literal pm pe c ev stake total.
Proof.
  unfold run, run_literal, won. rewrite lottery_fast_eq.
  destruct (lottery _ _ _ _ _); reflexivity.
Qed.
