(* C08/ProofsLottery.v — from the loop to `is_lottery_won`: the inputs of the
   comparison over the reals, the equivalence between `q < exp x` and the
   property's formulation `ev/2^512 < 1 - (1-phi_f)^(stake/total)`, and the
   wrapper-level lemmas (soundness, cap band, monotonicity, zero stake, phi_f = 1). *)
From Coq Require Import Reals Lra Lia QArith Qcanon Qcabs Qreals ZArith.
From Coquelicot Require Import Coquelicot.
From MV Require Import Base.Prelude Gen.Consts C08.Model C08.ProofsExp C08.ProofsLoop.
Open Scope R_scope.

(* ---- the real quantities the property talks about ------------------------------- *)
Definition draw (ev : Z) : R := IZR ev / IZR EV_MAX.                    (* p = ev / 2^512 *)
Definition weight (stake total : Z) : R := IZR stake / IZR total.       (* w = stake / total *)
(* 1 - (1-phi_f)^w  written with c = ln(1-phi_f):  1 - exp (w c) *)
Definition win_prob (c : R) (stake total : Z) : R := 1 - exp (weight stake total * c).
Definition xr (c : R) (stake total : Z) : R := - (weight stake total * c).
Definition qr (ev : Z) : R := IZR EV_MAX / (IZR EV_MAX - IZR ev).

(* with c = ln (1 - phi_f) this is the property's own formula *)
Lemma win_prob_pow phi stake total : phi < 1 ->
  win_prob (ln (1 - phi)) stake total = 1 - Rpower (1 - phi) (weight stake total).
Proof. intros _. unfold win_prob, Rpower. reflexivity. Qed.

Lemma EV_MAX_pos : 0 < IZR EV_MAX.
Proof. apply IZR_lt. unfold EV_MAX. apply Z.pow_pos_nonneg; lia. Qed.

Record Dom (c : Qc) (ev stake total : Z) : Prop := {
  dom_ev : (0 <= ev < EV_MAX)%Z;
  dom_stake : (0 <= stake)%Z;
  dom_total : (0 < total)%Z;
  dom_c : QcR c <= 0
}.

Lemma q_real ev : (0 <= ev < EV_MAX)%Z -> QcR (lottery_q ev) = qr ev.
Proof.
  intros H. unfold lottery_q, qr. rewrite QcR_div; rewrite !QcR_Z, ?minus_IZR; [reflexivity|].
  assert (IZR ev < IZR EV_MAX) by (apply IZR_lt; lia). lra.
Qed.

Lemma x_real c stake total : (total <> 0)%Z -> QcR (lottery_x c stake total) = xr (QcR c) stake total.
Proof.
  intros H. unfold lottery_x, xr, weight. rewrite QcR_opp, QcR_mult, QcR_div; rewrite !QcR_Z; [reflexivity|].
  apply not_0_IZR; exact H.
Qed.

Lemma weight_nonneg stake total : (0 <= stake)%Z -> (0 < total)%Z -> 0 <= weight stake total.
Proof.
  intros H1 H2. unfold weight. apply Rmult_le_pos; [apply IZR_le; exact H1|].
  left; apply Rinv_0_lt_compat, IZR_lt; exact H2.
Qed.

Lemma x_nonneg c ev stake total : Dom c ev stake total -> 0 <= xr (QcR c) stake total.
Proof.
  intros [_ H1 H2 H3]. unfold xr. assert (A := weight_nonneg stake total H1 H2). nra.
Qed.

Lemma draw_range ev : (0 <= ev < EV_MAX)%Z -> 0 <= draw ev < 1.
Proof.
  intros [H1 H2]. assert (P := EV_MAX_pos). unfold draw. split.
  - apply Rmult_le_pos; [apply IZR_le; exact H1 | left; apply Rinv_0_lt_compat; exact P].
  - apply Rmult_lt_reg_r with (IZR EV_MAX); [exact P|]. unfold Rdiv. rewrite Rmult_assoc, Rinv_l by lra.
    apply IZR_lt in H2. lra.
Qed.

Lemma qr_draw ev : (0 <= ev < EV_MAX)%Z -> qr ev = / (1 - draw ev).
Proof.
  intros H. assert (P := EV_MAX_pos). assert (IZR ev < IZR EV_MAX) by (apply IZR_lt; lia).
  unfold qr, draw. field. split; lra.
Qed.

(* q < exp x  <=>  p < 1 - exp (-x), and the same for >, <= *)
Lemma link_lt ev x : (0 <= ev < EV_MAX)%Z -> (qr ev < exp x <-> draw ev < 1 - exp (- x)).
Proof.
  intros H. rewrite (qr_draw ev H). destruct (draw_range ev H) as [_ Hp].
  assert (Hd : 0 < 1 - draw ev) by lra. assert (He := exp_pos x).
  rewrite exp_Ropp. split; intros L.
  - assert (/ exp x < 1 - draw ev); [|lra].
    rewrite <- (Rinv_inv (1 - draw ev)). apply Rinv_lt_contravar; [|exact L].
    apply Rmult_lt_0_compat; [apply Rinv_0_lt_compat; exact Hd | exact He].
  - assert (L' : / exp x < 1 - draw ev) by lra.
    rewrite <- (Rinv_inv (exp x)). apply Rinv_lt_contravar; [|exact L'].
    apply Rmult_lt_0_compat; [apply Rinv_0_lt_compat; exact He | exact Hd].
Qed.

Lemma link_gt ev x : (0 <= ev < EV_MAX)%Z -> (exp x < qr ev <-> 1 - exp (- x) < draw ev).
Proof.
  intros H. rewrite (qr_draw ev H). destruct (draw_range ev H) as [_ Hp].
  assert (Hd : 0 < 1 - draw ev) by lra. assert (He := exp_pos x).
  rewrite exp_Ropp. split; intros L.
  - assert (1 - draw ev < / exp x); [|lra].
    rewrite <- (Rinv_inv (1 - draw ev)). apply Rinv_lt_contravar; [|exact L].
    apply Rmult_lt_0_compat; [exact He | apply Rinv_0_lt_compat; exact Hd].
  - assert (L' : 1 - draw ev < / exp x) by lra.
    rewrite <- (Rinv_inv (exp x)). apply Rinv_lt_contravar; [|exact L'].
    apply Rmult_lt_0_compat; [exact Hd | apply Rinv_0_lt_compat; exact He].
Qed.

Lemma win_prob_x c stake total : 1 - exp (- xr c stake total) = win_prob c stake total.
Proof. unfold win_prob, xr. rewrite Ropp_involutive. reflexivity. Qed.

(* the property's formulation <=> the comparison the code performs *)
Theorem link c ev stake total : (0 <= ev < EV_MAX)%Z ->
  (qr ev < exp (xr c stake total) <-> draw ev < win_prob c stake total) /\
  (exp (xr c stake total) < qr ev <-> win_prob c stake total < draw ev).
Proof. intros H. rewrite <- win_prob_x. split; [apply link_lt | apply link_gt]; exact H. Qed.

(* ---- unfolding the wrapper ------------------------------------------------------- *)
Definition BOUND : nat := N.to_nat TAYLOR_BOUND.
Definition FACTOR : Z := TAYLOR_ERR_FACTOR.

Lemma lottery_taylor phi c ev stake total o :
  lottery phi (Some c) ev stake total = Ok (Taylor o) ->
  total <> 0%Z /\ phi_is_one phi = false /\
  taylor FACTOR BOUND (lottery_q ev) (lottery_x c stake total) (lottery_x c stake total) (QcZ 1) 1 = o.
Proof.
  unfold lottery. destruct (phi_is_one phi); [discriminate|].
  destruct (Z.eqb_spec total 0); [discriminate|].
  intros H. injection H as <-. split; [assumption | split; reflexivity].
Qed.

(* validity of the lost exit, over the translated constant: FACTOR * next_term bounds the
   tail of the series from the first iteration on (ProofsSharp: true for x <= 53/20 when
   FACTOR >= 3; Refuted: false at x = 27/10) *)
Definition lost_exit_valid (x : R) : Prop := tail_ok (IZR FACTOR) x.

Section Wrapper.
  Variables (phi c : Qc) (ev stake total : Z).
  Hypothesis D : Dom c ev stake total.
  Let x := xr (QcR c) stake total.

  Lemma w_won_sound : (0 <= FACTOR)%Z ->
    lottery phi (Some c) ev stake total = Ok (Taylor Won) -> draw ev < win_prob (QcR c) stake total.
  Proof.
    intros HF H. apply lottery_taylor in H. destruct H as (Ht & _ & H).
    apply won_sound in H; [| exact HF | rewrite x_real by exact Ht; apply (x_nonneg c ev); exact D].
    rewrite q_real, x_real in H by (try exact Ht; apply D).
    apply (link (QcR c) ev stake total (dom_ev _ _ _ _ D)). exact H.
  Qed.

  Lemma w_lost_sound : lost_exit_valid x ->
    lottery phi (Some c) ev stake total = Ok (Taylor Lost) -> win_prob (QcR c) stake total < draw ev.
  Proof.
    intros Hv H. apply lottery_taylor in H. destruct H as (Ht & _ & H).
    apply lost_sound in H; [| rewrite x_real by exact Ht; apply (x_nonneg c ev); exact D
                            | rewrite x_real by exact Ht; exact Hv].
    rewrite q_real, x_real in H by (try exact Ht; apply D).
    apply (link (QcR c) ev stake total (dom_ev _ _ _ _ D)). exact H.
  Qed.

  Lemma w_cap_band : lost_exit_valid x -> (1 <= BOUND)%nat ->
    lottery phi (Some c) ev stake total = Ok (Taylor Cap) ->
    - (2 * IZR FACTOR * t x (Datatypes.S BOUND)) <= qr ev - exp x <= IZR FACTOR * t x (Datatypes.S BOUND).
  Proof.
    intros Hv HB H. apply lottery_taylor in H. destruct H as (Ht & _ & H).
    revert HB H. generalize BOUND. intros [|b] HB H; [lia|].
    apply cap_band in H; [| rewrite x_real by exact Ht; apply (x_nonneg c ev); exact D
                          | rewrite x_real by exact Ht; exact Hv].
    rewrite q_real, x_real in H by (try exact Ht; apply D). exact H.
  Qed.
End Wrapper.

(* ---- monotonicity ---------------------------------------------------------------- *)
Lemma xr_mono_stake c stake stake' total : c <= 0 -> (0 < total)%Z -> (stake <= stake')%Z ->
  xr c stake total <= xr c stake' total.
Proof.
  intros Hc Ht Hs. unfold xr, weight.
  assert (0 < / IZR total) by (apply Rinv_0_lt_compat, IZR_lt; exact Ht).
  apply IZR_le in Hs. unfold Rdiv.
  assert (0 <= (IZR stake' - IZR stake) * / IZR total) by nra. nra.
Qed.

Lemma qr_mono ev ev' : (0 <= ev' <= ev)%Z -> (ev < EV_MAX)%Z -> qr ev' <= qr ev.
Proof.
  intros [H0 H1] H2. unfold qr. assert (P := EV_MAX_pos).
  apply IZR_le in H1. apply IZR_lt in H2.
  unfold Rdiv. apply Rmult_le_compat_l; [lra|]. apply Rinv_le_contravar; lra.
Qed.

Lemma w_mono_stake phi c ev stake stake' total :
  (0 <= FACTOR)%Z -> Dom c ev stake total -> (stake <= stake')%Z ->
  lottery phi (Some c) ev stake total = Ok (Taylor Won) ->
  lottery phi (Some c) ev stake' total <> Ok (Taylor Lost).
Proof.
  intros HF D Hs H H'. apply lottery_taylor in H. destruct H as (Ht & _ & H).
  apply lottery_taylor in H'. destruct H' as (_ & _ & H').
  revert H'. apply mono_x with (x := lottery_x c stake total); [exact HF | | exact H].
  rewrite !x_real by exact Ht. split; [apply (x_nonneg c ev); exact D|].
  apply xr_mono_stake; [apply D | apply D | exact Hs].
Qed.

Lemma w_mono_draw phi c ev ev' stake total :
  (0 <= FACTOR)%Z -> Dom c ev stake total -> (0 <= ev' <= ev)%Z ->
  lottery phi (Some c) ev stake total = Ok (Taylor Won) ->
  lottery phi (Some c) ev' stake total <> Ok (Taylor Lost).
Proof.
  intros HF D He H H'. apply lottery_taylor in H. destruct H as (Ht & _ & H).
  apply lottery_taylor in H'. destruct H' as (_ & _ & H').
  revert H'. apply mono_q with (cmp := lottery_q ev); [exact HF | | | exact H].
  - rewrite x_real by exact Ht. apply (x_nonneg c ev); exact D.
  - destruct (dom_ev _ _ _ _ D). rewrite !q_real by lia. apply qr_mono; lia.
Qed.

(* ---- zero stake ------------------------------------------------------------------ *)
Lemma x_zero_stake c total : (total <> 0)%Z -> lottery_x c 0 total = 0%Qc.
Proof.
  intros Ht. apply QcR_inj. rewrite x_real by exact Ht. unfold xr, weight. rewrite QcR_0. lra.
Qed.

Lemma w_zero_stake phi c ev total : (0 <= FACTOR)%Z -> (0 <= ev < EV_MAX)%Z ->
  lottery phi (Some c) ev 0 total <> Ok (Taylor Won).
Proof.
  intros HF He H. apply lottery_taylor in H. destruct H as (Ht & _ & H).
  rewrite x_zero_stake in H by exact Ht. revert H. apply zero_x_not_won; [exact HF|].
  rewrite q_real by exact He. rewrite (qr_draw ev He). destruct (draw_range ev He).
  rewrite <- Rinv_1 at 1. apply Rinv_le_contravar; lra.
Qed.

(* ---- the phi_f = 1 shortcut ------------------------------------------------------ *)
Lemma QcR_eps : QcR F64_EPSILON = / 2 ^ 52.
Proof.
  unfold F64_EPSILON, dyadic. rewrite QcR_Q2Qc.
  replace (inject_Z 1 * Qpower (2 # 1) (-52))%Q with (1 # (2 ^ 52))%Q by reflexivity.
  unfold Q2R. cbn [Qnum Qden]. rewrite Rmult_1_l. f_equal.
  rewrite pow_IZR. reflexivity.
Qed.

Lemma phi_is_one_spec phi : phi_is_one phi = true <-> Rabs (QcR phi - 1) < / 2 ^ 52.
Proof.
  unfold phi_is_one. rewrite <- QcR_eps. replace 1 with (QcR (QcZ 1)) by apply QcR_Z.
  rewrite <- QcR_minus, <- QcR_abs.
  destruct (Qclt_le_dec (Qcabs (phi - QcZ 1)) F64_EPSILON) as [H|H].
  - split; [intros _; apply Qclt_R; exact H | reflexivity].
  - split; [discriminate|]. intros L. apply Qcle_R in H. lra.
Qed.

Lemma w_phi_one phi c ev stake total :
  phi_is_one phi = true -> won phi c ev stake total = Ok true.
Proof. intros H. unfold won, lottery. rewrite H. reflexivity. Qed.
