(* C08/Refuted.v — full-strength statements the faithful model violates, with witnesses.
   Both are confirmed on the real `is_lottery_won` by the harness on every run
   (kinds witness-large-x / witness-phi-shortcut) and recorded in known_findings.json. *)
From Coq Require Import Reals QArith Qcanon ZArith.
From MV Require Import Base.Prelude Gen.Consts C08.Model C08.ProofsExp C08.ProofsSharp C08.ProofsLoop C08.ProofsLottery C08.ProofsWitness.
Open Scope R_scope.

(* the lost exit is wrong beyond its validity range: phi_f = 0.95, a party holding all the
   stake, draw 0.945 < 0.95: the code answers `false` at the first iteration *)
Theorem C08_refuted_large_x : exists phi c ev stake total,
  Dom c ev stake total /\ Known_large_x c ev stake total /\
  lottery phi (Some c) ev stake total = Ok (Taylor Lost) /\
  draw ev < win_prob (QcR c) stake total.
Proof. exact refuted_large_x. Qed.

(* the validity range x <= 53/20 of C08_lost_sound is sharp: at x = 27/10, q = 147/10 the
   loop answers Lost although q < exp x *)
Theorem C08_refuted_at_2_7 :
  taylor_comparison (N.to_nat TAYLOR_BOUND) (Q2Qc (147 # 10)) (Q2Qc (27 # 10)) = Lost /\
  QcR (Q2Qc (147 # 10)) < exp (QcR (Q2Qc (27 # 10))).
Proof. exact sharp_witness. Qed.

(* phi_f = 1 - 2^-53 is treated as 1: won although the draw is above the exact threshold *)
Theorem C08_refuted_phi_shortcut : exists phi c ev stake total,
  phi <> QcZ 1 /\ Dom c ev stake total /\
  won phi (Some c) ev stake total = Ok true /\
  win_prob (QcR c) stake total < draw ev.
Proof. exact refuted_phi_shortcut. Qed.
