(* C08/ProofsLoop.v — the executable loop [C08.Model.taylor] characterised over the
   reals: its answer is determined by the first iteration n whose thresholds
   S_n -+ F t_{n+1} decide the comparison.  Soundness of both exits, the cap band
   and monotonicity are consequences. *)
From Coq Require Import Reals Lra Lia QArith Qcanon Qcabs Qreals ZArith.
From Coquelicot Require Import Coquelicot.
From MV Require Import Base.Prelude Gen.Consts C08.Model C08.ProofsExp.
Open Scope R_scope.

Definition QcR (q : Qc) : R := Q2R (this q).

Lemma QcR_Q2Qc q : QcR (Q2Qc q) = Q2R q.
Proof. unfold QcR, Q2Qc. cbn [this]. apply Qeq_eqR, Qred_correct. Qed.
Lemma QcR_plus a b : QcR (a + b)%Qc = QcR a + QcR b.
Proof. unfold Qcplus. rewrite QcR_Q2Qc. apply Q2R_plus. Qed.
Lemma QcR_opp a : QcR (- a)%Qc = - QcR a.
Proof. unfold Qcopp. rewrite QcR_Q2Qc. apply Q2R_opp. Qed.
Lemma QcR_minus a b : QcR (a - b)%Qc = QcR a - QcR b.
Proof. unfold Qcminus. rewrite QcR_plus, QcR_opp. lra. Qed.
Lemma QcR_mult a b : QcR (a * b)%Qc = QcR a * QcR b.
Proof. unfold Qcmult. rewrite QcR_Q2Qc. apply Q2R_mult. Qed.
Lemma QcR_Z z : QcR (QcZ z) = IZR z.
Proof. unfold QcZ. rewrite QcR_Q2Qc. unfold Q2R, inject_Z. cbn [Qnum Qden]. rewrite Rinv_1. lra. Qed.
Lemma QcR_0 : QcR 0%Qc = 0.
Proof. change 0%Qc with (QcZ 0). apply QcR_Z. Qed.
Lemma QcR_inv a : QcR a <> 0 -> QcR (/ a)%Qc = / QcR a.
Proof.
  intros H. unfold Qcinv. rewrite QcR_Q2Qc. apply Q2R_inv.
  intros E. apply H. unfold QcR. rewrite (Qeq_eqR _ _ E). unfold Q2R. simpl. lra.
Qed.
Lemma QcR_div a b : QcR b <> 0 -> QcR (a / b)%Qc = QcR a / QcR b.
Proof. intros H. unfold Qcdiv. rewrite QcR_mult, QcR_inv by exact H. reflexivity. Qed.
Lemma Qclt_R a b : (a < b)%Qc <-> QcR a < QcR b.
Proof. unfold Qclt, QcR. split; [apply Qlt_Rlt | apply Rlt_Qlt]. Qed.
Lemma Qcle_R a b : (a <= b)%Qc <-> QcR a <= QcR b.
Proof. unfold Qcle, QcR. split; [apply Qle_Rle | apply Rle_Qle]. Qed.
Lemma QcR_abs a : QcR (Qcabs a) = Rabs (QcR a).
Proof.
  destruct (Qclt_le_dec a 0) as [H|H].
  - rewrite Qcabs_neg by (apply Qclt_le_weak; exact H). apply Qclt_R in H. rewrite QcR_0 in H.
    rewrite QcR_opp, Rabs_left by exact H. reflexivity.
  - rewrite Qcabs_pos by exact H. apply Qcle_R in H. rewrite QcR_0 in H.
    rewrite Rabs_pos_eq by exact H. reflexivity.
Qed.
Lemma QcR_inj a b : QcR a = QcR b -> a = b.
Proof. intros H. apply Qc_is_canon. apply eqR_Qeq. exact H. Qed.

(* the loop's answer, by the first decisive iteration in first..last *)
Inductive verdict_at (F x q : R) (first last : nat) : outcome -> Prop :=
| v_lost n : (first <= n <= last)%nat -> hi F x n < q ->
    (forall j, (first <= j < n)%nat -> ~ hi F x j < q /\ ~ q < lo F x j) -> verdict_at F x q first last Lost
| v_won n : (first <= n <= last)%nat -> ~ hi F x n < q -> q < lo F x n ->
    (forall j, (first <= j < n)%nat -> ~ hi F x j < q /\ ~ q < lo F x j) -> verdict_at F x q first last Won
| v_cap : (forall j, (first <= j <= last)%nat -> ~ hi F x j < q /\ ~ q < lo F x j) -> verdict_at F x q first last Cap.

(* invariant: entering iteration j (j >= 1): phi = S_{j-1}, new_x = t_j, divisor = j *)
Lemma taylor_char : forall F bound cmp x (j : nat) new_x phi,
  (1 <= j)%nat -> 0 <= QcR x ->
  QcR phi = S (QcR x) (pred j) ->
  QcR new_x = t (QcR x) j ->
  match bound with
  | O => taylor F bound cmp x new_x phi (Z.of_nat j) = Cap
  | Datatypes.S b => verdict_at (IZR F) (QcR x) (QcR cmp) j (j + b) (taylor F bound cmp x new_x phi (Z.of_nat j))
  end.
Proof.
  intros F. induction bound as [|b IH]; intros cmp x j new_x phi Hj Hx Hphi Hnx; [reflexivity|].
  cbn [taylor].
  set (phi' := (phi + new_x)%Qc).
  set (nx' := ((new_x * x) / QcZ (Z.of_nat j + 1))%Qc).
  assert (Hphi' : QcR phi' = S (QcR x) j).
  { unfold phi', S. rewrite QcR_plus, Hphi, Hnx. destruct j as [|j']; [lia|]. simpl pred. unfold S. simpl sum_f_R0. reflexivity. }
  assert (Hdiv : IZR (Z.of_nat j + 1) = INR (Datatypes.S j)) by (rewrite S_INR, INR_IZR_INZ, plus_IZR; reflexivity).
  assert (Hnx' : QcR nx' = t (QcR x) (Datatypes.S j)).
  { unfold nx'. rewrite QcR_div; rewrite QcR_Z, Hdiv; [| apply not_0_INR; lia].
    rewrite QcR_mult, Hnx, t_S. reflexivity. }
  assert (Habs : Qcabs nx' = nx').
  { apply Qcabs_pos. apply Qcle_R. rewrite QcR_0, Hnx'. apply t_nonneg; exact Hx. }
  rewrite Habs.
  assert (Hhi : QcR (phi' + nx' * QcZ F)%Qc = hi (IZR F) (QcR x) j).
  { unfold hi. rewrite QcR_plus, QcR_mult, Hphi', Hnx', QcR_Z. lra. }
  assert (Hlo : QcR (phi' - nx' * QcZ F)%Qc = lo (IZR F) (QcR x) j).
  { unfold lo. rewrite QcR_minus, QcR_mult, Hphi', Hnx', QcR_Z. lra. }
  destruct (Qclt_le_dec (phi' + nx' * QcZ F)%Qc cmp) as [Hl|Hl].
  - apply (v_lost _ _ _ _ _ j); [lia | apply Qclt_R in Hl; rewrite Hhi in Hl; exact Hl | intros; lia].
  - assert (Hnl : ~ hi (IZR F) (QcR x) j < QcR cmp) by (apply Qcle_R in Hl; rewrite Hhi in Hl; lra).
    destruct (Qclt_le_dec cmp (phi' - nx' * QcZ F)%Qc) as [Hw|Hw].
    + apply (v_won _ _ _ _ _ j); [lia | exact Hnl | apply Qclt_R in Hw; rewrite Hlo in Hw; exact Hw | intros; lia].
    + assert (Hnw : ~ QcR cmp < lo (IZR F) (QcR x) j) by (apply Qcle_R in Hw; rewrite Hlo in Hw; lra).
      replace (Z.of_nat j + 1)%Z with (Z.of_nat (Datatypes.S j)) by lia.
      specialize (IH cmp x (Datatypes.S j) nx' phi' ltac:(lia) Hx Hphi' Hnx').
      destruct b as [|b'].
      * rewrite IH. apply v_cap. intros i Hi. replace i with j by lia. split; assumption.
      * replace (j + Datatypes.S b')%nat with (Datatypes.S j + b')%nat by lia.
        remember (taylor F (Datatypes.S b') cmp x nx' phi' (Z.of_nat (Datatypes.S j))) as r eqn:Er. clear Er.
        destruct IH as [n Hn Hq Hbefore | n Hn Hnq Hq Hbefore | Hall].
        -- apply (v_lost _ _ _ _ _ n); [lia | exact Hq |]. intros i Hi. destruct (Nat.eq_dec i j) as [->|Hne]; [split; assumption | apply Hbefore; lia].
        -- apply (v_won _ _ _ _ _ n); [lia | exact Hnq | exact Hq |]. intros i Hi. destruct (Nat.eq_dec i j) as [->|Hne]; [split; assumption | apply Hbefore; lia].
        -- apply v_cap. intros i Hi. destruct (Nat.eq_dec i j) as [->|Hne]; [split; assumption | apply Hall; lia].
Qed.

(* the whole run, as started by `taylor_comparison` *)
Lemma run_char F b cmp x : 0 <= QcR x ->
  verdict_at (IZR F) (QcR x) (QcR cmp) 1 (Datatypes.S b) (taylor F (Datatypes.S b) cmp x x (QcZ 1) 1).
Proof.
  intros Hx.
  assert (C := taylor_char F (Datatypes.S b) cmp x 1 x (QcZ 1) (le_n _) Hx).
  change (Z.of_nat 1) with 1%Z in C. replace (1 + b)%nat with (Datatypes.S b) in C by lia.
  apply C.
  - rewrite QcR_Z. unfold S, t. simpl. lra.
  - unfold t. simpl. field.
Qed.

Lemma run_zero F cmp x : taylor F 0 cmp x x (QcZ 1) 1 = Cap.
Proof. reflexivity. Qed.

(* ---- soundness of the two exits -------------------------------------------------- *)

Theorem won_sound F bound cmp x :
  (0 <= F)%Z -> 0 <= QcR x ->
  taylor F bound cmp x x (QcZ 1) 1 = Won -> QcR cmp < exp (QcR x).
Proof.
  intros HF Hx Hw. destruct bound as [|b]; [discriminate|].
  assert (C := run_char F b cmp x Hx). rewrite Hw in C.
  inversion C as [| n Hn Hnq Hq Hbefore |].
  assert (A := exp_lower (QcR x) n Hx). assert (B := t_nonneg (QcR x) (Datatypes.S n) Hx).
  assert (HF' : 0 <= IZR F) by (apply IZR_le; exact HF).
  unfold lo in Hq. nra.
Qed.

(* the error term does bound the tail: exp x <= S_n + F t_{n+1} from the first iteration on *)
Definition tail_ok (F x : R) : Prop := forall n, (1 <= n)%nat -> exp x <= hi F x n.

Lemma tail_ok_basic F x : 0 <= x -> 0 < F -> 3 <= F * (3 - x) -> tail_ok F x.
Proof. intros Hx HF Hr n Hn. apply lost_exit_bound; assumption. Qed.

Theorem lost_sound F bound cmp x :
  0 <= QcR x -> tail_ok (IZR F) (QcR x) ->
  taylor F bound cmp x x (QcZ 1) 1 = Lost -> exp (QcR x) < QcR cmp.
Proof.
  intros Hx Hr Hl. destruct bound as [|b]; [discriminate|].
  assert (C := run_char F b cmp x Hx). rewrite Hl in C.
  inversion C as [n Hn Hq Hbefore | |].
  assert (A := Hr n (proj1 Hn)).
  clear - Hq A. lra.
Qed.

(* a lost answer names the iteration whose threshold q exceeded *)
Lemma lost_threshold F bound cmp x : 0 <= QcR x ->
  taylor F bound cmp x x (QcZ 1) 1 = Lost ->
  exists n, (1 <= n <= bound)%nat /\ hi (IZR F) (QcR x) n < QcR cmp.
Proof.
  intros Hx Hl. destruct bound as [|b]; [discriminate|].
  assert (C := run_char F b cmp x Hx). rewrite Hl in C.
  inversion C as [n Hn Hq Hbefore | |]. exists n. split; assumption.
Qed.

(* reaching the cap: q is within F t_{B+1} of S_B, hence (where the tail bound holds)
   exp x - 2 F t_{B+1} <= q <= exp x + F t_{B+1} *)
Theorem cap_band F b cmp x :
  0 <= QcR x -> tail_ok (IZR F) (QcR x) ->
  taylor F (Datatypes.S b) cmp x x (QcZ 1) 1 = Cap ->
  - (2 * IZR F * t (QcR x) (Datatypes.S (Datatypes.S b))) <= QcR cmp - exp (QcR x)
    <= IZR F * t (QcR x) (Datatypes.S (Datatypes.S b)).
Proof.
  intros Hx Hr Hc.
  assert (C := run_char F b cmp x Hx). rewrite Hc in C.
  inversion C as [| | Hall].
  destruct (Hall (Datatypes.S b) ltac:(lia)) as [H1 H2].
  assert (A := Hr (Datatypes.S b) ltac:(lia)).
  assert (B := exp_lower (QcR x) (Datatypes.S b) Hx).
  unfold hi, lo in *. clear - H1 H2 A B. lra.
Qed.

(* for every x >= 0 (also where the lost exit is unsound) the cap means q is
   sandwiched by the last thresholds *)
Theorem cap_sandwich F b cmp x :
  0 <= QcR x -> taylor F (Datatypes.S b) cmp x x (QcZ 1) 1 = Cap ->
  forall j, (1 <= j <= Datatypes.S b)%nat ->
  lo (IZR F) (QcR x) j <= QcR cmp <= hi (IZR F) (QcR x) j.
Proof.
  intros Hx Hc j Hj.
  assert (C := run_char F b cmp x Hx). rewrite Hc in C.
  inversion C as [| | Hall]. destruct (Hall j Hj). lra.
Qed.

(* ---- monotonicity (all x >= 0, any factor >= 0) ---------------------------------- *)

Theorem mono_x F bound cmp x x' :
  (0 <= F)%Z -> 0 <= QcR x <= QcR x' ->
  taylor F bound cmp x x (QcZ 1) 1 = Won ->
  taylor F bound cmp x' x' (QcZ 1) 1 <> Lost.
Proof.
  intros HF Hx Hw Hl. destruct bound as [|b]; [discriminate|].
  assert (HF' : 0 <= IZR F) by (apply IZR_le; exact HF).
  assert (C := run_char F b cmp x (proj1 Hx)).
  assert (C' := run_char F b cmp x' ltac:(lra)).
  rewrite Hw in C. rewrite Hl in C'.
  inversion C as [| n Hn Hnq Hq Hbefore |]. inversion C' as [n' Hn' Hq' Hbefore' | |].
  assert (Hhx : hi (IZR F) (QcR x) n' < QcR cmp) by (eapply Rle_lt_trans; [apply hi_mono; [exact HF' | exact Hx] | exact Hq']).
  destruct (le_lt_dec n n') as [Hle|Hlt].
  - assert (A := lo_le_hi (IZR F) (QcR x) n n' HF' (proj1 Hx) Hle). lra.
  - destruct (Hbefore n' ltac:(lia)) as [Hc _]. contradiction.
Qed.

Theorem mono_q F bound cmp cmp' x :
  (0 <= F)%Z -> 0 <= QcR x -> QcR cmp' <= QcR cmp ->
  taylor F bound cmp x x (QcZ 1) 1 = Won ->
  taylor F bound cmp' x x (QcZ 1) 1 <> Lost.
Proof.
  intros HF Hx Hq Hw Hl. destruct bound as [|b]; [discriminate|].
  assert (HF' : 0 <= IZR F) by (apply IZR_le; exact HF).
  assert (C := run_char F b cmp x Hx).
  assert (C' := run_char F b cmp' x Hx).
  rewrite Hw in C. rewrite Hl in C'.
  inversion C as [| n Hn Hnq Hqw Hbefore |]. inversion C' as [n' Hn' Hq' Hbefore' | |].
  destruct (le_lt_dec n n') as [Hle|Hlt].
  - assert (A := lo_le_hi (IZR F) (QcR x) n n' HF' Hx Hle). lra.
  - destruct (Hbefore n' ltac:(lia)) as [Hc _]. apply Hc. lra.
Qed.

(* x = 0: never won, never lost before the cap unless q > 1 *)
Theorem zero_x_not_won F bound cmp :
  (0 <= F)%Z -> 1 <= QcR cmp -> taylor F bound cmp 0%Qc 0%Qc (QcZ 1) 1 <> Won.
Proof.
  intros HF Hq Hw.
  assert (H := won_sound F bound cmp 0%Qc HF ltac:(rewrite QcR_0; lra) Hw).
  rewrite QcR_0, exp_0 in H. lra.
Qed.
