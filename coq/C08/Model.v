(* C08/Model.v — executable model of mithril-stm's signing lottery
   (proof_system/concatenation/eligibility.rs, num-integer backend).

   [taylor] is the literal transcription of `taylor_comparison`'s loop over
   canonical rationals (Qc: every operation re-normalises, so the term runs
   fast under vm_compute and equality is Leibniz in the proofs); the state is
   (new_x, phi, divisor), both exit tests are the code's, the cap returns
   `false` in the code and the distinguished [Cap] here (the wrapper maps it
   to `false`).  The iteration bound and the error factor are the constants
   the translator reads from the source (Gen.Consts).

   [lottery] is `is_lottery_won`: the |phi_f - 1| < EPSILON shortcut,
   q = 2^512 / (2^512 - ev), x = -(stake/total) * c, where c is the exact
   rational value of the f64 `(1.0 - phi_f).ln()` (float boundary: supplied by
   the harness; [None] = NaN / infinite, on which `Ratio::from_float(..)
   .expect(..)` panics).  Definitions only; lemmas live in Proofs*.v. *)
From Coq Require Import QArith Qcanon Qcabs ZArith.
From MV Require Import Base.Prelude Gen.Consts.

Inductive outcome := Won | Lost | Cap.

Definition QcZ (z : Z) : Qc := Q2Qc (inject_Z z).

(* one run of the `for _ in 0..bound` loop entered with (new_x, phi, divisor) *)
Fixpoint taylor (factor : Z) (bound : nat) (cmp x new_x phi : Qc) (divisor : Z) : outcome :=
  match bound with
  | O => Cap
  | S b =>
    let phi' := (phi + new_x)%Qc in                                   (* phi += new_x *)
    let divisor' := (divisor + 1)%Z in                                (* divisor += 1 *)
    let new_x' := ((new_x * x) / QcZ divisor')%Qc in                  (* new_x = new_x * x / divisor *)
    let err := (Qcabs new_x' * QcZ factor)%Qc in                      (* |new_x| * 3 *)
    if Qclt_le_dec (phi' + err)%Qc cmp then Lost                      (* cmp > phi + err  => false *)
    else if Qclt_le_dec cmp (phi' - err)%Qc then Won                  (* cmp < phi - err  => true *)
    else taylor factor b cmp x new_x' phi' divisor'
  end.

(* `taylor_comparison(bound, cmp, x)` with the source's error factor *)
Definition taylor_comparison (bound : nat) (cmp x : Qc) : outcome :=
  taylor TAYLOR_ERR_FACTOR bound cmp x x (QcZ 1) 1.

Definition EV_MAX : Z := (2 ^ 512)%Z.

(* exact value of a finite f64 given as mantissa * 2^exponent *)
Definition dyadic (m e : Z) : Qc := Q2Qc (inject_Z m * Qpower (2 # 1) e).

(* f64::EPSILON = 2^-52 *)
Definition F64_EPSILON : Qc := dyadic 1 (-52).

(* `(phi_f - 1.0).abs() < f64::EPSILON`.  On f64 the subtraction is exact for
   phi_f in [1/2, 2] (Sterbenz) and its result is >= 1/2 in magnitude
   otherwise, so the test on exact rationals is the float test. *)
Definition phi_is_one (phi : Qc) : bool :=
  if Qclt_le_dec (Qcabs (phi - QcZ 1)) F64_EPSILON then true else false.

Inductive verdict := Shortcut | Taylor (o : outcome).

Definition verdict_bool (v : verdict) : bool :=
  match v with Shortcut => true | Taylor Won => true | Taylor _ => false end.

Definition lottery_q (ev : Z) : Qc := (QcZ EV_MAX / QcZ (EV_MAX - ev))%Qc.
Definition lottery_x (c : Qc) (stake total : Z) : Qc := (- ((QcZ stake / QcZ total) * c))%Qc.

(* is_lottery_won.  Outcomes: Ok verdict, or Panic (c not finite; total = 0:
   `Ratio::new_raw(stake, 0) * c` reaches `Ratio::new` with a zero denominator). *)
Definition lottery (phi : Qc) (c : option Qc) (ev stake total : Z) : result verdict :=
  if phi_is_one phi then Ok Shortcut
  else match c with
       | None => Panic
       | Some c =>
         if (total =? 0)%Z then Panic
         else Ok (Taylor (taylor_comparison (N.to_nat TAYLOR_BOUND) (lottery_q ev) (lottery_x c stake total)))
       end.

Definition won (phi : Qc) (c : option Qc) (ev stake total : Z) : result bool :=
  rmap verdict_bool (lottery phi c ev stake total).

(* correspondence entry point: phi_f = pm * 2^pe; c = cm * 2^ce when finite *)
Definition run (pm pe : Z) (c : option (Z * Z)) (ev stake total : Z) : obs :=
  ORes (rmap OB (won (dyadic pm pe) (option_map (fun p => dyadic (fst p) (snd p)) c) ev stake total)).
