(* C08/Model.v — executable model of mithril-stm's signing lottery
   (proof_system/concatenation/eligibility.rs, num-integer backend).

   [taylor] is the literal transcription of `taylor_comparison`'s loop over
   canonical rationals (Qc: every operation re-normalises, so the term runs
   fast under vm_compute and equality is Leibniz in the proofs); the state is
   (new_x, phi, divisor), both exit tests are the code's, the cap returns
   `false` in the code and the distinguished [Cap] here (the wrapper maps it
   to `false`).  The iteration bound and the error factor are the constants
   the translator reads from the source (Gen.Consts).

   [lottery] is `is_lottery_won`: the |phi_f - 1| < EPSILON shortcut,
   q = 2^512 / (2^512 - ev), x = -(stake/total) * c, where c is the exact
   rational value of the f64 `(1.0 - phi_f).ln()` (float boundary: supplied by
   the harness; [None] = NaN / infinite, on which `Ratio::from_float(..)
   .expect(..)` panics).  Definitions only; lemmas live in Proofs*.v. *)
From Coq Require Import QArith Qcanon Qcabs ZArith.
From MV Require Import Base.Prelude Gen.Consts.

Inductive outcome := Won | Lost | Cap.

Definition QcZ (z : Z) : Qc := Q2Qc (inject_Z z).

(* one run of the `for _ in 0..bound` loop entered with (new_x, phi, divisor) *)
Fixpoint taylor (factor : Z) (bound : nat) (cmp x new_x phi : Qc) (divisor : Z) : outcome :=
  match bound with
  | O => Cap
  | S b =>
    let phi' := (phi + new_x)%Qc in                                   (* phi += new_x *)
    let divisor' := (divisor + 1)%Z in                                (* divisor += 1 *)
    let new_x' := ((new_x * x) / QcZ divisor')%Qc in                  (* new_x = new_x * x / divisor *)
    let err := (Qcabs new_x' * QcZ factor)%Qc in                      (* |new_x| * 3 *)
    if Qclt_le_dec (phi' + err)%Qc cmp then Lost                      (* cmp > phi + err  => false *)
    else if Qclt_le_dec cmp (phi' - err)%Qc then Won                  (* cmp < phi - err  => true *)
    else taylor factor b cmp x new_x' phi' divisor'
  end.

(* `taylor_comparison(bound, cmp, x)` with the source's error factor *)
Definition taylor_comparison (bound : nat) (cmp x : Qc) : outcome :=
  taylor TAYLOR_ERR_FACTOR bound cmp x x (QcZ 1) 1.

(* ---- the same loop on integers (what the correspondence run evaluates) -------------
   With cmp = qn/qd, x = a/b (qd, b > 0) the state entering iteration j is kept on the
   common denominator D = b^j j!:  new_x = P/D (P = a^j),  phi = M/D.  No gcd is ever
   taken, so vm_compute needs milliseconds where the canonical-rational loop needs
   minutes on 64-bit stakes.  ProofsFast.v proves [taylor_fast] EQUAL to [taylor] for all
   inputs (C08_fast_model); every theorem is stated on [taylor]. *)
Definition frac (n d : Z) : Qc := Q2Qc (n # Z.to_pos d).

Fixpoint taylor_fast (factor : Z) (bound : nat) (qn qd a b P M D j : Z) : outcome :=
  match bound with
  | O => Cap
  | S bd =>
    let j' := (j + 1)%Z in
    let D' := (D * b * j')%Z in
    let M' := ((M + P) * b * j')%Z in                   (* phi + new_x       = M'/D' *)
    let P' := (P * a)%Z in                              (* new_x * x / (j+1) = P'/D' *)
    let E := (Z.abs P' * factor)%Z in                   (* |new_x| * factor  = E /D' *)
    if (qd * (M' + E) <? qn * D')%Z then Lost
    else if (qn * D' <? qd * (M' - E))%Z then Won
    else taylor_fast factor bd qn qd a b P' M' D' j'
  end.

(* second refinement: carry ND = qn*D, QM = qd*M, QP = qd*P so that every product is
   (large) * (word-sized); equal to [taylor_fast] by ring identities (ProofsFast.v) *)
Fixpoint taylor_fast2 (factor : Z) (bound : nat) (a b ND QM QP j : Z) : outcome :=
  match bound with
  | O => Cap
  | S bd =>
    let j' := (j + 1)%Z in
    let bj := (b * j')%Z in
    let ND' := (ND * bj)%Z in
    let QM' := ((QM + QP) * bj)%Z in
    let QP' := (QP * a)%Z in
    let QE := (Z.abs QP' * factor)%Z in
    if (QM' + QE <? ND')%Z then Lost
    else if (ND' <? QM' - QE)%Z then Won
    else taylor_fast2 factor bd a b ND' QM' QP' j'
  end.

(* the literal loop is itself fast when x has a small denominator (x = 0 in particular,
   where the integer loop would drag 1000! along for 1000 iterations) *)
Definition taylor_comparison_fast (bound : nat) (cmp x : Qc) : outcome :=
  let qn := Qnum (this cmp) in let qd := Z.pos (Qden (this cmp)) in
  let a := Qnum (this x) in let b := Z.pos (Qden (this x)) in
  if (b <? 1048576)%Z then taylor_comparison bound cmp x
  else taylor_fast2 TAYLOR_ERR_FACTOR bound a b (qn * b) (qd * b) (qd * a) 1.

Definition EV_MAX : Z := (2 ^ 512)%Z.

(* exact value of a finite f64 given as mantissa * 2^exponent *)
Definition dyadic (m e : Z) : Qc := Q2Qc (inject_Z m * Qpower (2 # 1) e).

(* f64::EPSILON = 2^-52 *)
Definition F64_EPSILON : Qc := dyadic 1 (-52).

(* `(phi_f - 1.0).abs() < f64::EPSILON`.  On f64 the subtraction is exact for
   phi_f in [1/2, 2] (Sterbenz) and its result is >= 1/2 in magnitude
   otherwise, so the test on exact rationals is the float test. *)
Definition phi_is_one (phi : Qc) : bool :=
  if Qclt_le_dec (Qcabs (phi - QcZ 1)) F64_EPSILON then true else false.

Inductive verdict := Shortcut | Taylor (o : outcome).

Definition verdict_bool (v : verdict) : bool :=
  match v with Shortcut => true | Taylor Won => true | Taylor _ => false end.

Definition lottery_q (ev : Z) : Qc := (QcZ EV_MAX / QcZ (EV_MAX - ev))%Qc.
Definition lottery_x (c : Qc) (stake total : Z) : Qc := (- ((QcZ stake / QcZ total) * c))%Qc.

(* is_lottery_won.  Outcomes: Ok verdict, or Panic (c not finite; total = 0:
   `Ratio::new_raw(stake, 0) * c` reaches `Ratio::new` with a zero denominator). *)
Definition lottery (phi : Qc) (c : option Qc) (ev stake total : Z) : result verdict :=
  if phi_is_one phi then Ok Shortcut
  else match c with
       | None => Panic
       | Some c =>
         if (total =? 0)%Z then Panic
         else Ok (Taylor (taylor_comparison (N.to_nat TAYLOR_BOUND) (lottery_q ev) (lottery_x c stake total)))
       end.

Definition won (phi : Qc) (c : option Qc) (ev stake total : Z) : result bool :=
  rmap verdict_bool (lottery phi c ev stake total).

(* the same wrapper around the integer loop *)
Definition lottery_fast (phi : Qc) (c : option Qc) (ev stake total : Z) : result verdict :=
  if phi_is_one phi then Ok Shortcut
  else match c with
       | None => Panic
       | Some c =>
         if (total =? 0)%Z then Panic
         else Ok (Taylor (taylor_comparison_fast (N.to_nat TAYLOR_BOUND) (lottery_q ev) (lottery_x c stake total)))
       end.

(* correspondence entry points: phi_f = pm * 2^pe; c = cm * 2^ce when finite.
   [run] evaluates the integer loop (proved equal to the literal one);
   [run_literal] evaluates the literal transcription itself (used on a sample). *)
Definition run (pm pe : Z) (c : option (Z * Z)) (ev stake total : Z) : obs :=
  ORes (rmap (fun v => OB (verdict_bool v))
     (lottery_fast (dyadic pm pe) (option_map (fun p => dyadic (fst p) (snd p)) c) ev stake total)).
Definition run_literal (pm pe : Z) (c : option (Z * Z)) (ev stake total : Z) : obs :=
  ORes (rmap OB (won (dyadic pm pe) (option_map (fun p => dyadic (fst p) (snd p)) c) ev stake total)).
