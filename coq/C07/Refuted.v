(* C07/Refuted.v — the aggregator's verifier builds a fresh key registration for every call, so the
   conjunct "the key is not already registered" is not enforced there: a second pool that copies a
   registered key and its proof of possession, and certifies the copy with its own operational
   certificate and KES key, is accepted as well (finding C07-agg-duplicate-key). *)
From MV Require Import Base.Prelude Base.SymHash Base.IdealSig C06.Model C07.Model C07.Proofs.
Open Scope N_scope.

Definition witness_sd : list (bt * N) := [(pool_id 11, 100); (pool_id 21, 7)].
(* pool A: cold 11, KES 12, BLS key 13 *)
Definition witness_a : signer_msg :=
  mkSM None (Some (honest_opcert 11 12 0 0)) 13 13 (Some (SigAt 12 0 (vkpop_msg 13 13))).
(* pool B: cold 21, KES 22, re-uses A's key 13 and proof *)
Definition witness_b : signer_msg :=
  mkSM None (Some (honest_opcert 21 22 0 0)) 13 13 (Some (SigAt 22 0 (vkpop_msg 13 13))).

Theorem C07_refuted_agg_duplicate_key :
  exists sd a b pa pb sa sb,
    agg_verify (Some 0) sd a = Ok (pa, sa) /\ agg_verify (Some 0) sd b = Ok (pb, sb) /\
    m_vk a = m_vk b /\ pa <> pb.
Proof.
  exists witness_sd, witness_a, witness_b, (pool_id 11), (pool_id 21), 100, 7.
  repeat split; try (vm_compute; reflexivity). discriminate.
Qed.
