(* C07/Properties.v — the property theorems, nothing else.
   C07: a registration is accepted only if its operational certificate is signed by the cold key it
   names, its key (with proof of possession) is KES-signed by that certificate's KES key at an
   evolution within one of the announced one, the proof of possession is valid, the pool id derived
   from the cold key is in the stake distribution, and the key is fresh; the recorded stake is the
   distribution's.  Signatures and hashing are ideal (Base/IdealSig.v, Base/SymHash.v). *)
From MV Require Import Base.Prelude Base.SymHash Base.IdealSig C06.Model C07.Model C07.Proofs.
Open Scope N_scope.

(* KeyRegWrapper::register: acceptance implies every conjunct, all bound to the same certificate *)
Theorem C07_accept : forall sd kr r pid stake kr',
  wreg sd kr r = Ok (pid, stake, kr') ->
  exists oc evol ks e',
    r_opcert r = Some oc /\ r_evol r = Some evol /\ r_kes_sig r = Some ks /\
    oc_sig oc = SigOf (oc_cold oc) (opcert_msg (oc_kes_vk oc) (oc_issue oc) (oc_start oc)) /\
    kes_lo evol <= e' <= kes_hi evol /\ e' <= 63 /\
    ks = SigAt (oc_kes_vk oc) e' (vkpop_msg (r_vk r) (r_pop r)) /\
    r_pop r = r_vk r /\
    pid = pool_id (oc_cold oc) /\ sd_get sd pid = Some stake /\
    vk_mem [r_vk r] (kr_keys kr) = false /\
    kr' = mkKR (bt_insert (mkE [r_vk r] stake) (kr_entries kr)) ([r_vk r] :: kr_keys kr).
Proof. exact wreg_accept. Qed.

(* conversely every registration meeting the conjuncts is accepted (the theorem above is not vacuous) *)
Theorem C07_complete : forall sd kr r oc evol ks e' stake,
  r_opcert r = Some oc -> r_evol r = Some evol -> r_kes_sig r = Some ks -> evol < U64 ->
  oc_sig oc = SigOf (oc_cold oc) (opcert_msg (oc_kes_vk oc) (oc_issue oc) (oc_start oc)) ->
  in_window evol e' -> ks = SigAt (oc_kes_vk oc) e' (vkpop_msg (r_vk r) (r_pop r)) ->
  r_pop r = r_vk r -> sd_get sd (pool_id (oc_cold oc)) = Some stake ->
  vk_mem [r_vk r] (kr_keys kr) = false ->
  exists kr', wreg sd kr r = Ok (pool_id (oc_cold oc), stake, kr').
Proof. exact wreg_complete. Qed.

(* the KES verifier: exactly the evolutions evol-1, evol, evol+1 that are valid Sum6 periods *)
Theorem C07_window : forall msg s oc evol, evol < U64 ->
  (kes_verifier msg s oc evol = true <->
   opcert_validate oc = true /\ exists e', in_window evol e' /\ kes_verify s (oc_kes_vk oc) e' msg = true).
Proof. exact kes_verifier_spec. Qed.

(* boundaries: 0, 63, 64, and everything from 65 up to 2^64-1 *)
Theorem C07_boundaries :
  (forall e', in_window 0 e' <-> e' = 0 \/ e' = 1) /\
  (forall e', in_window 63 e' <-> e' = 62 \/ e' = 63) /\
  (forall e', in_window 64 e' <-> e' = 63) /\
  (forall evol e', 1 <= evol <= 62 -> (in_window evol e' <-> e' = evol - 1 \/ e' = evol \/ e' = evol + 1)) /\
  (forall msg s oc evol, 65 <= evol -> kes_verifier msg s oc evol = false) /\
  (forall msg s oc, kes_verifier msg s oc (U64 - 1) = false).
Proof.
  split; [exact window_0|]. split; [exact window_63|]. split; [exact window_64|].
  split; [intros; apply window_mid; assumption|].
  split; [intros; apply kes_reject_far; assumption|].
  intros. apply kes_reject_far. cbv. discriminate.
Qed.

(* a registration assembled from components of two honest ones is accepted only if it is one of them *)
Theorem C07_splice : forall sd kr r pid stake kr' cold1 kes1 bls1 i1 s1 p1 cold2 kes2 bls2 i2 s2 p2 oc,
  kes1 <> kes2 ->
  spliced r (honest_reg cold1 kes1 bls1 i1 s1 p1) (honest_reg cold2 kes2 bls2 i2 s2 p2) oc
          (honest_opcert cold1 kes1 i1 s1) (honest_opcert cold2 kes2 i2 s2) ->
  wreg sd kr r = Ok (pid, stake, kr') ->
  same_binding r (honest_reg cold1 kes1 bls1 i1 s1 p1) \/ same_binding r (honest_reg cold2 kes2 bls2 i2 s2 p2).
Proof. intros. eapply splice_only_originals; eauto. Qed.

(* one registry records a key once; the claimed party id plays no role *)
Theorem C07_duplicate_key : forall sd kr r1 r2 pid st kr1,
  wreg sd kr r1 = Ok (pid, st, kr1) -> r_vk r2 = r_vk r1 -> wreg sd kr1 r2 = Err.
Proof. exact dup_rejected. Qed.
Theorem C07_claimed_party_ignored : forall sd kr r p,
  wreg sd kr r = wreg sd kr (mkReg p (r_opcert r) (r_vk r) (r_pop r) (r_kes_sig r) (r_evol r)).
Proof. exact claimed_party_ignored. Qed.

(* the aggregator's verifier: the same conjuncts with evol = current period -. start period, the stake
   returned is the distribution's — but against an EMPTY registry (see Refuted.v) *)
Theorem C07_agg_accept : forall cur sd m pid stake,
  agg_verify cur sd m = Ok (pid, stake) ->
  exists oc evol kr',
    m_opcert m = Some oc /\
    evol = u64_sat_sub (match cur with Some c => c | None => 0 end) (oc_start oc) /\
    accepted_by sd kr_init (mkReg (m_party m) (m_opcert m) (m_vk m) (m_pop m) (m_kes_sig m) (Some evol)) pid stake kr' /\
    sd_get sd pid = Some stake.
Proof. exact agg_accept. Qed.

(* non-vacuity: an honest registration signed at evolution 5 is accepted when 4, 5 or 6 is announced,
   refused for 3 and 7, and recorded with the distribution's stake *)
Example C07_ex :
  let sd := [(pool_id 11, 100); (pool_id 21, 7)] in
  let r e := mkReg None (Some (honest_opcert 11 12 0 3)) 13 13 (Some (SigAt 12 5 (vkpop_msg 13 13))) (Some e) in
  map (fun e => match wreg sd kr_init (r e) with Ok (_, st, _) => Some st | _ => None end) [3; 4; 5; 6; 7]
  = [None; Some 100; Some 100; Some 100; None].
Proof. vm_compute. reflexivity. Qed.
