(* C07/Proofs.v — acceptance implies every conjunct; splices of two honest registrations. *)
From Coq Require Import Lia.
From MV Require Import Base.Prelude Base.SymHash Base.IdealSig C06.Model C07.Model.
Open Scope N_scope.

(* ---- the KES evolution window ---- *)
Lemma range_incl_In lo hi e : In e (range_incl lo hi) <-> lo <= e <= hi.
Proof.
  unfold range_incl. destruct (hi <? lo) eqn:E.
  - apply N.ltb_lt in E. cbn. lia.
  - apply N.ltb_ge in E. rewrite in_map_iff. split.
    + intros (k & <- & Hk). apply in_seq in Hk. lia.
    + intros H. exists (N.to_nat (e - lo)). split; [lia|]. apply in_seq. lia.
Qed.

Lemma kes_try_sound s vk msg es : kes_try s vk msg es = Ok true ->
  exists e, In e es /\ sum6_verify s e vk msg = true.
Proof.
  induction es as [|e es IH]; cbn [kes_try]; [discriminate|].
  destruct (e <? U32); [|discriminate].
  destruct (sum6_verify s e vk msg) eqn:E.
  - intros _. exists e. split; [left; reflexivity | exact E].
  - intros H. destruct (IH H) as (e' & H1 & H2). exists e'. split; [right; exact H1 | exact H2].
Qed.

Lemma kes_try_complete s vk msg es : (forall e, In e es -> e < U32) ->
  (exists e, In e es /\ sum6_verify s e vk msg = true) -> kes_try s vk msg es = Ok true.
Proof.
  induction es as [|e es IH]; intros Hb (e' & Hin & Hv); [destruct Hin|].
  cbn [kes_try]. assert (He : e <? U32 = true) by (apply N.ltb_lt, Hb; left; reflexivity). rewrite He.
  destruct (sum6_verify s e vk msg) eqn:E; [reflexivity|].
  apply IH; [intros; apply Hb; right; assumption|].
  destruct Hin as [-> | Hin]; [congruence | exists e'; auto].
Qed.

(* the set of evolutions the verifier is willing to try for an announced evolution *)
Definition in_window (evol e' : N) : Prop := evol - 1 <= e' /\ e' <= evol + 1 /\ e' <= 63.

Lemma window_bounds evol e' : evol < U64 ->
  (kes_lo evol <= e' <= kes_hi evol) <-> in_window evol e'.
Proof.
  unfold kes_lo, kes_hi, u64_sat_sub, u64_sat_add, in_window, U64. intros Hu.
  destruct (evol + 1 <? 18446744073709551616) eqn:E.
  - lia.
  - apply N.ltb_ge in E. lia.
Qed.

Lemma kes_verifier_spec msg s oc evol : evol < U64 ->
  (kes_verifier msg s oc evol = true <->
   opcert_validate oc = true /\ exists e', in_window evol e' /\ kes_verify s (oc_kes_vk oc) e' msg = true).
Proof.
  intros Hu. unfold kes_verifier. destruct (opcert_validate oc); [|split; [discriminate | intros [? _]; discriminate]].
  split.
  - destruct (kes_try s (oc_kes_vk oc) msg (range_incl (kes_lo evol) (kes_hi evol))) as [[|]| |] eqn:E; try discriminate.
    intros _. split; [reflexivity|]. apply kes_try_sound in E as (e' & Hin & Hv).
    apply range_incl_In in Hin. unfold sum6_verify in Hv.
    assert (Hle : e' <= 63) by (unfold kes_hi in Hin; lia).
    rewrite N.min_l in Hv by (unfold KES_LAST; lia).
    exists e'. split; [apply window_bounds; auto | exact Hv].
  - intros (_ & e' & Hw & Hk). pose proof Hw as (_ & _ & Hp). apply window_bounds in Hw as Hr; [|exact Hu].
    rewrite (kes_try_complete s (oc_kes_vk oc) msg); [reflexivity | |].
    + intros e He. apply range_incl_In in He. unfold kes_hi, U32 in *. lia.
    + exists e'. split; [apply range_incl_In; exact Hr|]. unfold sum6_verify.
      rewrite N.min_l by (unfold KES_LAST; lia). exact Hk.
Qed.

(* the soundness half needs no bound on the announced value *)
Lemma kes_verifier_sound msg s oc evol : kes_verifier msg s oc evol = true ->
  opcert_validate oc = true /\
  exists e', kes_lo evol <= e' <= kes_hi evol /\ e' <= 63 /\ kes_verify s (oc_kes_vk oc) e' msg = true.
Proof.
  unfold kes_verifier. destruct (opcert_validate oc); [|discriminate].
  destruct (kes_try s (oc_kes_vk oc) msg (range_incl (kes_lo evol) (kes_hi evol))) as [[|]| |] eqn:E; try discriminate.
  intros _. split; [reflexivity|]. apply kes_try_sound in E as (e' & Hin & Hv).
  apply range_incl_In in Hin. unfold sum6_verify in Hv.
  assert (Hle : e' <= 63) by (unfold kes_hi in Hin; lia).
  rewrite N.min_l in Hv by (unfold KES_LAST; lia).
  exists e'. repeat split; try lia. exact Hv.
Qed.

Lemma kes_reject_far msg s oc evol : 65 <= evol -> kes_verifier msg s oc evol = false.
Proof.
  intros H. destruct (kes_verifier msg s oc evol) eqn:E; [|reflexivity].
  apply kes_verifier_sound in E as (_ & e' & Hr & Hp & _).
  unfold kes_lo, kes_hi, u64_sat_sub in Hr. lia.
Qed.

(* ---- stake lookup ---- *)
Lemma sd_get_in sd p st : sd_get sd p = Some st -> In (p, st) sd.
Proof.
  induction sd as [|[q s] sd IH]; cbn [sd_get]; [discriminate|].
  destruct (sd_get sd p) eqn:E.
  - intros [= <-]. right. apply IH. reflexivity.
  - destruct (bt_eqb q p) eqn:Eq; [|discriminate]. apply bt_eqb_eq in Eq. intros [= <-]. left. congruence.
Qed.

(* ---- acceptance ---- *)
Definition accepted_by (sd : list (bt * N)) (kr : keyreg) (r : reg) (pid : bt) (stake : N) (kr' : keyreg) : Prop :=
  exists oc evol ks e',
    r_opcert r = Some oc /\ r_evol r = Some evol /\ r_kes_sig r = Some ks /\
    (* operational certificate signed by the cold key it names *)
    oc_sig oc = SigOf (oc_cold oc) (opcert_msg (oc_kes_vk oc) (oc_issue oc) (oc_start oc)) /\
    (* KES signature by that certificate's KES key over this key and its proof, within one evolution *)
    kes_lo evol <= e' <= kes_hi evol /\ e' <= 63 /\
    ks = SigAt (oc_kes_vk oc) e' (vkpop_msg (r_vk r) (r_pop r)) /\
    (* proof of possession *)
    r_pop r = r_vk r /\
    (* pool id derived from the cold key, present in the distribution, stake taken from it *)
    pid = pool_id (oc_cold oc) /\ sd_get sd pid = Some stake /\
    (* fresh key, recorded with the distribution's stake *)
    vk_mem [r_vk r] (kr_keys kr) = false /\
    kr' = mkKR (bt_insert (mkE [r_vk r] stake) (kr_entries kr)) ([r_vk r] :: kr_keys kr).

Theorem wreg_accept sd kr r pid stake kr' :
  wreg sd kr r = Ok (pid, stake, kr') -> accepted_by sd kr r pid stake kr'.
Proof.
  unfold wreg, wreg_gen, wreg_finish. destruct (r_opcert r) as [oc|] eqn:Eoc; [|discriminate].
  destruct (r_evol r) as [evol|] eqn:Eev; [|discriminate].
  destruct (r_kes_sig r) as [ks|] eqn:Eks; [|discriminate].
  destruct (kes_verifier _ ks oc evol) eqn:Ek; [|discriminate].
  destruct (sd_get sd (pool_id (oc_cold oc))) as [st|] eqn:Esd; [|discriminate].
  unfold stm_register. destruct (pop_valid (r_vk r) (r_pop r)) eqn:Ep; [|discriminate].
  unfold kr_register. cbn [e_vk]. destruct (vk_mem [r_vk r] (kr_keys kr)) eqn:Em; [discriminate|].
  cbn [rbind]. intros [= <- <- <-].
  apply kes_verifier_sound in Ek as (Hv & e' & Hr & Hp & Hk).
  unfold opcert_validate in Hv. apply sg_verify_spec in Hv. apply kes_verify_spec in Hk.
  unfold pop_valid in Ep. apply N.eqb_eq in Ep.
  exists oc, evol, ks, e'. repeat split; auto; lia.
Qed.

Theorem wreg_complete sd kr r oc evol ks e' stake :
  r_opcert r = Some oc -> r_evol r = Some evol -> r_kes_sig r = Some ks -> evol < U64 ->
  oc_sig oc = SigOf (oc_cold oc) (opcert_msg (oc_kes_vk oc) (oc_issue oc) (oc_start oc)) ->
  in_window evol e' -> ks = SigAt (oc_kes_vk oc) e' (vkpop_msg (r_vk r) (r_pop r)) ->
  r_pop r = r_vk r -> sd_get sd (pool_id (oc_cold oc)) = Some stake ->
  vk_mem [r_vk r] (kr_keys kr) = false ->
  exists kr', wreg sd kr r = Ok (pool_id (oc_cold oc), stake, kr').
Proof.
  intros Eoc Eev Eks Hu Hsig Hw Hk Hp Hsd Hm. unfold wreg, wreg_gen, wreg_finish. rewrite Eoc, Eev, Eks.
  assert (Hkv : kes_verifier (vkpop_msg (r_vk r) (r_pop r)) ks oc evol = true).
  { apply kes_verifier_spec; [exact Hu|]. split.
    - unfold opcert_validate. apply sg_verify_spec. exact Hsig.
    - exists e'. split; [exact Hw|]. apply kes_verify_spec. exact Hk. }
  rewrite Hkv, Hsd. unfold stm_register, pop_valid. rewrite Hp, N.eqb_refl.
  unfold kr_register. cbn [e_vk]. rewrite Hm. cbn [rbind]. eexists; reflexivity.
Qed.

(* ---- splices of two honest registrations ---- *)
(* what an honest pool (cold key, KES key, BLS key) sends when it signs at evolution p *)
Definition honest_opcert (cold kes issue start : N) : opcert :=
  mkOC kes issue start (SigOf cold (opcert_msg kes issue start)) cold.
Definition honest_reg (cold kes bls issue start p : N) : reg :=
  mkReg None (Some (honest_opcert cold kes issue start)) bls bls
        (Some (SigAt kes p (vkpop_msg bls bls))) (Some p).

(* a registration every bound component of which is taken from one of two given ones *)
Definition from2 {A} (x a b : A) : Prop := x = a \/ x = b.
Definition spliced (r r1 r2 : reg) (oc oc1 oc2 : opcert) : Prop :=
  r_opcert r = Some oc /\ r_opcert r1 = Some oc1 /\ r_opcert r2 = Some oc2 /\
  from2 (oc_kes_vk oc) (oc_kes_vk oc1) (oc_kes_vk oc2) /\
  from2 (oc_issue oc) (oc_issue oc1) (oc_issue oc2) /\
  from2 (oc_start oc) (oc_start oc1) (oc_start oc2) /\
  from2 (oc_sig oc) (oc_sig oc1) (oc_sig oc2) /\
  from2 (oc_cold oc) (oc_cold oc1) (oc_cold oc2) /\
  from2 (r_vk r) (r_vk r1) (r_vk r2) /\
  from2 (r_pop r) (r_pop r1) (r_pop r2) /\
  from2 (r_kes_sig r) (r_kes_sig r1) (r_kes_sig r2).

(* the components the acceptance binds together (the claimed party id is ignored, the
   announced evolution may differ by one) *)
Definition same_binding (r r' : reg) : Prop :=
  r_opcert r = r_opcert r' /\ r_vk r = r_vk r' /\ r_pop r = r_pop r' /\ r_kes_sig r = r_kes_sig r'.

Theorem splice_only_originals sd kr r pid stake kr'
        cold1 kes1 bls1 i1 s1 p1 cold2 kes2 bls2 i2 s2 p2 oc :
  kes1 <> kes2 ->
  let r1 := honest_reg cold1 kes1 bls1 i1 s1 p1 in
  let r2 := honest_reg cold2 kes2 bls2 i2 s2 p2 in
  spliced r r1 r2 oc (honest_opcert cold1 kes1 i1 s1) (honest_opcert cold2 kes2 i2 s2) ->
  wreg sd kr r = Ok (pid, stake, kr') ->
  same_binding r r1 \/ same_binding r r2.
Proof.
  intros Hkes r1 r2 (Eoc & _ & _ & Fk & Fi & Fs & Fsig & Fc & Fvk & Fpop & Fks) Hacc.
  apply wreg_accept in Hacc as (oc' & evol & ks & e' & Eoc' & _ & Eks & Hsig & _ & _ & Hks & Hpop & _).
  rewrite Eoc in Eoc'. injection Eoc' as <-.
  cbn [r1 r2 honest_reg honest_opcert r_vk r_pop r_kes_sig oc_kes_vk oc_issue oc_start oc_sig oc_cold] in *.
  unfold from2 in *.
  (* which certificate signature was used decides cold key, KES key, issue number and start period *)
  assert (Hoc : oc = honest_opcert cold1 kes1 i1 s1 \/ oc = honest_opcert cold2 kes2 i2 s2).
  { destruct oc as [k i s g c]. cbn in *. unfold honest_opcert, opcert_msg in *.
    destruct Fsig as [-> | ->]; injection Hsig as <- <- <- <-; auto. }
  (* which KES signature was used decides the KES key, hence the certificate, and the signed key and proof *)
  rewrite Eks in Fks.
  destruct Fks as [Fks | Fks]; injection Fks as Fks; rewrite Hks in Fks; unfold vkpop_msg in Fks;
    injection Fks as Hk He Hvk Hpp; [left | right];
    (destruct Hoc as [Hoc | Hoc]; rewrite Hoc in Hk; cbn in Hk; try congruence);
    unfold same_binding; cbn; rewrite Eoc, Eks, Hks, Hoc; unfold vkpop_msg; cbn; rewrite Hvk, Hpp, He; auto.
Qed.

(* ---- the aggregator's verifier ---- *)
Theorem agg_accept cur sd m pid stake : agg_verify cur sd m = Ok (pid, stake) ->
  exists oc evol kr',
    m_opcert m = Some oc /\
    evol = u64_sat_sub (match cur with Some c => c | None => 0 end) (oc_start oc) /\
    accepted_by sd kr_init (mkReg (m_party m) (m_opcert m) (m_vk m) (m_pop m) (m_kes_sig m) (Some evol)) pid stake kr' /\
    sd_get sd pid = Some stake.
Proof.
  unfold agg_verify, agg_verify_gen. fold wreg. intros H.
  destruct (m_opcert m) as [oc|] eqn:Eoc.
  - destruct (wreg sd kr_init _) as [[[p st] kr']| |] eqn:E; try discriminate.
    cbn [rbind] in H. destruct (sd_get sd p) as [st'|] eqn:Es; [|discriminate]. injection H as <- <-.
    pose proof (wreg_accept _ _ _ _ _ _ E) as Ha.
    assert (st = st').
    { destruct Ha as (? & ? & ? & ? & _ & _ & _ & _ & _ & _ & _ & _ & _ & Hsd & _). congruence. }
    subst st'.
    exists oc, (u64_sat_sub (match cur with Some c => c | None => 0 end) (oc_start oc)), kr'.
    repeat split; auto.
  - cbn in H. discriminate.
Qed.

(* ---- boundary values of the announced evolution ---- *)
Lemma window_0 e' : in_window 0 e' <-> e' = 0 \/ e' = 1.
Proof. unfold in_window. lia. Qed.
Lemma window_63 e' : in_window 63 e' <-> e' = 62 \/ e' = 63.
Proof. unfold in_window. lia. Qed.
Lemma window_64 e' : in_window 64 e' <-> e' = 63.
Proof. unfold in_window. lia. Qed.
Lemma window_mid evol e' : 1 <= evol <= 62 -> (in_window evol e' <-> e' = evol - 1 \/ e' = evol \/ e' = evol + 1).
Proof. unfold in_window. lia. Qed.

(* a key can be recorded once per registry *)
Lemma dup_rejected sd kr r1 r2 pid st kr1 :
  wreg sd kr r1 = Ok (pid, st, kr1) -> r_vk r2 = r_vk r1 -> wreg sd kr1 r2 = Err.
Proof.
  intros H1 Hvk. apply wreg_accept in H1 as (_ & _ & _ & _ & _ & _ & _ & _ & _ & _ & _ & _ & _ & _ & _ & ->).
  unfold wreg, wreg_gen, wreg_finish. destruct (r_opcert r2); [|reflexivity]. destruct (r_evol r2); [|reflexivity].
  destruct (r_kes_sig r2); [|reflexivity]. destruct (kes_verifier _ _ _ _); [|reflexivity].
  destruct (sd_get sd _); [|reflexivity]. unfold stm_register. destruct (pop_valid _ _); [|reflexivity].
  unfold kr_register. cbn [e_vk kr_keys vk_mem existsb]. rewrite Hvk.
  unfold bytes_eqb. cbn [list_eqb]. rewrite N.eqb_refl. reflexivity.
Qed.

(* the stake recorded never comes from the registrant: two registrations differing only in the
   claimed party id and in nothing the distribution sees are treated alike *)
Lemma claimed_party_ignored sd kr r p : wreg sd kr r = wreg sd kr (mkReg p (r_opcert r) (r_vk r) (r_pop r) (r_kes_sig r) (r_evol r)).
Proof. reflexivity. Qed.
