(* C07/Model.v — signer registration.  Executable definitions only.
   Source: mithril-common/src/crypto_helper/cardano/key_certification.rs (KeyRegWrapper::register),
           mithril-common/src/crypto_helper/cardano/kes/verifier_standard.rs (KesVerifierStandard::verify),
           mithril-common/src/crypto_helper/cardano/opcert.rs (validate, compute_protocol_party_id),
           mithril-common/src/crypto_helper/cardano/kes/{kes_period,kes_evolutions}.rs (saturating `-`),
           mithril-stm/src/protocol/key_registration/{registration_entry,register}.rs (PoP check, duplicate key),
           mithril-stm/src/signature_scheme/bls_multi_signature/verification_key.rs (verify_proof_of_possession),
           mithril-aggregator/src/services/signer_registration/verifier.rs (MithrilSignerRegistrationVerifier::verify).
   Idealisation (DESIGN.md section 4, S-ideal / H-inj): keys are identifiers (pk sk = sk); an Ed25519
   signature is [SigOf sk msg], a KES signature at an evolution is [SigAt sk period msg]; the pool id is
   the ideal Blake2b-224 hash of the cold verification key; a proof of possession is the identifier of
   the key it proves (for BLS the valid proof of a key is unique: k1 = sk*H("PoP"), k2 = sk*g1).
   Built without the `allow_skip_signer_certification` feature (production). *)
From MV Require Import Base.Prelude Base.SymHash Base.IdealSig C06.Model.
Open Scope N_scope.

(* ---- operational certificate ---- *)
Record opcert := mkOC { oc_kes_vk : N; oc_issue : N; oc_start : N; oc_sig : sg; oc_cold : N }.

(* OpCert::compute_message_to_sign: kes_vk (32 bytes) || issue (8) || start period (8) — fixed widths,
   so the three fields are the message *)
Definition opcert_msg (kes_vk issue start : N) : bt := BLit [kes_vk; issue; start].
(* OpCert::validate *)
Definition opcert_validate (oc : opcert) : bool :=
  sg_verify (oc_sig oc) (oc_cold oc) (opcert_msg (oc_kes_vk oc) (oc_issue oc) (oc_start oc)).
(* OpCert::compute_protocol_party_id: bech32("pool", blake2b-224(cold_vk)) *)
Definition pool_id (cold : N) : bt := BHash BLAKE2B_224 [BLit [cold]].

(* ---- KES ---- *)
Definition u64_sat_sub (a b : N) : N := a - b.                       (* N subtraction truncates at 0 *)
Definition u64_sat_add (a b : N) : N := if a + b <? U64 then a + b else U64 - 1.
Definition U32 : N := 4294967296.

(* Sum6KesSig::verify (kes-summed-ed25519): 2^6 periods, and no range check on the period: at every
   level of the sum composition a period at or beyond the half goes right, so every period >= 63
   walks the all-right path and is verified as period 63 *)
Definition KES_LAST : N := 63.
Definition sum6_verify (s : sg) (period : N) (vk : N) (msg : bt) : bool :=
  kes_verify s vk (N.min period KES_LAST) msg.

(* lo..=hi as the for loop enumerates it *)
Definition range_incl (lo hi : N) : list N :=
  if hi <? lo then [] else map (fun k => lo + N.of_nat k) (seq 0 (N.to_nat (hi - lo + 1))).

(* the body of the loop of KesVerifierStandard::verify: Ok(true) = verified, Ok(false) = exhausted,
   Err = the u32 conversion failed *)
Fixpoint kes_try (s : sg) (kes_vk : N) (msg : bt) (es : list N) : result bool :=
  match es with
  | [] => Ok false
  | e :: r =>
      if e <? U32 then
        if sum6_verify s e kes_vk msg then Ok true else kes_try s kes_vk msg r
      else Err
  end.

Definition kes_lo (e : N) : N := N.max 0 (u64_sat_sub e 1).
Definition kes_hi (e : N) : N := N.min 63 (u64_sat_add e 1).

(* KesVerifierStandard::verify as accept / reject *)
Definition kes_verifier (msg : bt) (s : sg) (oc : opcert) (evol : N) : bool :=
  if opcert_validate oc then
    match kes_try s (oc_kes_vk oc) msg (range_incl (kes_lo evol) (kes_hi evol)) with
    | Ok true => true
    | _ => false
    end
  else false.

(* ---- registration ---- *)
(* SignerRegistrationParameters (concatenation part) *)
Record reg := mkReg {
  r_party : option bt;            (* claimed party id: ignored when certified *)
  r_opcert : option opcert;
  r_vk : N;                       (* BLS verification key *)
  r_pop : N;                      (* proof of possession: the key it proves, or junk *)
  r_kes_sig : option sg;
  r_evol : option N }.

(* VerificationKeyProofOfPossession::to_bytes = vk || pop: what the KES key signs *)
Definition vkpop_msg (vk pop : N) : bt := BLit [vk; pop].
(* verify_proof_of_possession *)
Definition pop_valid (vk pop : N) : bool := N.eqb pop vk.

(* HashMap::from_iter(stake distribution): a later pair overwrites an earlier one *)
Fixpoint sd_get (sd : list (bt * N)) (p : bt) : option N :=
  match sd with
  | [] => None
  | (q, st) :: r =>
      match sd_get r p with
      | Some x => Some x
      | None => if bt_eqb q p then Some st else None
      end
  end.

(* KeyRegistration::register = RegistrationEntry::new (PoP) then register_by_entry (C06) *)
Definition stm_register (kr : keyreg) (stake vk pop : N) : result keyreg :=
  if pop_valid vk pop then kr_register kr (mkE [vk] stake) else Err.

(* the part of KeyRegWrapper::register after the pool id is known *)
Definition wreg_finish (sd : list (bt * N)) (kr : keyreg) (r : reg) (pid : bt) : result (bt * N * keyreg) :=
  match sd_get sd pid with
  | Some stake =>
      do kr' <- stm_register kr stake (r_vk r) (r_pop r);
      Ok (pid, stake, kr')
  | None => Err                                                     (* PartyIdNonExisting *)
  end.

(* KeyRegWrapper::register.  [skip] = built with the test-only cargo feature
   `allow_skip_signer_certification` (an uncertified registration is then taken at its word) *)
Definition wreg_gen (skip : bool) (sd : list (bt * N)) (kr : keyreg) (r : reg) : result (bt * N * keyreg) :=
  match r_opcert r with
  | Some oc =>
      match r_evol r with
      | None => Err                                                 (* KesPeriodMissing *)
      | Some evol =>
          match r_kes_sig r with
          | None => Err                                             (* KesSignatureMissing *)
          | Some ks =>
              if kes_verifier (vkpop_msg (r_vk r) (r_pop r)) ks oc evol
              then wreg_finish sd kr r (pool_id (oc_cold oc))
              else Err
          end
      end
  | None =>
      if skip then
        match r_party r with
        | Some p => wreg_finish sd kr r p
        | None => Err                                               (* PartyIdMissing *)
        end
      else Err                                                      (* OpCertMissing *)
  end.
(* the production build *)
Definition wreg := wreg_gen false.

(* MithrilSignerRegistrationVerifier::verify: a *fresh* key registration per call;
   kes_evolutions = current_kes_period.unwrap_or_default() - start (saturating);
   returns the signer with the registered party id and the distribution's stake *)
Record signer_msg := mkSM { m_party : option bt; m_opcert : option opcert; m_vk : N; m_pop : N; m_kes_sig : option sg }.

Definition agg_verify_gen (skip : bool) (cur : option N) (sd : list (bt * N)) (m : signer_msg) : result (bt * N) :=
  let evol := match m_opcert m with
              | Some oc => Some (u64_sat_sub (match cur with Some c => c | None => 0 end) (oc_start oc))
              | None => None end in
  do res <- wreg_gen skip sd kr_init (mkReg (m_party m) (m_opcert m) (m_vk m) (m_pop m) (m_kes_sig m) evol);
  let '(pid, _, _) := res in
  match sd_get sd pid with
  | Some stake => Ok (pid, stake)
  | None => Err
  end.

Definition agg_verify := agg_verify_gen false.

(* ---- observation for the correspondence channel ---- *)
(* a case = a stake distribution and a sequence of registrations offered to ONE KeyRegWrapper
   (or each to the aggregator's verifier).  Observed per registration: accept / reject, and
   on acceptance the equality class of the returned party id among the pool ids of the case
   and the recorded stake. *)
Definition pid_class (universe : list bt) (p : bt) : obs :=
  match index_of p universe 0 with Some i => ON i | None => OZ (-1) end.

Fixpoint run_kw_go (skip : bool) (universe : list bt) (sd : list (bt * N)) (kr : keyreg) (rs : list reg) : list obs :=
  match rs with
  | [] => []
  | r :: rest =>
      match wreg_gen skip sd kr r with
      | Ok (pid, stake, kr') => OL [OZ 0; pid_class universe pid; ON stake] :: run_kw_go skip universe sd kr' rest
      | Err => OL [OZ 1] :: run_kw_go skip universe sd kr rest
      | Panic => OL [OZ 2] :: run_kw_go skip universe sd kr rest
      end
  end.

(* pools: cold keys of the case (their pool ids form the universe for party-id classes);
   sd: (index into pools | foreign id, stake) given directly as terms *)
Definition run_kw (skip : bool) (pools : list N) (sd : list (bt * N)) (rs : list reg) : obs :=
  OL (run_kw_go skip (map pool_id pools) sd kr_init rs).

Definition run_agg (skip : bool) (pools : list N) (sd : list (bt * N)) (cur : option N) (ms : list signer_msg) : obs :=
  OL (map (fun m => match agg_verify_gen skip cur sd m with
                    | Ok (pid, stake) => OL [OZ 0; pid_class (map pool_id pools) pid; ON stake]
                    | Err => OL [OZ 1]
                    | Panic => OL [OZ 2] end) ms).
