(* C20/Properties.v — the property theorems, nothing else.
   C20: a signer signs each beacon once, with its epoch key, acceptably to aggregators.

   All statements are over ALL event histories [evs] (ticks with any time point, stale aggregator
   views, aggregator down, registration round closed / failing / registration lost, publish failing
   cleanly / ambiguously / answered 410, restarts anywhere) that are well formed: [wf 0 evs] = tick
   epochs are u64 values and never decrease.  [run c evs] is the world after the history;
   [atts] = every register-signatures request sent so far, [regs] = every register-signer request.

   Interpretation of "at most one signature per beacon": signatures are deterministic
   ([sig_of] = function of key and signed entity), so a retry after an ambiguous failure, or after
   a crash between publish and mark (PubAmbig followed by R), re-sends THE SAME signature;
   what is unique is the distinct signature per (entity, beacon) and the acknowledged request. *)
From MV Require Import Base.Prelude Base.Machine Gen.Consts C17.Model C20.Model C20.Proofs.
Open Scope N_scope.

(* the offsets: recording - retrieval = signing (over the constants generated from epoch.rs), the
   signer's key look-up and the aggregator's current-signers look-up are the same function of the
   epoch, and a registration made during epoch r is selected exactly at epoch r + SIGNING *)
Theorem C20_offsets_agree :
  (SIGNER_RECORDING_OFFSET - SIGNER_RETRIEVAL_OFFSET = SIGNER_SIGNING_OFFSET)%Z /\
  (forall a, signer_key_epoch a = agg_current_epoch a) /\
  (forall r E, E < U64 -> signer_key_epoch E = Ok (recording_epoch r) ->
               E = r + Z.to_N SIGNER_SIGNING_OFFSET).
Proof.
  split; [exact offsets_identity | split; [exact lookups_agree | exact registration_used_two_epochs_later]].
Qed.

(* every published signature, for a beacon signed during epoch E: is made with the initializer
   stored for E + RETRIEVAL; that is the registration the aggregator serves as current signer at
   E; the signer holds that initializer and the aggregator holds that registration; it was sent
   in a register-signer request made during epoch E - SIGNING; the lottery was won *)
Theorem C20_signs_with_the_epoch_key : forall c evs, wf 0 evs ->
  forall a, In a (atts (run c evs)) ->
  let E := signing_epoch (at_ent a) in
  signer_key_epoch E = Ok (at_key a) /\ agg_current_epoch E = Ok (at_key a) /\
  In (at_key a) (inits (run c evs)) /\ In (at_key a) (agg_me (run c evs)) /\
  won c (at_key a) = true /\
  exists r, In (at_key a, r) (regs (run c evs)) /\ at_key a = recording_epoch r /\
            E = r + Z.to_N SIGNER_SIGNING_OFFSET.
Proof. exact attempt_key. Qed.

(* at most one distinct signature per (signed entity type, beacon) *)
Theorem C20_one_distinct_signature : forall c evs, wf 0 evs -> forall a b,
  In a (atts (run c evs)) -> In b (atts (run c evs)) -> at_ent a = at_ent b -> sig_of a = sig_of b.
Proof. exact one_distinct_signature. Qed.

(* at most one request per (entity, beacon) is acknowledged by the aggregator (201 / 410) *)
Theorem C20_acknowledged_once : forall c evs, wf 0 evs ->
  NoDup (map at_ent (filter is_acked (atts (run c evs)))).
Proof. exact acknowledged_once. Qed.

(* a beacon marked as signed is never sent again — from any world, hence also after a restart *)
Theorem C20_never_resends_marked : forall c w ev a,
  In a (atts (step c w ev)) -> ~ In a (atts w) -> ~ In (at_ent a) (signed w).
Proof. exact never_resend_marked. Qed.

(* acknowledged => marked; marked => acknowledged, or the lottery was lost for that epoch's key *)
Theorem C20_marked_iff_done : forall c evs, wf 0 evs ->
  (forall a, In a (atts (run c evs)) -> is_acked a = true -> In (at_ent a) (signed (run c evs))) /\
  (forall x, In x (signed (run c evs)) ->
     (exists a, In a (atts (run c evs)) /\ at_ent a = x /\ is_acked a = true) \/
     (exists k, signer_key_epoch (signing_epoch x) = Ok k /\ won c k = false)).
Proof. intros c evs H. split; [apply acked_is_marked | apply marked_only_if]; assumption. Qed.

(* a signature is only ever sent from ReadyToSign (never from Init / Unregistered /
   RegisteredNotAbleToSign), and the state stays ReadyToSign *)
Theorem C20_signs_only_when_ready : forall c w ev,
  atts (step c w ev) <> atts w -> exists e, st w = Ready e /\ st (step c w ev) = Ready e.
Proof. exact publish_only_when_ready. Qed.

(* ReadyToSign(e) is only reached with keys registered and eligible for e on both sides *)
Theorem C20_ready_means_registered : forall c evs, wf 0 evs -> forall e, st (run c evs) = Ready e ->
  exists k, signer_key_epoch e = Ok k /\ agg_current_epoch e = Ok k /\
            In k (inits (run c evs)) /\ In k (agg_me (run c evs)).
Proof. exact ready_means_registered. Qed.

(* restart: state Init, stores kept; from ReadyToSign(e), two undisturbed cycles in the same epoch
   bring the signer back to ReadyToSign(e) without any new request (no re-registration, no
   re-signing) and with the same stores *)
Theorem C20_restart_keeps_stores : forall c w,
  let w' := step c w R in
  st w' = Init /\ inits w' = inits w /\ signed w' = signed w /\ agg_me w' = agg_me w /\
  atts w' = atts w /\ regs w' = regs w.
Proof. exact restart_keeps_stores. Qed.

Theorem C20_restart_resumes : forall c evs e i1 b1 r1 p1 i2 b2 r2 p2,
  wf 0 evs -> st (run c evs) = Ready e ->
  let w := run c evs in
  let w' := run c (evs ++ [R; T e i1 b1 0 false r1 p1; T e i2 b2 0 false r2 p2]) in
  st w' = Ready e /\ atts w' = atts w /\ regs w' = regs w /\ signed w' = signed w /\ inits w' = inits w.
Proof. exact restart_resumes_run. Qed.

(* ---------- non-vacuity ---------- *)
Definition ex_cfg : config :=
  {| discs := [MSD; CSD; CDb]; ecfg := {| tx_cfg := None; btx_cfg := None |}; won := fun _ => true |}.
(* epochs 1,2,3: registers during 1 and 2, signs during 3 with the key recorded under 2;
   an ambiguous failure, a restart, and the retry of the same signature *)
Definition ex_evs : list event :=
  [ T 1 1 100 0 false RegOpen PubOk; T 1 1 100 0 false RegOpen PubOk;
    T 2 1 100 0 false RegOpen PubOk; T 2 1 100 0 false RegOpen PubOk;
    T 3 2 120 0 false RegOpen PubOk; T 3 2 120 0 false RegOpen PubOk;
    T 3 2 120 0 false RegOpen PubAmbig; R;
    T 3 2 120 0 false RegOpen PubOk; T 3 2 120 0 false RegOpen PubOk; T 3 2 120 0 false RegOpen PubOk ].

Example C20_ex_wf : wf 0 ex_evs.
Proof. vm_compute. repeat split; intros H; discriminate H. Qed.

Example C20_ex_run :
  st (run ex_cfg ex_evs) = Ready 3 /\
  map (fun a => (at_ent a, at_key a, at_mode a)) (atts (run ex_cfg ex_evs)) =
    [ (EMSD 3, 2, PubOk); (EMSD 3, 2, PubAmbig) ] /\
  signed (run ex_cfg ex_evs) = [EMSD 3] /\
  map fst (regs (run ex_cfg ex_evs)) = [4; 3; 2].
Proof. vm_compute. repeat split. Qed.
