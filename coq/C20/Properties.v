(* C20/Properties.v — the property theorems, nothing else.
   C20: a signer signs each beacon once, with its epoch key, acceptably to aggregators.

   All statements are over ALL event histories [evs] (ticks with any time point, stale aggregator
   views, aggregator down, registration round closed / failing / registration lost, publish failing
   cleanly / ambiguously / answered 410, restarts anywhere) that are well formed: [wf 0 evs] = tick
   epochs are u64 values and never decrease.  [run c evs] is the world after the history;
   [atts] = every register-signatures request sent so far, [regs] = every register-signer request.

   Interpretation of "at most one signature per beacon": signatures are deterministic
   ([sig_of] = function of key and signed entity), so a retry after an ambiguous failure, or after
   a crash between publish and mark (PubAmbig followed by R), re-sends THE SAME signature;
   what is unique is the distinct signature per (entity, beacon) and the acknowledged request. *)
From MV Require Import Base.Prelude Base.Machine Gen.Consts C17.Model C20.Model C20.Proofs C20.Progress.
Open Scope N_scope.

(* the offsets: recording - retrieval = signing (over the constants generated from epoch.rs), the
   signer's key look-up and the aggregator's current-signers look-up are the same function of the
   epoch, and a registration made during epoch r is selected exactly at epoch r + SIGNING *)
Theorem C20_offsets_agree :
  (SIGNER_RECORDING_OFFSET - SIGNER_RETRIEVAL_OFFSET = SIGNER_SIGNING_OFFSET)%Z /\
  (forall a, signer_key_epoch a = agg_current_epoch a) /\
  (forall r E, E < U64 -> signer_key_epoch E = Ok (recording_epoch r) ->
               E = r + Z.to_N SIGNER_SIGNING_OFFSET).
Proof.
  split; [exact offsets_identity | split; [exact lookups_agree | exact registration_used_two_epochs_later]].
Qed.

(* every published signature, for a beacon signed during epoch E: is made with the initializer
   stored for E + RETRIEVAL; that is the registration the aggregator serves as current signer at
   E; the signer holds that initializer and the aggregator holds that registration; it was sent
   in a register-signer request made during epoch E - SIGNING; the lottery was won *)
Theorem C20_signs_with_the_epoch_key : forall c evs, wf 0 evs ->
  forall a, In a (atts (run c evs)) ->
  let E := signing_epoch (at_ent a) in
  signer_key_epoch E = Ok (at_key a) /\ agg_current_epoch E = Ok (at_key a) /\
  In (at_key a) (inits (run c evs)) /\ In (at_key a) (agg_me (run c evs)) /\
  won c (at_key a) = true /\
  exists r, In (at_key a, r) (regs (run c evs)) /\ at_key a = recording_epoch r /\
            E = r + Z.to_N SIGNER_SIGNING_OFFSET.
Proof. exact attempt_key. Qed.

(* at most one distinct signature per (signed entity type, beacon) *)
Theorem C20_one_distinct_signature : forall c evs, wf 0 evs -> forall a b,
  In a (atts (run c evs)) -> In b (atts (run c evs)) -> at_ent a = at_ent b -> sig_of a = sig_of b.
Proof. exact one_distinct_signature. Qed.

(* at most one request per (entity, beacon) is acknowledged by the aggregator (201 / 410) *)
Theorem C20_acknowledged_once : forall c evs, wf 0 evs ->
  NoDup (map at_ent (filter is_acked (atts (run c evs)))).
Proof. exact acknowledged_once. Qed.

(* a beacon marked as signed is never sent again — from any world, hence also after a restart *)
Theorem C20_never_resends_marked : forall c w ev a,
  In a (atts (step c w ev)) -> ~ In a (atts w) -> ~ In (at_ent a) (signed w).
Proof. exact never_resend_marked. Qed.

(* acknowledged => marked; marked => acknowledged, or the lottery was lost for that epoch's key *)
Theorem C20_marked_iff_done : forall c evs, wf 0 evs ->
  (forall a, In a (atts (run c evs)) -> is_acked a = true -> In (at_ent a) (signed (run c evs))) /\
  (forall x, In x (signed (run c evs)) ->
     (exists a, In a (atts (run c evs)) /\ at_ent a = x /\ is_acked a = true) \/
     (exists k, signer_key_epoch (signing_epoch x) = Ok k /\ won c k = false)).
Proof. intros c evs H. split; [apply acked_is_marked | apply marked_only_if]; assumption. Qed.

(* a signature is only ever sent from ReadyToSign (never from Init / Unregistered /
   RegisteredNotAbleToSign), and the state stays ReadyToSign *)
Theorem C20_signs_only_when_ready : forall c w ev,
  atts (step c w ev) <> atts w -> exists e, st w = Ready e /\ st (step c w ev) = Ready e.
Proof. exact publish_only_when_ready. Qed.

(* ReadyToSign(e) is only reached with keys registered and eligible for e on both sides *)
Theorem C20_ready_means_registered : forall c evs, wf 0 evs -> forall e, st (run c evs) = Ready e ->
  exists k, signer_key_epoch e = Ok k /\ agg_current_epoch e = Ok k /\
            In k (inits (run c evs)) /\ In k (agg_me (run c evs)).
Proof. exact ready_means_registered. Qed.

(* restart: state Init, stores kept; from ReadyToSign(e), two undisturbed cycles in the same epoch
   bring the signer back to ReadyToSign(e) without any new request (no re-registration, no
   re-signing) and with the same stores *)
Theorem C20_restart_keeps_stores : forall c w,
  let w' := step c w R in
  st w' = Init /\ inits w' = inits w /\ signed w' = signed w /\ agg_me w' = agg_me w /\
  atts w' = atts w /\ regs w' = regs w.
Proof. exact restart_keeps_stores. Qed.

Theorem C20_restart_resumes : forall c evs e i1 b1 r1 p1 i2 b2 r2 p2,
  wf 0 evs -> st (run c evs) = Ready e ->
  let w := run c evs in
  let w' := run c (evs ++ [R; T e i1 b1 0 false r1 p1; T e i2 b2 0 false r2 p2]) in
  st w' = Ready e /\ atts w' = atts w /\ regs w' = regs w /\ signed w' = signed w /\ inits w' = inits w.
Proof. exact restart_resumes_run. Qed.

(* ---------- registration: key agreement and progress ---------- *)

(* every protocol initializer the signer has stored was sent to the aggregator in a register-signer
   request the aggregator acknowledged, made during the epoch before its recording epoch; and a
   signer in one of the two registered states of epoch e holds such a key for the recording epoch
   of e *)
Theorem C20_stored_keys_were_acknowledged : forall c evs, wf 0 evs ->
  (forall k, In k (inits (run c evs)) ->
     exists r, In (k, r) (regs (run c evs)) /\ k = recording_epoch r) /\
  (forall e, st (run c evs) = Ready e \/ st (run c evs) = RNATS e ->
     In (recording_epoch e) (inits (run c evs)) /\ In (recording_epoch e, e) (regs (run c evs))).
Proof. exact stored_keys_acknowledged. Qed.

(* ... and, as long as the aggregator does not lose a registration it acknowledged (no RegDrop
   event), every stored key is the one the aggregator holds for that recording epoch *)
Theorem C20_stored_keys_are_recorded : forall c evs, no_drop evs ->
  forall k, In k (inits (run c evs)) -> In k (agg_me (run c evs)).
Proof. exact run_keys_agree. Qed.

(* at most one acknowledged registration per recording epoch (any history, restarts included) *)
Theorem C20_registers_once_per_epoch : forall c evs,
  NoDup (map fst (regs (run c evs))).
Proof. intros c evs. apply (run_regs_ok c evs). Qed.

(* progress: from Unregistered(e), ONE cycle in which the aggregator is reachable, up to date and
   its registration round is open ends in a registered state with a stored key for the recording
   epoch of e; unless that key was stored earlier, the request was sent in this cycle and recorded
   by the aggregator; the state is ReadyToSign exactly when the key of e is held on both sides *)
Theorem C20_open_round_registers : forall c evs e ce imm blk p,
  st (run c evs) = Unreg e -> signer_key_epoch e = Ok ce ->
  let w := run c evs in
  let w' := run c (evs ++ [T e imm blk 0 false RegOpen p]) in
  (st w' = Ready e \/ st w' = RNATS e) /\
  In (recording_epoch e) (inits w') /\
  (In (recording_epoch e) (inits w) \/
   In (recording_epoch e, e) (regs w') /\ In (recording_epoch e) (agg_me w')) /\
  (st w' = Ready e <-> In ce (inits w) /\ In ce (agg_me w)).
Proof. intros c evs e ce imm blk p H1 H2. cbv zeta. rewrite run_snoc. apply register_progress; assumption. Qed.

(* progress: a signer that is Unregistered(E) and holds, for the key epoch k of E, an initializer
   the aggregator also holds, and an initializer for the next key epoch, is ReadyToSign(E) after one
   undisturbed cycle and publishes, in the next cycle and whatever the aggregator's registration
   side does, the first not yet signed entity of the time point with key k (when the lottery is
   won); an acknowledged publication is marked *)
Theorem C20_eligible_signer_publishes : forall c evs E k i1 b1 p1 i2 b2 lag2 down2 r2 p2 xs x,
  let w := run c evs in
  st w = Unreg E -> signer_key_epoch E = Ok k ->
  In k (inits w) -> In k (agg_me w) -> In (next_key_epoch E) (inits w) -> won c k = true ->
  entities_of (ecfg_at c k) (discs_at c k) {| tp_epoch := E; tp_imm := i2; tp_block := b2 |} = Ok xs ->
  first_unsigned xs (signed w) = Some x ->
  let w' := run c (evs ++ [T E i1 b1 0 false RegOpen p1; T E i2 b2 lag2 down2 r2 p2]) in
  atts w' = {| at_ent := x; at_key := k; at_mode := p2 |} :: atts w /\
  (acked p2 = true -> In x (signed w')) /\ st w' = Ready E.
Proof. intros. unfold w'. rewrite run_app. eapply eligible_signs; eassumption. Qed.

(* the two together, over a whole history: a registration made in ONE undisturbed cycle of epoch e
   (round open) is, whatever happens in between (faults, restarts, as long as the aggregator did not
   lose an acknowledged registration before), the key the signer publishes with as soon as it is
   Unregistered(E) for the epoch E that retrieves that recording epoch (E = e + SIGNING, see
   C20_offsets_agree) with the next key registered too *)
Theorem C20_open_round_signs_two_epochs_later :
  forall c evs1 evs2 e ce i0 b0 p0 E i1 b1 p1 i2 b2 lag2 down2 r2 p2 xs x,
  no_drop evs1 ->
  st (run c evs1) = Unreg e -> signer_key_epoch e = Ok ce ->
  let w := run c (evs1 ++ T e i0 b0 0 false RegOpen p0 :: evs2) in
  st w = Unreg E -> signer_key_epoch E = Ok (recording_epoch e) ->
  In (next_key_epoch E) (inits w) -> won c (recording_epoch e) = true ->
  entities_of (ecfg_at c (recording_epoch e)) (discs_at c (recording_epoch e))
              {| tp_epoch := E; tp_imm := i2; tp_block := b2 |} = Ok xs ->
  first_unsigned xs (signed w) = Some x ->
  let w' := run_from c w [T E i1 b1 0 false RegOpen p1; T E i2 b2 lag2 down2 r2 p2] in
  atts w' = {| at_ent := x; at_key := recording_epoch e; at_mode := p2 |} :: atts w /\
  (acked p2 = true -> In x (signed w')) /\ st w' = Ready E.
Proof. exact open_round_signs_later. Qed.

(* ---------- non-vacuity ---------- *)
Definition ex_cfg : config :=
  {| discs_at := fun _ => [MSD; CSD; CDb]; ecfg_at := fun _ => {| tx_cfg := None; btx_cfg := None |};
     won := fun _ => true |}.
(* epochs 1,2,3: registers during 1 and 2, signs during 3 with the key recorded under 2;
   an ambiguous failure, a restart, and the retry of the same signature *)
Definition ex_evs : list event :=
  [ T 1 1 100 0 false RegOpen PubOk; T 1 1 100 0 false RegOpen PubOk;
    T 2 1 100 0 false RegOpen PubOk; T 2 1 100 0 false RegOpen PubOk;
    T 3 2 120 0 false RegOpen PubOk; T 3 2 120 0 false RegOpen PubOk;
    T 3 2 120 0 false RegOpen PubAmbig; R;
    T 3 2 120 0 false RegOpen PubOk; T 3 2 120 0 false RegOpen PubOk; T 3 2 120 0 false RegOpen PubOk ].

Example C20_ex_wf : wf 0 ex_evs.
Proof. vm_compute. repeat split; intros H; discriminate H. Qed.

Example C20_ex_run :
  st (run ex_cfg ex_evs) = Ready 3 /\
  map (fun a => (at_ent a, at_key a, at_mode a)) (atts (run ex_cfg ex_evs)) =
    [ (EMSD 3, 2, PubOk); (EMSD 3, 2, PubAmbig) ] /\
  signed (run ex_cfg ex_evs) = [EMSD 3] /\
  map fst (regs (run ex_cfg ex_evs)) = [4; 3; 2].
Proof. vm_compute. repeat split. Qed.

(* the progress theorems' hypotheses are satisfiable: the round is closed at the first attempt of
   epoch 1, open at the second; the registration of epoch 1 (recorded under 2) signs MSD(3) *)
Definition ex_evs1 : list event := [ T 1 1 100 0 false RegOpen PubOk; T 1 1 100 0 false RegClosed PubOk ].
Definition ex_evs2 : list event := [ T 2 1 100 0 false RegOpen PubOk; T 2 1 100 0 false RegOpen PubOk;
                                     T 3 2 120 0 false RegOpen PubOk ].
Example C20_ex_progress :
  no_drop ex_evs1 /\ st (run ex_cfg ex_evs1) = Unreg 1 /\ signer_key_epoch 1 = Ok 0 /\
  map fst (regs (run ex_cfg ex_evs1)) = [] /\
  let w := run ex_cfg (ex_evs1 ++ T 1 1 100 0 false RegOpen PubOk :: ex_evs2) in
  st w = Unreg 3 /\ signer_key_epoch 3 = Ok (recording_epoch 1) /\ In (next_key_epoch 3) (inits w) /\
  entities_of (ecfg_at ex_cfg 2) (discs_at ex_cfg 2) {| tp_epoch := 3; tp_imm := 2; tp_block := 120 |}
    = Ok [EMSD 3; ECSD 2; ECDb 3 2] /\
  first_unsigned [EMSD 3; ECSD 2; ECDb 3 2] (signed w) = Some (EMSD 3).
Proof. vm_compute. repeat split; auto. Qed.
