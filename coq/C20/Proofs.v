(* C20/Proofs.v — invariants of the signer cycle over all event histories. *)
From Coq Require Import Lia.
From MV Require Import Base.Prelude Base.Machine Gen.Consts C17.Model C20.Model.
Open Scope N_scope.

(* ---------- reflection of the boolean membership tests ---------- *)
Lemma memN_In x l : memN x l = true <-> In x l.
Proof.
  unfold memN. rewrite existsb_exists. split.
  - intros [y [Hy He]]. apply N.eqb_eq in He. subst; assumption.
  - intros H. exists x. split; [assumption | apply N.eqb_refl].
Qed.

Lemma entity_eqb_refl a : entity_eqb a a = true.
Proof. destruct a; cbn [entity_eqb]; rewrite ?N.eqb_refl; reflexivity. Qed.

Lemma entity_eqb_eq a b : entity_eqb a b = true -> a = b.
Proof.
  destruct a, b; cbn [entity_eqb]; intros H; try discriminate;
    repeat (apply andb_true_iff in H; destruct H as [H ?]);
    repeat match goal with Hx : (_ =? _) = true |- _ => apply N.eqb_eq in Hx end; subst; reflexivity.
Qed.

Lemma memE_In x l : memE x l = true <-> In x l.
Proof.
  unfold memE. rewrite existsb_exists. split.
  - intros [y [Hy He]]. apply entity_eqb_eq in He. subst; assumption.
  - intros H. exists x. split; [assumption | apply entity_eqb_refl].
Qed.

Lemma memE_false x l : memE x l = false <-> ~ In x l.
Proof. rewrite <- memE_In. destruct (memE x l); intuition congruence. Qed.

(* ---------- offsets ---------- *)
Lemma offsets_identity :
  (SIGNER_RECORDING_OFFSET - SIGNER_RETRIEVAL_OFFSET = SIGNER_SIGNING_OFFSET)%Z.
Proof. reflexivity. Qed.

(* Epoch::offset_by on a u64 epoch with a small offset: Ok pins the value *)
Lemma offset_ok a off v : a < U64 -> (- 4294967296 < off <= 0)%Z ->
  epoch_offset_by a off = Ok v -> (Z.of_N v = Z.of_N a + off)%Z.
Proof.
  unfold U64, epoch_offset_by, as_i64, I64_MAX, I64_MIN. intros Ha Hoff.
  destruct (Z.leb_spec (Z.of_N a) 9223372036854775807).
  - destruct (_ || _); [discriminate|].
    destruct (Z.ltb_spec (Z.of_N a + off) 0); [discriminate|].
    intros [= <-]. rewrite Z2N.id by lia. reflexivity.
  - destruct (_ || _); [discriminate|].
    destruct (Z.ltb_spec (Z.of_N a - 18446744073709551616 + off) 0); [discriminate|].
    lia.
Qed.

Lemma retrieval_small : (- 4294967296 < SIGNER_RETRIEVAL_OFFSET <= 0)%Z.
Proof. unfold SIGNER_RETRIEVAL_OFFSET. lia. Qed.

(* a registration made during chain epoch [r] (recorded under recording_epoch r) is the key the
   retrieval look-up selects exactly at epoch r + SIGNING *)
Lemma registration_used_two_epochs_later r E :
  E < U64 -> signer_key_epoch E = Ok (recording_epoch r) ->
  E = r + Z.to_N SIGNER_SIGNING_OFFSET.
Proof.
  intros HE H. apply (offset_ok _ _ _ HE retrieval_small) in H.
  unfold recording_epoch in H. pose proof offsets_identity as Hid.
  assert (0 <= SIGNER_RECORDING_OFFSET)%Z by (unfold SIGNER_RECORDING_OFFSET; lia).
  assert (0 <= SIGNER_SIGNING_OFFSET)%Z by (unfold SIGNER_SIGNING_OFFSET; lia).
  lia.
Qed.

(* ---------- entities of a time point ---------- *)
Lemma tp_entity_epoch c d tp x : tp_epoch tp < U64 ->
  tp_to_entity c d tp = Ok x -> signing_epoch x = tp_epoch tp.
Proof.
  intros Hu. destruct d; cbn [tp_to_entity].
  - intros [= <-]. reflexivity.
  - destruct (epoch_offset_by (tp_epoch tp) (-1)) as [v| |] eqn:Ho; cbn [rmap]; try discriminate.
    intros [= <-]. cbn [signing_epoch].
    apply (offset_ok _ _ _ Hu) in Ho; lia.
  - destruct (tx_cfg c) as [[? ?]|]; [|discriminate]. intros [= <-]. reflexivity.
  - destruct (btx_cfg c) as [[? ?]|]; [|discriminate]. intros [= <-]. reflexivity.
  - intros [= <-]. reflexivity.
Qed.

Lemma entities_of_epoch c ds tp xs x : tp_epoch tp < U64 ->
  entities_of c ds tp = Ok xs -> In x xs -> signing_epoch x = tp_epoch tp.
Proof.
  intros Hu. revert xs. induction ds as [|d ds IH]; cbn [entities_of]; intros xs.
  - intros [= <-] [].
  - destruct (tp_to_entity c d tp) as [y| |] eqn:Hy; cbn [rbind]; try discriminate.
    destruct (entities_of c ds tp) as [ys| |]; cbn [rbind]; try discriminate.
    intros [= <-] [<- | Hin].
    + eapply tp_entity_epoch; eassumption.
    + eapply IH; [reflexivity | assumption].
Qed.

Lemma first_unsigned_spec xs sg x : first_unsigned xs sg = Some x -> In x xs /\ ~ In x sg.
Proof.
  induction xs as [|y ys IH]; cbn [first_unsigned]; [discriminate|].
  destruct (memE y sg) eqn:Hm.
  - intros H. destruct (IH H). split; [right|]; assumption.
  - intros [= <-]. split; [left; reflexivity | apply memE_false; assumption].
Qed.

(* ---------- well-formed histories ---------- *)
(* tick epochs are u64 values and never decrease; [lo] = epoch of the latest tick so far *)
Fixpoint wf (lo : N) (evs : list event) : Prop :=
  match evs with
  | [] => True
  | R :: t => wf lo t
  | T te _ _ _ _ _ _ :: t => lo <= te /\ te < U64 /\ wf te t
  end.
Fixpoint last_epoch (lo : N) (evs : list event) : N :=
  match evs with
  | [] => lo
  | R :: t => last_epoch lo t
  | T te _ _ _ _ _ _ :: t => last_epoch te t
  end.

Definition st_epoch_le (s : sstate) (lo : N) : Prop :=
  match s with Init => True | Unreg e | Ready e | RNATS e => e <= lo end.

Definition is_acked (a : attempt) : bool := acked (at_mode a).

(* the invariant *)
Record Inv (c : config) (lo : N) (w : world) : Prop := {
  i_st : st_epoch_le (st w) lo;
  i_lo : lo < U64;
  (* epoch data agrees with the stores it was read from *)
  i_init : forall d k, ed w = Some d -> ed_init d = Some k ->
             signer_key_epoch (ed_epoch d) = Ok k /\ In k (inits w);
  i_cur : forall d, ed w = Some d -> ed_cur_me d = true ->
             exists k, agg_current_epoch (ed_epoch d) = Ok k /\ In k (agg_me w);
  i_ed_u64 : forall d, ed w = Some d -> ed_epoch d < U64;
  (* ReadyToSign(e): data of epoch e, an initializer, and the aggregator lists it *)
  i_ready : forall e, st w = Ready e ->
             exists d, ed w = Some d /\ ed_epoch d = e /\ ed_init d <> None /\ ed_cur_me d = true;
  (* both registered states: registration for the recording epoch of e is done *)
  i_registered : forall e, (st w = Ready e \/ st w = RNATS e) -> In (recording_epoch e) (inits w);
  (* stores *)
  i_agg_sub : forall k, In k (agg_me w) -> In k (inits w);
  i_inits_regs : forall k, In k (inits w) -> exists ce, In (k, ce) (regs w);
  i_regs : forall k ce, In (k, ce) (regs w) -> k = recording_epoch ce /\ ce <= lo /\ In k (inits w);
  (* attempts *)
  i_att_key : forall a, In a (atts w) ->
             signer_key_epoch (signing_epoch (at_ent a)) = Ok (at_key a) /\
             agg_current_epoch (signing_epoch (at_ent a)) = Ok (at_key a) /\
             In (at_key a) (inits w) /\ In (at_key a) (agg_me w) /\
             signing_epoch (at_ent a) <= lo /\ won c (at_key a) = true;
  i_acked_marked : forall a, In a (atts w) -> is_acked a = true -> In (at_ent a) (signed w);
  i_marked : forall x, In x (signed w) ->
             (exists a, In a (atts w) /\ at_ent a = x /\ is_acked a = true) \/
             (exists k, signer_key_epoch (signing_epoch x) = Ok k /\ won c k = false);
  i_ack_once : NoDup (map at_ent (filter is_acked (atts w)))
}.

Lemma inv_w0 c lo : lo < U64 -> Inv c lo w0.
Proof.
  intros Hlo. constructor; cbn; try assumption; try (intros; discriminate); try (intros; contradiction); try easy.
  all: try (intros e [H|H]; discriminate).
  all: try constructor.
Qed.

(* raising the "latest epoch" keeps the invariant *)
Lemma inv_raise c lo lo' w : lo <= lo' -> lo' < U64 -> Inv c lo w -> Inv c lo' w.
Proof.
  intros Hle Hu I. destruct I. constructor; try assumption.
  - destruct (st w); cbn in *; lia.
  - intros k ce H. destruct (i_regs0 k ce H) as (? & ? & ?). repeat split; try assumption; lia.
  - intros a H. destruct (i_att_key0 a H) as (? & ? & ? & ? & ? & ?). repeat split; try assumption; lia.
Qed.

Lemma inv_set_st c lo w s : Inv c lo w -> st_epoch_le s lo ->
  (forall e, s = Ready e -> exists d, ed w = Some d /\ ed_epoch d = e /\ ed_init d <> None /\ ed_cur_me d = true) ->
  (forall e, s = Ready e \/ s = RNATS e -> In (recording_epoch e) (inits w)) ->
  Inv c lo (set_st w s).
Proof. intros I Hs Hr Hg. destruct I. constructor; cbn; assumption. Qed.

(* ---------- the registration transition ---------- *)
Lemma inv_register c lo w te cf r :
  Inv c lo w -> lo = te -> st w = Unreg te ->
  Inv c lo (register_transition w te te cf r).
Proof.
  intros I -> Hst. pose proof I as I0. destruct I.
  unfold register_transition.
  destruct (signer_key_epoch te) as [k| |] eqn:Hk; try assumption.
  set (d := {| ed_epoch := te; ed_cfg := cf; ed_init := if memN k (inits w) then Some k else None;
               ed_cur_me := memN k (agg_me w) |}).
  (* facts about the new epoch data, valid for any store extension *)
  assert (Hd_init : forall k', ed_init d = Some k' -> k' = k /\ In k (inits w)).
  { cbn. destruct (memN k (inits w)) eqn:Hm; [|discriminate]. intros k' [= <-].
    split; [reflexivity | apply memN_In; assumption]. }
  assert (Hd_cur : ed_cur_me d = true -> In k (agg_me w)) by (cbn; apply memN_In).
  assert (Hcan : forall w', ed w' = Some d ->
            (match ed_init d with Some _ => ed_cur_me d | None => false end) = true ->
            exists d', ed w' = Some d' /\ ed_epoch d' = te /\ ed_init d' <> None /\ ed_cur_me d' = true).
  { intros w' Hw' Hc. exists d. split; [assumption|]. split; [reflexivity|].
    destruct (ed_init d); [split; [discriminate | assumption] | discriminate]. }
  (* a generic "after" world: data d, stores extended by the recording epoch *)
  assert (Hgen : forall inits' agg' regs' s,
      (forall x, In x (inits w) -> In x inits') ->
      (forall x, In x (agg_me w) -> In x agg') ->
      (forall x, In x agg' -> In x inits') ->
      (forall x, In x inits' -> exists ce, In (x, ce) regs') ->
      (forall x ce, In (x, ce) regs' -> x = recording_epoch ce /\ ce <= te /\ In x inits') ->
      st_epoch_le s te ->
      (forall e, s = Ready e -> e = te /\ (match ed_init d with Some _ => ed_cur_me d | None => false end) = true) ->
      (forall e, s = Ready e \/ s = RNATS e -> e = te /\ In (recording_epoch te) inits') ->
      Inv c te {| st := s; ed := Some d; inits := inits'; signed := signed w; agg_me := agg';
                  atts := atts w; regs := regs' |}).
  { intros inits' agg' regs' s Hi Ha Hai Hir Hr Hs Hrd Hrg. constructor; cbn; try assumption.
    - intros d0 k0 [= <-] Hk0. destruct (Hd_init _ Hk0) as [-> Hin]. split; [assumption | auto].
    - intros d0 [= <-] Hc. exists k. split; [assumption | auto].
    - intros d0 [= <-]. cbn. assumption.
    - intros e He. destruct (Hrd e He) as [-> Hc]. exists d. split; [reflexivity|]. split; [reflexivity|].
      destruct (ed_init d); [split; [discriminate | assumption] | discriminate].
    - intros e He. destruct (Hrg e He) as [-> Hin]. assumption.
    - intros a Ha0. destruct (i_att_key0 a Ha0) as (? & ? & ? & ? & ? & ?). repeat split; auto. }
  assert (Hrec_fresh : forall x, In x (recording_epoch te :: inits w) ->
             exists ce, In (x, ce) ((recording_epoch te, te) :: regs w)).
  { intros x [<- | Hx]; [exists te; left; reflexivity|].
    destruct (i_inits_regs0 x Hx) as [ce Hce]. exists ce. right; assumption. }
  assert (Hregs_fresh : forall x ce, In (x, ce) ((recording_epoch te, te) :: regs w) ->
             x = recording_epoch ce /\ ce <= te /\ In x (recording_epoch te :: inits w)).
  { intros x ce [[= <- <-] | Hx]; [repeat split; [lia | left; reflexivity]|].
    destruct (i_regs0 x ce Hx) as (? & ? & ?). repeat split; try assumption. right; assumption. }
  set (can := match ed_init d with Some _ => ed_cur_me d | None => false end) in *.
  assert (Hfinal : forall inits' agg' regs',
      (forall x, In x (inits w) -> In x inits') ->
      (forall x, In x (agg_me w) -> In x agg') ->
      (forall x, In x agg' -> In x inits') ->
      (forall x, In x inits' -> exists ce, In (x, ce) regs') ->
      (forall x ce, In (x, ce) regs' -> x = recording_epoch ce /\ ce <= te /\ In x inits') ->
      In (recording_epoch te) inits' ->
      Inv c te (set_st {| st := st w; ed := Some d; inits := inits'; signed := signed w; agg_me := agg';
                          atts := atts w; regs := regs' |} (if can then Ready te else RNATS te))).
  { intros inits' agg' regs' Hi Ha Hai Hir Hr Hin. unfold set_st; cbn.
    apply Hgen; try assumption.
    - destruct can; cbn; lia.
    - intros e He. destruct can eqn:Hc; [injection He as <-; split; reflexivity | discriminate].
    - intros e [He|He]; destruct can; try discriminate; injection He as <-; split; auto. }
  destruct (memN (recording_epoch te) (inits w)) eqn:Hmem.
  - apply Hfinal; auto. apply memN_In; assumption.
  - destruct r.
    + (* RegOpen *)
      apply Hfinal; try assumption.
      * intros x Hx; right; assumption.
      * intros x Hx; right; assumption.
      * intros x [<- | Hx]; [left; reflexivity | right; auto].
      * left; reflexivity.
    + (* RegClosed *)
      unfold set_st; cbn. apply Hgen; auto; cbn; try lia;
        try (intros e He; discriminate); try (intros e [He|He]; discriminate).
    + (* RegFail *)
      apply Hgen; auto; rewrite ?Hst; cbn; try lia;
        try (intros e He; discriminate); try (intros e [He|He]; discriminate).
    + (* RegDrop *)
      apply Hfinal; try assumption.
      * intros x Hx; right; assumption.
      * auto.
      * intros x Hx; right; auto.
      * left; reflexivity.
    + (* RegAmbig *)
      apply Hgen; auto; rewrite ?Hst; cbn; try lia;
        try (intros e He; discriminate); try (intros e [He|He]; discriminate).
Qed.

(* ---------- the signing transition ---------- *)
Lemma inv_sign c lo w e x p :
  Inv c lo w -> st w = Ready e -> lo = e ->
  signing_epoch x = e -> ~ In x (signed w) ->
  Inv c lo (sign_transition c w x p).
Proof.
  intros I Hst -> Hx Hnot. pose proof I as I0. destruct I.
  destruct (i_ready0 e Hst) as (d & Hd & Hde & Hdi & Hdc).
  unfold sign_transition. rewrite Hd.
  destruct (negb (memN (next_key_epoch (ed_epoch d)) (inits w))); [assumption|].
  destruct (ed_init d) as [k|] eqn:Hk; [|assumption].
  rewrite Hdc. cbn [negb].
  destruct (i_init0 d k Hd Hk) as [Hkey Hkin].
  destruct (i_cur0 d Hd Hdc) as (k' & Hk' & Hk'in).
  assert (k' = k) by (unfold agg_current_epoch, signer_key_epoch in *; congruence). subst k'.
  rewrite Hde in *.
  destruct (won c k) eqn:Hwon.
  - (* a signature is sent *)
    constructor; cbn; rewrite <- ?Hd; try assumption.
    + intros a [<- | Ha]; cbn.
      * rewrite Hx. repeat split; try assumption. lia.
      * apply i_att_key0; assumption.
    + intros a [<- | Ha] Hack.
      * unfold is_acked in Hack; cbn in Hack. rewrite Hack. left; reflexivity.
      * destruct (acked p); [right|]; apply i_acked_marked0; assumption.
    + intros y Hy.
      assert (Hold : In y (signed w) ->
                (exists a, In a ({| at_ent := x; at_key := k; at_mode := p |} :: atts w) /\ at_ent a = y /\ is_acked a = true) \/
                (exists k0, signer_key_epoch (signing_epoch y) = Ok k0 /\ won c k0 = false)).
      { intros Hy'. destruct (i_marked0 y Hy') as [(a & Ha & Hay & Hack) | Hl]; [left | right; assumption].
        exists a. split; [right; assumption | split; assumption]. }
      destruct (acked p) eqn:Hp; [|auto].
      destruct Hy as [<- | Hy]; [|auto].
      left. eexists. split; [left; reflexivity|]. split; [reflexivity | exact Hp].
    + unfold is_acked at 1. cbn [at_mode filter]. destruct (acked p) eqn:Hp; [|assumption].
      cbn [map at_ent]. constructor; [|assumption].
      intros Hin. apply in_map_iff in Hin as (a & Hax & Hain). apply filter_In in Hain as [Hain Hack].
      apply Hnot. rewrite <- Hax. apply i_acked_marked0; assumption.
  - (* lottery lost: marked without any request *)
    constructor; cbn; rewrite <- ?Hd; try assumption.
    + intros a Ha Hack. right. apply i_acked_marked0; assumption.
    + intros y [<- | Hy]; [|apply i_marked0; assumption].
      right. exists k. rewrite Hx. split; assumption.
Qed.

(* ---------- one step ---------- *)
Lemma inv_step c lo w ev :
  Inv c lo w -> wf lo [ev] -> Inv c (last_epoch lo [ev]) (step c w ev).
Proof.
  intros I Hwf. destruct ev as [te imm blk lag down r p|]; cbn [last_epoch wf] in *.
  2:{ (* restart *)
      destruct I. constructor; cbn; try assumption; try easy; try (intros; discriminate).
      intros e [H|H]; discriminate. }
  destruct Hwf as (Hlo & Hu & _).
  pose proof (inv_raise c lo te w Hlo Hu I) as I'.
  cbn [step]. destruct (st w) as [|e|e|e] eqn:Hst.
  - (* Init *)
    apply inv_set_st; [assumption | cbn; lia | intros ? [=] | intros ? [[=]|[=]]].
  - (* Unregistered *)
    unfold new_epoch. destruct (N.ltb_spec e te).
    + apply inv_set_st; [assumption | cbn; lia | intros ? [=] | intros ? [[=]|[=]]].
    + destruct down; [assumption|].
      destruct (signer_key_epoch e); try assumption.
      destruct (N.ltb_spec (te - lag) e); [assumption|].
      assert (He : e = te).
      { pose proof (i_st _ _ _ I) as Hs. rewrite Hst in Hs. cbn in Hs. lia. }
      subst e. replace (te - lag) with te by lia.
      apply inv_register; [assumption | reflexivity | assumption].
  - (* ReadyToSign *)
    unfold new_epoch. destruct (N.ltb_spec e te).
    + apply inv_set_st; [assumption | cbn; lia | intros ? [=] | intros ? [[=]|[=]]].
    + assert (He : e = te).
      { pose proof (i_st _ _ _ I) as Hs. rewrite Hst in Hs. cbn in Hs. lia. }
      subst e.
      destruct (ed w) as [d0|] eqn:Hed0; [|assumption].
      destruct (entities_of _ _ _) as [xs| |] eqn:Hxs; try assumption.
      destruct (first_unsigned xs (signed w)) as [x|] eqn:Hfu; [|assumption].
      apply first_unsigned_spec in Hfu as [Hin Hnot].
      eapply inv_sign; try eassumption; [reflexivity|].
      eapply entities_of_epoch in Hxs; [|cbn; assumption|eassumption]. exact Hxs.
  - (* RegisteredNotAbleToSign *)
    unfold new_epoch. destruct (N.ltb_spec e te).
    + apply inv_set_st; [assumption | cbn; lia | intros ? [=] | intros ? [[=]|[=]]].
    + assumption.
Qed.

Lemma wf_cons lo ev evs : wf lo (ev :: evs) -> wf lo [ev] /\ wf (last_epoch lo [ev]) evs.
Proof. destruct ev; cbn; intuition. Qed.

Lemma last_epoch_cons lo ev evs : last_epoch lo (ev :: evs) = last_epoch (last_epoch lo [ev]) evs.
Proof. destruct ev; reflexivity. Qed.

Lemma inv_run_from c evs : forall lo w,
  Inv c lo w -> wf lo evs -> Inv c (last_epoch lo evs) (run_from c w evs).
Proof.
  induction evs as [|ev evs IH]; intros lo w I Hwf; [exact I|].
  apply wf_cons in Hwf as [H1 H2]. rewrite last_epoch_cons. cbn [run_from].
  apply IH; [apply inv_step; assumption | assumption].
Qed.

Lemma inv_run c evs : wf 0 evs -> Inv c (last_epoch 0 evs) (run c evs).
Proof. intros H. apply inv_run_from; [apply inv_w0; reflexivity | assumption]. Qed.

(* ---------- step-local facts (no invariant needed) ---------- *)
Lemma register_keeps_atts w te a ce r :
  atts (register_transition w te a ce r) = atts w /\ signed (register_transition w te a ce r) = signed w.
Proof.
  unfold register_transition. destruct (signer_key_epoch a); try (split; reflexivity).
  destruct (memN _ _); [unfold set_st; destruct (match _ with Some _ => _ | None => _ end); split; reflexivity|].
  destruct r; unfold set_st; cbn; try (split; reflexivity);
    destruct (match _ with Some _ => _ | None => _ end); split; reflexivity.
Qed.

Lemma sign_keeps_state c w x p :
  st (sign_transition c w x p) = st w /\ regs (sign_transition c w x p) = regs w /\
  inits (sign_transition c w x p) = inits w.
Proof.
  unfold sign_transition. destruct (ed w) as [d|]; [|repeat split].
  destruct (negb _); [repeat split|]. destruct (ed_init d) as [k|]; [|repeat split].
  destruct (negb _); [repeat split|]. destruct (won c k); repeat split.
Qed.

(* a request to register-signatures is only ever sent from ReadyToSign, which is kept *)
Lemma publish_only_when_ready c w ev :
  atts (step c w ev) <> atts w ->
  exists e, st w = Ready e /\ st (step c w ev) = Ready e.
Proof.
  destruct ev as [te imm blk lag down r p|]; cbn [step]; [|intros H; exfalso; apply H; reflexivity].
  destruct (st w) as [|e|e|e] eqn:Hst.
  - intros H; exfalso; apply H; reflexivity.
  - destruct (new_epoch te e); [intros H; exfalso; apply H; reflexivity|].
    destruct down; [intros H; exfalso; apply H; reflexivity|].
    destruct (signer_key_epoch e); try (intros H; exfalso; apply H; reflexivity).
    destruct (te - lag <? e); [intros H; exfalso; apply H; reflexivity|].
    intros H; exfalso; apply H. apply register_keeps_atts.
  - destruct (new_epoch te e); [intros H; exfalso; apply H; reflexivity|].
    destruct (ed w) as [d0|] eqn:Hed0; [|intros H; exfalso; apply H; reflexivity].
    destruct (entities_of _ _ _) as [xs| |]; try (intros H; exfalso; apply H; reflexivity).
    destruct (first_unsigned _ _) as [x|]; [|intros H; exfalso; apply H; reflexivity].
    intros _. exists e. split; [reflexivity|].
    destruct (sign_keeps_state c w x p) as [-> _]. assumption.
  - destruct (new_epoch te e); intros H; exfalso; apply H; reflexivity.
Qed.

(* an entity already marked as signed is never sent (again) *)
Lemma never_resend_marked c w ev a :
  In a (atts (step c w ev)) -> ~ In a (atts w) -> ~ In (at_ent a) (signed w).
Proof.
  destruct ev as [te imm blk lag down r p|]; cbn [step]; [|intros H1 H2; contradiction].
  destruct (st w) as [|e|e|e].
  - intros H1 H2; contradiction.
  - destruct (new_epoch te e); [intros H1 H2; contradiction|].
    destruct down; [intros H1 H2; contradiction|].
    destruct (signer_key_epoch e) as [n| |]; try (intros H1 H2; contradiction).
    destruct (te - lag <? e); [intros H1 H2; contradiction|].
    destruct (register_keeps_atts w te (te - lag) n r) as [-> _]. intros H1 H2; contradiction.
  - destruct (new_epoch te e); [intros H1 H2; contradiction|].
    destruct (ed w) as [d|] eqn:Hed0; [|intros H1 H2; contradiction].
    destruct (entities_of _ _ _) as [xs| |]; try (intros H1 H2; contradiction).
    destruct (first_unsigned xs (signed w)) as [x|] eqn:Hfu; [|intros H1 H2; contradiction].
    apply first_unsigned_spec in Hfu as [_ Hnot].
    unfold sign_transition. rewrite Hed0.
    destruct (negb _); [intros H1 H2; contradiction|].
    destruct (ed_init d) as [k|]; [|intros H1 H2; contradiction].
    destruct (negb _); [intros H1 H2; contradiction|].
    destruct (won c k); cbn; [|intros H1 H2; contradiction].
    intros [<- | H1] H2; [exact Hnot | contradiction].
  - destruct (new_epoch te e); intros H1 H2; contradiction.
Qed.

(* stores only grow; a restart keeps them *)
Lemma restart_keeps_stores c w :
  let w' := step c w R in
  st w' = Init /\ inits w' = inits w /\ signed w' = signed w /\ agg_me w' = agg_me w /\
  atts w' = atts w /\ regs w' = regs w.
Proof. cbn. repeat split. Qed.

(* ---------- restart resumes ---------- *)
Lemma restart_resumes c lo w e i1 b1 r1 p1 i2 b2 r2 p2 :
  Inv c lo w -> st w = Ready e ->
  let w' := run_from c w [R; T e i1 b1 0 false r1 p1; T e i2 b2 0 false r2 p2] in
  st w' = Ready e /\ atts w' = atts w /\ regs w' = regs w /\ signed w' = signed w /\ inits w' = inits w.
Proof.
  intros I Hst. destruct I.
  destruct (i_ready0 e Hst) as (d & Hd & Hde & Hdi & Hdc).
  destruct (ed_init d) as [k|] eqn:Hk; [|congruence].
  destruct (i_init0 d k Hd Hk) as [Hkey Hkin]. rewrite Hde in Hkey.
  destruct (i_cur0 d Hd Hdc) as (k' & Hk' & Hk'in). rewrite Hde in Hk'.
  assert (k' = k) by (unfold agg_current_epoch, signer_key_epoch in *; congruence). subst k'.
  pose proof (i_registered0 e (or_introl Hst)) as Hrec.
  cbn [run_from step st set_st]. unfold new_epoch. rewrite N.ltb_irrefl. rewrite Hkey.
  rewrite N.sub_0_r, N.ltb_irrefl.
  unfold register_transition. rewrite Hkey. unfold set_st. cbn [inits agg_me st ed signed atts regs].
  apply memN_In in Hkin, Hk'in, Hrec. rewrite Hrec, Hkin, Hk'in.
  cbn [ed_init ed_cur_me ed_epoch inits agg_me st ed signed atts regs].
  repeat split.
Qed.

(* ---------- consequences for whole histories ---------- *)
Lemma lookups_agree a : signer_key_epoch a = agg_current_epoch a.
Proof. reflexivity. Qed.

Lemma attempt_key c evs : wf 0 evs -> forall a, In a (atts (run c evs)) ->
  let E := signing_epoch (at_ent a) in
  signer_key_epoch E = Ok (at_key a) /\ agg_current_epoch E = Ok (at_key a) /\
  In (at_key a) (inits (run c evs)) /\ In (at_key a) (agg_me (run c evs)) /\
  won c (at_key a) = true /\
  exists r, In (at_key a, r) (regs (run c evs)) /\ at_key a = recording_epoch r /\
            E = r + Z.to_N SIGNER_SIGNING_OFFSET.
Proof.
  intros Hwf a Ha E. pose proof (inv_run c evs Hwf) as I. destruct I.
  destruct (i_att_key0 a Ha) as (H1 & H2 & H3 & H4 & H5 & H6).
  repeat split; try assumption.
  destruct (i_inits_regs0 _ H3) as [r Hr]. exists r. split; [assumption|].
  destruct (i_regs0 _ _ Hr) as (Hk & _ & _). split; [assumption|].
  apply registration_used_two_epochs_later; [unfold E; lia | rewrite <- Hk; assumption].
Qed.

Lemma one_distinct_signature c evs : wf 0 evs -> forall a b,
  In a (atts (run c evs)) -> In b (atts (run c evs)) -> at_ent a = at_ent b -> sig_of a = sig_of b.
Proof.
  intros Hwf a b Ha Hb Heq.
  destruct (attempt_key c evs Hwf a Ha) as (H1 & _). destruct (attempt_key c evs Hwf b Hb) as (H2 & _).
  cbv zeta in H1, H2. rewrite Heq in H1. rewrite H1 in H2. injection H2 as H2.
  unfold sig_of. rewrite Heq, H2. reflexivity.
Qed.

Lemma acknowledged_once c evs : wf 0 evs ->
  NoDup (map at_ent (filter is_acked (atts (run c evs)))).
Proof. intros Hwf. apply (i_ack_once _ _ _ (inv_run c evs Hwf)). Qed.

Lemma marked_only_if c evs : wf 0 evs -> forall x, In x (signed (run c evs)) ->
  (exists a, In a (atts (run c evs)) /\ at_ent a = x /\ is_acked a = true) \/
  (exists k, signer_key_epoch (signing_epoch x) = Ok k /\ won c k = false).
Proof. intros Hwf. apply (i_marked _ _ _ (inv_run c evs Hwf)). Qed.

Lemma acked_is_marked c evs : wf 0 evs -> forall a, In a (atts (run c evs)) ->
  is_acked a = true -> In (at_ent a) (signed (run c evs)).
Proof. intros Hwf. apply (i_acked_marked _ _ _ (inv_run c evs Hwf)). Qed.

Lemma ready_means_registered c evs : wf 0 evs -> forall e, st (run c evs) = Ready e ->
  exists k, signer_key_epoch e = Ok k /\ agg_current_epoch e = Ok k /\
            In k (inits (run c evs)) /\ In k (agg_me (run c evs)).
Proof.
  intros Hwf e Hst. pose proof (inv_run c evs Hwf) as I. destruct I.
  destruct (i_ready0 e Hst) as (d & Hd & Hde & Hdi & Hdc).
  destruct (ed_init d) as [k|] eqn:Hk; [|congruence].
  destruct (i_init0 d k Hd Hk) as [Hkey Hkin]. rewrite Hde in Hkey.
  destruct (i_cur0 d Hd Hdc) as (k' & Hk' & Hk'in). rewrite Hde in Hk'.
  assert (k' = k) by (unfold agg_current_epoch, signer_key_epoch in *; congruence). subst k'.
  exists k. repeat split; assumption.
Qed.

Lemma run_app c evs evs' : run c (evs ++ evs') = run_from c (run c evs) evs'.
Proof.
  unfold run. generalize w0. induction evs as [|ev evs IH]; intros w; [reflexivity|].
  cbn [app run_from]. apply IH.
Qed.

Lemma restart_resumes_run c evs e i1 b1 r1 p1 i2 b2 r2 p2 : wf 0 evs -> st (run c evs) = Ready e ->
  let w := run c evs in
  let w' := run c (evs ++ [R; T e i1 b1 0 false r1 p1; T e i2 b2 0 false r2 p2]) in
  st w' = Ready e /\ atts w' = atts w /\ regs w' = regs w /\ signed w' = signed w /\ inits w' = inits w.
Proof.
  intros Hwf Hst w w'. unfold w'. rewrite run_app.
  eapply restart_resumes; [apply inv_run; assumption | assumption].
Qed.

(* every stored initializer was acknowledged; registered states hold the key of their recording epoch *)
Lemma recording_epoch_inj a b : recording_epoch a = recording_epoch b -> a = b.
Proof. unfold recording_epoch. lia. Qed.

Lemma stored_keys_acknowledged c evs : wf 0 evs ->
  (forall k, In k (inits (run c evs)) ->
     exists r, In (k, r) (regs (run c evs)) /\ k = recording_epoch r) /\
  (forall e, st (run c evs) = Ready e \/ st (run c evs) = RNATS e ->
     In (recording_epoch e) (inits (run c evs)) /\ In (recording_epoch e, e) (regs (run c evs))).
Proof.
  intros Hwf. pose proof (inv_run c evs Hwf) as I. destruct I. split.
  - intros k Hk. destruct (i_inits_regs0 k Hk) as [r Hr]. exists r. split; [assumption|].
    apply (i_regs0 k r Hr).
  - intros e He. pose proof (i_registered0 e He) as Hin. split; [assumption|].
    destruct (i_inits_regs0 _ Hin) as [r Hr]. destruct (i_regs0 _ _ Hr) as (Heq & _ & _).
    apply recording_epoch_inj in Heq. subst r. assumption.
Qed.
