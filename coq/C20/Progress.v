(* C20/Progress.v — the liveness side of the registration / signing cycle:
   stores only grow; every stored key was acknowledged by the aggregator (and, unless the
   aggregator lost it, is the one it holds); at most one acknowledged registration per recording
   epoch; ONE undisturbed cycle with an open round registers; an eligible signer publishes the
   first not yet signed beacon of the time point; a registration made while the round is open is
   used two epochs later. *)
From Coq Require Import Lia.
From MV Require Import Base.Prelude Base.Machine Gen.Consts C17.Model C20.Model C20.Proofs.
Open Scope N_scope.

(* ---------- stores only grow ---------- *)
Definition grows (w w' : world) : Prop :=
  (forall k, In k (inits w) -> In k (inits w')) /\
  (forall k, In k (agg_me w) -> In k (agg_me w')) /\
  (forall x, In x (signed w) -> In x (signed w')) /\
  (forall x, In x (regs w) -> In x (regs w')).

Lemma grows_refl w : grows w w.
Proof. unfold grows; repeat split; auto. Qed.

Lemma grows_trans a b c : grows a b -> grows b c -> grows a c.
Proof. unfold grows. intros (A1 & A2 & A3 & A4) (B1 & B2 & B3 & B4). repeat split; auto. Qed.

Lemma grows_set_st w s : grows w (set_st w s).
Proof. unfold grows, set_st; cbn. repeat split; auto. Qed.

Lemma register_grows w te a cf r : grows w (register_transition w te a cf r).
Proof.
  unfold register_transition.
  destruct (signer_key_epoch a) as [k| |]; try apply grows_refl.
  destruct (memN (recording_epoch a) (inits w)).
  - unfold grows, set_st; cbn. repeat split; auto.
  - destruct r; unfold grows, set_st; cbn; repeat split; auto.
Qed.

Lemma sign_grows c w x p : grows w (sign_transition c w x p).
Proof.
  unfold sign_transition.
  destruct (ed w) as [d|]; [|apply grows_refl].
  destruct (negb _); [apply grows_refl|].
  destruct (ed_init d) as [k|]; [|apply grows_refl].
  destruct (negb _); [apply grows_refl|].
  destruct (won c k); unfold grows; cbn; repeat split; auto.
  destruct (acked p); cbn; auto.
Qed.

Lemma step_grows c w ev : grows w (step c w ev).
Proof.
  destruct ev as [te imm blk lag down r p|]; cbn [step].
  2:{ unfold grows; cbn; repeat split; auto. }
  destruct (st w) as [|e|e|e].
  - apply grows_set_st.
  - destruct (new_epoch te e); [apply grows_set_st|]. destruct down; [apply grows_refl|].
    destruct (signer_key_epoch e); try apply grows_refl.
    destruct (te - lag <? e); [apply grows_refl | apply register_grows].
  - destruct (new_epoch te e); [apply grows_set_st|].
    destruct (ed w); [|apply grows_refl].
    destruct (entities_of _ _ _); try apply grows_refl.
    destruct (first_unsigned _ _); [apply sign_grows | apply grows_refl].
  - destruct (new_epoch te e); [apply grows_set_st | apply grows_refl].
Qed.

Lemma run_from_grows c evs : forall w, grows w (run_from c w evs).
Proof.
  induction evs as [|ev evs IH]; intros w; [apply grows_refl|].
  cbn [run_from]. eapply grows_trans; [apply step_grows | apply IH].
Qed.

(* ---------- unless the aggregator loses a registration, every stored key is the one it holds ---------- *)
Definition no_drop_ev (ev : event) : Prop :=
  match ev with T _ _ _ _ _ RegDrop _ => False | _ => True end.
Fixpoint no_drop (evs : list event) : Prop :=
  match evs with [] => True | ev :: t => no_drop_ev ev /\ no_drop t end.
Definition keys_agree (w : world) : Prop := forall k, In k (inits w) -> In k (agg_me w).

Lemma register_keys_agree w te a cf r :
  r <> RegDrop -> keys_agree w -> keys_agree (register_transition w te a cf r).
Proof.
  intros Hr H. unfold register_transition.
  destruct (signer_key_epoch a) as [k| |]; try exact H.
  destruct (memN (recording_epoch a) (inits w)).
  - unfold keys_agree, set_st; cbn. exact H.
  - destruct r; try congruence; unfold keys_agree, set_st; cbn; try exact H.
    intros k0 [<-|Hk]; [left; reflexivity | right; apply H; assumption].
Qed.

Lemma sign_keeps_keys c w x p :
  inits (sign_transition c w x p) = inits w /\ agg_me (sign_transition c w x p) = agg_me w.
Proof.
  unfold sign_transition. destruct (ed w) as [d|]; [|split; reflexivity].
  destruct (negb _); [split; reflexivity|]. destruct (ed_init d) as [k|]; [|split; reflexivity].
  destruct (negb _); [split; reflexivity|]. destruct (won c k); split; reflexivity.
Qed.

Lemma step_keys_agree c w ev : no_drop_ev ev -> keys_agree w -> keys_agree (step c w ev).
Proof.
  intros Hnd H. destruct ev as [te imm blk lag down r p|]; cbn [step]; [|exact H].
  destruct (st w) as [|e|e|e].
  - exact H.
  - destruct (new_epoch te e); [exact H|]. destruct down; [exact H|].
    destruct (signer_key_epoch e); try exact H.
    destruct (te - lag <? e); [exact H|].
    apply register_keys_agree; [|exact H]. intros ->. exact Hnd.
  - destruct (new_epoch te e); [exact H|].
    destruct (ed w) as [d0|]; [|exact H].
    destruct (entities_of _ _ _) as [xs| |]; try exact H.
    destruct (first_unsigned _ _) as [x0|]; [|exact H].
    unfold keys_agree. destruct (sign_keeps_keys c w x0 p) as [-> ->]. exact H.
  - destruct (new_epoch te e); exact H.
Qed.

Lemma run_from_keys_agree c evs : forall w, no_drop evs -> keys_agree w -> keys_agree (run_from c w evs).
Proof.
  induction evs as [|ev evs IH]; intros w Hnd H; [exact H|].
  destruct Hnd as [H1 H2]. cbn [run_from]. apply IH; [exact H2 | apply step_keys_agree; assumption].
Qed.

Lemma run_keys_agree c evs : no_drop evs -> keys_agree (run c evs).
Proof. intros H. apply run_from_keys_agree; [exact H | intros k []]. Qed.

(* ---------- at most one acknowledged registration per recording epoch ---------- *)
Definition regs_ok (w : world) : Prop :=
  (forall k ce, In (k, ce) (regs w) -> In k (inits w)) /\ NoDup (map fst (regs w)).

Lemma register_regs_ok w te a cf r : regs_ok w -> regs_ok (register_transition w te a cf r).
Proof.
  intros [H1 H2]. unfold register_transition.
  destruct (signer_key_epoch a) as [k| |]; try (split; assumption).
  destruct (memN (recording_epoch a) (inits w)) eqn:Hm.
  - unfold regs_ok, set_st; cbn. split; assumption.
  - assert (Hfresh : ~ In (recording_epoch a) (map fst (regs w))).
    { intros Hin. apply in_map_iff in Hin as ([k0 ce] & Hk & Hin). cbn in Hk. subst k0.
      apply H1 in Hin. apply memN_In in Hin. congruence. }
    destruct r; unfold regs_ok, set_st; cbn; try (split; assumption).
    + split; [|constructor; assumption].
      intros k0 ce [[= <- <-] | Hin]; [left; reflexivity | right; eapply H1; eassumption].
    + split; [|constructor; assumption].
      intros k0 ce [[= <- <-] | Hin]; [left; reflexivity | right; eapply H1; eassumption].
Qed.

Lemma step_regs_ok c w ev : regs_ok w -> regs_ok (step c w ev).
Proof.
  intros H. destruct ev as [te imm blk lag down r p|]; cbn [step]; [|exact H].
  destruct (st w) as [|e|e|e].
  - exact H.
  - destruct (new_epoch te e); [exact H|]. destruct down; [exact H|].
    destruct (signer_key_epoch e); try exact H.
    destruct (te - lag <? e); [exact H | apply register_regs_ok; exact H].
  - destruct (new_epoch te e); [exact H|].
    destruct (ed w) as [d0|]; [|exact H].
    destruct (entities_of _ _ _) as [xs| |]; try exact H.
    destruct (first_unsigned _ _) as [x0|]; [|exact H].
    unfold regs_ok. destruct (sign_keeps_state c w x0 p) as (_ & -> & ->). exact H.
  - destruct (new_epoch te e); exact H.
Qed.

Lemma run_regs_ok c evs : regs_ok (run c evs).
Proof.
  unfold run. assert (H : regs_ok w0) by (split; [intros k ce [] | constructor]).
  revert H. generalize w0. induction evs as [|ev evs IH]; intros w H; [exact H|].
  cbn [run_from]. apply IH. apply step_regs_ok. exact H.
Qed.

(* ---------- ONE undisturbed cycle with an open round registers ---------- *)
Lemma register_progress c w e ce imm blk p :
  st w = Unreg e -> signer_key_epoch e = Ok ce ->
  let w' := step c w (T e imm blk 0 false RegOpen p) in
  (st w' = Ready e \/ st w' = RNATS e) /\
  In (recording_epoch e) (inits w') /\
  (In (recording_epoch e) (inits w) \/
   In (recording_epoch e, e) (regs w') /\ In (recording_epoch e) (agg_me w')) /\
  (st w' = Ready e <-> In ce (inits w) /\ In ce (agg_me w)).
Proof.
  intros Hst Hk. cbn [step]. rewrite Hst. unfold new_epoch. rewrite N.ltb_irrefl.
  rewrite Hk. rewrite N.sub_0_r, N.ltb_irrefl.
  unfold register_transition. rewrite Hk.
  assert (Hcan : forall (b1 b2 : bool),
     (if match (if b1 then Some ce else None) with Some _ => b2 | None => false end then Ready e else RNATS e) = Ready e
     <-> b1 = true /\ b2 = true).
  { intros [|] [|]; cbn; split; try intros [? ?]; try congruence; try (intros; split; congruence). }
  destruct (memN (recording_epoch e) (inits w)) eqn:Hm.
  - unfold set_st; cbn. split; [|split; [|split; [|split]]].
    + destruct (match _ with Some _ => _ | None => _ end); [left | right]; reflexivity.
    + apply memN_In; assumption.
    + left. apply memN_In; assumption.
    + intros H. apply Hcan in H as [H1 H2]. split; apply memN_In; assumption.
    + intros [H1 H2]. apply Hcan. split; apply memN_In; assumption.
  - unfold set_st; cbn. split; [|split; [|split; [|split]]].
    + destruct (match _ with Some _ => _ | None => _ end); [left | right]; reflexivity.
    + left; reflexivity.
    + right. split; left; reflexivity.
    + intros H. apply Hcan in H as [H1 H2]. split; apply memN_In; assumption.
    + intros [H1 H2]. apply Hcan. split; apply memN_In; assumption.
Qed.

(* ---------- an eligible signer publishes ---------- *)
(* [w]: Unregistered(E) holding, for the key epoch k of E, an initializer the aggregator also holds,
   and an initializer for the next key epoch; first cycle: undisturbed, round open (or already
   registered); second cycle: ANY aggregator conditions -> the first not yet signed entity of the
   time point is published with key k *)
Lemma eligible_signs c w E k i1 b1 p1 i2 b2 lag2 down2 r2 p2 xs x :
  st w = Unreg E -> signer_key_epoch E = Ok k ->
  In k (inits w) -> In k (agg_me w) -> In (next_key_epoch E) (inits w) -> won c k = true ->
  entities_of (ecfg_at c k) (discs_at c k) {| tp_epoch := E; tp_imm := i2; tp_block := b2 |} = Ok xs ->
  first_unsigned xs (signed w) = Some x ->
  let w' := run_from c w [T E i1 b1 0 false RegOpen p1; T E i2 b2 lag2 down2 r2 p2] in
  atts w' = {| at_ent := x; at_key := k; at_mode := p2 |} :: atts w /\
  (acked p2 = true -> In x (signed w')) /\ st w' = Ready E.
Proof.
  intros Hst Hk Hi Ha Hn Hwon Hxs Hfu.
  apply memN_In in Hi, Ha.
  cbn [run_from]. cbn [step]. rewrite Hst. unfold new_epoch. rewrite N.ltb_irrefl.
  rewrite Hk. rewrite N.sub_0_r, N.ltb_irrefl.
  unfold register_transition. rewrite Hk. rewrite Hi, Ha.
  destruct (memN (recording_epoch E) (inits w)) eqn:Hm.
  - unfold set_st. cbn [st ed inits signed agg_me atts regs ed_init ed_cur_me ed_cfg ed_epoch].
    rewrite N.ltb_irrefl. rewrite Hxs, Hfu.
    unfold sign_transition. cbn [st ed inits signed agg_me atts regs ed_init ed_cur_me ed_cfg ed_epoch].
    apply memN_In in Hn. rewrite Hn. cbn [negb]. rewrite Hwon.
    cbn [st ed inits signed agg_me atts regs]. repeat split.
    intros ->. left; reflexivity.
  - unfold set_st. cbn [st ed inits signed agg_me atts regs ed_init ed_cur_me ed_cfg ed_epoch].
    rewrite N.ltb_irrefl. rewrite Hxs, Hfu.
    unfold sign_transition. cbn [st ed inits signed agg_me atts regs ed_init ed_cur_me ed_cfg ed_epoch].
    assert (Hn' : memN (next_key_epoch E) (recording_epoch E :: inits w) = true)
      by (apply memN_In; right; assumption).
    rewrite Hn'. cbn [negb]. rewrite Hwon.
    cbn [st ed inits signed agg_me atts regs]. repeat split.
    intros ->. left; reflexivity.
Qed.

Lemma run_snoc c evs ev : run c (evs ++ [ev]) = step c (run c evs) ev.
Proof. rewrite run_app. reflexivity. Qed.

(* ---------- a registration made while the round is open is used two epochs later ---------- *)
Lemma open_round_signs_later c evs1 evs2 e ce i0 b0 p0 E i1 b1 p1 i2 b2 lag2 down2 r2 p2 xs x :
  no_drop evs1 ->
  st (run c evs1) = Unreg e -> signer_key_epoch e = Ok ce ->
  let w := run c (evs1 ++ T e i0 b0 0 false RegOpen p0 :: evs2) in
  st w = Unreg E -> signer_key_epoch E = Ok (recording_epoch e) ->
  In (next_key_epoch E) (inits w) -> won c (recording_epoch e) = true ->
  entities_of (ecfg_at c (recording_epoch e)) (discs_at c (recording_epoch e))
              {| tp_epoch := E; tp_imm := i2; tp_block := b2 |} = Ok xs ->
  first_unsigned xs (signed w) = Some x ->
  let w' := run_from c w [T E i1 b1 0 false RegOpen p1; T E i2 b2 lag2 down2 r2 p2] in
  atts w' = {| at_ent := x; at_key := recording_epoch e; at_mode := p2 |} :: atts w /\
  (acked p2 = true -> In x (signed w')) /\ st w' = Ready E.
Proof.
  intros Hnd Hst Hk w HstE HkE Hn Hwon Hxs Hfu.
  set (w1 := step c (run c evs1) (T e i0 b0 0 false RegOpen p0)).
  assert (Hw : w = run_from c w1 evs2).
  { unfold w. rewrite run_app. reflexivity. }
  destruct (register_progress c (run c evs1) e ce i0 b0 p0 Hst Hk) as (_ & Hin & _ & _).
  fold w1 in Hin.
  assert (Hag : In (recording_epoch e) (agg_me w1)).
  { apply (step_keys_agree c (run c evs1) (T e i0 b0 0 false RegOpen p0)); [exact I | | exact Hin].
    apply run_keys_agree; assumption. }
  destruct (run_from_grows c evs2 w1) as (G1 & G2 & _ & _). rewrite <- Hw in G1, G2.
  eapply eligible_signs; eauto.
Qed.
