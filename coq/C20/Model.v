(* C20/Model.v — the signer's runtime cycle with its two stores, talking to a
   fake aggregator that has its own (possibly stale) view of the epoch.
   Executable definitions only.

   Sources mirrored (mithril-signer unless noted):
     runtime/state_machine.rs   cycle_init / cycle_unregistered / cycle_registered_not_able_to_sign /
                                cycle_ready_to_sign, transition_from_unregistered_to_one_of_registered_states,
                                handle_registration_result
     runtime/runner.rs          register_signer_to_aggregator (recording epoch, "already have an initializer" short cut,
                                register THEN save), can_sign_current_epoch, update_stake_distribution
     services/epoch_service.rs  inform_epoch_settings (initializer looked up at
                                aggregator_epoch.offset_to_signer_retrieval_epoch), can_signer_sign_current_epoch
     services/certifier.rs      get_beacon_to_sign (first allowed, not yet signed entity),
                                compute_publish_single_signature (sign, publish, THEN mark)
     services/signable_builder/signable_seed_builder.rs   the message needs the initializer stored for
                                aggregator_epoch.offset_to_next_signer_retrieval_epoch
     services/single_signer.rs  signs with the epoch service's initializer; lottery may yield no signature
     database/repository/{signed_beacon,protocol_initializer}_repository.rs   the two stores (sets)
     mithril-common/src/entities/epoch.rs   the offsets (values from Gen/Consts.v) and offset_by (Base/Machine.v)
     mithril-aggregator/src/services/epoch_service.rs   current signers = store at epoch.offset_to_signer_retrieval_epoch
     internal/mithril-aggregator-client  register-signatures: 201/202/410 are success, anything else an error;
                                register-signer: 550 = RegistrationRoundNotYetOpened

   Keys are identified by the epoch they are stored under ("recording epoch"): the signer saves
   the initializer under the same epoch number it sends to the aggregator.
   Idealisations: a signature is a function of (key, message); the message is a function of the
   signed entity (entity type + beacon); the lottery is the oracle [won] (per key). *)
From MV Require Import Base.Prelude Base.Machine Gen.Consts C17.Model.
Open Scope N_scope.

(* ---------- environment events ---------- *)
Inductive regmode := RegOpen | RegClosed | RegFail | RegDrop | RegAmbig.
   (* register-signer: 201 and recorded | 550 round not yet opened | failure status, nothing recorded |
      201 but the aggregator loses it | recorded (the aggregator keeps the LAST registration of a party,
      as mithril-aggregator's signer_registration_store: insert or replace) but the signer sees a failure
      status: the aggregator then holds a key the signer never stored *)
Inductive pubmode := PubOk | PubClean | PubAmbig | PubGone.
   (* register-signatures: 201 | failure, nothing received | received, but the signer sees a failure
      (also: crash between publish and mark) | 410 (treated as success by the client) *)

Inductive event :=
| T (epoch imm block : N)      (* the chain time point read at this tick *)
    (lag : N)                  (* the aggregator believes the epoch is [epoch - lag] (stale view) *)
    (down : bool)              (* epoch-settings / protocol-configuration requests fail *)
    (r : regmode) (p : pubmode)
| R.                           (* restart: state Init, in-memory epoch data lost, stores kept *)

(* ---------- signer ---------- *)
Inductive sstate := Init | Unreg (e : N) | Ready (e : N) | RNATS (e : N).

(* EpochData of the signer's epoch service, as far as signing is concerned *)
Record edata := {
  ed_epoch : N;           (* aggregator_signer_registration_epoch *)
  ed_cfg : N;             (* epoch of the network configuration "for aggregation" the allowed signed entity
                             types and their signing configurations were taken from:
                             state epoch + SIGNER_RETRIEVAL_OFFSET (mithril-protocol-config http.rs) *)
  ed_init : option N;     (* protocol initializer found at ed_epoch + SIGNER_RETRIEVAL_OFFSET (its key id) *)
  ed_cur_me : bool        (* aggregator's current signers contain (our party, that key) *)
}.

Record attempt := { at_ent : entity; at_key : N; at_mode : pubmode }.
   (* agg_me below: recording epochs under which the aggregator holds a registration of our party
      WITH THE KEY THE SIGNER STORES for that epoch (a registration recorded in RegAmbig mode carries a
      key the signer dropped: it never matches) *)

Record world := {
  st : sstate;
  ed : option edata;
  inits : list N;         (* protocol_initializer store: epochs with an initializer *)
  signed : list entity;   (* signed_beacon store *)
  agg_me : list N;        (* aggregator: recording epochs under which it holds our registration *)
  atts : list attempt;    (* ghost: every register-signatures request sent, newest first *)
  regs : list (N * N)     (* ghost: every register-signer request sent (recording epoch, chain epoch), newest first *)
}.

Definition w0 : world :=
  {| st := Init; ed := None; inits := []; signed := []; agg_me := []; atts := []; regs := [] |}.

Definition memN (x : N) (l : list N) : bool := existsb (N.eqb x) l.

Definition entity_eqb (a b : entity) : bool :=
  match a, b with
  | EMSD x, EMSD y => x =? y
  | ECSD x, ECSD y => x =? y
  | ECTx x b1, ECTx y b2 => (x =? y) && (b1 =? b2)
  | ECBTx x b1 o1, ECBTx y b2 o2 => (x =? y) && (b1 =? b2) && (o1 =? o2)
  | ECDb x i, ECDb y j => (x =? y) && (i =? j)
  | _, _ => false
  end.
Definition memE (x : entity) (l : list entity) : bool := existsb (entity_eqb x) l.

(* the two look-ups that must agree: which stored key the SIGNER uses when the aggregator
   announces epoch [a], and which registrations the AGGREGATOR serves as current signers at [a].
   Both are Epoch::offset_to_signer_retrieval_epoch in the code. *)
Definition signer_key_epoch (a : N) : result N := epoch_offset_by a SIGNER_RETRIEVAL_OFFSET.
Definition agg_current_epoch (a : N) : result N := epoch_offset_by a SIGNER_RETRIEVAL_OFFSET.
(* offset_to_next_signer_retrieval_epoch / offset_to_recording_epoch: Epoch + u64 constant *)
Definition next_key_epoch (a : N) : N := a + Z.to_N NEXT_SIGNER_RETRIEVAL_OFFSET.
Definition recording_epoch (a : N) : N := a + Z.to_N SIGNER_RECORDING_OFFSET.

(* configuration of a run: per network-configuration epoch (GET /protocol-configuration/{epoch}) the
   allowed discriminants in BTreeSet order and the signing configs; lottery oracle per key *)
Record config := { discs_at : N -> list disc; ecfg_at : N -> cfg; won : N -> bool }.

(* list_allowed_signed_entity_types: collect::<Result<Vec<_>>> — first failure fails the lot *)
Fixpoint entities_of (c : cfg) (ds : list disc) (tp : time_point) : result (list entity) :=
  match ds with
  | [] => Ok []
  | d :: ds' => do x <- tp_to_entity c d tp; do xs <- entities_of c ds' tp; Ok (x :: xs)
  end.

Fixpoint first_unsigned (xs : list entity) (sg : list entity) : option entity :=
  match xs with
  | [] => None
  | x :: xs' => if memE x sg then first_unsigned xs' sg else Some x
  end.

Definition set_st (w : world) (s : sstate) : world :=
  {| st := s; ed := ed w; inits := inits w; signed := signed w; agg_me := agg_me w; atts := atts w; regs := regs w |}.

(* has_epoch_changed: strictly greater *)
Definition new_epoch (te e : N) : bool := e <? te.

(* transition_from_unregistered_to_one_of_registered_states, entered with aggregator epoch [a] *)
Definition register_transition (w : world) (te a ce : N) (r : regmode) : world :=
  (* update_stake_distribution(te): always succeeds in this environment; not needed later (see props) *)
  match signer_key_epoch a with
  | Ok k =>
      (* inform_epoch_settings *)
      let d := {| ed_epoch := a; ed_cfg := ce; ed_init := if memN k (inits w) then Some k else None;
                  ed_cur_me := memN k (agg_me w) |} in
      let rec_e := recording_epoch a in
      let after_inform := {| st := st w; ed := Some d; inits := inits w; signed := signed w;
                             agg_me := agg_me w; atts := atts w; regs := regs w |} in
      let can_sign := match ed_init d with Some _ => ed_cur_me d | None => false end in
      let final (w' : world) := set_st w' (if can_sign then Ready te else RNATS te) in
      if memN rec_e (inits w) then final after_inform          (* already registered for that epoch: no request *)
      else match r with
           | RegClosed => set_st after_inform (Unreg te)       (* RegistrationRoundNotYetOpened *)
           | RegFail | RegAmbig => after_inform                (* KeepState; nothing stored *)
           | RegOpen =>
               final {| st := st w; ed := Some d; inits := rec_e :: inits w; signed := signed w;
                        agg_me := rec_e :: agg_me w; atts := atts w; regs := (rec_e, te) :: regs w |}
           | RegDrop =>
               final {| st := st w; ed := Some d; inits := rec_e :: inits w; signed := signed w;
                        agg_me := agg_me w; atts := atts w; regs := (rec_e, te) :: regs w |}
           end
  | _ => w                                                     (* offset error: KeepState *)
  end.

Definition acked (p : pubmode) : bool := match p with PubOk | PubGone => true | _ => false end.

(* transition_from_ready_to_sign_to_ready_to_sign for beacon [x] *)
Definition sign_transition (c : config) (w : world) (x : entity) (p : pubmode) : world :=
  match ed w with
  | None => w
  | Some d =>
      (* compute_message: the seed needs the NEXT initializer *)
      if negb (memN (next_key_epoch (ed_epoch d)) (inits w)) then w else
      (* compute_single_signature: the epoch service's initializer, registered among current signers *)
      match ed_init d with
      | None => w
      | Some k =>
          if negb (ed_cur_me d) then w else
          if won c k then
            let a := {| at_ent := x; at_key := k; at_mode := p |} in
            {| st := st w; ed := ed w; inits := inits w;
               signed := if acked p then x :: signed w else signed w;   (* publish, THEN mark *)
               agg_me := agg_me w; atts := a :: atts w; regs := regs w |}
          else
            {| st := st w; ed := ed w; inits := inits w; signed := x :: signed w;
               agg_me := agg_me w; atts := atts w; regs := regs w |}
      end
  end.

Definition step (c : config) (w : world) (ev : event) : world :=
  match ev with
  | R => {| st := Init; ed := None; inits := inits w; signed := signed w;
            agg_me := agg_me w; atts := atts w; regs := regs w |}
  | T te imm blk lag down r p =>
      match st w with
      | Init => set_st w (Unreg te)
      | Unreg e =>
          if new_epoch te e then set_st w (Unreg te)
          else if down then w
          else
            (* get_mithril_network_configuration(e): needs e + SIGNER_RETRIEVAL_OFFSET *)
            match signer_key_epoch e with
            | Ok ce => let a := te - lag in
                       if a <? e then w else register_transition w te a ce r
            | _ => w
            end
      | RNATS e => if new_epoch te e then set_st w (Unreg te) else w
      | Ready e =>
          if new_epoch te e then set_st w (Unreg te)
          else
            let tp := {| tp_epoch := te; tp_imm := imm; tp_block := blk |} in
            (* SignerSignedEntityConfigProvider: the epoch service's data *)
            match ed w with
            | None => w
            | Some d =>
                match entities_of (ecfg_at c (ed_cfg d)) (discs_at c (ed_cfg d)) tp with
                | Ok xs => match first_unsigned xs (signed w) with
                           | Some x => sign_transition c w x p
                           | None => w
                           end
                | _ => w
                end
            end
      end
  end.

Fixpoint run_from (c : config) (w : world) (evs : list event) : world :=
  match evs with [] => w | ev :: evs' => run_from c (step c w ev) evs' end.
Definition run (c : config) (evs : list event) : world := run_from c w0 evs.

(* the (ideal) signature an attempt carries *)
Record signature := { sig_key : N; sig_ent : entity }.
Definition sig_of (a : attempt) : signature := {| sig_key := at_key a; sig_ent := at_ent a |}.

(* epoch at which an entity is signed (SignedEntityType::get_epoch_when_signed_entity_type_is_signed) *)
Definition signing_epoch (x : entity) : N :=
  match x with
  | EMSD e => e | ECSD e => e + 1 | ECTx e _ => e | ECBTx e _ _ => e | ECDb e _ => e
  end.

(* ---------- observation for the correspondence channel ---------- *)
Definition obs_state (s : sstate) : obs :=
  match s with
  | Init => OL [OZ 0]
  | Unreg e => OL [OZ 1; ON e]
  | Ready e => OL [OZ 2; ON e]
  | RNATS e => OL [OZ 3; ON e]
  end.
Definition obs_pub (p : pubmode) : obs :=
  OZ (match p with PubOk => 0 | PubClean => 1 | PubAmbig => 2 | PubGone => 3 end)%Z.
Definition obs_attempt (a : attempt) : obs := OL [obs_entity (at_ent a); ON (at_key a); obs_pub (at_mode a)].

(* what is new in [l'] w.r.t. its suffix [l] (lists grow at the head), oldest first *)
Definition fresh {A} (l' l : list A) : list A := rev (firstn (length l' - length l) l').

Definition obs_marks (c : config) (w : world) (ev : event) : obs :=
  match ev with
  | T te imm blk _ _ _ _ =>
      (* the entities of the time point under the configuration in force for its epoch *)
      match signer_key_epoch te with
      | Ok ce =>
          match entities_of (ecfg_at c ce) (discs_at c ce) {| tp_epoch := te; tp_imm := imm; tp_block := blk |} with
          | Ok xs => OL (map (fun x => OB (memE x (signed w))) xs)
          | _ => OL []
          end
      | _ => OL []
      end
  | R => OL []
  end.

(* the register-signer request this event makes the signer send, if any, with the mode it is
   answered in (failing requests included) *)
Definition reg_request (w : world) (ev : event) : option (N * regmode) :=
  match ev with
  | R => None
  | T te _ _ lag down r _ =>
      match st w with
      | Unreg e =>
          if new_epoch te e then None else if down then None else
          match signer_key_epoch e with
          | Ok _ => let a := te - lag in
                    if a <? e then None else
                    match signer_key_epoch a with
                    | Ok _ => if memN (recording_epoch a) (inits w) then None else Some (recording_epoch a, r)
                    | _ => None
                    end
          | _ => None
          end
      | _ => None
      end
  end.
Definition obs_reg (r : regmode) : obs :=
  OZ (match r with RegOpen => 0 | RegClosed => 1 | RegFail => 2 | RegDrop => 3 | RegAmbig => 4 end)%Z.

(* the two key stores, as membership of the epochs 0 .. te+2 *)
Definition upto (n : N) : list N := map N.of_nat (seq 0 (N.to_nat n)).
Definition obs_stores (w : world) (ev : event) : list obs :=
  match ev with
  | T te _ _ _ _ _ _ =>
      [ OL (map (fun k => OB (memN k (inits w))) (upto (te + 3)));
        OL (map (fun k => OB (memN k (agg_me w))) (upto (te + 3))) ]
  | R => [ OL []; OL [] ]
  end.

(* per event: state after it, requests the aggregator received during it, which of the
   time point's entities are marked as signed afterwards, the register-signer request sent
   (failing ones included), which epochs have a stored protocol initializer and for which of them the
   aggregator holds the same key *)
Fixpoint trace (c : config) (w : world) (evs : list event) : list obs :=
  match evs with
  | [] => []
  | ev :: evs' =>
      let w' := step c w ev in
      OL [ obs_state (st w');
           OL (map obs_attempt (fresh (atts w') (atts w)));
           OL (map (fun x => ON (fst x)) (fresh (regs w') (regs w)));
           obs_marks c w' ev;
           OL (match reg_request w ev with Some (k, r) => [ON k; obs_reg r] | None => [] end);
           OL (obs_stores w' ev) ] :: trace c w' evs'
  end.

Definition lucky_of (l : list bool) (k : N) : bool := nth (N.to_nat k) l false.

(* [cfgs]: per configuration epoch, allowed discriminants and the CardanoTransactions signing config *)
Definition run_obs (cfgs : list (list disc * option (N * N))) (lucky : list bool) (evs : list event) : obs :=
  let at_ k := nth (N.to_nat k) cfgs ([], None) in
  let c := {| discs_at := fun k => fst (at_ k);
              ecfg_at := fun k => {| tx_cfg := snd (at_ k); btx_cfg := None |};
              won := lucky_of lucky |} in
  OL (trace c w0 evs).
