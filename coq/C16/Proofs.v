(* C16/Proofs.v — lemmas: what verify_single accepts, the store invariant, persistence of rows. *)
From Coq Require Import Lia.
From MV Require Import Base.Prelude Base.SymHash Base.IdealSig C16.Model.
Open Scope N_scope.

(* ---------- list helpers ---------- *)
Lemma find_app {A} (f : A -> bool) (l1 l2 : list A) :
  find f (l1 ++ l2) = match find f l1 with Some x => Some x | None => find f l2 end.
Proof. induction l1 as [|a l1 IH]; cbn [app find]; [reflexivity|]. destruct (f a); auto. Qed.

Lemma find_filter_none {A} (f : A -> bool) (l : list A) :
  find f (filter (fun r => negb (f r)) l) = None.
Proof.
  induction l as [|a l IH]; cbn [filter find]; [reflexivity|].
  destruct (f a) eqn:Ha; cbn [negb]; [exact IH|]. cbn [find]. rewrite Ha. exact IH.
Qed.

Lemma find_filter_other {A} (f g : A -> bool) (l : list A) :
  (forall r, f r = true -> g r = false) ->
  find f (filter (fun r => negb (g r)) l) = find f l.
Proof.
  intros H. induction l as [|a l IH]; cbn [filter find]; [reflexivity|].
  destruct (g a) eqn:Hg; cbn [negb].
  - destruct (f a) eqn:Hf; [apply H in Hf; congruence | exact IH].
  - cbn [find]. destruct (f a); [reflexivity | exact IH].
Qed.

Lemma find_map_same {A} (f : A -> bool) (h : A -> A) (l : list A) :
  (forall a, f (h a) = f a) ->
  find f (map h l) = option_map h (find f l).
Proof.
  intros H. induction l as [|a l IH]; cbn [map find option_map]; [reflexivity|].
  rewrite H. destruct (f a); [reflexivity | exact IH].
Qed.

(* ---------- what verification accepts ---------- *)
Lemma find_party_spec r l q : find_party r l = Some q -> In q r /\ p_label q = l.
Proof.
  unfold find_party. intros H. apply find_some in H as [H1 H2]. apply N.eqb_eq in H2. auto.
Qed.

Lemma verify_single_spec lot r m x :
  verify_single lot r m x = true ->
  exists p q, nth_error r (N.to_nat (s_slot x)) = Some p /\
              find_party r (s_label x) = Some q /\
              p_vk q = p_vk p /\
              s_sigma x = SigOf (p_vk q) (payload r m) /\
              forallb (fun i => mem i (won_of lot (s_sigma x) (p_stake p))) (s_idxs x) = true.
Proof.
  unfold verify_single. destruct (nth_error r (N.to_nat (s_slot x))) as [p|]; [|discriminate].
  destruct (find_party r (s_label x)) as [q|] eqn:Hq.
  - intros H. apply andb_true_iff in H as [H H3]. apply andb_true_iff in H as [H1 H2].
    apply N.eqb_eq in H3. apply sg_verify_spec in H1. exists p, q. rewrite H3.
    split; [reflexivity|]. split; [reflexivity|]. split; [reflexivity|]. split; assumption.
  - intros H. rewrite andb_false_r in H. discriminate.
Qed.

(* the fixed check is the old one plus the binding *)
Lemma verify_single_implies_unbound lot r m x :
  verify_single lot r m x = true -> verify_single_unbound lot r m x = true.
Proof.
  unfold verify_single, verify_single_unbound.
  destruct (nth_error r (N.to_nat (s_slot x))) as [p|]; [|discriminate].
  intros H. apply andb_true_iff in H as [H _]. exact H.
Qed.

(* ---------- invariant ---------- *)
Definition row_ok (e : env) (s : st) (r : row) : Prop :=
  exists o q, find_open s (r_ent r) = Some o /\
              find_party (e_cur e) (s_label (r_sig r)) = Some q /\
              s_sigma (r_sig r) = SigOf (p_vk q) (payload (e_cur e) (o_msg o)).

Definition cert_ok (s : st) (c : cert) : Prop :=
  forall l, In l (c_signers c) ->
  exists r, In r (st_rows s) /\ r_ent r = c_ent c /\ s_label (r_sig r) = l.

Definition Inv (e : env) (s : st) : Prop :=
  (forall r, In r (st_rows s) -> row_ok e s r) /\ (forall c, In c (st_certs s) -> cert_ok s c).

Definition open_stable (s s' : st) : Prop :=
  forall ent o, find_open s ent = Some o ->
  exists o', find_open s' ent = Some o' /\ o_msg o' = o_msg o.

Lemma open_stable_refl s s' : st_open s' = st_open s -> open_stable s s'.
Proof. intros H ent o Ho. exists o. unfold find_open in *. rewrite H. auto. Qed.

Lemma row_ok_stable e s s' r : open_stable s s' -> row_ok e s r -> row_ok e s' r.
Proof.
  intros Hs (o & q & Ho & Hq & Hsig). destruct (Hs _ _ Ho) as (o' & Ho' & Hm).
  exists o', q. rewrite Hm. auto.
Qed.

Lemma Inv_st0 e : Inv e st0.
Proof. split; intros ? []. Qed.

(* rows persist by key under put_row *)
Lemma put_row_in rows ent x r :
  In r (put_row rows ent x) -> r = {| r_ent := ent; r_sig := x |} \/ In r rows.
Proof.
  unfold put_row. intros H. apply in_app_or in H as [H|H].
  - apply filter_In in H as [H _]. auto.
  - destruct H as [H|[]]. auto.
Qed.

Lemma put_row_keeps rows ent x r :
  In r rows ->
  exists r', In r' (put_row rows ent x) /\ r_ent r' = r_ent r /\ s_label (r_sig r') = s_label (r_sig r).
Proof.
  intros H. unfold put_row. destruct (row_key ent (s_label x) r) eqn:Hk.
  - exists {| r_ent := ent; r_sig := x |}. split; [apply in_or_app; right; left; reflexivity|].
    unfold row_key in Hk. apply andb_true_iff in Hk as [H1 H2].
    apply N.eqb_eq in H1, H2. cbn [r_ent r_sig]. auto.
  - exists r. split; [|auto]. apply in_or_app; left. apply filter_In. rewrite Hk. auto.
Qed.

(* ---------- register_core ---------- *)
Lemma register_core_shape e s ent x oc s' :
  register_core e s ent x = (oc, s') ->
  st_open s' = st_open s /\ st_certs s' = st_certs s /\ st_buf s' = st_buf s /\
  ((st_rows s' = st_rows s /\ oc <> REGISTERED) \/
   (exists o, find_open s ent = Some o /\ o_certified o = false /\
              verify_single (e_lot e) (e_cur e) (o_msg o) x = true /\
              st_rows s' = put_row (st_rows s) ent x /\ oc = REGISTERED)).
Proof.
  unfold register_core. destruct (find_open s ent) as [o|] eqn:Ho.
  - destruct (o_certified o) eqn:Hc.
    + intros H; injection H as <- <-. repeat split; auto. left; split; [reflexivity | discriminate].
    + destruct (verify_single _ _ _ _) eqn:Hv; intros H; injection H as <- <-; cbn [st_open st_certs st_buf st_rows].
      * repeat split; auto. right. exists o. repeat split; auto.
      * repeat split; auto. left; split; [reflexivity | discriminate].
  - intros H; injection H as <- <-. repeat split; auto. left; split; [reflexivity | discriminate].
Qed.

Lemma new_row_ok e s ent x o :
  find_open s ent = Some o ->
  verify_single (e_lot e) (e_cur e) (o_msg o) x = true ->
  row_ok e s {| r_ent := ent; r_sig := x |}.
Proof.
  intros Ho Hv. apply verify_single_spec in Hv as (p & q & _ & Hq & _ & Hsig & _).
  exists o, q. cbn [r_ent r_sig]. auto.
Qed.

Lemma register_core_inv e s ent x oc s' :
  Inv e s -> register_core e s ent x = (oc, s') -> Inv e s'.
Proof.
  intros [HR HC] H. apply register_core_shape in H as (Hop & Hce & _ & Hrows).
  pose proof (open_stable_refl s s' Hop) as Hst.
  destruct Hrows as [[Hrows _] | (o & Ho & _ & Hv & Hrows & _)].
  - split.
    + intros r Hr. rewrite Hrows in Hr. eapply row_ok_stable; eauto.
    + intros c Hc. rewrite Hce in Hc. intros l Hl. destruct (HC c Hc l Hl) as (r & Hr & H1 & H2).
      exists r. rewrite Hrows. auto.
  - split.
    + intros r Hr. rewrite Hrows in Hr. apply put_row_in in Hr as [-> | Hr].
      * eapply row_ok_stable; [exact Hst|]. eapply new_row_ok; eauto.
      * eapply row_ok_stable; eauto.
    + intros c Hc. rewrite Hce in Hc. intros l Hl. destruct (HC c Hc l Hl) as (r & Hr & H1 & H2).
      destruct (put_row_keeps (st_rows s) ent x r Hr) as (r' & Hr' & H1' & H2').
      exists r'. rewrite Hrows. repeat split; congruence.
Qed.

Lemma Inv_ext e s s' :
  st_open s' = st_open s -> st_rows s' = st_rows s -> st_certs s' = st_certs s ->
  Inv e s -> Inv e s'.
Proof.
  intros Ho Hr Hc [HR HC]. split.
  - intros r H. rewrite Hr in H. eapply row_ok_stable; [apply open_stable_refl; exact Ho | auto].
  - intros c H. rewrite Hc in H. intros l Hl. destruct (HC c H l Hl) as (r & H1 & H2).
    exists r. rewrite Hr. auto.
Qed.

Lemma register_buffered_inv e s ent x a oc s' :
  Inv e s -> register_buffered e s ent x a = (oc, s') -> Inv e s'.
Proof.
  intros HI. unfold register_buffered. destruct (register_core e s ent x) as [oc1 s1] eqn:Hc.
  destruct (N.eqb oc1 NOTFOUND && a).
  - intros H; injection H as <- <-. eapply Inv_ext; [| | | exact HI]; reflexivity.
  - intros H; injection H as <- <-. eapply register_core_inv; eauto.
Qed.

Lemma handover_inv e ent todo : forall s keep s' keep',
  Inv e s -> handover e s ent todo keep = (s', keep') -> Inv e s'.
Proof.
  induction todo as [|x tl IH]; intros s keep s' keep' HI; cbn [handover].
  - intros H; injection H as <- <-. exact HI.
  - destruct (register_core e s ent (snd x)) as [oc s1] eqn:Hc.
    pose proof (register_core_inv _ _ _ _ _ _ HI Hc) as HI1.
    destruct (N.eqb oc REGISTERED); intros H; eapply IH; eauto.
Qed.

Lemma batch_inv e l : forall s b s', Inv e s -> batch e s l = (b, s') -> Inv e s'.
Proof.
  induction l as [|x tl IH]; intros s b s' HI; cbn [batch].
  - intros H; injection H as <- <-. exact HI.
  - destruct (register_buffered e s (fst x) (snd x) true) as [oc s1] eqn:Hc.
    destruct (batch e s1 tl) as [b2 s2] eqn:Hb.
    intros H; injection H as <- <-. eapply IH; [|exact Hb]. eapply register_buffered_inv; eauto.
Qed.

Lemma find_open_app_none s o :
  open_stable s {| st_open := st_open s ++ [o]; st_rows := st_rows s; st_buf := st_buf s; st_certs := st_certs s |}.
Proof.
  intros ent' o' H. exists o'. unfold find_open in *. cbn [st_open]. rewrite find_app, H. auto.
Qed.

Lemma step_inv e s v o s' : Inv e s -> step e s v = (o, s') -> Inv e s'.
Proof.
  intros HI. destruct v as [p ent claimed x | l | ent msg | ent]; cbn [step].
  - destruct p.
    + destruct (authenticate e claimed x).
      * destruct (register_buffered e s ent x true) as [oc s1] eqn:H1. intros H; injection H as <- <-.
        eapply register_buffered_inv; eauto.
      * intros H; injection H as <- <-. exact HI.
    + destruct (register_buffered e s ent x false) as [oc s1] eqn:H1. intros H; injection H as <- <-.
      eapply register_buffered_inv; eauto.
    + destruct (register_buffered e s ent x true) as [oc s1] eqn:H1. intros H; injection H as <- <-.
      eapply register_buffered_inv; eauto.
  - destruct (batch e s l) as [b s1] eqn:Hb. intros H; injection H as <- <-. eapply batch_inv; eauto.
  - destruct (find_open s ent) eqn:Ho.
    + intros H; injection H as <- <-. exact HI.
    + set (s1 := {| st_open := st_open s ++ [{| o_ent := ent; o_msg := msg; o_certified := false |}];
                    st_rows := st_rows s; st_buf := st_buf s; st_certs := st_certs s |}).
      assert (HI1 : Inv e s1).
      { destruct HI as [HR HC]. split.
        - intros r Hr. eapply row_ok_stable; [apply find_open_app_none | apply HR; exact Hr].
        - intros c Hc. exact (HC c Hc). }
      destruct (handover e s1 ent (rev (filter (fun b => N.eqb (fst b) (ety ent)) (st_buf s1))) []) as [s2 keep] eqn:Hh.
      intros H; injection H as <- <-.
      eapply Inv_ext; [| | | eapply handover_inv; eauto]; reflexivity.
  - destruct (find_open s ent) as [o0|] eqn:Ho; [|intros H; injection H as <- <-; exact HI].
    destruct (o_certified o0); [intros H; injection H as <- <-; exact HI|].
    destruct (N.leb _ _); [|intros H; injection H as <- <-; exact HI].
    intros H; injection H as <- <-. destruct HI as [HR HC]. split.
    + cbn [st_rows]. intros r Hr. eapply row_ok_stable; [|apply HR; exact Hr].
      intros ent' o' Ho'. unfold find_open in *. cbn [st_open].
      rewrite find_map_same.
      * rewrite Ho'. cbn [option_map]. eexists; split; [reflexivity|].
        destruct (N.eqb (o_ent o') ent); reflexivity.
      * intros a. destruct (N.eqb (o_ent a) ent); reflexivity.
    + cbn [st_certs st_rows]. intros c Hc. apply in_app_or in Hc as [Hc | [<- | []]].
      * exact (HC c Hc).
      * intros l Hl. cbn [c_signers c_ent] in *. apply in_map_iff in Hl as (p & <- & Hp).
        apply filter_In in Hp as [_ Hp]. apply existsb_exists in Hp as (r & Hr & Hl).
        apply N.eqb_eq in Hl. unfold rows_of in Hr. apply filter_In in Hr as [Hr He].
        apply N.eqb_eq in He. exists r. auto.
Qed.

Lemma run_from_inv e evs : forall s os s', Inv e s -> run_from e s evs = (os, s') -> Inv e s'.
Proof.
  induction evs as [|v tl IH]; intros s os s' HI; cbn [run_from].
  - intros H; injection H as <- <-. exact HI.
  - destruct (step e s v) as [o s1] eqn:Hs. destruct (run_from e s1 tl) as [os1 s2] eqn:Hr.
    intros H; injection H as <- <-. eapply IH; [eapply step_inv; eauto | eauto].
Qed.

(* ---------- full statement ---------- *)
Lemma bound_from e s0 evs os s r :
  Inv e s0 ->
  run_from e s0 evs = (os, s) -> In r (st_rows s) ->
  exists o q, find_open s (r_ent r) = Some o /\
              find_party (e_cur e) (s_label (r_sig r)) = Some q /\
              sg_verify (s_sigma (r_sig r)) (p_vk q) (payload (e_cur e) (o_msg o)) = true.
Proof.
  intros H0 H Hr. pose proof (run_from_inv e evs s0 os s H0 H) as [HR _].
  destruct (HR r Hr) as (o & q & Ho & Hq & Hs). exists o, q. repeat split; auto.
  apply sg_verify_spec. exact Hs.
Qed.

Lemma bound e evs os s r :
  run_from e st0 evs = (os, s) -> In r (st_rows s) ->
  exists o q, find_open s (r_ent r) = Some o /\
              find_party (e_cur e) (s_label (r_sig r)) = Some q /\
              sg_verify (s_sigma (r_sig r)) (p_vk q) (payload (e_cur e) (o_msg o)) = true.
Proof. apply bound_from, Inv_st0. Qed.

(* after an epoch change the store starts empty whatever the buffer carries over *)
Lemma Inv_epoch_change e s : Inv e (epoch_change s).
Proof. split; intros ? []. Qed.

(* distinct keys: a key belongs to one party *)
Definition keys_distinct (r : reg) : Prop :=
  forall a b, In a r -> In b r -> p_vk a = p_vk b -> a = b.

Lemma no_hijack e evs os s r a :
  keys_distinct (e_cur e) ->
  run_from e st0 evs = (os, s) -> In r (st_rows s) ->
  In a (e_cur e) -> (exists m, s_sigma (r_sig r) = SigOf (p_vk a) m) ->
  s_label (r_sig r) = p_label a.
Proof.
  intros Hk H Hr Ha (m & Hm). pose proof (run_from_inv e evs st0 os s (Inv_st0 e) H) as [HR _].
  destruct (HR r Hr) as (o & q & _ & Hq & Hs). rewrite Hs in Hm. injection Hm as Hvk _.
  apply find_party_spec in Hq as [Hin Hl]. rewrite <- Hl. f_equal. apply Hk; auto.
Qed.

Lemma not_twice e evs os s r1 r2 :
  keys_distinct (e_cur e) ->
  run_from e st0 evs = (os, s) -> In r1 (st_rows s) -> In r2 (st_rows s) ->
  s_sigma (r_sig r1) = s_sigma (r_sig r2) ->
  s_label (r_sig r1) = s_label (r_sig r2).
Proof.
  intros Hk H H1 H2 Heq. pose proof (run_from_inv e evs st0 os s (Inv_st0 e) H) as [HR _].
  destruct (HR r1 H1) as (o1 & q1 & _ & Hq1 & Hs1). destruct (HR r2 H2) as (o2 & q2 & _ & Hq2 & Hs2).
  rewrite Hs1, Hs2 in Heq. injection Heq as Hvk _.
  apply find_party_spec in Hq1 as [Hin1 Hl1]. apply find_party_spec in Hq2 as [Hin2 Hl2].
  rewrite <- Hl1, <- Hl2. f_equal. apply Hk; auto.
Qed.

(* ---------- no shadowing: a stored sigma stays ---------- *)
Definition get_sigma (s : st) (ent l : N) : option sg :=
  option_map (fun r => s_sigma (r_sig r)) (find (row_key ent l) (st_rows s)).

Lemma row_key_true ent l r : row_key ent l r = true -> r_ent r = ent /\ s_label (r_sig r) = l.
Proof. unfold row_key. intros H. apply andb_true_iff in H as [H1 H2]. apply N.eqb_eq in H1, H2. auto. Qed.

Lemma register_core_keeps e s ent x oc s' ent0 l sig :
  Inv e s -> register_core e s ent x = (oc, s') ->
  get_sigma s ent0 l = Some sig -> get_sigma s' ent0 l = Some sig.
Proof.
  intros [HR _] H Hg. apply register_core_shape in H as (_ & _ & _ & Hrows).
  destruct Hrows as [[Hrows _] | (o & Ho & _ & Hv & Hrows & _)]; unfold get_sigma in *; rewrite Hrows; [exact Hg|].
  destruct (find (row_key ent0 l) (st_rows s)) as [r|] eqn:Hf; [|discriminate].
  cbn [option_map] in Hg. injection Hg as Hg.
  pose proof (find_some _ _ Hf) as [Hin Hk]. apply row_key_true in Hk as [He Hl].
  unfold put_row. rewrite find_app.
  destruct (N.eqb ent0 ent && N.eqb l (s_label x)) eqn:Hsame.
  - apply andb_true_iff in Hsame as [H1 H2]. apply N.eqb_eq in H1, H2. rewrite H1, H2. rewrite H1 in He. rewrite H2 in Hl.
    rewrite find_filter_none. cbn [find]. unfold row_key at 1. cbn [r_ent r_sig].
    rewrite !N.eqb_refl. cbn [andb option_map r_sig].
    destruct (HR r Hin) as (o1 & q1 & Ho1 & Hq1 & Hs1).
    rewrite He, Ho in Ho1. injection Ho1 as Eo. subst o1.
    apply verify_single_spec in Hv as (p & q & _ & Hq & _ & Hsig & _).
    rewrite Hl, Hq in Hq1. injection Hq1 as Eq. subst q1.
    rewrite Hsig, <- Hg, Hs1. reflexivity.
  - rewrite find_filter_other; [rewrite Hf; cbn [option_map]; rewrite Hg; reflexivity|].
    intros r0 Hr0. apply row_key_true in Hr0 as [E1 E2]. unfold row_key. rewrite E1, E2. exact Hsame.
Qed.

Lemma handover_keeps e ent todo ent0 l sig : forall s keep s' keep',
  Inv e s -> handover e s ent todo keep = (s', keep') ->
  get_sigma s ent0 l = Some sig -> get_sigma s' ent0 l = Some sig.
Proof.
  induction todo as [|x tl IH]; intros s keep s' keep' HI; cbn [handover].
  - intros H; injection H as <- <-. auto.
  - destruct (register_core e s ent (snd x)) as [oc s1] eqn:Hc.
    pose proof (register_core_inv _ _ _ _ _ _ HI Hc) as HI1.
    pose proof (register_core_keeps _ _ _ _ _ _ ent0 l sig HI Hc) as Hk.
    destruct (N.eqb oc REGISTERED); intros H Hg; eapply IH; eauto.
Qed.

Lemma register_buffered_keeps e s ent x a oc s' ent0 l sig :
  Inv e s -> register_buffered e s ent x a = (oc, s') ->
  get_sigma s ent0 l = Some sig -> get_sigma s' ent0 l = Some sig.
Proof.
  intros HI. unfold register_buffered. destruct (register_core e s ent x) as [oc1 s1] eqn:Hc.
  destruct (N.eqb oc1 NOTFOUND && a).
  - intros H; injection H as <- <-. auto.
  - intros H; injection H as <- <-. eapply register_core_keeps; eauto.
Qed.

Lemma batch_keeps e l0 ent0 l sig : forall s b s',
  Inv e s -> batch e s l0 = (b, s') ->
  get_sigma s ent0 l = Some sig -> get_sigma s' ent0 l = Some sig.
Proof.
  induction l0 as [|x tl IH]; intros s b s' HI; cbn [batch].
  - intros H; injection H as <- <-. auto.
  - destruct (register_buffered e s (fst x) (snd x) true) as [oc s1] eqn:Hc.
    destruct (batch e s1 tl) as [b2 s2] eqn:Hb.
    intros H Hg; injection H as <- <-. eapply IH; [|exact Hb|].
    + eapply register_buffered_inv; eauto.
    + eapply register_buffered_keeps; eauto.
Qed.

Lemma step_keeps e s v o s' ent0 l sig :
  Inv e s -> step e s v = (o, s') ->
  get_sigma s ent0 l = Some sig -> get_sigma s' ent0 l = Some sig.
Proof.
  intros HI. destruct v as [p ent claimed x | l0 | ent msg | ent]; cbn [step].
  - destruct p.
    + destruct (authenticate e claimed x).
      * destruct (register_buffered e s ent x true) as [oc s1] eqn:H1. intros H; injection H as <- <-.
        eapply register_buffered_keeps; eauto.
      * intros H; injection H as <- <-. auto.
    + destruct (register_buffered e s ent x false) as [oc s1] eqn:H1. intros H; injection H as <- <-.
      eapply register_buffered_keeps; eauto.
    + destruct (register_buffered e s ent x true) as [oc s1] eqn:H1. intros H; injection H as <- <-.
      eapply register_buffered_keeps; eauto.
  - destruct (batch e s l0) as [b s1] eqn:Hb. intros H; injection H as <- <-. eapply batch_keeps; eauto.
  - destruct (find_open s ent) eqn:Ho.
    + intros H; injection H as <- <-. auto.
    + set (s1 := {| st_open := st_open s ++ [{| o_ent := ent; o_msg := msg; o_certified := false |}];
                    st_rows := st_rows s; st_buf := st_buf s; st_certs := st_certs s |}).
      assert (HI1 : Inv e s1).
      { destruct HI as [HR HC]. split.
        - intros r Hr. eapply row_ok_stable; [apply find_open_app_none | apply HR; exact Hr].
        - intros c Hc. exact (HC c Hc). }
      destruct (handover e s1 ent (rev (filter (fun b => N.eqb (fst b) (ety ent)) (st_buf s1))) []) as [s2 keep] eqn:Hh.
      intros H; injection H as <- <-. intros Hg.
      change (get_sigma s2 ent0 l = Some sig).
      eapply handover_keeps; [exact HI1 | exact Hh | exact Hg].
  - destruct (find_open s ent) as [o0|] eqn:Ho; [|intros H; injection H as <- <-; auto].
    destruct (o_certified o0); [intros H; injection H as <- <-; auto|].
    destruct (N.leb _ _); intros H; injection H as <- <-; auto.
Qed.

Lemma run_keeps e evs ent0 l sig : forall s os s',
  Inv e s -> run_from e s evs = (os, s') ->
  get_sigma s ent0 l = Some sig -> get_sigma s' ent0 l = Some sig.
Proof.
  induction evs as [|v tl IH]; intros s os s' HI; cbn [run_from].
  - intros H; injection H as <- <-. auto.
  - destruct (step e s v) as [o s1] eqn:Hs. destruct (run_from e s1 tl) as [os1 s2] eqn:Hr.
    intros H Hg; injection H as <- <-.
    eapply IH; [eapply step_inv; eauto | eauto | eapply step_keeps; eauto].
Qed.

(* an honest submission that was registered is still there at the end, whatever follows *)
Lemma honest_stays e evs1 evs2 os1 s1 os2 s2 ent l sig :
  run_from e st0 evs1 = (os1, s1) -> get_sigma s1 ent l = Some sig ->
  run_from e s1 evs2 = (os2, s2) -> get_sigma s2 ent l = Some sig.
Proof.
  intros H1 Hg H2. eapply run_keeps; [| exact H2 | exact Hg].
  eapply run_from_inv; [apply Inv_st0 | exact H1].
Qed.

(* ---------- certificate signers ---------- *)
Lemma signers_signed_from e s0 evs os s c l :
  Inv e s0 ->
  run_from e s0 evs = (os, s) -> In c (st_certs s) -> In l (c_signers c) ->
  exists r o q, In r (st_rows s) /\ r_ent r = c_ent c /\ s_label (r_sig r) = l /\
                find_open s (c_ent c) = Some o /\ find_party (e_cur e) l = Some q /\
                sg_verify (s_sigma (r_sig r)) (p_vk q) (payload (e_cur e) (o_msg o)) = true.
Proof.
  intros H0 H Hc Hl. pose proof (run_from_inv e evs s0 os s H0 H) as [HR HC].
  destruct (HC c Hc l Hl) as (r & Hr & He & Hlab).
  destruct (HR r Hr) as (o & q & Ho & Hq & Hs).
  exists r, o, q. rewrite He in Ho. rewrite Hlab in Hq. repeat split; auto.
  apply sg_verify_spec. exact Hs.
Qed.

Lemma signers_signed e evs os s c l :
  run_from e st0 evs = (os, s) -> In c (st_certs s) -> In l (c_signers c) ->
  exists r o q, In r (st_rows s) /\ r_ent r = c_ent c /\ s_label (r_sig r) = l /\
                find_open s (c_ent c) = Some o /\ find_party (e_cur e) l = Some q /\
                sg_verify (s_sigma (r_sig r)) (p_vk q) (payload (e_cur e) (o_msg o)) = true.
Proof. apply signers_signed_from, Inv_st0. Qed.

(* what a stored row claims as won indexes was won by the key of its party (stake of the slot) *)
Lemma verify_indexes lot r m x i :
  verify_single lot r m x = true -> In i (s_idxs x) ->
  exists p, nth_error r (N.to_nat (s_slot x)) = Some p /\
                mem i (won_of lot (s_sigma x) (p_stake p)) = true.
Proof.
  intros Hv Hi. apply verify_single_spec in Hv as (p & q & Hp & _ & _ & _ & Hall).
  exists p. split; [exact Hp|]. rewrite forallb_forall in Hall. apply Hall. exact Hi.
Qed.

(* under distinct keys the slot of an accepted signature is the slot of its party *)
Lemma verify_slot lot r m x :
  keys_distinct r -> verify_single lot r m x = true ->
  exists q, find_party r (s_label x) = Some q /\ nth_error r (N.to_nat (s_slot x)) = Some q.
Proof.
  intros Hk Hv. apply verify_single_spec in Hv as (p & q & Hp & Hq & Hvk & _ & _).
  exists q. split; [exact Hq|]. rewrite Hp. f_equal. symmetry. apply Hk; auto.
  - apply find_party_spec in Hq as [Hin _]. exact Hin.
  - eapply nth_error_In; eauto.
Qed.

(* ---------- the new dimensions: signed entity types, DMQ batches ---------- *)
(* opening an entity leaves the buffered signatures of every OTHER signed entity type alone *)
Lemma open_other_types e s ent msg o s' b :
  step e s (Open ent msg) = (o, s') -> fst b <> ety ent ->
  (In b (st_buf s') <-> In b (st_buf s)).
Proof.
  cbn [step]. destruct (find_open s ent).
  - intros H _; injection H as <- <-. tauto.
  - cbn [st_buf]. destruct (handover _ _ _ _ _) as [s2 done]. intros H Hb; injection H as <- <-. cbn [st_buf].
    rewrite filter_In. split; [tauto|]. intros Hi. split; [exact Hi|].
    destruct (N.eqb (fst b) (ety ent)) eqn:E; [apply N.eqb_eq in E; contradiction | reflexivity].
Qed.

(* a buffered signature is only ever replaced by one with the same (type, party id) *)
Lemma put_buf_other buf ty x b :
  buf_key ty (s_label x) b = false -> (In b (put_buf buf ty x) <-> In b buf \/ b = (ty, x)).
Proof.
  intros Hk. unfold put_buf. rewrite in_app_iff, filter_In. cbn [In]. rewrite Hk. cbn [negb].
  split; [intros [[H _]|[H|[]]]; auto | intros [H|H]; auto].
Qed.

(* a DMQ batch changes the state exactly like its signatures sent one by one *)
Lemma batch_as_subs e l : forall s,
  snd (batch e s l) = snd (run_from e s (map (fun x => Sub Dmq (fst x) 0 (snd x)) l)).
Proof.
  induction l as [|x tl IH]; intros s; cbn [batch map run_from]; [reflexivity|].
  cbn [step]. destruct (register_buffered e s (fst x) (snd x) true) as [oc s1].
  specialize (IH s1). destruct (batch e s1 tl) as [b s2].
  destruct (run_from e s1 _) as [os s3]. cbn [snd] in *. exact IH.
Qed.

(* ... and reports an import error iff one of them is invalid *)
Lemma batch_error_iff e l : forall s,
  fst (batch e s l) = existsb (fun o => obs_eqb o (ON 11))
                        (fst (run_from e s (map (fun x => Sub Dmq (fst x) 0 (snd x)) l))).
Proof.
  induction l as [|x tl IH]; intros s; cbn [batch map run_from]; [reflexivity|].
  cbn [step]. destruct (register_buffered e s (fst x) (snd x) true) as [oc s1].
  specialize (IH s1). destruct (batch e s1 tl) as [b s2].
  destruct (run_from e s1 _) as [os s3]. cbn [fst existsb] in *. rewrite IH.
  destruct (N.eqb oc INVALID); reflexivity.
Qed.
