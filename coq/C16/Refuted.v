(* C16/Refuted.v — witnesses (by computation) of what the faithful model does NOT guarantee.
   1. before the fix (verify_single_unbound = the code as it was): a signature of party A is
      accepted under the name of party B and under an unregistered name; the fixed check rejects both.
   2. still true after the fix (known finding C16-index-subset-replay): anybody can re-submit the
      genuine signature of party B under B's name with a REDUCED index list (the lottery check is
      per carried index, an empty list passes); insert-or-replace then overwrites B's stored row,
      so B's contribution to the quorum shrinks or vanishes. *)
From MV Require Import Base.Prelude Base.SymHash Base.IdealSig C16.Model.
Open Scope N_scope.

Definition pA := {| p_label := 0; p_vk := 10; p_stake := 5 |}.
Definition pB := {| p_label := 1; p_vk := 11; p_stake := 5 |}.
Definition pC := {| p_label := 2; p_vk := 12; p_stake := 7 |}.
Definition reg3 : reg := [pA; pB; pC].
Definition sigma_of (p : party) (r : reg) (m : N) : sg := SigOf (p_vk p) (payload r m).
Definition lot3 : lottery :=
  [ (sigma_of pA reg3 70, 5, [0; 4; 9]); (sigma_of pB reg3 70, 5, [1; 2; 3]); (sigma_of pC reg3 70, 7, [5; 6; 7; 8]) ].
Definition env3 : env := {| e_lot := lot3; e_cur := reg3; e_next := reg3; e_k := 6 |}.
Definition honest (p : party) (slot : N) (idxs : list N) : ssig :=
  {| s_label := p_label p; s_sigma := sigma_of p reg3 70; s_slot := slot; s_idxs := idxs; s_won := idxs |}.

(* 1. the defect that was fixed *)
Theorem C16_refuted_relabel_before_fix :
  exists lot r m x l_unreg,
    (* x is A's genuine signature, carried under B's name *)
    s_sigma x = sigma_of pA r m /\ s_label x = p_label pB /\
    verify_single_unbound lot r m x = true /\
    find_party r l_unreg = None /\
    verify_single_unbound lot r m {| s_label := l_unreg; s_sigma := s_sigma x; s_slot := s_slot x;
                                     s_idxs := s_idxs x; s_won := s_won x |} = true /\
    (* the fixed check rejects both *)
    verify_single lot r m x = false /\
    verify_single lot r m {| s_label := l_unreg; s_sigma := s_sigma x; s_slot := s_slot x;
                             s_idxs := s_idxs x; s_won := s_won x |} = false.
Proof.
  exists lot3, reg3, 70,
    {| s_label := 1; s_sigma := sigma_of pA reg3 70; s_slot := 0; s_idxs := [0; 4; 9]; s_won := [0; 4; 9] |}, 200.
  vm_compute. repeat split.
Qed.

(* 2. index-subset replay of a party's own signature (open known finding) *)
Definition replay_evs : list ev :=
  [ Open 7 70;
    Sub Http 7 70 (honest pB 1 [1; 2; 3]);
    Sub Http 7 70 {| s_label := 1; s_sigma := sigma_of pB reg3 70; s_slot := 1; s_idxs := []; s_won := [] |} ].

Theorem C16_refuted_index_subset_replay :
  exists e evs os s r,
    run_from e st0 evs = (os, s) /\
    (* B's genuine, complete signature was registered, then a copy with no index was registered too *)
    os = [ON 0; ON REGISTERED; ON REGISTERED] /\
    st_rows s = [r] /\ s_label (r_sig r) = p_label pB /\
    s_sigma (r_sig r) = sigma_of pB reg3 70 /\
    (* ... and B's stored row no longer carries any of the indexes B won *)
    s_idxs (r_sig r) = [].
Proof.
  exists env3, replay_evs. eexists. eexists. eexists.
  split; [vm_compute; reflexivity|]. vm_compute. repeat split.
Qed.
