(* C16/Model.v — attribution of single signatures.  Executable definitions only.
   Sources (as they are after the fix commit "fix: bind a single signature to the key
   registered by its party id"):
     mithril-common/src/protocol/multi_signer.rs        MultiSigner::verify_single_signature
     mithril-common/src/protocol/signer_builder.rs      (party id -> registered key map)
     mithril-stm  SingleSignatureForConcatenation::verify / check_indices
     mithril-aggregator/src/multi_signer.rs             current / next protocol multi-signer
     services/certifier/certifier_service.rs            register_single_signature, create_certificate
     services/certifier/buffered_certifier.rs           buffering + hand-over at open-message creation
     tools/single_signature_authenticator.rs            current-then-next authentication
     http_server/routes/signatures_routes.rs            authenticate, then register
     services/signature_processor.rs                    DMQ: marked authenticated, then register
     database/query/single_signature/update_single_signature.rs   insert or replace
     database/query/buffered_single_signature/insert_or_replace_… insert or replace
     database/query/buffered_single_signature/get_…                 (by discriminant, order by ROWID desc)
     database/query/buffered_single_signature/delete_…              (by discriminant and party ids)
     services/epoch_service.rs + certifier inform_epoch              epoch change: registrations shift,
                                                                    open messages of earlier epochs are
                                                                    deleted with their rows, the buffer stays
   Idealisation: S-ideal signatures (Base/IdealSig.v); the aggregate verification key is the
   H-inj digest of the (key, stake) list — party ids are NOT part of it, exactly as in the
   code (Merkle leaves are (vk, stake)); the lottery is an oracle table supplied per case. *)
From MV Require Import Base.Prelude Base.SymHash Base.IdealSig.
Open Scope N_scope.

(* ---- registration: slot = position in the list ---- *)
Record party := { p_label : N; p_vk : N; p_stake : N }.
Definition reg := list party.

Definition avk_of (r : reg) : bt :=
  BHash BLAKE2B_256 (map (fun p => BLit [p_vk p; p_stake p]) r).
(* bytes actually signed: commitment of the registration ++ message *)
Definition payload (r : reg) (m : N) : bt := BHash SHA256 [avk_of r; BLit [m]].

(* ---- a submitted single signature ---- *)
Record ssig := {
  s_label : N;          (* party_id field *)
  s_sigma : sg;         (* BLS signature *)
  s_slot  : N;          (* signer_index carried by the protocol signature *)
  s_idxs  : list N;     (* indexes carried by the protocol signature *)
  s_won   : list N      (* the separate `won_indexes` field of the entity (stored, never checked) *)
}.

(* lottery oracle: (sigma, stake) -> indexes that win *)
Definition lottery := list (sg * N * list N).
Fixpoint won_of (lot : lottery) (s : sg) (stake : N) : list N :=
  match lot with
  | [] => []
  | (s', st', w) :: tl => if sg_eqb s' s && N.eqb st' stake then w else won_of tl s stake
  end.
Definition mem (i : N) (l : list N) : bool := existsb (N.eqb i) l.

Definition find_party (r : reg) (l : N) : option party :=
  find (fun p => N.eqb (p_label p) l) r.

(* MultiSigner::verify_single_signature (mithril-common), fixed code:
   key and stake come from the slot; BLS check; lottery check of every carried index;
   then the key registered under the party id must be the key of the slot. *)
Definition verify_single (lot : lottery) (r : reg) (m : N) (s : ssig) : bool :=
  match nth_error r (N.to_nat (s_slot s)) with
  | None => false
  | Some p =>
      sg_verify (s_sigma s) (p_vk p) (payload r m)
      && forallb (fun i => mem i (won_of lot (s_sigma s) (p_stake p))) (s_idxs s)
      && match find_party r (s_label s) with
         | Some q => N.eqb (p_vk q) (p_vk p)
         | None => false
         end
  end.

(* the code before the fix: the party id is only used in error texts *)
Definition verify_single_unbound (lot : lottery) (r : reg) (m : N) (s : ssig) : bool :=
  match nth_error r (N.to_nat (s_slot s)) with
  | None => false
  | Some p =>
      sg_verify (s_sigma s) (p_vk p) (payload r m)
      && forallb (fun i => mem i (won_of lot (s_sigma s) (p_stake p))) (s_idxs s)
  end.

(* ---- aggregator state ---- *)
Record omsg := { o_ent : N; o_msg : N; o_certified : bool }.
Record row := { r_ent : N; r_sig : ssig }.       (* key: (open message, party id [, registration epoch: a function of the open message]) *)
Record cert := { c_ent : N; c_signers : list N }.
(* An entity id carries its signed entity type (discriminant): id = 1000 * type + beacon number.
   The open message / row tables are keyed by the entity, the buffer by the TYPE only. *)
Definition ety (ent : N) : N := ent / 1000.
Record st := {
  st_open  : list omsg;
  st_rows  : list row;
  st_buf   : list (N * ssig); (* buffered_single_signature: (signed entity type, signature); key: (type, party id);
                                 list order = ROWID order (insert-or-replace gives the replaced entry a new ROWID) *)
  st_certs : list cert
}.
Definition st0 : st := {| st_open := []; st_rows := []; st_buf := []; st_certs := [] |}.

Record env := { e_lot : lottery; e_cur : reg; e_next : reg; e_k : N }.

Definition find_open (s : st) (ent : N) : option omsg :=
  find (fun o => N.eqb (o_ent o) ent) (st_open s).

Definition row_key (ent l : N) (r : row) : bool :=
  N.eqb (r_ent r) ent && N.eqb (s_label (r_sig r)) l.
(* insert or replace *)
Definition put_row (rows : list row) (ent : N) (sg0 : ssig) : list row :=
  filter (fun r => negb (row_key ent (s_label sg0) r)) rows ++ [{| r_ent := ent; r_sig := sg0 |}].
Definition buf_key (ty l : N) (b : N * ssig) : bool := N.eqb (fst b) ty && N.eqb (s_label (snd b)) l.
Definition put_buf (buf : list (N * ssig)) (ty : N) (sg0 : ssig) : list (N * ssig) :=
  filter (fun b => negb (buf_key ty (s_label sg0) b)) buf ++ [(ty, sg0)].

(* outcome classes of a submission *)
Definition REGISTERED := 0.  Definition BUFFERED := 1.  Definition NOTFOUND := 2.
Definition GONE := 3.        Definition INVALID := 4.   Definition UNAUTH := 5.

(* MithrilCertifierService::register_single_signature *)
Definition register_core (e : env) (s : st) (ent : N) (x : ssig) : N * st :=
  match find_open s ent with
  | None => (NOTFOUND, s)
  | Some o =>
      if o_certified o then (GONE, s)
      else if verify_single (e_lot e) (e_cur e) (o_msg o) x
      then (REGISTERED, {| st_open := st_open s; st_rows := put_row (st_rows s) ent x;
                           st_buf := st_buf s; st_certs := st_certs s |})
      else (INVALID, s)
  end.

(* BufferedCertifierService::register_single_signature *)
Definition register_buffered (e : env) (s : st) (ent : N) (x : ssig) (authenticated : bool) : N * st :=
  let '(oc, s') := register_core e s ent x in
  if N.eqb oc NOTFOUND && authenticated
  then (BUFFERED, {| st_open := st_open s; st_rows := st_rows s;
                     st_buf := put_buf (st_buf s) (ety ent) x; st_certs := st_certs s |})
  else (oc, s').

(* SingleSignatureAuthenticator::authenticate: current stake distribution, then the next one *)
Definition authenticate (e : env) (claimed : N) (x : ssig) : bool :=
  verify_single (e_lot e) (e_cur e) claimed x || verify_single (e_lot e) (e_next e) claimed x.

Inductive path := Http | Direct | Dmq.
Inductive ev :=
| Sub (p : path) (ent : N) (claimed : N) (x : ssig)   (* claimed = `signed_message` of the HTTP payload *)
| Batch (l : list (N * ssig))                          (* one batch of the DMQ consumer: (entity, signature) pairs *)
| Open (ent : N) (msg : N)                             (* create_open_message (+ buffered hand-over) *)
| Seal (ent : N).                                      (* create_certificate *)

(* BufferedCertifierService::try_register_buffered_signatures_to_current_open_message:
   the buffered signatures OF THE TYPE of the new open message are tried, newest first (ROWID desc);
   the party ids of the registered ones are collected (they are then deleted from the buffer by
   (type, party id)), invalid ones stay *)
Fixpoint handover (e : env) (s : st) (ent : N) (todo : list (N * ssig)) (done : list N) : st * list N :=
  match todo with
  | [] => (s, done)
  | x :: tl =>
      let '(oc, s') := register_core e s ent (snd x) in
      if N.eqb oc REGISTERED then handover e s' ent tl (done ++ [s_label (snd x)])
      else handover e s' ent tl done
  end.

(* SequentialSignatureProcessor::process_signatures on one batch: every signature is marked
   authenticated and registered in turn, an invalid one does not stop the batch; the only
   observable is "at least one import error" *)
Fixpoint batch (e : env) (s : st) (l : list (N * ssig)) : bool * st :=
  match l with
  | [] => (false, s)
  | x :: tl =>
      let '(oc, s1) := register_buffered e s (fst x) (snd x) true in
      let '(b, s2) := batch e s1 tl in
      (N.eqb oc INVALID || b, s2)
  end.

Definition nodup_N (l : list N) : list N :=
  fold_right (fun x acc => if mem x acc then acc else x :: acc) [] l.
Definition rows_of (s : st) (ent : N) : list row := filter (fun r => N.eqb (r_ent r) ent) (st_rows s).
Definition union_idxs (rs : list row) : list N := nodup_N (flat_map (fun r => s_idxs (r_sig r)) rs).

Definition step (e : env) (s : st) (v : ev) : obs * st :=
  match v with
  | Sub Http ent claimed x =>
      if authenticate e claimed x
      then let '(oc, s') := register_buffered e s ent x true in (ON oc, s')
      else (ON UNAUTH, s)
  | Sub Direct ent _ x => let '(oc, s') := register_buffered e s ent x false in (ON oc, s')
  (* the DMQ processor reports only "an import error happened" (invalid signature) or not *)
  | Sub Dmq ent _ x => let '(oc, s') := register_buffered e s ent x true in
                       (ON (if N.eqb oc INVALID then 11 else 10), s')
  | Batch l => let '(b, s') := batch e s l in (ON (if b then 11 else 10), s')
  | Open ent msg =>
      match find_open s ent with
      | Some _ => (ON 9, s)                      (* never generated: one Open per entity *)
      | None =>
          let s1 := {| st_open := st_open s ++ [{| o_ent := ent; o_msg := msg; o_certified := false |}];
                       st_rows := st_rows s; st_buf := st_buf s; st_certs := st_certs s |} in
          let mine := filter (fun b => N.eqb (fst b) (ety ent)) (st_buf s1) in
          let '(s2, done) := handover e s1 ent (rev mine) [] in
          (ON 0, {| st_open := st_open s2; st_rows := st_rows s2;
                    st_buf := filter (fun b => negb (N.eqb (fst b) (ety ent) && mem (s_label (snd b)) done)) (st_buf s1);
                    st_certs := st_certs s2 |})
      end
  | Seal ent =>
      match find_open s ent with
      | None => (ON 2, s)
      | Some o =>
          if o_certified o then (ON 3, s)
          else
            let rs := rows_of s ent in
            if N.leb (e_k e) (N.of_nat (length (union_idxs rs)))
            then
              (* metadata signers: current signers whose party id occurs among the stored rows *)
              let signers := map p_label
                    (filter (fun p => existsb (fun r => N.eqb (s_label (r_sig r)) (p_label p)) rs) (e_cur e)) in
              (ON 0, {| st_open := map (fun o' => if N.eqb (o_ent o') ent
                                                   then {| o_ent := o_ent o'; o_msg := o_msg o'; o_certified := true |}
                                                   else o') (st_open s);
                        st_rows := st_rows s; st_buf := st_buf s;
                        st_certs := st_certs s ++ [{| c_ent := ent; c_signers := signers |}] |})
            else (ON 1, s)
      end
  end.

Fixpoint run_from (e : env) (s : st) (evs : list ev) : list obs * st :=
  match evs with
  | [] => ([], s)
  | v :: tl => let '(o, s') := step e s v in
               let '(os, s'') := run_from e s' tl in (o :: os, s'')
  end.

(* ---- observation ---- *)
Definition reg_id (e : env) (a : bt) : N :=
  if bt_eqb a (avk_of (e_cur e)) then 0 else if bt_eqb a (avk_of (e_next e)) then 1 else 2.
(* provenance of a sigma: (key, message, registration it was made for) *)
Definition obs_sigma (e : env) (s : sg) : obs :=
  match s with
  | SigOf sk (BHash _ [a; BLit [m]]) => OL [ON sk; ON m; ON (reg_id e a)]
  | SigOf sk _ => OL [ON sk]
  | SigAt _ _ _ => OL []
  | Junk n => OL [ON 999; ON n]
  end.
Definition obs_ssig (e : env) (x : ssig) : obs :=
  OL [ON (s_label x); obs_sigma e (s_sigma x); ON (s_slot x); OLN (s_idxs x); OLN (s_won x)].

(* insertion sort on a key (rows are reported sorted by (entity, label)) *)
Fixpoint ins {A} (key : A -> N) (x : A) (l : list A) : list A :=
  match l with
  | [] => [x]
  | y :: tl => if N.leb (key x) (key y) then x :: l else y :: ins key x tl
  end.
Definition sort_by {A} (key : A -> N) (l : list A) : list A := fold_right (ins key) [] l.

Definition obs_state (e : env) (s : st) : obs :=
  OL [ OL (map (fun r => OL [ON (r_ent r); obs_ssig e (r_sig r)])
             (sort_by (fun r => r_ent r * 100000 + s_label (r_sig r)) (st_rows s)));
       OL (map (fun b => OL [ON (fst b); obs_ssig e (snd b)])
             (sort_by (fun b => fst b * 100000 + s_label (snd b)) (st_buf s)));
       OL (map (fun c => OL [ON (c_ent c); OLN (sort_by (fun x => x) (c_signers c))]) (st_certs s)) ].

Definition run (e : env) (evs : list ev) : obs :=
  let '(os, s) := run_from e st0 evs in OL [OL os; obs_state e s].

(* ---- epoch change ----
   EpochService::inform_epoch + precompute_epoch_data rebuild both multi-signers from the
   registrations of the new epoch (the environment of the second segment: its current registration
   is the next one of the first segment); CertifierService::inform_epoch deletes the open messages
   of earlier epochs with their rows (on delete cascade); the buffer is NOT touched: a signature
   buffered for an entity of the coming epoch is handed over after the change. *)
Definition epoch_change (s : st) : st :=
  {| st_open := []; st_rows := []; st_buf := st_buf s; st_certs := [] |}.

Definition run2 (e1 : env) (evs1 : list ev) (e2 : env) (evs2 : list ev) : obs :=
  let '(os1, s1) := run_from e1 st0 evs1 in
  let '(os2, s2) := run_from e2 (epoch_change s1) evs2 in
  OL [OL os1; obs_state e1 s1; OL os2; obs_state e2 s2].

(* direct entry point: MultiSigner::verify_single_signature on the current registration *)
Definition run_verify (e : env) (m : N) (xs : list ssig) : obs :=
  OL (map (fun x => OB (verify_single (e_lot e) (e_cur e) m x)) xs).
