(* C16/Properties.v — the property theorems, nothing else.
   C16: a stored single signature is attributed to the party whose registered key produced it.
   All statements quantify over every environment (registrations, lottery, quorum), every
   event list (submissions through the three ingress paths in any order, open-message
   creation with the buffered hand-over, sealing) and are about the model of the code AFTER the
   fix (MultiSigner::verify_single_signature binds the party id to the key of the slot). *)
From MV Require Import Base.Prelude Base.SymHash Base.IdealSig C16.Model C16.Proofs C16.Refuted.
Open Scope N_scope.

(* what an accepted signature is: made for exactly this registration and message by the key
   registered under its party id, which is also the key at the slot it names; every carried
   index was won by that signature under the stake of the slot *)
Theorem C16_accept_sound : forall lot r m x,
  verify_single lot r m x = true ->
  exists p q, nth_error r (N.to_nat (s_slot x)) = Some p /\
              find_party r (s_label x) = Some q /\
              p_vk q = p_vk p /\
              s_sigma x = SigOf (p_vk q) (payload r m) /\
              forallb (fun i => mem i (won_of lot (s_sigma x) (p_stake p))) (s_idxs x) = true.
Proof. exact verify_single_spec. Qed.

Theorem C16_accept_slot : forall lot r m x,
  keys_distinct r -> verify_single lot r m x = true ->
  exists q, find_party r (s_label x) = Some q /\ nth_error r (N.to_nat (s_slot x)) = Some q.
Proof. exact verify_slot. Qed.

(* the fix only removes acceptances *)
Theorem C16_fix_only_rejects_more : forall lot r m x,
  verify_single lot r m x = true -> verify_single_unbound lot r m x = true.
Proof. exact verify_single_implies_unbound. Qed.

(* full statement: stored under P  =>  verifies, for the open message it is stored for, under
   the key P registered for the epoch *)
Theorem C16_bound : forall e evs os s r,
  run_from e st0 evs = (os, s) -> In r (st_rows s) ->
  exists o q, find_open s (r_ent r) = Some o /\
              find_party (e_cur e) (s_label (r_sig r)) = Some q /\
              sg_verify (s_sigma (r_sig r)) (p_vk q) (payload (e_cur e) (o_msg o)) = true.
Proof. exact bound. Qed.

(* no hijack: a signature made by party a's key is never stored under another name *)
Theorem C16_no_hijack : forall e evs os s r a,
  keys_distinct (e_cur e) ->
  run_from e st0 evs = (os, s) -> In r (st_rows s) ->
  In a (e_cur e) -> (exists m, s_sigma (r_sig r) = SigOf (p_vk a) m) ->
  s_label (r_sig r) = p_label a.
Proof. exact no_hijack. Qed.

(* ... nor twice under different names *)
Theorem C16_not_twice : forall e evs os s r1 r2,
  keys_distinct (e_cur e) ->
  run_from e st0 evs = (os, s) -> In r1 (st_rows s) -> In r2 (st_rows s) ->
  s_sigma (r_sig r1) = s_sigma (r_sig r2) ->
  s_label (r_sig r1) = s_label (r_sig r2).
Proof. exact not_twice. Qed.

(* no shadowing: once a party's signature is stored for an open message, it stays stored under
   that party whatever anybody submits afterwards (same sigma; see Refuted for the index list) *)
Theorem C16_no_shadowing : forall e evs1 evs2 os1 s1 os2 s2 ent l sig,
  run_from e st0 evs1 = (os1, s1) -> get_sigma s1 ent l = Some sig ->
  run_from e s1 evs2 = (os2, s2) -> get_sigma s2 ent l = Some sig.
Proof. exact honest_stays. Qed.

(* certificate signer list: only parties whose own registered key produced a stored, valid
   signature of that open message *)
Theorem C16_signers : forall e evs os s c l,
  run_from e st0 evs = (os, s) -> In c (st_certs s) -> In l (c_signers c) ->
  exists r o q, In r (st_rows s) /\ r_ent r = c_ent c /\ s_label (r_sig r) = l /\
                find_open s (c_ent c) = Some o /\ find_party (e_cur e) l = Some q /\
                sg_verify (s_sigma (r_sig r)) (p_vk q) (payload (e_cur e) (o_msg o)) = true.
Proof. exact signers_signed. Qed.

(* ---- across an epoch change: the store of the new epoch starts empty, the buffer is carried over
   unchanged (whatever was put there before, by whichever registration it was authenticated); every
   row stored afterwards verifies under the key its party registered for the NEW epoch ---- *)
Theorem C16_bound_after_epoch_change : forall e1 evs1 os1 s1 e2 evs2 os2 s2 r,
  run_from e1 st0 evs1 = (os1, s1) ->
  run_from e2 (epoch_change s1) evs2 = (os2, s2) -> In r (st_rows s2) ->
  exists o q, find_open s2 (r_ent r) = Some o /\
              find_party (e_cur e2) (s_label (r_sig r)) = Some q /\
              sg_verify (s_sigma (r_sig r)) (p_vk q) (payload (e_cur e2) (o_msg o)) = true.
Proof. intros e1 evs1 os1 s1 e2 evs2 os2 s2 r _. apply bound_from, Inv_epoch_change. Qed.

Theorem C16_signers_after_epoch_change : forall e1 evs1 os1 s1 e2 evs2 os2 s2 c l,
  run_from e1 st0 evs1 = (os1, s1) ->
  run_from e2 (epoch_change s1) evs2 = (os2, s2) -> In c (st_certs s2) -> In l (c_signers c) ->
  exists r o q, In r (st_rows s2) /\ r_ent r = c_ent c /\ s_label (r_sig r) = l /\
                find_open s2 (c_ent c) = Some o /\ find_party (e_cur e2) l = Some q /\
                sg_verify (s_sigma (r_sig r)) (p_vk q) (payload (e_cur e2) (o_msg o)) = true.
Proof. intros e1 evs1 os1 s1 e2 evs2 os2 s2 c l _. apply signers_signed_from, Inv_epoch_change. Qed.

(* ---- signed entity types: creating an open message hands over / removes only the buffered
   signatures of ITS type; those of every other type stay exactly as they were ---- *)
Theorem C16_open_other_types : forall e s ent msg o s' b,
  step e s (Open ent msg) = (o, s') -> fst b <> ety ent ->
  (In b (st_buf s') <-> In b (st_buf s)).
Proof. exact open_other_types. Qed.

(* ---- DMQ batches: a batch is its signatures one after the other (an invalid one stops nothing);
   the error reported is "one of them was invalid" ---- *)
Theorem C16_batch_as_subs : forall e l s,
  snd (batch e s l) = snd (run_from e s (map (fun x => Sub Dmq (fst x) 0 (snd x)) l)).
Proof. exact batch_as_subs. Qed.

Theorem C16_batch_error_iff : forall e l s,
  fst (batch e s l) = existsb (fun o => obs_eqb o (ON 11))
                        (fst (run_from e s (map (fun x => Sub Dmq (fst x) 0 (snd x)) l))).
Proof. exact batch_error_iff. Qed.

(* non-vacuity of the epoch change: party B rotates its key (11 -> 111) for the next epoch.  Its
   signature for the coming entity, made with the NEW key, is authenticated by the next stake
   distribution and buffered before the change, and handed over after it; a signature made with the
   key of the PAST epoch under B's name is refused after the change; the buffered signature of
   another signed entity type (1007) is not touched by opening entity 8. *)
Definition pB' := {| p_label := 1; p_vk := 111; p_stake := 5 |}.
Definition reg3' : reg := [pA; pB'; pC].
Definition lot3' : lottery := lot3 ++ [ (sigma_of pB' reg3' 80, 5, [1; 2]); (sigma_of pB' reg3' 81, 5, [3]) ].
Example C16_ex_epoch_change :
  run2 {| e_lot := lot3'; e_cur := reg3; e_next := reg3'; e_k := 6 |}
       [ Sub Http 8 80 {| s_label := 1; s_sigma := sigma_of pB' reg3' 80; s_slot := 1; s_idxs := [1; 2]; s_won := [1; 2] |};
         Sub Http 1007 81 {| s_label := 1; s_sigma := sigma_of pB' reg3' 81; s_slot := 1; s_idxs := [3]; s_won := [3] |} ]
       {| e_lot := lot3'; e_cur := reg3'; e_next := reg3'; e_k := 6 |}
       [ Open 8 80;
         Batch [ (8, {| s_label := 1; s_sigma := sigma_of pB reg3 80; s_slot := 1; s_idxs := []; s_won := [] |}) ] ]
  = OL [ OL [ON BUFFERED; ON BUFFERED];
         OL [ OL []; OL [ OL [ON 0; OL [ON 1; OL [ON 111; ON 80; ON 1]; ON 1; OLN [1; 2]; OLN [1; 2]]];
                          OL [ON 1; OL [ON 1; OL [ON 111; ON 81; ON 1]; ON 1; OLN [3]; OLN [3]]] ]; OL [] ];
         OL [ON 0; ON 11];
         OL [ OL [ OL [ON 8; OL [ON 1; OL [ON 111; ON 80; ON 0]; ON 1; OLN [1; 2]; OLN [1; 2]]] ];
              OL [ OL [ON 1; OL [ON 1; OL [ON 111; ON 81; ON 0]; ON 1; OLN [3]; OLN [3]]] ];
              OL [] ] ].
Proof. vm_compute. reflexivity. Qed.

(* non-vacuity: three honest parties, buffered + direct submissions, a relabel attempt that is
   rejected, quorum reached, certificate lists exactly the three *)
Example C16_ex :
  run env3 [ Sub Dmq 7 70 (honest pA 0 [0; 4; 9]);
             Open 7 70;
             Sub Http 7 70 (honest pB 1 [1; 2; 3]);
             Sub Http 7 70 {| s_label := 1; s_sigma := sigma_of pA reg3 70; s_slot := 0; s_idxs := [0]; s_won := [0] |};
             Sub Direct 7 70 (honest pC 2 [5; 6]);
             Seal 7 ]
  = OL [ OL [ON 10; ON 0; ON REGISTERED; ON UNAUTH; ON REGISTERED; ON 0];
         OL [ OL [ OL [ON 7; OL [ON 0; OL [ON 10; ON 70; ON 0]; ON 0; OLN [0; 4; 9]; OLN [0; 4; 9]]];
                   OL [ON 7; OL [ON 1; OL [ON 11; ON 70; ON 0]; ON 1; OLN [1; 2; 3]; OLN [1; 2; 3]]];
                   OL [ON 7; OL [ON 2; OL [ON 12; ON 70; ON 0]; ON 2; OLN [5; 6]; OLN [5; 6]]] ];
              OL [];
              OL [ OL [ON 7; OLN [0; 1; 2]] ] ] ].
Proof. vm_compute. reflexivity. Qed.
