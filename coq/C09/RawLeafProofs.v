(* C09/RawLeafProofs.v — the raw-leaf boundary finding (known_findings: C09-raw-leaf-boundary).
   The byte-faithful verifier accepts whatever the ideal one accepts; it accepts MORE exactly
   through [norm]: two raw sibling leaves are hashed as their concatenation.  Witness, the
   collision in general, and injectivity of the raw pair when the boundary is fixed (equal
   lengths of the left parts), which is what holds outside the class. *)
From Coq Require Import Lia.
From MV Require Import Base.Prelude Base.SymHash C09.Mmr C09.MmrProofs C09.RawLeaf.
Open Scope N_scope.

Lemma beq_of_eqb a b : bt_eqb a b = true -> beq a b = true.
Proof. intros H. apply bt_eqb_eq in H. subst. unfold beq. apply bt_eqb_refl. Qed.

Lemma forallb_impl {A} (f g : A -> bool) l : (forall x, f x = true -> g x = true) ->
  forallb f l = true -> forallb g l = true.
Proof.
  intros Hfg. induction l as [|x l IH]; simpl; [reflexivity|].
  intros H. apply andb_true_iff in H as [H1 H2]. apply andb_true_iff. split; [apply Hfg; exact H1 | apply IH; exact H2].
Qed.

Lemma existsb_impl {A} (f g : A -> bool) l : (forall x, f x = true -> g x = true) ->
  existsb f l = true -> existsb g l = true.
Proof.
  intros Hfg. induction l as [|x l IH]; simpl; [discriminate|].
  intros H. apply orb_true_iff in H as [H|H]; apply orb_true_iff; [left; apply Hfg; exact H | right; apply IH; exact H].
Qed.

Lemma positions_consistent_b_of l : positions_consistent l = true -> positions_consistent_b l = true.
Proof.
  unfold positions_consistent, positions_consistent_b. apply forallb_impl. intros e.
  apply forallb_impl. intros e' H. apply orb_true_iff in H as [H|H]; apply orb_true_iff; [left; exact H|right; apply beq_of_eqb; exact H].
Qed.

(* whatever the ideal verifier accepts, the byte-faithful one accepts *)
Theorem mk_verify_b_of p : mk_verify p = true -> mk_verify_b p = true.
Proof.
  unfold mk_verify, mk_verify_b, ckb_verify, ckb_verify_b. intros H.
  apply andb_true_iff in H as [H1 H2]. apply andb_true_iff. split; [apply positions_consistent_b_of; exact H1|].
  destruct (calc_root (p_size p) (p_leaves p) (p_items p)); try discriminate. apply beq_of_eqb; exact H2.
Qed.

Theorem mk_contains_b_of p xs : mk_contains p xs = true -> mk_contains_b p xs = true.
Proof.
  unfold mk_contains, mk_contains_b. apply forallb_impl. intros x. apply existsb_impl. intros e. apply beq_of_eqb.
Qed.

(* and they coincide on a proof whose computed root is separated from its stated root by [norm] *)
Theorem ckb_verify_b_ideal p r : calc_root (p_size p) (p_leaves p) (p_items p) = Ok r ->
  (norm r = norm (p_root p) -> r = p_root p) -> ckb_verify_b p = ckb_verify p.
Proof.
  unfold ckb_verify_b, ckb_verify, beq. intros -> Hinj.
  destruct (bt_eqb (norm r) (norm (p_root p))) eqn:E.
  - apply bt_eqb_eq in E. apply Hinj in E. subst r. symmetry. apply bt_eqb_refl.
  - destruct (bt_eqb r (p_root p)) eqn:E2; [|reflexivity].
    apply bt_eqb_eq in E2. subst r. rewrite bt_eqb_refl in E. discriminate.
Qed.

(* the collision: only the concatenation of two raw siblings is hashed *)
Lemma norm_raw_pair a b : norm (Mrg (BLit a) (BLit b)) = BHash BLAKE2S_256 [BLit (a ++ b)].
Proof. reflexivity. Qed.

Theorem raw_pair_collision a b a' b' : a ++ b = a' ++ b' ->
  norm (Mrg (BLit a) (BLit b)) = norm (Mrg (BLit a') (BLit b')).
Proof. intros H. rewrite !norm_raw_pair, H. reflexivity. Qed.

Lemma rl_app_inj_len {A} (a a' b b' : list A) : length a = length a' -> a ++ b = a' ++ b' -> a = a' /\ b = b'.
Proof.
  revert a'. induction a as [|x a IH]; intros [|y a'] Hl H; try discriminate Hl.
  - split; [reflexivity | exact H].
  - simpl in H, Hl. injection H as -> H. injection Hl as Hl. destruct (IH a' Hl H) as [-> ->]. split; reflexivity.
Qed.

(* outside the class: with the boundary fixed (left parts of equal length — e.g. leaves of one
   fixed length) the raw pair is determined by its digest, as the ideal merge says *)
Theorem raw_pair_inj_same_len a b a' b' : length a = length a' ->
  norm (Mrg (BLit a) (BLit b)) = norm (Mrg (BLit a') (BLit b')) -> a = a' /\ b = b'.
Proof.
  intros Hl H. rewrite !norm_raw_pair in H. apply H_inj in H as [_ H]. injection H as H.
  apply rl_app_inj_len; assumption.
Qed.

(* a raw leaf next to a digest keeps its boundary (digests are opaque atoms: H-sep) *)
Theorem raw_digest_pair_inj a g xs a' g' xs' :
  norm (Mrg (BLit a) (BHash g xs)) = norm (Mrg (BLit a') (BHash g' xs')) ->
  a = a' /\ norm (BHash g xs) = norm (BHash g' xs').
Proof.
  intros H. cbn [norm Mrg cat_lits] in H. apply H_inj in H as [_ H].
  injection H as H1 H2 H3. split; [exact H1|]. cbn [norm]. rewrite H2, H3. reflexivity.
Qed.

(* ---- the witness: committed ["ab"; "c"], the proof claims "a" at position 0 with item "bc" *)
Definition RL_xs : list bt := [BLit [97; 98]; BLit [99]].
Definition RL_x : bt := BLit [97].
Definition RL_witness : mkproof :=
  {| p_root := Mrg (BLit [97; 98]) (BLit [99]); p_leaves := [(0, RL_x)]; p_size := 3; p_items := [BLit [98; 99]] |}.

Lemma raw_leaf_boundary_refuted :
  (forall l, In l RL_xs -> atom l) /\ mmr_root RL_xs = Some (p_root RL_witness) /\
  mk_verify_b RL_witness = true /\ mk_contains_b RL_witness [RL_x] = true /\
  atom RL_x /\ ~ In RL_x RL_xs /\ mk_verify RL_witness = false.
Proof.
  split; [intros l [<-|[<-|[]]]; reflexivity|].
  repeat split; try (vm_compute; reflexivity).
  intros [H|[H|[]]]; discriminate H.
Qed.

(* two different committed lists with one root *)
Lemma raw_leaf_root_collision :
  mmr_root [BLit [97; 98]; BLit [99]] <> mmr_root [BLit [97]; BLit [98; 99]] /\
  option_map norm (mmr_root [BLit [97; 98]; BLit [99]]) = option_map norm (mmr_root [BLit [97]; BLit [98; 99]]).
Proof. split; [vm_compute; discriminate | vm_compute; reflexivity]. Qed.
