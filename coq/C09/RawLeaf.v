(* C09/RawLeaf.v — byte-faithful comparison of MMR nodes.  Definitions only.

   `MKTreeNode + MKTreeNode` is Blake2s-256 of the plain CONCATENATION of the two byte
   strings, and the leaves of an MKTree are pushed RAW (they are not hashed first).  The
   ideal merge [Mrg l r = BHash _ [l; r]] is injective in the pair (l, r); the real one is
   not when both children are raw leaves: only l ++ r is hashed, so ("ab","c") and
   ("a","bc") give the same parent.  Digests (BHash terms) stay opaque 32-byte atoms
   (H-inj, H-sep), so the only identification is between ADJACENT LITERALS of one
   pre-image.  [norm] is that identification; the verifier never compares digests except
   for the final `root == computed root`, for `contains` and for the same-position test, so
   the byte-faithful verdicts are the ideal computations compared up to [norm]. *)
From MV Require Import Base.Prelude Base.SymHash C09.Mmr.
Open Scope N_scope.

(* concatenate adjacent literals of a pre-image *)
Fixpoint cat_lits (l : list bt) : list bt :=
  match l with
  | [] => []
  | BLit a :: r =>
      match cat_lits r with
      | BLit b :: r' => BLit (a ++ b) :: r'
      | r' => BLit a :: r'
      end
  | x :: r => x :: cat_lits r
  end.

Fixpoint norm (t : bt) : bt :=
  match t with
  | BLit a => BLit a
  | BHash g xs =>
      BHash g (cat_lits ((fix go (l : list bt) : list bt :=
                            match l with [] => [] | x :: r => norm x :: go r end) xs))
  | BHex x => BHex (norm x)
  end.

(* equality of the bytes two terms stand for *)
Definition beq (a b : bt) : bool := bt_eqb (norm a) (norm b).

(* MKProof::verify, byte-faithful *)
Definition positions_consistent_b (leaves : list (N * bt)) : bool :=
  forallb (fun e => forallb (fun e' => negb (fst e =? fst e') || beq (snd e) (snd e')) leaves) leaves.

Definition ckb_verify_b (p : mkproof) : bool :=
  match calc_root (p_size p) (p_leaves p) (p_items p) with
  | Ok r => beq r (p_root p)
  | _ => false
  end.

Definition mk_verify_b (p : mkproof) : bool :=
  positions_consistent_b (p_leaves p) && ckb_verify_b p.

(* MKProof::contains, byte-faithful *)
Definition mk_contains_b (p : mkproof) (xs : list bt) : bool :=
  forallb (fun x => existsb (fun e => beq (snd e) x) (p_leaves p)) xs.

(* MKMapProof::{verify, contains}, byte-faithful *)
Fixpoint map_verify_b (p : mapproof) : bool :=
  match p with
  | MapProof m subs =>
      (fix all (l : list (bt * mapproof)) : bool :=
         match l with [] => true | (_, q) :: r => map_verify_b q && all r end) subs
      && mk_verify_b m
      && match subs with
         | [] => true
         | _ => mk_contains_b m (map (fun kq => Mrg (fst kq) (map_root (snd kq))) subs)
         end
  end.

Fixpoint map_contains_b (p : mapproof) (x : bt) : bool :=
  match p with
  | MapProof m subs =>
      mk_contains_b m [x] ||
      (fix any (l : list (bt * mapproof)) : bool :=
         match l with [] => false | (_, q) :: r => map_contains_b q x || any r end) subs
  end.
