(* C09/Properties.v — the property theorems, nothing else.
   C09: Merkle membership proofs vouch only for committed leaves. *)
From MV Require Import Base.Prelude Base.SymHash C09.StmTree C09.StmProofs.
Open Scope N_scope.

(* STM batch path, every tree size: if the verifier accepts (leaves, path) against the
   commitment (root, number of leaves) of the tree over L, then every claimed leaf is the
   committed leaf at its stated index.  H-sep: a leaf payload is not the padding pre-image. *)
Theorem C09_stm_sound : forall (L leaves vals : list bt) (indices : list N),
  ver_bpath (mt_root (mk_tree L)) (N.of_nat (length L)) leaves vals indices = Ok true ->
  forall j idx p, nth_error indices j = Some idx -> nth_error leaves j = Some p -> p <> BLit [0] ->
    idx < N.of_nat (length L) /\ nth_error L (N.to_nat idx) = Some p.
Proof. exact stm_sound. Qed.
