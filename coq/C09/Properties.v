(* C09/Properties.v — the property theorems, nothing else.
   C09: Merkle membership proofs cannot vouch for anything outside the committed set.
   Idealisation (DESIGN section 4): digests are terms.  H-inj = injectivity of BHash
   (used through Node_inj / LeafH_inj / bt_eqb_eq); H-sep = a leaf digest is not a node
   digest (LeafH_not_Node: pre-images of different length), a claimed STM payload is not the
   padding pre-image [0], and (MMR) a claimed leaf is an *atom*: not itself the Blake2s
   digest of two nodes. *)
From Coq Require Import Lia.
From MV Require Import Base.Prelude Base.SymHash C09.StmTree C09.Mmr
  C09.StmProofs C09.StmComplete C09.StmPath C09.MmrProofs C09.MmrComplete C09.Corollaries
  C09.RawLeaf C09.RawLeafProofs C09.MmrInj.
Open Scope N_scope.

(* ------------------------------------------------------------------ STM batch path *)

(* Soundness, every tree size: if the verifier accepts (leaves, path) against the commitment
   (root, number of leaves) of the tree over L, every claimed leaf is the committed leaf at
   its stated index (in particular the index is in range). *)
Theorem C09_stm_sound : forall (L leaves vals : list bt) (indices : list N),
  ver_bpath (mt_root (mk_tree L)) (N.of_nat (length L)) leaves vals indices = Ok true ->
  forall j idx p, nth_error indices j = Some idx -> nth_error leaves j = Some p -> p <> BLit [0] ->
    idx < N.of_nat (length L) /\ nth_error L (N.to_nat idx) = Some p.
Proof. exact stm_sound. Qed.

(* The same for any claimed number of leaves (the verifier never checks idx < nr_leaves):
   acceptance against the committed root still pins every claimed leaf to a committed leaf,
   at the heap position idx + np2(claimed) - 1. *)
Theorem C09_stm_sound_any_nr : forall (L leaves vals : list bt) (indices : list N) (nrl : N),
  ver_bpath (mt_root (mk_tree L)) nrl leaves vals indices = Ok true ->
  forall j idx p, nth_error indices j = Some idx -> nth_error leaves j = Some p -> p <> BLit [0] ->
    exists idx', idx + np2 nrl = idx' + np2 (N.of_nat (length L)) /\
                 idx' < N.of_nat (length L) /\ nth_error L (N.to_nat idx') = Some p.
Proof. exact stm_sound_any. Qed.

(* Completeness, every tree size that fits usize: for a non-empty strictly increasing in-range
   index list the generator does not panic and its path verifies with the committed leaves. *)
Theorem C09_stm_complete : forall (L : list bt) (indices : list N),
  indices <> [] -> inc indices -> (forall i, In i indices -> i < N.of_nat (length L)) ->
  N.of_nat (length L) + np2 (N.of_nat (length L)) < U64 ->
  exists vals,
    gen_bpath (mk_tree L) indices = Ok (vals, indices) /\
    ver_bpath (mt_root (mk_tree L)) (N.of_nat (length L))
      (map (fun i => nth (N.to_nat i) L (BLit [])) indices) vals indices = Ok true.
Proof. exact stm_complete. Qed.

(* Mutation rejection.  A replaced leaf and a moved leaf are the same statement: a claimed
   (index, payload) pair that is not the committed one is never accepted. *)
Corollary C09_stm_rejects_wrong_leaf : forall (L leaves vals : list bt) (indices : list N) j idx p,
  nth_error indices j = Some idx -> nth_error leaves j = Some p -> p <> BLit [0] ->
  nth_error L (N.to_nat idx) <> Some p ->
  ver_bpath (mt_root (mk_tree L)) (N.of_nat (length L)) leaves vals indices <> Ok true.
Proof. exact stm_rejects_wrong_leaf. Qed.

Corollary C09_stm_rejects_out_of_range : forall (L leaves vals : list bt) (indices : list N) j idx p,
  nth_error indices j = Some idx -> nth_error leaves j = Some p -> p <> BLit [0] ->
  N.of_nat (length L) <= idx ->
  ver_bpath (mt_root (mk_tree L)) (N.of_nat (length L)) leaves vals indices <> Ok true.
Proof. exact stm_rejects_out_of_range. Qed.

(* an altered root: one input verifies against at most one root *)
Corollary C09_stm_rejects_other_root : forall r r' nrl leaves vals indices,
  ver_bpath r nrl leaves vals indices = Ok true -> r' <> r ->
  ver_bpath r' nrl leaves vals indices <> Ok true.
Proof. exact stm_rejects_other_root. Qed.

(* An accepted path is determined: the values the verifier reads are exactly the committed
   nodes the generator emits for the same index list; anything behind them is never read.
   Hence an altered / dropped / shifted *used* path value is rejected. *)
Theorem C09_stm_path_determined : forall (L leaves vals : list bt) (indices : list N),
  ver_bpath (mt_root (mk_tree L)) (N.of_nat (length L)) leaves vals indices = Ok true ->
  exists unread, vals = honest_vals L indices ++ unread.
Proof. exact stm_path_determined. Qed.

Corollary C09_stm_rejects_altered_value : forall (L leaves vals : list bt) (indices : list N) k,
  (k < length (honest_vals L indices))%nat ->
  nth_error vals k <> nth_error (honest_vals L indices) k ->
  ver_bpath (mt_root (mk_tree L)) (N.of_nat (length L)) leaves vals indices <> Ok true.
Proof. exact stm_rejects_altered_value. Qed.

(* ------------------------------------------------------------------ MKProof over the MMR *)

(* Soundness (H-inj only): a verified proof vouches only for sub-terms of its root: every
   entry of inner_leaves, hence everything `contains` answers yes to. *)
Theorem C09_mmr_sound : forall p, mk_verify p = true ->
  forall e, In e (p_leaves p) -> sub (snd e) (p_root p).
Proof. exact mk_verify_sound. Qed.

Theorem C09_mmr_contains_sound : forall p xs, mk_verify p = true -> mk_contains p xs = true ->
  forall x, In x xs -> sub x (p_root p).
Proof. exact mk_sound. Qed.

(* With H-sep (leaves are atoms): against the root of the tree over xs, a verified proof
   `contains` only committed leaves. *)
Theorem C09_mmr_sound_committed : forall xs p vs, (forall l, In l xs -> atom l) ->
  mmr_root xs = Some (p_root p) -> mk_verify p = true -> mk_contains p vs = true ->
  forall x, In x vs -> atom x -> In x xs.
Proof. exact mk_sound_committed. Qed.

(* Mutation rejection: a proof carrying a leaf that is not committed (replaced leaf) does not
   verify against the committed root; nor does any proof under another root than its own. *)
Corollary C09_mmr_rejects_foreign_leaf : forall xs p e, (forall l, In l xs -> atom l) ->
  mmr_root xs = Some (p_root p) -> In e (p_leaves p) -> atom (snd e) -> ~ In (snd e) xs ->
  mk_verify p = false.
Proof. exact mmr_rejects_foreign_leaf. Qed.

Corollary C09_mmr_rejects_other_root : forall p r', mk_verify p = true -> r' <> p_root p ->
  mk_verify {| p_root := r'; p_leaves := p_leaves p; p_size := p_size p; p_items := p_items p |} = false.
Proof. exact mmr_rejects_other_root. Qed.

(* The dependency's verification alone (the code before fix d9e64fb26) is refuted: the witness
   verifies, `contains` a leaf that is not committed, and the fixed verify rejects it. *)
Theorem C09_ckb_verify_alone_refuted :
  mmr_root L5 = Some (p_root dup_witness) /\ ckb_verify dup_witness = true /\
  mk_contains dup_witness [FAKE] = true /\ ~ In FAKE L5 /\ mk_verify dup_witness = false.
Proof. exact ckb_alone_unsound. Qed.

(* ------------------------------------------------------------------ raw sibling leaves (known finding
   C09-raw-leaf-boundary).  The MMR theorems above are about the ideal merge, injective in the
   pair of children.  The code hashes the concatenation and pushes leaves raw, so for two raw
   sibling leaves only their concatenation is committed.  [mk_verify_b] / [mk_contains_b]
   (RawLeaf.v) are the byte-faithful verdicts the correspondence run compares with the code. *)

(* full statement refuted on the byte-faithful model: committed ["ab";"c"], a proof that verifies
   against the committed root and contains "a", which is no committed leaf *)
Theorem C09_refuted_raw_leaf_boundary :
  (forall l, In l RL_xs -> atom l) /\ mmr_root RL_xs = Some (p_root RL_witness) /\
  mk_verify_b RL_witness = true /\ mk_contains_b RL_witness [RL_x] = true /\
  atom RL_x /\ ~ In RL_x RL_xs /\ mk_verify RL_witness = false.
Proof. exact raw_leaf_boundary_refuted. Qed.

(* the class in general: moving the boundary between two raw siblings keeps the parent *)
Theorem C09_raw_pair_collision : forall a b a' b', a ++ b = a' ++ b' ->
  norm (Mrg (BLit a) (BLit b)) = norm (Mrg (BLit a') (BLit b')).
Proof. exact raw_pair_collision. Qed.

(* outside the class: with the boundary fixed (left parts of equal length, e.g. leaves of one
   fixed length) the byte-level parent determines both raw children, and a raw leaf next to a
   digest is determined too: there the ideal merge is exact *)
Theorem C09_raw_pair_inj_same_len : forall a b a' b', length a = length a' ->
  norm (Mrg (BLit a) (BLit b)) = norm (Mrg (BLit a') (BLit b')) -> a = a' /\ b = b'.
Proof. exact raw_pair_inj_same_len. Qed.

Theorem C09_raw_digest_pair_inj : forall a g xs a' g' xs',
  norm (Mrg (BLit a) (BHash g xs)) = norm (Mrg (BLit a') (BHash g' xs')) ->
  a = a' /\ norm (BHash g xs) = norm (BHash g' xs').
Proof. exact raw_digest_pair_inj. Qed.

(* the byte-faithful verifier accepts everything the ideal one accepts, and is the ideal one on
   every proof whose computed root is separated from the stated root by [norm] *)
Theorem C09_bytes_accepts_ideal : forall p, mk_verify p = true -> mk_verify_b p = true.
Proof. exact mk_verify_b_of. Qed.

Theorem C09_bytes_is_ideal_when_separated : forall p r,
  calc_root (p_size p) (p_leaves p) (p_items p) = Ok r ->
  (norm r = norm (p_root p) -> r = p_root p) -> ckb_verify_b p = ckb_verify p.
Proof. exact ckb_verify_b_ideal. Qed.

(* ------------------------------------------------------------------ MKMapProof *)

Theorem C09_map_sound : forall p x, map_verify p = true -> map_contains p x = true ->
  sub x (map_root p).
Proof. exact map_sound. Qed.

(* linkage: every sub-proof of a verified map proof verifies itself and (key, its root) is a
   verified leaf of the master proof *)
Theorem C09_map_linkage : forall m subs k q, map_verify (MapProof m subs) = true -> In (k, q) subs ->
  map_verify q = true /\ sub (Mrg k (map_root q)) (p_root m).
Proof. exact map_linkage. Qed.

(* One level of nesting as used for block ranges, with H-sep: an atom vouched for by a
   verified map proof under the committed root is a key or a committed leaf of some range. *)
Theorem C09_map_sound_committed : forall ranges ms p x,
  (forall k xs, In (k, xs) ranges -> forall l, In l xs -> atom l) ->
  master_leaves ranges = Some ms -> mmr_root ms = Some (map_root p) ->
  map_verify p = true -> map_contains p x = true -> atom x ->
  (exists k xs, In (k, xs) ranges /\ x = BLit k) \/ (exists k xs, In (k, xs) ranges /\ In x xs).
Proof. exact map_sound_committed. Qed.

(* ------------------------------------------------------------------ MMR completeness, bounded *)
(* Finite-domain theorem (the bound 15 is part of the statement): for canonical distinct
   leaves and every non-empty increasing selection, compute_proof succeeds, the proof verifies
   against the committed root and contains the selected leaves. *)
Theorem C09_mmr_complete : forall n sel, (1 <= n <= 15)%nat -> In sel (sublists (nseqN 0 n)) ->
  complete_at n sel = true.
Proof. exact mmr_complete_bounded. Qed.

(* ------------------------------------------------------------------ the MMR root determines the leaf list
   Unbounded (any number of leaves below 2^63, so that the u64 sizes and the fuel of the
   transcription suffice): the root computed by MKTree::new + compute_root exists for every
   non-empty list and two lists of atoms with the same root are the same list.  Ideal merge
   (pair-injective); at byte level raw leaves of different lengths are excepted, see
   C09_refuted_raw_root_collision. *)
Theorem C09_mmr_root_some : forall xs, xs <> [] -> N.of_nat (length xs) < 2^63 ->
  exists r, mmr_root xs = Some r.
Proof. exact mmr_root_some. Qed.

Theorem C09_mmr_root_inj : forall xs ys : list bt,
  (forall l, In l xs -> atom l) -> (forall l, In l ys -> atom l) ->
  N.of_nat (length xs) < 2^63 -> N.of_nat (length ys) < 2^63 ->
  mmr_root xs = mmr_root ys -> mmr_root xs <> None -> xs = ys.
Proof. exact mmr_root_inj. Qed.

(* byte level: ["ab";"c"] and ["a";"bc"] are different committed lists with one root *)
Theorem C09_refuted_raw_root_collision :
  mmr_root [BLit [97; 98]; BLit [99]] <> mmr_root [BLit [97]; BLit [98; 99]] /\
  option_map norm (mmr_root [BLit [97; 98]; BLit [99]]) = option_map norm (mmr_root [BLit [97]; BLit [98; 99]]).
Proof. exact raw_leaf_root_collision. Qed.

(* ------------------------------------------------------------------ non-vacuity *)
Definition ex_L : list bt := [BLit [1; 1]; BLit [2; 2]; BLit [3; 3]].
Example C09_ex_stm :
  (exists vals, gen_bpath (mk_tree ex_L) [0; 2] = Ok (vals, [0; 2]) /\
     ver_bpath (mt_root (mk_tree ex_L)) 3 [BLit [1; 1]; BLit [3; 3]] vals [0; 2] = Ok true /\
     ver_bpath (mt_root (mk_tree ex_L)) 3 [BLit [1; 1]; BLit [9; 9]] vals [0; 2] = Ok false /\
     ver_bpath (mt_root (mk_tree ex_L)) 3 [BLit [1; 1]; BLit [3; 3]] vals [0; 1] = Ok false).
Proof. eexists. vm_compute. repeat split. Qed.

Example C09_ex_root_inj : exists r, mmr_root L5 = Some r /\ (forall l, In l L5 -> atom l) /\ N.of_nat (length L5) < 2^63.
Proof. eexists. split; [vm_compute; reflexivity|]. split; [|vm_compute; reflexivity].
  intros l Hl. unfold L5 in Hl. apply in_map_iff in Hl. destruct Hl as [i [<- _]]. apply atom_BLit. Qed.

Example C09_ex_mmr :
  match mk_compute_proof L5 [1; 2] with
  | Ok p => mk_verify p = true /\ mmr_root L5 = Some (p_root p) /\
            mk_contains p [BLit [1]; BLit [2]] = true /\ mk_contains p [BLit [0]] = false
  | _ => False
  end.
Proof. vm_compute. repeat split. Qed.
