(* C09/Properties.v — the property theorems, nothing else.
   C09: Merkle membership proofs cannot vouch for anything outside the committed set.
   Idealisation (DESIGN section 4): digests are terms.  H-inj = injectivity of BHash
   (used through Node_inj / LeafH_inj / bt_eqb_eq); H-sep = a leaf digest is not a node
   digest (LeafH_not_Node: pre-images of different length), a claimed STM payload is not the
   padding pre-image [0], and (MMR) a claimed leaf is an *atom*: not itself the Blake2s
   digest of two nodes. *)
From Coq Require Import Lia.
From MV Require Import Base.Prelude Base.SymHash C09.StmTree C09.Mmr
  C09.StmProofs C09.StmComplete C09.StmPath C09.MmrProofs C09.MmrComplete C09.Corollaries.
Open Scope N_scope.

(* ------------------------------------------------------------------ STM batch path *)

(* Soundness, every tree size: if the verifier accepts (leaves, path) against the commitment
   (root, number of leaves) of the tree over L, every claimed leaf is the committed leaf at
   its stated index (in particular the index is in range). *)
Theorem C09_stm_sound : forall (L leaves vals : list bt) (indices : list N),
  ver_bpath (mt_root (mk_tree L)) (N.of_nat (length L)) leaves vals indices = Ok true ->
  forall j idx p, nth_error indices j = Some idx -> nth_error leaves j = Some p -> p <> BLit [0] ->
    idx < N.of_nat (length L) /\ nth_error L (N.to_nat idx) = Some p.
Proof. exact stm_sound. Qed.

(* The same for any claimed number of leaves (the verifier never checks idx < nr_leaves):
   acceptance against the committed root still pins every claimed leaf to a committed leaf,
   at the heap position idx + np2(claimed) - 1. *)
Theorem C09_stm_sound_any_nr : forall (L leaves vals : list bt) (indices : list N) (nrl : N),
  ver_bpath (mt_root (mk_tree L)) nrl leaves vals indices = Ok true ->
  forall j idx p, nth_error indices j = Some idx -> nth_error leaves j = Some p -> p <> BLit [0] ->
    exists idx', idx + np2 nrl = idx' + np2 (N.of_nat (length L)) /\
                 idx' < N.of_nat (length L) /\ nth_error L (N.to_nat idx') = Some p.
Proof. exact stm_sound_any. Qed.

(* Completeness, every tree size that fits usize: for a non-empty strictly increasing in-range
   index list the generator does not panic and its path verifies with the committed leaves. *)
Theorem C09_stm_complete : forall (L : list bt) (indices : list N),
  indices <> [] -> inc indices -> (forall i, In i indices -> i < N.of_nat (length L)) ->
  N.of_nat (length L) + np2 (N.of_nat (length L)) < U64 ->
  exists vals,
    gen_bpath (mk_tree L) indices = Ok (vals, indices) /\
    ver_bpath (mt_root (mk_tree L)) (N.of_nat (length L))
      (map (fun i => nth (N.to_nat i) L (BLit [])) indices) vals indices = Ok true.
Proof. exact stm_complete. Qed.

(* Mutation rejection.  A replaced leaf and a moved leaf are the same statement: a claimed
   (index, payload) pair that is not the committed one is never accepted. *)
Corollary C09_stm_rejects_wrong_leaf : forall (L leaves vals : list bt) (indices : list N) j idx p,
  nth_error indices j = Some idx -> nth_error leaves j = Some p -> p <> BLit [0] ->
  nth_error L (N.to_nat idx) <> Some p ->
  ver_bpath (mt_root (mk_tree L)) (N.of_nat (length L)) leaves vals indices <> Ok true.
Proof. exact stm_rejects_wrong_leaf. Qed.

Corollary C09_stm_rejects_out_of_range : forall (L leaves vals : list bt) (indices : list N) j idx p,
  nth_error indices j = Some idx -> nth_error leaves j = Some p -> p <> BLit [0] ->
  N.of_nat (length L) <= idx ->
  ver_bpath (mt_root (mk_tree L)) (N.of_nat (length L)) leaves vals indices <> Ok true.
Proof. exact stm_rejects_out_of_range. Qed.

(* an altered root: one input verifies against at most one root *)
Corollary C09_stm_rejects_other_root : forall r r' nrl leaves vals indices,
  ver_bpath r nrl leaves vals indices = Ok true -> r' <> r ->
  ver_bpath r' nrl leaves vals indices <> Ok true.
Proof. exact stm_rejects_other_root. Qed.

(* An accepted path is determined: the values the verifier reads are exactly the committed
   nodes the generator emits for the same index list; anything behind them is never read.
   Hence an altered / dropped / shifted *used* path value is rejected. *)
Theorem C09_stm_path_determined : forall (L leaves vals : list bt) (indices : list N),
  ver_bpath (mt_root (mk_tree L)) (N.of_nat (length L)) leaves vals indices = Ok true ->
  exists unread, vals = honest_vals L indices ++ unread.
Proof. exact stm_path_determined. Qed.

Corollary C09_stm_rejects_altered_value : forall (L leaves vals : list bt) (indices : list N) k,
  (k < length (honest_vals L indices))%nat ->
  nth_error vals k <> nth_error (honest_vals L indices) k ->
  ver_bpath (mt_root (mk_tree L)) (N.of_nat (length L)) leaves vals indices <> Ok true.
Proof. exact stm_rejects_altered_value. Qed.

(* ------------------------------------------------------------------ MKProof over the MMR *)

(* Soundness (H-inj only): a verified proof vouches only for sub-terms of its root: every
   entry of inner_leaves, hence everything `contains` answers yes to. *)
Theorem C09_mmr_sound : forall p, mk_verify p = true ->
  forall e, In e (p_leaves p) -> sub (snd e) (p_root p).
Proof. exact mk_verify_sound. Qed.

Theorem C09_mmr_contains_sound : forall p xs, mk_verify p = true -> mk_contains p xs = true ->
  forall x, In x xs -> sub x (p_root p).
Proof. exact mk_sound. Qed.

(* With H-sep (leaves are atoms): against the root of the tree over xs, a verified proof
   `contains` only committed leaves. *)
Theorem C09_mmr_sound_committed : forall xs p vs, (forall l, In l xs -> atom l) ->
  mmr_root xs = Some (p_root p) -> mk_verify p = true -> mk_contains p vs = true ->
  forall x, In x vs -> atom x -> In x xs.
Proof. exact mk_sound_committed. Qed.

(* Mutation rejection: a proof carrying a leaf that is not committed (replaced leaf) does not
   verify against the committed root; nor does any proof under another root than its own. *)
Corollary C09_mmr_rejects_foreign_leaf : forall xs p e, (forall l, In l xs -> atom l) ->
  mmr_root xs = Some (p_root p) -> In e (p_leaves p) -> atom (snd e) -> ~ In (snd e) xs ->
  mk_verify p = false.
Proof. exact mmr_rejects_foreign_leaf. Qed.

Corollary C09_mmr_rejects_other_root : forall p r', mk_verify p = true -> r' <> p_root p ->
  mk_verify {| p_root := r'; p_leaves := p_leaves p; p_size := p_size p; p_items := p_items p |} = false.
Proof. exact mmr_rejects_other_root. Qed.

(* The dependency's verification alone (the code before fix d9e64fb26) is refuted: the witness
   verifies, `contains` a leaf that is not committed, and the fixed verify rejects it. *)
Theorem C09_ckb_verify_alone_refuted :
  mmr_root L5 = Some (p_root dup_witness) /\ ckb_verify dup_witness = true /\
  mk_contains dup_witness [FAKE] = true /\ ~ In FAKE L5 /\ mk_verify dup_witness = false.
Proof. exact ckb_alone_unsound. Qed.

(* ------------------------------------------------------------------ MKMapProof *)

Theorem C09_map_sound : forall p x, map_verify p = true -> map_contains p x = true ->
  sub x (map_root p).
Proof. exact map_sound. Qed.

(* linkage: every sub-proof of a verified map proof verifies itself and (key, its root) is a
   verified leaf of the master proof *)
Theorem C09_map_linkage : forall m subs k q, map_verify (MapProof m subs) = true -> In (k, q) subs ->
  map_verify q = true /\ sub (Mrg k (map_root q)) (p_root m).
Proof. exact map_linkage. Qed.

(* One level of nesting as used for block ranges, with H-sep: an atom vouched for by a
   verified map proof under the committed root is a key or a committed leaf of some range. *)
Theorem C09_map_sound_committed : forall ranges ms p x,
  (forall k xs, In (k, xs) ranges -> forall l, In l xs -> atom l) ->
  master_leaves ranges = Some ms -> mmr_root ms = Some (map_root p) ->
  map_verify p = true -> map_contains p x = true -> atom x ->
  (exists k xs, In (k, xs) ranges /\ x = BLit k) \/ (exists k xs, In (k, xs) ranges /\ In x xs).
Proof. exact map_sound_committed. Qed.

(* ------------------------------------------------------------------ MMR completeness, bounded *)
(* Finite-domain theorem (the bound 12 is part of the statement): for canonical distinct
   leaves and every non-empty increasing selection, compute_proof succeeds, the proof verifies
   against the committed root and contains the selected leaves. *)
Theorem C09_mmr_complete : forall n sel, (1 <= n <= 12)%nat -> In sel (sublists (nseqN 0 n)) ->
  complete_at n sel = true.
Proof. exact mmr_complete_bounded. Qed.

(* ------------------------------------------------------------------ non-vacuity *)
Definition ex_L : list bt := [BLit [1; 1]; BLit [2; 2]; BLit [3; 3]].
Example C09_ex_stm :
  (exists vals, gen_bpath (mk_tree ex_L) [0; 2] = Ok (vals, [0; 2]) /\
     ver_bpath (mt_root (mk_tree ex_L)) 3 [BLit [1; 1]; BLit [3; 3]] vals [0; 2] = Ok true /\
     ver_bpath (mt_root (mk_tree ex_L)) 3 [BLit [1; 1]; BLit [9; 9]] vals [0; 2] = Ok false /\
     ver_bpath (mt_root (mk_tree ex_L)) 3 [BLit [1; 1]; BLit [3; 3]] vals [0; 1] = Ok false).
Proof. eexists. vm_compute. repeat split. Qed.

Example C09_ex_mmr :
  match mk_compute_proof L5 [1; 2] with
  | Ok p => mk_verify p = true /\ mmr_root L5 = Some (p_root p) /\
            mk_contains p [BLit [1]; BLit [2]] = true /\ mk_contains p [BLit [0]] = false
  | _ => False
  end.
Proof. vm_compute. repeat split. Qed.
