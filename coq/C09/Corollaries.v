(* C09/Corollaries.v — mutation-rejection corollaries of the soundness theorems. *)
From Coq Require Import Lia.
From MV Require Import Base.Prelude Base.SymHash C09.StmTree C09.Mmr C09.StmProofs C09.MmrProofs.
Open Scope N_scope.

Lemma stm_rejects_wrong_leaf : forall (L leaves vals : list bt) (indices : list N) j idx p,
  nth_error indices j = Some idx -> nth_error leaves j = Some p -> p <> BLit [0] ->
  nth_error L (N.to_nat idx) <> Some p ->
  ver_bpath (mt_root (mk_tree L)) (N.of_nat (length L)) leaves vals indices <> Ok true.
Proof.
  intros L leaves vals indices j idx p Hi Hp Hne Hw Hv.
  destruct (stm_sound L leaves vals indices Hv j idx p Hi Hp Hne) as [_ H]. contradiction.
Qed.

Lemma stm_rejects_out_of_range : forall (L leaves vals : list bt) (indices : list N) j idx p,
  nth_error indices j = Some idx -> nth_error leaves j = Some p -> p <> BLit [0] ->
  N.of_nat (length L) <= idx ->
  ver_bpath (mt_root (mk_tree L)) (N.of_nat (length L)) leaves vals indices <> Ok true.
Proof.
  intros L leaves vals indices j idx p Hi Hp Hne Hw Hv.
  destruct (stm_sound L leaves vals indices Hv j idx p Hi Hp Hne) as [H _]. lia.
Qed.

Lemma stm_rejects_other_root : forall r r' nrl leaves vals indices,
  ver_bpath r nrl leaves vals indices = Ok true -> r' <> r ->
  ver_bpath r' nrl leaves vals indices <> Ok true.
Proof.
  intros r r' nrl leaves vals indices H Hne H'. apply Hne. revert H H'. unfold ver_bpath.
  destruct (negb (length leaves =? length indices)%nat); [discriminate|].
  destruct (negb (sortedb indices)); [discriminate|].
  destruct (U64 <? 2 * nrl); [discriminate|].
  destruct (U64 <=? nrl + np2 nrl); [discriminate|].
  destruct (existsb _ indices); [discriminate|].
  destruct (combine _ _) as [|[i0 h0] rest]; [discriminate|].
  destruct (loop _ _ _ _ _) as [[c v]| |]; try discriminate.
  destruct c as [|[q h] [|? ?]]; try discriminate.
  intros H H'. injection H as H. injection H' as H'.
  apply bt_eqb_eq in H. apply bt_eqb_eq in H'. congruence.
Qed.

Lemma mmr_rejects_foreign_leaf : forall xs p e, (forall l, In l xs -> atom l) ->
  mmr_root xs = Some (p_root p) -> In e (p_leaves p) -> atom (snd e) -> ~ In (snd e) xs ->
  mk_verify p = false.
Proof.
  intros xs p e Hat Hr He Ha Hn. destruct (mk_verify p) eqn:Hv; [|reflexivity].
  exfalso. apply Hn. eapply sub_atom_root; eauto. eapply mk_verify_sound; eauto.
Qed.

Lemma mmr_rejects_other_root : forall p r', mk_verify p = true -> r' <> p_root p ->
  mk_verify {| p_root := r'; p_leaves := p_leaves p; p_size := p_size p; p_items := p_items p |} = false.
Proof.
  intros p r' Hv Hne. unfold mk_verify, ckb_verify in *. cbn [p_root p_leaves p_size p_items].
  apply andb_true_iff in Hv. destruct Hv as [Hc Hv]. rewrite Hc. cbn [andb].
  destruct (calc_root (p_size p) (p_leaves p) (p_items p)) as [r| |]; try discriminate.
  apply bt_eqb_eq in Hv. destruct (bt_eqb r r') eqn:E; [|reflexivity].
  apply bt_eqb_eq in E. congruence.
Qed.
