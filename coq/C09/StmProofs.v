(* C09/StmProofs.v — soundness and completeness of the STM batch path.
   H-inj is used as [Node_inj]/[LeafH_inj] (injectivity of BHash), H-sep as
   [LeafH_not_Node] (a one-element pre-image is never a two-element one). *)
From Coq Require Import Lia.
From MV Require Import Base.Prelude Base.SymHash C09.StmTree.
Open Scope N_scope.
Ltac Zify.zify_post_hook ::= Z.div_mod_to_equations.

(* ---- H-inj / H-sep in the form the proofs use ---- *)
Lemma Node_inj a b c d : Node a b = Node c d -> a = c /\ b = d.
Proof. unfold Node. intros H. apply H_inj in H. destruct H as [_ H]. injection H as -> ->. split; reflexivity. Qed.
Lemma LeafH_inj p q : LeafH p = LeafH q -> p = q.
Proof. unfold LeafH. intros H. apply H_inj in H. destruct H as [_ H]. injection H as ->. reflexivity. Qed.
Lemma LeafH_not_Node p a b : LeafH p <> Node a b.
Proof. unfold LeafH, Node. intros H. apply H_inj in H. destruct H as [_ H]. discriminate. Qed.
Lemma zpad_not_Node a b : zpad <> Node a b.
Proof. apply LeafH_not_Node. Qed.

Lemma par_odd i : i <> 0 -> N.even i = false -> 2 * par i + 1 = i.
Proof.
  intros Hi He. unfold par.
  assert (Ho : N.odd i = true) by (rewrite <- N.negb_even, He; reflexivity).
  apply N.odd_spec in Ho. destruct Ho as [k Hk]. subst i. lia.
Qed.
Lemma par_even i : i <> 0 -> N.even i = true -> 2 * par i + 2 = i.
Proof. intros Hi He. unfold par. apply N.even_spec in He. destruct He as [k Hk]. subst i. lia. Qed.

(* ================================================================== one level, backwards *)
Section Sound.
  Variable T : N -> bt.
  Hypothesis T_node : forall p a b, T p = Node a b -> a = T (2 * p + 1) /\ b = T (2 * p + 2).

  Lemma level_sound nr : forall (n : nat) cur vals nx vs',
    (length cur <= n)%nat ->
    level nr cur vals = Ok (nx, vs') ->
    (forall p h', In (p, h') nx -> h' = T p) ->
    forall i h, In (i, h) cur -> h = T i.
  Proof.
    induction n as [|n IH]; intros cur vals nx vs' Hlen Hlv Hnx i h Hin.
    - destruct cur; [contradiction | simpl in Hlen; lia].
    - destruct cur as [|[i0 h0] rest]; [contradiction|].
      simpl in Hlen. cbn [level] in Hlv.
      destruct (i0 =? 0) eqn:E0; [discriminate|]. apply N.eqb_neq in E0.
      destruct (N.even i0) eqn:Ev.
      + destruct vals as [|v vs]; [discriminate|].
        destruct (level nr rest vs) as [[nx1 vs1]| |] eqn:Hr; try discriminate.
        injection Hlv as <- <-.
        assert (Hh : Node v h0 = T (par i0)) by (apply Hnx; left; reflexivity).
        symmetry in Hh. apply T_node in Hh. destruct Hh as [_ Hb].
        rewrite par_even in Hb by assumption.
        destruct Hin as [Heq|Hin]; [injection Heq; intros <- <-; exact Hb|].
        eapply (IH rest vs nx1 vs1); [lia | exact Hr | | exact Hin].
        intros p h' Hp. apply Hnx. right. exact Hp.
      + assert (Halone :
          (if i0 + 1 <? nr then
             match vals with
             | [] => Err
             | v :: vs => match level nr rest vs with
                          | Ok (nx, vs') => Ok ((par i0, Node h0 v) :: nx, vs') | Err => Err | Panic => Panic end
             end
           else match level nr rest vals with
                | Ok (nx, vs') => Ok ((par i0, Node h0 zpad) :: nx, vs') | Err => Err | Panic => Panic end)
          = Ok (nx, vs') -> h = T i).
        { intros Ha. destruct (i0 + 1 <? nr).
          - destruct vals as [|v vs]; [discriminate|].
            destruct (level nr rest vs) as [[nx1 vs1]| |] eqn:Hr; try discriminate.
            injection Ha as <- <-.
            assert (Hh : Node h0 v = T (par i0)) by (apply Hnx; left; reflexivity).
            symmetry in Hh. apply T_node in Hh. destruct Hh as [Ha _].
            rewrite par_odd in Ha by assumption.
            destruct Hin as [Heq|Hin]; [injection Heq; intros <- <-; exact Ha|].
            eapply (IH rest vs nx1 vs1); [lia | exact Hr | | exact Hin].
            intros p h' Hp. apply Hnx. right. exact Hp.
          - destruct (level nr rest vals) as [[nx1 vs1]| |] eqn:Hr; try discriminate.
            injection Ha as <- <-.
            assert (Hh : Node h0 zpad = T (par i0)) by (apply Hnx; left; reflexivity).
            symmetry in Hh. apply T_node in Hh. destruct Hh as [Ha _].
            rewrite par_odd in Ha by assumption.
            destruct Hin as [Heq|Hin]; [injection Heq; intros <- <-; exact Ha|].
            eapply (IH rest vals nx1 vs1); [lia | exact Hr | | exact Hin].
            intros p h' Hp. apply Hnx. right. exact Hp. }
        destruct rest as [|[i2 h2] rest2]; [apply Halone; exact Hlv|].
        destruct (i2 =? i0 + 1) eqn:E2; [|apply Halone; exact Hlv].
        apply N.eqb_eq in E2.
        destruct (level nr rest2 vals) as [[nx1 vs1]| |] eqn:Hr; try discriminate.
        injection Hlv as <- <-.
        assert (Hh : Node h0 h2 = T (par i0)) by (apply Hnx; left; reflexivity).
        symmetry in Hh. apply T_node in Hh. destruct Hh as [Ha Hb].
        rewrite par_odd in Ha by assumption.
        assert (Hi2 : 2 * par i0 + 2 = i2) by (rewrite <- (par_odd i0) in E2 at 1 by assumption; lia).
        rewrite Hi2 in Hb.
        destruct Hin as [Heq|[Heq|Hin]].
        * injection Heq; intros <- <-; exact Ha.
        * injection Heq; intros <- <-; exact Hb.
        * simpl in Hlen. eapply (IH rest2 vals nx1 vs1); [lia | exact Hr | | exact Hin].
          intros p h' Hp. apply Hnx. right. exact Hp.
  Qed.

  Lemma level_head nrr cur vals nx vs i h rest :
    cur = (i, h) :: rest -> level nrr cur vals = Ok (nx, vs) -> exists h' nx', nx = (par i, h') :: nx'.
  Proof.
    intros -> H. cbn [level] in H.
    destruct (i =? 0); [discriminate|].
    destruct (N.even i).
    - destruct vals; [discriminate|]. destruct (level nrr rest vals) as [[? ?]| |]; try discriminate. injection H as <- <-; eauto.
    - destruct rest as [|[i2 h2] rest2].
      + destruct (i + 1 <? nrr).
        * destruct vals; [discriminate|]. destruct (level nrr [] vals) as [[? ?]| |]; try discriminate. injection H as <- <-; eauto.
        * destruct (level nrr [] vals) as [[? ?]| |]; try discriminate. injection H as <- <-; eauto.
      + destruct (i2 =? i + 1).
        * destruct (level nrr rest2 vals) as [[? ?]| |]; try discriminate. injection H as <- <-; eauto.
        * destruct (i + 1 <? nrr).
          -- destruct vals as [|v0 vals0]; [discriminate|]. destruct (level nrr ((i2, h2) :: rest2) vals0) as [[? ?]| |] eqn:E'; try discriminate. injection H as <- <-; eauto.
          -- destruct (level nrr ((i2, h2) :: rest2) vals) as [[? ?]| |]; try discriminate. injection H as <- <-; eauto.
  Qed.

  Lemma loop_sound nr : forall fuel idx cur vals c' v' i0 h0 rest,
    cur = (i0, h0) :: rest -> idx = i0 ->
    loop fuel nr idx cur vals = Ok (c', v') ->
    (exists h1 r1, c' = (0, h1) :: r1) /\
    ((forall p h, In (p, h) c' -> h = T p) -> forall i h, In (i, h) cur -> h = T i).
  Proof.
    induction fuel as [|f IH]; intros idx cur vals c' v' i0 h0 rest Hc Hi Hl; [discriminate|].
    cbn [loop] in Hl. destruct (idx =? 0) eqn:E0.
    - apply N.eqb_eq in E0. injection Hl as <- <-. subst. split; [eauto | auto].
    - destruct (level nr cur vals) as [[c1 v1]| |] eqn:Hlev; try discriminate.
      destruct (level_head _ _ _ _ _ _ _ _ Hc Hlev) as [h' [nx' Hnx]].
      subst idx. destruct (IH _ _ _ _ _ _ _ _ Hnx eq_refl Hl) as [Hhd Hs].
      split; [exact Hhd|]. intros Hc' i h Hin.
      eapply (level_sound nr (length cur) cur vals c1 v1); [lia | exact Hlev | | exact Hin].
      intros p hp Hp. eapply Hs; eauto.
  Qed.

  (* acceptance against the node at heap position 0 puts every claimed leaf digest
     at its heap position, whatever number of leaves the commitment claims *)
  Lemma ver_sound_pos nrl leaves vals indices :
    ver_bpath (T 0) nrl leaves vals indices = Ok true ->
    forall j idx p, nth_error indices j = Some idx -> nth_error leaves j = Some p ->
      T (idx + np2 nrl - 1) = LeafH p.
  Proof.
    intros Hv j idx p Hi Hp. unfold ver_bpath in Hv.
    destruct (negb (length leaves =? length indices)%nat) eqn:El; [discriminate|].
    destruct (negb (sortedb indices)); [discriminate|].
    destruct (U64 <? 2 * nrl); [discriminate|].
    destruct (U64 <=? nrl + np2 nrl); [discriminate|].
    destruct (existsb _ indices); [discriminate|].
    remember (combine (map (fun i => i + np2 nrl - 1) indices) (map LeafH leaves)) as cur0 eqn:Hcur.
    destruct cur0 as [|[i0 h0] rest0]; [discriminate|].
    destruct (loop FUEL (nrl + np2 nrl - 1) i0 ((i0, h0) :: rest0) vals) as [[c' v']| |] eqn:Hloop; try discriminate.
    destruct (loop_sound _ _ _ _ _ _ _ _ _ _ eq_refl eq_refl Hloop) as [[h1 [r1 Hc']] Hs].
    subst c'. destruct r1; [|discriminate]. injection Hv as Heq. apply bt_eqb_eq in Heq. subst h1.
    symmetry. apply (Hs) with (i := idx + np2 nrl - 1).
    - intros q h [Hin|[]]. injection Hin as <- <-. reflexivity.
    - rewrite Hcur. clear - Hi Hp.
      revert leaves j Hi Hp. induction indices as [|a l IH]; intros leaves j Hi Hp; [destruct j; discriminate|].
      destruct leaves as [|b lv]; [destruct j; discriminate|].
      destruct j as [|j]; simpl in *.
      + injection Hi as <-. injection Hp as <-. left; reflexivity.
      + right. eapply IH; eauto.
  Qed.
End Sound.

(* ================================================================== the committed tree *)
Lemma nth_pairup : forall k j l, (j < k)%nat ->
  nth j (pairup k l) zpad = Node (nth (2 * j) l zpad) (nth (2 * j + 1) l zpad).
Proof.
  induction k as [|k IH]; intros j l Hj; [lia|].
  destruct j as [|j].
  - destruct l as [|a [|b r]]; reflexivity.
  - replace (2 * S j)%nat with (S (S (2 * j))) by lia.
    replace (S (S (2 * j)) + 1)%nat with (S (S (2 * j + 1))) by lia.
    destruct l as [|a [|b r]]; cbn [pairup nth].
    + rewrite IH by lia. destruct (2 * j)%nat; destruct (2 * j + 1)%nat; reflexivity.
    + rewrite IH by lia. destruct (2 * j)%nat; destruct (2 * j + 1)%nat; reflexivity.
    + apply IH. lia.
Qed.

(* row h of the array: h levels above the leaves *)
Fixpoint rowf (D : nat) (cur : list bt) (h : nat) : list bt :=
  match h with
  | O => cur
  | S h' => pairup (Nat.pow 2 (D - S h')) (rowf D cur h')
  end.

Lemma rowf_shift d cur : forall h, (h <= d)%nat ->
  rowf d (pairup (Nat.pow 2 d) cur) h = rowf (S d) cur (S h).
Proof.
  induction h as [|h IH]; intros Hh.
  - cbn [rowf]. replace (S d - 1)%nat with d by lia. reflexivity.
  - cbn [rowf] in *. rewrite IH by lia. cbn [rowf].
    replace (S d - S (S h))%nat with (d - S h)%nat by lia. reflexivity.
Qed.

Lemma nth_mk_rows : forall d cur h, (h <= d)%nat -> nth h (mk_rows d cur) [] = rowf d cur h.
Proof.
  induction d as [|d IH]; intros cur h Hh.
  - assert (h = 0)%nat by lia. subst. reflexivity.
  - cbn [mk_rows]. destruct h as [|h]; [reflexivity|].
    cbn [nth]. rewrite IH by lia. apply rowf_shift. lia.
Qed.

Lemma depth_l p : depth (2 * p + 1) = S (depth p).
Proof. unfold depth. replace (2 * p + 1 + 1) with (2 * (p + 1)) by lia. rewrite N.log2_double by lia. lia. Qed.
Lemma depth_r p : depth (2 * p + 2) = S (depth p).
Proof. unfold depth. replace (2 * p + 2 + 1) with (2 * (p + 1) + 1) by lia. rewrite N.log2_succ_double by lia. lia. Qed.

Lemma depth_bounds i : 2 ^ N.of_nat (depth i) <= i + 1 < 2 * 2 ^ N.of_nat (depth i).
Proof.
  unfold depth. rewrite N2Nat.id.
  assert (H := N.log2_spec (i + 1) ltac:(lia)). rewrite N.pow_succ_r' in H. exact H.
Qed.

Lemma pow2_nat_N d : N.of_nat (Nat.pow 2 d) = 2 ^ N.of_nat d.
Proof. rewrite Nat2N.inj_pow. reflexivity. Qed.

Section Tree.
  Variable L : list bt.
  Let t := mk_tree L.
  Let n := N.of_nat (length L).
  Let D := treeD n.
  Definition T (i : N) : bt := node_at (mk_tree L) i.

  Lemma T_unfold i : T i =
    if (depth i <=? D)%nat
    then nth (N.to_nat (i + 1 - 2 ^ N.of_nat (depth i))) (rowf D (map LeafH L) (D - depth i)) zpad
    else zpad.
  Proof.
    unfold T, node_at, mk_tree. cbn [t_n t_rows]. fold n. fold D.
    destruct (depth i <=? D)%nat eqn:E; [|reflexivity].
    apply Nat.leb_le in E. rewrite nth_mk_rows by lia. reflexivity.
  Qed.

  (* internal nodes *)
  Lemma T_int p : (depth p < D)%nat -> T p = Node (T (2 * p + 1)) (T (2 * p + 2)).
  Proof.
    intros Hd. rewrite (T_unfold p), (T_unfold (2 * p + 1)), (T_unfold (2 * p + 2)).
    rewrite depth_l, depth_r.
    assert (E1 : (depth p <=? D)%nat = true) by (apply Nat.leb_le; lia).
    assert (E2 : (S (depth p) <=? D)%nat = true) by (apply Nat.leb_le; lia).
    rewrite E1, E2.
    assert (Hb := depth_bounds p).
    set (d := depth p) in *.
    destruct (D - d)%nat as [|h] eqn:Eh; [lia|].
    replace (D - S d)%nat with h by lia.
    cbn [rowf]. replace (D - S h)%nat with d by lia.
    rewrite nth_pairup.
    - f_equal; f_equal.
      + rewrite Nat2N.inj_succ, N.pow_succ_r'. lia.
      + rewrite Nat2N.inj_succ, N.pow_succ_r'. lia.
    - assert (Hp := pow2_nat_N d). lia.
  Qed.

  Lemma T_deep i : (D < depth i)%nat -> T i = zpad.
  Proof. intros H. rewrite T_unfold. assert (E : (depth i <=? D)%nat = false) by (apply Nat.leb_gt; lia). rewrite E. reflexivity. Qed.

  Lemma T_leaflevel i : depth i = D ->
    T i = nth (N.to_nat (i + 1 - 2 ^ N.of_nat D)) (map LeafH L) zpad.
  Proof.
    intros H. rewrite T_unfold, H, Nat.leb_refl, Nat.sub_diag. reflexivity.
  Qed.

  Lemma nth_leaf_cases j : (exists p, nth j (map LeafH L) zpad = LeafH p).
  Proof.
    destruct (Nat.lt_ge_cases j (length (map LeafH L))) as [Hlt|Hge].
    - rewrite map_length in Hlt. exists (nth j L (BLit [0])).
      rewrite (nth_indep _ zpad (LeafH (BLit [0]))) by (rewrite map_length; exact Hlt).
      apply map_nth.
    - rewrite nth_overflow by exact Hge. exists (BLit [0]). reflexivity.
  Qed.

  Lemma T_node p a b : T p = Node a b -> a = T (2 * p + 1) /\ b = T (2 * p + 2).
  Proof.
    intros H. destruct (lt_eq_lt_dec (depth p) D) as [[Hlt|Heq]|Hgt].
    - rewrite T_int in H by exact Hlt. apply Node_inj in H. destruct H; subst; split; reflexivity.
    - exfalso. rewrite T_leaflevel in H by exact Heq.
      destruct (nth_leaf_cases (N.to_nat (p + 1 - 2 ^ N.of_nat D))) as [q Hq].
      rewrite Hq in H. eapply LeafH_not_Node; exact H.
    - exfalso. rewrite T_deep in H by exact Hgt. eapply zpad_not_Node; exact H.
  Qed.

  Lemma np2_D : np2 n = 2 ^ N.of_nat D.
  Proof. unfold np2, D, treeD. rewrite N2Nat.id. reflexivity. Qed.

  (* a leaf digest with a payload other than the padding pre-image sits at a real leaf *)
  Lemma T_leaf pos p : p <> BLit [0] -> T pos = LeafH p ->
    exists idx, pos = idx + np2 n - 1 /\ idx < n /\ nth_error L (N.to_nat idx) = Some p.
  Proof.
    intros Hne H. destruct (lt_eq_lt_dec (depth pos) D) as [[Hlt|Heq]|Hgt].
    - exfalso. rewrite T_int in H by exact Hlt. symmetry in H. eapply LeafH_not_Node; exact H.
    - rewrite T_leaflevel in H by exact Heq.
      assert (Hb := depth_bounds pos). rewrite Heq in Hb. rewrite <- np2_D in *.
      set (j := N.to_nat (pos + 1 - np2 n)) in *.
      destruct (Nat.lt_ge_cases j (length L)) as [Hlt|Hge].
      + assert (Hn : n = N.of_nat (length L)) by reflexivity.
        exists (pos + 1 - np2 n). split; [lia|]. split; [unfold j in Hlt; lia|].
        fold j. rewrite (nth_indep _ zpad (LeafH (BLit [0]))) in H by (rewrite map_length; exact Hlt).
        rewrite map_nth in H. apply LeafH_inj in H. rewrite <- H. apply nth_error_nth'. exact Hlt.
      + exfalso. rewrite nth_overflow in H by (rewrite map_length; exact Hge).
        apply LeafH_inj in H. congruence.
    - exfalso. rewrite T_deep in H by exact Hgt. apply LeafH_inj in H. congruence.
  Qed.

  (* positions behind the array hold the padding digest *)
  Lemma n_le_np2 : n <= np2 n.
  Proof.
    unfold np2. destruct (N.eq_dec n 0) as [E|E]; [rewrite E; simpl; lia|].
    destruct (N.eq_dec n 1) as [E1|E1]; [rewrite E1; simpl; lia|].
    apply N.log2_up_spec. lia.
  Qed.

  Lemma T_pad i : nr_nodes n <= i -> T i = zpad.
  Proof.
    unfold nr_nodes. intros H. assert (Hn := n_le_np2).
    assert (Hp : np2 n <> 0) by (unfold np2; apply N.pow_nonzero; lia).
    destruct (lt_eq_lt_dec (depth i) D) as [[Hlt|Heq]|Hgt].
    - exfalso. assert (Hb := depth_bounds i). rewrite np2_D in *.
      assert (2 * 2 ^ N.of_nat (depth i) <= 2 ^ N.of_nat D).
      { rewrite <- N.pow_succ_r'. apply N.pow_le_mono_r; lia. }
      lia.
    - rewrite T_leaflevel by exact Heq. apply nth_overflow. rewrite map_length.
      rewrite <- np2_D. assert (Hn' : n = N.of_nat (length L)) by reflexivity. lia.
    - apply T_deep. exact Hgt.
  Qed.

  (* ---------------- soundness ---------------- *)
  Theorem stm_sound_any leaves vals indices nrl :
    ver_bpath (mt_root (mk_tree L)) nrl leaves vals indices = Ok true ->
    forall j idx p, nth_error indices j = Some idx -> nth_error leaves j = Some p -> p <> BLit [0] ->
      exists idx', idx + np2 nrl = idx' + np2 n /\ idx' < n /\ nth_error L (N.to_nat idx') = Some p.
  Proof.
    intros Hv j idx p Hi Hp Hne.
    assert (H := ver_sound_pos T T_node nrl leaves vals indices Hv j idx p Hi Hp).
    destruct (T_leaf _ _ Hne H) as [idx' [H1 [H2 H3]]].
    exists idx'. split; [|split; assumption].
    assert (Hp1 : np2 nrl <> 0) by (unfold np2; apply N.pow_nonzero; lia).
    assert (Hp2 : np2 n <> 0) by (unfold np2; apply N.pow_nonzero; lia).
    lia.
  Qed.

  Theorem stm_sound leaves vals indices :
    ver_bpath (mt_root (mk_tree L)) n leaves vals indices = Ok true ->
    forall j idx p, nth_error indices j = Some idx -> nth_error leaves j = Some p -> p <> BLit [0] ->
      idx < n /\ nth_error L (N.to_nat idx) = Some p.
  Proof.
    intros Hv j idx p Hi Hp Hne.
    destruct (stm_sound_any _ _ _ _ Hv j idx p Hi Hp Hne) as [idx' [H1 [H2 H3]]].
    assert (idx = idx') by lia. subst. split; assumption.
  Qed.
End Tree.
