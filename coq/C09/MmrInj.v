(* C09/MmrInj.v — the store built by [mmr_build] realises the abstract mountain
   range of MmrInjAbs.v; hence [mmr_root] determines the leaf list (unbounded in
   the number of leaves, below 2^63 so that fuel 70 and u64 sizes suffice). *)
From Coq Require Import Lia ZArith.
From MV Require Import Base.Prelude Base.SymHash C09.Mmr C09.MmrProofs C09.MmrInjArith C09.MmrInjAbs.
Open Scope N_scope.

(* ------------------------------------------------------------ store facts *)
Lemma get_cons a s p : get (a :: s) p = if fst a =? p then Some (snd a) else get s p.
Proof. unfold get. cbn [find]. destruct (fst a =? p); reflexivity. Qed.

Definition bounded (s : store) (n : N) : Prop := forall e, In e s -> fst e < n.

Lemma get_app_l : forall s e p t, get s p = Some t -> get (s ++ [e]) p = Some t.
Proof.
  induction s as [|a s IH]; intros e p t H; [discriminate|].
  cbn [app]. rewrite get_cons in *. destruct (fst a =? p); [exact H | apply IH; exact H].
Qed.
Lemma get_app_new : forall s p x, bounded s p -> get (s ++ [(p, x)]) p = Some x.
Proof.
  induction s as [|a s IH]; intros p x Hb; cbn [app]; rewrite get_cons.
  - cbn [fst snd]. rewrite N.eqb_refl. reflexivity.
  - assert (Ha : fst a < p) by (apply Hb; left; reflexivity).
    destruct (N.eqb_spec (fst a) p); [lia|]. apply IH. intros e He. apply Hb. right. exact He.
Qed.
Lemma bounded_app s n p x : bounded s n -> n <= p -> bounded (s ++ [(p, x)]) (p + 1).
Proof.
  intros Hb Hle e He. apply in_app_or in He. destruct He as [He|[<-|[]]].
  - specialize (Hb e He). lia.
  - cbn [fst]. lia.
Qed.

Lemma get_all_app s : forall a b x y, get_all s a = Some x -> get_all s b = Some y ->
  get_all s (a ++ b) = Some (x ++ y).
Proof.
  induction a as [|p a IH]; intros b x y Ha Hb; cbn [get_all app] in *.
  - injection Ha as <-. exact Hb.
  - destruct (get s p) as [v|]; [|discriminate].
    destruct (get_all s a) as [va|]; [|discriminate]. injection Ha as <-.
    rewrite (IH b va y eq_refl Hb). reflexivity.
Qed.

(* ------------------------------------------------------------ sizes and positions of a right-to-left range *)
Fixpoint sz (rs : list (nat * bt)) : N :=
  match rs with [] => 0 | (h, _) :: r => sz r + pk (S h) end.
Fixpoint peaks_at (s : store) (rs : list (nat * bt)) : Prop :=
  match rs with
  | [] => True
  | (h, t) :: r => get s (sz r + pk (S h) - 1) = Some t /\ peaks_at s r
  end.
Fixpoint sinc (rs : list (nat * bt)) : Prop :=
  match rs with [] => True | (h, _) :: r => Forall (fun e => (h < fst e)%nat) r /\ sinc r end.

Lemma sz_szl : forall rs, sz rs = szl (map fst (rev rs)).
Proof.
  induction rs as [|[h t] r IH]; [reflexivity|].
  cbn [sz rev]. rewrite map_app, szl_app, <- IH. cbn [map fst szl]. lia.
Qed.
Lemma sz_zero rs : sz rs = 0 -> rs = [].
Proof. destruct rs as [|[h t] r]; [reflexivity|]. cbn [sz]. pose proof (pk_S_pos h). lia. Qed.

Lemma peaks_at_app : forall rs s e, peaks_at s rs -> peaks_at (s ++ [e]) rs.
Proof.
  induction rs as [|[h t] r IH]; intros s e H; cbn [peaks_at] in *; [exact I|].
  destruct H as [Hg Hr]. split; [apply get_app_l; exact Hg | apply IH; exact Hr].
Qed.

Lemma peaks_at_get_all : forall rs s, peaks_at s rs ->
  get_all s (ppos 0 (map fst (rev rs))) = Some (map snd (rev rs)).
Proof.
  induction rs as [|[h t] r IH]; intros s H; [reflexivity|].
  cbn [peaks_at] in H. destruct H as [Hg Hr].
  cbn [rev]. rewrite !map_app, ppos_app. apply get_all_app; [apply IH; exact Hr|].
  cbn [map fst snd ppos get_all]. rewrite <- sz_szl, N.add_0_l, Hg. reflexivity.
Qed.

Lemma rinv_sinc P : forall rs xs, rinv P rs xs -> sinc rs.
Proof. induction 1 as [|h t xs rs ys Hp Hr IH HF]; cbn [sinc]; [exact I | split; assumption]. Qed.

Lemma memb_In : forall (rs : list (nat * bt)) j, memb j (map fst rs) = true -> exists e, In e rs /\ fst e = j.
Proof.
  induction rs as [|e r IH]; intros j H; cbn [map memb] in H; [discriminate|].
  apply orb_true_iff in H. destruct H as [H|H].
  - apply Nat.eqb_eq in H. exists e. split; [left; reflexivity | symmetry; exact H].
  - destruct (IH j H) as [e' [He' Hf]]. exists e'. split; [right; exact He' | exact Hf].
Qed.

Lemma sinc_head rem j : sinc rem -> Forall (fun e => (j <= fst e)%nat) rem ->
  memb j (map fst rem) = true -> exists l r, rem = (j, l) :: r.
Proof.
  destruct rem as [|[h l] r]; intros Hs Hle Hm; [discriminate|].
  cbn [map memb fst] in Hm. destruct (Nat.eqb_spec j h) as [->|Hne]; [eauto|].
  cbn [orb] in Hm. destruct (memb_In _ _ Hm) as [e [He Hf]].
  destruct Hs as [HF _]. rewrite Forall_forall in HF. specialize (HF e He).
  inversion Hle as [|? ? Hh _]; subst. cbn [fst] in Hh. lia.
Qed.

Lemma carry_notin j last rem : memb j (map fst rem) = false -> carry j last rem = (j, last) :: rem.
Proof.
  destruct rem as [|[h l] r]; intros Hm; [reflexivity|].
  cbn [map memb fst] in Hm. apply orb_false_iff in Hm. destruct Hm as [Hm _].
  cbn [carry]. rewrite Nat.eqb_sym, Hm. reflexivity.
Qed.

(* ------------------------------------------------------------ push_loop is the carry *)
Lemma push_loop_spec : forall fuel j s pmap pos last rem,
  (64 < fuel + j)%nat ->
  Forall (fun e => (fst e < 64)%nat) rem ->
  sinc rem -> Forall (fun e => (j <= fst e)%nat) rem ->
  (forall j', (j <= j')%nat -> N.testbit pmap (N.of_nat j') = memb j' (map fst rem)) ->
  bounded s (pos + 1) -> get s pos = Some last -> pos + 1 = sz rem + pk (S j) -> peaks_at s rem ->
  exists s' pos', push_loop fuel s pmap (p2 j) pos last = (s', pos') /\
    bounded s' (pos' + 1) /\ pos' + 1 = sz (carry j last rem) /\ peaks_at s' (carry j last rem).
Proof.
  induction fuel as [|f IH]; intros j s pmap pos last rem Hfuel H64 Hs Hle Hbits Hb Hg Hpos Hp.
  - assert (Hm : memb j (map fst rem) = false).
    { destruct (memb j (map fst rem)) eqn:E; [|reflexivity].
      destruct (memb_In _ _ E) as [e [He Hf]]. rewrite Forall_forall in H64. specialize (H64 e He). lia. }
    rewrite (carry_notin _ _ _ Hm). exists s, pos. cbn [push_loop sz peaks_at].
    split; [reflexivity|]. split; [exact Hb|]. split; [exact Hpos|]. split; [|exact Hp].
    replace (sz rem + pk (S j) - 1) with pos by lia. exact Hg.
  - cbn [push_loop]. rewrite land_p2, (Hbits j (le_n j)).
    destruct (memb j (map fst rem)) eqn:Em; cbn [negb].
    + destruct (sinc_head _ _ Hs Hle Em) as [l [r ->]].
      cbn [peaks_at] in Hp. destruct Hp as [Hgl Hpr]. cbn [sz] in Hpos.
      rewrite shiftl_p2.
      pose proof (p2_pos j) as Hp2.
      replace (pos + 1 - p2 (S j)) with (sz r + pk (S j) - 1)
        by (rewrite pk_S, p2_S in *; lia).
      rewrite Hgl. cbn [carry]. rewrite Nat.eqb_refl.
      cbn [sinc] in Hs. destruct Hs as [HF Hsr].
      apply IH.
      * lia.
      * inversion H64; assumption.
      * exact Hsr.
      * eapply Forall_impl; [|exact HF]. cbn beta. intros; lia.
      * intros j' Hj'. rewrite (Hbits j') by lia. cbn [map memb fst].
        destruct (Nat.eqb_spec j' j); [lia | reflexivity].
      * apply (bounded_app s (pos + 1)); [exact Hb | lia].
      * apply get_app_new. exact Hb.
      * rewrite (pk_S (S j)), p2_S. rewrite pk_S in Hpos. lia.
      * apply peaks_at_app. exact Hpr.
    + rewrite (carry_notin _ _ _ Em). exists s, pos. cbn [sz peaks_at].
      split; [reflexivity|]. split; [exact Hb|]. split; [exact Hpos|]. split; [|exact Hp].
      replace (sz rem + pk (S j) - 1) with pos by lia. exact Hg.
Qed.

(* ------------------------------------------------------------ push and build *)
Definition SI (s : store) (size : N) (rs : list (nat * bt)) : Prop :=
  size = sz rs /\ bounded s size /\ peaks_at s rs.

Section Build.
  Variable P : bt -> Prop.

  Lemma rinv_sdk rs xs : rinv P rs xs -> N.of_nat (length xs) < 2 ^ 63 ->
    sdk 64 (map fst (rev rs)).
  Proof.
    intros Hr Hlen. apply (linv_sdk P _ xs (rinv_linv _ _ _ Hr)).
    apply Forall_rev. eapply Forall_impl; [|exact (rinv_heights P rs xs 63 Hr Hlen)].
    cbn beta. intros; lia.
  Qed.

  Lemma push_spec s size rs pre x : SI s size rs -> rinv P rs pre ->
    N.of_nat (length pre) < 2 ^ 63 ->
    exists s', push s size x = (s', sz (carry 0 x rs), size) /\ SI s' (sz (carry 0 x rs)) (carry 0 x rs).
  Proof.
    intros (Hsz & Hb & Hp) Hr Hlen. unfold push.
    assert (H64 : Forall (fun e => (fst e < 64)%nat) rs).
    { eapply Forall_impl; [|exact (rinv_heights P rs pre 63 Hr Hlen)]. cbn beta. intros; lia. }
    destruct (push_loop_spec 70 0 (s ++ [(size, x)]) (get_peak_map size) size x rs) as (s' & pos' & E & Hb' & Hpos' & Hp').
    - lia.
    - exact H64.
    - exact (rinv_sinc P _ _ Hr).
    - apply Forall_forall. intros; lia.
    - intros j' _. rewrite Hsz, sz_szl, get_peak_map_spec by (exact (rinv_sdk _ _ Hr Hlen)).
      rewrite map_rev, memb_rev. reflexivity.
    - apply (bounded_app s size); [exact Hb | lia].
    - apply get_app_new. exact Hb.
    - rewrite Hsz. reflexivity.
    - apply peaks_at_app. exact Hp.
    - change 1 with (p2 0) at 1. rewrite E. exists s'. rewrite Hpos'.
      split; [reflexivity|]. split; [reflexivity|]. split; [rewrite <- Hpos'; exact Hb' | exact Hp'].
  Qed.

  Lemma build_spec : forall xs pre s size poss rs,
    rinv P rs pre -> SI s size rs -> (forall x, In x xs -> P x) ->
    N.of_nat (length (pre ++ xs)) < 2 ^ 63 ->
    exists s' poss', build xs s size poss =
        (s', sz (fold_left (fun rs x => carry 0 x rs) xs rs), poss') /\
      SI s' (sz (fold_left (fun rs x => carry 0 x rs) xs rs)) (fold_left (fun rs x => carry 0 x rs) xs rs).
  Proof.
    induction xs as [|x r IH]; intros pre s size poss rs Hr HSI HP Hlen; cbn [build fold_left].
    - exists s, (rev poss). destruct HSI as (-> & Hb & Hp). split; [reflexivity|].
      split; [reflexivity | split; assumption].
    - rewrite app_length in Hlen. cbn [length] in Hlen.
      destruct (push_spec s size rs pre x HSI Hr) as (s1 & E1 & HSI1); [lia|].
      rewrite E1. apply (IH (pre ++ [x])).
      + apply carry_rinv; [cbn [perfect]; split; [apply HP; left; reflexivity | reflexivity] | exact Hr |].
        apply Forall_forall. intros; lia.
      + exact HSI1.
      + intros y Hy. apply HP. right. exact Hy.
      + rewrite !app_length. cbn [length]. lia.
  Qed.

  Theorem mmr_root_spec xs : (forall x, In x xs -> P x) -> xs <> [] ->
    N.of_nat (length xs) < 2 ^ 63 ->
    mmr_root xs = Some (bagR (map snd (rev (rpeaks xs)))).
  Proof.
    intros HP Hne Hlen. unfold mmr_root, mmr_build.
    destruct (build_spec xs [] [] 0 [] [] (rinv_nil P)) as (s & poss & E & HSI).
    - split; [reflexivity|]. split; [intros e []|exact I].
    - exact HP.
    - exact Hlen.
    - rewrite E. fold (rpeaks xs) in *. destruct HSI as (_ & _ & Hp).
      pose proof (rpeaks_rinv P xs HP) as Hr.
      assert (Hrn : rpeaks xs <> []).
      { intros H. rewrite H in Hr. apply rinv_nil_inv in Hr. contradiction. }
      unfold mmr_root_of.
      destruct (N.eqb_spec (sz (rpeaks xs)) 0) as [E0|_]; [apply sz_zero in E0; contradiction|].
      destruct (N.eqb_spec (sz (rpeaks xs)) 1) as [E1|_].
      + destruct (rpeaks xs) as [|[h t] r]; [contradiction|].
        cbn [sz] in E1. pose proof (pk_S_pos h).
        assert (Hr0 : r = []) by (apply sz_zero; lia). subst r.
        cbn [peaks_at sz] in Hp. destruct Hp as [Hg _].
        replace (0 + pk (S h) - 1) with 0 in Hg by lia. rewrite Hg. reflexivity.
      + rewrite sz_szl, get_peaks_spec by (exact (rinv_sdk _ _ Hr Hlen)).
        rewrite (peaks_at_get_all _ _ Hp). apply bagging_bagR.
        intros H. apply map_eq_nil in H. apply (f_equal (@rev _)) in H.
        rewrite rev_involutive in H. contradiction.
  Qed.
End Build.

(* ------------------------------------------------------------ the theorems *)
Theorem mmr_root_some : forall xs, xs <> [] -> N.of_nat (length xs) < 2 ^ 63 ->
  exists r, mmr_root xs = Some r.
Proof.
  intros xs Hne Hlen. eexists. apply (mmr_root_spec (fun _ => True)); [intros; exact I | exact Hne | exact Hlen].
Qed.

Lemma mmr_root_nil : mmr_root [] = None.
Proof. reflexivity. Qed.

Theorem mmr_root_inj : forall xs ys : list bt,
  (forall l, In l xs -> atom l) -> (forall l, In l ys -> atom l) ->
  N.of_nat (length xs) < 2 ^ 63 -> N.of_nat (length ys) < 2 ^ 63 ->
  mmr_root xs = mmr_root ys -> mmr_root xs <> None -> xs = ys.
Proof.
  intros xs ys Hx Hy Lx Ly E Hn.
  assert (Nx : xs <> []) by (intros ->; apply Hn; reflexivity).
  assert (Ny : ys <> []) by (intros ->; apply Hn; rewrite E; reflexivity).
  rewrite (mmr_root_spec atom xs Hx Nx Lx), (mmr_root_spec atom ys Hy Ny Ly) in E.
  injection E as E. apply abs_root_inj; assumption.
Qed.

(* variant without the side condition on the root *)
Corollary mmr_root_inj' : forall xs ys : list bt,
  (forall l, In l xs -> atom l) -> (forall l, In l ys -> atom l) ->
  N.of_nat (length xs) < 2 ^ 63 -> N.of_nat (length ys) < 2 ^ 63 ->
  xs <> [] -> mmr_root xs = mmr_root ys -> xs = ys.
Proof.
  intros xs ys Hx Hy Lx Ly Nx E. apply mmr_root_inj; try assumption.
  destruct (mmr_root_some xs Nx Lx) as [r ->]. discriminate.
Qed.


