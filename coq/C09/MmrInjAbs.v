(* C09/MmrInjAbs.v — the abstract structure of a Merkle mountain range: a binary
   counter of perfect trees; the bagged root determines the leaf list. *)
From Coq Require Import Lia ZArith.
From MV Require Import Base.Prelude Base.SymHash C09.Mmr C09.MmrProofs C09.MmrInjArith.
Open Scope N_scope.

Lemma Mrg_inj a b c d : Mrg a b = Mrg c d -> a = c /\ b = d.
Proof.
  unfold Mrg. intros H. apply H_inj in H. destruct H as [_ H].
  injection H as -> ->. split; reflexivity.
Qed.

(* [perfect P h t xs]: t is a perfect Mrg-tree of height h whose leaves, left to
   right, are xs, every leaf satisfying P *)
Fixpoint perfect (P : bt -> Prop) (h : nat) (t : bt) (xs : list bt) : Prop :=
  match h with
  | O => P t /\ xs = [t]
  | S h' => exists a b xa xb, t = Mrg a b /\ perfect P h' a xa /\ perfect P h' b xb /\ xs = xa ++ xb
  end.

(* binary-counter insertion; the list is right to left (head = smallest mountain) *)
Fixpoint carry (h : nat) (t : bt) (rs : list (nat * bt)) : list (nat * bt) :=
  match rs with
  | (h', l) :: r => if Nat.eqb h' h then carry (S h) (Mrg l t) r else (h, t) :: rs
  | [] => [(h, t)]
  end.
Definition rpeaks (xs : list bt) : list (nat * bt) := fold_left (fun rs x => carry 0 x rs) xs [].

(* bagging of the peaks given left to right *)
Fixpoint bagR (ps : list bt) : bt :=
  match ps with
  | [] => BLit []
  | p :: rest => match rest with [] => p | _ => Mrg (bagR rest) p end
  end.
Lemma bagR_cons2 p q r : bagR (p :: q :: r) = Mrg (bagR (q :: r)) p.
Proof. reflexivity. Qed.

Section Shape.
  Variable P : bt -> Prop.

  Lemma perfect_len : forall h t xs, perfect P h t xs -> N.of_nat (length xs) = p2 h.
  Proof.
    induction h as [|h IH]; intros t xs H; cbn [perfect] in H.
    - destruct H as [_ ->]. reflexivity.
    - destruct H as (a & b & xa & xb & _ & Ha & Hb & ->).
      rewrite app_length, Nat2N.inj_add, (IH _ _ Ha), (IH _ _ Hb), p2_S. lia.
  Qed.

  (* right-to-left invariant: heights strictly increasing, leaves = xs *)
  Inductive rinv : list (nat * bt) -> list bt -> Prop :=
  | rinv_nil : rinv [] []
  | rinv_cons h t xs rs ys : perfect P h t xs -> rinv rs ys ->
      Forall (fun e => (h < fst e)%nat) rs -> rinv ((h, t) :: rs) (ys ++ xs).

  Lemma rinv_inv h t rs zs : rinv ((h, t) :: rs) zs ->
    exists xs ys, zs = ys ++ xs /\ perfect P h t xs /\ rinv rs ys /\ Forall (fun e => (h < fst e)%nat) rs.
  Proof. intros H. inversion H; subst. eauto 10. Qed.
  Lemma rinv_nil_inv zs : rinv [] zs -> zs = [].
  Proof. intros H. inversion H. reflexivity. Qed.

  Lemma carry_rinv : forall rs h t xs ys, perfect P h t xs -> rinv rs ys ->
    Forall (fun e => (h <= fst e)%nat) rs -> rinv (carry h t rs) (ys ++ xs).
  Proof.
    induction rs as [|[h' l] r IH]; intros h t xs ys Hp Hr Hle; cbn [carry].
    - apply rinv_cons; [exact Hp | exact Hr | constructor].
    - destruct (rinv_inv _ _ _ _ Hr) as (xl & ys0 & -> & Hpl & Hr0 & Hlt).
      destruct (Nat.eqb_spec h' h) as [->|Hne].
      + rewrite <- app_assoc. apply IH.
        * cbn [perfect]. exists l, t, xl, xs. auto.
        * exact Hr0.
        * eapply Forall_impl; [|exact Hlt]. cbn beta. intros; lia.
      + apply rinv_cons; [exact Hp | exact Hr |].
        inversion Hle as [|? ? Hh' _]; subst. cbn [fst] in Hh'.
        constructor; [cbn [fst]; lia|].
        eapply Forall_impl; [|exact Hlt]. cbn beta. intros; lia.
  Qed.

  Lemma fold_carry_rinv : forall xs rs pre, (forall x, In x xs -> P x) -> rinv rs pre ->
    rinv (fold_left (fun rs x => carry 0 x rs) xs rs) (pre ++ xs).
  Proof.
    induction xs as [|x r IH]; intros rs pre HP Hr; cbn [fold_left].
    - rewrite app_nil_r. exact Hr.
    - replace (pre ++ x :: r) with ((pre ++ [x]) ++ r) by (rewrite <- app_assoc; reflexivity).
      apply IH; [intros y Hy; apply HP; right; exact Hy|].
      apply carry_rinv; [cbn [perfect]; split; [apply HP; left; reflexivity | reflexivity] | exact Hr |].
      apply Forall_forall. intros; lia.
  Qed.

  Lemma rpeaks_rinv xs : (forall x, In x xs -> P x) -> rinv (rpeaks xs) xs.
  Proof. intros HP. apply (fold_carry_rinv xs [] [] HP rinv_nil). Qed.

  (* every mountain has at most as many leaves as the whole range *)
  Lemma rinv_len : forall rs xs, rinv rs xs ->
    Forall (fun e => p2 (fst e) <= N.of_nat (length xs)) rs.
  Proof.
    induction 1 as [|h t xs rs ys Hp Hr IH HF]; [constructor|].
    rewrite app_length, Nat2N.inj_add, (perfect_len _ _ _ Hp). constructor; [cbn [fst]; lia|].
    eapply Forall_impl; [|exact IH]. cbn beta. intros; lia.
  Qed.

  Lemma rinv_heights rs xs k : rinv rs xs -> N.of_nat (length xs) < p2 k ->
    Forall (fun e => (fst e < k)%nat) rs.
  Proof.
    intros Hr Hlen. eapply Forall_impl; [|exact (rinv_len _ _ Hr)]. cbn beta.
    intros e He. destruct (Nat.lt_ge_cases (fst e) k) as [Hlt|Hge]; [exact Hlt|].
    pose proof (p2_le _ _ Hge). lia.
  Qed.

  (* left-to-right invariant *)
  Inductive linv : list (nat * bt) -> list bt -> Prop :=
  | linv_nil : linv [] []
  | linv_cons h t xs ms ys : perfect P h t xs -> linv ms ys ->
      Forall (fun e => (fst e < h)%nat) ms -> linv ((h, t) :: ms) (xs ++ ys).

  Lemma linv_inv h t ms zs : linv ((h, t) :: ms) zs ->
    exists xs ys, zs = xs ++ ys /\ perfect P h t xs /\ linv ms ys /\ Forall (fun e => (fst e < h)%nat) ms.
  Proof. intros H. inversion H; subst. eauto 10. Qed.
  Lemma linv_nil_inv zs : linv [] zs -> zs = [].
  Proof. intros H. inversion H. reflexivity. Qed.

  Lemma linv_snoc : forall ms ys, linv ms ys -> forall h t xs, perfect P h t xs ->
    Forall (fun e => (h < fst e)%nat) ms -> linv (ms ++ [(h, t)]) (ys ++ xs).
  Proof.
    induction 1 as [|h0 t0 xs0 ms ys Hp0 Hl IH HF]; intros h t xs Hp Hlt.
    - cbn [app]. rewrite <- (app_nil_r xs). apply linv_cons; [exact Hp | constructor | constructor].
    - cbn [app]. rewrite <- app_assoc. inversion Hlt as [|? ? Hh Hlt']; subst. cbn [fst] in Hh.
      apply linv_cons; [exact Hp0 | apply IH; assumption |].
      apply Forall_app. split; [exact HF | constructor; [cbn [fst]; lia | constructor]].
  Qed.

  Lemma rinv_linv : forall rs xs, rinv rs xs -> linv (rev rs) xs.
  Proof.
    induction 1 as [|h t xs rs ys Hp Hr IH HF]; cbn [rev]; [constructor|].
    apply linv_snoc; [exact IH | exact Hp | apply Forall_rev; exact HF].
  Qed.

  Lemma linv_sdk : forall ms xs, linv ms xs -> forall k, Forall (fun e => (fst e < k)%nat) ms ->
    sdk k (map fst ms).
  Proof.
    induction 1 as [|h t xs ms ys Hp Hl IH HF]; intros k Hk; cbn [map sdk]; [exact I|].
    inversion Hk as [|? ? Hh _]; subst. cbn [fst] in *. split; [exact Hh | apply IH; exact HF].
  Qed.
End Shape.

(* ------------------------------------------------------------ uniqueness (H-inj + H-sep on atoms) *)
Lemma perfect_fun : forall h t xs h' xs',
  perfect atom h t xs -> perfect atom h' t xs' -> h = h' /\ xs = xs'.
Proof.
  induction h as [|h IH]; intros t xs h' xs' H H'; destruct h' as [|h']; cbn [perfect] in *.
  - destruct H as [_ ->], H' as [_ ->]. split; reflexivity.
  - destruct H as [Ha _]. destruct H' as (a & b & xa & xb & -> & _).
    unfold atom in Ha. rewrite is_mrg_Mrg in Ha. discriminate.
  - destruct H' as [Ha _]. destruct H as (a & b & xa & xb & -> & _).
    unfold atom in Ha. rewrite is_mrg_Mrg in Ha. discriminate.
  - destruct H as (a & b & xa & xb & -> & Ha & Hb & ->).
    destruct H' as (a' & b' & xa' & xb' & E & Ha' & Hb' & ->).
    apply Mrg_inj in E. destruct E as [<- <-].
    destruct (IH _ _ _ _ Ha Ha') as [<- <-]. destruct (IH _ _ _ _ Hb Hb') as [_ <-].
    split; reflexivity.
Qed.

(* the bagging of two or more mountains is never a perfect tree *)
Lemma bag_not_perfect : forall ms xs, linv atom ms xs -> (2 <= length ms)%nat ->
  forall h' xs', ~ perfect atom h' (bagR (map snd ms)) xs'.
Proof.
  induction 1 as [|h t xs ms ys Hp Hl IH HF]; intros Hlen h' xs' Hperf; cbn [length] in Hlen; [lia|].
  destruct ms as [|[h2 t2] ms2]; [cbn [length] in Hlen; lia|].
  cbn [map snd] in Hperf. rewrite bagR_cons2 in Hperf.
  destruct h' as [|h'']; cbn [perfect] in Hperf.
  - destruct Hperf as [Ha _]. unfold atom in Ha. rewrite is_mrg_Mrg in Ha. discriminate.
  - destruct Hperf as (a & b & xa & xb & E & Ha & Hb & _).
    apply Mrg_inj in E. destruct E as [<- <-].
    destruct (perfect_fun _ _ _ _ _ Hb Hp) as [-> _].
    destruct ms2 as [|m3 ms3].
    + destruct (linv_inv _ _ _ _ _ Hl) as (x2 & y2 & _ & Hp2 & _ & _).
      cbn [bagR] in Ha. destruct (perfect_fun _ _ _ _ _ Ha Hp2) as [<- _].
      inversion HF as [|? ? Hh _]; subst. cbn [fst] in Hh. lia.
    + apply (IH ltac:(cbn [length]; lia) h xa). exact Ha.
Qed.

Lemma bagR_inj : forall ms xs, linv atom ms xs -> forall ms' xs', linv atom ms' xs' ->
  ms <> [] -> ms' <> [] -> bagR (map snd ms) = bagR (map snd ms') -> xs = xs'.
Proof.
  induction 1 as [|h t xs ms ys Hp Hl IH HF]; intros ms' xs' Hl' Hn Hn' E; [contradiction|].
  destruct Hl' as [|h' t' xs0 ms0 ys0 Hp' Hl0 HF']; [contradiction|].
  destruct ms as [|[h2 t2] ms1]; destruct ms0 as [|[h3 t3] ms01].
  - cbn [map snd bagR] in E. subst t'. destruct (perfect_fun _ _ _ _ _ Hp Hp') as [_ <-].
    rewrite (linv_nil_inv _ _ Hl), (linv_nil_inv _ _ Hl0). reflexivity.
  - exfalso. refine (bag_not_perfect ((h', t') :: (h3, t3) :: ms01) _ _ _ h xs _).
    + apply linv_cons; eassumption.
    + cbn [length]; lia.
    + rewrite <- E. exact Hp.
  - exfalso. refine (bag_not_perfect ((h, t) :: (h2, t2) :: ms1) _ _ _ h' xs0 _).
    + apply linv_cons; eassumption.
    + cbn [length]; lia.
    + rewrite E. exact Hp'.
  - cbn [map snd] in E. rewrite !bagR_cons2 in E. apply Mrg_inj in E. destruct E as [EB <-].
    destruct (perfect_fun _ _ _ _ _ Hp Hp') as [_ <-]. f_equal.
    apply (IH _ _ Hl0); [discriminate | discriminate | exact EB].
Qed.

Theorem abs_root_inj xs ys :
  (forall l, In l xs -> atom l) -> (forall l, In l ys -> atom l) -> xs <> [] -> ys <> [] ->
  bagR (map snd (rev (rpeaks xs))) = bagR (map snd (rev (rpeaks ys))) -> xs = ys.
Proof.
  intros Hx Hy Nx Ny E.
  pose proof (rpeaks_rinv atom xs Hx) as Rx. pose proof (rpeaks_rinv atom ys Hy) as Ry.
  apply (bagR_inj _ _ (rinv_linv _ _ _ Rx) _ _ (rinv_linv _ _ _ Ry)); [| |exact E].
  - intros H. apply (f_equal (@rev _)) in H. rewrite rev_involutive in H. cbn [rev] in H.
    rewrite H in Rx. apply rinv_nil_inv in Rx. contradiction.
  - intros H. apply (f_equal (@rev _)) in H. rewrite rev_involutive in H. cbn [rev] in H.
    rewrite H in Ry. apply rinv_nil_inv in Ry. contradiction.
Qed.

(* ------------------------------------------------------------ bagging = bagR *)
Lemma bag_snoc : forall fuel l p, l <> [] -> (length l <= fuel)%nat ->
  bag (S fuel) (l ++ [p]) = option_map (fun B => Mrg B p) (bag fuel l).
Proof.
  induction fuel as [|f IH]; intros l p Hn Hlen.
  - destruct l; [contradiction | cbn [length] in Hlen; lia].
  - destruct l as [|a [|b rest]]; [contradiction | reflexivity |].
    change (bag (S (S f)) ((a :: b :: rest) ++ [p])) with (bag (S f) ((Mrg a b :: rest) ++ [p])).
    rewrite IH; [reflexivity | discriminate | cbn [length] in *; lia].
Qed.

Lemma bagging_bagR : forall ps, ps <> [] -> bagging ps = Some (bagR ps).
Proof.
  unfold bagging. induction ps as [|p rest IH]; intros Hn; [contradiction|].
  destruct rest as [|q r]; [reflexivity|].
  rewrite bagR_cons2. change (rev (p :: q :: r)) with (rev (q :: r) ++ [p]).
  change (length (p :: q :: r)) with (S (length (q :: r))).
  rewrite bag_snoc.
  - rewrite IH by discriminate. reflexivity.
  - intros H. apply (f_equal (@length _)) in H. rewrite rev_length in H. discriminate.
  - rewrite rev_length. lia.
Qed.
