(* C09/MmrComplete.v — completeness of MKTree::compute_proof / MKProof::verify,
   as a finite-domain theorem: every tree of at most 15 leaves (canonical
   distinct leaves BLit [i]) and every non-empty selection of its leaves (in
   increasing order).  The bound is part of the statement; beyond it the
   correspondence run samples sizes up to 500 leaves against the real code. *)
From Coq Require Import Lia.
From MV Require Import Base.Prelude Base.SymHash C09.Mmr.
Open Scope N_scope.

Fixpoint nseqN (start : N) (len : nat) : list N :=
  match len with O => [] | S k => start :: nseqN (start + 1) k end.
Definition canon_leaves (n : nat) : list bt := map (fun i => BLit [i]) (nseqN 0 n).
Fixpoint sublists (l : list N) : list (list N) :=
  match l with
  | [] => [[]]
  | x :: r => let s := sublists r in s ++ map (cons x) s
  end.

(* the generated proof verifies against the committed root and contains exactly the requested leaves *)
Definition complete_at (n : nat) (sel : list N) : bool :=
  match sel with
  | [] => true
  | _ =>
    match mk_compute_proof (canon_leaves n) sel, mmr_root (canon_leaves n) with
    | Ok p, Some r =>
        mk_verify p && bt_eqb (p_root p) r && mk_contains p (map (fun i => BLit [i]) sel)
        && (length (p_leaves p) =? length sel)%nat
    | _, _ => false
    end
  end.
Definition complete_for (n : nat) : bool := forallb (complete_at n) (sublists (nseqN 0 n)).

Lemma complete_upto_15 : forallb complete_for (seq 1 15) = true.
Proof. vm_compute. reflexivity. Qed.

Theorem mmr_complete_bounded : forall n sel, (1 <= n <= 15)%nat -> In sel (sublists (nseqN 0 n)) ->
  complete_at n sel = true.
Proof.
  intros n sel Hn Hin.
  assert (H := complete_upto_15). rewrite forallb_forall in H.
  assert (Hc : complete_for n = true) by (apply H; apply in_seq; lia).
  unfold complete_for in Hc. rewrite forallb_forall in Hc. apply Hc. exact Hin.
Qed.
