(* C09/MmrInjArith.v — position arithmetic of the MMR: for a strictly decreasing
   list of mountain heights [hs] (all < 64), [get_peaks] of the total size gives
   the prefix sums - 1 and [get_peak_map] has exactly the bits in [hs]. *)
From Coq Require Import Lia ZArith.
From MV Require Import Base.Prelude Base.SymHash C09.Mmr.
Open Scope N_scope.

Ltac Zify.zify_post_hook ::= Z.div_mod_to_equations.

Definition p2 (k : nat) : N := 2 ^ N.of_nat k.
Definition pk (k : nat) : N := p2 k - 1.

Lemma p2_S k : p2 (S k) = 2 * p2 k.
Proof. unfold p2. rewrite Nat2N.inj_succ, N.pow_succ_r'. reflexivity. Qed.
Lemma p2_0 : p2 0 = 1.
Proof. reflexivity. Qed.
Lemma p2_pos k : 1 <= p2 k.
Proof. unfold p2. assert (2 ^ N.of_nat k <> 0) by (apply N.pow_nonzero; lia). lia. Qed.
Lemma p2_le k k' : (k <= k')%nat -> p2 k <= p2 k'.
Proof. unfold p2. intros. apply N.pow_le_mono_r; lia. Qed.
Lemma pk_0 : pk 0 = 0.
Proof. reflexivity. Qed.
Lemma pk_S k : pk (S k) = 2 * p2 k - 1.
Proof. unfold pk. rewrite p2_S. reflexivity. Qed.
Lemma pk_S_pos k : 1 <= pk (S k).
Proof. rewrite pk_S. pose proof (p2_pos k). lia. Qed.

Lemma shiftr_pk k : N.shiftr (pk (S k)) 1 = pk k.
Proof.
  rewrite N.shiftr_div_pow2. rewrite pk_S. unfold pk. pose proof (p2_pos k).
  change (2 ^ 1) with 2. lia.
Qed.
Lemma shiftl_p2 k : N.shiftl (p2 k) 1 = p2 (S k).
Proof. rewrite N.shiftl_mul_pow2, p2_S. change (2 ^ 1) with 2. lia. Qed.

(* total size of mountains of the given heights *)
Fixpoint szl (hs : list nat) : N :=
  match hs with [] => 0 | h :: r => pk (S h) + szl r end.
(* strictly decreasing, all below k *)
Fixpoint sdk (k : nat) (hs : list nat) : Prop :=
  match hs with [] => True | h :: r => (h < k)%nat /\ sdk h r end.
Fixpoint memb (j : nat) (hs : list nat) : bool :=
  match hs with [] => false | h :: r => Nat.eqb j h || memb j r end.
(* peak positions, left to right, starting at offset [sum] *)
Fixpoint ppos (sum : N) (hs : list nat) : list N :=
  match hs with [] => [] | h :: r => (sum + pk (S h) - 1) :: ppos (sum + pk (S h)) r end.

Lemma sdk_weaken k k' hs : (k <= k')%nat -> sdk k hs -> sdk k' hs.
Proof. destruct hs; cbn [sdk]; intuition lia. Qed.

Lemma szl_bound : forall hs k, sdk k hs -> szl hs + 2 <= 2 * p2 k.
Proof.
  induction hs as [|h r IH]; intros k H; cbn [szl sdk] in *.
  - pose proof (p2_pos k). lia.
  - destruct H as [Hk Hr]. specialize (IH h Hr). rewrite pk_S.
    assert (H1 : p2 (S h) <= p2 k) by (apply p2_le; lia). rewrite p2_S in H1.
    pose proof (p2_pos h). lia.
Qed.

Lemma memb_sdk : forall hs k j, sdk k hs -> (k <= j)%nat -> memb j hs = false.
Proof.
  induction hs as [|h r IH]; intros k j H Hj; cbn [memb sdk] in *; [reflexivity|].
  destruct H as [Hk Hr]. rewrite (IH h j Hr) by lia.
  destruct (Nat.eqb_spec j h); [lia | reflexivity].
Qed.

Lemma szl_app a b : szl (a ++ b) = szl a + szl b.
Proof. induction a as [|h r IH]; cbn [szl app]; [reflexivity | rewrite IH; lia]. Qed.

Lemma ppos_app : forall a b sum, ppos sum (a ++ b) = ppos sum a ++ ppos (sum + szl a) b.
Proof.
  induction a as [|h r IH]; intros b sum; cbn [ppos szl app].
  - rewrite N.add_0_r. reflexivity.
  - rewrite IH. do 3 f_equal. lia.
Qed.

Lemma memb_app j a b : memb j (a ++ b) = memb j a || memb j b.
Proof. induction a as [|h r IH]; cbn [memb app]; [reflexivity | rewrite IH, orb_assoc; reflexivity]. Qed.
Lemma memb_rev j a : memb j (rev a) = memb j a.
Proof.
  induction a as [|h r IH]; cbn [memb rev]; [reflexivity|].
  rewrite memb_app, IH. cbn [memb]. rewrite orb_false_r, orb_comm. reflexivity.
Qed.

(* ------------------------------------------------------------ get_peaks *)
Lemma peaks_loop_spec : forall k fuel hs sum acc, (k <= fuel)%nat -> sdk k hs ->
  peaks_loop fuel (szl hs) (pk k) sum acc = rev acc ++ ppos sum hs.
Proof.
  induction k as [|k IH]; intros fuel hs sum acc Hf Hs.
  - destruct hs as [|h r]; [|cbn [sdk] in Hs; lia].
    destruct fuel; cbn [peaks_loop ppos]; rewrite ?pk_0; cbn [N.eqb]; rewrite app_nil_r; reflexivity.
  - destruct fuel as [|f]; [lia|]. cbn [peaks_loop].
    pose proof (pk_S_pos k) as Hpos.
    destruct (N.eqb_spec (pk (S k)) 0) as [E|_]; [lia|].
    rewrite shiftr_pk.
    destruct hs as [|h r].
    + cbn [szl]. destruct (N.leb_spec (pk (S k)) 0); [lia|]. apply (IH f [] sum acc); [lia | exact I].
    + destruct Hs as [Hh Hr]. destruct (Nat.eq_dec h k) as [->|Hne].
      * cbn [szl]. destruct (N.leb_spec (pk (S k)) (pk (S k) + szl r)); [|lia].
        replace (pk (S k) + szl r - pk (S k)) with (szl r) by lia.
        rewrite IH; [|lia|exact Hr]. cbn [rev ppos]. rewrite <- app_assoc. reflexivity.
      * assert (Hs' : sdk k (h :: r)) by (cbn [sdk]; split; [lia | exact Hr]).
        pose proof (szl_bound _ _ Hs') as Hb. rewrite pk_S.
        destruct (N.leb_spec (2 * p2 k - 1) (szl (h :: r))); [lia|].
        apply IH; [lia | exact Hs'].
Qed.

(* ------------------------------------------------------------ get_peak_map *)
Lemma shl_lor1 m : N.lor (N.shiftl m 1) 1 = 2 * m + 1.
Proof. destruct m; reflexivity. Qed.
Lemma shl1 m : N.shiftl m 1 = 2 * m.
Proof. destruct m; reflexivity. Qed.

Lemma pmap_loop_spec : forall k fuel hs m j, (k <= fuel)%nat -> sdk k hs ->
  N.testbit (pmap_loop fuel (szl hs) (pk k) m) (N.of_nat j) =
  if (j <? k)%nat then memb j hs else N.testbit m (N.of_nat (j - k)).
Proof.
  induction k as [|k IH]; intros fuel hs m j Hf Hs.
  - destruct hs as [|h r]; [|cbn [sdk] in Hs; lia].
    rewrite Nat.sub_0_r. destruct fuel; cbn [pmap_loop]; rewrite ?pk_0; cbn [N.eqb]; reflexivity.
  - destruct fuel as [|f]; [lia|]. cbn [pmap_loop].
    pose proof (pk_S_pos k) as Hpos.
    destruct (N.eqb_spec (pk (S k)) 0) as [E|_]; [lia|].
    rewrite shiftr_pk, shl_lor1, shl1.
    assert (Hbit : forall (b : bool) hs', sdk k hs' ->
              (forall j', (j' < k)%nat -> memb j' hs' = memb j' hs) -> memb k hs = b ->
              N.testbit (pmap_loop f (szl hs') (pk k) (2 * m + N.b2n b)) (N.of_nat j) =
              if (j <? S k)%nat then memb j hs else N.testbit m (N.of_nat (j - S k))).
    { intros b hs' Hs' Hm Hb. rewrite IH; [|lia|exact Hs'].
      destruct (Nat.ltb_spec j k) as [Hlt|Hge].
      - destruct (Nat.ltb_spec j (S k)); [|lia]. apply Hm. exact Hlt.
      - destruct (Nat.eq_dec j k) as [->|Hne].
        + destruct (Nat.ltb_spec k (S k)); [|lia]. rewrite Nat.sub_diag.
          change (N.of_nat 0) with 0. rewrite N.testbit_0_r. symmetry. exact Hb.
        + destruct (Nat.ltb_spec j (S k)); [lia|].
          replace (j - k)%nat with (S (j - S k)) by lia. rewrite Nat2N.inj_succ.
          apply N.testbit_succ_r. }
    destruct hs as [|h r].
    + cbn [szl]. destruct (N.leb_spec (pk (S k)) 0); [lia|].
      replace (2 * m) with (2 * m + N.b2n false) by apply N.add_0_r.
      apply (Hbit false []); [exact I | reflexivity | reflexivity].
    + destruct Hs as [Hh Hr]. destruct (Nat.eq_dec h k) as [->|Hne].
      * cbn [szl]. destruct (N.leb_spec (pk (S k)) (pk (S k) + szl r)); [|lia].
        replace (pk (S k) + szl r - pk (S k)) with (szl r) by lia.
        apply (Hbit true r); [exact Hr | | cbn [memb]; rewrite Nat.eqb_refl; reflexivity].
        intros j' Hj'. cbn [memb]. destruct (Nat.eqb_spec j' k); [lia | reflexivity].
      * assert (Hs' : sdk k (h :: r)) by (cbn [sdk]; split; [lia | exact Hr]).
        pose proof (szl_bound _ _ Hs') as Hb. rewrite pk_S.
        destruct (N.leb_spec (2 * p2 k - 1) (szl (h :: r))); [lia|].
        replace (2 * m) with (2 * m + N.b2n false) by apply N.add_0_r.
        apply (Hbit false (h :: r)); [exact Hs' | reflexivity|].
        apply (memb_sdk _ k k Hs'). lia.
Qed.

(* ------------------------------------------------------------ the initial mask *)
Lemma szl_zero hs : szl hs = 0 -> hs = [].
Proof. destruct hs as [|h r]; [reflexivity|]. cbn [szl]. pose proof (pk_S_pos h). lia. Qed.

Lemma size_bounds hs : sdk 64 hs -> szl hs <> 0 ->
  exists K, sdk K hs /\ (K <= 70)%nat /\ ones_like (szl hs) = pk K.
Proof.
  intros Hs Hnz. exists (N.to_nat (N.size (szl hs))).
  assert (Hpos : 0 < szl hs) by lia.
  rewrite N.size_log2 by exact Hnz.
  split; [|split].
  - destruct hs as [|h r]; [exact I|]. destruct Hs as [Hh Hr]. split; [|exact Hr].
    assert (H1 : N.of_nat h <= N.log2 (szl (h :: r))).
    { apply N.log2_le_pow2; [exact Hpos|]. cbn [szl]. rewrite pk_S. fold (p2 h).
      pose proof (p2_pos h). lia. }
    lia.
  - pose proof (szl_bound _ _ Hs) as Hb.
    assert (H1 : N.log2 (szl hs) < 65).
    { apply N.log2_lt_pow2; [exact Hpos|]. change (2 ^ 65) with (2 * p2 64). lia. }
    lia.
  - unfold ones_like, pk, p2. rewrite N.size_log2 by exact Hnz. rewrite N2Nat.id. reflexivity.
Qed.

Theorem get_peaks_spec hs : sdk 64 hs -> get_peaks (szl hs) = ppos 0 hs.
Proof.
  intros Hs. unfold get_peaks. destruct (N.eqb_spec (szl hs) 0) as [E|E].
  - rewrite (szl_zero _ E). reflexivity.
  - destruct (size_bounds hs Hs E) as [K [HK [H70 ->]]].
    rewrite peaks_loop_spec; [reflexivity | exact H70 | exact HK].
Qed.

Theorem get_peak_map_spec hs j : sdk 64 hs ->
  N.testbit (get_peak_map (szl hs)) (N.of_nat j) = memb j hs.
Proof.
  intros Hs. unfold get_peak_map. destruct (N.eqb_spec (szl hs) 0) as [E|E].
  - rewrite (szl_zero _ E). apply N.bits_0.
  - destruct (size_bounds hs Hs E) as [K [HK [H70 ->]]].
    rewrite pmap_loop_spec; [|exact H70|exact HK].
    destruct (Nat.ltb_spec j K); [reflexivity|].
    rewrite N.bits_0. symmetry. apply (memb_sdk _ K j HK). lia.
Qed.

(* testing one bit with a power-of-two mask *)
Lemma land_p2 a j : (N.land a (p2 j) =? 0) = negb (N.testbit a (N.of_nat j)).
Proof.
  destruct (N.testbit a (N.of_nat j)) eqn:E; cbn [negb].
  - apply N.eqb_neq. intros H.
    assert (H1 : N.testbit (N.land a (p2 j)) (N.of_nat j) = true).
    { rewrite N.land_spec, E. unfold p2. rewrite N.pow2_bits_true. reflexivity. }
    rewrite H, N.bits_0 in H1. discriminate.
  - apply N.eqb_eq. apply N.bits_inj_0. intros n. rewrite N.land_spec. unfold p2.
    rewrite N.pow2_bits_eqb. destruct (N.eqb_spec (N.of_nat j) n) as [<-|_].
    + rewrite E. reflexivity.
    + apply andb_false_r.
Qed.
