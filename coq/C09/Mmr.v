(* C09/Mmr.v — executable transcription of the ckb-merkle-mountain-range 0.6.1
   functions that decide `MKProof::verify` (internal/mithril-merkle-tree), of the
   generation side (`MMR::push`, `get_root`, `gen_proof`) used by `MKTree`, and
   of `MKProof::{verify,contains}`, `MKMapProof::{verify,contains}`.
   Definitions only.
     helper.rs : pos_height_in_tree, parent_offset, sibling_offset, get_peak_map, get_peaks
     mmr.rs    : push, get_root, bag_rhs_peaks, gen_proof_for_peak, gen_proof,
                 calculate_peak_root, calculate_peaks_hashes (sort_by_key + dedup_by(pos),
                 take_while_vec per peak, rhs item), bagging_peaks_hashes, calculate_root,
                 MerkleProof::verify
   Nodes are ideal terms: a leaf is any term handed in by the caller (raw bytes
   [BLit b] for `MKTreeNode::from(&str)`), `MKTreeNode + MKTreeNode` (Blake2s-256
   of the concatenation) is [Mrg l r].  `Merge::merge_peaks(a, b)` is the default
   `merge(a, b)`.  All positions are u64; the sums below stay under 2^64 whenever
   the code reaches them (positions handed to the queue machine are <= the peak
   position < mmr_size), so N arithmetic needs no Panic outcome here; the
   correspondence run includes u64::MAX-adjacent sizes and positions. *)
From MV Require Import Base.Prelude Base.SymHash.
Open Scope N_scope.

Definition Mrg (l r : bt) : bt := BHash BLAKE2S_256 [l; r].

(* all-ones mask with the bit length of pos: u64::MAX >> pos.leading_zeros() *)
Definition ones_like (pos : N) : N := 2 ^ (N.size pos) - 1.

(* pos_height_in_tree *)
Fixpoint ph_loop (fuel : nat) (pos peak : N) : N :=
  match fuel with
  | O => pos
  | S f => if peak =? 0 then pos else
           let pos' := if peak <=? pos then pos - peak else pos in
           ph_loop f pos' (N.shiftr peak 1)
  end.
Definition pos_height (pos : N) : N := if pos =? 0 then 0 else ph_loop 70 pos (ones_like pos).

Definition parent_offset (h : N) : N := N.shiftl 2 h.
Definition sibling_offset (h : N) : N := N.shiftl 2 h - 1.

(* get_peaks *)
Fixpoint peaks_loop (fuel : nat) (pos peak sum : N) (acc : list N) : list N :=
  match fuel with
  | O => rev acc
  | S f => if peak =? 0 then rev acc else
           if peak <=? pos then peaks_loop f (pos - peak) (N.shiftr peak 1) (sum + peak) ((sum + peak - 1) :: acc)
           else peaks_loop f pos (N.shiftr peak 1) sum acc
  end.
Definition get_peaks (size : N) : list N := if size =? 0 then [] else peaks_loop 70 size (ones_like size) 0 [].

(* get_peak_map *)
Fixpoint pmap_loop (fuel : nat) (pos peak m : N) : N :=
  match fuel with
  | O => m
  | S f => if peak =? 0 then m else
           let m2 := N.shiftl m 1 in
           if peak <=? pos then pmap_loop f (pos - peak) (N.shiftr peak 1) (N.lor m2 1)
           else pmap_loop f pos (N.shiftr peak 1) m2
  end.
Definition get_peak_map (size : N) : N := if size =? 0 then 0 else pmap_loop 70 size (ones_like size) 0.

(* ---------------------------------------------------------------- generation side *)
(* store: position -> node, in insertion order *)
Definition store := list (N * bt).
Definition get (s : store) (p : N) : option bt :=
  match find (fun e => fst e =? p) s with Some e => Some (snd e) | None => None end.

(* MMR::push: returns (store, new mmr_size, position of the leaf) *)
Fixpoint push_loop (fuel : nat) (s : store) (pmap peak pos : N) (last : bt) : store * N :=
  match fuel with
  | O => (s, pos)
  | S f => if N.land pmap peak =? 0 then (s, pos) else
           let peak' := N.shiftl peak 1 in
           let pos' := pos + 1 in
           match get s (pos' - peak') with
           | Some l => let p := Mrg l last in push_loop f (s ++ [(pos', p)]) pmap peak' pos' p
           | None => (s, pos)
           end
  end.
Definition push (s : store) (size : N) (x : bt) : store * N * N :=
  let '(s', pos) := push_loop 70 (s ++ [(size, x)]) (get_peak_map size) 1 size x in
  (s', pos + 1, size).

(* MKTree::new: push every leaf; returns (store, mmr_size, leaf positions) *)
Fixpoint build (xs : list bt) (s : store) (size : N) (poss : list N) : store * N * list N :=
  match xs with
  | [] => (s, size, rev poss)
  | x :: r => let '(s', size', p) := push s size x in build r s' size' (p :: poss)
  end.
Definition mmr_build (xs : list bt) : store * N * list N := build xs [] 0 [].

(* bagging_peaks_hashes / bag_rhs_peaks: pop right, pop left, push merge_peaks(right, left) *)
Fixpoint bag (fuel : nat) (ps : list bt) : option bt :=   (* ps reversed: head = last element *)
  match fuel with O => None | S f =>
  match ps with
  | [] => None
  | [x] => Some x
  | r :: l :: rest => bag f (Mrg r l :: rest)
  end end.
Definition bagging (peaks_hashes : list bt) : option bt := bag (S (length peaks_hashes)) (rev peaks_hashes).

Fixpoint get_all (s : store) (ps : list N) : option (list bt) :=
  match ps with
  | [] => Some []
  | p :: r => match get s p, get_all s r with Some x, Some a => Some (x :: a) | _, _ => None end
  end.

(* MMR::get_root *)
Definition mmr_root_of (s : store) (size : N) : option bt :=
  if size =? 0 then None else if size =? 1 then get s 0 else
  match get_all s (get_peaks size) with Some ps => bagging ps | None => None end.
Definition mmr_root (xs : list bt) : option bt :=
  let '(s, size, _) := mmr_build xs in mmr_root_of s size.

(* gen_proof_for_peak: queue of (pos, height); emits sibling nodes *)
Fixpoint gen_peak (fuel : nat) (s : store) (queue : list (N * N)) (peak : N) (acc : list bt) : result (list bt) :=
  match fuel with O => Err | S f =>
  match queue with
  | [] => Ok acc
  | (pos, h) :: q =>
    if pos =? peak then (match q with [] => Ok acc | _ => Err end) else
    let nh := pos_height (pos + 1) in
    let so := sibling_offset h in
    let right := h <? nh in
    let sib := if right then pos - so else pos + so in
    let ppos := if right then pos + 1 else pos + parent_offset h in
    let step (q' : list (N * N)) (acc' : list bt) :=
      gen_peak f s (if ppos <? peak then q' ++ [(ppos, h + 1)] else q') peak acc' in
    match q with
    | (p2, _) :: q2 =>
        if p2 =? sib then step q2 acc
        else match get s sib with Some x => step q (acc ++ [x]) | None => Err end
    | [] => match get s sib with Some x => step q (acc ++ [x]) | None => Err end
    end
  end end.

Fixpoint take_le_pos (peak : N) (l : list N) : list N * list N :=
  match l with
  | x :: r => if x <=? peak then let '(a, b) := take_le_pos peak r in (x :: a, b) else ([], l)
  | [] => ([], [])
  end.

Fixpoint insN (e : N) (l : list N) : list N :=
  match l with [] => [e] | x :: r => if e <? x then e :: l else x :: insN e r end.
Definition sortN (l : list N) : list N := fold_left (fun acc e => insN e acc) l [].
Fixpoint dedupN_aux (prev : N) (l : list N) : list N :=
  match l with [] => [] | x :: r => if x =? prev then dedupN_aux prev r else x :: dedupN_aux x r end.
Definition dedupN (l : list N) : list N := match l with [] => [] | x :: r => x :: dedupN_aux x r end.

(* the per-peak loop of gen_proof: (proof, remaining positions, bagging_track) *)
Fixpoint gen_peaks (s : store) (peaks : list N) (pos_list : list N) (proof : list bt) (track : nat)
  : result (list bt * list N * nat) :=
  match peaks with
  | [] => Ok (proof, pos_list, track)
  | pk :: rest =>
    let '(pl, pos_list') := take_le_pos pk pos_list in
    let track' := match pl with [] => S track | _ => O end in
    let r :=
      match pl with
      | [] => match get s pk with Some x => Ok (proof ++ [x]) | None => Err end
      | [p] => if p =? pk then Ok proof
               else gen_peak (66 * (S (length pl))) s (map (fun p => (p, 0)) pl) pk proof
      | _ => gen_peak (66 * (S (length pl))) s (map (fun p => (p, 0)) pl) pk proof
      end in
    match r with
    | Ok proof' => gen_peaks s rest pos_list' proof' track'
    | Err => Err | Panic => Panic
    end
  end.

(* MMR::gen_proof *)
Definition gen_proof (s : store) (size : N) (pos_list : list N) : result (list bt) :=
  match pos_list with
  | [] => Err
  | _ =>
    if (size =? 1) && (match pos_list with [0] => true | _ => false end) then Ok [] else
    if existsb (fun p => 0 <? pos_height p) pos_list then Err else
    match gen_peaks s (get_peaks size) (dedupN (sortN pos_list)) [] O with
    | Ok (proof, [], track) =>
        if (1 <? track)%nat then
          let k := (length proof - track)%nat in
          match bagging (skipn k proof) with
          | Some b => Ok (firstn k proof ++ [b])
          | None => Err
          end
        else Ok proof
    | Ok _ => Err
    | Err => Err | Panic => Panic
    end
  end.

(* ---------------------------------------------------------------- verification side *)
(* calculate_peak_root: queue machine on (pos, item, height) *)
Fixpoint peak_root (fuel : nat) (queue : list (N * bt * N)) (peak : N) (proof : list bt) : result (bt * list bt) :=
  match fuel with O => Err | S f =>
  match queue with
  | [] => Err
  | (pos, item, h) :: q =>
    if pos =? peak then (match q with [] => Ok (item, proof) | _ => Err end) else
    let nh := pos_height (pos + 1) in
    let so := sibling_offset h in
    let right := h <? nh in
    let sib := if right then pos - so else pos + so in
    let ppos := if right then pos + 1 else pos + parent_offset h in
    let take_sib :=
      match q with
      | (p2, it2, _) :: q2 => if p2 =? sib then Some (it2, q2, proof) else
                               (match proof with x :: pr => Some (x, q, pr) | [] => None end)
      | [] => match proof with x :: pr => Some (x, q, pr) | [] => None end
      end in
    match take_sib with
    | None => Err
    | Some (sitem, q', proof') =>
      let pitem := if right then Mrg sitem item else Mrg item sitem in
      if ppos <=? peak then peak_root f (q' ++ [(ppos, pitem, h + 1)]) peak proof' else Err
    end
  end end.

(* leaves.sort_by_key(pos) (stable) ; leaves.dedup_by(|a, b| a.0 == b.0) (keeps the first of a run) *)
Fixpoint ins (e : N * bt) (l : list (N * bt)) : list (N * bt) :=
  match l with [] => [e] | x :: r => if fst e <? fst x then e :: l else x :: ins e r end.
Definition sort_pos (l : list (N * bt)) := fold_left (fun acc e => ins e acc) l [].
Fixpoint dedup_aux (prev : N) (l : list (N * bt)) : list (N * bt) :=
  match l with
  | [] => []
  | x :: r => if fst x =? prev then dedup_aux prev r else x :: dedup_aux (fst x) r
  end.
Definition dedup (l : list (N * bt)) : list (N * bt) :=
  match l with [] => [] | x :: r => x :: dedup_aux (fst x) r end.

(* take_while_vec(&mut leaves, |(pos, _)| *pos <= peak_pos) *)
Fixpoint take_le (peak : N) (l : list (N * bt)) : list (N * bt) * list (N * bt) :=
  match l with
  | x :: r => if fst x <=? peak then let '(a, b) := take_le peak r in (x :: a, b) else ([], l)
  | [] => ([], [])
  end.

Definition pr_fuel (ls : list (N * bt)) : nat := 66 * S (length ls).

(* the per-peak loop of calculate_peaks_hashes: (peaks_hashes, remaining leaves, remaining proof) *)
Fixpoint peaks_hashes (peaks : list N) (leaves : list (N * bt)) (proof : list bt) (acc : list bt)
  : result (list bt * list (N * bt) * list bt) :=
  match peaks with
  | [] => Ok (rev acc, leaves, proof)
  | pk :: rest =>
    let '(ls, leaves') := take_le pk leaves in
    match ls with
    | [(p, it)] => if p =? pk then peaks_hashes rest leaves' proof (it :: acc)
                   else match peak_root (pr_fuel ls) [(p, it, 0)] pk proof with
                        | Ok (r, proof') => peaks_hashes rest leaves' proof' (r :: acc)
                        | Err => Err | Panic => Panic end
    | [] => match proof with
            | x :: pr => peaks_hashes rest leaves' pr (x :: acc)
            | [] => Ok (rev acc, leaves', proof)      (* break *)
            end
    | _ => match peak_root (pr_fuel ls) (map (fun e => (fst e, snd e, 0)) ls) pk proof with
           | Ok (r, proof') => peaks_hashes rest leaves' proof' (r :: acc)
           | Err => Err | Panic => Panic end
    end
  end.

(* calculate_peaks_hashes after the two early exits, then bagging *)
Definition calc_core (size : N) (leaves : list (N * bt)) (proof : list bt) : result bt :=
  match peaks_hashes (get_peaks size) (dedup (sort_pos leaves)) proof [] with
  | Ok (ph, [], pr) =>
      let ph' := match pr with [] => Some ph | [x] => Some (ph ++ [x]) | _ => None end in
      match ph' with
      | Some l => (match bagging l with Some r => Ok r | None => Err end)
      | None => Err
      end
  | Ok _ => Err
  | Err => Err | Panic => Panic
  end.

(* calculate_root *)
Definition calc_root (size : N) (leaves : list (N * bt)) (proof : list bt) : result bt :=
  if existsb (fun e => 0 <? pos_height (fst e)) leaves then Err else
  match leaves with
  | [(0, it)] => if size =? 1 then Ok it else calc_core size leaves proof
  | _ => calc_core size leaves proof
  end.

(* ---------------------------------------------------------------- MKProof *)
Record mkproof := { p_root : bt; p_leaves : list (N * bt); p_size : N; p_items : list bt }.

(* MKProof::verify (after the fix of finding C09-dup-pos): entries claiming the same
   position must carry the same leaf; then MerkleProof::verify. *)
Definition positions_consistent (leaves : list (N * bt)) : bool :=
  forallb (fun e => forallb (fun e' => negb (fst e =? fst e') || bt_eqb (snd e) (snd e')) leaves) leaves.

Definition ckb_verify (p : mkproof) : bool :=
  match calc_root (p_size p) (p_leaves p) (p_items p) with
  | Ok r => bt_eqb r (p_root p)
  | _ => false
  end.

Definition mk_verify (p : mkproof) : bool :=
  positions_consistent (p_leaves p) && ckb_verify p.

(* MKProof::contains *)
Definition mk_contains (p : mkproof) (xs : list bt) : bool :=
  forallb (fun x => existsb (fun e => bt_eqb (snd e) x) (p_leaves p)) xs.

(* MKTree::compute_proof for leaves given by their positions *)
Definition mk_compute_proof (xs : list bt) (sel : list N) : result mkproof :=
  let '(s, size, poss) := mmr_build xs in
  match mmr_root_of s size with
  | None => Err
  | Some root =>
    let ps := map (fun i => nth (N.to_nat i) poss 0) sel in
    match gen_proof s size ps with
    | Ok items =>
        Ok {| p_root := root;
              p_leaves := map (fun i => (nth (N.to_nat i) poss 0, nth (N.to_nat i) xs (BLit []))) sel;
              p_size := size; p_items := items |}
    | Err => Err | Panic => Panic
    end
  end.

(* ---------------------------------------------------------------- MKMapProof *)
Inductive mapproof := MapProof (master : mkproof) (subs : list (bt * mapproof)).

Definition map_root (p : mapproof) : bt := match p with MapProof m _ => p_root m end.

Fixpoint map_verify (p : mapproof) : bool :=
  match p with
  | MapProof m subs =>
      (fix all (l : list (bt * mapproof)) : bool :=
         match l with [] => true | (_, q) :: r => map_verify q && all r end) subs
      && mk_verify m
      && match subs with
         | [] => true
         | _ => mk_contains m (map (fun kq => Mrg (fst kq) (map_root (snd kq))) subs)
         end
  end.

Fixpoint map_contains (p : mapproof) (x : bt) : bool :=
  match p with
  | MapProof m subs =>
      mk_contains m [x] ||
      (fix any (l : list (bt * mapproof)) : bool :=
         match l with [] => false | (_, q) :: r => map_contains q x || any r end) subs
  end.
