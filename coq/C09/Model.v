(* C09/Model.v — re-exports the two executable models and defines the
   [run_*] functions the correspondence cases call.  Definitions only. *)
From MV Require Export Base.Prelude Base.SymHash C09.StmTree C09.Mmr C09.RawLeaf.
Open Scope N_scope.

(* ------------------------------------------------------------------ STM side
   A case describes digests symbolically; the harness knows which committed
   node every honest value is (dictionary built from the real tree). *)
Inductive sspec :=
| SN (p : N)                      (* the committed node at heap position p *)
| SLf (payload : list N)          (* digest of a leaf payload *)
| SNd (a b : sspec)               (* digest of two digests *)
| SJunk (k : N)                   (* 32 fresh random bytes, tag k *)
| SRootRepl (q : N) (x : list N). (* root of the tree over L with leaf q replaced by x *)

Definition junk (k : N) : bt := BHex (BLit [k]).
Definition payloads (L : list (list N)) : list bt := map BLit L.

(* compact description of the committed leaves of a case: leaf i of the tree tagged [tag] *)
Definition gl (kind tag i : N) : list N := [kind; tag / 256; tag mod 256; i / 256; i mod 256].
Fixpoint nseq (start : N) (len : nat) : list N :=
  match len with O => [] | S k => start :: nseq (start + 1) k end.
Definition gl_list (kind tag n : N) : list (list N) := map (gl kind tag) (nseq 0 (N.to_nat n)).

Fixpoint replace_nth {A} (q : nat) (x : A) (l : list A) : list A :=
  match l, q with
  | [], _ => []
  | _ :: r, O => x :: r
  | a :: r, S q' => a :: replace_nth q' x r
  end.

Fixpoint sden (L : list (list N)) (t : tree) (s : sspec) : bt :=
  match s with
  | SN p => node_at t p
  | SLf x => LeafH (BLit x)
  | SNd a b => Node (sden L t a) (sden L t b)
  | SJunk k => junk k
  | SRootRepl q x => mt_root (mk_tree (payloads (replace_nth (N.to_nat q) x L)))
  end.

Definition verdict (r : result bool) : obs :=
  match r with
  | Ok true => OZ 0
  | Ok false | Err => OZ 1
  | Panic => OZ 2
  end.

(* verification of (leaves, path values, indices) against the commitment
   (root described by [rt], claimed number of leaves [nrl]) of the tree over L *)
Definition run_stm_verify (L : list (list N)) (rt : sspec) (nrl : N)
    (leaves : list (list N)) (vals : list sspec) (idxs : list N) : obs :=
  let t := mk_tree (payloads L) in
  verdict (ver_bpath (sden L t rt) nrl (payloads leaves) (map (sden L t) vals) idxs).

(* canonical name of a digest: the first heap position holding it *)
Definition all_nodes (t : tree) : list bt :=
  map (node_at t) (nseq 0 (N.to_nat (nr_nodes (t_n t)))).
Definition canon (nodes : list bt) (v : bt) : obs :=
  match index_of v nodes 0 with Some i => ON i | None => OZ (-1) end.

(* generation: Panic, or (canonical positions of the emitted values, indices) *)
Definition run_stm_gen (L : list (list N)) (idxs : list N) : obs :=
  match mt_build (payloads L) with
  | Ok t =>
      match gen_bpath t idxs with
      | Ok (vals, ix) => let ns := all_nodes t in OL [OZ 0; OL (map (canon ns) vals); OLN ix]
      | _ => OL [OZ 2]
      end
  | _ => OL [OZ 2]
  end.

(* generate then verify with the honest leaves: one term per (L, idxs) *)
Definition run_stm_honest (L : list (list N)) (idxs : list N) : obs :=
  match mt_build (payloads L) with
  | Ok t =>
      match gen_bpath t idxs with
      | Ok (vals, ix) =>
          verdict (ver_bpath (mt_root t) (t_n t) (map (fun i => nth (N.to_nat i) (payloads L) (BLit [])) ix) vals ix)
      | _ => OZ 2
      end
  | _ => OZ 2
  end.

(* ------------------------------------------------------------------ MMR side
   A forest is the list of committed trees of a case: tree 0 alone for MKProof
   cases; for MKMapProof cases tree 0 is the master tree over the leaves
   `key + root_i` and tree i+1 is the tree of range i. *)
Inductive mspec :=
| MN (t p : N)                    (* node at MMR position p of committed tree t *)
| MRaw (b : list N)               (* raw leaf bytes *)
| MMrg (a b : mspec)              (* digest of two nodes *)
| MJunk (k : N)                   (* 32 fresh random bytes, tag k *)
| MBag (t k : N).                 (* bagging of the peaks k.. of tree t (rhs item of a proof) *)

Record tinfo := { ti_store : store; ti_size : N; ti_pos : list N; ti_root : bt }.
Definition mk_tinfo (xs : list bt) : tinfo :=
  let '(s, size, poss) := mmr_build xs in
  {| ti_store := s; ti_size := size; ti_pos := poss;
     ti_root := match mmr_root_of s size with Some r => r | None => junk 0 end |}.
Definition forest := list tinfo.
Definition no_tree : tinfo := {| ti_store := []; ti_size := 0; ti_pos := []; ti_root := junk 0 |}.
Definition tree_of (f : forest) (t : N) : tinfo := nth (N.to_nat t) f no_tree.

Definition bag_from (ti : tinfo) (k : N) : option bt :=
  match get_all (ti_store ti) (skipn (N.to_nat k) (get_peaks (ti_size ti))) with
  | Some ps => bagging ps
  | None => None
  end.

Fixpoint mden (f : forest) (s : mspec) : bt :=
  match s with
  | MN t p => match get (ti_store (tree_of f t)) p with Some x => x | None => junk 1 end
  | MRaw b => BLit b
  | MMrg a b => Mrg (mden f a) (mden f b)
  | MJunk k => junk k
  | MBag t k => match bag_from (tree_of f t) k with Some x => x | None => junk 2 end
  end.

Inductive pspec := PS (root : mspec) (leaves : list (N * mspec)) (size : N) (items : list mspec).
Definition pden (f : forest) (p : pspec) : mkproof :=
  match p with
  | PS r l sz it => {| p_root := mden f r; p_leaves := map (fun e => (fst e, mden f (snd e))) l;
                       p_size := sz; p_items := map (mden f) it |}
  end.

Inductive mpspec := MPS (m : pspec) (subs : list (list N * mpspec)).
Fixpoint mpden (f : forest) (p : mpspec) : mapproof :=
  match p with
  | MPS m subs =>
      MapProof (pden f m)
        ((fix go (l : list (list N * mpspec)) : list (bt * mapproof) :=
            match l with [] => [] | (k, q) :: r => (BLit k, mpden f q) :: go r end) subs)
  end.

Definition forest_single (L : list (list N)) : forest := [mk_tinfo (payloads L)].
Definition forest_map (ranges : list (list N * list (list N))) : forest :=
  let subs := map (fun r => mk_tinfo (payloads (snd r))) ranges in
  mk_tinfo (map (fun rs => Mrg (BLit (fst (fst rs))) (ti_root (snd rs))) (combine ranges subs)) :: subs.

(* MKProof::verify and MKProof::contains(&[x]) for each query, byte-faithful (RawLeaf.v:
   raw sibling leaves are hashed as their concatenation) *)
Definition run_mk (L : list (list N)) (p : pspec) (xs : list mspec) : obs :=
  let f := forest_single L in
  let pr := pden f p in
  OL [OB (mk_verify_b pr); OL (map (fun x => OB (mk_contains_b pr [mden f x])) xs)].

(* the same, then `contains` of several leaves at once: contains(&qs) for every qs of [xss] *)
Definition run_mk_multi (L : list (list N)) (p : pspec) (xs : list mspec) (xss : list (list mspec)) : obs :=
  let f := forest_single L in
  let pr := pden f p in
  OL [OB (mk_verify_b pr); OL (map (fun x => OB (mk_contains_b pr [mden f x])) xs);
      OL (map (fun qs => OB (mk_contains_b pr (map (mden f) qs))) xss)].

(* canonical name of a generated proof item: a store position, else a bagging *)
Definition canon_item (ti : tinfo) (v : bt) : obs :=
  match find (fun e => bt_eqb (snd e) v) (ti_store ti) with
  | Some e => OL [OZ 0; ON (fst e)]
  | None =>
      match find (fun k => match bag_from ti k with Some b => bt_eqb b v | None => false end)
                 (nseq 0 (length (get_peaks (ti_size ti)))) with
      | Some k => OL [OZ 1; ON k]
      | None => OL [OZ 2]
      end
  end.

(* MKTree::new + compute_root + compute_proof for the leaves with indices sel *)
Definition run_mk_gen (L : list (list N)) (sel : list N) : obs :=
  let xs := payloads L in
  match mk_compute_proof xs sel with
  | Ok p =>
      let ti := mk_tinfo xs in
      OL [OZ 0; OL (map (fun e => ON (fst e)) (p_leaves p)); ON (p_size p);
          OL (map (canon_item ti) (p_items p)); OB (mk_verify_b p)]
  | _ => OL [OZ 1]
  end.

(* MKMapProof::verify and MKMapProof::contains(x) for each query *)
Definition run_map (ranges : list (list N * list (list N))) (p : mpspec) (xs : list mspec) : obs :=
  let f := forest_map ranges in
  let pr := mpden f p in
  OL [OB (map_verify_b pr); OL (map (fun x => OB (map_contains_b pr (mden f x))) xs)].
