(* C09/StmComplete.v — completeness of the STM batch path for every tree size:
   for a non-empty strictly increasing in-range index list the generated path
   verifies against the commitment.  Generator and verifier are two walks over
   the same index list with the same look-ahead; per level the verifier's input
   digests are the committed nodes of the index list and the unread values are
   exactly what the generator emitted for the remaining levels. *)
From Coq Require Import Lia.
From MV Require Import Base.Prelude Base.SymHash C09.StmTree C09.StmProofs.
Open Scope N_scope.
Ltac Zify.zify_post_hook ::= Z.div_mod_to_equations.

Section Complete.
  Variable T : N -> bt.
  Variable nr : N.
  Variable internal : N -> Prop.
  Hypothesis T_int : forall p, internal p -> T p = Node (T (2 * p + 1)) (T (2 * p + 2)).
  Hypothesis T_pad : forall i, nr <= i -> T i = zpad.

  Definition withT (l : list N) : list (N * bt) := map (fun i => (i, T i)) l.

  Lemma level_complete : forall (k : nat) idxs rest,
    (length idxs <= k)%nat ->
    (forall i, In i idxs -> i <> 0 /\ internal (par i)) ->
    level nr (withT idxs) (map T (snd (gen_level nr idxs)) ++ rest)
      = Ok (withT (fst (gen_level nr idxs)), rest).
  Proof.
    induction k as [|k IH]; intros idxs rest Hlen Hok.
    - destruct idxs; [reflexivity | simpl in Hlen; lia].
    - destruct idxs as [|i tl]; [reflexivity|].
      assert (Hi : i <> 0 /\ internal (par i)) by (apply Hok; left; reflexivity).
      destruct Hi as [Hi0 Hint].
      assert (Htl : forall j, In j tl -> j <> 0 /\ internal (par j)) by (intros j Hj; apply Hok; right; exact Hj).
      simpl in Hlen.
      cbn [withT map level gen_level]. fold (withT tl).
      destruct (i =? 0) eqn:E0; [apply N.eqb_eq in E0; contradiction|].
      destruct (N.even i) eqn:Ev.
      + destruct (gen_level nr tl) as [ps em] eqn:Eg. cbn [snd fst map app].
        specialize (IH tl rest ltac:(lia) Htl). rewrite Eg in IH. cbn [snd fst] in IH. rewrite IH.
        cbn [withT map]. do 3 f_equal.
        rewrite (T_int _ Hint).
        assert (Hev : 2 * par i + 2 = i) by (apply par_even; assumption).
        replace (i - 1) with (2 * par i + 1) by lia. rewrite Hev. unfold withT. reflexivity.
      + assert (Hodd : 2 * par i + 1 = i) by (apply par_odd; assumption).
        destruct tl as [|i2 tl2].
        * cbn [withT map]. destruct (i + 1 <? nr) eqn:Es; cbn [snd fst map app level].
          -- cbn [withT map]. rewrite (T_int _ Hint). rewrite Hodd. replace (2 * par i + 2) with (i + 1) by lia. unfold withT. reflexivity.
          -- cbn [withT map]. rewrite (T_int _ Hint). apply N.ltb_ge in Es.
             rewrite Hodd. replace (2 * par i + 2) with (i + 1) by lia. rewrite (T_pad (i + 1)) by exact Es. unfold withT. reflexivity.
        * cbn [withT map]. fold (withT tl2).
          destruct (i2 =? i + 1) eqn:E2.
          -- apply N.eqb_eq in E2. subst i2.
             destruct (gen_level nr tl2) as [ps em] eqn:Eg. cbn [snd fst].
             assert (Htl2 : forall j, In j tl2 -> j <> 0 /\ internal (par j)) by (intros j Hj; apply Htl; right; exact Hj).
             specialize (IH tl2 rest ltac:(simpl in Hlen; lia) Htl2). rewrite Eg in IH. cbn [snd fst] in IH. rewrite IH.
             cbn [withT map fst snd]. rewrite (T_int _ Hint). rewrite Hodd. replace (2 * par i + 2) with (i + 1) by lia. unfold withT. reflexivity.
          -- destruct (gen_level nr (i2 :: tl2)) as [ps em] eqn:Eg.
             assert (IH' := IH (i2 :: tl2) rest ltac:(simpl in Hlen |- *; lia) Htl). rewrite Eg in IH'. cbn [snd fst] in IH'.
             change (withT (i2 :: tl2)) with ((i2, T i2) :: withT tl2) in IH'.
             destruct (i + 1 <? nr) eqn:Es; cbn [snd fst map app].
             ++ rewrite IH'. cbn [withT map fst snd]. rewrite (T_int _ Hint). rewrite Hodd. replace (2 * par i + 2) with (i + 1) by lia. unfold withT. reflexivity.
             ++ rewrite IH'. cbn [withT map fst snd]. rewrite (T_int _ Hint). apply N.ltb_ge in Es.
                rewrite Hodd. replace (2 * par i + 2) with (i + 1) by lia. rewrite (T_pad (i + 1)) by exact Es. unfold withT. reflexivity.
  Qed.
End Complete.

(* strictly increasing lists *)
Fixpoint lb (a : N) (l : list N) : Prop := match l with [] => True | x :: r => a < x /\ lb x r end.
Definition inc (l : list N) : Prop := match l with [] => True | x :: r => lb x r end.

Lemma gen_level_head nr i r : exists ps, fst (gen_level nr (i :: r)) = par i :: ps.
Proof.
  cbn [gen_level]. destruct (N.even i).
  - destruct (gen_level nr r) as [ps em]. eexists; reflexivity.
  - destruct r as [|i2 r2]; [eexists; reflexivity|].
    destruct (i2 =? i + 1).
    + destruct (gen_level nr r2) as [ps em]. eexists; reflexivity.
    + destruct (gen_level nr (i2 :: r2)) as [ps em]. eexists; reflexivity.
Qed.

Lemma gen_level_inc nr : forall (k : nat) idxs, (length idxs <= k)%nat ->
  inc idxs -> (forall i, In i idxs -> i <> 0) -> inc (fst (gen_level nr idxs)).
Proof.
  induction k as [|k IH]; intros idxs Hlen Hinc Hnz.
  - destruct idxs; [exact I | simpl in Hlen; lia].
  - destruct idxs as [|i tl]; [exact I|]. simpl in Hlen.
    assert (Hi : i <> 0) by (apply Hnz; left; reflexivity).
    assert (Htlnz : forall j, In j tl -> j <> 0) by (intros j Hj; apply Hnz; right; exact Hj).
    cbn [gen_level]. destruct (N.even i) eqn:Ev.
    + assert (Hinc' : inc tl) by (destruct tl as [|j r]; [exact I | simpl in Hinc; destruct Hinc as [_ H]; exact H]).
      assert (IHt := IH tl ltac:(lia) Hinc' Htlnz).
      destruct tl as [|j r].
      * simpl. exact I.
      * destruct (gen_level_head nr j r) as [ps Hps]. destruct (gen_level nr (j :: r)) as [ps0 em] eqn:Eg.
        simpl in Hps. subst ps0. simpl. simpl in IHt. split; [|exact IHt].
        simpl in Hinc. destruct Hinc as [Hlt _].
        apply N.even_spec in Ev. destruct Ev as [m Hm]. unfold par. lia.
    + assert (Ho : N.odd i = true) by (rewrite <- N.negb_even, Ev; reflexivity).
      apply N.odd_spec in Ho. destruct Ho as [m Hm].
      destruct tl as [|i2 tl2]; [simpl; exact I|].
      simpl in Hinc. destruct Hinc as [Hlt Hinc2].
      destruct (i2 =? i + 1) eqn:E2.
      * apply N.eqb_eq in E2.
        assert (Hinc' : inc tl2) by (destruct tl2 as [|j r]; [exact I | simpl in Hinc2; destruct Hinc2 as [_ H]; exact H]).
        assert (IHt := IH tl2 ltac:(simpl in Hlen; lia) Hinc' ltac:(intros j Hj; apply Htlnz; right; exact Hj)).
        destruct tl2 as [|j r].
        -- simpl. exact I.
        -- destruct (gen_level_head nr j r) as [ps Hps]. destruct (gen_level nr (j :: r)) as [ps0 em] eqn:Eg.
           simpl in Hps. subst ps0. simpl. simpl in IHt. split; [|exact IHt].
           simpl in Hinc2. destruct Hinc2 as [Hlt2 _]. unfold par. lia.
      * apply N.eqb_neq in E2.
        assert (IHt := IH (i2 :: tl2) ltac:(simpl in Hlen |- *; lia) Hinc2 Htlnz).
        destruct (gen_level_head nr i2 tl2) as [ps Hps]. destruct (gen_level nr (i2 :: tl2)) as [ps0 em] eqn:Eg.
        simpl in Hps. subst ps0. simpl. simpl in IHt. split; [|exact IHt]. unfold par. lia.
Qed.

Lemma gen_level_in nr : forall (k : nat) idxs p, (length idxs <= k)%nat ->
  In p (fst (gen_level nr idxs)) -> exists i, In i idxs /\ p = par i.
Proof.
  induction k as [|k IH]; intros idxs p Hlen Hin.
  - destruct idxs; [contradiction | simpl in Hlen; lia].
  - destruct idxs as [|i tl]; [contradiction|]. simpl in Hlen. cbn [gen_level] in Hin.
    destruct (N.even i).
    + destruct (gen_level nr tl) as [ps em] eqn:Eg. simpl in Hin. destruct Hin as [<-|Hin]; [exists i; split; [left; reflexivity | reflexivity]|].
      destruct (IH tl p ltac:(lia)) as [j [Hj Hp]]; [rewrite Eg; exact Hin|]. exists j. split; [right; exact Hj | exact Hp].
    + destruct tl as [|i2 tl2].
      * simpl in Hin. destruct Hin as [<-|[]]. exists i; split; [left; reflexivity | reflexivity].
      * destruct (i2 =? i + 1).
        -- destruct (gen_level nr tl2) as [ps em] eqn:Eg. simpl in Hin. destruct Hin as [<-|Hin]; [exists i; split; [left; reflexivity | reflexivity]|].
           destruct (IH tl2 p ltac:(simpl in Hlen; lia)) as [j [Hj Hp]]; [rewrite Eg; exact Hin|]. exists j. split; [right; right; exact Hj | exact Hp].
        -- destruct (gen_level nr (i2 :: tl2)) as [ps em] eqn:Eg. simpl in Hin. destruct Hin as [<-|Hin]; [exists i; split; [left; reflexivity | reflexivity]|].
           destruct (IH (i2 :: tl2) p ltac:(simpl in Hlen |- *; lia)) as [j [Hj Hp]]; [rewrite Eg; exact Hin|]. exists j. split; [right; exact Hj | exact Hp].
Qed.

Lemma depth_par i : i <> 0 -> depth i = S (depth (par i)).
Proof.
  intros Hi. destruct (N.even i) eqn:Ev.
  - assert (H : i = 2 * par i + 2) by (symmetry; apply par_even; assumption). rewrite H at 1. apply depth_r.
  - assert (H : i = 2 * par i + 1) by (symmetry; apply par_odd; assumption). rewrite H at 1. apply depth_l.
Qed.
Lemma depth_0 i : depth i = 0%nat -> i = 0.
Proof.
  unfold depth. intros H. assert (Hl : N.log2 (i + 1) = 0) by lia.
  apply N.log2_null in Hl. lia.
Qed.

Section Whole.
  Variable L : list bt.
  Let n := N.of_nat (length L).
  Let D := treeD n.
  Let NR := nr_nodes n.
  Let TT := T L.
  Definition internal (p : N) : Prop := (depth p < D)%nat.

  Lemma loop_complete : forall (d fuel : nat) idxs rest i0 tl,
    idxs = i0 :: tl -> inc idxs -> (forall i, In i idxs -> depth i = d) -> (d <= D)%nat -> (d < fuel)%nat ->
    loop fuel NR i0 (withT TT idxs) (map TT (gen_em fuel NR i0 idxs) ++ rest) = Ok (withT TT [0], rest).
  Proof.
    induction d as [|d IH]; intros fuel idxs rest i0 tl Hid Hinc Hdep HdD Hfuel.
    - destruct fuel as [|f]; [lia|].
      assert (H0 : i0 = 0) by (apply depth_0; apply Hdep; subst; left; reflexivity).
      assert (Htl : tl = []).
      { destruct tl as [|j r]; [reflexivity|]. exfalso. subst idxs. simpl in Hinc. destruct Hinc as [Hlt _].
        assert (Hj : j = 0) by (apply depth_0; apply Hdep; right; left; reflexivity). lia. }
      subst. cbn [loop gen_em]. rewrite N.eqb_refl. reflexivity.
    - destruct fuel as [|f]; [lia|].
      assert (Hnz : forall i, In i idxs -> i <> 0).
      { intros i Hi Hc. subst i. specialize (Hdep 0 Hi). unfold depth in Hdep. simpl in Hdep. discriminate. }
      assert (Hi0 : i0 <> 0) by (apply Hnz; subst; left; reflexivity).
      cbn [loop gen_em]. destruct (i0 =? 0) eqn:E0; [apply N.eqb_eq in E0; contradiction|].
      destruct (gen_level NR idxs) as [ps em] eqn:Eg.
      rewrite map_app, <- app_assoc.
      assert (Hlc := level_complete TT NR internal (T_int L) (T_pad L) (length idxs) idxs
                      (map TT (gen_em f NR (par i0) ps) ++ rest) (le_n _)).
      rewrite Eg in Hlc. cbn [fst snd] in Hlc. rewrite Hlc.
      + destruct (gen_level_head NR i0 tl) as [ps' Hps]. rewrite <- Hid, Eg in Hps. cbn [fst] in Hps.
        apply (IH f ps rest (par i0) ps' Hps).
        * assert (Hg := gen_level_inc NR (length idxs) idxs (le_n _) Hinc Hnz). rewrite Eg in Hg. exact Hg.
        * intros p Hp. assert (Hg := gen_level_in NR (length idxs) idxs p (le_n _)). rewrite Eg in Hg. cbn [fst] in Hg.
          destruct (Hg Hp) as [i [Hi ->]]. specialize (Hdep i Hi). rewrite (depth_par i (Hnz i Hi)) in Hdep. lia.
        * lia.
        * lia.
      + intros i Hi. split; [apply Hnz; exact Hi|]. unfold internal. specialize (Hdep i Hi). rewrite (depth_par i (Hnz i Hi)) in Hdep. lia.
  Qed.

  (* ---- wrapper glue ---- *)
  Lemma sortedb_inc l : inc l -> sortedb l = true.
  Proof.
    destruct l as [|a r]; [reflexivity|]. simpl. revert a. induction r as [|b r IH]; intros a H; [reflexivity|].
    destruct H as [Hab Hr]. cbn [sortedb]. apply andb_true_iff. split; [apply N.leb_le; lia | apply IH; exact Hr].
  Qed.

  Lemma lb_map_add off a l : lb a l -> lb (off + a) (map (fun i => off + i) l).
  Proof. revert a. induction l as [|b r IH]; intros a H; [exact I|]. destruct H as [H1 H2]. simpl. split; [lia | apply IH; exact H2]. Qed.

  Lemma depth_leaf i : i < n -> depth (np2 n - 1 + i) = D.
  Proof.
    intros Hi. assert (Hn := n_le_np2 L). fold n in Hn.
    assert (Hp : np2 n = 2 ^ N.of_nat D) by (apply np2_D).
    unfold depth. assert (Hpos : 0 < 2 ^ N.of_nat D) by (apply N.neq_0_lt_0, N.pow_nonzero; lia).
    assert (Hl : N.log2 (np2 n - 1 + i + 1) = N.of_nat D).
    { apply (N.log2_unique' (np2 n - 1 + i + 1) (N.of_nat D) i); [lia | rewrite <- Hp; lia | rewrite <- Hp; lia]. }
    rewrite Hl. apply Nat2N.id.
  Qed.

  Lemma existsb_false {A} (f : A -> bool) l : (forall x, In x l -> f x = false) -> existsb f l = false.
  Proof. induction l as [|a r IH]; intros H; [reflexivity|]. simpl. rewrite (H a (or_introl eq_refl)). apply IH. intros x Hx. apply H. right; exact Hx. Qed.

  Lemma cur0_withT : forall l, (forall i, In i l -> i < n) ->
    combine (map (fun i => i + np2 n - 1) l) (map LeafH (map (fun i => nth (N.to_nat i) L (BLit [])) l))
    = withT TT (map (fun i => np2 n - 1 + i) l).
  Proof.
    assert (Hp1 : 1 <= np2 n) by (assert (np2 n <> 0) by (unfold np2; apply N.pow_nonzero; lia); lia).
    induction l as [|a r IH]; intros Hrange; [reflexivity|].
    cbn [map combine withT]. f_equal.
    - assert (Ha : a < n) by (apply Hrange; left; reflexivity).
      replace (a + np2 n - 1) with (np2 n - 1 + a) by lia. f_equal.
      unfold TT. rewrite (T_leaflevel L) by (apply depth_leaf; exact Ha).
      rewrite <- (np2_D L). fold n.
      replace (np2 n - 1 + a + 1 - np2 n) with a by lia.
      rewrite (nth_indep _ zpad (LeafH (BLit []))) by (rewrite map_length; unfold n in Ha; lia).
      symmetry. apply map_nth.
    - apply IH. intros x Hx. apply Hrange. right; exact Hx.
  Qed.

  Theorem stm_complete indices :
    indices <> [] -> inc indices -> (forall i, In i indices -> i < n) -> n + np2 n < U64 ->
    exists vals,
      gen_bpath (mk_tree L) indices = Ok (vals, indices) /\
      ver_bpath (mt_root (mk_tree L)) n (map (fun i => nth (N.to_nat i) L (BLit [])) indices) vals indices = Ok true.
  Proof.
    intros Hne Hinc Hrange Hsz.
    destruct indices as [|i0 tl] eqn:Eidx; [contradiction|]. rewrite <- Eidx in *.
    set (off := np2 n - 1). set (hs := map (fun i => off + i) indices).
    set (vals := map TT (gen_em FUEL NR (off + i0) hs)).
    assert (Hn := n_le_np2 L). fold n in Hn.
    assert (Hp1 : 1 <= np2 n) by (assert (np2 n <> 0) by (unfold np2; apply N.pow_nonzero; lia); lia).
    assert (Hsorted : sortedb indices = true) by (apply sortedb_inc; exact Hinc).
    exists vals. split.
    - unfold gen_bpath. cbn [mk_tree t_n]. fold n. rewrite Eidx. rewrite <- Eidx.
      rewrite existsb_false by (intros x Hx; apply N.leb_gt; apply Hrange; exact Hx).
      rewrite Hsorted. cbn [negb]. reflexivity.
    - unfold ver_bpath. rewrite !map_length, Nat.eqb_refl. cbn [negb]. rewrite Hsorted. cbn [negb].
      assert (E1 : (U64 <? 2 * n) = false) by (apply N.ltb_ge; lia). rewrite E1.
      assert (E2 : (U64 <=? n + np2 n) = false) by (apply N.leb_gt; lia). rewrite E2.
      rewrite existsb_false by (intros x Hx; apply N.leb_gt; specialize (Hrange x Hx); lia).
      (* the initial list is the committed leaf digests at their heap positions *)
      assert (Hcur := cur0_withT indices Hrange). fold off in Hcur. fold hs in Hcur.
      rewrite Hcur.
      assert (Hhs : hs = (off + i0) :: map (fun i => off + i) tl) by (unfold hs; rewrite Eidx; reflexivity).
      assert (Hw : withT TT hs = (off + i0, TT (off + i0)) :: withT TT (map (fun i => off + i) tl))
        by (rewrite Hhs; reflexivity).
      rewrite Hw. cbv beta iota. rewrite <- Hw.
      assert (Hloop := loop_complete D FUEL hs [] (off + i0) (map (fun i => off + i) tl) Hhs).
      rewrite app_nil_r in Hloop. fold vals in Hloop.
      replace (n + np2 n - 1) with NR by (unfold NR, nr_nodes; reflexivity).
      rewrite Hloop.
      + cbn [withT map]. unfold TT, T. fold (mt_root (mk_tree L)). rewrite bt_eqb_refl. reflexivity.
      + unfold hs. rewrite Eidx. cbn [map inc]. rewrite Eidx in Hinc. cbn [inc] in Hinc. apply lb_map_add. exact Hinc.
      + intros h Hh. unfold hs in Hh. apply in_map_iff in Hh. destruct Hh as [i [<- Hi]]. apply depth_leaf. apply Hrange. exact Hi.
      + lia.
      + (* D <= 64 < FUEL *)
        unfold FUEL, D, treeD.
        assert (Hlog : N.log2_up n <= 64).
        { destruct (N.eq_dec n 0) as [E|E]; [rewrite E; cbv; discriminate|].
          apply N.log2_up_le_pow2; [lia|]. change (2 ^ 64) with U64. lia. }
        lia.
  Qed.
End Whole.
