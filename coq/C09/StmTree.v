(* C09/StmTree.v — executable model of the STM signer-registration Merkle tree
   (batch path).  Definitions only.
   Source: mithril-stm/src/membership_commitment/merkle_tree/{mod,tree,commitment,path}.rs
     MerkleTree::new                                   -> mt_build / node_at
     MerkleTree::compute_merkle_tree_batch_path        -> gen_bpath
     MerkleTreeBatchCommitment::
        verify_leaves_membership_from_batch_path       -> ver_bpath
   Hash values are the ideal terms of Base/SymHash.v:
     D::digest(leaf bytes)                = LeafH payload  = BHash BLAKE2B_256 [payload]
     D::new().chain(l).chain(r).finalize  = Node l r       = BHash BLAKE2B_256 [l; r]
     D::digest([0u8])  (padding)          = zpad           = LeafH (BLit [0])
   H-inj is injectivity of BHash; H-sep (a leaf digest is never a node digest)
   is the different length of the two pre-image lists (real leaves are 104
   bytes, a node pre-image is 64 bytes, the padding pre-image is 1 byte).
   `usize` is 64 bits; checked arithmetic (the harness profile has
   overflow-checks on) and the asserts of the code are the [Panic] outcome. *)
From MV Require Import Base.Prelude Base.SymHash.
Open Scope N_scope.

Definition LeafH (p : bt) : bt := BHash BLAKE2B_256 [p].
Definition Node (l r : bt) : bt := BHash BLAKE2B_256 [l; r].
Definition zpad : bt := LeafH (BLit [0]).

(* ---- heap helpers (mod.rs) ---- *)
Definition par (i : N) : N := (i - 1) / 2.                  (* parent; asserts i > 0 (callers test) *)
(* usize::next_power_of_two; 0 and 1 give 1 *)
Definition np2 (n : N) : N := 2 ^ N.log2_up n.
Definition depth (i : N) : nat := N.to_nat (N.log2 (i + 1)).  (* level of heap index i, root = 0 *)
Definition treeD (n : N) : nat := N.to_nat (N.log2_up n).     (* level of the leaves *)

(* ---- MerkleTree::new ----
   The code fills `nodes` (length n + np2 n - 1) bottom-up: the n leaf digests
   at the end, then every internal node from its two children, a child index
   beyond the array standing for the padding digest.  The model keeps the
   array as rows, one per level, row h being h levels above the leaves. *)
Fixpoint pairup (k : nat) (l : list bt) : list bt :=
  match k with
  | O => []
  | S k' =>
      match l with
      | a :: b :: r => Node a b :: pairup k' r
      | [a] => Node a zpad :: pairup k' []
      | [] => Node zpad zpad :: pairup k' []
      end
  end.

Fixpoint mk_rows (d : nat) (cur : list bt) : list (list bt) :=
  match d with
  | O => [cur]
  | S d' => cur :: mk_rows d' (pairup (Nat.pow 2 d') cur)
  end.

Record tree := { t_n : N; t_rows : list (list bt) }.

Definition mk_tree (L : list bt) : tree :=
  let n := N.of_nat (length L) in
  {| t_n := n; t_rows := mk_rows (treeD n) (map LeafH L) |}.

(* assert!(n > 0) *)
Definition mt_build (L : list bt) : result tree :=
  match L with [] => Panic | _ => Ok (mk_tree L) end.

(* nodes[i]; the padding digest for i beyond the array (what both walks substitute) *)
Definition node_at (t : tree) (i : N) : bt :=
  let D := treeD (t_n t) in
  let d := depth i in
  if (d <=? D)%nat
  then nth (N.to_nat (i + 1 - 2 ^ N.of_nat d)) (nth (D - d) (t_rows t) []) zpad
  else zpad.

Definition mt_root (t : tree) : bt := node_at t 0.
Definition nr_nodes (n : N) : N := n + np2 n - 1.

Fixpoint sortedb (l : list N) : bool :=
  match l with a :: ((b :: _) as r) => (a <=? b) && sortedb r | _ => true end.

(* ---- compute_merkle_tree_batch_path ----
   one level on heap indices: (parent indices, heap indices whose digests are emitted) *)
Fixpoint gen_level (nr : N) (idxs : list N) {struct idxs} : list N * list N :=
  match idxs with
  | [] => ([], [])
  | i :: rest =>
    if N.even i then
      let '(ps, em) := gen_level nr rest in (par i :: ps, (i - 1) :: em)
    else
      match rest with
      | i2 :: rest2 =>
        if i2 =? i + 1 then let '(ps, em) := gen_level nr rest2 in (par i :: ps, em)
        else let '(ps, em) := gen_level nr rest in
             (par i :: ps, if i + 1 <? nr then (i + 1) :: em else em)
      | [] => ([par i], if i + 1 <? nr then [i + 1] else [])
      end
  end.

(* while idx > 0 { idx = parent(idx); one level } *)
Fixpoint gen_em (fuel : nat) (nr idx : N) (idxs : list N) : list N :=
  match fuel with
  | O => []
  | S f => if idx =? 0 then [] else
           let '(ps, em) := gen_level nr idxs in em ++ gen_em f nr (par idx) ps
  end.

Definition FUEL : nat := 70.       (* > 64 = deepest level of a usize heap index *)

(* result: (values, indices) of the MerkleBatchPath.  The three asserts are the
   only panics reachable: after them every heap index of a level is > 0 while
   the walk continues and no sum leaves usize (indices < n <= nodes.len()). *)
Definition gen_bpath (t : tree) (indices : list N) : result (list bt * list N) :=
  let n := t_n t in
  match indices with
  | [] => Panic
  | i0 :: _ =>
    if existsb (fun i => n <=? i) indices then Panic else
    if negb (sortedb indices) then Panic else
    let off := np2 n - 1 in
    let hs := map (fun i => off + i) indices in
    Ok (map (node_at t) (gen_em FUEL (nr_nodes n) (off + i0) hs), indices)
  end.

(* ---- verify_leaves_membership_from_batch_path ----
   one level: cur = (heap index, digest) pairs, vals = unread proof values *)
Fixpoint level (nr : N) (cur : list (N * bt)) (vals : list bt) {struct cur}
  : result (list (N * bt) * list bt) :=
  match cur with
  | [] => Ok ([], vals)
  | (i, h) :: rest =>
    if i =? 0 then Panic else                      (* parent(0) asserts *)
    if N.even i then
      match vals with
      | [] => Err
      | v :: vs =>
        match level nr rest vs with
        | Ok (nx, vs') => Ok ((par i, Node v h) :: nx, vs')
        | Err => Err | Panic => Panic
        end
      end
    else
      let alone :=
        if i + 1 <? nr then
          match vals with
          | [] => Err
          | v :: vs =>
            match level nr rest vs with
            | Ok (nx, vs') => Ok ((par i, Node h v) :: nx, vs')
            | Err => Err | Panic => Panic
            end
          end
        else
          match level nr rest vals with
          | Ok (nx, vs') => Ok ((par i, Node h zpad) :: nx, vs')
          | Err => Err | Panic => Panic
          end in
      match rest with
      | (i2, h2) :: rest2 =>
        if i2 =? i + 1 then
          match level nr rest2 vals with
          | Ok (nx, vs') => Ok ((par i, Node h h2) :: nx, vs')
          | Err => Err | Panic => Panic
          end
        else alone
      | [] => alone
      end
  end.

Fixpoint loop (fuel : nat) (nr idx : N) (cur : list (N * bt)) (vals : list bt)
  : result (list (N * bt) * list bt) :=
  match fuel with
  | O => Err
  | S f => if idx =? 0 then Ok (cur, vals) else
           match level nr cur vals with
           | Ok (c', v') => loop f nr (par idx) c' v'
           | Err => Err | Panic => Panic
           end
  end.

(* Ok true = Ok(()), Ok false / Err = Err(BatchPathInvalid / missing value), Panic.
   [leaves] are the leaf payloads (batch_val), hashed here as the code does.
   Unread proof values after the walk are ignored, as in the code. *)
Definition ver_bpath (root : bt) (nr_leaves : N) (leaves : list bt) (vals : list bt) (indices : list N)
  : result bool :=
  if negb (length leaves =? length indices)%nat then Ok false else
  if negb (sortedb indices) then Ok false else
  if U64 <? 2 * nr_leaves then Panic else            (* next_power_of_two overflows usize *)
  let p2 := np2 nr_leaves in
  if U64 <=? nr_leaves + p2 then Panic else          (* nr_leaves + np2 overflows *)
  let nr := nr_leaves + p2 - 1 in
  if existsb (fun i => U64 <=? i + p2) indices then Panic else   (* i + np2 overflows *)
  let cur0 := combine (map (fun i => i + p2 - 1) indices) (map LeafH leaves) in
  match cur0 with
  | [] => Panic                                      (* ordered_indices[0] on an empty vector *)
  | (i0, _) :: _ =>
    match loop FUEL nr i0 cur0 vals with
    | Ok ([(_, h)], _) => Ok (bt_eqb h root)
    | Ok _ => Ok false
    | Err => Err | Panic => Panic
    end
  end.

Definition accepts (r : result bool) : bool :=
  match r with Ok true => true | _ => false end.
