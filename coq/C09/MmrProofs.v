(* C09/MmrProofs.v — soundness of MKProof / MKMapProof verification over the
   transcribed ckb MMR functions.
   H-inj: the computed root *is* the committed root term ([bt_eqb_eq]); every
   vouched leaf is then a [Mrg]-sub-term of it ([sub], proved by showing the
   verifier "conservative": an item leaves the queue only as an argument of
   [Mrg]).  H-sep enters only in the last step ([sub_atom_root]): the atoms of
   the committed root are exactly the committed leaves when leaves are not
   themselves [Mrg] digests. *)
From Coq Require Import Lia Permutation.
From MV Require Import Base.Prelude Base.SymHash C09.Mmr.
Open Scope N_scope.

Inductive sub : bt -> bt -> Prop :=
| sub_refl x : sub x x
| sub_l x a b : sub x a -> sub x (Mrg a b)
| sub_r x a b : sub x b -> sub x (Mrg a b).
Lemma sub_trans x y z : sub x y -> sub y z -> sub x z.
Proof. intros Hxy Hyz. induction Hyz; auto using sub. Qed.

Definition item_of (e : N * bt * N) : bt := snd (fst e).

(* calculate_peak_root is conservative: every queued item ends up inside the result *)
Lemma peak_root_sub : forall fuel queue peak proof r proof',
  peak_root fuel queue peak proof = Ok (r, proof') ->
  forall e, In e queue -> sub (item_of e) r.
Proof.
  induction fuel as [|f IH]; intros queue peak proof r proof' H e Hin; [discriminate|].
  cbn [peak_root] in H. destruct queue as [|[[pos item] h] q]; [discriminate|].
  destruct (pos =? peak).
  - destruct q; [|discriminate]. injection H as <- <-. destruct Hin as [<-|[]]. apply sub_refl.
  - set (nh := pos_height (pos + 1)) in *. set (so := sibling_offset h) in *.
    set (right := h <? nh) in *.
    set (sib := if right then pos - so else pos + so) in *.
    set (ppos := if right then pos + 1 else pos + parent_offset h) in *.
    assert (Hts : forall sitem q' pr',
       (match q with
        | (p2, it2, _) :: q2 => if p2 =? sib then Some (it2, q2, proof) else match proof with x :: pr => Some (x, q, pr) | [] => None end
        | [] => match proof with x :: pr => Some (x, q, pr) | [] => None end
        end) = Some (sitem, q', pr') ->
       (forall e', In e' q -> In e' q' \/ item_of e' = sitem)).
    { intros sitem q' pr' Hc e' He'. destruct q as [|[[p2 it2] h2] q2]; [contradiction|].
      destruct (p2 =? sib).
      - injection Hc as <- <- <-. destruct He' as [<-|He']; [right; reflexivity | left; exact He'].
      - destruct proof; [discriminate|]. injection Hc as <- <- <-. left; exact He'. }
    destruct (match q with
        | (p2, it2, _) :: q2 => if p2 =? sib then Some (it2, q2, proof) else match proof with x :: pr => Some (x, q, pr) | [] => None end
        | [] => match proof with x :: pr => Some (x, q, pr) | [] => None end
        end) as [[[sitem q'] pr']|] eqn:Ets; [|discriminate].
    specialize (Hts _ _ _ eq_refl).
    destruct (ppos <=? peak); [|discriminate].
    set (pitem := if right then Mrg sitem item else Mrg item sitem) in *.
    assert (Hp : sub pitem r).
    { apply (IH _ _ _ _ _ H (ppos, pitem, h + 1)). apply in_or_app. right. left. reflexivity. }
    assert (Hitem : sub item pitem) by (unfold pitem; destruct right; [apply sub_r | apply sub_l]; apply sub_refl).
    assert (Hsit : sub sitem pitem) by (unfold pitem; destruct right; [apply sub_l | apply sub_r]; apply sub_refl).
    destruct Hin as [<-|Hin].
    + unfold item_of; simpl. eapply sub_trans; eauto.
    + destruct (Hts e Hin) as [Hq'|Heq].
      * apply (IH _ _ _ _ _ H e). apply in_or_app. left. exact Hq'.
      * rewrite Heq. eapply sub_trans; eauto.
Qed.

(* bagging keeps every element inside the result *)
Lemma bag_sub : forall fuel ps r, bag fuel ps = Some r -> forall x, In x ps -> sub x r.
Proof.
  induction fuel as [|f IH]; intros ps r H x Hin; [discriminate|].
  cbn [bag] in H. destruct ps as [|a [|b rest]]; [discriminate| |].
  - injection H as <-. destruct Hin as [<-|[]]. apply sub_refl.
  - assert (Hm : sub (Mrg a b) r) by (apply (IH _ _ H); left; reflexivity).
    destruct Hin as [<-|[<-|Hin]].
    + eapply sub_trans; [apply sub_l, sub_refl | exact Hm].
    + eapply sub_trans; [apply sub_r, sub_refl | exact Hm].
    + apply (IH _ _ H). right. exact Hin.
Qed.
Lemma bagging_sub ps r : bagging ps = Some r -> forall x, In x ps -> sub x r.
Proof. unfold bagging. intros H x Hin. eapply bag_sub; [exact H | apply in_rev in Hin; exact Hin]. Qed.

Lemma take_le_split peak l a b : take_le peak l = (a, b) -> l = a ++ b.
Proof.
  revert a b. induction l as [|x r IH]; intros a b H; simpl in H.
  - injection H as <- <-; reflexivity.
  - destruct (fst x <=? peak).
    + destruct (take_le peak r) as [a' b'] eqn:E. injection H as <- <-. simpl. f_equal. apply IH. reflexivity.
    + injection H as <- <-. reflexivity.
Qed.

(* every leaf consumed by the per-peak loop is inside some returned peak hash *)
Lemma peaks_hashes_sub : forall peaks leaves proof acc ph rest pr,
  peaks_hashes peaks leaves proof acc = Ok (ph, rest, pr) ->
  (forall x, In x acc -> In x ph) /\
  (forall e, In e leaves -> In e rest \/ exists y, In y ph /\ sub (snd e) y).
Proof.
  induction peaks as [|pk peaks IH]; intros leaves proof acc ph rest pr H.
  - simpl in H. injection H as <- <- <-. split; [intros x Hx; apply -> in_rev; exact Hx | intros e He; left; exact He].
  - cbn [peaks_hashes] in H. destruct (take_le pk leaves) as [ls leaves'] eqn:Et.
    apply take_le_split in Et. subst leaves.
    assert (Hgen : forall r proof2, peaks_hashes peaks leaves' proof2 (r :: acc) = Ok (ph, rest, pr) ->
              (forall e, In e ls -> sub (snd e) r) ->
              (forall x, In x acc -> In x ph) /\
              (forall e, In e (ls ++ leaves') -> In e rest \/ exists y, In y ph /\ sub (snd e) y)).
    { intros r proof2 Hr Hls. destruct (IH _ _ _ _ _ _ Hr) as [Ha Hb]. split.
      - intros x Hx. apply Ha. right. exact Hx.
      - intros e He. apply in_app_or in He. destruct He as [He|He].
        + right. exists r. split; [apply Ha; left; reflexivity | apply Hls; exact He].
        + apply Hb. exact He. }
    destruct ls as [|[p it] [|e2 ls2]].
    + destruct proof as [|x prf].
      * injection H as <- <- <-. split; [intros x Hx; apply -> in_rev; exact Hx | intros e He; left; exact He].
      * apply (Hgen x prf H). intros e [].
    + destruct (p =? pk).
      * apply (Hgen it proof H). intros e [<-|[]]. apply sub_refl.
      * destruct (peak_root (pr_fuel [(p, it)]) [(p, it, 0)] pk proof) as [[r proof']| |] eqn:Ep; try discriminate.
        apply (Hgen r proof' H). intros e [<-|[]].
        apply (peak_root_sub _ _ _ _ _ _ Ep (p, it, 0)). left; reflexivity.
    + destruct (peak_root (pr_fuel ((p, it) :: e2 :: ls2)) (map (fun e => (fst e, snd e, 0)) ((p, it) :: e2 :: ls2)) pk proof) as [[r proof']| |] eqn:Ep; try discriminate.
      apply (Hgen r proof' H). intros e He.
      apply (peak_root_sub _ _ _ _ _ _ Ep (fst e, snd e, 0)). apply in_map_iff. exists e. split; [reflexivity | exact He].
Qed.

(* sorting keeps the elements; de-duplication keeps one representative per position *)
Lemma ins_In e l x : In x (ins e l) <-> x = e \/ In x l.
Proof.
  induction l as [|a r IH]; simpl; [intuition congruence|].
  destruct (fst e <? fst a); simpl; [intuition congruence|]. rewrite IH. intuition congruence.
Qed.
Lemma sort_pos_In l x : In x (sort_pos l) <-> In x l.
Proof.
  unfold sort_pos. assert (G : forall acc, In x (fold_left (fun acc e => ins e acc) l acc) <-> In x l \/ In x acc).
  { induction l as [|a r IH]; intros acc; simpl; [tauto|]. rewrite IH, ins_In. intuition congruence. }
  rewrite G. simpl. tauto.
Qed.

Lemma dedup_aux_sub prev l x : In x (dedup_aux prev l) -> In x l.
Proof.
  revert prev. induction l as [|a r IH]; intros prev H; simpl in *; [exact H|].
  destruct (fst a =? prev); [right; eapply IH; exact H|].
  destruct H as [H|H]; [left; exact H | right; eapply IH; exact H].
Qed.
Lemma dedup_sub l x : In x (dedup l) -> In x l.
Proof. destruct l as [|a r]; simpl; [tauto|]. intros [H|H]; [left; exact H | right; eapply dedup_aux_sub; exact H]. Qed.

Lemma dedup_aux_repr prev l e : In e l -> fst e = prev \/ exists e', In e' (dedup_aux prev l) /\ fst e' = fst e.
Proof.
  revert prev. induction l as [|a r IH]; intros prev H; [contradiction|].
  simpl. destruct H as [<-|H].
  - destruct (fst a =? prev) eqn:E; [left; apply N.eqb_eq; exact E|].
    right. exists a. split; [left; reflexivity | reflexivity].
  - destruct (fst a =? prev) eqn:E.
    + apply IH. exact H.
    + destruct (IH (fst a) H) as [Heq|[e' [He' Hk]]].
      * right. exists a. split; [left; reflexivity | symmetry; exact Heq].
      * right. exists e'. split; [right; exact He' | exact Hk].
Qed.
Lemma dedup_repr l e : In e l -> exists e', In e' (dedup l) /\ fst e' = fst e.
Proof.
  destruct l as [|a r]; [contradiction|]. simpl. intros [<-|H].
  - exists a. split; [left; reflexivity | reflexivity].
  - destruct (dedup_aux_repr (fst a) r e H) as [Heq|[e' [He' Hk]]].
    + exists a. split; [left; reflexivity | symmetry; exact Heq].
    + exists e'. split; [right; exact He' | exact Hk].
Qed.

Lemma consistent_spec l : positions_consistent l = true ->
  forall e e', In e l -> In e' l -> fst e = fst e' -> snd e = snd e'.
Proof.
  unfold positions_consistent. intros H e e' He He' Hk.
  rewrite forallb_forall in H. specialize (H e He). rewrite forallb_forall in H. specialize (H e' He').
  apply orb_true_iff in H. destruct H as [H|H].
  - apply negb_true_iff in H. apply N.eqb_neq in H. contradiction.
  - apply bt_eqb_eq. exact H.
Qed.

(* with consistent positions every entry survives sort + dedup *)
Lemma dedup_sort_In l e : positions_consistent l = true -> In e l -> In e (dedup (sort_pos l)).
Proof.
  intros Hc Hin.
  destruct (dedup_repr (sort_pos l) e) as [e' [He' Hk]]; [apply sort_pos_In; exact Hin|].
  assert (Hin' : In e' l) by (apply sort_pos_In; apply dedup_sub; exact He').
  assert (Hs := consistent_spec l Hc e' e Hin' Hin Hk).
  destruct e as [k v], e' as [k' v']. simpl in *. subst. exact He'.
Qed.

Lemma calc_core_sub size leaves proof r :
  calc_core size leaves proof = Ok r ->
  forall e, In e (dedup (sort_pos leaves)) -> sub (snd e) r.
Proof.
  unfold calc_core. intros H e Hin.
  destruct (peaks_hashes (get_peaks size) (dedup (sort_pos leaves)) proof []) as [[[ph rest] pr]| |] eqn:Eph; try discriminate.
  destruct rest; [|discriminate]. cbv zeta in H.
  destruct (peaks_hashes_sub _ _ _ _ _ _ _ Eph) as [_ Hb].
  destruct (Hb e Hin) as [[]|[y [Hy Hs]]].
  assert (Hbag : forall l, (match pr with [] => Some ph | [x] => Some (ph ++ [x]) | _ => None end) = Some l -> In y l).
  { intros l Hl. destruct pr as [|x [|? ?]]; try discriminate; injection Hl as <-; [exact Hy | apply in_or_app; left; exact Hy]. }
  destruct (match pr with [] => Some ph | [x] => Some (ph ++ [x]) | _ => None end) as [l|] eqn:El; [|discriminate].
  destruct (bagging l) as [r'|] eqn:Eb; [|discriminate]. injection H as <-.
  eapply sub_trans; [exact Hs | eapply bagging_sub; [exact Eb | apply Hbag; reflexivity]].
Qed.

Lemma calc_root_sub size leaves proof r :
  calc_root size leaves proof = Ok r ->
  forall e, In e (dedup (sort_pos leaves)) -> sub (snd e) r.
Proof.
  unfold calc_root. intros H e Hin.
  destruct (existsb _ leaves); [discriminate|].
  destruct leaves as [|[pos it] rest]; [eapply calc_core_sub; eauto|].
  destruct pos as [|pp]; destruct rest as [|e2 rest2]; try (eapply calc_core_sub; eauto; fail).
  destruct (size =? 1); [|eapply calc_core_sub; eauto].
  injection H as <-. cbn in Hin. destruct Hin as [<-|[]]. apply sub_refl.
Qed.

(* what ckb's verification alone gives (the code before the fix): only the entries
   that survive dedup_by(pos) are bound to the root *)
Lemma ckb_verify_sound p : ckb_verify p = true ->
  forall e, In e (dedup (sort_pos (p_leaves p))) -> sub (snd e) (p_root p).
Proof.
  unfold ckb_verify. intros Hv e Hin.
  destruct (calc_root (p_size p) (p_leaves p) (p_items p)) as [r| |] eqn:Ec; try discriminate.
  apply bt_eqb_eq in Hv. subst. eapply calc_root_sub; eauto.
Qed.

Theorem mk_verify_sound p : mk_verify p = true ->
  forall e, In e (p_leaves p) -> sub (snd e) (p_root p).
Proof.
  unfold mk_verify. intros Hv e Hin. apply andb_true_iff in Hv. destruct Hv as [Hc Hv].
  apply (ckb_verify_sound p Hv). apply dedup_sort_In; assumption.
Qed.

Lemma mk_contains_In p xs x : mk_contains p xs = true -> In x xs -> exists e, In e (p_leaves p) /\ snd e = x.
Proof.
  unfold mk_contains. intros H Hin. rewrite forallb_forall in H. specialize (H x Hin).
  apply existsb_exists in H. destruct H as [e [He Hb]]. exists e. split; [exact He | apply bt_eqb_eq; exact Hb].
Qed.

Theorem mk_sound p xs : mk_verify p = true -> mk_contains p xs = true ->
  forall x, In x xs -> sub x (p_root p).
Proof.
  intros Hv Hc x Hin. destruct (mk_contains_In p xs x Hc Hin) as [e [He <-]].
  eapply mk_verify_sound; eauto.
Qed.

(* ---------------------------------------------------------------- nested map *)
Fixpoint mp_size (p : mapproof) : nat :=
  match p with
  | MapProof _ subs => S ((fix go (l : list (bt * mapproof)) : nat :=
                             match l with [] => O | (_, q) :: r => (mp_size q + go r)%nat end) subs)
  end.

Lemma map_sound_aux : forall (n : nat) p, (mp_size p <= n)%nat ->
  map_verify p = true -> forall x, map_contains p x = true -> sub x (map_root p).
Proof.
  induction n as [|n IH]; intros p Hsz Hv x Hc; [destruct p; simpl in Hsz; lia|].
  destruct p as [m subs]. cbn [map_root].
  cbn [map_verify] in Hv. apply andb_true_iff in Hv. destruct Hv as [Hv Hlink].
  apply andb_true_iff in Hv. destruct Hv as [Hsubs Hm].
  cbn [map_contains] in Hc. apply orb_true_iff in Hc. destruct Hc as [Hc|Hc].
  - eapply mk_sound; [exact Hm | exact Hc | left; reflexivity].
  - (* x is vouched by a sub-proof (k, q): q verifies, x is inside root q, and Mrg k (root q) is a verified master leaf *)
    assert (Hex : exists k q, In (k, q) subs /\ map_verify q = true /\ map_contains q x = true /\ (mp_size q <= n)%nat).
    { clear Hlink Hm IH. cbn [mp_size] in Hsz. revert Hsubs Hc Hsz.
      induction subs as [|[k q] r IHr]; intros Hsubs Hc Hsz; [discriminate|].
      apply andb_true_iff in Hsubs. destruct Hsubs as [Hq Hr].
      apply orb_true_iff in Hc. destruct Hc as [Hc|Hc].
      - exists k, q. split; [left; reflexivity|]. split; [exact Hq|]. split; [exact Hc|]. lia.
      - destruct IHr as [k' [q' [Hin H']]]; [exact Hr | exact Hc | lia|].
        exists k', q'. split; [right; exact Hin | exact H']. }
    destruct Hex as [k [q [Hin [Hvq [Hcq Hszq]]]]].
    assert (Hx : sub x (map_root q)) by (apply (IH q Hszq Hvq x Hcq)).
    destruct subs as [|s0 subs']; [contradiction|].
    assert (Hleaf : sub (Mrg k (map_root q)) (p_root m)).
    { eapply mk_sound; [exact Hm | exact Hlink|].
      apply in_map_iff. exists (k, q). split; [reflexivity | exact Hin]. }
    eapply sub_trans; [|exact Hleaf]. apply sub_r. exact Hx.
Qed.

Theorem map_sound p x : map_verify p = true -> map_contains p x = true -> sub x (map_root p).
Proof. intros. eapply map_sound_aux; eauto. Qed.

(* the linkage itself: a sub-proof that vouches for x hangs under a verified master leaf *)
Theorem map_linkage m subs k q : map_verify (MapProof m subs) = true -> In (k, q) subs ->
  map_verify q = true /\ sub (Mrg k (map_root q)) (p_root m).
Proof.
  intros Hv Hin. cbn [map_verify] in Hv. apply andb_true_iff in Hv. destruct Hv as [Hv Hlink].
  apply andb_true_iff in Hv. destruct Hv as [Hsubs Hm]. split.
  - clear Hlink Hm. induction subs as [|[k' q'] r IHr]; [contradiction|].
    apply andb_true_iff in Hsubs. destruct Hsubs as [Hq Hr].
    destruct Hin as [Heq|Hin]; [injection Heq as <- <-; exact Hq | apply IHr; assumption].
  - destruct subs as [|s0 subs']; [contradiction|].
    eapply mk_sound; [exact Hm | exact Hlink|].
    apply in_map_iff. exists (k, q). split; [reflexivity | exact Hin].
Qed.

(* ---------------------------------------------------------------- committed sets (H-sep) *)
(* a term is an atom when it is not a Blake2s digest of two terms *)
Definition is_mrg (t : bt) : bool :=
  match t with
  | BHash g [_; _] => N.eqb g BLAKE2S_256
  | _ => false
  end.
Definition atom (t : bt) : Prop := is_mrg t = false.

Lemma is_mrg_Mrg a b : is_mrg (Mrg a b) = true.
Proof. reflexivity. Qed.
Lemma atom_BLit b : atom (BLit b).
Proof. reflexivity. Qed.

(* every node in the store is built from pushed leaves only *)
Inductive over (P : bt -> Prop) : bt -> Prop :=
| over_leaf x : P x -> over P x
| over_mrg a b : over P a -> over P b -> over P (Mrg a b).

Lemma sub_over_atom (P : bt -> Prop) t : (forall l, P l -> atom l) -> over P t ->
  forall x, atom x -> sub x t -> P x.
Proof.
  intros HP Ho. induction Ho as [l Hl | a b Ha IHa Hb IHb]; intros x Hx Hs.
  - assert (Hal := HP l Hl). inversion Hs; subst; try assumption.
    + unfold atom in Hal. rewrite is_mrg_Mrg in Hal. discriminate.
    + unfold atom in Hal. rewrite is_mrg_Mrg in Hal. discriminate.
  - inversion Hs; subst.
    + unfold atom in Hx. rewrite is_mrg_Mrg in Hx. discriminate.
    + apply IHa; assumption.
    + apply IHb; assumption.
Qed.

Lemma get_In s p x : get s p = Some x -> exists e, In e s /\ snd e = x.
Proof.
  unfold get. destruct (find (fun e => fst e =? p) s) as [e|] eqn:E; [|discriminate].
  intros H. injection H as <-. apply find_some in E. exists e. split; [apply E | reflexivity].
Qed.

Section Committed.
  Variable P : bt -> Prop.
  Definition store_over (s : store) : Prop := forall e, In e s -> over P (snd e).

  Lemma push_loop_over : forall fuel s pmap peak pos last s' pos',
    store_over s -> push_loop fuel s pmap peak pos last = (s', pos') -> over P last -> store_over s'.
  Proof.
    induction fuel as [|f IH]; intros s pmap peak pos last s' pos' Hs H Hl; cbn [push_loop] in H.
    - injection H as <- <-. exact Hs.
    - destruct (N.land pmap peak =? 0); [injection H as <- <-; exact Hs|].
      destruct (get s (pos + 1 - N.shiftl peak 1)) as [l|] eqn:Eg; [|injection H as <- <-; exact Hs].
      destruct (get_In _ _ _ Eg) as [e [He Hsnd]].
      assert (Hol : over P l) by (rewrite <- Hsnd; apply Hs; exact He).
      eapply IH; [|exact H|apply over_mrg; assumption].
      intros e' He'. apply in_app_or in He'. destruct He' as [He'|[<-|[]]]; [apply Hs; exact He'|].
      simpl. apply over_mrg; assumption.
  Qed.

  Lemma push_over s size x s' size' p : store_over s -> P x -> push s size x = (s', size', p) -> store_over s'.
  Proof.
    unfold push. intros Hs Hx H.
    destruct (push_loop 70 (s ++ [(size, x)]) (get_peak_map size) 1 size x) as [s2 pos2] eqn:E.
    injection H as <- <- <-. eapply push_loop_over; [|exact E|apply over_leaf; exact Hx].
    intros e He. apply in_app_or in He. destruct He as [He|[<-|[]]]; [apply Hs; exact He|].
    simpl. apply over_leaf; exact Hx.
  Qed.

  Lemma build_over : forall xs s size poss s' size' poss',
    store_over s -> (forall x, In x xs -> P x) -> build xs s size poss = (s', size', poss') -> store_over s'.
  Proof.
    induction xs as [|x r IH]; intros s size poss s' size' poss' Hs Hx H; cbn [build] in H.
    - injection H as <- <- <-. exact Hs.
    - destruct (push s size x) as [[s1 size1] p1] eqn:Ep.
      eapply IH; [|intros y Hy; apply Hx; right; exact Hy|exact H].
      eapply push_over; [exact Hs | apply Hx; left; reflexivity | exact Ep].
  Qed.

  Lemma bag_over : forall fuel ps r, bag fuel ps = Some r -> (forall x, In x ps -> over P x) -> over P r.
  Proof.
    induction fuel as [|f IH]; intros ps r H Hps; [discriminate|].
    cbn [bag] in H. destruct ps as [|a [|b rest]]; [discriminate| |].
    - injection H as <-. apply Hps. left; reflexivity.
    - apply (IH _ _ H). intros x [<-|Hx].
      + apply over_mrg; apply Hps; [left | right; left]; reflexivity.
      + apply Hps. right; right; exact Hx.
  Qed.

  Lemma get_all_over s : store_over s -> forall ps l, get_all s ps = Some l -> forall x, In x l -> over P x.
  Proof.
    intros Hs. induction ps as [|p r IH]; intros l H x Hx; cbn [get_all] in H.
    - injection H as <-. contradiction.
    - destruct (get s p) as [y|] eqn:Eg; [|discriminate].
      destruct (get_all s r) as [a|] eqn:Ea; [|discriminate]. injection H as <-.
      destruct Hx as [<-|Hx]; [|eapply IH; eauto].
      destruct (get_In _ _ _ Eg) as [e [He <-]]. apply Hs. exact He.
  Qed.

  Lemma mmr_root_over xs r : (forall x, In x xs -> P x) -> mmr_root xs = Some r -> over P r.
  Proof.
    unfold mmr_root, mmr_build. intros Hx H.
    destruct (build xs [] 0 []) as [[s size] poss] eqn:Eb.
    assert (Hs : store_over s) by (eapply build_over; [|exact Hx|exact Eb]; intros e []).
    unfold mmr_root_of in H. destruct (size =? 0); [discriminate|].
    destruct (size =? 1).
    - destruct (get_In _ _ _ H) as [e [He <-]]. apply Hs. exact He.
    - destruct (get_all s (get_peaks size)) as [ps|] eqn:Eg; [|discriminate].
      unfold bagging in H. eapply bag_over; [exact H|].
      intros x Hin. apply in_rev in Hin. eapply get_all_over; eauto.
  Qed.
End Committed.

(* an atom inside the committed root is a committed leaf *)
Theorem sub_atom_root xs r x : (forall l, In l xs -> atom l) -> mmr_root xs = Some r ->
  atom x -> sub x r -> In x xs.
Proof.
  intros Hat Hr Hx Hs.
  apply (sub_over_atom (fun l => In l xs) r Hat (mmr_root_over _ xs r (fun l H => H) Hr) x Hx Hs).
Qed.

Theorem mk_sound_committed xs p vs : (forall l, In l xs -> atom l) ->
  mmr_root xs = Some (p_root p) -> mk_verify p = true -> mk_contains p vs = true ->
  forall x, In x vs -> atom x -> In x xs.
Proof.
  intros Hat Hr Hv Hc x Hin Hx. eapply sub_atom_root; eauto. eapply mk_sound; eauto.
Qed.

(* ---- the refutation for ckb's verification alone (the code before the fix) ---- *)
Definition FAKE : bt := BLit [70; 65; 75; 69].
Definition L5 : list bt := map (fun i => BLit [i]) [0; 1; 2; 3; 4].
Definition dup_witness : mkproof :=
  match mk_compute_proof L5 [1; 2] with
  | Ok p => {| p_root := p_root p; p_leaves := p_leaves p ++ [(1, FAKE)]; p_size := p_size p; p_items := p_items p |}
  | _ => {| p_root := BLit []; p_leaves := []; p_size := 0; p_items := [] |}
  end.

Lemma ckb_alone_unsound :
  mmr_root L5 = Some (p_root dup_witness) /\ ckb_verify dup_witness = true /\
  mk_contains dup_witness [FAKE] = true /\ ~ In FAKE L5 /\ mk_verify dup_witness = false.
Proof.
  split; [vm_compute; reflexivity|]. split; [vm_compute; reflexivity|]. split; [vm_compute; reflexivity|].
  split; [|vm_compute; reflexivity].
  intros H. repeat (destruct H as [H|H]; [discriminate|]). exact H.
Qed.

(* ---------------------------------------------------------------- committed one-level map (H-sep) *)
Lemma sub_over_find (P : bt -> Prop) t : over P t ->
  forall x, atom x -> sub x t -> exists l, P l /\ sub x l.
Proof.
  intros Ho. induction Ho as [l Hl | a b Ha IHa Hb IHb]; intros x Hx Hs.
  - exists l. split; assumption.
  - inversion Hs; subst.
    + unfold atom in Hx. rewrite is_mrg_Mrg in Hx. discriminate.
    + apply IHa; assumption.
    + apply IHb; assumption.
Qed.

Lemma sub_BLit x b : sub x (BLit b) -> x = BLit b.
Proof. intros H. inversion H; subst; reflexivity. Qed.

(* the committed structure of a block-range map: per range a key (raw bytes) and a tree of atoms *)
Definition master_leaves (ranges : list (list N * list bt)) : option (list bt) :=
  fold_right (fun r acc =>
                match mmr_root (snd r), acc with
                | Some rt, Some a => Some (Mrg (BLit (fst r)) rt :: a)
                | _, _ => None
                end) (Some []) ranges.

Lemma master_leaves_In ranges ms m : master_leaves ranges = Some ms -> In m ms ->
  exists k xs rt, In (k, xs) ranges /\ mmr_root xs = Some rt /\ m = Mrg (BLit k) rt.
Proof.
  revert ms. induction ranges as [|[k xs] r IH]; intros ms H Hin; cbn [master_leaves fold_right] in H.
  - injection H as <-. contradiction.
  - fold (master_leaves r) in H. cbn [fst snd] in H.
    destruct (mmr_root xs) as [rt|] eqn:Er; [|discriminate].
    destruct (master_leaves r) as [a|] eqn:Ea; [|discriminate]. injection H as <-.
    destruct Hin as [<-|Hin].
    + exists k, xs, rt. split; [left; reflexivity|]. split; [exact Er | reflexivity].
    + destruct (IH a eq_refl Hin) as [k' [xs' [rt' [H1 [H2 H3]]]]].
      exists k', xs', rt'. split; [right; exact H1|]. split; assumption.
Qed.

Theorem map_sound_committed ranges ms p x :
  (forall k xs, In (k, xs) ranges -> forall l, In l xs -> atom l) ->
  master_leaves ranges = Some ms -> mmr_root ms = Some (map_root p) ->
  map_verify p = true -> map_contains p x = true -> atom x ->
  (exists k xs, In (k, xs) ranges /\ x = BLit k) \/ (exists k xs, In (k, xs) ranges /\ In x xs).
Proof.
  intros Hat Hms Hr Hv Hc Hx.
  assert (Hs : sub x (map_root p)) by (apply map_sound; assumption).
  assert (Ho : over (fun l => In l ms) (map_root p)) by (apply (mmr_root_over _ ms); [intros l H; exact H | exact Hr]).
  destruct (sub_over_find _ _ Ho x Hx Hs) as [m [Hm Hsm]].
  destruct (master_leaves_In _ _ _ Hms Hm) as [k [xs [rt [Hin [Hrt ->]]]]].
  inversion Hsm; subst.
  - unfold atom in Hx. rewrite is_mrg_Mrg in Hx. discriminate.
  - left. exists k, xs. split; [exact Hin | apply sub_BLit; assumption].
  - right. exists k, xs. split; [exact Hin|]. eapply sub_atom_root; eauto.
Qed.
