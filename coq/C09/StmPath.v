(* C09/StmPath.v — an accepted batch path is determined: the values the verifier reads are
   exactly the committed nodes the generator emits for the same index list (anything after
   them is never read).  Hence an altered, dropped or shifted *used* path value is rejected. *)
From Coq Require Import Lia.
From MV Require Import Base.Prelude Base.SymHash C09.StmTree C09.StmProofs.
Open Scope N_scope.
Ltac Zify.zify_post_hook ::= Z.div_mod_to_equations.

Section Path.
  Variable T : N -> bt.
  Hypothesis T_node : forall p a b, T p = Node a b -> a = T (2 * p + 1) /\ b = T (2 * p + 2).

  Lemma level_vals nr : forall (n : nat) cur vals nx vs',
    (length cur <= n)%nat ->
    level nr cur vals = Ok (nx, vs') ->
    (forall p h', In (p, h') nx -> h' = T p) ->
    vals = map T (snd (gen_level nr (map fst cur))) ++ vs' /\
    map fst nx = fst (gen_level nr (map fst cur)).
  Proof.
    induction n as [|n IH]; intros cur vals nx vs' Hlen Hlv Hnx.
    - destruct cur; [|simpl in Hlen; lia]. simpl in Hlv. injection Hlv as <- <-. split; reflexivity.
    - destruct cur as [|[i0 h0] rest]; [simpl in Hlv; injection Hlv as <- <-; split; reflexivity|].
      simpl in Hlen. cbn [level] in Hlv. cbn [map fst gen_level].
      destruct (i0 =? 0) eqn:E0; [discriminate|]. apply N.eqb_neq in E0.
      destruct (N.even i0) eqn:Ev.
      + destruct vals as [|v vs]; [discriminate|].
        destruct (level nr rest vs) as [[nx1 vs1]| |] eqn:Hr; try discriminate.
        injection Hlv as <- <-.
        assert (Hh : Node v h0 = T (par i0)) by (apply Hnx; left; reflexivity).
        symmetry in Hh. apply T_node in Hh. destruct Hh as [Ha _].
        destruct (IH rest vs nx1 vs1 ltac:(lia) Hr ltac:(intros p h' Hp; apply Hnx; right; exact Hp)) as [Hv Hf].
        destruct (gen_level nr (map fst rest)) as [ps em]. cbn [fst snd] in *.
        split; [|cbn [map fst]; f_equal; exact Hf].
        cbn [map app]. f_equal; [|exact Hv].
        rewrite Ha. f_equal. assert (He := par_even i0 E0 Ev). lia.
      + assert (Hodd := par_odd i0 E0 Ev).
        (* the two "alone" shapes *)
        assert (Halone :
          (if i0 + 1 <? nr then
             match vals with
             | [] => Err
             | v :: vs => match level nr rest vs with
                          | Ok (nx, vs') => Ok ((par i0, Node h0 v) :: nx, vs') | Err => Err | Panic => Panic end
             end
           else match level nr rest vals with
                | Ok (nx, vs') => Ok ((par i0, Node h0 zpad) :: nx, vs') | Err => Err | Panic => Panic end)
          = Ok (nx, vs') ->
          let '(ps, em) := gen_level nr (map fst rest) in
          vals = map T (if i0 + 1 <? nr then (i0 + 1) :: em else em) ++ vs' /\ map fst nx = par i0 :: ps).
        { intros Ha. destruct (i0 + 1 <? nr).
          - destruct vals as [|v vs]; [discriminate|].
            destruct (level nr rest vs) as [[nx1 vs1]| |] eqn:Hr; try discriminate.
            injection Ha as <- <-.
            assert (Hh : Node h0 v = T (par i0)) by (apply Hnx; left; reflexivity).
            symmetry in Hh. apply T_node in Hh. destruct Hh as [_ Hb].
            destruct (IH rest vs nx1 vs1 ltac:(lia) Hr ltac:(intros p h' Hp; apply Hnx; right; exact Hp)) as [Hv Hf].
            destruct (gen_level nr (map fst rest)) as [ps em]. cbn [fst snd] in *.
            split; [|cbn [map fst]; f_equal; exact Hf].
            cbn [map app]. f_equal; [|exact Hv]. rewrite Hb. f_equal. lia.
          - destruct (level nr rest vals) as [[nx1 vs1]| |] eqn:Hr; try discriminate.
            injection Ha as <- <-.
            destruct (IH rest vals nx1 vs1 ltac:(lia) Hr ltac:(intros p h' Hp; apply Hnx; right; exact Hp)) as [Hv Hf].
            destruct (gen_level nr (map fst rest)) as [ps em]. cbn [fst snd] in *.
            split; [exact Hv | cbn [map fst]; f_equal; exact Hf]. }
        destruct rest as [|[i2 h2] rest2].
        * specialize (Halone Hlv). cbn [map gen_level] in Halone. cbn [map].
          destruct (i0 + 1 <? nr); cbn [fst snd]; exact Halone.
        * cbn [map fst]. destruct (i2 =? i0 + 1) eqn:E2.
          -- destruct (level nr rest2 vals) as [[nx1 vs1]| |] eqn:Hr; try discriminate.
             injection Hlv as <- <-.
             destruct (IH rest2 vals nx1 vs1 ltac:(simpl in Hlen; lia) Hr ltac:(intros p h' Hp; apply Hnx; right; exact Hp)) as [Hv Hf].
             destruct (gen_level nr (map fst rest2)) as [ps em]. cbn [fst snd] in *.
             split; [exact Hv | cbn [map fst]; f_equal; exact Hf].
          -- specialize (Halone Hlv). cbn [map fst] in Halone.
             destruct (gen_level nr (i2 :: map fst rest2)) as [ps em]. cbn [fst snd]. exact Halone.
  Qed.

  Lemma loop_vals nr : forall fuel idx cur vals c' v' i0 h0 rest,
    cur = (i0, h0) :: rest -> idx = i0 ->
    loop fuel nr idx cur vals = Ok (c', v') ->
    (forall p h, In (p, h) c' -> h = T p) ->
    vals = map T (gen_em fuel nr idx (map fst cur)) ++ v'.
  Proof.
    induction fuel as [|f IH]; intros idx cur vals c' v' i0 h0 rest Hc Hi Hl Hc'; [discriminate|].
    cbn [loop] in Hl. cbn [gen_em]. destruct (idx =? 0) eqn:E0.
    - injection Hl as <- <-. reflexivity.
    - destruct (level nr cur vals) as [[c1 v1]| |] eqn:Hlev; try discriminate.
      destruct (level_head nr cur vals c1 v1 i0 h0 rest Hc Hlev) as [h' [nx' Hnx]].
      subst idx.
      destruct (loop_sound T T_node nr f (par i0) c1 v1 c' v' (par i0) h' nx' Hnx eq_refl Hl) as [_ Hs].
      assert (Hc1 : forall p h, In (p, h) c1 -> h = T p) by (intros p h Hp; eapply Hs; eauto).
      destruct (level_vals nr (length cur) cur vals c1 v1 (le_n _) Hlev Hc1) as [Hv Hf].
      assert (Hrec := IH (par i0) c1 v1 c' v' (par i0) h' nx' Hnx eq_refl Hl Hc').
      destruct (gen_level nr (map fst cur)) as [ps em]. cbn [fst snd] in *.
      rewrite Hv, Hrec, Hf, map_app, <- app_assoc. reflexivity.
  Qed.
End Path.

(* the values an honest path consists of: what gen_bpath emits for these indices *)
Definition honest_vals (L : list bt) (indices : list N) : list bt :=
  let n := N.of_nat (length L) in
  match indices with
  | [] => []
  | i0 :: _ => map (T L) (gen_em FUEL (nr_nodes n) (i0 + np2 n - 1) (map (fun i => i + np2 n - 1) indices))
  end.

Lemma map_fst_combine {A B} (l : list A) (l' : list B) : length l = length l' -> map fst (combine l l') = l.
Proof. revert l'. induction l as [|a r IH]; intros [|b r'] H; try discriminate; [reflexivity|]. simpl. f_equal. apply IH. simpl in H. lia. Qed.

Theorem stm_path_determined (L leaves vals : list bt) (indices : list N) :
  ver_bpath (mt_root (mk_tree L)) (N.of_nat (length L)) leaves vals indices = Ok true ->
  exists unread, vals = honest_vals L indices ++ unread.
Proof.
  set (n := N.of_nat (length L)). intros Hv. unfold ver_bpath in Hv.
  destruct (negb (length leaves =? length indices)%nat) eqn:El; [discriminate|].
  apply negb_false_iff, Nat.eqb_eq in El.
  destruct (negb (sortedb indices)); [discriminate|].
  destruct (U64 <? 2 * n); [discriminate|].
  destruct (U64 <=? n + np2 n); [discriminate|].
  destruct (existsb _ indices); [discriminate|].
  remember (combine (map (fun i => i + np2 n - 1) indices) (map LeafH leaves)) as cur0 eqn:Hcur.
  assert (Hfst : map fst cur0 = map (fun i => i + np2 n - 1) indices)
    by (rewrite Hcur; apply map_fst_combine; rewrite !map_length; symmetry; exact El).
  destruct cur0 as [|[i0 h0] rest0]; [discriminate|].
  destruct (loop FUEL (n + np2 n - 1) i0 ((i0, h0) :: rest0) vals) as [[c' v']| |] eqn:Hloop; try discriminate.
  destruct c' as [|[q h1] [|? ?]]; try discriminate.
  injection Hv as Heq. apply bt_eqb_eq in Heq.
  destruct (loop_sound (T L) (T_node L) _ _ _ _ _ _ _ _ _ _ eq_refl eq_refl Hloop) as [[h1' [r1 Hc']] _].
  injection Hc' as -> -> <-.
  assert (Hvals := loop_vals (T L) (T_node L) _ _ _ _ _ _ _ _ _ _ eq_refl eq_refl Hloop).
  exists v'. rewrite Hvals.
  - f_equal. unfold honest_vals. fold n. destruct indices as [|a r]; [discriminate|].
    cbn [map] in Hfst. injection Hfst as Hi0 Hrest. rewrite <- Hi0.
    unfold nr_nodes. f_equal. f_equal. cbn [map fst]. rewrite Hrest, <- Hi0. reflexivity.
  - intros p h [Hin|[]]. injection Hin as <- <-. exact Heq.
Qed.

(* an input whose value at a used place differs from the honest one is rejected *)
Corollary stm_rejects_altered_value (L leaves vals : list bt) (indices : list N) k :
  (k < length (honest_vals L indices))%nat ->
  nth_error vals k <> nth_error (honest_vals L indices) k ->
  ver_bpath (mt_root (mk_tree L)) (N.of_nat (length L)) leaves vals indices <> Ok true.
Proof.
  intros Hk Hne Hv. destruct (stm_path_determined L leaves vals indices Hv) as [u ->].
  apply Hne. apply nth_error_app1. exact Hk.
Qed.

