(* Base/Machine.v — machine-integer helpers shared by the models. *)
From MV Require Import Base.Prelude.
Open Scope Z_scope.

Definition I64_MIN : Z := - 9223372036854775808.
Definition I64_MAX : Z := 9223372036854775807.

(* `x as i64` for x : u64 (two's complement reinterpretation) *)
Definition as_i64 (n : N) : Z :=
  if (Z.of_N n <=? I64_MAX) then Z.of_N n else Z.of_N n - 18446744073709551616.

(* Epoch::offset_by (mithril-common/src/entities/epoch.rs):
     let epoch_new = self.0 as i64 + epoch_offset;      -- i64 addition, overflow-checked in debug builds
     if epoch_new < 0 { Err } else { Ok(epoch_new as u64) } *)
Definition epoch_offset_by (e : N) (off : Z) : result N :=
  let v := as_i64 e + off in
  if (v <? I64_MIN) || (I64_MAX <? v) then Panic
  else if v <? 0 then Err
  else Ok (Z.to_N v).

(* Epoch + u64 (impl_add_to_wrapper: plain u64 addition) *)
Definition epoch_add (e : N) (k : N) : result N := u64_add e k.
