(* Base/IdealSig.v — ideal signatures (S-ideal, DESIGN.md section 4).
   A signature value is either the signature made with secret key [sk] on
   message [msg] (optionally under a period, for KES), or junk bytes.
   Verification accepts exactly the former under the matching public key.
   Public keys are identified with key ids: pk sk = sk. *)
From MV Require Import Base.Prelude Base.SymHash.

Inductive sg : Type :=
| SigOf (sk : N) (msg : bt)
| SigAt (sk : N) (period : N) (msg : bt)      (* KES signature at an evolution *)
| Junk (n : N).

Definition pk (sk : N) : N := sk.

Definition sg_verify (s : sg) (vk : N) (msg : bt) : bool :=
  match s with
  | SigOf sk m => N.eqb (pk sk) vk && bt_eqb m msg
  | _ => false
  end.

Definition kes_verify (s : sg) (vk : N) (period : N) (msg : bt) : bool :=
  match s with
  | SigAt sk p m => N.eqb (pk sk) vk && N.eqb p period && bt_eqb m msg
  | _ => false
  end.

Definition sg_eqb (a b : sg) : bool :=
  match a, b with
  | SigOf s m, SigOf s' m' => N.eqb s s' && bt_eqb m m'
  | SigAt s p m, SigAt s' p' m' => N.eqb s s' && N.eqb p p' && bt_eqb m m'
  | Junk x, Junk y => N.eqb x y
  | _, _ => false
  end.

Lemma sg_verify_spec s vk msg :
  sg_verify s vk msg = true <-> s = SigOf vk msg.
Proof.
  unfold sg_verify, pk. destruct s as [sk m | sk p m | n]; split; intros H; try discriminate.
  - apply andb_true_iff in H as [H1 H2]. apply N.eqb_eq in H1. apply bt_eqb_eq in H2. subst; reflexivity.
  - injection H as -> ->. rewrite N.eqb_refl, bt_eqb_refl. reflexivity.
Qed.

Lemma kes_verify_spec s vk p msg :
  kes_verify s vk p msg = true <-> s = SigAt vk p msg.
Proof.
  unfold kes_verify, pk. destruct s as [sk m | sk q m | n]; split; intros H; try discriminate.
  - apply andb_true_iff in H as [H12 H3]. apply andb_true_iff in H12 as [H1 H2].
    apply N.eqb_eq in H1, H2. apply bt_eqb_eq in H3. subst; reflexivity.
  - injection H as -> -> ->. rewrite !N.eqb_refl, bt_eqb_refl. reflexivity.
Qed.
