(* Base/Prelude.v — shared vocabulary of every model: outcomes, the universal
   observation type used by the correspondence channel, small list helpers.
   Executable definitions only; lemmas about them live in Base/PreludeFacts.v. *)
From Coq Require Export List NArith ZArith Bool.
Export ListNotations.

(* Outcome of a modelled Rust function: a value, a returned error, or a panic /
   abort (arithmetic overflow in a checked build, failed assert, slice index,
   capacity overflow).  Properties that speak about "never crashes" exclude
   [Panic]; verdict-style properties treat [Err] and [Panic] as rejection. *)
Inductive result (A : Type) : Type :=
| Ok (a : A)
| Err
| Panic.
Arguments Ok {A} a.
Arguments Err {A}.
Arguments Panic {A}.

Definition rbind {A B} (r : result A) (f : A -> result B) : result B :=
  match r with Ok a => f a | Err => Err | Panic => Panic end.
Definition rmap {A B} (f : A -> B) (r : result A) : result B :=
  match r with Ok a => Ok (f a) | Err => Err | Panic => Panic end.
Definition is_ok {A} (r : result A) : bool :=
  match r with Ok _ => true | _ => false end.

Notation "'do' x <- r ; k" := (rbind r (fun x => k))
  (at level 200, x name, r at level 100, k at level 200).

(* Universal observation: what a model run and an implementation run are
   compared on.  The Rust harness prints the implementation's observation in
   this syntax; equality is decided inside Coq by [obs_eqb]. *)
Inductive obs : Type :=
| OZ (z : Z)
| OL (l : list obs).

Fixpoint obs_eqb (a b : obs) {struct a} : bool :=
  match a, b with
  | OZ x, OZ y => Z.eqb x y
  | OL xs, OL ys =>
      (fix go (xs ys : list obs) {struct xs} : bool :=
         match xs, ys with
         | [], [] => true
         | x :: xs', y :: ys' => obs_eqb x y && go xs' ys'
         | _, _ => false
         end) xs ys
  | _, _ => false
  end.

Definition ON (n : N) : obs := OZ (Z.of_N n).
Definition OB (b : bool) : obs := OZ (if b then 1 else 0)%Z.
Definition OOpt (o : option obs) : obs :=
  match o with Some x => OL [x] | None => OL [] end.
(* result outcome class: 0 = Ok (with payload), 1 = Err, 2 = Panic *)
Definition ORes (r : result obs) : obs :=
  match r with
  | Ok x => OL [OZ 0; x]
  | Err => OL [OZ 1]
  | Panic => OL [OZ 2]
  end.
Definition OLN (l : list N) : obs := OL (map ON l).

(* machine-integer bounds *)
Definition U64 : N := 18446744073709551616%N.          (* 2^64 *)
Definition u64_add (a b : N) : result N :=
  if (a + b <? U64)%N then Ok (a + b)%N else Panic.
Definition u64_mul (a b : N) : result N :=
  if (a * b <? U64)%N then Ok (a * b)%N else Panic.
