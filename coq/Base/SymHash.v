(* Base/SymHash.v — ideal hashing.  A [bt] is a *byte-string term*: literal
   bytes, the digest of the concatenation of a list of terms (under a named
   algorithm), or the lowercase-hex rendering of a term.
   H-inj (collision freedom) is constructor injectivity of [BHash];
   H-sep is constructor disjointness.  These are modelling assumptions
   (DESIGN.md section 4), not axioms: they are how the model is defined. *)
From Coq Require Import Lia.
From MV Require Import Base.Prelude.

Inductive bt : Type :=
| BLit (bytes : list N)
| BHash (alg : N) (pre : list bt)
| BHex (t : bt).

(* algorithm tags *)
Definition SHA256 : N := 0%N.
Definition BLAKE2B_256 : N := 1%N.
Definition BLAKE2S_256 : N := 2%N.
Definition BLAKE2B_512 : N := 3%N.
Definition BLAKE2B_224 : N := 4%N.

Fixpoint list_eqb {A} (eqb : A -> A -> bool) (xs ys : list A) : bool :=
  match xs, ys with
  | [], [] => true
  | x :: xs', y :: ys' => eqb x y && list_eqb eqb xs' ys'
  | _, _ => false
  end.

Fixpoint bt_eqb (a b : bt) {struct a} : bool :=
  match a, b with
  | BLit x, BLit y => list_eqb N.eqb x y
  | BHash g xs, BHash h ys =>
      N.eqb g h &&
      (fix go (xs ys : list bt) {struct xs} : bool :=
         match xs, ys with
         | [], [] => true
         | x :: xs', y :: ys' => bt_eqb x y && go xs' ys'
         | _, _ => false
         end) xs ys
  | BHex x, BHex y => bt_eqb x y
  | _, _ => false
  end.

(* size: number of constructors; a digest is strictly larger than anything in its pre-image *)
Fixpoint bt_size (a : bt) : nat :=
  match a with
  | BLit _ => 1
  | BHash _ xs => S ((fix go (xs : list bt) : nat := match xs with [] => 0 | x :: xs' => bt_size x + go xs' end) xs)
  | BHex x => S (bt_size x)
  end.

Lemma list_eqb_N_eq (x y : list N) : list_eqb N.eqb x y = true <-> x = y.
Proof.
  revert y; induction x as [|a x IH]; intros [|b y]; simpl; split; intros H; try reflexivity; try discriminate.
  - apply andb_true_iff in H as [H1 H2]. apply N.eqb_eq in H1. apply IH in H2. subst; reflexivity.
  - injection H as -> ->. apply andb_true_iff; split; [apply N.eqb_refl | apply IH; reflexivity].
Qed.

(* induction principle that reaches inside the nested list *)
Section bt_induction.
  Variable P : bt -> Prop.
  Hypothesis HLit : forall l, P (BLit l).
  Hypothesis HHash : forall g xs, Forall P xs -> P (BHash g xs).
  Hypothesis HHex : forall t, P t -> P (BHex t).
  Fixpoint bt_ind' (t : bt) : P t :=
    match t with
    | BLit l => HLit l
    | BHash g xs =>
        HHash g xs ((fix go (xs : list bt) : Forall P xs :=
                       match xs with
                       | [] => Forall_nil P
                       | x :: xs' => Forall_cons x (bt_ind' x) (go xs')
                       end) xs)
    | BHex t' => HHex t' (bt_ind' t')
    end.
End bt_induction.

Lemma bt_eqb_eq (a b : bt) : bt_eqb a b = true <-> a = b.
Proof.
  revert b. induction a as [l | g xs IH | t IH] using bt_ind'; intros b; destruct b as [l' | h ys | t']; simpl;
    try (split; intros H; discriminate).
  - rewrite list_eqb_N_eq. split; [intros ->; reflexivity | intros [= ->]; reflexivity].
  - rewrite andb_true_iff, N.eqb_eq.
    assert (Hgo : forall ys,
      (fix go (xs ys : list bt) {struct xs} : bool :=
         match xs, ys with
         | [], [] => true
         | x :: xs', y :: ys' => bt_eqb x y && go xs' ys'
         | _, _ => false
         end) xs ys = true <-> xs = ys).
    { clear h ys. induction IH as [| x xs Hx _ IHxs]; intros [|y ys]; split; intros H; try reflexivity; try discriminate.
      - apply andb_true_iff in H as [H1 H2]. apply Hx in H1. apply IHxs in H2. subst; reflexivity.
      - injection H as -> ->. apply andb_true_iff; split; [apply Hx; reflexivity | apply IHxs; reflexivity]. }
    rewrite Hgo. split; [intros [-> ->]; reflexivity | intros [= -> ->]; split; reflexivity].
  - rewrite IH. split; [intros ->; reflexivity | intros [= ->]; reflexivity].
Qed.

Lemma bt_eqb_refl (a : bt) : bt_eqb a a = true.
Proof. apply bt_eqb_eq. reflexivity. Qed.

Lemma bt_eq_dec (a b : bt) : {a = b} + {a <> b}.
Proof.
  destruct (bt_eqb a b) eqn:E; [left; apply bt_eqb_eq; exact E | right; intros H; apply bt_eqb_eq in H; congruence].
Qed.

(* H-inj and H-sep, named so that proofs cite them explicitly *)
Lemma H_inj g h xs ys : BHash g xs = BHash h ys -> g = h /\ xs = ys.
Proof. intros [= -> ->]; split; reflexivity. Qed.
Lemma H_sep_lit g xs l : BHash g xs <> BLit l.
Proof. discriminate. Qed.
Lemma Hex_inj a b : BHex a = BHex b -> a = b.
Proof. intros [= ->]; reflexivity. Qed.

(* observation of a term for the correspondence channel is by *equality
   pattern*: harnesses number the distinct byte strings of a batch; models map
   terms to the index of their first occurrence in a list of terms. *)
Fixpoint index_of (t : bt) (seen : list bt) (i : N) : option N :=
  match seen with
  | [] => None
  | s :: rest => if bt_eqb t s then Some i else index_of t rest (i + 1)%N
  end.

(* canonical numbering of a list of terms by first occurrence: [a;b;a;c] -> [0;1;0;2] *)
Fixpoint eq_pattern_go (ts seen : list bt) : list N :=
  match ts with
  | [] => []
  | t :: rest =>
      match index_of t seen 0%N with
      | Some i => i :: eq_pattern_go rest seen
      | None => N.of_nat (length seen) :: eq_pattern_go rest (seen ++ [t])
      end
  end.
Definition eq_pattern (ts : list bt) : list N := eq_pattern_go ts [].
