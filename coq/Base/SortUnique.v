(* Base/SortUnique.v — insertion sort under a decidable total order: the result
   depends only on the multiset of its input (isort_perm). *)
From Coq Require Import List Permutation Bool Sorted Lia.
Import ListNotations.

Section SortUnique.
  Variable A : Type.
  Variable leb : A -> A -> bool.
  Hypothesis leb_total : forall x y, leb x y = true \/ leb y x = true.
  Hypothesis leb_trans : forall x y z, leb x y = true -> leb y z = true -> leb x z = true.
  Hypothesis leb_antisym : forall x y, leb x y = true -> leb y x = true -> x = y.

  Fixpoint insert (x : A) (l : list A) : list A :=
    match l with
    | [] => [x]
    | y :: r => if leb x y then x :: l else y :: insert x r
    end.
  Definition isort (l : list A) : list A := fold_right insert [] l.

  Definition le x y := leb x y = true.
  Definition sorted := Sorted le.

  Lemma insert_sorted x l : sorted l -> sorted (insert x l).
  Proof.
    induction 1 as [|y r Hs IH Hhd]; simpl; [repeat constructor|].
    destruct (leb x y) eqn:E.
    - constructor; [constructor; assumption | constructor; exact E].
    - constructor; [exact IH|].
      destruct r as [|z r']; simpl.
      + constructor. destruct (leb_total x y) as [H|H]; [congruence | exact H].
      + inversion Hhd; subst. destruct (leb x z); constructor; [destruct (leb_total x y) as [H'|H']; [congruence | exact H'] | assumption].
  Qed.
  Lemma isort_sorted l : sorted (isort l).
  Proof. induction l; simpl; [constructor | apply insert_sorted; assumption]. Qed.

  Lemma not_le_ge x y : leb x y = false -> leb y x = true.
  Proof. intros H. destruct (leb_total x y); congruence. Qed.

  Lemma insert_comm x y l : sorted l -> insert x (insert y l) = insert y (insert x l).
  Proof.
    induction 1 as [|z r Hs IH Hhd].
    - cbn [insert]. destruct (leb x y) eqn:Exy, (leb y x) eqn:Eyx; try reflexivity.
      + rewrite (leb_antisym x y Exy Eyx). reflexivity.
      + apply not_le_ge in Exy. congruence.
    - cbn [insert].
      destruct (leb y z) eqn:Eyz; destruct (leb x z) eqn:Exz; cbn [insert].
      + destruct (leb x y) eqn:Exy; destruct (leb y x) eqn:Eyx; cbn [insert]; rewrite ?Exz, ?Eyz, ?Exy, ?Eyx; try reflexivity.
        * rewrite (leb_antisym x y Exy Eyx). reflexivity.
        * apply not_le_ge in Exy. congruence.
      + assert (Hzx := not_le_ge _ _ Exz). assert (Hyx : leb y x = true) by (eapply leb_trans; eassumption).
        destruct (leb x y) eqn:Exy.
        * assert (x = y) by (apply leb_antisym; assumption). subst. congruence.
        * cbn [insert]. rewrite ?Hyx, ?Exz, ?Eyz. reflexivity.
      + assert (Hzy := not_le_ge _ _ Eyz). assert (Hxy : leb x y = true) by (eapply leb_trans; eassumption).
        destruct (leb y x) eqn:Eyx.
        * assert (x = y) by (apply leb_antisym; assumption). subst. congruence.
        * cbn [insert]. rewrite ?Hxy, ?Exz, ?Eyz. reflexivity.
      + rewrite Exz, Eyz. f_equal. apply IH.
  Qed.

  Theorem isort_perm l l' : Permutation l l' -> isort l = isort l'.
  Proof.
    induction 1; simpl.
    - reflexivity.
    - f_equal. assumption.
    - apply insert_comm. apply isort_sorted.
    - congruence.
  Qed.

  Lemma insert_perm x l : Permutation (x :: l) (insert x l).
  Proof.
    induction l as [|y r IH]; simpl; [reflexivity|].
    destruct (leb x y); [reflexivity|].
    rewrite perm_swap. apply perm_skip. exact IH.
  Qed.
  Lemma isort_is_perm l : Permutation l (isort l).
  Proof.
    induction l as [|x l IH]; simpl; [constructor|].
    rewrite <- insert_perm. apply perm_skip. exact IH.
  Qed.
End SortUnique.
Arguments insert {A} leb x l.
Arguments isort {A} leb l.
