(* C03/Properties.v — certificate chain verification accepts only chains anchored in the
   genesis key.  Model: C03/Model.v (the verifier after the fix commit that rejects a link to a
   following epoch); certificate and hash model: C04/Model.v. *)
From MV Require Import Base.Prelude Base.Machine Base.SymHash Base.IdealSig Gen.Consts C04.Model C03.Model C03.Proofs C03.ProofsClient.
Open Scope N_scope.

(* Acceptance implies a finite chain of links (fewer than the fuel used) from the certificate to a
   genesis certificate whose signature verifies under the configured key; every certificate on
   the way satisfies [cert_ok] (hash = hash of content, signed message = digest of the protocol
   message, epoch inside the signed message) and carries a multi-signature valid for its signed
   message under its own key and parameters; every link satisfies [link_ok] (previous hash, and
   same epoch / same key / same parameters, or the immediately preceding epoch whose signed
   message commits to exactly this key and these parameters).  For every provider. *)
Theorem C03_sound : forall gvk prov fuel c, verify_chain fuel gvk prov c = Accept ->
  exists n, (n < fuel)%nat /\ anchored gvk prov n c.
Proof. exact chain_sound. Qed.

(* one step: what verify_standard_certificate / verify_genesis_certificate establish *)
Theorem C03_standard_step : forall c p, verify_standard c p = Ok tt ->
  exists t s, sig c = MultiSig t s /\ cert_ok c /\ msig_ok c s /\ hash c <> prev c /\ link_ok c p.
Proof. exact verify_standard_sound. Qed.
Theorem C03_genesis_step : forall gvk c, verify_genesis gvk c = Ok tt ->
  exists s, sig c = GenesisSig s /\ cert_ok c /\ s = SigOf gvk (signed c).
Proof. exact verify_genesis_sound. Qed.

(* the epoch clause at full strength: nothing but the same or the immediately preceding epoch *)
Theorem C03_epoch_link : forall c p, verify_epoch_chaining c p = Ok tt ->
  epoch p = epoch c \/ epoch p + 1 = epoch c.
Proof. exact verify_epoch_chaining_ok. Qed.

(* The real loop is unbounded; under H-inj it cannot spin: previous_hash is a strict sub-term of a
   hash that matches its content, so S (size of the hash term) steps always suffice and more fuel
   changes nothing — for every provider, including ones serving cycles of any length. *)
Theorem C03_terminates : forall gvk prov c,
  let n := S (bt_size (hash c)) in
  verify_chain n gvk prov c <> OutOfFuel /\
  forall m, (n <= m)%nat -> verify_chain m gvk prov c = verify_chain n gvk prov c.
Proof. exact chain_terminates. Qed.
Theorem C03_step_decreases : forall gvk prov c p, verify_certificate gvk prov c = Ok (Some p) ->
  (bt_size (hash p) < bt_size (hash c))%nat.
Proof. exact step_decreases. Qed.

(* ---- non-vacuity: a two-certificate chain (genesis at epoch 1, standard at epoch 2) is accepted ---- *)
Definition ex_meta := mk_meta [100] [49] 5 100 (5854679515581645, -53)%Z 1%Z 2%Z [([112], 10)].
Definition ex_pm (e : N) : list (nat * bt) :=
  [(3%nat, BHex (BLit [7])); (4%nat, pph 5 100 (5854679515581645, -53)%Z); (5%nat, BLit (dec e))].
Definition ex_g : cert :=
  fin (mk_cert (BLit []) (BLit []) 1 ex_meta (ex_pm 1) (pm_hash (pmsg_of (ex_pm 1))) (BLit [6])
         (GenesisSig (SigOf 42 (pm_hash (pmsg_of (ex_pm 1)))))).
Definition ex_c : cert :=
  fin (mk_cert (BLit []) (hash ex_g) 2 ex_meta (ex_pm 2) (pm_hash (pmsg_of (ex_pm 2))) (BLit [7])
         (MultiSig (CDb 2 1) (MSby 1 (BLit [7]) (fixp 5 100 (5854679515581645, -53)%Z) (pm_hash (pmsg_of (ex_pm 2)))))).
Example C03_ex_accept : verify_chain 5 42 (lookup [(hash ex_g, ex_g)]) ex_c = Accept.
Proof. vm_compute. reflexivity. Qed.
(* … and the same chain is rejected under another genesis key, and when the link points forward *)
Example C03_ex_wrong_key : verify_chain 5 43 (lookup [(hash ex_g, ex_g)]) ex_c = Reject.
Proof. vm_compute. reflexivity. Qed.
Example C03_ex_forward_link_rejected :
  verify_epoch_chaining (apply_mut ex_c (MEpoch 2)) (apply_mut ex_g (MEpoch 3)) = Err.
Proof. vm_compute. reflexivity. Qed.

(* ================= mithril-client: the client's own walk and its verifier cache ================= *)
(* [cache_sound k]: every pair the cache remembers is a validated step ([step_ok]: the certificate
   with that hash passed every check of verify_standard_certificate against a parent certificate
   whose content matches the remembered previous hash).  It holds for the empty cache and is kept by
   every call of verify_chain — accepted or rejected, whatever the provider serves: a failed
   verification cannot poison the cache. *)
Theorem C03_client_cache_empty : cache_sound [].
Proof. exact cache_sound_nil. Qed.
Theorem C03_client_cache_invariant : forall gvk prov fuel k h o k', cache_sound k ->
  client_verify_chain fuel true gvk prov k h = (o, k') -> cache_sound k'.
Proof. exact client_invariant. Qed.
(* Acceptance by the client, with whatever the cache remembers from earlier calls against other
   providers: the certificate served for the requested hash is [hanchored] — there are certificates,
   each matching its hash, that form a chain of valid steps ([step_ok]: hash, signed message, epoch
   in message, multi-signature under its own key and parameters, no self-loop, [link_ok]) from it to
   a genesis certificate verifying under the configured key. *)
Theorem C03_client_sound : forall gvk prov fuel k h k', cache_sound k ->
  client_verify_chain fuel true gvk prov k h = (Accept, k') ->
  exists c, prov h = Some c /\ hanchored gvk (hash c).
Proof. exact client_sound. Qed.
(* without a cache the client's two loops are exactly the common verifier's walk *)
Theorem C03_client_no_cache : forall gvk prov fuel k h c, prov h = Some c ->
  client_verify_chain fuel false gvk prov k h = (verify_chain fuel gvk prov c, k).
Proof. exact client_nocache. Qed.

(* ---- non-vacuity: a third certificate at epoch 3; the honest chain is accepted twice (the second
   time through the cache); then an adversary's certificate (own key [9], valid multi-signature)
   chained to the hash of the honest epoch-2 certificate, with that request answered by a copy of
   the honest certificate that commits to key [9] under the honest hash field, is rejected — the
   history that was accepted before the fix ---- *)
Definition ex_c3 : cert :=
  fin (mk_cert (BLit []) (hash ex_c) 3 ex_meta (ex_pm 3) (pm_hash (pmsg_of (ex_pm 3))) (BLit [7])
         (MultiSig (CDb 3 1) (MSby 2 (BLit [7]) (fixp 5 100 (5854679515581645, -53)%Z) (pm_hash (pmsg_of (ex_pm 3)))))).
Definition ex_forged : cert :=
  fin (mk_cert (BLit []) (hash ex_c) 3 ex_meta (ex_pm 3) (pm_hash (pmsg_of (ex_pm 3))) (BLit [9])
         (MultiSig (CDb 3 1) (MSby 3 (BLit [9]) (fixp 5 100 (5854679515581645, -53)%Z) (pm_hash (pmsg_of (ex_pm 3)))))).
Definition ex_fake_parent : cert :=
  apply_mut ex_c (MPm (pmsg_of [(3%nat, BHex (BLit [9])); (4%nat, pph 5 100 (5854679515581645, -53)%Z); (5%nat, BLit (dec 2))])).
Definition ex_honest_tbl := [(hash ex_g, ex_g); (hash ex_c, ex_c); (hash ex_c3, ex_c3)].
Definition ex_forged_tbl := [(hash ex_g, ex_g); (hash ex_c, ex_fake_parent); (hash ex_forged, ex_forged)].
Example C03_ex_client_history :
  run_client true 42 [CRun ex_honest_tbl (hash ex_c3); CRun ex_honest_tbl (hash ex_c3);
                      CRun ex_forged_tbl (hash ex_forged)]
  = OL [OZ 0%Z; OZ 0%Z; OZ 1%Z].
Proof. vm_compute. reflexivity. Qed.
(* the forged certificate passes every check against the served parent: only the parent's own hash tells *)
Example C03_ex_forged_step_passes : verify_standard ex_forged ex_fake_parent = Ok tt /\ verify_hash ex_fake_parent = Err.
Proof. vm_compute. split; reflexivity. Qed.
