(* C03/Model.v — certificate chain verification.  Executable definitions only.
   Source: mithril-common/src/certificate_chain/certificate_verifier.rs
   (MithrilCertificateVerifier: verify_certificate, verify_genesis_certificate,
   verify_standard_certificate, verify_standard_certificate_integrity and the helpers they call,
   in source order), CertificateVerifier::verify_certificate_chain (the loop),
   entities/epoch.rs (has_gap_with).  Default build: feature `future_snark` off, so the only
   aggregate signature type is Concatenation (certifies_full_certificate_chain = false).
   The certificate, its hash and the protocol message are those of C04/Model.v.
   Idealisations: S-ideal genesis signature (Base/IdealSig); a multi-signature is an ideal object
   [ms_by = Some (avk, (k, m, phi_fixed), message)] valid for exactly that triple (the STM verifier is
   property C01); a protocol-message value decodes to an aggregate key iff it is the codec text
   [BHex k] of a key term.  The provider is an arbitrary function (the adversary). *)
From Coq Require Import String.
From MV Require Import Base.Prelude Base.Machine Base.SymHash Base.IdealSig Gen.Consts C04.Model.
Open Scope N_scope.

Fixpoint find_key (v : string) (l : list (string * string)) : list N :=
  match l with
  | [] => []
  | (a, b) :: r => if String.eqb a v then bytes_of_string b else find_key v r
  end.
Definition K_NEXT_AVK : list N := find_key "NextAggregateVerificationKey" PM_KEYS.
Definition K_NEXT_PP : list N := find_key "NextProtocolParameters" PM_KEYS.
Definition K_CUR_EPOCH : list N := find_key "CurrentEpoch" PM_KEYS.

Definition check (b : bool) : result unit := if b then Ok tt else Err.

(* verify_is_not_in_infinite_loop *)
Definition verify_no_self_loop (c : cert) : result unit := check (negb (bt_eqb (hash c) (prev c))).
(* verify_hash_matches_content *)
Definition verify_hash (c : cert) : result unit :=
  do h <- cert_hash c; check (bt_eqb h (hash c)).
(* verify_signed_message_matches_hashed_protocol_message *)
Definition verify_signed_message (c : cert) : result unit := check (bt_eqb (pm_hash (pm c)) (signed c)).
(* verify_epoch_matches_protocol_message *)
Definition verify_epoch_in_message (c : cert) : result unit :=
  check (match pm_get (pm c) K_CUR_EPOCH with
         | Some v => bt_eqb v (BLit (dec (epoch c)))
         | None => false
         end).
(* verify_multi_signature (ideal) *)
Definition fixed_params (p : pparams) : result (N * N * N) :=
  do f <- phi_fixed (pp_phi p); Ok (pp_k p, pp_m p, f).
Definition verify_multi_signature (c : cert) (s : msig) : result unit :=
  do fp <- fixed_params (params (meta c));
  check (match ms_by s with
         | Some (a, (k, m, f), msg) =>
             let '(k', m', f') := fp in
             bt_eqb a (avk c) && N.eqb k k' && N.eqb m m' && N.eqb f f' && bt_eqb msg (signed c)
         | None => false
         end).

(* verify_standard_certificate_integrity *)
Definition verify_standard_integrity (c : cert) : result unit :=
  match sig c with
  | MultiSig _ s =>
      do _ <- verify_no_self_loop c;
      do _ <- verify_hash c;
      do _ <- verify_signed_message c;
      do _ <- verify_multi_signature c s;
      verify_epoch_in_message c
  | GenesisSig _ => Err
  end.

(* Epoch::has_gap_with: abs_diff > 1 *)
Definition has_gap_with (a b : N) : bool := 1 <? (if a <=? b then b - a else a - b).
(* verify_epoch_chaining (with the fix: a link to a following epoch is rejected) *)
Definition verify_epoch_chaining (c p : cert) : result unit :=
  check (negb (has_gap_with (epoch c) (epoch p) || (epoch c <? epoch p))).
(* verify_previous_hash_matches_previous_certificate_hash *)
Definition verify_previous_hash (c p : cert) : result unit := check (bt_eqb (hash p) (prev c)).
(* ProtocolAggregateVerificationKeyForConcatenation::try_from(text).ok() *)
Definition decode_avk (v : bt) : option bt := match v with BHex k => Some k | _ => None end.
(* verify_concatenation_aggregate_verification_key_chaining *)
Definition verify_avk_chaining (c p : cert) : result unit :=
  check (if epoch p =? epoch c then bt_eqb (avk p) (avk c)
         else match pm_get (pm p) K_NEXT_AVK with
              | Some v => match decode_avk v with Some k => bt_eqb k (avk c) | None => false end
              | None => false
              end).
(* verify_protocol_parameters_chaining; ProtocolParameters::eq compares k, m and phi_f_fixed() *)
Definition verify_params_chaining (c p : cert) : result unit :=
  if epoch p =? epoch c then
    do a <- fixed_params (params (meta p)); do b <- fixed_params (params (meta c));
    let '(k, m, f) := a in let '(k', m', f') := b in
    check (N.eqb k k' && N.eqb m m' && N.eqb f f')
  else match pm_get (pm p) K_NEXT_PP with
       | Some v => do ph <- pp_hash (params (meta c)); check (bt_eqb v ph)
       | None => Err
       end.

(* verify_genesis_certificate *)
Definition verify_genesis (gvk : N) (c : cert) : result unit :=
  match sig c with
  | GenesisSig s =>
      do _ <- verify_hash c;
      do _ <- verify_signed_message c;
      do _ <- check (sg_verify s gvk (signed c));
      verify_epoch_in_message c
  | MultiSig _ _ => Err
  end.

(* verify_standard_certificate *)
Definition verify_standard (c p : cert) : result unit :=
  do _ <- verify_standard_integrity c;
  do _ <- verify_epoch_chaining c p;
  do _ <- verify_previous_hash c p;
  do _ <- verify_avk_chaining c p;
  verify_params_chaining c p.

Definition is_genesis (c : cert) : bool := match sig c with GenesisSig _ => true | _ => false end.

(* verify_certificate: Ok None = chain ends here (genesis), Ok (Some p) = continue with p *)
Definition verify_certificate (gvk : N) (prov : bt -> option cert) (c : cert) : result (option cert) :=
  if is_genesis c then do _ <- verify_genesis gvk c; Ok None
  else match prov (prev c) with
       | None => Err                               (* retriever error *)
       | Some p => do _ <- verify_standard c p; Ok (Some p)
       end.

Inductive outcome := Accept | Reject | Crash | OutOfFuel.
(* verify_certificate_chain: `while let Some(previous) = verify_certificate(&certificate)?` *)
Fixpoint verify_chain (fuel : nat) (gvk : N) (prov : bt -> option cert) (c : cert) : outcome :=
  match fuel with
  | O => OutOfFuel
  | S f => match verify_certificate gvk prov c with
           | Ok None => Accept
           | Ok (Some p) => verify_chain f gvk prov p
           | Err => Reject
           | Panic => Crash
           end
  end.

(* ---------- helpers for the case terms ---------- *)
(* recompute the hash field from the content *)
Definition fin (c : cert) : cert :=
  apply_mut c (MHash (match cert_hash c with Ok h => h | _ => BLit [] end)).
Definition pph (k m : N) (phi : Z * Z) : bt :=
  match pp_hash {| pp_k := k; pp_m := m; pp_phi := phi |} with Ok h => h | _ => BLit [] end.
Definition fixp (k m : N) (phi : Z * Z) : N * N * N :=
  match phi_fixed phi with Ok f => (k, m, f) | _ => (k, m, 4294967296) end.
Definition MSby (id : N) (a : bt) (p : N * N * N) (msg : bt) : msig := {| ms_id := id; ms_by := Some (a, p, msg) |}.
(* a retriever that answers from a table keyed by the requested hash *)
Fixpoint lookup (tbl : list (bt * cert)) (h : bt) : option cert :=
  match tbl with
  | [] => None
  | (k, c) :: r => if bt_eqb k h then Some c else lookup r h
  end.
Definition obs_outcome (o : outcome) : obs :=
  OZ (match o with Accept => 0 | Reject => 1 | Crash => 2 | OutOfFuel => 3 end)%Z.
(* fuel: the walk is well-founded in the size of the hash term (C03_terminates) *)
Definition run (gvk : N) (tc : list (bt * cert) * cert) : obs :=
  let '(tbl, c) := tc in obs_outcome (verify_chain (S (bt_size (hash c))) gvk (lookup tbl) c).

(* ---------- mithril-client: certificate_client/verify.rs (MithrilCertificateVerifier::verify_chain) ----------
   The client walks the chain itself, one [verify_certificate] of the verifier above per step, and
   (feature `unstable`, used by the CLI and WASM clients) keeps a cache `certificate hash -> previous
   hash` of the steps it validated: MemoryCertificateVerifierCache (a HashMap: the newest entry for a
   key wins; entries do not expire during a run of the harness).  The cache is shared state between
   calls of verify_chain, so the model takes and returns it. *)
Definition vcache := list (bt * bt).
Fixpoint cache_get (k : vcache) (h : bt) : option bt :=
  match k with
  | [] => None
  | (a, b) :: r => if bt_eqb a h then Some b else cache_get r h
  end.
Definition cache_put (k : vcache) (h ph : bt) : vcache := (h, ph) :: k.

(* verify_without_cache: one step of the common verifier; the previous certificate it hands back has
   only served as a reference, so its hash is checked against its content before the step is recorded
   in the cache (fix commit; only when a cache is configured); genesis certificates are never recorded *)
Definition verify_without_cache (use : bool) (gvk : N) (prov : bt -> option cert) (k : vcache) (c : cert)
  : result (option cert) * vcache :=
  match verify_certificate gvk prov c with
  | Ok pr =>
      match (match pr with Some p => if use then verify_hash p else Ok tt | None => Ok tt end) with
      | Ok _ => (Ok pr, if use && negb (is_genesis c) then cache_put k (hash c) (prev c) else k)
      | Err => (Err, k)
      | Panic => (Panic, k)
      end
  | Err => (Err, k)
  | Panic => (Panic, k)
  end.

(* CertificateToVerify *)
Inductive to_verify := Downloaded (c : cert) | ToDownload (h : bt).
Definition tv_hash (x : to_verify) : bt := match x with Downloaded c => hash c | ToDownload h => h end.

(* second loop of verify_chain: verify_with_cache_enabled.  A cache hit skips the certificate (it is
   not even downloaded when it was reached through the cache); a certificate downloaded for a cached
   previous hash must carry that hash (fix commit) *)
Fixpoint client_cached (fuel : nat) (use : bool) (gvk : N) (prov : bt -> option cert) (k : vcache) (x : to_verify)
  : outcome * vcache :=
  match fuel with
  | O => (OutOfFuel, k)
  | S f =>
      match (if use then cache_get k (tv_hash x) else None) with
      | Some ph => client_cached f use gvk prov k (ToDownload ph)
      | None =>
          match (match x with
                 | Downloaded c => Some c
                 | ToDownload h => match prov h with
                                   | Some c => if bt_eqb (hash c) h then Some c else None
                                   | None => None
                                   end
                 end) with
          | None => (Reject, k)
          | Some c =>
              match verify_without_cache use gvk prov k c with
              | (Ok (Some p), k') => client_cached f use gvk prov k' (Downloaded p)
              | (Ok None, k') => (Accept, k')
              | (Err, k') => (Reject, k')
              | (Panic, k') => (Crash, k')
              end
          end
      end
  end.

(* first loop of verify_chain: no cache until the walk leaves the epoch of the start certificate *)
Fixpoint client_uncached (fuel : nat) (use : bool) (gvk : N) (prov : bt -> option cert) (k : vcache)
  (start_epoch : N) (c : cert) : outcome * vcache :=
  match fuel with
  | O => (OutOfFuel, k)
  | S f =>
      match verify_without_cache use gvk prov k c with
      | (Ok (Some p), k') =>
          if epoch p =? start_epoch then client_uncached f use gvk prov k' start_epoch p
          else client_cached f use gvk prov k' (Downloaded p)
      | (Ok None, k') => (Accept, k')
      | (Err, k') => (Reject, k')
      | (Panic, k') => (Crash, k')
      end
  end.

(* CertificateClient::verify_chain(hash): fetch the certificate served for [h], then walk *)
Definition client_verify_chain (fuel : nat) (use : bool) (gvk : N) (prov : bt -> option cert) (k : vcache) (h : bt)
  : outcome * vcache :=
  match prov h with
  | None => (Reject, k)
  | Some c => client_uncached fuel use gvk prov k (epoch c) c
  end.

(* a history of calls on one client (one cache): each call has its own provider *)
Inductive client_op := CRun (tbl : list (bt * cert)) (h : bt) | CReset.
Definition client_fuel (tbl : list (bt * cert)) (h : bt) : nat :=
  match lookup tbl h with Some c => S (bt_size (hash c)) | None => 1 end.
Fixpoint client_history (use : bool) (gvk : N) (k : vcache) (ops : list client_op) : list obs :=
  match ops with
  | [] => []
  | CReset :: r => client_history use gvk [] r
  | CRun tbl h :: r =>
      let '(o, k') := client_verify_chain (client_fuel tbl h) use gvk (lookup tbl) k h in
      obs_outcome o :: client_history use gvk k' r
  end.
(* the case term: all the calls share the certificates bound in front of the list of calls *)
Definition run_client (use : bool) (gvk : N) (ops : list client_op) : obs := OL (client_history use gvk [] ops).
