(* C03/ProofsClient.v — the client's walk with its verifier cache: soundness, cache invariant. *)
From Coq Require Import Lia Arith.
From MV Require Import Base.Prelude Base.Machine Base.SymHash Base.IdealSig Gen.Consts C04.Model C03.Model C03.Proofs.
Open Scope N_scope.

Definition hash_ok (c : cert) : Prop := cert_hash c = Ok (hash c).
(* a validated step: everything verify_standard_certificate establishes about [c] and its link to
   [p], and [p]'s content is the one its hash commits to *)
Definition step_ok (c p : cert) : Prop :=
  (exists t s, sig c = MultiSig t s /\ cert_ok c /\ msig_ok c s /\ hash c <> prev c /\ link_ok c p) /\ hash_ok p.
Definition genesis_ok (gvk : N) (c : cert) : Prop :=
  exists s, sig c = GenesisSig s /\ cert_ok c /\ s = SigOf gvk (signed c).

(* the property for a certificate hash: there are certificates — each one matching its hash —
   forming a chain of valid steps from that hash to a genesis certificate under the configured key.
   (The certificates need not be served by today's provider: the client may have validated them in
   an earlier call.  Under H-inj a hash determines its certificate.) *)
Inductive hanchored (gvk : N) : bt -> Prop :=
| HA_genesis c : genesis_ok gvk c -> hanchored gvk (hash c)
| HA_link c p : step_ok c p -> hanchored gvk (hash p) -> hanchored gvk (hash c).

(* every remembered pair is a validated step *)
Definition cache_sound (k : vcache) : Prop :=
  forall h ph, cache_get k h = Some ph -> exists c p, hash c = h /\ hash p = ph /\ step_ok c p.

Lemma cache_sound_nil : cache_sound [].
Proof. intros h ph H. discriminate. Qed.

Lemma cache_sound_put k c p : cache_sound k -> step_ok c p -> cache_sound (cache_put k (hash c) (prev c)).
Proof.
  intros Hk Hs h ph H. unfold cache_put in H. cbn [cache_get] in H.
  destruct (bt_eqb (hash c) h) eqn:E.
  - apply bt_eqb_eq in E. injection H as <-. exists c, p. split; [exact E|]. split; [|exact Hs].
    destruct Hs as ((t & s & _ & _ & _ & _ & (Hl & _)) & _). exact Hl.
  - apply Hk. exact H.
Qed.

(* one step *)
Lemma vwc_spec use gvk prov k c r k' : cache_sound k ->
  verify_without_cache use gvk prov k c = (r, k') ->
  cache_sound k' /\
  (r = Ok None -> genesis_ok gvk c) /\
  (forall p, r = Ok (Some p) -> (use = true -> step_ok c p) /\ prov (prev c) = Some p /\ verify_standard c p = Ok tt).
Proof.
  intros Hk H. unfold verify_without_cache in H.
  destruct (verify_certificate gvk prov c) as [pr| |] eqn:Ev.
  2,3: injection H as <- <-; (split; [exact Hk | split; [discriminate | intros p Hp; discriminate]]).
  unfold verify_certificate in Ev. destruct (is_genesis c) eqn:Eg.
  - (* genesis *)
    destruct (verify_genesis gvk c) as [[]| |] eqn:Eq; cbn [rbind] in Ev; try discriminate.
    injection Ev as <-. cbn [negb] in H. rewrite Bool.andb_false_r in H. injection H as <- <-.
    split; [exact Hk|]. split; [intros _; apply verify_genesis_sound; exact Eq | intros p Hp; discriminate].
  - destruct (prov (prev c)) as [p|] eqn:Ep; [|discriminate].
    destruct (verify_standard c p) as [[]| |] eqn:Es; cbn [rbind] in Ev; try discriminate.
    injection Ev as <-. cbn [negb] in H. rewrite Bool.andb_true_r in H.
    destruct use.
    + destruct (verify_hash p) as [[]| |] eqn:Eh.
      2,3: injection H as <- <-; (split; [exact Hk | split; [discriminate | intros q Hq; discriminate]]).
      injection H as <- <-.
      assert (Hst : step_ok c p).
      { split; [apply verify_standard_sound; exact Es | apply verify_hash_ok; exact Eh]. }
      split; [apply (cache_sound_put k c p); assumption|]. split; [discriminate|].
      intros q Hq. injection Hq as <-. split; [intros _; exact Hst | split; [reflexivity | exact Es]].
    + injection H as <- <-. split; [exact Hk|]. split; [discriminate|].
      intros q Hq. injection Hq as <-. split; [discriminate | split; [reflexivity | exact Es]].
Qed.

(* second loop *)
Lemma cached_spec gvk prov : forall fuel k x o k', cache_sound k ->
  client_cached fuel true gvk prov k x = (o, k') ->
  cache_sound k' /\ (o = Accept -> hanchored gvk (tv_hash x)).
Proof.
  induction fuel as [|f IH]; intros k x o k' Hk H.
  - cbn [client_cached] in H. injection H as <- <-. split; [exact Hk | discriminate].
  - cbn [client_cached] in H.
    destruct (cache_get k (tv_hash x)) as [ph|] eqn:Ec.
    + destruct (IH _ _ _ _ Hk H) as [Hk' Ha]. split; [exact Hk'|]. intros Ho.
      destruct (Hk _ _ Ec) as (c & p & Hc & Hp & Hs). rewrite <- Hc.
      eapply HA_link; [exact Hs|]. rewrite Hp. apply (Ha Ho).
    + set (got := match x with
                  | Downloaded c => Some c
                  | ToDownload h => match prov h with
                                    | Some c => if bt_eqb (hash c) h then Some c else None
                                    | None => None
                                    end
                  end) in H.
      assert (Hg : forall c, got = Some c -> hash c = tv_hash x).
      { intros c. unfold got. destruct x as [c0 | h]; cbn [tv_hash].
        - intros E. injection E as <-. reflexivity.
        - destruct (prov h) as [c0|]; [|discriminate]. destruct (bt_eqb (hash c0) h) eqn:E; [|discriminate].
          intros E'. injection E' as <-. apply bt_eqb_eq. exact E. }
      destruct got as [c|]; [|injection H as <- <-; split; [exact Hk | discriminate]].
      specialize (Hg c eq_refl).
      destruct (verify_without_cache true gvk prov k c) as [r k1] eqn:Ew.
      destruct (vwc_spec _ _ _ _ _ _ _ Hk Ew) as (Hk1 & Hgen & Hstd).
      destruct r as [[p|]| |].
      * destruct (IH _ _ _ _ Hk1 H) as [Hk' Ha]. split; [exact Hk'|]. intros Ho.
        destruct (Hstd p eq_refl) as (Hs & _). rewrite <- Hg. eapply HA_link; [apply Hs; reflexivity|].
        apply (Ha Ho).
      * injection H as <- <-. split; [exact Hk1|]. intros _. rewrite <- Hg. apply HA_genesis. apply Hgen. reflexivity.
      * injection H as <- <-. split; [exact Hk1 | discriminate].
      * injection H as <- <-. split; [exact Hk1 | discriminate].
Qed.

(* first loop *)
Lemma uncached_spec gvk prov : forall fuel k e c o k', cache_sound k ->
  client_uncached fuel true gvk prov k e c = (o, k') ->
  cache_sound k' /\ (o = Accept -> hanchored gvk (hash c)).
Proof.
  induction fuel as [|f IH]; intros k e c o k' Hk H.
  - cbn [client_uncached] in H. injection H as <- <-. split; [exact Hk | discriminate].
  - cbn [client_uncached] in H.
    destruct (verify_without_cache true gvk prov k c) as [r k1] eqn:Ew.
    destruct (vwc_spec _ _ _ _ _ _ _ Hk Ew) as (Hk1 & Hgen & Hstd).
    destruct r as [[p|]| |].
    + destruct (Hstd p eq_refl) as (Hs & _). specialize (Hs eq_refl).
      destruct (epoch p =? e).
      * destruct (IH _ _ _ _ _ Hk1 H) as [Hk' Ha]. split; [exact Hk'|]. intros Ho.
        eapply HA_link; [exact Hs | apply (Ha Ho)].
      * destruct (cached_spec gvk prov _ _ _ _ _ Hk1 H) as [Hk' Ha]. split; [exact Hk'|]. intros Ho.
        eapply HA_link; [exact Hs | apply (Ha Ho)].
    + injection H as <- <-. split; [exact Hk1|]. intros _. apply HA_genesis. apply Hgen. reflexivity.
    + injection H as <- <-. split; [exact Hk1 | discriminate].
    + injection H as <- <-. split; [exact Hk1 | discriminate].
Qed.

Theorem client_invariant gvk prov fuel k h o k' : cache_sound k ->
  client_verify_chain fuel true gvk prov k h = (o, k') -> cache_sound k'.
Proof.
  intros Hk H. unfold client_verify_chain in H. destruct (prov h) as [c|].
  - apply (uncached_spec gvk prov _ _ _ _ _ _ Hk H).
  - injection H as <- <-. exact Hk.
Qed.

Theorem client_sound gvk prov fuel k h k' : cache_sound k ->
  client_verify_chain fuel true gvk prov k h = (Accept, k') ->
  exists c, prov h = Some c /\ hanchored gvk (hash c).
Proof.
  intros Hk H. unfold client_verify_chain in H. destruct (prov h) as [c|]; [|discriminate].
  exists c. split; [reflexivity|]. apply (uncached_spec gvk prov _ _ _ _ _ _ Hk H). reflexivity.
Qed.

(* without a cache the client's walk is the common verifier's walk *)
Lemma vwc_nocache gvk prov k c :
  verify_without_cache false gvk prov k c = (verify_certificate gvk prov c, k).
Proof.
  unfold verify_without_cache. destruct (verify_certificate gvk prov c) as [[p|]| |]; reflexivity.
Qed.
Lemma cached_nocache gvk prov : forall fuel k c,
  client_cached fuel false gvk prov k (Downloaded c) = (verify_chain fuel gvk prov c, k).
Proof.
  induction fuel as [|f IH]; intros k c; [reflexivity|].
  cbn [client_cached verify_chain]. rewrite vwc_nocache.
  destruct (verify_certificate gvk prov c) as [[p|]| |]; try reflexivity. apply IH.
Qed.
Lemma uncached_nocache gvk prov : forall fuel k e c,
  client_uncached fuel false gvk prov k e c = (verify_chain fuel gvk prov c, k).
Proof.
  induction fuel as [|f IH]; intros k e c; [reflexivity|].
  cbn [client_uncached verify_chain]. rewrite vwc_nocache.
  destruct (verify_certificate gvk prov c) as [[p|]| |]; try reflexivity.
  destruct (epoch p =? e); [apply IH | apply cached_nocache].
Qed.
Theorem client_nocache gvk prov fuel k h c : prov h = Some c ->
  client_verify_chain fuel false gvk prov k h = (verify_chain fuel gvk prov c, k).
Proof. intros H. unfold client_verify_chain. rewrite H. apply uncached_nocache. Qed.
