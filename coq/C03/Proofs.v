(* C03/Proofs.v — soundness of the chain walk and its termination. *)
From Coq Require Import Lia Arith.
From MV Require Import Base.Prelude Base.Machine Base.SymHash Base.IdealSig Gen.Consts C04.Model C03.Model.
Open Scope N_scope.

Lemma check_ok b : check b = Ok tt -> b = true.
Proof. destruct b; [reflexivity | discriminate]. Qed.
Lemma bind_ok {A B} (r : result A) (f : A -> result B) b : rbind r f = Ok b -> exists a, r = Ok a /\ f a = Ok b.
Proof. destruct r; simpl; intros H; try discriminate. eauto. Qed.
Lemma bind_unit_ok {B} (r : result unit) (k : result B) b : (do _ <- r; k) = Ok b -> r = Ok tt /\ k = Ok b.
Proof. intros H. apply bind_ok in H. destruct H as ([] & H1 & H2). split; assumption. Qed.

(* ---------- the property, as a predicate ---------- *)
(* per-certificate conditions *)
Definition cert_ok (c : cert) : Prop :=
  cert_hash c = Ok (hash c) /\                                   (* hash matches content (C04 model) *)
  signed c = pm_hash (pm c) /\                                   (* signed message = digest of protocol message *)
  pm_get (pm c) K_CUR_EPOCH = Some (BLit (dec (epoch c))).       (* its epoch inside the signed message *)
(* multi-signature valid for the signed message under the certificate's own key and parameters *)
Definition msig_ok (c : cert) (s : msig) : Prop :=
  exists f, phi_fixed (pp_phi (params (meta c))) = Ok f /\
            ms_by s = Some (avk c, (pp_k (params (meta c)), pp_m (params (meta c)), f), signed c).
Definition same_params (p q : pparams) : Prop :=
  pp_k p = pp_k q /\ pp_m p = pp_m q /\ exists f, phi_fixed (pp_phi p) = Ok f /\ phi_fixed (pp_phi q) = Ok f.
(* per-link conditions: same epoch with the same key and parameters, or the immediately preceding
   epoch whose signed message commits to exactly this key and these parameters *)
Definition link_ok (c p : cert) : Prop :=
  hash p = prev c /\
  ((epoch p = epoch c /\ avk p = avk c /\ same_params (params (meta p)) (params (meta c))) \/
   (epoch p + 1 = epoch c /\
    pm_get (pm p) K_NEXT_AVK = Some (BHex (avk c)) /\
    exists ph, pp_hash (params (meta c)) = Ok ph /\ pm_get (pm p) K_NEXT_PP = Some ph)).

(* a finite chain of [n] links from [c] to a genesis certificate verifying under [gvk] *)
Inductive anchored (gvk : N) (prov : bt -> option cert) : nat -> cert -> Prop :=
| A_genesis c s : sig c = GenesisSig s -> cert_ok c -> s = SigOf gvk (signed c) -> anchored gvk prov 0 c
| A_link n c p t s : sig c = MultiSig t s -> cert_ok c -> msig_ok c s -> hash c <> prev c ->
    prov (prev c) = Some p -> link_ok c p -> anchored gvk prov n p -> anchored gvk prov (S n) c.

Lemma verify_hash_ok c : verify_hash c = Ok tt -> cert_hash c = Ok (hash c).
Proof.
  unfold verify_hash. intros H. apply bind_ok in H. destruct H as (h & H1 & H2).
  apply check_ok in H2. apply bt_eqb_eq in H2. subst. exact H1.
Qed.
Lemma verify_signed_ok c : verify_signed_message c = Ok tt -> signed c = pm_hash (pm c).
Proof. unfold verify_signed_message. intros H. apply check_ok in H. apply bt_eqb_eq in H. congruence. Qed.
Lemma verify_epoch_ok c : verify_epoch_in_message c = Ok tt -> pm_get (pm c) K_CUR_EPOCH = Some (BLit (dec (epoch c))).
Proof.
  unfold verify_epoch_in_message. intros H. apply check_ok in H.
  destruct (pm_get (pm c) K_CUR_EPOCH); [|discriminate]. apply bt_eqb_eq in H. congruence.
Qed.

Lemma verify_msig_ok c s : verify_multi_signature c s = Ok tt -> msig_ok c s.
Proof.
  unfold verify_multi_signature, fixed_params. intros H.
  apply bind_ok in H. destruct H as (fp & H1 & H2).
  apply bind_ok in H1. destruct H1 as (f & Hf & H1).
  injection H1 as <-.
  apply check_ok in H2. unfold msig_ok. destruct (ms_by s) as [[[a [[k m] f']] msg]|]; [|discriminate].
  apply andb_true_iff in H2 as [H2 E5]. apply andb_true_iff in H2 as [H2 E4].
  apply andb_true_iff in H2 as [H2 E3]. apply andb_true_iff in H2 as [E1 E2].
  apply bt_eqb_eq in E1, E5. apply N.eqb_eq in E2, E3, E4. subst.
  eexists. split; [exact Hf | reflexivity].
Qed.

Lemma fixed_params_ok p k m f : fixed_params p = Ok (k, m, f) ->
  k = pp_k p /\ m = pp_m p /\ phi_fixed (pp_phi p) = Ok f.
Proof.
  unfold fixed_params. intros H. apply bind_ok in H. destruct H as (f0 & Hf & H).
  injection H as <- <- <-. repeat split. exact Hf.
Qed.

Lemma verify_params_same c p : epoch p = epoch c -> verify_params_chaining c p = Ok tt ->
  same_params (params (meta p)) (params (meta c)).
Proof.
  intros E. unfold verify_params_chaining. rewrite (proj2 (N.eqb_eq _ _) E). intros H.
  apply bind_ok in H. destruct H as ([[k m] f] & Ha & H).
  apply bind_ok in H. destruct H as ([[k' m'] f'] & Hb & H).
  apply check_ok in H. apply andb_true_iff in H as [H E3]. apply andb_true_iff in H as [E1 E2].
  apply N.eqb_eq in E1, E2, E3. subst.
  apply fixed_params_ok in Ha, Hb. destruct Ha as (-> & -> & Ha). destruct Hb as (Hb1 & Hb2 & Hb).
  split; [exact Hb1 | split; [exact Hb2 | exists f'; split; assumption]].
Qed.

Lemma verify_params_next c p : epoch p <> epoch c -> verify_params_chaining c p = Ok tt ->
  exists ph, pp_hash (params (meta c)) = Ok ph /\ pm_get (pm p) K_NEXT_PP = Some ph.
Proof.
  intros E. unfold verify_params_chaining. rewrite (proj2 (N.eqb_neq _ _) E).
  destruct (pm_get (pm p) K_NEXT_PP) as [v|]; [|discriminate]. intros H.
  apply bind_ok in H. destruct H as (ph & Hp & H). apply check_ok in H. apply bt_eqb_eq in H. subst.
  exists ph. split; [exact Hp | reflexivity].
Qed.

Lemma verify_avk_same c p : epoch p = epoch c -> verify_avk_chaining c p = Ok tt -> avk p = avk c.
Proof.
  intros E. unfold verify_avk_chaining. rewrite (proj2 (N.eqb_eq _ _) E). intros H.
  apply check_ok in H. apply bt_eqb_eq in H. exact H.
Qed.
Lemma verify_avk_next c p : epoch p <> epoch c -> verify_avk_chaining c p = Ok tt ->
  pm_get (pm p) K_NEXT_AVK = Some (BHex (avk c)).
Proof.
  intros E. unfold verify_avk_chaining. rewrite (proj2 (N.eqb_neq _ _) E). intros H.
  apply check_ok in H. destruct (pm_get (pm p) K_NEXT_AVK) as [v|]; [|discriminate].
  destruct v as [l | g xs | k]; cbn [decode_avk] in H; try discriminate.
  apply bt_eqb_eq in H. subst. reflexivity.
Qed.

Lemma verify_epoch_chaining_ok c p : verify_epoch_chaining c p = Ok tt ->
  epoch p = epoch c \/ epoch p + 1 = epoch c.
Proof.
  unfold verify_epoch_chaining, has_gap_with. intros H. apply check_ok in H.
  apply negb_true_iff in H. apply orb_false_iff in H as [H1 H2].
  apply N.ltb_ge in H2. apply N.ltb_ge in H1.
  destruct (epoch c <=? epoch p) eqn:E; [apply N.leb_le in E | apply N.leb_gt in E]; lia.
Qed.

Lemma verify_standard_sound c p : verify_standard c p = Ok tt ->
  exists t s, sig c = MultiSig t s /\ cert_ok c /\ msig_ok c s /\ hash c <> prev c /\ link_ok c p.
Proof.
  unfold verify_standard. intros H.
  apply bind_unit_ok in H as [Hi H]. apply bind_unit_ok in H as [He H].
  apply bind_unit_ok in H as [Hp H]. apply bind_unit_ok in H as [Ha Hpp].
  unfold verify_standard_integrity in Hi. destruct (sig c) as [g | t s] eqn:Es; [discriminate|].
  apply bind_unit_ok in Hi as [Hl Hi]. apply bind_unit_ok in Hi as [Hh Hi].
  apply bind_unit_ok in Hi as [Hs Hi]. apply bind_unit_ok in Hi as [Hm Hep].
  exists t, s. split; [reflexivity|].
  split; [split; [apply verify_hash_ok; exact Hh | split; [apply verify_signed_ok; exact Hs | apply verify_epoch_ok; exact Hep]]|].
  split; [apply verify_msig_ok; exact Hm|].
  split.
  { unfold verify_no_self_loop in Hl. apply check_ok in Hl. apply negb_true_iff in Hl.
    intros E. rewrite E, bt_eqb_refl in Hl. discriminate. }
  split.
  { unfold verify_previous_hash in Hp. apply check_ok in Hp. apply bt_eqb_eq in Hp. exact Hp. }
  destruct (N.eq_dec (epoch p) (epoch c)) as [E | E].
  - left. split; [exact E|]. split; [apply verify_avk_same; assumption | apply verify_params_same; assumption].
  - right. destruct (verify_epoch_chaining_ok c p He) as [E' | E']; [contradiction|].
    split; [exact E'|]. split; [apply verify_avk_next; assumption | apply verify_params_next; assumption].
Qed.

Lemma verify_genesis_sound gvk c : verify_genesis gvk c = Ok tt ->
  exists s, sig c = GenesisSig s /\ cert_ok c /\ s = SigOf gvk (signed c).
Proof.
  unfold verify_genesis. destruct (sig c) as [s | t s] eqn:Es; [|discriminate]. intros H.
  apply bind_unit_ok in H as [Hh H]. apply bind_unit_ok in H as [Hs H]. apply bind_unit_ok in H as [Hg Hep].
  exists s. split; [reflexivity|].
  split; [split; [apply verify_hash_ok; exact Hh | split; [apply verify_signed_ok; exact Hs | apply verify_epoch_ok; exact Hep]]|].
  apply check_ok in Hg. apply sg_verify_spec in Hg. exact Hg.
Qed.

Theorem chain_sound gvk prov : forall fuel c, verify_chain fuel gvk prov c = Accept ->
  exists n, (n < fuel)%nat /\ anchored gvk prov n c.
Proof.
  induction fuel as [|f IH]; intros c H; [discriminate|].
  cbn [verify_chain] in H. unfold verify_certificate in H.
  destruct (is_genesis c) eqn:Eg.
  - destruct (verify_genesis gvk c) as [[]| |] eqn:Ev; cbn [rbind] in H; try discriminate.
    destruct (verify_genesis_sound gvk c Ev) as (s & Es & Hok & Hs).
    exists 0%nat. split; [lia|]. eapply A_genesis; eassumption.
  - destruct (prov (prev c)) as [p|] eqn:Ep; [|discriminate].
    destruct (verify_standard c p) as [[]| |] eqn:Ev; cbn [rbind] in H; try discriminate.
    destruct (verify_standard_sound c p Ev) as (t & s & Es & Hok & Hm & Hl & Hlk).
    destruct (IH p H) as (n & Hn & Ha).
    exists (S n). split; [lia|]. eapply A_link; eassumption.
Qed.

(* ---------- termination: previous_hash is a strict sub-term of hash ---------- *)
Fixpoint sum_size (l : list bt) : nat := match l with [] => 0 | x :: r => bt_size x + sum_size r end.
Lemma bt_size_hash g xs : bt_size (BHash g xs) = S (sum_size xs).
Proof. reflexivity. Qed.
Lemma sum_size_app a b : sum_size (a ++ b) = (sum_size a + sum_size b)%nat.
Proof. induction a; simpl; lia. Qed.
Lemma bt_size_pos t : (1 <= bt_size t)%nat.
Proof. destruct t; simpl; lia. Qed.

Lemma size_first_part x rest : (bt_size x < bt_size (hexdg (x :: rest)))%nat.
Proof.
  unfold hexdg, dg.
  change (bt_size (BHex (BHash SHA256 (flat (x :: rest))))) with (S (bt_size (BHash SHA256 (flat (x :: rest))))).
  rewrite bt_size_hash.
  change (flat (x :: rest)) with (flat1 x ++ flat rest). rewrite sum_size_app.
  destruct x as [l | g xs | t]; cbn [flat1].
  - change (bt_size (BLit l)) with 1%nat. lia.
  - cbn [sum_size]. lia.
  - cbn [sum_size]. lia.
Qed.

Lemma step_decreases gvk prov c p : verify_certificate gvk prov c = Ok (Some p) ->
  (bt_size (hash p) < bt_size (hash c))%nat.
Proof.
  unfold verify_certificate. destruct (is_genesis c).
  - destruct (verify_genesis gvk c) as [[]| |]; cbn [rbind]; discriminate.
  - destruct (prov (prev c)) as [q|]; [|discriminate].
    destruct (verify_standard c q) as [[]| |] eqn:Ev; cbn [rbind]; try discriminate.
    intros H. injection H as <-.
    destruct (verify_standard_sound c q Ev) as (t & s & Es & (Hh & _) & _ & _ & (Hp & _)).
    rewrite Hp. unfold cert_hash in Hh. destruct (meta_hash (meta c)) as [mh| |]; try discriminate.
    cbn [rbind] in Hh. injection Hh as Hh. rewrite <- Hh. unfold cert_parts. cbn [app]. apply size_first_part.
Qed.

Lemma chain_no_out_of_fuel gvk prov : forall fuel c, (bt_size (hash c) < fuel)%nat ->
  verify_chain fuel gvk prov c <> OutOfFuel.
Proof.
  induction fuel as [|f IH]; intros c Hs; [lia|].
  cbn [verify_chain]. destruct (verify_certificate gvk prov c) as [[p|]| |] eqn:Ev; try discriminate.
  apply IH. apply step_decreases in Ev. lia.
Qed.

Lemma chain_fuel_mono gvk prov : forall fuel c, verify_chain fuel gvk prov c <> OutOfFuel ->
  forall more, verify_chain (fuel + more) gvk prov c = verify_chain fuel gvk prov c.
Proof.
  induction fuel as [|f IH]; intros c H more; [exfalso; apply H; reflexivity|].
  cbn [verify_chain Nat.add] in *. destruct (verify_certificate gvk prov c) as [[p|]| |]; try reflexivity.
  apply IH. exact H.
Qed.

Theorem chain_terminates gvk prov c :
  let n := S (bt_size (hash c)) in
  verify_chain n gvk prov c <> OutOfFuel /\
  forall m, (n <= m)%nat -> verify_chain m gvk prov c = verify_chain n gvk prov c.
Proof.
  intros n. assert (H : verify_chain n gvk prov c <> OutOfFuel) by (apply chain_no_out_of_fuel; unfold n; lia).
  split; [exact H|]. intros m Hm. replace m with (n + (m - n))%nat by lia. apply chain_fuel_mono. exact H.
Qed.

(* an accepted walk visits pairwise different hashes: no cycle of any length *)
Lemma anchored_sizes gvk prov n c : anchored gvk prov n c -> (n < bt_size (hash c))%nat.
Proof.
  induction 1 as [c s Es Hok Hs | n c p t s Es Hok Hm Hl Hp Hlk Ha IH].
  - apply bt_size_pos.
  - destruct Hlk as [Hh _]. destruct Hok as [Hc _].
    assert (bt_size (hash p) < bt_size (hash c))%nat.
    { rewrite Hh. unfold cert_hash in Hc. destruct (meta_hash (meta c)) as [mh| |]; try discriminate.
      cbn [rbind] in Hc. injection Hc as Hc. rewrite <- Hc. unfold cert_parts. cbn [app]. apply size_first_part. }
    lia.
Qed.
