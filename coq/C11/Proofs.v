(* C11/Proofs.v — lemmas: decimal rendering, byte-level injectivity of the leaf encodings,
   soundness of the legacy and v2 response verification, protocol-message recomputation. *)
From Coq Require Import Lia String.
From MV Require Import Base.Prelude Base.SymHash Gen.Consts.
From MV Require C04.Model C04.PMInj.
From MV Require Import C09.Model C09.MmrProofs C09.RawLeaf C11.Model.
Open Scope N_scope.

(* ------------------------------------------------------------------ decimal *)
Fixpoint rval (l : list N) : N :=
  match l with [] => 0 | d :: r => (d - 48) + 10 * rval r end.

Lemma rdigits_val : forall fuel n, n < 2 ^ N.of_nat fuel -> rval (rdigits fuel n) = n.
Proof.
  induction fuel as [|f IH]; intros n Hn.
  - change (2 ^ N.of_nat 0) with 1 in Hn. assert (n = 0) by lia. subst. reflexivity.
  - cbn [rdigits rval]. assert (Hdm : n = 10 * (n / 10) + n mod 10) by (apply N.div_mod; discriminate).
    assert (Hlt : n mod 10 < 10) by (apply N.mod_lt; discriminate).
    assert (Hq : n / 10 < 2 ^ N.of_nat f).
    { rewrite Nat2N.inj_succ, N.pow_succ_r' in Hn. revert Hdm Hlt Hn.
      generalize (n mod 10), (n / 10), (2 ^ N.of_nat f). intros r q P. lia. }
    destruct (n / 10 =? 0) eqn:E.
    + apply N.eqb_eq in E. cbn [rval]. rewrite E in Hdm. revert Hdm Hlt. generalize (n mod 10). intros r. lia.
    + rewrite (IH _ Hq). revert Hdm Hlt. generalize (n mod 10), (n / 10). intros r q. lia.
Qed.

Lemma dec_fuel n : n < 2 ^ N.of_nat (S (N.to_nat (N.size n))).
Proof.
  rewrite Nat2N.inj_succ, N2Nat.id, N.pow_succ_r'.
  assert (H := N.size_gt n). lia.
Qed.

Lemma dec_inj n m : dec n = dec m -> n = m.
Proof.
  unfold dec. intros H.
  assert (H' : rdigits (S (N.to_nat (N.size n))) n = rdigits (S (N.to_nat (N.size m))) m).
  { rewrite <- (rev_involutive (rdigits _ n)), H, rev_involutive. reflexivity. }
  rewrite <- (rdigits_val _ n (dec_fuel n)), <- (rdigits_val _ m (dec_fuel m)), H'. reflexivity.
Qed.

Definition is_digit (b : N) : bool := (48 <=? b) && (b <=? 57).

Lemma rdigits_digits : forall fuel n, forallb is_digit (rdigits fuel n) = true.
Proof.
  induction fuel as [|f IH]; intros n; [reflexivity|].
  cbn [rdigits forallb]. apply andb_true_iff. split.
  - assert (Hlt : n mod 10 < 10) by (apply N.mod_lt; discriminate).
    revert Hlt. generalize (n mod 10). intros r Hlt.
    unfold is_digit. apply andb_true_iff. split; apply N.leb_le; lia.
  - destruct (n / 10 =? 0); [reflexivity | apply IH].
Qed.

Lemma forallb_rev {A} (f : A -> bool) l : forallb f (rev l) = forallb f l.
Proof.
  induction l as [|a l IH]; [reflexivity|]. simpl. rewrite forallb_app, IH. simpl. rewrite andb_true_r. apply andb_comm.
Qed.

Lemma dec_digits n : forallb is_digit (dec n) = true.
Proof. unfold dec. rewrite forallb_rev. apply rdigits_digits. Qed.

Lemma dec_nonempty n : dec n <> [].
Proof.
  unfold dec. cbn [rdigits]. intros H. apply (f_equal (@length N)) in H. rewrite rev_length in H. simpl in H. lia.
Qed.

Lemma digits_not_in b l : forallb is_digit l = true -> is_digit b = false -> ~ In b l.
Proof.
  intros Hl Hb Hin. rewrite forallb_forall in Hl. rewrite (Hl b Hin) in Hb. discriminate.
Qed.

Lemma dec_no_slash n : ~ In SLASH (dec n).
Proof. apply (digits_not_in SLASH _ (dec_digits n)). reflexivity. Qed.
Lemma dec_no_dash n : ~ In DASH (dec n).
Proof. apply (digits_not_in DASH _ (dec_digits n)). reflexivity. Qed.

(* ------------------------------------------------------------------ separators *)
Lemma split_sep (c : N) a a' r r' : ~ In c a -> ~ In c a' -> a ++ c :: r = a' ++ c :: r' -> a = a' /\ r = r'.
Proof.
  revert a'. induction a as [|x a IH]; intros [|y a'] Ha Ha' H; simpl in H.
  - injection H as <-. split; reflexivity.
  - injection H as <- _. exfalso. apply Ha'. left; reflexivity.
  - injection H as -> _. exfalso. apply Ha. left; reflexivity.
  - injection H as <- H. destruct (IH a') as [-> ->]; [| |exact H|split; reflexivity].
    + intros Hi; apply Ha; right; exact Hi.
    + intros Hi; apply Ha'; right; exact Hi.
Qed.

Definition cnt (c : N) (l : list N) : nat := count_occ N.eq_dec l c.
Lemma cnt_app c a b : cnt c (a ++ b) = (cnt c a + cnt c b)%nat.
Proof. apply count_occ_app. Qed.
Lemma cnt_cons_same c l : cnt c (c :: l) = S (cnt c l).
Proof. unfold cnt. apply count_occ_cons_eq. reflexivity. Qed.
Lemma cnt_zero c l : cnt c l = 0%nat <-> ~ In c l.
Proof. unfold cnt. symmetry. apply count_occ_not_In. Qed.
Lemma cnt_dec c n : is_digit c = false -> cnt c (dec n) = 0%nat.
Proof. intros H. apply cnt_zero. apply (digits_not_in c _ (dec_digits n) H). Qed.

Lemma TX_PREFIX_eq : TX_PREFIX = [84; 120; 47].
Proof. reflexivity. Qed.
Lemma BLOCK_PREFIX_eq : BLOCK_PREFIX = [66; 108; 111; 99; 107; 47].
Proof. reflexivity. Qed.

(* an honest item: the hashes contain no '/' (they are hex text) *)
Definition no_slash (l : bytes) : Prop := ~ In SLASH l.
Definition wf_tx (t : tx) : Prop := no_slash (t_hash t) /\ no_slash (t_bhash t).
Definition wf_blk (b : blk) : Prop := no_slash (b_hash b).

Lemma cnt_cons_neq c x l : x <> c -> cnt c (x :: l) = cnt c l.
Proof. intros H. unfold cnt. apply count_occ_cons_neq. exact H. Qed.

Lemma leaf_tx_cnt t : cnt SLASH (leaf_tx t) = (4 + cnt SLASH (t_hash t) + cnt SLASH (t_bhash t))%nat.
Proof.
  unfold leaf_tx. rewrite TX_PREFIX_eq. cbn [app]. change 47 with SLASH.
  rewrite (cnt_cons_neq SLASH 84) by (unfold SLASH; discriminate).
  rewrite (cnt_cons_neq SLASH 120) by (unfold SLASH; discriminate).
  rewrite cnt_cons_same, cnt_app, cnt_cons_same, cnt_app, cnt_cons_same, cnt_app, cnt_cons_same.
  rewrite !cnt_dec by reflexivity. lia.
Qed.

Lemma leaf_blk_cnt b : cnt SLASH (leaf_blk b) = (3 + cnt SLASH (b_hash b))%nat.
Proof.
  unfold leaf_blk. rewrite BLOCK_PREFIX_eq. cbn [app]. change 47 with SLASH.
  rewrite (cnt_cons_neq SLASH 66) by (unfold SLASH; discriminate).
  rewrite (cnt_cons_neq SLASH 108) by (unfold SLASH; discriminate).
  rewrite (cnt_cons_neq SLASH 111) by (unfold SLASH; discriminate).
  rewrite (cnt_cons_neq SLASH 99) by (unfold SLASH; discriminate).
  rewrite (cnt_cons_neq SLASH 107) by (unfold SLASH; discriminate).
  rewrite cnt_cons_same, cnt_app, cnt_cons_same, cnt_app, cnt_cons_same.
  rewrite !cnt_dec by reflexivity. lia.
Qed.

(* one side honest, the other ARBITRARY byte strings: equal leaves force equal items *)
Lemma leaf_tx_inj t t' : wf_tx t' -> leaf_tx t = leaf_tx t' -> t = t'.
Proof.
  intros [W1 W2] H.
  assert (Hc := f_equal (cnt SLASH) H). rewrite !leaf_tx_cnt in Hc.
  apply cnt_zero in W1, W2. unfold no_slash in *.
  assert (C1 : cnt SLASH (t_hash t) = 0%nat) by lia.
  assert (C2 : cnt SLASH (t_bhash t) = 0%nat) by lia.
  apply cnt_zero in C1, C2, W1, W2.
  unfold leaf_tx in H. apply app_inv_head in H.
  apply split_sep in H; [|assumption|assumption]. destruct H as [E1 H].
  apply split_sep in H; [|assumption|assumption]. destruct H as [E2 H].
  apply split_sep in H; [|apply dec_no_slash|apply dec_no_slash]. destruct H as [E3 E4].
  apply dec_inj in E3, E4. destruct t, t'; simpl in *; subst; reflexivity.
Qed.

Lemma leaf_blk_inj b b' : wf_blk b' -> leaf_blk b = leaf_blk b' -> b = b'.
Proof.
  intros W H.
  assert (Hc := f_equal (cnt SLASH) H). rewrite !leaf_blk_cnt in Hc.
  unfold wf_blk, no_slash in W. apply cnt_zero in W.
  assert (C1 : cnt SLASH (b_hash b) = 0%nat) by lia.
  apply cnt_zero in C1, W.
  unfold leaf_blk in H. apply app_inv_head in H.
  apply split_sep in H; [|assumption|assumption]. destruct H as [E1 H].
  apply split_sep in H; [|apply dec_no_slash|apply dec_no_slash]. destruct H as [E3 E4].
  apply dec_inj in E3, E4. destruct b, b'; simpl in *; subst; reflexivity.
Qed.

Lemma leaf_tx_blk_disjoint t b : leaf_tx t <> leaf_blk b.
Proof. unfold leaf_tx, leaf_blk. rewrite TX_PREFIX_eq, BLOCK_PREFIX_eq. simpl. intros H. discriminate H. Qed.

Definition v2_item (i : item) : Prop := match i with IHash _ => False | _ => True end.
Definition wf_item (i : item) : Prop :=
  match i with ITx t => wf_tx t | IBlk b => wf_blk b | IHash h => ~ In DASH h end.

Lemma leaf_inj i j : v2_item i -> v2_item j -> wf_item j -> leaf i = leaf j -> i = j.
Proof.
  destruct i as [t|b|h], j as [t'|b'|h']; simpl; intros Hi Hj W H; try contradiction.
  - f_equal. apply leaf_tx_inj; assumption.
  - exfalso. exact (leaf_tx_blk_disjoint _ _ H).
  - exfalso. symmetry in H. exact (leaf_tx_blk_disjoint _ _ H).
  - f_equal. apply leaf_blk_inj; assumption.
Qed.

(* a v2 leaf is never a block-range key (keys start with a digit); a legacy hash without '-'
   is never one either *)
Lemma dec_head n : exists d r, dec n = d :: r /\ is_digit d = true.
Proof.
  destruct (dec n) as [|d r] eqn:E; [exfalso; exact (dec_nonempty n E)|].
  exists d, r. split; [reflexivity|]. assert (H := dec_digits n). rewrite E in H. simpl in H.
  apply andb_true_iff in H. apply H.
Qed.

Lemma leaf_not_key i s e : wf_item i -> leaf i <> range_key s e.
Proof.
  unfold range_key. destruct (dec_head s) as [d [r [E Hd]]]. rewrite E.
  destruct i as [t|b|h]; simpl; intros W H.
  - unfold leaf_tx in H. rewrite TX_PREFIX_eq in H. simpl in H. injection H as <- _. discriminate Hd.
  - unfold leaf_blk in H. rewrite BLOCK_PREFIX_eq in H. simpl in H. injection H as <- _. discriminate Hd.
  - apply W. rewrite H. simpl. right. apply in_or_app. right. left. reflexivity.
Qed.

(* ------------------------------------------------------------------ set proofs *)
Lemma set_verify_spec leaves p : set_verify leaves p = true ->
  map_verify_b p = true /\ forall l, In l leaves -> map_contains_b p (BLit l) = true.
Proof.
  unfold set_verify. intros H. apply andb_true_iff in H. destruct H as [Hv Hc].
  split; [exact Hv|]. rewrite forallb_forall in Hc. exact Hc.
Qed.

Lemma lverify_loop_sound : forall ps root res, lverify_loop ps root = Ok res ->
  (forall r0, root = Some r0 -> res = Some r0) /\
  (forall p, In p ps -> exists pr, lp_proof p = Some pr /\ set_verify (lp_hashes p) pr = true /\ res = Some (root_bytes pr)).
Proof.
  induction ps as [|p ps IH]; intros root res H; cbn [lverify_loop] in H.
  - injection H as <-. split; [intros r0 ->; reflexivity | intros p []].
  - destruct (lp_proof p) as [pr|] eqn:Ep; [|discriminate].
    destruct (set_verify (lp_hashes p) pr) eqn:Ev; [|discriminate].
    destruct root as [r0|].
    + destruct (bt_eqb r0 (root_bytes pr)) eqn:Eb; [|discriminate].
      apply bt_eqb_eq in Eb. destruct (IH _ _ H) as [H1 H2]. split; [exact H1|].
      intros q [<-|Hq]; [|apply H2; exact Hq].
      exists pr. split; [exact Ep|]. split; [exact Ev|]. rewrite <- Eb. apply H1. reflexivity.
    + destruct (IH _ _ H) as [H1 H2]. split; [intros r0 E; discriminate E|].
      intros q [<-|Hq]; [|apply H2; exact Hq].
      exists pr. split; [exact Ep|]. split; [exact Ev|]. apply H1. reflexivity.
Qed.

(* every reported hash sits in a part whose proof verifies, contains it, and has THE root *)
Theorem lverify_sound m v : lverify m = Ok v ->
  v_lbn v = lm_lbn m /\ v_off v = None /\
  forall i, In i (v_items v) -> exists h part pr,
    i = IHash h /\ In part (lm_parts m) /\ In h (lp_hashes part) /\ lp_proof part = Some pr /\
    map_verify_b pr = true /\ root_bytes pr = v_root v /\ map_contains_b pr (BLit (leaf i)) = true.
Proof.
  unfold lverify. destruct (lverify_loop (lm_parts m) None) as [[root|]| |] eqn:E; try discriminate.
  intros H. injection H as <-. cbn [v_lbn v_off v_items v_root]. split; [reflexivity|]. split; [reflexivity|].
  intros i Hi. apply in_map_iff in Hi. destruct Hi as [h [<- Hh]].
  apply in_flat_map in Hh. destruct Hh as [part [Hp Hh]].
  destruct (lverify_loop_sound _ _ _ E) as [_ H2]. destruct (H2 part Hp) as [pr [Ep [Ev Er]]].
  destruct (set_verify_spec _ _ Ev) as [Hv Hc].
  exists h, part, pr. repeat split; try assumption.
  - injection Er as ->. reflexivity.
  - apply Hc. exact Hh.
Qed.

Theorem v2verify_sound m v : v2verify m = Ok v ->
  v_lbn v = v2_lbn m /\ v_off v = Some (v2_off m) /\
  exists pr, v2_part m = Some (v_items v, Some pr) /\ map_verify_b pr = true /\ root_bytes pr = v_root v /\
    forall i, In i (v_items v) -> map_contains_b pr (BLit (leaf i)) = true.
Proof.
  unfold v2verify. destruct (v2_part m) as [[items [pr|]]|] eqn:E; try discriminate.
  destruct (set_verify (map leaf items) pr) eqn:Ev; [|discriminate].
  intros H. injection H as <-. cbn. split; [reflexivity|]. split; [reflexivity|].
  destruct (set_verify_spec _ _ Ev) as [Hv Hc].
  exists pr. repeat split; try assumption. intros i Hi. apply Hc. apply in_map. exact Hi.
Qed.

(* one statement for both formats: a proof that verifies (byte-faithfully), whose root BYTES are
   the root of the result, and that contains the item's leaf bytes *)
Definition vouched (v : verified) (i : item) : Prop :=
  exists pr, map_verify_b pr = true /\ root_bytes pr = v_root v /\ map_contains_b pr (BLit (leaf i)) = true.

Theorem tx_sound_legacy m v : lverify m = Ok v -> forall i, In i (v_items v) -> vouched v i.
Proof.
  intros H i Hi. destruct (lverify_sound m v H) as [_ [_ H3]].
  destruct (H3 i Hi) as [h [part [pr [_ [_ [_ [_ [Hv [Hr Hc]]]]]]]]]. exists pr. repeat split; assumption.
Qed.
Theorem tx_sound_v2 m v : v2verify m = Ok v -> forall i, In i (v_items v) -> vouched v i.
Proof.
  intros H i Hi. destruct (v2verify_sound m v H) as [_ [_ [pr [_ [Hv [Hr Hc]]]]]].
  exists pr. repeat split; try assumption. apply Hc. exact Hi.
Qed.

(* with C09's soundness: under the committed root of a chain, a vouched item is a committed leaf *)
Definition chain_ranges (rs : list (N * N * list item)) : list (list N * list bt) :=
  map (fun r => (range_key (fst (fst r)) (snd (fst r)), map (fun i => BLit (leaf i)) (snd r))) rs.

(* ------------------------------------------------------------------ protocol message *)
Lemma bytes_eqb_eq a b : bytes_eqb a b = true <-> a = b.
Proof. apply list_eqb_N_eq. Qed.
Lemma bytes_eqb_refl a : bytes_eqb a a = true.
Proof. apply bytes_eqb_eq. reflexivity. Qed.
Lemma bytes_eqb_neq a b : a <> b -> bytes_eqb a b = false.
Proof. intros H. destruct (bytes_eqb a b) eqn:E; [apply bytes_eqb_eq in E; contradiction | reflexivity]. Qed.

Lemma pm_get_set_same m k v : pm_get (pm_set m k v) k = Some v.
Proof.
  induction m as [|[k' v'] r IH]; cbn [pm_set].
  - unfold pm_get. cbn [C04.Model.pm_get]. change (list_eqb N.eqb k k) with (bytes_eqb k k). rewrite bytes_eqb_refl. reflexivity.
  - destruct (bytes_eqb k k') eqn:E.
    + unfold pm_get. cbn [C04.Model.pm_get]. change (list_eqb N.eqb k k) with (bytes_eqb k k). rewrite bytes_eqb_refl. reflexivity.
    + destruct (Nat.ltb (key_idx k) (key_idx k')).
      * unfold pm_get. cbn [C04.Model.pm_get]. change (list_eqb N.eqb k k) with (bytes_eqb k k). rewrite bytes_eqb_refl. reflexivity.
      * unfold pm_get. cbn [C04.Model.pm_get]. change (list_eqb N.eqb k k') with (bytes_eqb k k'). rewrite E. exact IH.
Qed.

Lemma pm_get_set_other m k v k0 : k0 <> k -> pm_get (pm_set m k v) k0 = pm_get m k0.
Proof.
  intros Hne. assert (E0 : bytes_eqb k0 k = false) by (apply bytes_eqb_neq; exact Hne).
  induction m as [|[k' v'] r IH]; cbn [pm_set].
  - unfold pm_get. cbn [C04.Model.pm_get]. change (list_eqb N.eqb k0 k) with (bytes_eqb k0 k). rewrite E0. reflexivity.
  - destruct (bytes_eqb k k') eqn:E.
    + apply bytes_eqb_eq in E. subst k'. unfold pm_get. cbn [C04.Model.pm_get].
      change (list_eqb N.eqb k0 k) with (bytes_eqb k0 k). rewrite E0. reflexivity.
    + destruct (Nat.ltb (key_idx k) (key_idx k')).
      * unfold pm_get. cbn [C04.Model.pm_get]. change (list_eqb N.eqb k0 k) with (bytes_eqb k0 k). rewrite E0. reflexivity.
      * unfold pm_get in *. cbn [C04.Model.pm_get]. destruct (list_eqb N.eqb k0 k'); [reflexivity | exact IH].
Qed.

Definition pm_wf := C04.PMInj.pm_wf.

Lemma pm_wf_set m k v : pm_wf m -> In k pm_keys -> C04.PMInj.hex_value v = true -> pm_wf (pm_set m k v).
Proof.
  intros W Hk Hv. induction W as [|[k' v'] r Hh W IH]; cbn [pm_set].
  - constructor; [split; assumption | constructor].
  - destruct (bytes_eqb k k').
    + constructor; [split; assumption | exact W].
    + destruct (Nat.ltb (key_idx k) (key_idx k')).
      * constructor; [split; assumption|]. constructor; assumption.
      * constructor; [exact Hh | exact IH].
Qed.

Lemma hex_value_BHex t : C04.PMInj.hex_value (BHex t) = true.
Proof. reflexivity. Qed.

Lemma is_digit_hex b : is_digit b = true -> C04.PMInj.is_hex_byte b = true.
Proof.
  unfold is_digit, C04.PMInj.is_hex_byte. intros H. rewrite H. reflexivity.
Qed.

Lemma hex_value_digits l : forallb is_digit l = true -> C04.PMInj.hex_value (BLit l) = true.
Proof.
  unfold C04.PMInj.hex_value. cbn [C04.Model.flat1]. induction l as [|b l IH]; [reflexivity|].
  cbn [forallb map]. intros H. apply andb_true_iff in H. destruct H as [Hb Hl].
  apply andb_true_iff. split; [|apply IH; exact Hl].
  cbn [C04.PMInj.is_hex]. apply is_digit_hex. exact Hb.
Qed.

Lemma hex_value_dlit n : C04.PMInj.hex_value (dlit n) = true.
Proof. apply hex_value_digits. apply dec_digits. Qed.

Lemma In_keys k : existsb (bytes_eqb k) pm_keys = true -> In k pm_keys.
Proof. intros H. apply existsb_exists in H. destruct H as [x [Hx E]]. apply bytes_eqb_eq in E. subst. exact Hx. Qed.

Lemma K_TX_ROOT_in : In K_TX_ROOT pm_keys. Proof. apply In_keys. vm_compute. reflexivity. Qed.
Lemma K_BTX_ROOT_in : In K_BTX_ROOT pm_keys. Proof. apply In_keys. vm_compute. reflexivity. Qed.
Lemma K_LBN_in : In K_LBN pm_keys. Proof. apply In_keys. vm_compute. reflexivity. Qed.
Lemma K_OFF_in : In K_OFF pm_keys. Proof. apply In_keys. vm_compute. reflexivity. Qed.
Lemma K_SD_EPOCH_in : In K_SD_EPOCH pm_keys. Proof. apply In_keys. vm_compute. reflexivity. Qed.
Lemma K_SD_ROOT_in : In K_SD_ROOT pm_keys. Proof. apply In_keys. vm_compute. reflexivity. Qed.

Lemma neq_of_eqb a b : bytes_eqb a b = false -> a <> b.
Proof. intros H E. apply bytes_eqb_eq in E. congruence. Qed.

Lemma pm_wf_nil : pm_wf [].
Proof. constructor. Qed.

Lemma fill_legacy_wf c v : pm_wf c -> pm_wf (fill_legacy c v).
Proof.
  intros W. unfold fill_legacy.
  apply pm_wf_set; [|exact K_LBN_in|apply hex_value_dlit].
  apply pm_wf_set; [exact W|exact K_TX_ROOT_in|apply hex_value_BHex].
Qed.
Lemma fill_v2_wf c v : pm_wf c -> pm_wf (fill_v2 c v).
Proof.
  intros W. unfold fill_v2.
  apply pm_wf_set; [|exact K_OFF_in|apply hex_value_dlit].
  apply pm_wf_set; [|exact K_LBN_in|apply hex_value_dlit].
  apply pm_wf_set; [exact W|exact K_BTX_ROOT_in|apply hex_value_BHex].
Qed.

Lemma match_eq signed m : match_message signed m = true -> pm_hash m = signed.
Proof. unfold match_message. apply bt_eqb_eq. Qed.

Theorem match_legacy certpm v signedpm : pm_wf certpm -> pm_wf signedpm ->
  match_message (pm_hash signedpm) (fill_legacy certpm v) = true ->
  pm_get signedpm K_TX_ROOT = Some (BHex (v_root v)) /\ pm_get signedpm K_LBN = Some (dlit (v_lbn v)).
Proof.
  intros Wc Ws H. apply match_eq in H.
  apply C04.PMInj.pm_hash_injective in H; [|apply fill_legacy_wf; exact Wc|exact Ws].
  rewrite <- H. unfold fill_legacy. split.
  - rewrite pm_get_set_other by (apply neq_of_eqb; vm_compute; reflexivity). apply pm_get_set_same.
  - apply pm_get_set_same.
Qed.

Theorem match_v2 certpm v signedpm : pm_wf certpm -> pm_wf signedpm ->
  match_message (pm_hash signedpm) (fill_v2 certpm v) = true ->
  pm_get signedpm K_BTX_ROOT = Some (BHex (v_root v)) /\ pm_get signedpm K_LBN = Some (dlit (v_lbn v)) /\
  pm_get signedpm K_OFF = Some (dlit (match v_off v with Some o => o | None => 0 end)).
Proof.
  intros Wc Ws H. apply match_eq in H.
  apply C04.PMInj.pm_hash_injective in H; [|apply fill_v2_wf; exact Wc|exact Ws].
  rewrite <- H. unfold fill_v2. split; [|split].
  - rewrite pm_get_set_other by (apply neq_of_eqb; vm_compute; reflexivity).
    rewrite pm_get_set_other by (apply neq_of_eqb; vm_compute; reflexivity). apply pm_get_set_same.
  - rewrite pm_get_set_other by (apply neq_of_eqb; vm_compute; reflexivity). apply pm_get_set_same.
  - apply pm_get_set_same.
Qed.

Lemma dlit_inj n m : dlit n = dlit m -> n = m.
Proof. unfold dlit. intros H. injection H as H. apply dec_inj. exact H. Qed.

(* against what honest signers sign *)
Lemma signed_legacy_wf root lbn : pm_wf (signed_legacy root lbn).
Proof.
  unfold signed_legacy. apply pm_wf_set; [|exact K_LBN_in|apply hex_value_dlit].
  apply pm_wf_set; [apply pm_wf_nil|exact K_TX_ROOT_in|apply hex_value_BHex].
Qed.
Lemma signed_v2_wf root lbn off : pm_wf (signed_v2 root lbn off).
Proof.
  unfold signed_v2. apply pm_wf_set; [|exact K_OFF_in|apply hex_value_dlit].
  apply pm_wf_set; [|exact K_LBN_in|apply hex_value_dlit].
  apply pm_wf_set; [apply pm_wf_nil|exact K_BTX_ROOT_in|apply hex_value_BHex].
Qed.

Theorem match_legacy_honest certpm v root lbn : pm_wf certpm ->
  match_message (pm_hash (signed_legacy root lbn)) (fill_legacy certpm v) = true ->
  v_root v = root /\ v_lbn v = lbn.
Proof.
  intros Wc H. destruct (match_legacy _ _ _ Wc (signed_legacy_wf root lbn) H) as [H1 H2].
  unfold signed_legacy in H1, H2.
  rewrite pm_get_set_other in H1 by (apply neq_of_eqb; vm_compute; reflexivity).
  rewrite pm_get_set_same in H1, H2.
  injection H1 as H1. injection H2 as H2. apply dec_inj in H2. split; congruence.
Qed.

Theorem match_v2_honest certpm v root lbn off : pm_wf certpm ->
  match_message (pm_hash (signed_v2 root lbn off)) (fill_v2 certpm v) = true ->
  v_root v = root /\ v_lbn v = lbn /\ match v_off v with Some o => o | None => 0 end = off.
Proof.
  intros Wc H. destruct (match_v2 _ _ _ Wc (signed_v2_wf root lbn off) H) as [H1 [H2 H3]].
  unfold signed_v2 in H1, H2, H3.
  rewrite pm_get_set_other in H1 by (apply neq_of_eqb; vm_compute; reflexivity).
  rewrite pm_get_set_other in H1 by (apply neq_of_eqb; vm_compute; reflexivity).
  rewrite pm_get_set_other in H2 by (apply neq_of_eqb; vm_compute; reflexivity).
  rewrite pm_get_set_same in H1, H2, H3.
  injection H1 as H1. injection H2 as H2. injection H3 as H3. apply dec_inj in H2, H3.
  repeat split; congruence.
Qed.
