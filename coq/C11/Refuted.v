(* C11/Refuted.v — the full statement "a verified stake distribution IS the certified mapping"
   is false for the faithful model: the leaf `pool id ++ decimal stake` has no separator, so
   trailing digits move between the identifier and the stake without changing any leaf.
   Reproduced on the real code by the harness (kind sd/digit-move-collision); recorded as
   known finding C11-stake-leaf-concatenation (a separator would change the signed root). *)
From Coq Require Import String.
From MV Require Import Base.Prelude Base.SymHash.
From MV Require Import C09.Model C11.Model C11.Proofs C11.ProofsSd.
Open Scope N_scope.

Definition sd_a : sdist := [(bytes_of_string "pool1abc8", 5)].
Definition sd_b : sdist := [(bytes_of_string "pool1abc", 85)].

(* two different mappings, one root; the client accepts [sd_b] against the certificate of [sd_a] *)
Theorem C11_refuted_sd : exists a b root epoch m,
  a <> b /\ Known_digit_move a b /\
  sd_root a = Some root /\ sd_root b = Some root /\
  fill_sd (signed_sd root epoch) b epoch = Ok m /\
  match_message (pm_hash (signed_sd root epoch)) m = true.
Proof.
  exists sd_a, sd_b, (BLit (bytes_of_string "pool1abc85")), 7.
  eexists.
  assert (Hne : sd_a <> sd_b) by (intros H; discriminate H).
  split; [exact Hne|].
  split; [split; [vm_compute; reflexivity | exact Hne]|].
  split; [vm_compute; reflexivity|].
  split; [vm_compute; reflexivity|].
  split; [vm_compute; reflexivity|].
  vm_compute. reflexivity.
Qed.

(* the leaf encoding alone: not injective when an identifier may end in a digit *)
Theorem C11_refuted_sd_leaf : exists e e', e <> e' /\ sd_leaf e = sd_leaf e'.
Proof.
  exists (bytes_of_string "p8", 5), (bytes_of_string "p", 85).
  split; [intros H; discriminate H | vm_compute; reflexivity].
Qed.
