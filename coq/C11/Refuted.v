(* C11/Refuted.v — the full statement "a verified stake distribution IS the certified mapping"
   is false for the faithful model: the leaf `pool id ++ decimal stake` has no separator, so
   trailing digits move between the identifier and the stake without changing any leaf.
   Reproduced on the real code by the harness (kind sd/digit-move-collision); recorded as
   known finding C11-stake-leaf-concatenation (a separator would change the signed root). *)
From Coq Require Import String.
From MV Require Import Base.Prelude Base.SymHash.
From MV Require Import C09.Model C09.MmrProofs C09.RawLeaf C11.Model C11.Proofs C11.ProofsRaw C11.ProofsSd.
Open Scope N_scope.

Definition sd_a : sdist := [(bytes_of_string "pool1abc8", 5)].
Definition sd_b : sdist := [(bytes_of_string "pool1abc", 85)].

(* two different mappings, one root; the client accepts [sd_b] against the certificate of [sd_a] *)
Theorem C11_refuted_sd : exists a b root epoch m,
  a <> b /\ Known_digit_move a b /\
  sd_root a = Some root /\ sd_root b = Some root /\
  fill_sd (signed_sd root epoch) b epoch = Ok m /\
  match_message (pm_hash (signed_sd root epoch)) m = true.
Proof.
  exists sd_a, sd_b, (BLit (bytes_of_string "pool1abc85")), 7.
  eexists.
  assert (Hne : sd_a <> sd_b) by (intros H; discriminate H).
  split; [exact Hne|].
  split; [split; [vm_compute; reflexivity | exact Hne]|].
  split; [vm_compute; reflexivity|].
  split; [vm_compute; reflexivity|].
  split; [vm_compute; reflexivity|].
  vm_compute. reflexivity.
Qed.

(* the leaf encoding alone: not injective when an identifier may end in a digit *)
Theorem C11_refuted_sd_leaf : exists e e', e <> e' /\ sd_leaf e = sd_leaf e'.
Proof.
  exists (bytes_of_string "p8", 5), (bytes_of_string "p", 85).
  split; [intros H; discriminate H | vm_compute; reflexivity].
Qed.

(* ------------------------------------------------------------------ raw sibling leaves
   Known finding C11-raw-leaf-boundary (the C09-raw-leaf-boundary defect seen from the client's
   entry points).  "Every reported item is a leaf of the certified chain" is false for the
   faithful model: the chain commits Tx/aa/bb/100/12 and Tx/cc/bb/100/12 as sibling leaves of the
   range 0-15; the response reports Tx/aa/bb/100/1 (slot 1, not 12) with the sub-proof item
   "2Tx/cc/bb/100/12".  verify accepts, the recomputed message matches the signed one.
   Reproduced on the real code by the harness (kinds raw-boundary-slot-cut, raw-boundary-hash-cut, raw-boundary-key-cut). *)
Definition W_t1 : tx := {| t_hash := bytes_of_string "aa"; t_bhash := bytes_of_string "bb"; t_bn := 100; t_slot := 12 |}.
Definition W_t2 : tx := {| t_hash := bytes_of_string "cc"; t_bhash := bytes_of_string "bb"; t_bn := 100; t_slot := 12 |}.
Definition W_t1' : tx := {| t_hash := bytes_of_string "aa"; t_bhash := bytes_of_string "bb"; t_bn := 100; t_slot := 1 |}.
Definition W_rs : list (N * N * list item) := [((0, 15), [ITx W_t1; ITx W_t2])].
Definition W_key : bytes := range_key 0 15.
Definition W_SR : bt := Mrg (BLit (leaf_tx W_t1)) (BLit (leaf_tx W_t2)).
Definition W_R : bt := Mrg (BLit W_key) W_SR.
Definition W_master : mkproof := {| p_root := W_R; p_leaves := [(0, W_R)]; p_size := 1; p_items := [] |}.
Definition W_sub : mkproof :=
  {| p_root := W_SR; p_leaves := [(0, BLit (leaf_tx W_t1'))]; p_size := 3;
     p_items := [BLit (50 :: leaf_tx W_t2)] |}.
Definition W_msg : v2msg :=
  {| v2_part := Some ([ITx W_t1'], Some (MapProof W_master [(BLit W_key, MapProof W_sub [])]));
     v2_lbn := 100; v2_off := 15 |}.

Theorem C11_refuted_raw_leaf_boundary : exists rs ms R m v i,
  master_leaves (chain_ranges rs) = Some ms /\ mmr_root ms = Some R /\
  v2verify m = Ok v /\ norm R = v_root v /\ In i (v_items v) /\ wf_item i /\
  (forall r, In r rs -> ~ In (leaf i) (map leaf (snd r))) /\ recut R (leaf i) /\
  match_message (pm_hash (signed_v2 (norm R) 100 15)) (fill_v2 (signed_v2 (norm R) 100 15) v) = true.
Proof.
  exists W_rs, [W_R], W_R, W_msg. eexists. exists (ITx W_t1').
  split; [vm_compute; reflexivity|].
  split; [vm_compute; reflexivity|].
  split; [vm_compute; reflexivity|].
  split; [vm_compute; reflexivity|].
  split; [left; reflexivity|].
  split; [split; vm_compute; intros H; repeat (destruct H as [H|H]; [discriminate H|]); exact H|].
  split.
  - intros r [<-|[]]. vm_compute. intros H. repeat (destruct H as [H|H]; [discriminate H|]). exact H.
  - split.
    + exists (leaf_tx W_t1), (leaf_tx W_t2). split; [apply sub_r; apply sub_refl|].
      split; [left; exists (50 :: leaf_tx W_t2); vm_compute; reflexivity|].
      split; vm_compute; intros H; discriminate H.
    + vm_compute. reflexivity.
Qed.

(* the same defect on stake distributions: two sibling leaves "pa5" ++ "pb1x7" re-cut as
   "pa5pb1" ++ "x7": different mappings, different leaf lists (not the digit-move class), different
   ideal roots, the same root BYTES; the client accepts the second against the certificate of the
   first *)
Definition sd_c : sdist := [(bytes_of_string "pa", 5); (bytes_of_string "pb1x", 7)].
Definition sd_d : sdist := [(bytes_of_string "pa5pb", 1); (bytes_of_string "x", 7)].

Theorem C11_refuted_sd_boundary : exists a b root epoch m,
  a <> b /\ ~ Known_digit_move a b /\ sd_root a <> sd_root b /\
  sd_root_b a = Some root /\ sd_root_b b = Some root /\
  fill_sd (signed_sd root epoch) b epoch = Ok m /\
  match_message (pm_hash (signed_sd root epoch)) m = true.
Proof.
  exists sd_c, sd_d. eexists. exists 7. eexists.
  split; [intros H; discriminate H|].
  split; [intros [H _]; vm_compute in H; discriminate H|].
  split; [vm_compute; intros H; discriminate H|].
  split; [vm_compute; reflexivity|].
  split; [vm_compute; reflexivity|].
  split; [vm_compute; reflexivity|].
  vm_compute. reflexivity.
Qed.
