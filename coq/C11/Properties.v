(* C11/Properties.v — the property theorems, nothing else.
   C11: certified transaction, block and stake sets are reported exactly as signed. *)
From Coq Require Import String.
From MV Require Import Base.Prelude Base.SymHash.
From MV Require C04.Model C04.PMInj.
From MV Require Import C09.Model C09.MmrProofs C09.RawLeaf C11.Model C11.Proofs C11.ProofsRaw C11.ProofsSd.
Open Scope N_scope.

(* The Merkle side is C09's BYTE-FAITHFUL verifier (C09/RawLeaf.v): [map_verify_b],
   [map_contains_b]; the root the client prints, compares and signs over is the root's bytes,
   [root_bytes pr = norm (map_root pr)]. *)

(* ---- verification of a response: every reported item is vouched for by a verified proof, and
   all proofs have ONE root (as bytes), the one the message is recomputed from (legacy: any number
   of set proofs; v2: a single one) *)
Theorem C11_tx_sound : forall v,
  (exists m, lverify m = Ok v) \/ (exists m, v2verify m = Ok v) ->
  forall i, In i (v_items v) ->
  exists pr, map_verify_b pr = true /\ root_bytes pr = v_root v /\ map_contains_b pr (BLit (leaf i)) = true.
Proof.
  intros v [[m H] | [m H]] i Hi; [exact (tx_sound_legacy m v H i Hi) | exact (tx_sound_v2 m v H i Hi)].
Qed.

(* the verified result carries the response's block number / offset and exactly its items *)
Theorem C11_legacy_shape : forall m v, lverify m = Ok v ->
  v_lbn v = lm_lbn m /\ v_off v = None /\
  forall i, In i (v_items v) -> exists h part pr,
    i = IHash h /\ In part (lm_parts m) /\ In h (lp_hashes part) /\ lp_proof part = Some pr /\
    map_verify_b pr = true /\ root_bytes pr = v_root v /\ map_contains_b pr (BLit (leaf i)) = true.
Proof. exact lverify_sound. Qed.
Theorem C11_v2_shape : forall m v, v2verify m = Ok v ->
  v_lbn v = v2_lbn m /\ v_off v = Some (v2_off m) /\
  exists pr, v2_part m = Some (v_items v, Some pr) /\ map_verify_b pr = true /\ root_bytes pr = v_root v /\
    forall i, In i (v_items v) -> map_contains_b pr (BLit (leaf i)) = true.
Proof. exact v2verify_sound. Qed.

(* what a byte-faithfully verified map proof vouches for, in general: normalised sub-terms of its
   root — children of a hash and, where a pre-image is one literal (two raw children hashed as
   their concatenation), its prefixes and suffixes *)
Theorem C11_map_sound_bytes : forall p x, map_verify_b p = true -> map_contains_b p x = true ->
  nsub (norm x) (norm (map_root p)).
Proof. exact map_sound_b. Qed.

(* "every reported item is a committed leaf": FALSE for the faithful model (Refuted.v:
   C11_refuted_raw_leaf_boundary, known finding C11-raw-leaf-boundary).  Strongest true statement:
   when the result's root is the root BYTES of a chain (block ranges with their leaves), every
   reported item is a committed leaf of one of its ranges OR its leaf is a re-cut:
     recut R x  :=  two RAW siblings a, b under R (block-range key and the single leaf of its
                    range; two sibling leaves of a range) and x is a prefix or suffix of a ++ b
                    other than a and b.
   [wf_item]: v2 hashes contain no '/', legacy hashes no '-' (hex text satisfies both). *)
Theorem C11_tx_committed_or_recut : forall rs ms R v,
  (exists m, lverify m = Ok v) \/ (exists m, v2verify m = Ok v) ->
  master_leaves (chain_ranges rs) = Some ms -> mmr_root ms = Some R -> norm R = v_root v ->
  forall i, In i (v_items v) -> wf_item i ->
  (exists r, In r rs /\ In (leaf i) (map leaf (snd r))) \/ recut R (leaf i).
Proof.
  intros rs ms R v Hv Hms Hr Hroot i Hi W. apply (vouched_committed rs ms R v i Hms Hr Hroot W).
  destruct Hv as [[m H] | [m H]]; [exact (tx_sound_legacy m v H i Hi) | exact (tx_sound_v2 m v H i Hi)].
Qed.

(* holds outside the known class *)
Theorem C11_tx_committed : forall rs ms R v,
  (exists m, lverify m = Ok v) \/ (exists m, v2verify m = Ok v) ->
  master_leaves (chain_ranges rs) = Some ms -> mmr_root ms = Some R -> norm R = v_root v ->
  forall i, In i (v_items v) -> wf_item i -> ~ recut R (leaf i) ->
  exists r, In r rs /\ In (leaf i) (map leaf (snd r)).
Proof.
  intros rs ms R v Hv Hms Hr Hroot i Hi W Hn.
  destruct (C11_tx_committed_or_recut rs ms R v Hv Hms Hr Hroot i Hi W) as [H|H]; [exact H | contradiction].
Qed.

(* the class is empty where the boundary is determined: when all raw sibling pairs under R have
   members of one length L (legacy leaves are transaction hashes: 64 hex characters on a real
   chain), a reported leaf of length L is never a re-cut *)
Theorem C11_no_recut_fixed_length : forall R x (L : nat),
  (forall a b, sub (Mrg (BLit a) (BLit b)) R -> length a = L /\ length b = L) ->
  length x = L -> ~ recut R x.
Proof. exact no_recut_fixed_length. Qed.

(* ---- leaf encodings, byte level: an item whose leaf equals the leaf of an honest item (hashes
   without '/') IS that item — the other side may be arbitrary byte strings *)
Theorem C11_leaf_inj : forall i j, v2_item i -> v2_item j -> wf_item j -> leaf i = leaf j -> i = j.
Proof. exact leaf_inj. Qed.
Theorem C11_leaf_tx_inj : forall t t', wf_tx t' -> leaf_tx t = leaf_tx t' -> t = t'.
Proof. exact leaf_tx_inj. Qed.
Theorem C11_leaf_blk_inj : forall b b', wf_blk b' -> leaf_blk b = leaf_blk b' -> b = b'.
Proof. exact leaf_blk_inj. Qed.
Theorem C11_dec_inj : forall n m, dec n = dec m -> n = m.
Proof. exact dec_inj. Qed.

(* ---- message recomputation: match_message forces root, block number and offset to be the
   signed parts (C04's byte-level injectivity of the protocol-message pre-image) *)
Theorem C11_match : forall certpm v signedpm, pm_wf certpm -> pm_wf signedpm ->
  (match_message (pm_hash signedpm) (fill_legacy certpm v) = true ->
     pm_get signedpm K_TX_ROOT = Some (BHex (v_root v)) /\ pm_get signedpm K_LBN = Some (dlit (v_lbn v))) /\
  (match_message (pm_hash signedpm) (fill_v2 certpm v) = true ->
     pm_get signedpm K_BTX_ROOT = Some (BHex (v_root v)) /\ pm_get signedpm K_LBN = Some (dlit (v_lbn v)) /\
     pm_get signedpm K_OFF = Some (dlit (match v_off v with Some o => o | None => 0 end))).
Proof. intros c v s Wc Ws. split; [apply match_legacy | apply match_v2]; assumption. Qed.

(* against the message honest signers build: the verified root, block number, offset ARE the signed ones *)
Theorem C11_match_honest_legacy : forall certpm v root lbn, pm_wf certpm ->
  match_message (pm_hash (signed_legacy root lbn)) (fill_legacy certpm v) = true ->
  v_root v = root /\ v_lbn v = lbn.
Proof. exact match_legacy_honest. Qed.
Theorem C11_match_honest_v2 : forall certpm v root lbn off, pm_wf certpm ->
  match_message (pm_hash (signed_v2 root lbn off)) (fill_v2 certpm v) = true ->
  v_root v = root /\ v_lbn v = lbn /\ match v_off v with Some o => o | None => 0 end = off.
Proof. exact match_v2_honest. Qed.


(* ---- stake distribution.  Full statement "verified distribution = certified mapping": FALSE for
   the faithful model (Refuted.v, known finding C11-stake-leaf-concatenation).  True statements: *)
(* (a) leaf level, any size: the leaf is injective for identifiers that do not end in a digit, and
   for identifiers of one fixed length (bech32 pool ids all have 56 characters) *)
Theorem C11_sd_leaf_inj_nodigit : forall e e', ends_nondigit (fst e) -> ends_nondigit (fst e') ->
  sd_leaf e = sd_leaf e' -> e = e'.
Proof. exact sd_leaf_inj_nodigit. Qed.
Theorem C11_sd_leaf_inj_len : forall e e', length (fst e) = length (fst e') -> sd_leaf e = sd_leaf e' -> e = e'.
Proof. exact sd_leaf_inj_len. Qed.
Theorem C11_sd_leaves : forall a b, map sd_leaf a = map sd_leaf b ->
  (ids_nodigit a /\ ids_nodigit b) \/ (exists L, ids_len L a /\ ids_len L b) -> a = b.
Proof.
  intros a b H [[Wa Wb] | [L [Wa Wb]]]; [apply leaves_inj_nodigit | apply (leaves_inj_len L)]; assumption.
Qed.
(* (b) root level, unbounded: whatever literal sits under the certified root is a certified leaf *)
Theorem C11_sd_root_sound : forall d r x, sd_root d = Some r -> sub (BLit x) r -> In x (map sd_leaf d).
Proof. exact sd_root_sound. Qed.
(* (b') the same at byte level: a literal vouched for under the root BYTES is a certified leaf or a
   re-cut of two sibling leaves (known finding C11-raw-leaf-boundary, Refuted.v) *)
Theorem C11_sd_root_sound_bytes : forall d r x, sd_root d = Some r -> nsub (BLit x) (norm r) ->
  In x (map sd_leaf d) \/ recut r x.
Proof. exact sd_root_sound_b. Qed.
(* (c) root level, any number of pools (below 2^63, the u64 sizes of the MMR; C09_mmr_root_inj): equal
   root TERMS (ideal, pair-injective merge) force equal mappings outside the known class, in
   particular for admissible identifiers *)
Theorem C11_sd_holds_outside : forall a b, N.of_nat (length a) < 2 ^ 63 -> N.of_nat (length b) < 2 ^ 63 ->
  sd_root a = sd_root b -> sd_root a <> None -> ~ Known_digit_move a b -> a = b.
Proof. exact sd_holds_outside. Qed.
Theorem C11_sd : forall a b, N.of_nat (length a) < 2 ^ 63 -> N.of_nat (length b) < 2 ^ 63 ->
  (ids_nodigit a /\ ids_nodigit b) \/ (exists L, ids_len L a /\ ids_len L b) ->
  sd_root a = sd_root b -> sd_root a <> None -> a = b.
Proof.
  intros a b Ha Hb [[Wa Wb] | [L [Wa Wb]]] H Hn; [apply sd_nodigit | apply (sd_len L)]; assumption.
Qed.
(* (d) the client's recomputed message matches the signed one only for the signed root (bytes) and epoch *)
Theorem C11_sd_match : forall certpm d e m root se, pm_wf certpm ->
  fill_sd certpm d e = Ok m -> match_message (pm_hash (signed_sd root se)) m = true ->
  sd_root_b d = Some root /\ e = se.
Proof. exact sd_match. Qed.

(* ---- non-vacuity *)
Example C11_ex_items : wf_item (ITx {| t_hash := hx 1; t_bhash := hx 2; t_bn := 3; t_slot := 77 |}) /\
  leaf (ITx {| t_hash := hx 1; t_bhash := hx 2; t_bn := 3; t_slot := 77 |})
    = bytes_of_string "Tx/00000001/00000002/3/77".
Proof.
  split; [split; vm_compute; intros H; repeat (destruct H as [H|H]; [discriminate H|]); exact H | vm_compute; reflexivity].
Qed.
