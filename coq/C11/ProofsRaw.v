(* C11/ProofsRaw.v — byte-level soundness of the Merkle side as the client runs it.

   MKTree pushes its leaves raw and `MKTreeNode + MKTreeNode` hashes the plain concatenation
   (C09/RawLeaf.v).  At byte level a verified proof therefore vouches for the *normalised*
   sub-terms of its root ([nsub]): the children of a hash, and, where a pre-image is ONE literal
   (two raw children hashed as their concatenation), every prefix and every suffix of that
   literal.  Against a committed chain this gives: a vouched leaf is a committed leaf (or a
   block-range key) OR a re-cut of two adjacent raw strings ([recut]) — known finding
   C11-raw-leaf-boundary.  Outside that class the ideal statement holds. *)
From Coq Require Import Lia.
From MV Require Import Base.Prelude Base.SymHash.
From MV Require Import C09.Model C09.MmrProofs C09.RawLeaf C09.RawLeafProofs C11.Model C11.Proofs.
Open Scope N_scope.

(* ------------------------------------------------------------------ normalised sub-terms *)
Inductive nsub : bt -> bt -> Prop :=
| nsub_refl x : nsub x x
| nsub_child x g cs c : In c cs -> nsub x c -> nsub x (BHash g cs)
| nsub_cutl a s g : nsub (BLit a) (BHash g [BLit (a ++ s)])
| nsub_cutr p a g : nsub (BLit a) (BHash g [BLit (p ++ a)]).

Lemma nsub_lit_inv x a : nsub x (BLit a) -> x = BLit a.
Proof. intros H. inversion H; subst; reflexivity. Qed.

Lemma nsub_hex_inv x t : nsub x (BHex t) -> x = BHex t.
Proof. intros H. inversion H; subst; reflexivity. Qed.

Lemma nsub_hash_inv x g cs : nsub x (BHash g cs) ->
  x = BHash g cs \/ (exists c, In c cs /\ nsub x c) \/
  (exists a s, x = BLit a /\ cs = [BLit (a ++ s)]) \/ (exists p a, x = BLit a /\ cs = [BLit (p ++ a)]).
Proof.
  intros H. inversion H; subst.
  - left; reflexivity.
  - right; left. eexists; split; eassumption.
  - right; right; left. eexists; eexists; split; reflexivity.
  - right; right; right. eexists; eexists; split; reflexivity.
Qed.

Lemma nsub_trans x y z : nsub x y -> nsub y z -> nsub x z.
Proof.
  intros Hxy Hyz. revert x Hxy. induction Hyz; intros x0 Hxy.
  - exact Hxy.
  - eapply nsub_child; [eassumption | apply IHHyz; exact Hxy].
  - apply nsub_lit_inv in Hxy. subst. apply nsub_cutl.
  - apply nsub_lit_inv in Hxy. subst. apply nsub_cutr.
Qed.

Lemma norm_Mrg a b : norm (Mrg a b) = BHash BLAKE2S_256 (cat_lits [norm a; norm b]).
Proof. reflexivity. Qed.

(* either both children are raw literals, or the pre-image keeps its two parts *)
Lemma norm_Mrg_cases a b :
  (exists a' b', a = BLit a' /\ b = BLit b') \/ norm (Mrg a b) = BHash BLAKE2S_256 [norm a; norm b].
Proof.
  destruct a as [a'|ga la|ha], b as [b'|gb lb|hb];
    try (right; reflexivity). left. eexists; eexists; split; reflexivity.
Qed.

Lemma nsub_Mrg_l x a b : nsub x (norm a) -> nsub x (norm (Mrg a b)).
Proof.
  intros H. destruct (norm_Mrg_cases a b) as [[a' [b' [-> ->]]] | E].
  - cbn [norm] in H. apply nsub_lit_inv in H. subst. rewrite norm_raw_pair. apply nsub_cutl.
  - rewrite E. eapply nsub_child; [left; reflexivity | exact H].
Qed.
Lemma nsub_Mrg_r x a b : nsub x (norm b) -> nsub x (norm (Mrg a b)).
Proof.
  intros H. destruct (norm_Mrg_cases a b) as [[a' [b' [-> ->]]] | E].
  - cbn [norm] in H. apply nsub_lit_inv in H. subst. rewrite norm_raw_pair. apply nsub_cutr.
  - rewrite E. eapply nsub_child; [right; left; reflexivity | exact H].
Qed.

Lemma sub_nsub x r : sub x r -> nsub (norm x) (norm r).
Proof.
  intros H. induction H; [apply nsub_refl | apply nsub_Mrg_l; assumption | apply nsub_Mrg_r; assumption].
Qed.

(* ------------------------------------------------------------------ MKProof, byte-faithful *)
Lemma beq_norm a b : beq a b = true -> norm a = norm b.
Proof. unfold beq. apply bt_eqb_eq. Qed.

Theorem mk_verify_b_sound p : mk_verify_b p = true ->
  forall e, In e (p_leaves p) -> nsub (norm (snd e)) (norm (p_root p)).
Proof.
  unfold mk_verify_b, ckb_verify_b. intros Hv e Hin.
  apply andb_true_iff in Hv. destruct Hv as [Hc Hv].
  destruct (calc_root (p_size p) (p_leaves p) (p_items p)) as [r| |] eqn:Ec; try discriminate.
  apply beq_norm in Hv.
  destruct (dedup_repr (sort_pos (p_leaves p)) e) as [e' [He' Hk]]; [apply sort_pos_In; exact Hin|].
  assert (Hin' : In e' (p_leaves p)) by (apply sort_pos_In; apply dedup_sub; exact He').
  unfold positions_consistent_b in Hc. rewrite forallb_forall in Hc. specialize (Hc e Hin).
  rewrite forallb_forall in Hc. specialize (Hc e' Hin').
  apply orb_true_iff in Hc. destruct Hc as [Hc|Hc].
  - apply negb_true_iff in Hc. apply N.eqb_neq in Hc. exfalso. apply Hc. symmetry. exact Hk.
  - apply beq_norm in Hc. rewrite Hc, <- Hv. apply sub_nsub. eapply calc_root_sub; eassumption.
Qed.

Lemma mk_contains_b_In p xs x : mk_contains_b p xs = true -> In x xs ->
  exists e, In e (p_leaves p) /\ norm (snd e) = norm x.
Proof.
  unfold mk_contains_b. intros H Hin. rewrite forallb_forall in H. specialize (H x Hin).
  apply existsb_exists in H. destruct H as [e [He Hb]]. exists e. split; [exact He | apply beq_norm; exact Hb].
Qed.

Theorem mk_sound_b p xs : mk_verify_b p = true -> mk_contains_b p xs = true ->
  forall x, In x xs -> nsub (norm x) (norm (p_root p)).
Proof.
  intros Hv Hc x Hin. destruct (mk_contains_b_In p xs x Hc Hin) as [e [He <-]].
  apply mk_verify_b_sound; assumption.
Qed.

(* ------------------------------------------------------------------ MKMapProof, byte-faithful *)
Lemma map_sound_b_aux : forall (n : nat) p, (mp_size p <= n)%nat ->
  map_verify_b p = true -> forall x, map_contains_b p x = true -> nsub (norm x) (norm (map_root p)).
Proof.
  induction n as [|n IH]; intros p Hsz Hv x Hc; [destruct p; simpl in Hsz; lia|].
  destruct p as [m subs]. cbn [map_root].
  cbn [map_verify_b] in Hv. apply andb_true_iff in Hv. destruct Hv as [Hv Hlink].
  apply andb_true_iff in Hv. destruct Hv as [Hsubs Hm].
  cbn [map_contains_b] in Hc. apply orb_true_iff in Hc. destruct Hc as [Hc|Hc].
  - eapply mk_sound_b; [exact Hm | exact Hc | left; reflexivity].
  - assert (Hex : exists k q, In (k, q) subs /\ map_verify_b q = true /\ map_contains_b q x = true /\ (mp_size q <= n)%nat).
    { clear Hlink Hm IH. cbn [mp_size] in Hsz. revert Hsubs Hc Hsz.
      induction subs as [|[k q] r IHr]; intros Hsubs Hc Hsz; [discriminate|].
      apply andb_true_iff in Hsubs. destruct Hsubs as [Hq Hr].
      apply orb_true_iff in Hc. destruct Hc as [Hc|Hc].
      - exists k, q. split; [left; reflexivity|]. split; [exact Hq|]. split; [exact Hc|]. lia.
      - destruct IHr as [k' [q' [Hin H']]]; [exact Hr | exact Hc | lia|].
        exists k', q'. split; [right; exact Hin | exact H']. }
    destruct Hex as [k [q [Hin [Hvq [Hcq Hszq]]]]].
    assert (Hx : nsub (norm x) (norm (map_root q))) by (apply (IH q Hszq Hvq x Hcq)).
    destruct subs as [|s0 subs']; [contradiction|].
    assert (Hleaf : nsub (norm (Mrg k (map_root q))) (norm (p_root m))).
    { eapply mk_sound_b; [exact Hm | exact Hlink|].
      apply in_map_iff. exists (k, q). split; [reflexivity | exact Hin]. }
    eapply nsub_trans; [|exact Hleaf]. apply nsub_Mrg_r. exact Hx.
Qed.

Theorem map_sound_b p x : map_verify_b p = true -> map_contains_b p x = true ->
  nsub (norm x) (norm (map_root p)).
Proof. intros. eapply map_sound_b_aux; eauto. Qed.

(* ------------------------------------------------------------------ the class *)
(* [x] is a re-cut inside [r]: two RAW siblings a, b of r (their parent hashes a ++ b only), and x
   is a prefix or a suffix of a ++ b that is neither a nor b *)
Definition recut (r : bt) (x : bytes) : Prop :=
  exists a b, sub (Mrg (BLit a) (BLit b)) r /\
    ((exists s, a ++ b = x ++ s) \/ (exists p, a ++ b = p ++ x)) /\ x <> a /\ x <> b.

Lemma recut_mono r r' x : sub r r' -> recut r x -> recut r' x.
Proof.
  intros Hs [a [b [H1 H2]]]. exists a, b. split; [eapply sub_trans; eassumption | exact H2].
Qed.

Lemma bytes_eq_dec (a b : bytes) : {a = b} + {a <> b}.
Proof. apply list_eq_dec. apply N.eq_dec. Qed.

Lemma over_lit_inv (P : bt -> Prop) a : over P (BLit a) -> P (BLit a).
Proof. intros H. inversion H; subst; assumption. Qed.

Lemma pair_case (P : bt -> Prop) a b x : over P (BLit a) -> over P (BLit b) ->
  ((exists s, a ++ b = x ++ s) \/ (exists p, a ++ b = p ++ x)) ->
  P (BLit x) \/ recut (Mrg (BLit a) (BLit b)) x.
Proof.
  intros Ha Hb Hseg.
  destruct (bytes_eq_dec x a) as [->|Na]; [left; apply over_lit_inv; exact Ha|].
  destruct (bytes_eq_dec x b) as [->|Nb]; [left; apply over_lit_inv; exact Hb|].
  right. exists a, b. split; [apply sub_refl|]. split; [exact Hseg|]. split; assumption.
Qed.

(* literals vouched for, at byte level, under a term built from literal leaves *)
Theorem over_nsub_lit (P : bt -> Prop) r : (forall l, P l -> exists b, l = BLit b) -> over P r ->
  forall x, nsub (BLit x) (norm r) -> P (BLit x) \/ recut r x.
Proof.
  intros HP Ho. induction Ho as [l Hl | a b Ha IHa Hb IHb]; intros x H.
  - destruct (HP l Hl) as [c ->]. cbn [norm] in H. apply nsub_lit_inv in H. injection H as ->. left. exact Hl.
  - destruct (norm_Mrg_cases a b) as [[a' [b' [-> ->]]] | E].
    + rewrite norm_raw_pair in H. apply nsub_hash_inv in H.
      destruct H as [H | [[c [Hc Hs]] | [[a0 [s [Hx Hcs]]] | [p [a0 [Hx Hcs]]]]]].
      * discriminate H.
      * destruct Hc as [<-|[]]. apply nsub_lit_inv in Hs. injection Hs as ->.
        apply (pair_case P); [assumption | assumption | left; exists []; rewrite app_nil_r; reflexivity].
      * injection Hx as <-. injection Hcs as Hcs.
        apply (pair_case P); [assumption | assumption | left; exists s; exact Hcs].
      * injection Hx as <-. injection Hcs as Hcs.
        apply (pair_case P); [assumption | assumption | right; exists p; exact Hcs].
    + rewrite E in H. apply nsub_hash_inv in H.
      destruct H as [H | [[c [Hc Hs]] | [[a0 [s [Hx Hcs]]] | [p [a0 [Hx Hcs]]]]]].
      * discriminate H.
      * destruct Hc as [<-|[<-|[]]].
        -- destruct (IHa x Hs) as [Hp|Hr]; [left; exact Hp | right; eapply recut_mono; [apply sub_l; apply sub_refl | exact Hr]].
        -- destruct (IHb x Hs) as [Hp|Hr]; [left; exact Hp | right; eapply recut_mono; [apply sub_r; apply sub_refl | exact Hr]].
      * discriminate Hcs.
      * discriminate Hcs.
Qed.

Lemma over_bind (P Q : bt -> Prop) t : over P t -> (forall l, P l -> over Q l) -> over Q t.
Proof. intros Ho H. induction Ho; [apply H; assumption | apply over_mrg; assumption]. Qed.

(* ------------------------------------------------------------------ committed block-range map *)
Definition committed_lit (ranges : list (list N * list bt)) (l : bt) : Prop :=
  (exists k xs, In (k, xs) ranges /\ l = BLit k) \/ (exists k xs, In (k, xs) ranges /\ In l xs).

Lemma master_over ranges ms R :
  master_leaves ranges = Some ms -> mmr_root ms = Some R -> over (committed_lit ranges) R.
Proof.
  intros Hms Hr.
  assert (Ho : over (fun l => In l ms) R) by (apply (mmr_root_over _ ms); [intros l H; exact H | exact Hr]).
  apply (over_bind _ _ _ Ho). intros m Hm.
  destruct (master_leaves_In _ _ _ Hms Hm) as [k [xs [rt [Hin [Hrt ->]]]]].
  apply over_mrg.
  - apply over_leaf. left. exists k, xs. split; [exact Hin | reflexivity].
  - assert (Ho2 : over (fun l => In l xs) rt) by (apply (mmr_root_over _ xs); [intros l H; exact H | exact Hrt]).
    apply (over_bind _ _ _ Ho2). intros l Hl. apply over_leaf. right. exists k, xs. split; assumption.
Qed.

Theorem map_sound_committed_b ranges ms R p x :
  (forall k xs, In (k, xs) ranges -> forall l, In l xs -> exists b, l = BLit b) ->
  master_leaves ranges = Some ms -> mmr_root ms = Some R -> norm R = norm (map_root p) ->
  map_verify_b p = true -> map_contains_b p (BLit x) = true ->
  committed_lit ranges (BLit x) \/ recut R x.
Proof.
  intros Hlit Hms Hr Hroot Hv Hc.
  assert (Hs : nsub (BLit x) (norm R)) by (rewrite Hroot; apply (map_sound_b p (BLit x)); assumption).
  apply (over_nsub_lit (committed_lit ranges) R); [|eapply master_over; eassumption|exact Hs].
  intros l [[k [xs [_ ->]]] | [k [xs [Hin Hl]]]]; [eexists; reflexivity | eapply Hlit; eassumption].
Qed.

(* with the leaf encodings: under the committed root BYTES of a chain, a vouched item is a committed
   leaf of one of its ranges, or its leaf is a re-cut of two adjacent raw strings of the chain *)
Theorem vouched_committed rs ms R v i :
  master_leaves (chain_ranges rs) = Some ms -> mmr_root ms = Some R -> norm R = v_root v ->
  wf_item i -> vouched v i ->
  (exists r, In r rs /\ In (leaf i) (map leaf (snd r))) \/ recut R (leaf i).
Proof.
  intros Hms Hr Hroot W [pr [Hv [Hrb Hc]]].
  assert (Hlit : forall k xs, In (k, xs) (chain_ranges rs) -> forall l, In l xs -> exists b, l = BLit b).
  { intros k xs Hin l Hl. unfold chain_ranges in Hin. apply in_map_iff in Hin. destruct Hin as [r [E _]].
    injection E as _ <-. apply in_map_iff in Hl. destruct Hl as [j [<- _]]. eexists; reflexivity. }
  unfold root_bytes in Hrb. rewrite <- Hrb in Hroot.
  destruct (map_sound_committed_b _ _ _ _ _ Hlit Hms Hr Hroot Hv Hc) as [[[k [xs [Hin E]]] | [k [xs [Hin Hx]]]] | Hre].
  - exfalso. unfold chain_ranges in Hin. apply in_map_iff in Hin. destruct Hin as [r [Er _]].
    injection Er as <- _. injection E as E. exact (leaf_not_key i _ _ W E).
  - left. unfold chain_ranges in Hin. apply in_map_iff in Hin. destruct Hin as [r [Er Hr']].
    injection Er as _ <-. exists r. split; [exact Hr'|].
    apply in_map_iff in Hx. destruct Hx as [j [Ej Hj]]. injection Ej as Ej. rewrite <- Ej. apply in_map. exact Hj.
  - right. exact Hre.
Qed.

(* stake distributions: a literal vouched for at byte level under the root of a distribution is one
   of its leaves or a re-cut of two sibling leaves *)
Theorem sd_root_sound_b d r x : sd_root d = Some r -> nsub (BLit x) (norm r) ->
  In x (map sd_leaf d) \/ recut r x.
Proof.
  unfold sd_root, sd_leaves. intros Hr Hs.
  assert (Ho : over (fun l => In l (map (fun e => BLit (sd_leaf e)) d)) r)
    by (apply (mmr_root_over _ (map (fun e => BLit (sd_leaf e)) d)); [intros l H; exact H | exact Hr]).
  assert (HP : forall l, In l (map (fun e => BLit (sd_leaf e)) d) -> exists b, l = BLit b).
  { intros l Hl. apply in_map_iff in Hl. destruct Hl as [e [<- _]]. eexists; reflexivity. }
  destruct (over_nsub_lit _ r HP Ho x Hs) as [Hp|Hre]; [|right; exact Hre].
  - left. apply in_map_iff in Hp. destruct Hp as [e [E He]]. injection E as <-. apply in_map. exact He.
Qed.

(* the class is empty where the boundary is determined: if all raw sibling pairs under R have
   members of one length L, nothing of length L is a re-cut *)
Lemma app_eq_len {A} (a b x s : list A) : a ++ b = x ++ s -> length x = length a -> x = a.
Proof.
  revert x. induction a as [|y a IH]; intros [|z x] H Hl; try discriminate Hl; [reflexivity|].
  simpl in H, Hl. injection H as -> H. injection Hl as Hl. f_equal. apply IH; assumption.
Qed.

Theorem no_recut_fixed_length R x (L : nat) :
  (forall a b, sub (Mrg (BLit a) (BLit b)) R -> length a = L /\ length b = L) ->
  length x = L -> ~ recut R x.
Proof.
  intros HL Hx [a [b [Hs [[[s E] | [p E]] [Na Nb]]]]]; destruct (HL a b Hs) as [La Lb].
  - apply Na. eapply app_eq_len; [exact E | congruence].
  - apply Nb. assert (E' : rev b ++ rev a = rev x ++ rev p) by (rewrite <- !rev_app_distr, E; reflexivity).
    apply app_eq_len in E'; [|rewrite !rev_length; congruence].
    rewrite <- (rev_involutive x), E', rev_involutive. reflexivity.
Qed.
