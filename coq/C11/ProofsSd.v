(* C11/ProofsSd.v — stake distribution: the leaf `pool id ++ decimal stake`.
   Injective for identifiers that do not end in a digit, and for identifiers of one fixed length
   (bech32 pool ids: 56 characters); NOT injective in general (Refuted.v).  Root level: the
   Merkle-mountain-range root TERM determines the leaf list for any number of leaves below 2^63
   (C09/MmrInj.v: mmr_root_inj), plus the soundness half that comes from C09: whatever sits
   under the root is a committed leaf.  These root-level statements are about the ideal,
   pair-injective merge; at byte level raw sibling leaves are committed through their
   concatenation only (ProofsRaw.v: sd_root_sound_b, Refuted.v: C11_refuted_sd_boundary). *)
From Coq Require Import Lia.
From MV Require Import Base.Prelude Base.SymHash.
From MV Require Import C09.Model C09.MmrProofs C09.MmrInj C11.Model C11.Proofs.
Open Scope N_scope.

Definition ends_nondigit (id : bytes) : Prop :=
  match rev id with [] => True | c :: _ => is_digit c = false end.

Fixpoint strip_digits (l : list N) : list N :=
  match l with [] => [] | c :: r => if is_digit c then strip_digits r else l end.

Lemma strip_app ds r : forallb is_digit ds = true ->
  match r with [] => True | c :: _ => is_digit c = false end -> strip_digits (ds ++ r) = r.
Proof.
  induction ds as [|d ds IH]; intros Hd Hr; simpl.
  - destruct r as [|c r]; [reflexivity|]. simpl. rewrite Hr. reflexivity.
  - simpl in Hd. apply andb_true_iff in Hd. destruct Hd as [H1 H2]. rewrite H1. apply IH; assumption.
Qed.

Lemma sd_leaf_inj_nodigit e e' : ends_nondigit (fst e) -> ends_nondigit (fst e') ->
  sd_leaf e = sd_leaf e' -> e = e'.
Proof.
  destruct e as [id s], e' as [id' s']. unfold sd_leaf, ends_nondigit. cbn [fst snd]. intros W W' H.
  assert (Hr := f_equal (fun l => strip_digits (rev l)) H). cbn beta in Hr.
  rewrite !rev_app_distr in Hr.
  rewrite strip_app in Hr; [|rewrite forallb_rev; apply dec_digits|exact W].
  rewrite strip_app in Hr; [|rewrite forallb_rev; apply dec_digits|exact W'].
  assert (E : id = id') by (rewrite <- (rev_involutive id), Hr, rev_involutive; reflexivity).
  subst id'. apply app_inv_head in H. apply dec_inj in H. subst. reflexivity.
Qed.

Lemma app_inj_len {A} (a a' b b' : list A) : length a = length a' -> a ++ b = a' ++ b' -> a = a' /\ b = b'.
Proof.
  revert a'. induction a as [|x a IH]; intros [|y a'] Hl H; try discriminate Hl.
  - split; [reflexivity | exact H].
  - simpl in H, Hl. injection H as -> H. injection Hl as Hl. destruct (IH a' Hl H) as [-> ->]. split; reflexivity.
Qed.

Lemma sd_leaf_inj_len e e' : length (fst e) = length (fst e') -> sd_leaf e = sd_leaf e' -> e = e'.
Proof.
  destruct e as [id s], e' as [id' s']. unfold sd_leaf. cbn [fst snd]. intros Hl H.
  destruct (app_inj_len _ _ _ _ Hl H) as [-> Hd]. apply dec_inj in Hd. subst. reflexivity.
Qed.

Lemma map_inj_on {A B} (f : A -> B) (P : A -> Prop) :
  (forall x y, P x -> P y -> f x = f y -> x = y) ->
  forall l l', Forall P l -> Forall P l' -> map f l = map f l' -> l = l'.
Proof.
  intros Hf. induction l as [|x l IH]; intros [|y l'] Hl Hl' H; try discriminate H; [reflexivity|].
  simpl in H. injection H as Hxy H. inversion Hl; subst. inversion Hl'; subst.
  f_equal; [apply Hf; assumption | apply IH; assumption].
Qed.

(* identifiers admissible for the full statement *)
Definition ids_nodigit (d : sdist) : Prop := Forall (fun e => ends_nondigit (fst e)) d.
Definition ids_len (L : nat) (d : sdist) : Prop := Forall (fun e => length (fst e) = L) d.

Lemma leaves_inj_nodigit a b : ids_nodigit a -> ids_nodigit b -> map sd_leaf a = map sd_leaf b -> a = b.
Proof. apply map_inj_on. intros x y Hx Hy. apply sd_leaf_inj_nodigit; assumption. Qed.
Lemma leaves_inj_len L a b : ids_len L a -> ids_len L b -> map sd_leaf a = map sd_leaf b -> a = b.
Proof. apply map_inj_on. intros x y Hx Hy. apply sd_leaf_inj_len. congruence. Qed.

(* ---- root level *)
Lemma sd_leaves_map d : sd_leaves d = map BLit (map sd_leaf d).
Proof. unfold sd_leaves. rewrite map_map. reflexivity. Qed.

(* unbounded half (C09): every literal under the root of a distribution is one of its leaves *)
Lemma sd_root_sound d r x : sd_root d = Some r -> sub (BLit x) r -> In x (map sd_leaf d).
Proof.
  unfold sd_root. rewrite sd_leaves_map. intros Hr Hs.
  assert (Hin : In (BLit x) (map BLit (map sd_leaf d))).
  { apply (sub_atom_root _ r); [|exact Hr|apply atom_BLit|exact Hs].
    intros l Hl. apply in_map_iff in Hl. destruct Hl as [y [<- _]]. apply atom_BLit. }
  apply in_map_iff in Hin. destruct Hin as [y [E Hy]]. injection E as <-. exact Hy.
Qed.

(* the root determines the leaf list, any number of leaves (C09_mmr_root_inj) *)
Definition fits (d : sdist) : Prop := N.of_nat (length d) < 2 ^ 63.

Lemma map_BLit_inj (xs ys : list bytes) : map BLit xs = map BLit ys -> xs = ys.
Proof.
  revert ys. induction xs as [|x xs IH]; intros [|y ys] H; try discriminate H; [reflexivity|].
  simpl in H. injection H as -> H. f_equal. apply IH. exact H.
Qed.

Lemma sd_root_leaves a b : fits a -> fits b ->
  sd_root a = sd_root b -> sd_root a <> None -> map sd_leaf a = map sd_leaf b.
Proof.
  unfold sd_root, fits. rewrite !sd_leaves_map. intros Ha Hb H Hn.
  apply map_BLit_inj. apply mmr_root_inj; try assumption.
  - intros l Hl. apply in_map_iff in Hl. destruct Hl as [y [<- _]]. apply atom_BLit.
  - intros l Hl. apply in_map_iff in Hl. destruct Hl as [y [<- _]]. apply atom_BLit.
  - rewrite !map_length. exact Ha.
  - rewrite !map_length. exact Hb.
Qed.

(* the known class: same leaf lists, different mappings *)
Definition Known_digit_move (a b : sdist) : Prop := map sd_leaf a = map sd_leaf b /\ a <> b.

Lemma sdist_eq_dec (a b : sdist) : {a = b} + {a <> b}.
Proof. repeat decide equality. Qed.

Theorem sd_holds_outside a b : fits a -> fits b ->
  sd_root a = sd_root b -> sd_root a <> None -> ~ Known_digit_move a b -> a = b.
Proof.
  intros Ha Hb H Hn Hk. destruct (sdist_eq_dec a b) as [E|E]; [exact E|].
  exfalso. apply Hk. split; [apply sd_root_leaves; assumption | exact E].
Qed.

Theorem sd_nodigit a b : fits a -> fits b ->
  ids_nodigit a -> ids_nodigit b -> sd_root a = sd_root b -> sd_root a <> None -> a = b.
Proof. intros Ha Hb Wa Wb H Hn. apply leaves_inj_nodigit; try assumption. apply sd_root_leaves; assumption. Qed.

Theorem sd_len L a b : fits a -> fits b ->
  ids_len L a -> ids_len L b -> sd_root a = sd_root b -> sd_root a <> None -> a = b.
Proof. intros Ha Hb Wa Wb H Hn. apply (leaves_inj_len L); try assumption. apply sd_root_leaves; assumption. Qed.

(* client side: the recomputed message matches the signed one only if root and epoch are the signed ones *)
Lemma signed_sd_wf root e : pm_wf (signed_sd root e).
Proof.
  unfold signed_sd. apply pm_wf_set; [|exact K_SD_ROOT_in|apply hex_value_BHex].
  apply pm_wf_set; [apply pm_wf_nil|exact K_SD_EPOCH_in|apply hex_value_dlit].
Qed.

Theorem sd_match certpm d e m root se : pm_wf certpm ->
  fill_sd certpm d e = Ok m -> match_message (pm_hash (signed_sd root se)) m = true ->
  sd_root_b d = Some root /\ e = se.
Proof.
  intros Wc Hf Hm. unfold fill_sd in Hf. destruct (sd_root_b d) as [r|] eqn:Er; [|discriminate].
  injection Hf as <-. apply match_eq in Hm.
  apply C04.PMInj.pm_hash_injective in Hm; [| |apply signed_sd_wf].
  - assert (H1 := f_equal (fun x => pm_get x K_SD_ROOT) Hm). assert (H2 := f_equal (fun x => pm_get x K_SD_EPOCH) Hm).
    cbn beta in H1, H2. unfold signed_sd in H1, H2.
    rewrite !pm_get_set_same in H1.
    rewrite (pm_get_set_other _ K_SD_ROOT _ K_SD_EPOCH) in H2 by (apply neq_of_eqb; vm_compute; reflexivity).
    rewrite (pm_get_set_other _ K_SD_ROOT _ K_SD_EPOCH) in H2 by (apply neq_of_eqb; vm_compute; reflexivity).
    rewrite !pm_get_set_same in H2.
    injection H1 as H1. injection H2 as H2. apply dec_inj in H2. split; congruence.
  - apply pm_wf_set; [|exact K_SD_ROOT_in|apply hex_value_BHex].
    apply pm_wf_set; [exact Wc|exact K_SD_EPOCH_in|apply hex_value_dlit].
Qed.
