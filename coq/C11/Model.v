(* C11/Model.v — certified transaction / block / stake sets are reported exactly as signed.
   Executable definitions only.

   Sources:
     mithril-common/src/messages/cardano_transactions_proof.rs   CardanoTransactionsProofsMessage::verify (legacy)
     mithril-common/src/messages/proof_v2/{verify,cardano_transactions_proof,cardano_blocks_proof}.rs
     mithril-common/src/entities/{cardano_transactions_set_proof,mk_set_proof}.rs   (verify = proof.verify + contains per item)
     mithril-common/src/entities/cardano_block_transaction_mktree_node.rs          (leaf_identifier)
     mithril-common/src/entities/cardano_transaction.rs                            (legacy leaf = the hash text)
     mithril-common/src/entities/block_range.rs                                    (map key = "<start>-<end>")
     mithril-common/src/signable_builder/cardano_stake_distribution.rs             (leaf = pool id ++ decimal stake)
     mithril-client/src/message.rs   compute_cardano_{transactions_proofs,blocks_proofs,transactions_proofs_v2,stake_distribution}_message
     mithril-common/src/messages/certificate.rs   CertificateMessage::match_message

   The Merkle side (MKProof / MKMapProof verification, contains, roots) is C09's model, in its
   BYTE-FAITHFUL form (C09/RawLeaf.v: [map_verify_b], [map_contains_b], [norm]): leaves are pushed
   raw and `MKTreeNode + MKTreeNode` hashes the plain concatenation, so two raw sibling leaves are
   committed only through their concatenation (known findings C09-raw-leaf-boundary and
   C11-raw-leaf-boundary).  A Merkle root as the client sees it (a hex string of bytes) is the
   [norm] of the root term.  The protocol message and its hash are C04's model.  Leaf encodings
   are REAL byte strings. *)
From Coq Require Import String Ascii.
From MV Require Import Base.Prelude Base.SymHash Gen.Consts.
From MV Require C04.Model.
From MV Require Import C09.Model.
Open Scope N_scope.

Definition bytes := list N.
Definition bytes_of_string := C04.Model.bytes_of_string.

(* ------------------------------------------------------------------ decimal rendering *)
(* u64 / BlockNumber / SlotNumber / Epoch Display: decimal, no leading zeros.  Least significant
   digit first, then reversed; the fuel is the bit size of the number (enough for every N). *)
Fixpoint rdigits (fuel : nat) (n : N) : list N :=
  match fuel with
  | O => []
  | S f => (48 + n mod 10) :: (if n / 10 =? 0 then [] else rdigits f (n / 10))
  end.
Definition dec (n : N) : bytes := rev (rdigits (S (N.to_nat (N.size n))) n).

(* ------------------------------------------------------------------ leaf encodings *)
(* HARD-CODED FORMAT STRINGS (the translator does not export them yet; see
   /verif/agents/c11_translator_request.md).  They are tied to the source on every run by the
   correspondence channel instead: the harness prints the bytes of the real
   `IntoMKTreeNode::into_mk_tree_node` / `Into<MKTreeNode>` of every item of every case and the
   model must produce the same bytes.
     cardano_block_transaction_mktree_node.rs, leaf_identifier():
        format!("Block/{block_hash}/{block_number}/{slot_number}")
        format!("Tx/{transaction_hash}/{block_hash}/{block_number}/{slot_number}")
     cardano_stake_distribution.rs, From<StakeDistributionEntry> for MKTreeNode:
        format!("{}{}", entry.0, entry.1)
     block_range.rs, From<BlockRange> for MKTreeNode:  start.to_string() ++ "-" ++ end.to_string()
     cardano_transaction.rs, From<&CardanoTransaction> for MKTreeNode (legacy): transaction_hash bytes *)
Definition SLASH : N := 47.
Definition DASH : N := 45.
Definition TX_PREFIX : bytes := bytes_of_string "Tx/".
Definition BLOCK_PREFIX : bytes := bytes_of_string "Block/".

Record tx := { t_hash : bytes; t_bhash : bytes; t_bn : N; t_slot : N }.
Record blk := { b_hash : bytes; b_bn : N; b_slot : N }.

Definition leaf_tx (t : tx) : bytes :=
  TX_PREFIX ++ t_hash t ++ SLASH :: t_bhash t ++ SLASH :: dec (t_bn t) ++ SLASH :: dec (t_slot t).
Definition leaf_blk (b : blk) : bytes :=
  BLOCK_PREFIX ++ b_hash b ++ SLASH :: dec (b_bn b) ++ SLASH :: dec (b_slot b).

(* what a response can report as certified *)
Inductive item :=
| ITx (t : tx)            (* v2 transaction *)
| IBlk (b : blk)          (* v2 block *)
| IHash (h : bytes).      (* legacy: a transaction hash *)
Definition leaf (i : item) : bytes :=
  match i with ITx t => leaf_tx t | IBlk b => leaf_blk b | IHash h => h end.

Definition range_key (s e : N) : bytes := dec s ++ DASH :: dec e.

(* stake distribution: BTreeMap<PoolId, Stake> in iteration order *)
Definition sdist := list (bytes * N).
Definition sd_leaf (e : bytes * N) : bytes := fst e ++ dec (snd e).

(* ------------------------------------------------------------------ set proofs *)
(* CardanoTransactionsSetProof::verify / MkSetProof::verify:
     proof.verify()?; for item { proof.contains(&leaf(item))? }                                  *)
Definition set_verify (leaves : list bytes) (p : mapproof) : bool :=
  map_verify_b p && forallb (fun l => map_contains_b p (BLit l)) leaves.

(* merkle_root(): the hex text of the root BYTES; two root terms with the same bytes are the
   same string, hence [norm] *)
Definition root_bytes (p : mapproof) : bt := norm (map_root p).

(* what `verify` returns: root, reported items, latest block number, offset (v2 only) *)
Record verified := { v_root : bt; v_items : list item; v_lbn : N; v_off : option N }.

(* ---- legacy: CardanoTransactionsProofsMessage.  A part's proof is None when the hex/bincode
   payload does not decode (MalformedData). *)
Record lpart := { lp_hashes : list bytes; lp_proof : option mapproof }.
Record lmsg := { lm_parts : list lpart; lm_lbn : N }.

Fixpoint lverify_loop (ps : list lpart) (root : option bt) : result (option bt) :=
  match ps with
  | [] => Ok root
  | p :: r =>
      match lp_proof p with
      | None => Err
      | Some pr =>
          if set_verify (lp_hashes p) pr then
            match root with
            | None => lverify_loop r (Some (root_bytes pr))
            | Some r0 => if bt_eqb r0 (root_bytes pr) then lverify_loop r root else Err
            end
          else Err
      end
  end.

Definition lverify (m : lmsg) : result verified :=
  match lverify_loop (lm_parts m) None with
  | Ok (Some root) =>
      Ok {| v_root := root; v_items := map IHash (flat_map lp_hashes (lm_parts m));
            v_lbn := lm_lbn m; v_off := None |}
  | Ok None => Err                                   (* NoCertifiedTransaction *)
  | Err => Err
  | Panic => Panic
  end.

(* ---- v2: CardanoTransactionsProofsV2Message / CardanoBlocksProofsMessage: at most ONE set proof *)
Record v2msg := { v2_part : option (list item * option mapproof); v2_lbn : N; v2_off : N }.

Definition v2verify (m : v2msg) : result verified :=
  match v2_part m with
  | None => Err                                      (* NoCertifiedItem *)
  | Some (_, None) => Err                            (* MalformedData *)
  | Some (items, Some pr) =>
      if set_verify (map leaf items) pr then
        Ok {| v_root := root_bytes pr; v_items := items; v_lbn := v2_lbn m; v_off := Some (v2_off m) |}
      else Err
  end.

(* ------------------------------------------------------------------ protocol message *)
Definition pmsg := C04.Model.pmsg.
Definition pm_hash := C04.Model.pm_hash.
Definition pm_get := C04.Model.pm_get.
Definition pm_keys := C04.Model.pm_keys.

(* key text looked up by the variant name in the list generated from the source *)
Fixpoint key_named (l : list (string * string)) (v : string) : bytes :=
  match l with
  | [] => []
  | (n, d) :: r => if String.eqb n v then bytes_of_string d else key_named r v
  end.
Definition K (v : string) : bytes := key_named PM_KEYS v.
Definition K_TX_ROOT := K "CardanoTransactionsMerkleRoot".
Definition K_BTX_ROOT := K "CardanoBlocksTransactionsMerkleRoot".
Definition K_LBN := K "LatestBlockNumber".
Definition K_OFF := K "CardanoBlocksTransactionsBlockNumberOffset".
Definition K_SD_EPOCH := K "CardanoStakeDistributionEpoch".
Definition K_SD_ROOT := K "CardanoStakeDistributionMerkleRoot".

Definition bytes_eqb (a b : bytes) : bool := list_eqb N.eqb a b.
Fixpoint key_idx_go (ks : list bytes) (k : bytes) (i : nat) : nat :=
  match ks with [] => i | k' :: r => if bytes_eqb k k' then i else key_idx_go r k (S i) end.
Definition key_idx (k : bytes) : nat := key_idx_go pm_keys k 0.

(* ProtocolMessage::set_message_part = BTreeMap::insert (order of the enum = order of PM_KEYS) *)
Fixpoint pm_set (m : pmsg) (k : bytes) (v : bt) : pmsg :=
  match m with
  | [] => [(k, v)]
  | (k', v') :: r =>
      if bytes_eqb k k' then (k, v) :: r
      else if Nat.ltb (key_idx k) (key_idx k') then (k, v) :: m
      else (k', v') :: pm_set r k v
  end.

Definition dlit (n : N) : bt := BLit (dec n).

(* VerifiedCardanoTransactions::fill_protocol_message on a clone of the certificate's message *)
Definition fill_legacy (certpm : pmsg) (v : verified) : pmsg :=
  pm_set (pm_set certpm K_TX_ROOT (BHex (v_root v))) K_LBN (dlit (v_lbn v)).
(* compute_cardano_blocks_proofs_message / compute_cardano_transactions_proofs_v2_message *)
Definition fill_v2 (certpm : pmsg) (v : verified) : pmsg :=
  pm_set (pm_set (pm_set certpm K_BTX_ROOT (BHex (v_root v))) K_LBN (dlit (v_lbn v)))
         K_OFF (dlit (match v_off v with Some o => o | None => 0 end)).
(* CertificateMessage::match_message *)
Definition match_message (signed : bt) (m : pmsg) : bool := bt_eqb (pm_hash m) signed.

(* what the honest signers sign (signable builders) *)
Definition signed_legacy (root : bt) (lbn : N) : pmsg :=
  pm_set (pm_set [] K_TX_ROOT (BHex root)) K_LBN (dlit lbn).
Definition signed_v2 (root : bt) (lbn off : N) : pmsg :=
  pm_set (pm_set (pm_set [] K_BTX_ROOT (BHex root)) K_LBN (dlit lbn)) K_OFF (dlit off).
Definition signed_sd (root : bt) (epoch : N) : pmsg :=
  pm_set (pm_set [] K_SD_EPOCH (dlit epoch)) K_SD_ROOT (BHex root).

(* ------------------------------------------------------------------ stake distribution *)
Definition sd_leaves (d : sdist) : list bt := map (fun e => BLit (sd_leaf e)) d.
(* compute_merkle_tree_from_stake_distribution + compute_root (fails on an empty tree) *)
Definition sd_root (d : sdist) : option bt := mmr_root (sd_leaves d).
(* the root bytes (what to_hex() prints and the signers sign) *)
Definition sd_root_b (d : sdist) : option bt := option_map norm (sd_root d).
(* compute_cardano_stake_distribution_message *)
Definition fill_sd (certpm : pmsg) (d : sdist) (epoch : N) : result pmsg :=
  match sd_root_b d with
  | Some r => Ok (pm_set (pm_set certpm K_SD_EPOCH (dlit epoch)) K_SD_ROOT (BHex r))
  | None => Err
  end.

(* ------------------------------------------------------------------ correspondence runs *)
(* values of protocol-message parts in a case: literal text, or the hex of a named digest *)
Inductive pvspec := PVLit (b : bytes) | PVHex (m : mspec).
Definition pvden (f : forest) (v : pvspec) : bt :=
  match v with PVLit b => BLit b | PVHex m => BHex (norm (mden f m)) end.
Definition pmden (f : forest) (l : list (string * pvspec)) : pmsg :=
  fold_left (fun m kv => pm_set m (K (fst kv)) (pvden f (snd kv))) l [].

Definition obytes (b : bytes) : obs := OLN b.
Definition oleaves (l : list item) : obs := OL (map (fun i => obytes (leaf i)) l).

(* observation of a verification + recomputation: leaf bytes of every response item (always),
   then Err, or Ok with the reported items' leaves and whether the recomputed message matches *)
Definition overdict (all : list item) (r : result verified) (signed : bt) (fill : verified -> pmsg) : obs :=
  OL [oleaves all;
      match r with
      | Ok v => OL [OZ 0; oleaves (v_items v); OB (match_message signed (fill v))]
      | Err => OL [OZ 1]
      | Panic => OL [OZ 2]
      end].

Definition denp (f : forest) (p : option mpspec) : option mapproof :=
  match p with Some q => Some (mpden f q) | None => None end.

(* compact hashes in case terms: 8 lowercase hex digits of a number *)
Definition hexd (d : N) : N := if d <? 10 then 48 + d else 87 + d.
Fixpoint hexn_go (len : nat) (n : N) (acc : bytes) : bytes :=
  match len with O => acc | S l => hexn_go l (n / 16) (hexd (n mod 16) :: acc) end.
Definition hx (n : N) : bytes := hexn_go 8 n [].

(* committed block ranges of a chain: ((start, end), items in tree order) *)
Definition cranges (rs : list (N * N * list item)) : list (bytes * list bytes) :=
  map (fun r => (range_key (fst (fst r)) (snd (fst r)), map leaf (snd r))) rs.
(* trees of a case: the signed chain (master = tree 0, range i = tree i+1) followed by a foreign
   chain (master = tree 1+|ranges|, ...) whose proofs the adversary may splice in *)
Definition forest2 (a b : list (N * N * list item)) : forest :=
  forest_map (cranges a) ++ forest_map (cranges b).

(* legacy response: committed ranges; foreign ranges; parts; latest block number; the
   certificate's protocol message; the message the signers signed *)
Definition run_legacy (ranges foreign : list (N * N * list item)) (parts : list (list bytes * option mpspec))
    (lbn : N) (certpm signedpm : list (string * pvspec)) : obs :=
  let f := forest2 ranges foreign in
  let m := {| lm_parts := map (fun p => {| lp_hashes := fst p; lp_proof := denp f (snd p) |}) parts;
              lm_lbn := lbn |} in
  let cert := pmden f certpm in
  overdict (map IHash (flat_map fst parts)) (lverify m) (pm_hash (pmden f signedpm)) (fill_legacy cert).

Definition run_v2 (ranges foreign : list (N * N * list item)) (part : option (list item * option mpspec))
    (lbn off : N) (certpm signedpm : list (string * pvspec)) : obs :=
  let f := forest2 ranges foreign in
  let m := {| v2_part := match part with Some (is, p) => Some (is, denp f p) | None => None end;
              v2_lbn := lbn; v2_off := off |} in
  let cert := pmden f certpm in
  overdict (match part with Some (is, _) => is | None => [] end)
           (v2verify m) (pm_hash (pmden f signedpm)) (fill_v2 cert).

(* stake distributions: one signed distribution, a batch of reported ones.  Observation: leaf
   bytes of every reported entry, Err/Ok per report with the match flag, and the equality
   pattern of the roots (signed first). *)
Definition ojunk (k : N) : bt := BHex (BLit [k]).
Definition run_sd (signed : sdist) (sepoch : N) (reports : list (sdist * N)) : obs :=
  let sroot := match sd_root_b signed with Some r => r | None => ojunk 0 end in
  let smsg := pm_hash (signed_sd sroot sepoch) in
  let cert := signed_sd sroot sepoch in
  OL [OL (map (fun r => OL (map (fun e => obytes (sd_leaf e)) (fst r))) reports);
      OL (map (fun r => match fill_sd cert (fst r) (snd r) with
                        | Ok m => OL [OZ 0; OB (match_message smsg m)]
                        | _ => OL [OZ 1]
                        end) reports);
      OLN (eq_pattern (sroot :: map (fun r => match sd_root_b (fst r) with Some x => x | None => ojunk 1 end) reports))].
