(* C17/Properties.v — the property theorems, nothing else.
   C17: beacons to sign respect the security margin, are monotone, move in
   whole signing steps, end on a block-range boundary (transactions), cannot
   overflow, and are a pure function of (time point, configuration). *)
From MV Require Import Base.Prelude Gen.Consts C17.Model C17.Proofs.
Open Scope N_scope.

(* margin: beacon <= tip -. security_parameter (floored at 0) *)
Theorem C17_margin : forall tip sec step,
  tx_beacon tip sec step <= tip - sec /\ blocks_beacon tip sec step <= tip - sec.
Proof. intros; split; [apply tx_le | apply blocks_le]. Qed.

(* monotone in the tip *)
Theorem C17_monotone : forall tip tip' sec step, tip <= tip' ->
  tx_beacon tip sec step <= tx_beacon tip' sec step /\
  blocks_beacon tip sec step <= blocks_beacon tip' sec step.
Proof. intros; split; [apply tx_mono | apply blocks_mono]; assumption. Qed.

(* whole signing steps; the greatest such multiple below the margin *)
Theorem C17_blocks_step : forall tip sec step,
  (N.max step 1 | blocks_beacon tip sec step) /\
  tip - sec < blocks_beacon tip sec step + N.max step 1.
Proof. intros; split; [apply blocks_step | apply blocks_greatest]. Qed.

(* transactions: once the first (adjusted) step lies behind the margin the
   beacon ends exactly on a complete block-range boundary and on a step
   multiple; before that it is 0 *)
Theorem C17_tx_boundary : forall tip sec step,
  (adj_step step <= tip - sec ->
     (LENGTH | tx_beacon tip sec step + 1) /\ (adj_step step | tx_beacon tip sec step + 1)) /\
  (tip - sec < adj_step step -> tx_beacon tip sec step = 0).
Proof. intros; split; [apply tx_boundary | apply tx_below_first_step]. Qed.

(* adjusted step: positive multiple of the range length, at most the configured step when that is >= LENGTH *)
Theorem C17_adjusted_step : forall step,
  0 < adj_step step /\ (LENGTH | adj_step step) /\ (LENGTH <= step -> adj_step step <= step).
Proof. intros; split; [apply adj_pos | split; [apply adj_mult | apply adj_le]]. Qed.

(* no u64 overflow anywhere in either computation *)
Theorem C17_no_overflow : forall tip sec step,
  tip < U64 -> sec < U64 -> step < U64 ->
  range_start step <= step /\ adj_step step < U64 /\
  base tip sec (adj_step step) <= tip /\ base tip sec step <= tip /\
  tx_beacon tip sec step < U64 /\ blocks_beacon tip sec step < U64.
Proof. exact no_overflow. Qed.

(* purity / agreement between nodes, and monotonicity of the derived entity *)
Theorem C17_entity_pure : forall c d tp1 tp2,
  tp_epoch tp1 = tp_epoch tp2 -> tp_imm tp1 = tp_imm tp2 -> tp_block tp1 = tp_block tp2 ->
  tp_to_entity c d tp1 = tp_to_entity c d tp2.
Proof. exact entity_agree. Qed.

Theorem C17_entity_monotone : forall c d tp1 tp2 e1 e2,
  tp_block tp1 <= tp_block tp2 ->
  tp_to_entity c d tp1 = Ok e1 -> tp_to_entity c d tp2 = Ok e2 ->
  beacon_of e1 <= beacon_of e2.
Proof. exact entity_beacon_mono. Qed.

(* non-vacuity: rows of the repository's own test tables *)
Example C17_ex : tx_beacon 20 0 15 = 14 /\ blocks_beacon 20 5 15 = 15 /\ tx_beacon 105 5 30 = 89.
Proof. vm_compute. repeat split. Qed.
