(* C17/Model.v — beacons to sign.  Executable definitions only.
   Source: mithril-common/src/entities/signed_entity_config.rs,
           block_range.rs, block_number.rs (+ arithmetic_operation_wrapper.rs),
           epoch.rs (Epoch::previous).
   Machine arithmetic: BlockNumber wraps u64; `-` is saturating_sub, `/`, `*`
   and `+` are the plain u64 operators.  All intermediate values below are
   bounded by their inputs, so no operation can overflow (Proofs.no_overflow);
   the model therefore works in N without a Panic outcome. *)
From MV Require Import Base.Prelude Base.Machine Gen.Consts.
Open Scope N_scope.

Definition LENGTH : N := BLOCK_RANGE_LENGTH.

(* impl_sub_to_wrapper: saturating_sub.  N subtraction truncates at 0. *)
Definition ssub (a b : N) : N := a - b.

(* fn compute_block_number_to_be_signed (free function) *)
Definition base (tip sec step : N) : N :=
  let st := N.max step 1 in (ssub tip sec) / st * st.

(* CardanoBlocksTransactionsSigningConfig::compute_block_number_to_be_signed *)
Definition blocks_beacon (tip sec step : N) : N := base tip sec step.

(* BlockRange::start = start_with_length(number, LENGTH) *)
Definition range_start (x : N) : N := x / LENGTH * LENGTH.
Definition adj_step (step : N) : N := N.max (range_start step) LENGTH.
(* CardanoTransactionsSigningConfig::compute_block_number_to_be_signed *)
Definition tx_beacon (tip sec step : N) : N := ssub (base tip sec (adj_step step)) 1.

(* ---- SignedEntityConfig::time_point_to_signed_entity ---- *)
Inductive disc := MSD | CSD | CTx | CBTx | CDb.
Inductive entity :=
| EMSD (e : N) | ECSD (e : N) | ECTx (e b : N) | ECBTx (e b off : N) | ECDb (e imm : N).
Record cfg := { tx_cfg : option (N * N); btx_cfg : option (N * N) }.   (* (security_parameter, step) *)
Record time_point := { tp_epoch : N; tp_imm : N; tp_block : N }.

Definition tp_to_entity (c : cfg) (d : disc) (tp : time_point) : result entity :=
  match d with
  | MSD => Ok (EMSD (tp_epoch tp))
  | CSD => rmap ECSD (epoch_offset_by (tp_epoch tp) (-1))                     (* Epoch::previous *)
  | CTx => match tx_cfg c with
           | Some (sec, step) => Ok (ECTx (tp_epoch tp) (tx_beacon (tp_block tp) sec step))
           | None => Err end
  | CBTx => match btx_cfg c with
            | Some (sec, step) => Ok (ECBTx (tp_epoch tp) (blocks_beacon (tp_block tp) sec step) sec)
            | None => Err end
  | CDb => Ok (ECDb (tp_epoch tp) (tp_imm tp))
  end.

(* ---- observation for the correspondence channel ---- *)
Definition obs_entity (e : entity) : obs :=
  match e with
  | EMSD e => OL [OZ 0; ON e]
  | ECSD e => OL [OZ 1; ON e]
  | ECTx e b => OL [OZ 2; ON e; ON b]
  | ECBTx e b o => OL [OZ 3; ON e; ON b; ON o]
  | ECDb e i => OL [OZ 4; ON e; ON i]
  end.

(* one case = one (tip, sec, step, epoch, imm); observed: both beacons, the
   five derived entities, and the range arithmetic used by the importers. *)
Definition run (tip sec step epoch imm : N) : obs :=
  let c := {| tx_cfg := Some (sec, step); btx_cfg := Some (sec, step) |} in
  let tp := {| tp_epoch := epoch; tp_imm := imm; tp_block := tip |} in
  OL [ ON (tx_beacon tip sec step); ON (blocks_beacon tip sec step); ON (range_start tip);
       OL (map (fun d => ORes (rmap obs_entity (tp_to_entity c d tp))) [MSD; CSD; CTx; CBTx; CDb]) ].
