(* C17/Proofs.v — lemmas behind C17/Properties.v *)
From Coq Require Import Lia.
From MV Require Import Base.Prelude Base.Machine Gen.Consts C17.Model.
Open Scope N_scope.
Ltac Zify.zify_post_hook ::= Z.div_mod_to_equations.

(* The only fact about the generated constant the proofs use.  Re-checked
   whenever BlockRange::LENGTH changes in the source. *)
Lemma LENGTH_pos : 0 < LENGTH.
Proof. reflexivity. Qed.

Lemma blocks_le tip sec step : blocks_beacon tip sec step <= tip - sec.
Proof. unfold blocks_beacon, base, ssub. nia. Qed.

Lemma blocks_mono tip tip' sec step :
  tip <= tip' -> blocks_beacon tip sec step <= blocks_beacon tip' sec step.
Proof.
  unfold blocks_beacon, base, ssub. intros H. set (st := N.max step 1).
  assert (0 < st) by (unfold st; lia).
  assert ((tip - sec) / st <= (tip' - sec) / st) by (apply N.div_le_mono; lia). nia.
Qed.

Lemma blocks_step tip sec step : (N.max step 1 | blocks_beacon tip sec step).
Proof. unfold blocks_beacon, base. exists ((ssub tip sec) / N.max step 1). reflexivity. Qed.

(* largest multiple: nothing between the beacon and the margin is a step multiple *)
Lemma blocks_greatest tip sec step :
  tip - sec < blocks_beacon tip sec step + N.max step 1.
Proof.
  unfold blocks_beacon, base, ssub. set (st := N.max step 1).
  assert (0 < st) by (unfold st; lia). nia.
Qed.

Lemma adj_pos step : 0 < adj_step step.
Proof. unfold adj_step. pose proof LENGTH_pos. lia. Qed.

Lemma adj_mult step : (LENGTH | adj_step step).
Proof.
  unfold adj_step, range_start.
  destruct (N.max_spec (step / LENGTH * LENGTH) LENGTH) as [[_ ->]|[_ ->]].
  - exists 1. lia.
  - exists (step / LENGTH). reflexivity.
Qed.

Lemma adj_le step : LENGTH <= step -> adj_step step <= step.
Proof.
  intros H. unfold adj_step, range_start. pose proof LENGTH_pos.
  assert (step / LENGTH * LENGTH <= step) by nia. lia.
Qed.

Lemma tx_le tip sec step : tx_beacon tip sec step <= tip - sec.
Proof.
  unfold tx_beacon, base, ssub. assert (H := adj_pos step). rewrite N.max_l by lia. nia.
Qed.

Lemma tx_mono tip tip' sec step :
  tip <= tip' -> tx_beacon tip sec step <= tx_beacon tip' sec step.
Proof.
  unfold tx_beacon, base, ssub. intros H. assert (Ha := adj_pos step). rewrite N.max_l by lia.
  set (st := adj_step step) in *.
  assert ((tip - sec) / st <= (tip' - sec) / st) by (apply N.div_le_mono; lia). nia.
Qed.

Lemma tx_boundary tip sec step : adj_step step <= tip - sec ->
  (LENGTH | tx_beacon tip sec step + 1) /\ (adj_step step | tx_beacon tip sec step + 1).
Proof.
  intros Hge. unfold tx_beacon, base, ssub. assert (Ha := adj_pos step). rewrite N.max_l by lia.
  set (st := adj_step step) in *.
  assert (Hq : 1 <= (tip - sec) / st) by (apply N.div_le_lower_bound; lia).
  replace ((tip - sec) / st * st - 1 + 1) with ((tip - sec) / st * st) by nia.
  split.
  - destruct (adj_mult step) as [c Hc]. fold st in Hc. exists ((tip - sec) / st * c). rewrite Hc. ring.
  - exists ((tip - sec) / st). reflexivity.
Qed.

Lemma tx_below_first_step tip sec step : tip - sec < adj_step step -> tx_beacon tip sec step = 0.
Proof.
  intros Hlt. unfold tx_beacon, base, ssub. assert (Ha := adj_pos step). rewrite N.max_l by lia.
  rewrite N.div_small by exact Hlt. reflexivity.
Qed.

(* every intermediate value of both computations is bounded by an input, hence
   fits u64 whenever the inputs do: no overflow in any build mode *)
Lemma no_overflow tip sec step :
  tip < U64 -> sec < U64 -> step < U64 ->
  range_start step <= step /\ adj_step step < U64 /\
  base tip sec (adj_step step) <= tip /\ base tip sec step <= tip /\
  tx_beacon tip sec step < U64 /\ blocks_beacon tip sec step < U64.
Proof.
  intros Ht Hs Hst. pose proof LENGTH_pos as HL.
  assert (H1 : range_start step <= step) by (unfold range_start; nia).
  assert (H2 : adj_step step < U64).
  { unfold adj_step. assert (LENGTH < U64) by (vm_compute; reflexivity). lia. }
  assert (H3 : forall s, base tip sec s <= tip) by (intro s; unfold base, ssub; nia).
  repeat split; auto.
  - pose proof (tx_le tip sec step). lia.
  - pose proof (blocks_le tip sec step). lia.
Qed.

(* purity: the derived entity depends on the time point only through
   (epoch, immutable number, block number) and on the configuration; stated as
   agreement of two nodes holding the same configuration *)
Lemma entity_agree c d tp1 tp2 :
  tp_epoch tp1 = tp_epoch tp2 -> tp_imm tp1 = tp_imm tp2 -> tp_block tp1 = tp_block tp2 ->
  tp_to_entity c d tp1 = tp_to_entity c d tp2.
Proof. intros He Hi Hb. unfold tp_to_entity. rewrite He, Hi, Hb. reflexivity. Qed.

(* beacon carried by the derived entity never decreases along successive time points *)
Definition beacon_of (e : entity) : N :=
  match e with ECTx _ b => b | ECBTx _ b _ => b | _ => 0 end.

Lemma entity_beacon_mono c d tp1 tp2 e1 e2 :
  tp_block tp1 <= tp_block tp2 ->
  tp_to_entity c d tp1 = Ok e1 -> tp_to_entity c d tp2 = Ok e2 ->
  beacon_of e1 <= beacon_of e2.
Proof.
  intros Hb. unfold tp_to_entity. destruct d.
  - intros [= <-] [= <-]. simpl. lia.
  - destruct (epoch_offset_by (tp_epoch tp1) (-1)), (epoch_offset_by (tp_epoch tp2) (-1)); try discriminate.
    intros [= <-] [= <-]. simpl. lia.
  - destruct (tx_cfg c) as [[sec step]|]; try discriminate.
    intros [= <-] [= <-]. simpl. apply tx_mono; assumption.
  - destruct (btx_cfg c) as [[sec step]|]; try discriminate.
    intros [= <-] [= <-]. simpl. apply blocks_mono; assumption.
  - intros [= <-] [= <-]. simpl. lia.
Qed.
