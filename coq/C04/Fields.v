(* C04/Fields.v — per-field corollaries of the strong injectivity theorem, the signed-entity-type
   collision classes, and the message round trip. *)
From Coq Require Import Lia.
From MV Require Import Base.Prelude Base.Machine Base.SymHash Base.IdealSig Gen.Consts C04.Model C04.Proofs C04.PMInj.
Open Scope N_scope.

(* ---------- signed entity types: exactly which pairs feed identical bytes ---------- *)
Definition wf_set (t : setype) : Prop :=
  match t with
  | MSD e | CSD e => e < U64
  | CDb e i => e < U64 /\ i < U64
  | CTx e b => e < U64 /\ b < U64
  | CBTx e b o => e < U64 /\ b < U64 /\ o < U64
  end.
(* the known class: same beacon numbers under two different variants *)
Definition set_collide (t t' : setype) : Prop :=
  match t, t' with
  | MSD e, CSD e' | CSD e, MSD e' => e = e'
  | CTx e b, CDb e' i | CDb e' i, CTx e b => e = e' /\ b = i
  | _, _ => False
  end.

Lemma len8 a : length (be8 a) = 8%nat. Proof. unfold be8; apply be_bytes_length. Qed.
Lemma len2 a : length (be2 a) = 2%nat. Proof. unfold be2; apply be_bytes_length. Qed.

Ltac len_mismatch H :=
  exfalso; apply (f_equal (@length N)) in H; rewrite ?app_length, ?len8, ?len2 in H; simpl in H; lia.

Lemma feed_hash_char t t' : wf_set t -> wf_set t' -> feed_hash t = feed_hash t' -> t = t' \/ set_collide t t'.
Proof.
  destruct t, t'; cbn [feed_hash wf_set set_collide]; intros W W' H; try (len_mismatch H).
  - left. f_equal. apply be8_inj; assumption.
  - right. apply be8_inj; assumption.
  - right. apply be8_inj; assumption.
  - left. f_equal. apply be8_inj; assumption.
  - destruct W as [Wa Wb], W' as [Wa' Wb']. apply app_inv_len in H; [|rewrite !len8; reflexivity]. destruct H as [H1 H2].
    apply be8_inj in H1; try assumption. apply be8_inj in H2; try assumption. left; congruence.
  - destruct W as [Wa Wb], W' as [Wa' Wb']. apply app_inv_len in H; [|rewrite !len8; reflexivity]. destruct H as [H1 H2].
    apply be8_inj in H1; try assumption. apply be8_inj in H2; try assumption. right; split; congruence.
  - destruct W as [Wa Wb], W' as [Wa' Wb']. apply app_inv_len in H; [|rewrite !len8; reflexivity]. destruct H as [H1 H2].
    apply be8_inj in H1; try assumption. apply be8_inj in H2; try assumption. right; split; congruence.
  - destruct W as [Wa Wb], W' as [Wa' Wb']. apply app_inv_len in H; [|rewrite !len8; reflexivity]. destruct H as [H1 H2].
    apply be8_inj in H1; try assumption. apply be8_inj in H2; try assumption. left; congruence.
  - destruct W as (Wa & Wb & Wc), W' as (Wa' & Wb' & Wc').
    apply app_inv_head in H.
    apply app_inv_len in H; [|rewrite !app_length, !len8; reflexivity]. destruct H as [H1 H2].
    apply app_inv_len in H2; [|rewrite !len8; reflexivity]. destruct H2 as [H2 H3].
    apply be8_inj in H1; try assumption. apply be8_inj in H2; try assumption. apply be8_inj in H3; try assumption.
    left; congruence.
Qed.

(* ---------- one edit ---------- *)
Lemma mut_inj c m h : wf_cert c -> wf_cert (apply_mut c m) ->
  cert_hash c = Ok h -> cert_hash (apply_mut c m) = Ok h -> cert_equiv c (apply_mut c m).
Proof. intros. eapply cert_hash_inj; eassumption. Qed.

Lemma ts_nanos_id t : (I64_MIN <= t <= I64_MAX)%Z -> ts_nanos t = t.
Proof.
  intros [H1 H2]. unfold ts_nanos. apply Z.leb_le in H1, H2. rewrite H1, H2. reflexivity.
Qed.

Ltac use_inj c m :=
  let E := fresh "E" in
  intros W W' H1 H2; assert (E := mut_inj c m _ W W' H1 H2);
  destruct E as (Eprev & Eep & (Enet & (Ek & Em & Ephi) & Eini & Esea & Esig) & Epm & Esgn & Eavk & Ecs);
  cbn [apply_mut set_meta set_params prev epoch meta pm signed avk sig network version params initiated sealed signers pp_k pp_m pp_phi] in *.

Lemma field_prev c t h : wf_cert c -> wf_cert (apply_mut c (MPrev t)) ->
  cert_hash c = Ok h -> cert_hash (apply_mut c (MPrev t)) = Ok h -> t = prev c.
Proof. use_inj c (MPrev t). congruence. Qed.
Lemma field_epoch c e h : wf_cert c -> wf_cert (apply_mut c (MEpoch e)) ->
  cert_hash c = Ok h -> cert_hash (apply_mut c (MEpoch e)) = Ok h -> e = epoch c.
Proof. use_inj c (MEpoch e). congruence. Qed.
Lemma field_network c l h : wf_cert c -> wf_cert (apply_mut c (MNetwork l)) ->
  cert_hash c = Ok h -> cert_hash (apply_mut c (MNetwork l)) = Ok h -> l = network (meta c).
Proof. use_inj c (MNetwork l). apply app_inv_tail in Enet. congruence. Qed.
Lemma field_version c l h : wf_cert c -> wf_cert (apply_mut c (MVersion l)) ->
  cert_hash c = Ok h -> cert_hash (apply_mut c (MVersion l)) = Ok h -> l = version (meta c).
Proof. use_inj c (MVersion l). apply app_inv_head in Enet. congruence. Qed.
Lemma field_k c n h : wf_cert c -> wf_cert (apply_mut c (MK n)) ->
  cert_hash c = Ok h -> cert_hash (apply_mut c (MK n)) = Ok h -> n = pp_k (params (meta c)).
Proof. use_inj c (MK n). congruence. Qed.
Lemma field_m c n h : wf_cert c -> wf_cert (apply_mut c (MM n)) ->
  cert_hash c = Ok h -> cert_hash (apply_mut c (MM n)) = Ok h -> n = pp_m (params (meta c)).
Proof. use_inj c (MM n). congruence. Qed.
Lemma field_phi c p h : wf_cert c -> wf_cert (apply_mut c (MPhi p)) ->
  cert_hash c = Ok h -> cert_hash (apply_mut c (MPhi p)) = Ok h ->
  phi_fixed p = phi_fixed (pp_phi (params (meta c))).
Proof. use_inj c (MPhi p). congruence. Qed.
Lemma field_initiated c z h : wf_cert c -> wf_cert (apply_mut c (MInit z)) ->
  (I64_MIN <= z <= I64_MAX)%Z -> (I64_MIN <= initiated (meta c) <= I64_MAX)%Z ->
  cert_hash c = Ok h -> cert_hash (apply_mut c (MInit z)) = Ok h -> z = initiated (meta c).
Proof. intros W W' R R'. revert W W'. use_inj c (MInit z). rewrite !ts_nanos_id in Eini by assumption. congruence. Qed.
Lemma field_sealed c z h : wf_cert c -> wf_cert (apply_mut c (MSealed z)) ->
  (I64_MIN <= z <= I64_MAX)%Z -> (I64_MIN <= sealed (meta c) <= I64_MAX)%Z ->
  cert_hash c = Ok h -> cert_hash (apply_mut c (MSealed z)) = Ok h -> z = sealed (meta c).
Proof. intros W W' R R'. revert W W'. use_inj c (MSealed z). rewrite !ts_nanos_id in Esea by assumption. congruence. Qed.
Lemma field_signers c l h : wf_cert c -> wf_cert (apply_mut c (MSigners l)) ->
  cert_hash c = Ok h -> cert_hash (apply_mut c (MSigners l)) = Ok h -> l = signers (meta c).
Proof. use_inj c (MSigners l). congruence. Qed.
Lemma field_pm c p h : wf_cert c -> wf_cert (apply_mut c (MPm p)) -> pm_wf (pm c) -> pm_wf p ->
  cert_hash c = Ok h -> cert_hash (apply_mut c (MPm p)) = Ok h -> p = pm c.
Proof. intros W W' P P'. revert W W'. use_inj c (MPm p). symmetry. apply pm_hash_injective; assumption. Qed.
Lemma field_signed c t h : wf_cert c -> wf_cert (apply_mut c (MSigned t)) ->
  cert_hash c = Ok h -> cert_hash (apply_mut c (MSigned t)) = Ok h -> t = signed c.
Proof. use_inj c (MSigned t). congruence. Qed.
Lemma field_avk c t h : wf_cert c -> wf_cert (apply_mut c (MAvk t)) ->
  cert_hash c = Ok h -> cert_hash (apply_mut c (MAvk t)) = Ok h -> t = avk c.
Proof. use_inj c (MAvk t). congruence. Qed.

(* signature: kind (genesis / multi) and value are covered; the entity type up to the known class *)
Definition wf_sig (s : csig) : Prop := match s with GenesisSig _ => True | MultiSig t _ => wf_set t end.
Definition sig_same_or_known (s s' : csig) : Prop :=
  s = s' \/ match s, s' with
            | MultiSig t a, MultiSig t' b => a = b /\ set_collide t t'
            | _, _ => False
            end.
Lemma field_signature c s h : wf_cert c -> wf_cert (apply_mut c (MSig s)) -> wf_sig (sig c) -> wf_sig s ->
  cert_hash c = Ok h -> cert_hash (apply_mut c (MSig s)) = Ok h -> sig_same_or_known (sig c) s.
Proof.
  intros W W' S S'. revert W W'. use_inj c (MSig s).
  destruct (sig c) as [g | t a], s as [g' | t' a']; cbn [sig_equiv wf_sig] in *; try contradiction.
  - left; congruence.
  - destruct Ecs as [Ef ->]. destruct (feed_hash_char t t' S S' Ef) as [-> | K]; [left; reflexivity | right; split; [reflexivity | exact K]].
Qed.

(* restricted statement for the entity type: outside the known class the type is covered *)
Lemma field_set_outside c t t' a h : sig c = MultiSig t a -> wf_cert c -> wf_set t -> wf_set t' ->
  ~ set_collide t t' ->
  cert_hash c = Ok h -> cert_hash (apply_mut c (MSig (MultiSig t' a))) = Ok h -> t' = t.
Proof.
  intros Es W S S' NK H1 H2.
  assert (W' : wf_cert (apply_mut c (MSig (MultiSig t' a)))) by exact W.
  assert (K := field_signature c (MultiSig t' a) h W W' ltac:(rewrite Es; exact S) S' H1 H2).
  rewrite Es in K. destruct K as [K | [_ K]]; [congruence | contradiction].
Qed.

(* ---------- round trip ---------- *)
Lemma roundtrip c : cert_of_msg (msg_of_cert c) = Some c.
Proof. destruct c as [h p e m pm0 sg a [g | t s]]; reflexivity. Qed.

Lemma roundtrip_hash c c' : cert_of_msg (msg_of_cert c) = Some c' ->
  hash c' = hash c /\ signed c' = signed c /\ cert_hash c' = cert_hash c.
Proof. rewrite roundtrip. intros [= <-]. repeat split. Qed.

(* ---------- composite aggregate verification key: every component is covered ---------- *)
Lemma avk_of_inj r n t r' n' t' : avk_of r n t = avk_of r' n' t' -> r = r' /\ n = n' /\ t = t'.
Proof. unfold avk_of. intros H. inversion H. auto. Qed.

Lemma field_avk_components c r n t r' n' t' h : avk c = avk_of r n t -> wf_cert c ->
  cert_hash c = Ok h -> cert_hash (apply_mut c (MAvk (avk_of r' n' t'))) = Ok h ->
  r' = r /\ n' = n /\ t' = t.
Proof.
  intros Ea W H1 H2.
  assert (W' : wf_cert (apply_mut c (MAvk (avk_of r' n' t')))) by exact W.
  assert (E := field_avk c _ h W W' H1 H2). rewrite Ea in E. apply avk_of_inj in E. exact E.
Qed.

(* ---------- signer list: no canonicalisation (an appended entry, even a repeated one, shows) ---------- *)
Lemma field_signers_append c p h : wf_cert c -> wf_cert (apply_mut c (MSigners (signers (meta c) ++ [p]))) ->
  cert_hash c = Ok h -> cert_hash (apply_mut c (MSigners (signers (meta c) ++ [p]))) = Ok h -> False.
Proof.
  intros W W' H1 H2. assert (E := field_signers c _ h W W' H1 H2).
  apply (f_equal (@length party)) in E. rewrite app_length in E. simpl in E. lia.
Qed.

(* ---------- round trip whatever text form the key / signature strings take ---------- *)
Lemma roundtrip_enc c ea es : cert_of_msg (reencode (msg_of_cert c) ea es) = Some c.
Proof. destruct c as [h p e m pm0 sg a [g | t s]]; reflexivity. Qed.
