(* C04/PMInj.v — ProtocolMessage::compute_hash feeds key||value||key||value… with no separators.
   Over the symbol alphabet of the flattened pre-image (a literal byte, or one hex-rendered
   digest/key atom) the concatenation is uniquely parseable for the key list read from the
   source (Gen.Consts.PM_KEYS) whenever values are hex-like (bytes in [0-9a-f], or atoms, which
   are themselves hex text).  Port of prototype script 5 (PM.v) from ascii to symbols. *)
From Coq Require Import Lia Arith.
From MV Require Import Base.Prelude Base.SymHash Gen.Consts C04.Model.

Definition str := list bt.
Definition lit (b : N) : bt := BLit [b].

Definition is_hex_byte (b : N) : bool :=
  ((48 <=? b) && (b <=? 57) || (97 <=? b) && (b <=? 102))%N.
(* a symbol that can occur inside an honest value *)
Definition is_hex (c : bt) : bool :=
  match c with BLit [b] => is_hex_byte b | BLit _ => false | _ => true end.

Definition msg := list (str * str).
Definition enc (m : msg) : str := List.concat (map (fun kv => fst kv ++ snd kv) m).
Definition wf (ks : list str) (m : msg) : Prop :=
  Forall (fun kv => In (fst kv) ks /\ forallb is_hex (snd kv) = true) m.

Definition firsts (ks : list str) : list bt := flat_map (fun k => match k with c :: _ => [c] | [] => [] end) ks.
Definition memc (c : bt) (l : list bt) : bool := existsb (bt_eqb c) l.

Fixpoint is_prefix (a b : str) : bool :=
  match a, b with
  | [], _ => true
  | x :: a', y :: b' => bt_eqb x y && is_prefix a' b'
  | _ :: _, [] => false
  end.

Definition condN (ks : list str) := forallb (fun k => negb (match k with [] => true | _ => false end)) ks.
Definition condH (ks : list str) := forallb (fun k => negb (forallb is_hex k)) ks.
Definition condA (ks : list str) :=
  forallb (fun k1 => forallb (fun k2 =>
     if is_prefix k1 k2 then
       match skipn (List.length k1) k2 with
       | [] => true
       | d :: _ => negb (is_hex d) && negb (memc d (firsts ks))
       end
     else true) ks) ks.
Definition condB (ks : list str) :=
  forallb (fun k => forallb (fun i =>
     if forallb is_hex (firstn i k) then
       match skipn i k with [] => true | d :: _ => negb (memc d (firsts ks)) end
     else true) (seq 1 (List.length k))) ks.

Definition unambiguous ks := condN ks && condH ks && condA ks && condB ks.

Lemma is_prefix_app a b : is_prefix a (a ++ b) = true.
Proof. induction a; simpl; [reflexivity|]. rewrite bt_eqb_refl. exact IHa. Qed.

Lemma memc_In c l : memc c l = true <-> In c l.
Proof. unfold memc. rewrite existsb_exists. split.
  - intros [x [Hx He]]. apply bt_eqb_eq in He. subst. exact Hx.
  - intros H. exists c. split; [exact H | apply bt_eqb_refl]. Qed.

Lemma firsts_In ks k c r : In k ks -> k = c :: r -> In c (firsts ks).
Proof. intros Hk ->. unfold firsts. apply in_flat_map. exists (c :: r). split; [exact Hk | left; reflexivity]. Qed.

Section Inj.
  Variable ks : list str.
  Hypothesis U : unambiguous ks = true.

  Lemma U_split : condN ks = true /\ condH ks = true /\ condA ks = true /\ condB ks = true.
  Proof. generalize U. unfold unambiguous. rewrite !andb_true_iff. tauto. Qed.

  Lemma key_nonempty k : In k ks -> k <> [].
  Proof. destruct U_split as (UN & UH & UA & UB). intros Hk. unfold condN in UN. rewrite forallb_forall in UN. specialize (UN k Hk). destruct k; [discriminate | discriminate]. Qed.

  Lemma key_not_hex k : In k ks -> forallb is_hex k = false.
  Proof. destruct U_split as (UN & UH & UA & UB). intros Hk. unfold condH in UH. rewrite forallb_forall in UH. specialize (UH k Hk). apply negb_true_iff in UH. exact UH. Qed.

  Lemma enc_first m c r : wf ks m -> enc m = c :: r -> In c (firsts ks).
  Proof.
    intros Hwf He. destruct m as [|[k v] m']; [discriminate|].
    inversion Hwf as [|? ? [Hk _] _]; subst. simpl in Hk.
    assert (Hne := key_nonempty k Hk). destruct k as [|c' k']; [contradiction|].
    unfold enc in He; simpl in He. injection He as <- _. eapply firsts_In; [exact Hk | reflexivity].
  Qed.

  Lemma propA k1 d e : In k1 ks -> In (k1 ++ d :: e) ks -> is_hex d = false /\ ~ In d (firsts ks).
  Proof.
    destruct U_split as (UN & UH & UA & UB). intros H1 H2. unfold condA in UA. rewrite forallb_forall in UA. specialize (UA k1 H1).
    rewrite forallb_forall in UA. specialize (UA _ H2). rewrite is_prefix_app in UA.
    rewrite skipn_app, skipn_all, Nat.sub_diag in UA. simpl in UA.
    apply andb_true_iff in UA. destruct UA as [Ha Hb]. apply negb_true_iff in Ha, Hb. split; [exact Ha|].
    intros Hin. apply memc_In in Hin. congruence.
  Qed.

  Lemma propB h d r : In (h ++ d :: r) ks -> h <> [] -> forallb is_hex h = true -> ~ In d (firsts ks).
  Proof.
    destruct U_split as (UN & UH & UA & UB). intros Hk Hne Hh. unfold condB in UB. rewrite forallb_forall in UB. specialize (UB _ Hk).
    rewrite forallb_forall in UB. specialize (UB (List.length h)).
    assert (Hi : In (List.length h) (seq 1 (List.length (h ++ d :: r)))).
    { apply in_seq. rewrite app_length. simpl. destruct h; [contradiction | simpl; lia]. }
    specialize (UB Hi). rewrite firstn_app, firstn_all, Nat.sub_diag in UB. simpl in UB. rewrite app_nil_r, Hh in UB.
    rewrite skipn_app, skipn_all, Nat.sub_diag in UB. simpl in UB. apply negb_true_iff in UB.
    intros Hin. apply memc_In in Hin. congruence.
  Qed.

  Lemma same_key k1 v1 m1 k2 v2 m2 :
    In k1 ks -> In k2 ks -> forallb is_hex v1 = true -> forallb is_hex v2 = true -> wf ks m1 -> wf ks m2 ->
    k1 ++ v1 ++ enc m1 = k2 ++ v2 ++ enc m2 -> k1 = k2 /\ v1 ++ enc m1 = v2 ++ enc m2.
  Proof.
    intros H1 H2 Hv1 Hv2 W1 W2 E.
    apply app_eq_app in E. destruct E as [l [[Ea Eb] | [Ea Eb]]].
    - destruct l as [|d e]; [rewrite app_nil_r in Ea; subst; split; [reflexivity | simpl in Eb; congruence]|].
      exfalso. subst k1. destruct (propA k2 d e H2 H1) as [Hd Hn].
      destruct v2 as [|c r].
      + simpl in Eb. apply (enc_first m2 d _ W2) in Eb. contradiction.
      + simpl in Eb. injection Eb as Ec _. subst c. cbn [forallb] in Hv2. apply andb_true_iff in Hv2. destruct Hv2. congruence.
    - destruct l as [|d e]; [rewrite app_nil_r in Ea; subst; split; [reflexivity | simpl in Eb; congruence]|].
      exfalso. subst k2. destruct (propA k1 d e H1 H2) as [Hd Hn].
      destruct v1 as [|c r].
      + simpl in Eb. apply (enc_first m1 d _ W1) in Eb. contradiction.
      + simpl in Eb. injection Eb as Ec _. subst c. cbn [forallb] in Hv1. apply andb_true_iff in Hv1. destruct Hv1. congruence.
  Qed.

  Lemma value_boundary h m1 m2 : h <> [] -> forallb is_hex h = true -> wf ks m1 -> wf ks m2 -> h ++ enc m1 = enc m2 -> False.
  Proof.
    intros Hne Hh W1 W2 E.
    destruct m2 as [|[k' v'] m2']; [destruct h; [contradiction | discriminate]|].
    inversion W2 as [|? ? [Hk' Hv'] W2']; subst. simpl in Hk', Hv'.
    change (enc ((k', v') :: m2')) with ((k' ++ v') ++ enc m2') in E. rewrite <- app_assoc in E.
    apply app_eq_app in E. destruct E as [l [[Ea Eb] | [Ea Eb]]].
    - subst h. rewrite forallb_app in Hh. apply andb_true_iff in Hh. destruct Hh as [Hk _].
      rewrite (key_not_hex k' Hk') in Hk. discriminate.
    - destruct l as [|d r].
      + rewrite app_nil_r in Ea. subst k'. rewrite (key_not_hex h Hk') in Hh. discriminate.
      + subst k'. assert (Hn := propB h d r Hk' Hne Hh).
        simpl in Eb. apply (enc_first m1 d _ W1) in Eb. contradiction.
  Qed.

  Theorem enc_injective : forall m1 m2, wf ks m1 -> wf ks m2 -> enc m1 = enc m2 -> m1 = m2.
  Proof.
    induction m1 as [|[k1 v1] m1 IH]; intros m2 W1 W2 E.
    - destruct m2 as [|[k2 v2] m2]; [reflexivity|]. exfalso.
      inversion W2 as [|? ? [Hk _] _]; subst. simpl in Hk. apply key_nonempty in Hk.
      unfold enc in E; simpl in E. destruct k2; [contradiction | discriminate].
    - destruct m2 as [|[k2 v2] m2].
      + exfalso. inversion W1 as [|? ? [Hk _] _]; subst. simpl in Hk. apply key_nonempty in Hk.
        unfold enc in E; simpl in E. destruct k1; [contradiction | discriminate].
      + inversion W1 as [|? ? [Hk1 Hv1] W1']; subst. inversion W2 as [|? ? [Hk2 Hv2] W2']; subst. simpl in Hk1, Hv1, Hk2, Hv2.
        change (enc ((k1, v1) :: m1)) with ((k1 ++ v1) ++ enc m1) in E.
        change (enc ((k2, v2) :: m2)) with ((k2 ++ v2) ++ enc m2) in E.
        rewrite <- !app_assoc in E.
        destruct (same_key _ _ _ _ _ _ Hk1 Hk2 Hv1 Hv2 W1' W2' E) as [-> E2].
        apply app_eq_app in E2. destruct E2 as [l [[Ea Eb] | [Ea Eb]]].
        * destruct l as [|c r].
          -- rewrite app_nil_r in Ea. subst v1. simpl in Eb. f_equal. apply IH; [assumption | assumption | congruence].
          -- exfalso. subst v1. rewrite forallb_app in Hv1. apply andb_true_iff in Hv1. destruct Hv1 as [_ Hl].
             eapply (value_boundary (c :: r) m1 m2); [discriminate | exact Hl | assumption | assumption | symmetry; exact Eb].
        * destruct l as [|c r].
          -- rewrite app_nil_r in Ea. subst v2. simpl in Eb. f_equal. apply IH; [assumption | assumption | exact Eb].
          -- exfalso. subst v2. rewrite forallb_app in Hv2. apply andb_true_iff in Hv2. destruct Hv2 as [_ Hl].
             eapply (value_boundary (c :: r) m2 m1); [discriminate | exact Hl | assumption | assumption | symmetry; exact Eb].
  Qed.
End Inj.

(* ---------- instance: the key list generated from the source ---------- *)
Definition sym_keys : list str := map (map lit) pm_keys.
Lemma keys_unambiguous : unambiguous sym_keys = true.
Proof. vm_compute. reflexivity. Qed.

(* honest value grammar: literal hex text, or one hex-rendered digest/key atom *)
Definition hex_value (v : bt) : bool := forallb is_hex (flat1 v).
Definition pm_wf (m : pmsg) : Prop :=
  Forall (fun kv => In (fst kv) pm_keys /\ hex_value (snd kv) = true) m.

Definition to_msg (m : pmsg) : msg := map (fun kv => (map lit (fst kv), flat1 (snd kv))) m.

Lemma flat_pm_parts m : flat (pm_parts m) = enc (to_msg m).
Proof.
  induction m as [|[k v] m IH]; [reflexivity|].
  unfold pm_parts. cbn [flat_map fst snd]. change (flat_map (fun kv : list N * bt => [BLit (fst kv); snd kv]) m) with (pm_parts m).
  change ([BLit k; v] ++ pm_parts m) with (BLit k :: v :: pm_parts m).
  unfold flat. cbn [flat_map]. fold (flat (pm_parts m)). rewrite IH.
  unfold enc, to_msg. cbn [map concat fst snd flat1]. rewrite <- app_assoc. reflexivity.
Qed.

Lemma map_lit_inj' (l l' : list N) : map lit l = map lit l' -> l = l'.
Proof.
  revert l'; induction l as [|a l IH]; intros [|b l'] H; try discriminate; [reflexivity|].
  simpl in H. unfold lit in H at 1 3. injection H as -> H. f_equal. apply IH. exact H.
Qed.

Lemma flat1_inj' x y : flat1 x = flat1 y -> x = y.
Proof.
  destruct x as [l | g xs | t]; destruct y as [l' | h ys | t']; simpl; intros H;
    try discriminate;
    try (destruct l as [|a [|b l]]; discriminate);
    try (destruct l' as [|a [|b l']]; discriminate).
  - f_equal. apply map_lit_inj'. exact H.
  - injection H as -> ->. reflexivity.
  - injection H as ->. reflexivity.
Qed.

Lemma to_msg_inj m m' : to_msg m = to_msg m' -> m = m'.
Proof.
  revert m'; induction m as [|[k v] m IH]; intros [|[k' v'] m'] H; try discriminate; [reflexivity|].
  unfold to_msg in H. cbn [map fst snd] in H.
  assert (H1 : map lit k = map lit k') by congruence.
  assert (H2 : flat1 v = flat1 v') by congruence.
  assert (H3 : to_msg m = to_msg m') by (unfold to_msg; congruence).
  apply map_lit_inj' in H1. apply flat1_inj' in H2. apply IH in H3. subst. reflexivity.
Qed.

Lemma to_msg_wf m : pm_wf m -> wf sym_keys (to_msg m).
Proof.
  induction 1 as [|[k v] m [Hk Hv] _ IH]; [constructor|].
  constructor; [|exact IH]. cbn [fst snd] in *. split; [apply in_map; exact Hk | exact Hv].
Qed.

Theorem pm_hash_injective m m' : pm_wf m -> pm_wf m' -> pm_hash m = pm_hash m' -> m = m'.
Proof.
  intros W W' H. unfold pm_hash, hexdg, dg in H. injection H as H.
  rewrite !flat_pm_parts in H.
  apply to_msg_inj. apply (enc_injective sym_keys keys_unambiguous); [apply to_msg_wf; exact W | apply to_msg_wf; exact W' | exact H].
Qed.
