(* C04/Refuted.v — the full statement "any change of the signed entity type changes the hash"
   is false for the code as it is: SignedEntityType::feed_hash emits only the beacon numbers
   (the discriminant is fed for CardanoBlocksTransactions alone; the source carries a TODO). *)
From MV Require Import Base.Prelude Base.Machine Base.SymHash Base.IdealSig Gen.Consts C04.Model C04.Fields.
Open Scope N_scope.

Definition wit_meta : metadata :=
  {| network := [100; 101; 118]; version := [48; 46; 49];
     params := {| pp_k := 5; pp_m := 100; pp_phi := (5854679515581645, -53)%Z |};
     initiated := 1700000000123456789%Z; sealed := 1700000100123456789%Z;
     signers := [ {| pid := [112; 49]; stake := 10 |} ] |}.
Definition wit_cert (t : setype) : cert :=
  {| hash := BLit []; prev := BLit [97]; epoch := 7; meta := wit_meta;
     pm := [(pmk 5, BLit [55])]; signed := BLit [115]; avk := BLit [1];
     sig := MultiSig t {| ms_id := 1; ms_by := None |} |}.

(* two different signed entity types, same certificate otherwise, same hash *)
Theorem C04_refuted_set_stake_distribution :
  exists t t' h, t <> t' /\ set_collide t t' /\
                 cert_hash (wit_cert t) = Ok h /\ cert_hash (wit_cert t') = Ok h.
Proof.
  exists (MSD 7), (CSD 7). eexists. split; [discriminate|]. split; [reflexivity|].
  split; vm_compute; reflexivity.
Qed.

Theorem C04_refuted_set_transactions_database :
  exists t t' h, t <> t' /\ set_collide t t' /\
                 cert_hash (wit_cert t) = Ok h /\ cert_hash (wit_cert t') = Ok h.
Proof.
  exists (CTx 7 9), (CDb 7 9). eexists. split; [discriminate|]. split; [cbn; split; reflexivity|].
  split; vm_compute; reflexivity.
Qed.

(* CardanoBlocksTransactions is not in the class: its index is fed *)
Example C04_cbtx_separated : forall e b o t, ~ set_collide (CBTx e b o) t /\ ~ set_collide t (CBTx e b o).
Proof. intros e b o t; destruct t; split; intros H; exact H. Qed.
