(* C04/Model.v — certificate hashing and the certificate <-> message conversion.
   Executable definitions only.
   Sources (mithril-common/src): entities/certificate.rs (try_compute_hash,
   to_bytes_hex_for_certificate_hash, signed_entity_type), entities/certificate_metadata.rs
   (CertificateMetadata::compute_hash, StakeDistributionParty::compute_hash),
   entities/protocol_parameters.rs (compute_hash, phi_f_fixed), entities/protocol_message.rs
   (compute_hash, legacy scheme), entities/signed_entity_type.rs (feed_hash),
   messages/certificate.rs (TryFrom both ways).  Feature `future_snark` is OFF (default build):
   the ancillary prover/verifier data enums are uninhabited, so those optional fields are always
   None and feed nothing; the only hash scheme is Legacy.

   Hashing idealisation (DESIGN 4): a digest is the term [BHash alg pre].  The pre-image is the
   *flattening* of the fed parts: literal runs are exploded byte by byte (so that two adjacent
   literal fields concatenate exactly as in the real byte stream: "dev"+"net" = "devnet"), while a
   hex-rendered digest / key / signature is one symbol (H-sep: digest text never re-parses as
   neighbouring literal bytes).  Keys and signatures enter through their codecs
   (to_json_hex / to_bytes_hex), modelled as the atom [BHex k] of an abstract key term [k]
   (codec injectivity is idealised, JSON text is not modelled). *)
From Coq Require Import String Ascii.
From MV Require Import Base.Prelude Base.Machine Base.SymHash Base.IdealSig Gen.Consts.
Open Scope N_scope.

(* ---------- byte encodings ---------- *)
Fixpoint le_bytes (k : nat) (n : N) : list N :=
  match k with O => [] | S k' => (n mod 256) :: le_bytes k' (n / 256) end.
Definition be_bytes (k : nat) (n : N) : list N := rev (le_bytes k n).
Definition be8 := be_bytes 8.      (* u64::to_be_bytes *)
Definition be4 := be_bytes 4.      (* U8F24::to_be_bytes (u32 bits) *)
Definition be2 := be_bytes 2.      (* u16::to_be_bytes *)
(* i64::to_be_bytes: two's complement *)
Definition i64_be (z : Z) : list N := be8 (Z.to_N (z mod 18446744073709551616)%Z).

Definition bytes_of_string (s : string) : list N :=
  map (fun c => N_of_ascii c) (list_ascii_of_string s).

(* byte strings of the case terms are written as (length, big-endian number): [bs k 0x…] *)
Definition bs (k : nat) (n : N) : list N := be_bytes k n.

(* u64 Display (decimal, no leading zeros) *)
Fixpoint dec_go (fuel : nat) (n : N) (acc : list N) : list N :=
  match fuel with
  | O => acc
  | S f => let acc' := (48 + n mod 10) :: acc in
           if n / 10 =? 0 then acc' else dec_go f (n / 10) acc'
  end.
Definition dec (n : N) : list N := dec_go 40 n [].

(* ---------- flattening and digests ---------- *)
Definition flat1 (t : bt) : list bt :=
  match t with BLit l => map (fun b => BLit [b]) l | _ => [t] end.
Definition flat (ts : list bt) : list bt := flat_map flat1 ts.
Definition dg (alg : N) (parts : list bt) : bt := BHash alg (flat parts).
(* hex::encode(Sha256(parts)) : what every compute_hash returns *)
Definition hexdg (parts : list bt) : bt := BHex (dg SHA256 parts).

(* injective abstract encoding of ideal keys / signatures as terms (not a hash: a reserved tag) *)
Definition ENC : N := 100.

(* ---------- protocol parameters ---------- *)
(* phi_f is an f64: carried exactly as mantissa * 2^exponent *)
Record pparams := { pp_k : N; pp_m : N; pp_phi : Z * Z }.

(* round-to-nearest, ties-to-even of m * 2^k   (fixed::from_num on a float source) *)
Definition rne (m k : Z) : Z :=
  if (0 <=? k)%Z then (m * 2 ^ k)%Z
  else let d := (2 ^ (- k))%Z in
       let q := (m / d)%Z in let r := (m mod d)%Z in
       if (2 * r <? d)%Z then q
       else if (d <? 2 * r)%Z then (q + 1)%Z
       else if Z.even q then q else (q + 1)%Z.

(* ProtocolParameters::phi_f_fixed = U8F24::from_num(phi_f): panics when the rounded value does not
   fit 8.24 unsigned bits *)
Definition phi_fixed (p : Z * Z) : result N :=
  let r := rne (fst p) (snd p + 24) in
  if ((0 <=? r) && (r <? 4294967296))%Z then Ok (Z.to_N r) else Panic.

Definition pp_hash (p : pparams) : result bt :=
  do f <- phi_fixed (pp_phi p);
  Ok (hexdg [BLit (be8 (pp_k p)); BLit (be8 (pp_m p)); BLit (be4 f)]).

(* ---------- metadata ---------- *)
Record party := { pid : list N; stake : N }.
Definition party_hash (p : party) : bt := hexdg [BLit (pid p); BLit (be8 (stake p))].

(* timestamps: nanoseconds since the Unix epoch as an unbounded integer (chrono's range is wider
   than i64 nanoseconds); timestamp_nanos_opt().unwrap_or_default() *)
Definition ts_nanos (t : Z) : Z := if ((I64_MIN <=? t) && (t <=? I64_MAX))%Z then t else 0%Z.

Record metadata := {
  network : list N; version : list N; params : pparams;
  initiated : Z; sealed : Z; signers : list party }.

Definition meta_parts (m : metadata) (ph : bt) : list bt :=
  [BLit (network m); BLit (version m); ph;
   BLit (i64_be (ts_nanos (initiated m))); BLit (i64_be (ts_nanos (sealed m)))]
  ++ map party_hash (signers m).
Definition meta_hash (m : metadata) : result bt :=
  do ph <- pp_hash (params m); Ok (hexdg (meta_parts m ph)).

(* ---------- protocol message (legacy scheme) ---------- *)
Definition pm_keys : list (list N) := map (fun p => bytes_of_string (snd p)) PM_KEYS.
Definition pmk (i : nat) : list N := nth i pm_keys [].
(* association list in BTreeMap order: (key Display bytes, value) *)
Definition pmsg := list (list N * bt).
Definition pm_parts (m : pmsg) : list bt := flat_map (fun kv => [BLit (fst kv); snd kv]) m.
Definition pm_hash (m : pmsg) : bt := hexdg (pm_parts m).
Fixpoint pm_get (m : pmsg) (k : list N) : option bt :=
  match m with
  | [] => None
  | (k', v) :: r => if list_eqb N.eqb k k' then Some v else pm_get r k
  end.

(* ---------- signed entity type ---------- *)
Inductive setype :=
| MSD (e : N) | CSD (e : N) | CDb (e imm : N) | CTx (e b : N) | CBTx (e b off : N).

(* ENTITY_TYPE_CARDANO_BLOCKS_TRANSACTIONS (database index of CardanoBlocksTransactions, the only variant
   whose index feed_hash emits) comes from MV.Gen.Consts, i.e. from the source; the shape of feed_hash the
   model is written against is pinned by C04_feed_hash_tie in Properties.v *)

Definition feed_hash (t : setype) : list N :=
  match t with
  | MSD e | CSD e => be8 e
  | CDb e i => be8 e ++ be8 i
  | CTx e b => be8 e ++ be8 b
  | CBTx e b o => be2 ENTITY_TYPE_CARDANO_BLOCKS_TRANSACTIONS ++ be8 e ++ be8 b ++ be8 o
  end.

(* ---------- aggregate verification key (Concatenation) ---------- *)
(* the key is {mt_commitment: {root, nr_leaves}, total_stake}; its json-hex text is an atom of the
   three components (codec injectivity idealised, as for every key) *)
Definition avk_of (root : list N) (nr_leaves total_stake : N) : bt :=
  BHash ENC [BLit root; BLit [nr_leaves]; BLit [total_stake]].

(* ---------- signatures ---------- *)
(* ideal STM multi-signature: a byte identity plus, when it is a genuine aggregate, what it is valid
   for: (aggregate key, (k, m, phi_fixed), message).  The STM verifier itself is property C01. *)
Record msig := { ms_id : N; ms_by : option (bt * (N * N * N) * bt) }.
Definition ms_bt (s : msig) : bt :=
  BHex (BHash ENC [BLit [ms_id s];
                   match ms_by s with
                   | None => BLit [0]
                   | Some (a, (k, m, f), msg) => BHash ENC [a; BLit [k; m; f]; msg]
                   end]).
Definition sg_bt (s : sg) : bt :=
  match s with
  | SigOf sk m => BHex (BHash ENC [BLit [0; sk]; m])
  | SigAt sk p m => BHex (BHash ENC [BLit [1; sk; p]; m])
  | Junk n => BHex (BHash ENC [BLit [2; n]])
  end.

Inductive csig := GenesisSig (s : sg) | MultiSig (t : setype) (s : msig).

(* ---------- certificate ---------- *)
Record cert := {
  hash : bt; prev : bt; epoch : N; meta : metadata; pm : pmsg;
  signed : bt; avk : bt; sig : csig }.

Definition sig_parts (s : csig) : list bt :=
  match s with
  | MultiSig t s => [BLit (feed_hash t); ms_bt s]
  | GenesisSig s => [sg_bt s]
  end.
Definition cert_parts (c : cert) (mh : bt) : list bt :=
  [prev c; BLit (be8 (epoch c)); mh; pm_hash (pm c); signed c; BHex (avk c)] ++ sig_parts (sig c).
(* Certificate::try_compute_hash *)
Definition cert_hash (c : cert) : result bt :=
  do mh <- meta_hash (meta c); Ok (hexdg (cert_parts c mh)).

(* ---------- certificate <-> message ---------- *)
(* multi_signature / genesis_signature strings: None = "" ; Some s = the (non-empty) codec text of s *)
(* text form of a key / signature string in the message: every ProtocolKey decodes from both forms
   (ProtocolKeyCodec::decode_key: json-hex first then bytes-hex, or the reverse for the bytes_hex_codec
   types); the conversion from a certificate always writes the canonical one (json-hex for the AVK and
   the multi-signature, bytes-hex for the genesis signature) *)
Inductive kenc := JsonHex | BytesHex.
Record cmsg := {
  m_hash : bt; m_prev : bt; m_epoch : N; m_set : setype; m_meta : metadata; m_pm : pmsg;
  m_signed : bt; m_avk : bt; m_multi : option msig; m_genesis : option sg;
  m_avk_enc : kenc; m_sig_enc : kenc }.

Definition signed_entity_type (c : cert) : setype :=
  match sig c with GenesisSig _ => MSD (epoch c) | MultiSig t _ => t end.

Definition msg_of_cert (c : cert) : cmsg :=
  {| m_hash := hash c; m_prev := prev c; m_epoch := epoch c; m_set := signed_entity_type c;
     m_meta := meta c; m_pm := pm c; m_signed := signed c; m_avk := avk c;
     m_multi := match sig c with MultiSig _ s => Some s | _ => None end;
     m_genesis := match sig c with GenesisSig s => Some s | _ => None end;
     m_avk_enc := JsonHex;
     m_sig_enc := match sig c with GenesisSig _ => BytesHex | MultiSig _ _ => JsonHex end |}.

(* the same message with its key / signature strings written in the other accepted text form *)
Definition reencode (m : cmsg) (ea es : kenc) : cmsg :=
  {| m_hash := m_hash m; m_prev := m_prev m; m_epoch := m_epoch m; m_set := m_set m; m_meta := m_meta m;
     m_pm := m_pm m; m_signed := m_signed m; m_avk := m_avk m; m_multi := m_multi m;
     m_genesis := m_genesis m; m_avk_enc := ea; m_sig_enc := es |}.

Definition cert_of_msg (m : cmsg) : option cert :=
  let mk s := {| hash := m_hash m; prev := m_prev m; epoch := m_epoch m; meta := m_meta m;
                 pm := m_pm m; signed := m_signed m; avk := m_avk m; sig := s |} in
  match m_genesis m with
  | None => match m_multi m with
            | Some s => Some (mk (MultiSig (m_set m) s))
            | None => None                      (* decoding "" as a multi-signature fails *)
            end
  | Some g => Some (mk (GenesisSig g))
  end.

(* ---------- mutation DSL used by the correspondence cases ---------- *)
Inductive mut :=
| MPrev (t : bt) | MEpoch (e : N) | MNetwork (l : list N) | MVersion (l : list N)
| MK (n : N) | MM (n : N) | MPhi (p : Z * Z) | MInit (z : Z) | MSealed (z : Z)
| MSigners (l : list party) | MPm (p : pmsg) | MSigned (t : bt) | MAvk (t : bt) | MSig (s : csig)
| MHash (t : bt).

Definition set_meta (c : cert) (m : metadata) : cert :=
  {| hash := hash c; prev := prev c; epoch := epoch c; meta := m; pm := pm c;
     signed := signed c; avk := avk c; sig := sig c |}.
Definition set_params (m : metadata) (p : pparams) : metadata :=
  {| network := network m; version := version m; params := p; initiated := initiated m;
     sealed := sealed m; signers := signers m |}.

Definition apply_mut (c : cert) (m : mut) : cert :=
  let md := meta c in let pp := params md in
  match m with
  | MPrev t => {| hash := hash c; prev := t; epoch := epoch c; meta := md; pm := pm c; signed := signed c; avk := avk c; sig := sig c |}
  | MEpoch e => {| hash := hash c; prev := prev c; epoch := e; meta := md; pm := pm c; signed := signed c; avk := avk c; sig := sig c |}
  | MNetwork l => set_meta c {| network := l; version := version md; params := pp; initiated := initiated md; sealed := sealed md; signers := signers md |}
  | MVersion l => set_meta c {| network := network md; version := l; params := pp; initiated := initiated md; sealed := sealed md; signers := signers md |}
  | MK n => set_meta c (set_params md {| pp_k := n; pp_m := pp_m pp; pp_phi := pp_phi pp |})
  | MM n => set_meta c (set_params md {| pp_k := pp_k pp; pp_m := n; pp_phi := pp_phi pp |})
  | MPhi p => set_meta c (set_params md {| pp_k := pp_k pp; pp_m := pp_m pp; pp_phi := p |})
  | MInit z => set_meta c {| network := network md; version := version md; params := pp; initiated := z; sealed := sealed md; signers := signers md |}
  | MSealed z => set_meta c {| network := network md; version := version md; params := pp; initiated := initiated md; sealed := z; signers := signers md |}
  | MSigners l => set_meta c {| network := network md; version := version md; params := pp; initiated := initiated md; sealed := sealed md; signers := l |}
  | MPm p => {| hash := hash c; prev := prev c; epoch := epoch c; meta := md; pm := p; signed := signed c; avk := avk c; sig := sig c |}
  | MSigned t => {| hash := hash c; prev := prev c; epoch := epoch c; meta := md; pm := pm c; signed := t; avk := avk c; sig := sig c |}
  | MAvk t => {| hash := hash c; prev := prev c; epoch := epoch c; meta := md; pm := pm c; signed := signed c; avk := t; sig := sig c |}
  | MSig s => {| hash := hash c; prev := prev c; epoch := epoch c; meta := md; pm := pm c; signed := signed c; avk := avk c; sig := s |}
  | MHash t => {| hash := t; prev := prev c; epoch := epoch c; meta := md; pm := pm c; signed := signed c; avk := avk c; sig := sig c |}
  end.
Definition apply_muts (c : cert) (ms : list mut) : cert := fold_left apply_mut ms c.

(* ---------- observations ---------- *)
Definition res_class {A} (r : result A) : N := match r with Ok _ => 0 | Err => 1 | Panic => 2 end.
Fixpoint oks {A} (rs : list (result A)) : list A :=
  match rs with [] => [] | Ok a :: r => a :: oks r | _ :: r => oks r end.
(* outcome class of every hash computation + equality pattern of the successful ones *)
Definition hash_obs (rs : list (result bt)) : obs :=
  OL [OLN (map res_class rs); OLN (eq_pattern (oks rs))].

(* a batch: one base certificate and a list of variants (each a list of field edits) *)
Definition run_batch (base : cert) (variants : list (list mut)) : obs :=
  hash_obs (map (fun ms => cert_hash (apply_muts base ms)) variants).
Definition run_pm (ms : list pmsg) : obs := OLN (eq_pattern (map pm_hash ms)).
Definition run_meta (ms : list metadata) : obs := hash_obs (map meta_hash ms).
Definition run_pp (ps : list pparams) : obs := hash_obs (map pp_hash ps).
Definition run_fixed (ps : list (Z * Z)) : obs :=
  OL (map (fun p => ORes (rmap ON (phi_fixed p))) ps).

(* round trip certificate -> message -> certificate: succeeded?, and the equality pattern of
   [hash field; recomputed hash; hash field after; recomputed hash after; signed; signed after] *)
(* what the round-tripped certificate holds, value by value (everything that is not an opaque atom) *)
Definition set_obs (t : setype) : obs :=
  match t with
  | MSD e => OLN [0; e] | CSD e => OLN [1; e] | CDb e i => OLN [2; e; i]
  | CTx e b => OLN [3; e; b] | CBTx e b o => OLN [4; e; b; o]
  end.
Definition value_obs (c : cert) : obs :=
  let md := meta c in
  OL [OB (match sig c with GenesisSig _ => true | MultiSig _ _ => false end);
      set_obs (signed_entity_type c); ON (epoch c);
      OLN (network md); OLN (version md);
      ON (pp_k (params md)); ON (pp_m (params md)); ORes (rmap ON (phi_fixed (pp_phi (params md))));
      OZ (ts_nanos (initiated md)); OZ (ts_nanos (sealed md));
      OL (map (fun p => OL [OLN (pid p); ON (stake p)]) (signers md))].
Definition run_roundtrip_enc (c : cert) (ea es : kenc) : obs :=
  match cert_of_msg (reencode (msg_of_cert c) ea es) with
  | None => OL [OB false]
  | Some c' => OL [OB true; hash_obs [Ok (hash c); cert_hash c; Ok (hash c'); cert_hash c'];
                   OL [OLN (eq_pattern [signed c; signed c']); OLN (eq_pattern [prev c; prev c']);
                       OLN (eq_pattern [pm_hash (pm c); pm_hash (pm c')]); OLN (eq_pattern [BHex (avk c); BHex (avk c')])];
                   value_obs c']
  end.
Definition run_roundtrip (c : cert) : obs := run_roundtrip_enc c JsonHex JsonHex.

(* ---------- compact constructors for the case terms printed by the harness ---------- *)
Definition pmsg_of (l : list (nat * bt)) : pmsg := map (fun kv => (pmk (fst kv), snd kv)) l.
Definition parties_of (l : list (list N * N)) : list party :=
  map (fun p => {| pid := fst p; stake := snd p |}) l.
Definition mk_meta (net ver : list N) (k m : N) (phi : Z * Z) (ini sea : Z) (sg : list (list N * N)) : metadata :=
  {| network := net; version := ver; params := {| pp_k := k; pp_m := m; pp_phi := phi |};
     initiated := ini; sealed := sea; signers := parties_of sg |}.
Definition mk_cert (h p : bt) (e : N) (md : metadata) (m : list (nat * bt)) (s a : bt) (sg : csig) : cert :=
  {| hash := h; prev := p; epoch := e; meta := md; pm := pmsg_of m; signed := s; avk := a; sig := sg |}.
Definition MS (id : N) : msig := {| ms_id := id; ms_by := None |}.
Definition MPmOf (l : list (nat * bt)) : mut := MPm (pmsg_of l).
Definition MSignersOf (l : list (list N * N)) : mut := MSigners (parties_of l).
