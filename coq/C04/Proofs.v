(* C04/Proofs.v — lemmas for tamper evidence: encodings are injective, the flattened pre-image
   cancels around a single changed part, hence per-field injectivity of every compute_hash. *)
From Coq Require Import Lia.
From MV Require Import Base.Prelude Base.Machine Base.SymHash Base.IdealSig Gen.Consts C04.Model.
Open Scope N_scope.

Lemma Ok_inj {A} (a b : A) : Ok a = Ok b -> a = b.
Proof. intros H. injection H as H. exact H. Qed.
Lemma Ok_eq2 {A} (a b : A) h : Ok a = Ok h -> Ok b = Ok h -> a = b.
Proof. intros H1 H2. apply Ok_inj. congruence. Qed.

(* ---------- fixed-width big-endian encodings ---------- *)
Fixpoint of_le (l : list N) : N := match l with [] => 0 | b :: r => b + 256 * of_le r end.

Lemma of_le_le_bytes k n : of_le (le_bytes k n) = n mod 256 ^ N.of_nat k.
Proof.
  revert n. induction k as [|k IH]; intros n.
  - simpl. rewrite N.mod_1_r. reflexivity.
  - cbn [le_bytes of_le]. rewrite IH. rewrite Nat2N.inj_succ, N.pow_succ_r'.
    rewrite N.mod_mul_r by (try apply N.pow_nonzero; lia). reflexivity.
Qed.

Lemma be_bytes_inj k a b : a < 256 ^ N.of_nat k -> b < 256 ^ N.of_nat k ->
  be_bytes k a = be_bytes k b -> a = b.
Proof.
  unfold be_bytes. intros Ha Hb H.
  assert (E : le_bytes k a = le_bytes k b).
  { rewrite <- (rev_involutive (le_bytes k a)), H, rev_involutive. reflexivity. }
  apply (f_equal of_le) in E. rewrite !of_le_le_bytes in E.
  rewrite !N.mod_small in E by assumption. exact E.
Qed.

Lemma le_bytes_length k n : length (le_bytes k n) = k.
Proof. revert n; induction k; intros; simpl; [reflexivity | rewrite IHk; reflexivity]. Qed.
Lemma be_bytes_length k n : length (be_bytes k n) = k.
Proof. unfold be_bytes. rewrite rev_length. apply le_bytes_length. Qed.

Lemma be8_inj a b : a < U64 -> b < U64 -> be8 a = be8 b -> a = b.
Proof. apply (be_bytes_inj 8). Qed.
Lemma be4_inj a b : a < 4294967296 -> b < 4294967296 -> be4 a = be4 b -> a = b.
Proof. apply (be_bytes_inj 4). Qed.

Lemma i64_be_inj a b : (I64_MIN <= a <= I64_MAX)%Z -> (I64_MIN <= b <= I64_MAX)%Z ->
  i64_be a = i64_be b -> a = b.
Proof.
  unfold i64_be, I64_MIN, I64_MAX. intros Ha Hb H.
  apply be8_inj in H.
  - apply Z2N.inj in H; try (apply Z.mod_pos_bound; lia).
    assert (Ea : (a mod 18446744073709551616 = if a <? 0 then a + 18446744073709551616 else a)%Z).
    { destruct (a <? 0)%Z eqn:E; [apply Z.ltb_lt in E | apply Z.ltb_ge in E].
      - symmetry. apply (Z.mod_unique_pos _ _ (-1)); lia.
      - apply Z.mod_small; lia. }
    assert (Eb : (b mod 18446744073709551616 = if b <? 0 then b + 18446744073709551616 else b)%Z).
    { destruct (b <? 0)%Z eqn:E; [apply Z.ltb_lt in E | apply Z.ltb_ge in E].
      - symmetry. apply (Z.mod_unique_pos _ _ (-1)); lia.
      - apply Z.mod_small; lia. }
    rewrite Ea, Eb in H.
    destruct (a <? 0)%Z eqn:E1; destruct (b <? 0)%Z eqn:E2;
      try apply Z.ltb_lt in E1; try apply Z.ltb_ge in E1; try apply Z.ltb_lt in E2; try apply Z.ltb_ge in E2; lia.
  - unfold U64. assert (0 <= a mod 18446744073709551616 < 18446744073709551616)%Z by (apply Z.mod_pos_bound; lia). lia.
  - unfold U64. assert (0 <= b mod 18446744073709551616 < 18446744073709551616)%Z by (apply Z.mod_pos_bound; lia). lia.
Qed.

(* ---------- flattening ---------- *)
Lemma map_lit_inj (l l' : list N) :
  map (fun b => BLit [b]) l = map (fun b => BLit [b]) l' -> l = l'.
Proof.
  revert l'; induction l as [|a l IH]; intros [|b l'] H; try discriminate; [reflexivity|].
  simpl in H. injection H as -> H. f_equal. apply IH. exact H.
Qed.

Lemma flat1_inj x y : flat1 x = flat1 y -> x = y.
Proof.
  destruct x as [l | g xs | t]; destruct y as [l' | h ys | t']; simpl; intros H.
  - f_equal. apply map_lit_inj. exact H.
  - destruct l as [|a [|b l]]; discriminate.
  - destruct l as [|a [|b l]]; discriminate.
  - destruct l' as [|a [|b l']]; discriminate.
  - injection H as -> ->. reflexivity.
  - discriminate.
  - destruct l' as [|a [|b l']]; discriminate.
  - discriminate.
  - injection H as ->. reflexivity.
Qed.

Lemma flat_app a b : flat (a ++ b) = flat a ++ flat b.
Proof. unfold flat. apply flat_map_app. Qed.

(* the cancellation lemma: one changed part between identical neighbours *)
Lemma flat_cancel A B x y : flat (A ++ x :: B) = flat (A ++ y :: B) -> x = y.
Proof.
  rewrite !flat_app. intros H. apply app_inv_head in H.
  change (flat (x :: B)) with (flat1 x ++ flat B) in H.
  change (flat (y :: B)) with (flat1 y ++ flat B) in H.
  apply app_inv_tail in H. apply flat1_inj. exact H.
Qed.

Lemma hexdg_inj a b : hexdg a = hexdg b -> flat a = flat b.
Proof. unfold hexdg, dg. intros [= H]. exact H. Qed.

(* a list of atoms (none is a literal) flattens to itself *)
Lemma flat_atoms (l : list bt) : Forall (fun t => forall b, t <> BLit b) l -> flat l = l.
Proof.
  induction 1 as [|t l Ht _ IH]; [reflexivity|].
  change (flat (t :: l)) with (flat1 t ++ flat l). rewrite IH.
  destruct t; try reflexivity. exfalso. eapply Ht. reflexivity.
Qed.

Lemma flat_cancel_tail A B B' : Forall (fun t => forall b, t <> BLit b) B ->
  Forall (fun t => forall b, t <> BLit b) B' -> flat (A ++ B) = flat (A ++ B') -> B = B'.
Proof.
  intros HB HB'. rewrite !flat_app. intros H. apply app_inv_head in H.
  rewrite !flat_atoms in H by assumption. exact H.
Qed.

(* ---------- parties and signer lists ---------- *)
Lemma app_inv_len {A} (a a' b b' : list A) : length b = length b' -> a ++ b = a' ++ b' -> a = a' /\ b = b'.
Proof.
  intros L H. assert (La : length a = length a').
  { apply (f_equal (@length A)) in H. rewrite !app_length in H. lia. }
  revert a' La H. induction a as [|x a IH]; intros [|y a'] La H; try discriminate.
  - split; [reflexivity | exact H].
  - simpl in H. injection H as -> H. simpl in La. destruct (IH a' ltac:(lia) H) as [-> ->]. split; reflexivity.
Qed.

Lemma party_hash_inj p q : stake p < U64 -> stake q < U64 -> party_hash p = party_hash q -> p = q.
Proof.
  intros Hp Hq H. unfold party_hash in H. apply hexdg_inj in H.
  cbn [flat flat_map flat1] in H. rewrite !app_nil_r in H. rewrite <- !map_app in H.
  apply map_lit_inj in H.
  apply app_inv_len in H; [| unfold be8; rewrite !be_bytes_length; reflexivity].
  destruct H as [H1 H2]. apply be8_inj in H2; try assumption.
  destruct p, q; simpl in *; subst; reflexivity.
Qed.

Lemma party_hash_atom p b : party_hash p <> BLit b.
Proof. discriminate. Qed.

Lemma signers_inj l l' : Forall (fun p => stake p < U64) l -> Forall (fun p => stake p < U64) l' ->
  map party_hash l = map party_hash l' -> l = l'.
Proof.
  intros Hl; revert l'; induction Hl as [|p l Hp _ IH]; intros l' Hl' H; destruct l' as [|q l']; try discriminate; [reflexivity|].
  inversion Hl' as [|? ? Hq Hl'']; subst. cbn [map] in H. assert (H1 : party_hash p = party_hash q) by congruence. assert (H2 : map party_hash l = map party_hash l') by congruence.
  f_equal; [apply party_hash_inj; [exact Hp | exact Hq | exact H1] | apply IH; assumption].
Qed.

Lemma parties_atoms l : Forall (fun t => forall b, t <> BLit b) (map party_hash l).
Proof. induction l; constructor; [intros b; apply party_hash_atom | assumption]. Qed.

(* ---------- protocol parameters ---------- *)
Lemma phi_fixed_bound p f : phi_fixed p = Ok f -> f < 4294967296.
Proof.
  unfold phi_fixed. destruct ((0 <=? _) && (_ <? _))%Z eqn:E; [|discriminate].
  intros [= <-]. apply andb_true_iff in E as [E1 E2]. apply Z.leb_le in E1. apply Z.ltb_lt in E2. lia.
Qed.

Lemma pp_hash_inj p q h : pp_k p < U64 -> pp_m p < U64 -> pp_k q < U64 -> pp_m q < U64 ->
  pp_hash p = Ok h -> pp_hash q = Ok h ->
  pp_k p = pp_k q /\ pp_m p = pp_m q /\ phi_fixed (pp_phi p) = phi_fixed (pp_phi q).
Proof.
  intros Hk Hm Hk' Hm'. unfold pp_hash.
  destruct (phi_fixed (pp_phi p)) as [f| |] eqn:Ef; try discriminate.
  destruct (phi_fixed (pp_phi q)) as [f'| |] eqn:Ef'; try discriminate.
  cbn [rbind]. intros E1 E2. assert (H := Ok_eq2 _ _ _ E1 E2). apply hexdg_inj in H.
  cbn [flat flat_map flat1] in H. rewrite !app_nil_r in H. rewrite <- !map_app in H. apply map_lit_inj in H.
  apply app_inv_len in H; [| unfold be8, be4; rewrite !app_length, !be_bytes_length; reflexivity].
  destruct H as [H1 H23]. apply app_inv_len in H23; [| unfold be4; rewrite !be_bytes_length; reflexivity].
  destruct H23 as [H2 H3].
  apply be8_inj in H1; try assumption. apply be8_inj in H2; try assumption.
  apply be4_inj in H3; try (eapply phi_fixed_bound; eassumption).
  repeat split; congruence.
Qed.

(* ================= strong injectivity of the certificate hash ================= *)
Notation L := (fun b : N => BLit [b]).
Definition sym_nonlit (t : bt) : Prop := forall b, t <> BLit b.
Definition head_nonlit (B : list bt) : Prop := match B with [] => True | t :: _ => sym_nonlit t end.

Lemma lits_split a a' B B' : head_nonlit B -> head_nonlit B' ->
  map L a ++ B = map L a' ++ B' -> a = a' /\ B = B'.
Proof.
  revert a'; induction a as [|x a IH]; intros [|y a'] HB HB' H; cbn [map app] in H.
  - split; [reflexivity | exact H].
  - subst B. exfalso. eapply HB. reflexivity.
  - subst B'. exfalso. eapply HB'. reflexivity.
  - injection H as -> H. destruct (IH a' HB HB' H) as [-> ->]. split; reflexivity.
Qed.

Lemma hexdg_nonlit X : sym_nonlit (hexdg X).
Proof. intros b; discriminate. Qed.
Lemma BHex_nonlit t : sym_nonlit (BHex t).
Proof. intros b; discriminate. Qed.

Lemma pp_hash_nonlit p h : pp_hash p = Ok h -> sym_nonlit h.
Proof. unfold pp_hash. destruct (phi_fixed (pp_phi p)); try discriminate. cbn [rbind]. intros E. apply Ok_inj in E. subst. apply hexdg_nonlit. Qed.
Lemma meta_hash_nonlit m h : meta_hash m = Ok h -> sym_nonlit h.
Proof. unfold meta_hash. destruct (pp_hash (params m)); try discriminate. cbn [rbind]. intros E. apply Ok_inj in E. subst. apply hexdg_nonlit. Qed.

Lemma flat1_nonlit t : sym_nonlit t -> flat1 t = [t].
Proof. intros H. destruct t; try reflexivity. exfalso. eapply H. reflexivity. Qed.

Lemma ts_nanos_range t : (I64_MIN <= ts_nanos t <= I64_MAX)%Z.
Proof.
  unfold ts_nanos. destruct ((I64_MIN <=? t) && (t <=? I64_MAX))%Z eqn:E.
  - apply andb_true_iff in E as [E1 E2]. apply Z.leb_le in E1, E2. lia.
  - unfold I64_MIN, I64_MAX. lia.
Qed.

(* ----- equivalences: "equal as the hash sees them" ----- *)
Definition pp_equiv (p q : pparams) : Prop :=
  pp_k p = pp_k q /\ pp_m p = pp_m q /\ phi_fixed (pp_phi p) = phi_fixed (pp_phi q).
Definition meta_equiv (m m' : metadata) : Prop :=
  network m ++ version m = network m' ++ version m' /\ pp_equiv (params m) (params m') /\
  ts_nanos (initiated m) = ts_nanos (initiated m') /\ ts_nanos (sealed m) = ts_nanos (sealed m') /\
  signers m = signers m'.
Definition sig_equiv (s s' : csig) : Prop :=
  match s, s' with
  | GenesisSig a, GenesisSig b => a = b
  | MultiSig t a, MultiSig t' b => feed_hash t = feed_hash t' /\ a = b
  | _, _ => False
  end.
Definition cert_equiv (c c' : cert) : Prop :=
  prev c = prev c' /\ epoch c = epoch c' /\ meta_equiv (meta c) (meta c') /\
  pm_hash (pm c) = pm_hash (pm c') /\ signed c = signed c' /\ avk c = avk c' /\ sig_equiv (sig c) (sig c').

Definition wf_meta (m : metadata) : Prop :=
  pp_k (params m) < U64 /\ pp_m (params m) < U64 /\ Forall (fun p => stake p < U64) (signers m).
Definition wf_cert (c : cert) : Prop := epoch c < U64 /\ wf_meta (meta c).

Lemma flat_meta_parts m ph : sym_nonlit ph ->
  flat (meta_parts m ph) =
  map L (network m ++ version m) ++ ph :: map L (i64_be (ts_nanos (initiated m)) ++ i64_be (ts_nanos (sealed m)))
    ++ map party_hash (signers m).
Proof.
  intros Hp. unfold meta_parts. rewrite flat_app. rewrite (flat_atoms (map party_hash _)) by apply parties_atoms.
  unfold flat. cbn [flat_map]. rewrite (flat1_nonlit ph Hp). cbn [flat1]. rewrite !map_app, app_nil_r, <- !app_assoc. reflexivity.
Qed.

Lemma head_nonlit_parties l : head_nonlit (map party_hash l).
Proof. destruct l; [exact I | intros b; discriminate]. Qed.

Lemma meta_hash_inj m m' h : wf_meta m -> wf_meta m' ->
  meta_hash m = Ok h -> meta_hash m' = Ok h -> meta_equiv m m'.
Proof.
  intros (Wk & Wm & Ws) (Wk' & Wm' & Ws'). unfold meta_hash.
  destruct (pp_hash (params m)) as [ph| |] eqn:Ep; try discriminate.
  destruct (pp_hash (params m')) as [ph'| |] eqn:Ep'; try discriminate.
  cbn [rbind]. intros E1 E2. assert (H := Ok_eq2 _ _ _ E1 E2). apply hexdg_inj in H.
  rewrite !flat_meta_parts in H by (eapply pp_hash_nonlit; eassumption).
  apply lits_split in H; try (eapply pp_hash_nonlit; eassumption).
  destruct H as [Hnv H].
  assert (Hph : ph = ph') by congruence.
  assert (Hr : map L (i64_be (ts_nanos (initiated m)) ++ i64_be (ts_nanos (sealed m))) ++ map party_hash (signers m) =
               map L (i64_be (ts_nanos (initiated m')) ++ i64_be (ts_nanos (sealed m'))) ++ map party_hash (signers m')) by congruence.
  clear H. apply lits_split in Hr; try apply head_nonlit_parties. destruct Hr as [Hts Hsg].
  apply app_inv_len in Hts; [| unfold i64_be, be8; rewrite !be_bytes_length; reflexivity].
  destruct Hts as [Ht1 Ht2].
  apply i64_be_inj in Ht1; try apply ts_nanos_range. apply i64_be_inj in Ht2; try apply ts_nanos_range.
  apply signers_inj in Hsg; try assumption.
  subst ph'. repeat split; try assumption; eapply pp_hash_inj; eassumption.
Qed.

(* ----- signatures ----- *)
Lemma ms_bt_inj a b : ms_bt a = ms_bt b -> a = b.
Proof.
  destruct a as [i [[[x [[k m] f]] y]|]], b as [j [[[x' [[k' m'] f']] y']|]]; unfold ms_bt; cbn [ms_id ms_by]; intros H;
    injection H; intros; subst; try reflexivity; discriminate.
Qed.
Lemma sg_bt_inj a b : sg_bt a = sg_bt b -> a = b.
Proof. destruct a, b; cbn [sg_bt]; intros H; injection H; intros; subst; try reflexivity; discriminate. Qed.

Lemma feed_hash_length t : (8 <= length (feed_hash t))%nat.
Proof. destruct t; cbn [feed_hash]; unfold be8, be2; rewrite ?app_length, !be_bytes_length; lia. Qed.
Lemma feed_hash_cons t : exists x r, feed_hash t = x :: r.
Proof. assert (H := feed_hash_length t). destruct (feed_hash t) as [|x r]; [simpl in H; lia | eauto]. Qed.

Lemma flat_sig_parts s :
  flat (sig_parts s) = match s with
                       | GenesisSig g => [sg_bt g]
                       | MultiSig t a => map L (feed_hash t) ++ [ms_bt a]
                       end.
Proof.
  destruct s as [g | t a]; cbn [sig_parts]; unfold flat; cbn [flat_map flat1].
  - destruct g; reflexivity.
  - unfold ms_bt. cbn [flat1]. rewrite app_nil_r. reflexivity.
Qed.

Lemma sg_bt_nonlit g : sym_nonlit (sg_bt g).
Proof. destruct g; intros b; discriminate. Qed.
Lemma ms_bt_nonlit a : sym_nonlit (ms_bt a).
Proof. intros b; discriminate. Qed.

Lemma sig_flat_inj s s' : flat (sig_parts s) = flat (sig_parts s') -> sig_equiv s s'.
Proof.
  rewrite !flat_sig_parts. destruct s as [g | t a], s' as [g' | t' a']; cbn [sig_equiv]; intros H.
  - apply sg_bt_inj. congruence.
  - destruct (feed_hash_cons t') as (x & r & E). rewrite E in H. cbn [map app] in H.
    assert (Hh : sg_bt g = BLit [x]) by congruence. exfalso. eapply sg_bt_nonlit. exact Hh.
  - destruct (feed_hash_cons t) as (x & r & E). rewrite E in H. cbn [map app] in H.
    assert (Hh : BLit [x] = sg_bt g') by congruence. exfalso. eapply sg_bt_nonlit. symmetry. exact Hh.
  - apply lits_split in H; try (cbn [head_nonlit]; apply ms_bt_nonlit). destruct H as [H1 H2].
    split; [exact H1 | apply ms_bt_inj; congruence].
Qed.

Lemma sig_flat_not_cons s s' a : flat (sig_parts s) = BHex a :: flat (sig_parts s') -> False.
Proof.
  rewrite !flat_sig_parts. destruct s as [g | t x]; intros H.
  - destruct s' as [g' | t' x']; [discriminate H|].
    destruct (feed_hash_cons t') as (y & r & E). rewrite E in H. discriminate H.
  - destruct (feed_hash_cons t) as (y & r & E). rewrite E in H. discriminate H.
Qed.

(* ----- the two variable-width string fields ----- *)
Lemma split_prev (x y : bt) (a a' : list N) B B' :
  head_nonlit B -> head_nonlit B' -> length a = length a' -> a <> [] ->
  flat1 x ++ map L a ++ B = flat1 y ++ map L a' ++ B' -> x = y /\ a = a' /\ B = B'.
Proof.
  intros HB HB' Hl Hne H.
  assert (Hne' : a' <> []) by (destruct a, a'; try discriminate; congruence).
  destruct x as [l | g xs | t]; destruct y as [l' | g' xs' | t']; cbn [flat1] in H;
    try (rewrite app_assoc, <- map_app in H);
    try (rewrite (app_assoc (map L l')), <- (map_app L l') in H).
  - apply lits_split in H; try assumption. destruct H as [H1 ->].
    apply app_inv_len in H1; [|exact Hl]. destruct H1 as [-> ->]. repeat split.
  - exfalso. destruct (l ++ a) as [|z r] eqn:E; [destruct l; [subst; simpl in E; contradiction | discriminate]|]. discriminate H.
  - exfalso. destruct (l ++ a) as [|z r] eqn:E; [destruct l; [subst; simpl in E; contradiction | discriminate]|]. discriminate H.
  - exfalso. destruct (l' ++ a') as [|z r] eqn:E; [destruct l'; [subst; simpl in E; contradiction | discriminate]|]. discriminate H.
  - cbn [app] in H. assert (H0 : BHash g xs = BHash g' xs') by congruence.
    assert (H1 : map L a ++ B = map L a' ++ B') by congruence.
    apply lits_split in H1; try assumption. destruct H1 as [-> ->]. repeat split. exact H0.
  - discriminate H.
  - exfalso. destruct (l' ++ a') as [|z r] eqn:E; [destruct l'; [subst; simpl in E; contradiction | discriminate]|]. discriminate H.
  - discriminate H.
  - cbn [app] in H. assert (H0 : BHex t = BHex t') by congruence.
    assert (H1 : map L a ++ B = map L a' ++ B') by congruence.
    apply lits_split in H1; try assumption. destruct H1 as [-> ->]. repeat split. exact H0.
Qed.

Lemma split_signed (x y a a' : bt) s s' :
  flat1 x ++ BHex a :: flat (sig_parts s) = flat1 y ++ BHex a' :: flat (sig_parts s') ->
  x = y /\ a = a' /\ flat (sig_parts s) = flat (sig_parts s').
Proof.
  intros H.
  destruct x as [l | g xs | t]; destruct y as [l' | g' xs' | t']; cbn [flat1 app] in H.
  - apply lits_split in H; try (cbn [head_nonlit]; apply BHex_nonlit). destruct H as [-> H].
    repeat split; congruence.
  - exfalso. destruct l as [|z r]; cbn [map app] in H; [|discriminate H]. discriminate H.
  - exfalso. destruct l as [|z r]; cbn [map app] in H; [|discriminate H].
    assert (H1 : flat (sig_parts s) = BHex a' :: flat (sig_parts s')) by congruence.
    eapply sig_flat_not_cons; exact H1.
  - exfalso. destruct l' as [|z r]; cbn [map app] in H; [|discriminate H]. discriminate H.
  - repeat split; congruence.
  - discriminate H.
  - exfalso. destruct l' as [|z r]; cbn [map app] in H; [|discriminate H].
    assert (H1 : flat (sig_parts s') = BHex a :: flat (sig_parts s)) by congruence.
    eapply sig_flat_not_cons; exact H1.
  - discriminate H.
  - repeat split; congruence.
Qed.

Lemma flat_cert_parts c mh : sym_nonlit mh ->
  flat (cert_parts c mh) =
  flat1 (prev c) ++ map L (be8 (epoch c)) ++
    (mh :: pm_hash (pm c) :: flat1 (signed c) ++ BHex (avk c) :: flat (sig_parts (sig c))).
Proof.
  intros Hm. unfold cert_parts. rewrite flat_app. unfold flat at 1. cbn [flat_map].
  rewrite (flat1_nonlit mh Hm). cbn [flat1 pm_hash hexdg]. rewrite app_nil_r, <- !app_assoc. reflexivity.
Qed.

Theorem cert_hash_inj c c' h : wf_cert c -> wf_cert c' ->
  cert_hash c = Ok h -> cert_hash c' = Ok h -> cert_equiv c c'.
Proof.
  intros (We & Wm) (We' & Wm'). unfold cert_hash.
  destruct (meta_hash (meta c)) as [mh| |] eqn:Em; try discriminate.
  destruct (meta_hash (meta c')) as [mh'| |] eqn:Em'; try discriminate.
  cbn [rbind]. intros E1 E2. assert (H := Ok_eq2 _ _ _ E1 E2). apply hexdg_inj in H.
  rewrite !flat_cert_parts in H by (eapply meta_hash_nonlit; eassumption).
  apply split_prev in H; try (cbn [head_nonlit]; eapply meta_hash_nonlit; eassumption);
    [| unfold be8; rewrite !be_bytes_length; reflexivity
     | intros E; apply (f_equal (@length N)) in E; unfold be8 in E; rewrite be_bytes_length in E; discriminate E].
  destruct H as (Hprev & Hep & H).
  apply be8_inj in Hep; try assumption.
  assert (Hmh : mh = mh') by congruence.
  assert (Hpm : pm_hash (pm c) = pm_hash (pm c')) by congruence.
  assert (Hr : flat1 (signed c) ++ BHex (avk c) :: flat (sig_parts (sig c)) =
               flat1 (signed c') ++ BHex (avk c') :: flat (sig_parts (sig c'))) by congruence.
  clear H. apply split_signed in Hr. destruct Hr as (Hsg & Hav & Hs).
  apply sig_flat_inj in Hs. subst mh'.
  repeat split; try assumption; eapply meta_hash_inj; eassumption.
Qed.
