(* C04/Properties.v — certificates are tamper-evident and survive the wire unchanged.
   Hash model: C04/Model.v (H-inj / H-sep idealisation of SHA-256; key and signature codecs as
   injective atoms).  [apply_mut c (M… v)] is certificate [c] with exactly one field replaced. *)
From MV Require Import Base.Prelude Base.Machine Base.SymHash Base.IdealSig Gen.Consts
  C04.Model C04.Proofs C04.PMInj C04.Fields C04.Refuted.
Open Scope N_scope.

(* strongest form: equal hashes force equality of everything the hash covers, "as the hash sees it":
   previous hash, epoch, signed message, AVK, signature value and kind, protocol-message digest,
   metadata up to (network ++ version) concatenation, parameters at fixed point, timestamps as
   clamped i64 nanoseconds, and the signed entity type up to its fed bytes *)
Theorem C04_injective : forall c c' h, wf_cert c -> wf_cert c' ->
  cert_hash c = Ok h -> cert_hash c' = Ok h -> cert_equiv c c'.
Proof. exact cert_hash_inj. Qed.

Theorem C04_metadata_injective : forall m m' h, wf_meta m -> wf_meta m' ->
  meta_hash m = Ok h -> meta_hash m' = Ok h -> meta_equiv m m'.
Proof. exact meta_hash_inj. Qed.

(* ---- per field: a single-field change that keeps the hash is no change ---- *)
Theorem C04_field_previous_hash : forall c t h, wf_cert c -> wf_cert (apply_mut c (MPrev t)) ->
  cert_hash c = Ok h -> cert_hash (apply_mut c (MPrev t)) = Ok h -> t = prev c.
Proof. exact field_prev. Qed.
Theorem C04_field_epoch : forall c e h, wf_cert c -> wf_cert (apply_mut c (MEpoch e)) ->
  cert_hash c = Ok h -> cert_hash (apply_mut c (MEpoch e)) = Ok h -> e = epoch c.
Proof. exact field_epoch. Qed.
Theorem C04_field_network : forall c l h, wf_cert c -> wf_cert (apply_mut c (MNetwork l)) ->
  cert_hash c = Ok h -> cert_hash (apply_mut c (MNetwork l)) = Ok h -> l = network (meta c).
Proof. exact field_network. Qed.
Theorem C04_field_protocol_version : forall c l h, wf_cert c -> wf_cert (apply_mut c (MVersion l)) ->
  cert_hash c = Ok h -> cert_hash (apply_mut c (MVersion l)) = Ok h -> l = version (meta c).
Proof. exact field_version. Qed.
Theorem C04_field_k : forall c n h, wf_cert c -> wf_cert (apply_mut c (MK n)) ->
  cert_hash c = Ok h -> cert_hash (apply_mut c (MK n)) = Ok h -> n = pp_k (params (meta c)).
Proof. exact field_k. Qed.
Theorem C04_field_m : forall c n h, wf_cert c -> wf_cert (apply_mut c (MM n)) ->
  cert_hash c = Ok h -> cert_hash (apply_mut c (MM n)) = Ok h -> n = pp_m (params (meta c)).
Proof. exact field_m. Qed.
(* protocol parameters are compared at the protocol's fixed-point precision *)
Theorem C04_field_phi_f : forall c p h, wf_cert c -> wf_cert (apply_mut c (MPhi p)) ->
  cert_hash c = Ok h -> cert_hash (apply_mut c (MPhi p)) = Ok h ->
  phi_fixed p = phi_fixed (pp_phi (params (meta c))).
Proof. exact field_phi. Qed.
(* timestamps representable as i64 nanoseconds *)
Theorem C04_field_initiated_at : forall c z h, wf_cert c -> wf_cert (apply_mut c (MInit z)) ->
  (I64_MIN <= z <= I64_MAX)%Z -> (I64_MIN <= initiated (meta c) <= I64_MAX)%Z ->
  cert_hash c = Ok h -> cert_hash (apply_mut c (MInit z)) = Ok h -> z = initiated (meta c).
Proof. exact field_initiated. Qed.
Theorem C04_field_sealed_at : forall c z h, wf_cert c -> wf_cert (apply_mut c (MSealed z)) ->
  (I64_MIN <= z <= I64_MAX)%Z -> (I64_MIN <= sealed (meta c) <= I64_MAX)%Z ->
  cert_hash c = Ok h -> cert_hash (apply_mut c (MSealed z)) = Ok h -> z = sealed (meta c).
Proof. exact field_sealed. Qed.
(* signer list: order, party ids and stakes *)
Theorem C04_field_signers : forall c l h, wf_cert c -> wf_cert (apply_mut c (MSigners l)) ->
  cert_hash c = Ok h -> cert_hash (apply_mut c (MSigners l)) = Ok h -> l = signers (meta c).
Proof. exact field_signers. Qed.
Theorem C04_field_protocol_message : forall c p h, wf_cert c -> wf_cert (apply_mut c (MPm p)) ->
  pm_wf (pm c) -> pm_wf p ->
  cert_hash c = Ok h -> cert_hash (apply_mut c (MPm p)) = Ok h -> p = pm c.
Proof. exact field_pm. Qed.
Theorem C04_field_signed_message : forall c t h, wf_cert c -> wf_cert (apply_mut c (MSigned t)) ->
  cert_hash c = Ok h -> cert_hash (apply_mut c (MSigned t)) = Ok h -> t = signed c.
Proof. exact field_signed. Qed.
Theorem C04_field_avk : forall c t h, wf_cert c -> wf_cert (apply_mut c (MAvk t)) ->
  cert_hash c = Ok h -> cert_hash (apply_mut c (MAvk t)) = Ok h -> t = avk c.
Proof. exact field_avk. Qed.
(* signature kind (genesis / multi) and value; entity type up to the known collision class *)
Theorem C04_field_signature : forall c s h, wf_cert c -> wf_cert (apply_mut c (MSig s)) ->
  wf_sig (sig c) -> wf_sig s ->
  cert_hash c = Ok h -> cert_hash (apply_mut c (MSig s)) = Ok h -> sig_same_or_known (sig c) s.
Proof. exact field_signature. Qed.
(* restricted theorem for the signed entity type: covered outside the known class *)
Theorem C04_field_signed_entity_type_outside_known : forall c t t' a h,
  sig c = MultiSig t a -> wf_cert c -> wf_set t -> wf_set t' -> ~ set_collide t t' ->
  cert_hash c = Ok h -> cert_hash (apply_mut c (MSig (MultiSig t' a))) = Ok h -> t' = t.
Proof. exact field_set_outside. Qed.
Theorem C04_signed_entity_type_bytes : forall t t', wf_set t -> wf_set t' ->
  feed_hash t = feed_hash t' -> t = t' \/ set_collide t t'.
Proof. exact feed_hash_char. Qed.

(* ---- protocol message: byte-level injectivity over the key list read from the source ---- *)
Theorem C04_pm_injective : forall m m', pm_wf m -> pm_wf m' -> pm_hash m = pm_hash m' -> m = m'.
Proof. exact pm_hash_injective. Qed.
Theorem C04_pm_keys_unambiguous : unambiguous (map (map lit) pm_keys) = true.
Proof. exact keys_unambiguous. Qed.

(* ---- wire: certificate -> message -> certificate is the identity ---- *)
Theorem C04_roundtrip : forall c, cert_of_msg (msg_of_cert c) = Some c.
Proof. exact roundtrip. Qed.
Theorem C04_roundtrip_hash : forall c c', cert_of_msg (msg_of_cert c) = Some c' ->
  hash c' = hash c /\ signed c' = signed c /\ cert_hash c' = cert_hash c.
Proof. exact roundtrip_hash. Qed.

(* the key / signature strings of the message may come in either accepted text form *)
Theorem C04_roundtrip_any_encoding : forall c ea es, cert_of_msg (reencode (msg_of_cert c) ea es) = Some c.
Proof. exact roundtrip_enc. Qed.

(* ---- composite values and collections ---- *)
(* every component of the aggregate verification key (Merkle root, number of leaves, total stake) *)
Theorem C04_field_avk_components : forall c r n t r' n' t' h, avk c = avk_of r n t -> wf_cert c ->
  cert_hash c = Ok h -> cert_hash (apply_mut c (MAvk (avk_of r' n' t'))) = Ok h ->
  r' = r /\ n' = n /\ t' = t.
Proof. exact field_avk_components. Qed.
(* the signer list is hashed as carried: an extra entry (also one repeating an earlier entry) shows *)
Theorem C04_field_signers_append : forall c p h, wf_cert c ->
  wf_cert (apply_mut c (MSigners (signers (meta c) ++ [p]))) ->
  cert_hash c = Ok h -> cert_hash (apply_mut c (MSigners (signers (meta c) ++ [p]))) = Ok h -> False.
Proof. exact field_signers_append. Qed.

(* ---- non-vacuity ---- *)
Example C04_ex_wf : wf_cert (wit_cert (CBTx 7 9 3)) /\
  exists h, cert_hash (wit_cert (CBTx 7 9 3)) = Ok h.
Proof.
  split.
  - split; [reflexivity|]. split; [reflexivity|]. split; [reflexivity|].
    constructor; [reflexivity | constructor].
  - eexists. vm_compute. reflexivity.
Qed.
Example C04_ex_pm_wf : pm_wf [(pmk 0, BLit [97; 98; 48]); (pmk 3, BHex (BLit [1])); (pmk 5, BLit [49; 50])].
Proof.
  constructor; [split; [vm_compute; tauto | reflexivity]|].
  constructor; [split; [vm_compute; tauto | reflexivity]|].
  constructor; [split; [vm_compute; tauto | reflexivity]|]. constructor.
Qed.
Example C04_ex_phi : phi_fixed (5854679515581645, -53)%Z = Ok 10905190 /\ phi_fixed (1, 8)%Z = Panic.
Proof. split; vm_compute; reflexivity. Qed.

(* ---- tie to the source's feed_hash (translator): the model's [feed_hash] was written against exactly
   this shape: only CardanoBlocksTransactions feeds its index, and the variants feed 1,1,2,2,3 big-endian
   u64 operands in this order.  If the source's feed_hash changes (e.g. its TODO is implemented) this
   stops checking and the property is re-examined, instead of relying on the correspondence run alone. ---- *)
Require Import Coq.Strings.String.
Local Open Scope string_scope.
Example C04_feed_hash_tie :
  FEED_HASH_INDEXED = ["CardanoBlocksTransactions"] /\
  FEED_HASH_FIELDS =
    [ ("MithrilStakeDistribution", ["epoch"]); ("CardanoStakeDistribution", ["epoch"]);
      ("CardanoDatabase", ["db_beacon.epoch"; "db_beacon.immutable_file_number"]);
      ("CardanoTransactions", ["epoch"; "block_number"]);
      ("CardanoBlocksTransactions", ["epoch"; "block_number"; "block_number_offset"]) ].
Proof. split; reflexivity. Qed.
