(* C10/RoundTrip.v — the zero-padded file names the client looks for are immutable file names of
   their own number: has_immutable_ext (trio_name n ext) and num_of (trio_name n ext) = Some n *)
From Coq Require Import Lia.
From MV Require Import Base.Prelude Base.SymHash Gen.Consts C12.Model C12.Proofs C10.Model C10.Proofs.
Open Scope list_scope.
Open Scope N_scope.


Definition is_digit (c : N) : Prop := 48 <= c /\ c <= 57.

Lemma digit_mod n : is_digit (48 + n mod 10).
Proof.
  assert (Hm : n mod 10 < 10) by (apply N.mod_upper_bound; discriminate).
  unfold is_digit. generalize dependent (n mod 10). intros. lia.
Qed.

Lemma dec_go_digits f n acc : Forall is_digit acc -> Forall is_digit (dec_go f n acc).
Proof.
  revert n acc; induction f as [|f IH]; intros n acc H; cbn [dec_go]; [exact H|].
  assert (Hd := digit_mod n).
  destruct (n <? 10); [constructor; assumption | apply IH; constructor; assumption].
Qed.

Lemma dec_go_nonempty f n acc : (0 < f)%nat -> dec_go f n acc <> [].
Proof.
  revert n acc; induction f as [|f IH]; intros n acc Hf; [lia|]. cbn [dec_go].
  destruct (n <? 10); [discriminate|]. destruct f as [|f']; [cbn [dec_go]; discriminate|]. apply IH. lia.
Qed.

Lemma parse_step acc n : n < U64 ->
  parse_digits ((48 + n mod 10) :: acc) (n / 10) = parse_digits acc n.
Proof.
  intros Hu. cbn [parse_digits]. destruct (digit_mod n) as [H1 H2].
  replace (48 <=? 48 + n mod 10) with true by (symmetry; apply N.leb_le; exact H1).
  replace (48 + n mod 10 <=? 57) with true by (symmetry; apply N.leb_le; exact H2). cbn [andb].
  assert (Hdm : n = 10 * (n / 10) + n mod 10) by (apply N.div_mod; discriminate).
  replace (n / 10 * 10 + (48 + n mod 10 - 48)) with n.
  - replace (n <? U64) with true by (symmetry; apply N.ltb_lt; exact Hu). reflexivity.
  - generalize dependent (n mod 10). generalize dependent (n / 10). intros. lia.
Qed.

Lemma parse_dec_go f n acc : n < 10 ^ N.of_nat f -> n < U64 ->
  parse_digits (dec_go f n acc) 0 = parse_digits acc n.
Proof.
  revert n acc; induction f as [|f IH]; intros n acc Hf Hu.
  - change (10 ^ N.of_nat 0) with 1 in Hf. assert (n = 0) by lia. subst. reflexivity.
  - cbn [dec_go].
    assert (Hdm : n = 10 * (n / 10) + n mod 10) by (apply N.div_mod; discriminate).
    assert (Hm : n mod 10 < 10) by (apply N.mod_upper_bound; discriminate).
    destruct (n <? 10) eqn:E.
    + apply N.ltb_lt in E. rewrite <- (parse_step acc n Hu). rewrite (N.div_small n 10 E). reflexivity.
    + apply N.ltb_ge in E. rewrite IH.
      * apply parse_step. exact Hu.
      * rewrite Nat2N.inj_succ, N.pow_succ_r' in Hf. generalize dependent (n mod 10). generalize dependent (n / 10). intros. lia.
      * generalize dependent (n mod 10). generalize dependent (n / 10). intros. lia.
Qed.

Lemma parse_zeros k s : parse_digits (repeat 48 k ++ s) 0 = parse_digits s 0.
Proof. induction k as [|k IH]; [reflexivity|]. cbn [repeat app parse_digits]. exact IH. Qed.

Lemma last_dot_nodot l i acc : Forall (fun c => c <> DOT) l -> last_dot l i acc = acc.
Proof.
  revert i acc; induction l as [|c l IH]; intros i acc H; [reflexivity|]. inversion H; subst. cbn [last_dot].
  replace (c =? DOT) with false by (symmetry; apply N.eqb_neq; assumption). apply IH. assumption.
Qed.
Lemma last_dot_app ds ext i acc : Forall (fun c => c <> DOT) ds -> Forall (fun c => c <> DOT) ext ->
  last_dot (ds ++ DOT :: ext) i acc = Some (i + length ds)%nat.
Proof.
  revert i acc; induction ds as [|c ds IH]; intros i acc Hd He.
  - cbn [app last_dot]. rewrite N.eqb_refl. rewrite last_dot_nodot by assumption. f_equal. simpl. lia.
  - inversion Hd; subst. cbn [app last_dot].
    replace (c =? DOT) with false by (symmetry; apply N.eqb_neq; assumption).
    rewrite IH by assumption. f_equal. simpl. lia.
Qed.

Lemma digit_not_dot c : is_digit c -> c <> DOT.
Proof. unfold is_digit, DOT. lia. Qed.

Lemma exts_nodot ext : In ext EXTS -> Forall (fun c => c <> DOT) ext.
Proof.
  intros H. assert (Hall : forallb (fun e => forallb (fun c => negb (c =? DOT)) e) EXTS = true) by (vm_compute; reflexivity).
  rewrite forallb_forall in Hall. specialize (Hall _ H). rewrite forallb_forall in Hall.
  apply Forall_forall. intros c Hc. specialize (Hall _ Hc). apply negb_true_iff, N.eqb_neq in Hall. exact Hall.
Qed.

Lemma pad5_digits s : Forall is_digit s -> Forall is_digit (pad5 s).
Proof.
  intros H. unfold pad5. apply Forall_app. split; [|exact H].
  apply Forall_forall. intros c Hc. apply repeat_spec in Hc. subst. unfold is_digit. lia.
Qed.

Lemma skipn_S_app {A} (ds : list A) c ext : skipn (S (length ds)) (ds ++ c :: ext) = ext.
Proof. induction ds as [|a ds IH]; [reflexivity | exact IH]. Qed.
Lemma firstn_len_app {A} (ds x : list A) : firstn (length ds) (ds ++ x) = ds.
Proof. induction ds as [|a ds IH]; [reflexivity | simpl; f_equal; exact IH]. Qed.

Theorem trio_name_roundtrip n ext : n < U64 -> In ext EXTS ->
  has_immutable_ext (trio_name n ext) = true /\ num_of (trio_name n ext) = Some n.
Proof.
  intros Hn Hext.
  set (ds := pad5 (dec n)).
  assert (Hdig : Forall is_digit ds) by (apply pad5_digits, dec_go_digits; constructor).
  assert (Hnd : Forall (fun c => c <> DOT) ds) by (eapply Forall_impl; [|exact Hdig]; intros; apply digit_not_dot; assumption).
  assert (Hne : ds <> []).
  { unfold ds, pad5. intros H. apply app_eq_nil in H as [_ H]. revert H. apply dec_go_nonempty. lia. }
  assert (Hsplit : split_ext (trio_name n ext) = (ds, Some ext)).
  { unfold split_ext, trio_name. fold ds. rewrite (last_dot_app ds ext 0 None Hnd (exts_nodot _ Hext)).
    cbn [Nat.add]. destruct (length ds) as [|k] eqn:El; [destruct ds; [congruence | discriminate]|].
    rewrite <- El. rewrite firstn_len_app, skipn_S_app. reflexivity. }
  split.
  - unfold has_immutable_ext. rewrite Hsplit. cbn [snd]. apply existsb_exists. exists ext. split; [exact Hext | apply name_eqb_refl].
  - unfold num_of. rewrite Hsplit. cbn [fst]. unfold parse_u64.
    destruct ds as [|c r] eqn:Ed; [congruence|].
    inversion Hdig; subst. replace (c =? PLUS) with false by (symmetry; apply N.eqb_neq; unfold is_digit, PLUS in *; lia).
    rewrite <- Ed. unfold ds, pad5. rewrite parse_zeros. unfold dec. rewrite parse_dec_go; [reflexivity | | exact Hn].
    unfold U64 in Hn. change (10 ^ N.of_nat 25) with 10000000000000000000000000. lia.
Qed.
