(* C10/Proofs.v — lemmas behind C10/Properties.v *)
From Coq Require Import Permutation Lia.
From MV Require Import Base.Prelude Base.SymHash Base.SortUnique Gen.Consts C12.Model C12.Proofs C10.Model.
Open Scope N_scope.

(* ---------- digest list ---------- *)
Lemma msg_hash_inj o1 r1 o2 r2 : msg_hash o1 r1 = msg_hash o2 r2 -> o1 = o2 /\ r1 = r2.
Proof. unfold msg_hash. intros H. injection H as -> ->. split; reflexivity. Qed.

Lemma match_root_spec c root : match_root c root = true <-> c_signed c = msg_hash (c_other c) root.
Proof. unfold match_root. rewrite bt_eqb_eq. split; intros H; symmetry; exact H. Qed.

Lemma download_ok c beacon served v :
  download_and_verify c beacon served = Ok v ->
  exists d, served = Some d /\
    vd_digests v = filter (keep_upto beacon) (to_map d) /\
    vd_leaves v = map snd (vd_digests v) /\
    vd_leaves v <> [] /\
    c_signed c = msg_hash (c_other c) (root_of (vd_leaves v)).
Proof.
  unfold download_and_verify. destruct served as [d|]; [|discriminate].
  set (fl := filter _ _). destruct (map snd fl) as [|x xs] eqn:El; [discriminate|].
  destruct (match_root c _) eqn:Em; [|discriminate]. intros [= <-]. cbn [vd_digests vd_leaves].
  exists d. repeat split; try assumption; try reflexivity.
  - symmetry. exact El.
  - discriminate.
  - apply match_root_spec. exact Em.
Qed.

(* acceptance of a served list: its value sequence (after filtering, in name order) is the signed one *)
Lemma digests_certified c beacon served v other S :
  download_and_verify c beacon served = Ok v ->
  c_signed c = msg_hash other (root_of S) ->
  map snd (vd_digests v) = S /\ vd_leaves v = S /\ c_other c = other.
Proof.
  intros H Hs. destruct (download_ok _ _ _ _ H) as (d & -> & Hd & Hl & _ & Hsig).
  rewrite Hs in Hsig. apply msg_hash_inj in Hsig as [Ho Hr]. apply root_of_inj in Hr.
  repeat split; [rewrite <- Hl|..]; auto.
Qed.

(* ---------- database ---------- *)
Lemma filter_nil_all {A} (p : A -> bool) l : filter p l = [] -> forall x, In x l -> p x = false.
Proof.
  induction l as [|a l IH]; intros H x []; simpl in H; destruct (p a) eqn:E; try discriminate; subst; auto.
Qed.

Lemma flat_map_nil {A B} (f : A -> list B) l : flat_map f l = [] -> forall x, In x l -> f x = [].
Proof.
  induction l as [|a l IH]; intros H x []; simpl in H; apply app_eq_nil in H as [H1 H2]; subst; auto.
Qed.

Lemma not_verified_nil D fs :
  tampered_files D fs = [] -> non_verifiable_files D fs = [] ->
  forall f, In f fs -> dget D (fname f) = Some (file_digest (fcontent f)).
Proof.
  intros Ht Hn f Hf.
  assert (H1 := flat_map_nil _ _ Ht f Hf). assert (H2 := flat_map_nil _ _ Hn f Hf). cbv beta in H1, H2.
  destruct (dget D (fname f)) as [d|]; [|discriminate].
  destruct (bt_eqb d _) eqn:E; [|discriminate]. apply bt_eqb_eq in E. subst. reflexivity.
Qed.

Lemma collect_complete l fs : collect l = Ok fs ->
  forall e f, In e l -> contrib_of e = CFile f -> In f fs.
Proof.
  revert fs; induction l as [|a l IH]; intros fs H e f []; rewrite collect_cons in H.
  - subst a. intros Hc. rewrite Hc in H. destruct (collect l); simpl in H; try discriminate.
    injection H as <-. left; reflexivity.
  - intros Hc. destruct (contrib_of a).
    + eapply IH; eauto.
    + destruct (collect l) as [fs'| |]; simpl in H; try discriminate. injection H as <-.
      right. eapply IH; eauto.
    + discriminate.
Qed.

Lemma ranged_files_complete l rg fs : ranged_files l rg = Ok fs ->
  forall nm c n, In (nm, KFile c) l -> has_immutable_ext nm = true -> num_of nm = Some n ->
  in_range rg n = true -> In (n, nm, c) fs.
Proof.
  unfold ranged_files, list_all. destruct (collect l) as [cs| |] eqn:Ec; simpl; try discriminate.
  intros [= <-] nm c n Hin Hext Hnum Hr. apply filter_In. split; [|exact Hr].
  apply (Permutation_in _ (isort_is_perm _ ifile_leb cs)).
  eapply collect_complete; eauto. simpl. rewrite Hext. unfold num_of in Hnum. rewrite Hnum. reflexivity.
Qed.

Lemma ranged_files_sound l rg fs : ranged_files l rg = Ok fs ->
  forall f, In f fs -> In (fname f, KFile (fcontent f)) l /\ in_range rg (fnum f) = true.
Proof.
  unfold ranged_files, list_all. destruct (collect l) as [cs| |] eqn:Ec; simpl; try discriminate.
  intros [= <-] f Hf. apply filter_In in Hf as [Hf Hr]. split; [|exact Hr].
  apply (Permutation_in _ (Permutation_sym (isort_is_perm _ ifile_leb cs))) in Hf.
  apply (collect_in _ _ Ec). exact Hf.
Qed.

Lemma mem_bt_In t ts : mem_bt t ts = true <-> In t ts.
Proof.
  unfold mem_bt. rewrite existsb_exists. split.
  - intros (x & Hx & E). apply bt_eqb_eq in E. subst. exact Hx.
  - intros H. exists t. split; [exact H | apply bt_eqb_refl].
Qed.

Lemma compute_proof_ok_spec leaves computed :
  compute_proof_ok leaves computed = true -> computed <> [] /\ forall d, In d computed -> In d leaves.
Proof.
  unfold compute_proof_ok. destruct computed as [|x xs]; [discriminate|]. intros H. split; [discriminate|].
  intros d Hd. rewrite forallb_forall in H. apply mem_bt_In. apply H. exact Hd.
Qed.

Lemma present_spec l nm : present l nm = true <-> exists c, In (nm, KFile c) l.
Proof.
  unfold present. rewrite existsb_exists. split.
  - intros ([nm' [c|]] & Hin & E); unfold is_file_named in E; simpl in E; [|discriminate].
    apply name_eqb_eq in E. subst. exists c. exact Hin.
  - intros (c & Hin). exists (nm, KFile c). split; [exact Hin|]. unfold is_file_named. simpl. apply name_eqb_refl.
Qed.

Lemma range_numbers_In rg n : In n (range_numbers rg) <-> in_range rg n = true.
Proof.
  unfold range_numbers, in_range. destruct rg as [lo hi]. cbn [fst snd].
  rewrite in_map_iff, andb_true_iff, !N.leb_le. split.
  - intros (i & <- & Hi). apply in_seq in Hi. lia.
  - intros [H1 H2]. exists (N.to_nat (n - lo)). split; [lia|]. apply in_seq. lia.
Qed.

Lemma expected_names_In rg n ext : in_range rg n = true -> In ext EXTS -> In (trio_name n ext) (expected_names rg).
Proof.
  intros Hr He. unfold expected_names. apply in_flat_map. exists n. split; [apply range_numbers_In; exact Hr|].
  apply in_map. exact He.
Qed.

Lemma missing_nil l rg : missing_files l rg = [] ->
  forall n ext, in_range rg n = true -> In ext EXTS -> exists c, In (trio_name n ext, KFile c) l.
Proof.
  intros H n ext Hr He. apply present_spec.
  assert (Hx := filter_nil_all _ _ H _ (expected_names_In rg n ext Hr He)). cbv beta in Hx.
  destruct (present l (trio_name n ext)); [reflexivity | discriminate].
Qed.

(* the full statement on the restored directory *)
Lemma verify_ok beacon r allow l v root :
  verify_db beacon r allow l v = VOk root ->
  exists rg, to_range r beacon = Ok rg /\ root = root_of (vd_leaves v) /\
    (allow = false -> forall n ext, in_range rg n = true -> In ext EXTS ->
                      exists c, In (trio_name n ext, KFile c) l) /\
    (forall nm c n, In (nm, KFile c) l -> has_immutable_ext nm = true -> num_of nm = Some n ->
                    in_range rg n = true ->
                    dget (vd_digests v) nm = Some (file_digest c) /\ In (file_digest c) (vd_leaves v)).
Proof.
  unfold verify_db. destruct (to_range r beacon) as [rg| |]; try discriminate.
  destruct (ranged_files l rg) as [fs| |] eqn:Ef; try discriminate.
  destruct (compute_proof_ok _ _) eqn:Ep; [|discriminate].
  destruct (if allow then [] else missing_files l rg) eqn:Em; [|discriminate].
  destruct (tampered_files _ fs) eqn:Et; [|discriminate].
  destruct (non_verifiable_files _ fs) eqn:En; [|discriminate].
  intros [= <-]. exists rg. split; [reflexivity|]. split; [reflexivity|]. split.
  - intros -> n ext Hr He. eapply missing_nil; eauto.
  - intros nm c n Hin Hext Hnum Hr.
    assert (Hf := ranged_files_complete _ _ _ Ef _ _ _ Hin Hext Hnum Hr).
    split.
    + apply (not_verified_nil _ _ Et En _ Hf).
    + apply compute_proof_ok_spec in Ep as [_ Hmem]. apply Hmem.
      change (file_digest c) with ((fun f => file_digest (fcontent f)) (n, nm, c)). apply in_map. exact Hf.
Qed.

(* a verdict listing files is never empty-handed silently: rejection always names a reason or the
   proof could not be computed (no file at all in the range) *)
Lemma verify_never_ok_on_empty beacon r allow l v rg :
  to_range r beacon = Ok rg -> ranged_files l rg = Ok [] -> forall root, verify_db beacon r allow l v <> VOk root.
Proof. intros Hr Hf root. unfold verify_db. rewrite Hr, Hf. simpl. destruct allow; destruct (missing_files l rg); discriminate. Qed.

(* to_map yields a map: lookups return the last served value of a name *)
Lemma dget_insert k v m k' : dget (dmap_insert k v m) k' = if name_eqb k k' then Some v else dget m k'.
Proof.
  induction m as [|[k0 v0] m IH]; simpl.
  - reflexivity.
  - destruct (name_eqb k k0) eqn:E0.
    + apply name_eqb_eq in E0. subst k0. simpl. destruct (name_eqb k k'); reflexivity.
    + destruct (name_leb k k0); simpl.
      * reflexivity.
      * rewrite IH. destruct (name_eqb k0 k') eqn:E1; [|reflexivity].
        apply name_eqb_eq in E1. subst k0. rewrite E0. reflexivity.
Qed.
