(* C10/Properties.v — the property theorems, nothing else.
   C10: client-side verification of a restored Cardano database succeeds only if every immutable
   file of the requested range is present (unless gaps are allowed) and hashes to the digest that
   the accepted digest list assigns to that very file name, and the accepted digest list reproduces
   the Merkle root signed in the certificate. *)
From Coq Require Import String.
From MV Require Import Base.Prelude Base.SymHash Gen.Consts C12.Model C12.Proofs C10.Model C10.Proofs C10.RoundTrip C10.Served.
Open Scope N_scope.

(* acceptance of a served digest list: the certificate's signed message commits to exactly the value
   sequence of the list (filtered to the beacon, in name order); H-inj on message and root *)
Theorem C10_digests : forall c beacon served v other S,
  download_and_verify c beacon served = Ok v ->
  c_signed c = msg_hash other (root_of S) ->
  map snd (vd_digests v) = S /\ vd_leaves v = S /\ c_other c = other.
Proof. exact digests_certified. Qed.

(* what an accepted list is, structurally *)
Theorem C10_digests_shape : forall c beacon served v,
  download_and_verify c beacon served = Ok v ->
  exists d, served = Some d /\
    vd_digests v = filter (keep_upto beacon) (to_map d) /\
    vd_leaves v = map snd (vd_digests v) /\ vd_leaves v <> [] /\
    c_signed c = msg_hash (c_other c) (root_of (vd_leaves v)).
Proof. exact download_ok. Qed.

(* full statement on the directory: success => the range is valid, the proof is for the certified
   tree, every ranged trio file is present as a regular file (unless gaps are allowed), and EVERY
   immutable file of the directory numbered in the range (canonical name or not) carries the digest
   the verified list assigns to ITS OWN NAME, which is also a leaf of the certified tree *)
Theorem C10_db : forall beacon r allow l v root,
  verify_db beacon r allow l v = VOk root ->
  exists rg, to_range r beacon = Ok rg /\ root = root_of (vd_leaves v) /\
    (allow = false -> forall n ext, in_range rg n = true -> In ext EXTS ->
                      exists c, In (trio_name n ext, KFile c) l) /\
    (forall nm c n, In (nm, KFile c) l -> has_immutable_ext nm = true -> num_of nm = Some n ->
                    in_range rg n = true ->
                    dget (vd_digests v) nm = Some (file_digest c) /\ In (file_digest c) (vd_leaves v)).
Proof. exact verify_ok. Qed.

(* the two steps composed, against the certificate: the accepted message is the signed one *)
Theorem C10_end_to_end : forall c beacon served v r allow l root other S,
  download_and_verify c beacon served = Ok v ->
  verify_db beacon r allow l v = VOk root ->
  c_signed c = msg_hash other (root_of S) ->
  message_matches c root = true /\ root = root_of S /\
  forall nm cnt n rg, to_range r beacon = Ok rg ->
    In (nm, KFile cnt) l -> has_immutable_ext nm = true -> num_of nm = Some n -> in_range rg n = true ->
    dget (vd_digests v) nm = Some (file_digest cnt) /\ In (file_digest cnt) S.
Proof.
  intros c beacon served v r allow l root other S Hd Hv Hs.
  destruct (digests_certified _ _ _ _ _ _ Hd Hs) as (_ & Hl & Ho).
  destruct (verify_ok _ _ _ _ _ _ Hv) as (rg & Hr & -> & _ & Hall).
  split; [|split].
  - unfold message_matches. apply match_root_spec. rewrite Hl, Ho. exact Hs.
  - rewrite Hl. reflexivity.
  - intros nm cnt n rg' Hr'. rewrite Hr in Hr'. injection Hr' as <-. rewrite <- Hl. apply Hall.
Qed.

(* the zero-padded names the client looks for are immutable file names of their own number ... *)
Theorem C10_trio_names : forall n ext, n < U64 -> In ext EXTS ->
  has_immutable_ext (trio_name n ext) = true /\ num_of (trio_name n ext) = Some n.
Proof. exact trio_name_roundtrip. Qed.

(* served names are paths: a plain name (no '/', not "", ".", "..") is filtered by its own number;
   a path-like name by the number of its last component, and is kept under its full text *)
Theorem C10_served_plain : forall nm, plain nm -> served_num_of nm = num_of nm.
Proof. exact served_num_of_plain. Qed.

(* ... hence, without allow_missing, success means: every trio file of the range is present as a
   regular file AND carries the digest the verified list assigns to its own name *)
Theorem C10_db_canonical : forall beacon r l v root,
  verify_db beacon r false l v = VOk root ->
  exists rg, to_range r beacon = Ok rg /\
    forall n ext, n < U64 -> in_range rg n = true -> In ext EXTS ->
      exists c, In (trio_name n ext, KFile c) l /\ dget (vd_digests v) (trio_name n ext) = Some (file_digest c).
Proof.
  intros beacon r l v root H. destruct (verify_ok _ _ _ _ _ _ H) as (rg & Hr & _ & Hp & Hall).
  exists rg. split; [exact Hr|]. intros n ext Hn Hin Hext.
  destruct (Hp eq_refl n ext Hin Hext) as (c & Hc). exists c. split; [exact Hc|].
  destruct (trio_name_roundtrip n ext Hn Hext) as [H1 H2].
  exact (proj1 (Hall _ _ _ Hc H1 H2 Hin)).
Qed.

(* a range without any immutable file is never accepted (no empty proof) *)
Theorem C10_no_empty_success : forall beacon r allow l v rg,
  to_range r beacon = Ok rg -> ranged_files l rg = Ok [] -> forall root, verify_db beacon r allow l v <> VOk root.
Proof. exact verify_never_ok_on_empty. Qed.

(* non-vacuity: an honest two-trio database verifies, through both steps *)
Local Open Scope string_scope.
Definition ex_name (s : String.string) : name := bytes_of_string s.
Definition ex_dir : listing :=
  [ (ex_name "00000.chunk", KFile 1); (ex_name "00000.primary", KFile 2); (ex_name "00000.secondary", KFile 3);
    (ex_name "00001.chunk", KFile 4); (ex_name "00001.primary", KFile 5); (ex_name "00001.secondary", KFile 6) ].
Definition ex_list : dlist := map (fun e => match e with (nm, KFile c) => (nm, file_digest c) | (nm, KDir) => (nm, BLit []) end) ex_dir.
Definition ex_cert : cert := {| c_other := BLit [7]; c_signed := msg_hash (BLit [7]) (root_of (map snd ex_list)) |}.
Example C10_ex :
  exists v, download_and_verify ex_cert 1 (Some (rev ex_list)) = Ok v /\
            verify_db 1 RFull false ex_dir v = VOk (root_of (map snd ex_list)) /\
            verify_db 1 (RFrom 1) false ex_dir v = VOk (root_of (map snd ex_list)) /\
            has_immutable_ext (trio_name 1 (ex_name "chunk")) = true /\ num_of (trio_name 1 (ex_name "chunk")) = Some 1.
Proof. eexists. split; [vm_compute; reflexivity|]. split; [vm_compute; reflexivity|]. split; [vm_compute; reflexivity|]. split; vm_compute; reflexivity. Qed.
