(* C10/Refuted.v — witnesses (by computation) of what is NOT guaranteed.
   1. The code before the fix accepted certified contents under the wrong names (membership only).
   2. Open finding C10-unsigned-names: file names of the digest list are not covered by the signed
      root; an order-preserving renaming of the served list is accepted and re-binds names. *)
From Coq Require Import String.
From MV Require Import Base.Prelude Base.SymHash Gen.Consts C12.Model C10.Model.
Open Scope N_scope.
Local Open Scope string_scope.

Definition nm (s : String.string) : name := bytes_of_string s.
(* the aggregator's list for beacon 1: name -> digest of content 1..6 *)
Definition agg : dlist :=
  [ (nm "00000.chunk", file_digest 1); (nm "00000.primary", file_digest 2); (nm "00000.secondary", file_digest 3);
    (nm "00001.chunk", file_digest 4); (nm "00001.primary", file_digest 5); (nm "00001.secondary", file_digest 6) ].
Definition crt : cert := {| c_other := BLit [7]; c_signed := msg_hash (BLit [7]) (root_of (map snd agg)) |}.

(* contents of 00001.chunk and 00001.primary exchanged *)
Definition swapped_dir : listing :=
  [ (nm "00000.chunk", KFile 1); (nm "00000.primary", KFile 2); (nm "00000.secondary", KFile 3);
    (nm "00001.chunk", KFile 5); (nm "00001.primary", KFile 4); (nm "00001.secondary", KFile 6) ].

(* before the fix: accepted.  After the fix: both files reported as tampered. *)
Theorem C10_prefix_refuted_swap :
  exists v, download_and_verify crt 1 (Some agg) = Ok v /\
    verify_db_membership_only 1 RFull false swapped_dir v = VOk (root_of (map snd agg)) /\
    dget (vd_digests v) (nm "00001.chunk") <> Some (file_digest 5) /\
    verify_db 1 RFull false swapped_dir v = VFiles [] [nm "00001.chunk"; nm "00001.primary"] [].
Proof.
  eexists. split; [vm_compute; reflexivity|]. split; [vm_compute; reflexivity|]. split; [|vm_compute; reflexivity].
  vm_compute. discriminate.
Qed.

(* open finding: the served list drops 00000.chunk and adds 00001.t, values in the signed order *)
Definition renamed : dlist :=
  [ (nm "00000.primary", file_digest 1); (nm "00000.secondary", file_digest 2);
    (nm "00001.chunk", file_digest 3); (nm "00001.primary", file_digest 4); (nm "00001.secondary", file_digest 5);
    (nm "00001.t", file_digest 6) ].
(* trio 1 holds the contents certified for the previous names *)
Definition moved_dir : listing :=
  [ (nm "00000.chunk", KFile 1); (nm "00000.primary", KFile 2); (nm "00000.secondary", KFile 3);
    (nm "00001.chunk", KFile 3); (nm "00001.primary", KFile 4); (nm "00001.secondary", KFile 5) ].

Theorem C10_refuted_unsigned_names :
  exists v, download_and_verify crt 1 (Some renamed) = Ok v /\
    verify_db 1 (RFrom 1) false moved_dir v = VOk (root_of (map snd agg)) /\
    message_matches crt (root_of (map snd agg)) = true /\
    (* ... although the aggregator's list certifies another digest for that very name *)
    In (nm "00001.chunk", KFile 3) moved_dir /\ dget agg (nm "00001.chunk") = Some (file_digest 4) /\
    file_digest 3 <> file_digest 4 /\
    (* the full range does reject it *)
    (forall root, verify_db 1 RFull false moved_dir v <> VOk root).
Proof.
  eexists. split; [vm_compute; reflexivity|]. split; [vm_compute; reflexivity|]. split; [vm_compute; reflexivity|].
  split; [vm_compute; tauto|]. split; [vm_compute; reflexivity|]. split; [vm_compute; discriminate|].
  intros root. vm_compute. discriminate.
Qed.
