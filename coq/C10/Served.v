(* C10/Served.v — names of the served digest list are paths: a plain file name (no '/', not empty,
   not "." or "..") is its own file name, so for the names an honest aggregator serves the filter of
   download_and_verify_digests looks at the number of that very name. *)
From Coq Require Import Lia String.
From MV Require Import Base.Prelude Base.SymHash Base.SortUnique Gen.Consts C12.Model C12.Proofs C10.Model.
Open Scope N_scope.

Definition plain (nm : name) : Prop :=
  Forall (fun c => c <> SLASH) nm /\ nm <> [] /\ nm <> [DOT] /\ nm <> [DOT; DOT].

Lemma split_slash_plain nm cur : Forall (fun c => c <> SLASH) nm -> split_slash nm cur = [(rev cur ++ nm)%list].
Proof.
  revert cur; induction nm as [|c r IH]; intros cur H; simpl.
  - rewrite app_nil_r. reflexivity.
  - inversion H as [|? ? Hc Hr]; subst. destruct (c =? SLASH) eqn:E; [apply N.eqb_eq in E; contradiction|].
    rewrite IH by assumption. simpl. rewrite <- app_assoc. reflexivity.
Qed.

Lemma name_eqb_false a b : a <> b -> name_eqb a b = false.
Proof.
  intros H. destruct (name_eqb a b) eqn:E; [|reflexivity]. apply name_eqb_eq in E. contradiction.
Qed.

Lemma path_file_name_plain nm : plain nm -> path_file_name nm = Some nm.
Proof.
  intros (Hs & Hne & Hd & Hdd). unfold path_file_name. rewrite split_slash_plain by assumption. simpl.
  rewrite (name_eqb_false nm []), (name_eqb_false nm [DOT]) by assumption. simpl.
  rewrite (name_eqb_false nm [DOT; DOT]) by assumption. reflexivity.
Qed.

Lemma served_num_of_plain nm : plain nm -> served_num_of nm = num_of nm.
Proof. intros H. unfold served_num_of. rewrite path_file_name_plain by assumption. reflexivity. Qed.

(* a path-like served name is filtered by the number of its LAST component, and stays in the accepted
   map under its full text: it can never be the key of a file of the restored directory *)
Example served_path_example :
  served_num_of (bytes_of_string "00001/00003.chunk"%string) = Some 3 /\
  served_num_of (bytes_of_string "a/b/00007.primary/"%string) = Some 7 /\
  served_num_of (bytes_of_string "00002.chunk/.."%string) = None /\
  served_num_of (bytes_of_string "./"%string) = None.
Proof. repeat split; vm_compute; reflexivity. Qed.
