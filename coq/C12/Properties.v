(* C12/Properties.v — the property theorems, nothing else.
   C12: the database digest at a beacon is determined by the immutable files numbered up to the
   beacon: independent of listing order, other files, files beyond the beacon and digest-cache
   history over the unchanged files; cache-less it is sensitive to every covered file. *)
From Coq Require Import Permutation String.
From MV Require Import Base.Prelude Base.SymHash C12.Model C12.Proofs.
Open Scope N_scope.

(* listing / directory creation order is irrelevant (result and cache effect) *)
Theorem C12_perm : forall l l' b c, Permutation l l' ->
  compute l b c = compute l' b c /\ compute_cached l b c = compute_cached l' b c.
Proof. intros; split; [apply compute_perm | apply compute_cached_perm]; assumption. Qed.

(* entries that are not immutable files (other extensions, dot-files, sub-directories) and immutable
   files numbered beyond the beacon do not influence the result, wherever they sit in the listing *)
Theorem C12_extra : forall l1 e l2 b c, ignorable b e ->
  compute (l1 ++ e :: l2) b c = compute (l1 ++ l2) b c.
Proof. exact compute_ignorable_mid. Qed.

(* any cache whose entries are the digests of the present files gives the cache-less result *)
Theorem C12_cache : forall l b c, coherent l c -> compute l b c = compute l b [].
Proof. exact compute_coherent. Qed.

(* every cache history over an unchanged directory (cold, warm, partial, with holes, from longer or
   shorter or failed earlier runs, Merkle trees at any beacons and digest lists of any ranges) leaves a coherent cache, hence the cache-less result *)
Theorem C12_cache_history : forall l history b,
  unique_names l ->
  coherent l (run_history l history []) /\
  fst (compute_cached l b (run_history l history [])) = compute l b [].
Proof.
  intros l h b Hu. assert (Hc := run_history_coherent l h [] Hu (coherent_nil l)).
  split; [exact Hc|]. rewrite compute_cached_fst. apply compute_coherent. exact Hc.
Qed.

(* ... and the digest list served for any range of immutables after any such history is the
   cache-less one: every file name is paired with the digest of its own content *)
Theorem C12_range_history : forall l history lo hi,
  unique_names l ->
  fst (compute_range_cached l lo hi (run_history l history [])) = fst (compute_range_cached l lo hi []).
Proof.
  intros l h lo hi Hu. apply compute_range_coherent. apply run_history_coherent; [exact Hu | apply coherent_nil].
Qed.

(* cache-less, changing the content of a covered file changes the root *)
Theorem C12_sensitive_change : forall l1 l2 nm c1 c2 f1 b r r',
  contrib_of (nm, KFile c1) = CFile f1 -> fnum f1 <= b -> c1 <> c2 ->
  compute (l1 ++ (nm, KFile c1) :: l2) b [] = Ok r ->
  compute (l1 ++ (nm, KFile c2) :: l2) b [] = Ok r' ->
  r <> r'.
Proof. exact change_sensitive. Qed.

(* cache-less, removing a covered file changes the root or makes the computation fail *)
Theorem C12_sensitive_removal : forall l1 l2 nm c1 f1 b r,
  contrib_of (nm, KFile c1) = CFile f1 -> fnum f1 <= b ->
  compute (l1 ++ (nm, KFile c1) :: l2) b [] = Ok r ->
  compute (l1 ++ l2) b [] <> Ok r.
Proof. exact removal_sensitive. Qed.

(* the computation never panics; it fails exactly when a file with an immutable extension has a
   non-numeric stem or no file numbered exactly `beacon` is present *)
Theorem C12_total : forall l, collect l <> Panic.
Proof. exact collect_never_panics. Qed.

(* non-vacuity: a two-trio directory; the hypotheses of the theorems above are met *)
Local Open Scope string_scope.
Definition ex_name (s : String.string) : name := bytes_of_string s.
Definition ex_dir : listing :=
  [ (ex_name "00001.chunk", KFile 11); (ex_name "00001.primary", KFile 12); (ex_name "00001.secondary", KFile 13);
    (ex_name "00002.chunk", KFile 21); (ex_name "00002.primary", KFile 22); (ex_name "00002.secondary", KFile 23);
    (ex_name "README", KFile 99) ].
Example C12_ex :
  is_ok (compute ex_dir 1 []) = true /\ is_ok (compute ex_dir 2 []) = true /\ is_ok (compute ex_dir 3 []) = false /\
  contrib_of (ex_name "00001.primary", KFile 12) = CFile (1, ex_name "00001.primary", 12) /\
  ignorable 1 (ex_name "00002.chunk", KFile 21) /\ ignorable 1 (ex_name "README", KFile 99) /\
  compute ex_dir 1 (run_history ex_dir [HBeacon 1; HRange 2 2; HBeacon 5; HBeacon 2] []) = compute ex_dir 1 [].
Proof.
  repeat split; try (vm_compute; reflexivity).
  - right. eexists. split; [vm_compute; reflexivity | vm_compute; reflexivity].
  - left. vm_compute. reflexivity.
Qed.
