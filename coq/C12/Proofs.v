(* C12/Proofs.v — lemmas behind C12/Properties.v *)
From Coq Require Import Lia Permutation.
From MV Require Import Base.Prelude Base.SymHash Base.SortUnique Gen.Consts C12.Model.
Open Scope N_scope.

(* ---------- the order on immutable files is a total order ---------- *)
Lemma name_eqb_eq a b : name_eqb a b = true <-> a = b.
Proof. apply list_eqb_N_eq. Qed.
Lemma name_eqb_refl a : name_eqb a a = true.
Proof. apply name_eqb_eq; reflexivity. Qed.

Lemma name_leb_total a b : name_leb a b = true \/ name_leb b a = true.
Proof.
  revert b; induction a as [|x a IH]; intros [|y b]; simpl; auto.
  destruct (x <? y) eqn:E1; [auto|]. destruct (y <? x) eqn:E2; [auto|]. apply IH.
Qed.
Lemma name_leb_antisym a b : name_leb a b = true -> name_leb b a = true -> a = b.
Proof.
  revert b; induction a as [|x a IH]; intros [|y b]; simpl; try discriminate; auto.
  destruct (x <? y) eqn:E1; destruct (y <? x) eqn:E2; try discriminate.
  - apply N.ltb_lt in E1, E2. lia.
  - intros H1 H2. apply N.ltb_ge in E1, E2. assert (x = y) by lia. subst. f_equal. apply IH; assumption.
Qed.
Lemma name_leb_trans a b c : name_leb a b = true -> name_leb b c = true -> name_leb a c = true.
Proof.
  revert b c; induction a as [|x a IH]; intros [|y b] [|z c]; simpl; try discriminate; auto.
  destruct (x <? y) eqn:E1; destruct (y <? x) eqn:E2; try discriminate;
  destruct (y <? z) eqn:E3; destruct (z <? y) eqn:E4; try discriminate;
  destruct (x <? z) eqn:E5; destruct (z <? x) eqn:E6; try discriminate; auto;
  repeat match goal with
  | H : (_ <? _) = true |- _ => apply N.ltb_lt in H
  | H : (_ <? _) = false |- _ => apply N.ltb_ge in H
  end; try lia.
  intros H1 H2. eapply IH; eassumption.
Qed.

Lemma ifile_leb_total a b : ifile_leb a b = true \/ ifile_leb b a = true.
Proof.
  destruct a as [[n1 p1] c1], b as [[n2 p2] c2]; simpl.
  destruct (n1 <? n2) eqn:E1; [auto|]. destruct (n2 <? n1) eqn:E2; [auto|].
  destruct (name_eqb p1 p2) eqn:E3.
  - apply name_eqb_eq in E3; subst. rewrite name_eqb_refl.
    destruct (c1 <=? c2) eqn:E; [auto|]. right. apply N.leb_le. apply N.leb_gt in E. lia.
  - destruct (name_eqb p2 p1) eqn:E4; [apply name_eqb_eq in E4; subst; rewrite name_eqb_refl in E3; discriminate|].
    apply name_leb_total.
Qed.
Lemma ifile_leb_antisym a b : ifile_leb a b = true -> ifile_leb b a = true -> a = b.
Proof.
  destruct a as [[n1 p1] c1], b as [[n2 p2] c2]; simpl.
  destruct (n1 <? n2) eqn:E1; destruct (n2 <? n1) eqn:E2; try discriminate.
  - apply N.ltb_lt in E1, E2. lia.
  - apply N.ltb_ge in E1, E2. assert (n1 = n2) by lia. subst.
    destruct (name_eqb p1 p2) eqn:E3.
    + apply name_eqb_eq in E3; subst. rewrite name_eqb_refl. intros H1 H2.
      apply N.leb_le in H1, H2. assert (c1 = c2) by lia. subst; reflexivity.
    + destruct (name_eqb p2 p1) eqn:E4; [apply name_eqb_eq in E4; subst; rewrite name_eqb_refl in E3; discriminate|].
      intros H1 H2. assert (p1 = p2) by (apply name_leb_antisym; assumption). subst.
      rewrite name_eqb_refl in E3. discriminate.
Qed.
Lemma ifile_leb_trans a b c : ifile_leb a b = true -> ifile_leb b c = true -> ifile_leb a c = true.
Proof.
  destruct a as [[n1 p1] c1], b as [[n2 p2] c2], c as [[n3 p3] c3]; simpl.
  destruct (n1 <? n2) eqn:E1; destruct (n2 <? n1) eqn:E2; try discriminate;
  destruct (n2 <? n3) eqn:E3; destruct (n3 <? n2) eqn:E4; try discriminate;
  destruct (n1 <? n3) eqn:E5; destruct (n3 <? n1) eqn:E6; auto;
  repeat match goal with
  | H : (_ <? _) = true |- _ => apply N.ltb_lt in H
  | H : (_ <? _) = false |- _ => apply N.ltb_ge in H
  end; try lia.
  (* all numbers equal *)
  destruct (name_eqb p1 p2) eqn:F1.
  - apply name_eqb_eq in F1; subst p2.
    destruct (name_eqb p1 p3) eqn:F2; auto.
    intros H1 H2. apply N.leb_le in H1, H2. apply N.leb_le. lia.
  - destruct (name_eqb p2 p3) eqn:F2.
    + apply name_eqb_eq in F2; subst p3. rewrite F1. auto.
    + intros H1 H2. destruct (name_eqb p1 p3) eqn:F3.
      * apply name_eqb_eq in F3; subst p3.
        assert (p1 = p2) by (apply name_leb_antisym; assumption). subst. rewrite name_eqb_refl in F1; discriminate.
      * eapply name_leb_trans; eassumption.
Qed.

Definition sortf := isort ifile_leb.
Lemma sortf_perm l l' : Permutation l l' -> sortf l = sortf l'.
Proof. apply isort_perm; [apply ifile_leb_total | apply ifile_leb_trans | apply ifile_leb_antisym]. Qed.

(* ---------- collect and permutations ---------- *)
Definition res_perm (a b : result (list ifile)) : Prop :=
  match a, b with
  | Ok x, Ok y => Permutation x y
  | Err, Err => True
  | Panic, Panic => True
  | _, _ => False
  end.

Lemma res_perm_refl a : res_perm a a.
Proof. destruct a; simpl; auto. Qed.
Lemma res_perm_trans a b c : res_perm a b -> res_perm b c -> res_perm a c.
Proof. destruct a, b, c; simpl; try tauto. apply Permutation_trans. Qed.

(* what one entry contributes *)
Inductive contrib := CSkip | CFile (f : ifile) | CBad.
Definition contrib_of (e : entry) : contrib :=
  match e with
  | (nm, KFile c) =>
      if has_immutable_ext nm then
        match parse_u64 (fst (split_ext nm)) with Some n => CFile (n, nm, c) | None => CBad end
      else CSkip
  | (_, KDir) => CSkip
  end.

Lemma collect_cons e l :
  collect (e :: l) = match contrib_of e with
                     | CSkip => collect l
                     | CFile f => rmap (cons f) (collect l)
                     | CBad => Err
                     end.
Proof.
  destruct e as [nm [c|]]; simpl; [|reflexivity].
  destruct (has_immutable_ext nm); [|reflexivity].
  destruct (parse_u64 _); reflexivity.
Qed.

Lemma collect_never_panics l : collect l <> Panic.
Proof.
  induction l as [|e l IH]; [discriminate|]. rewrite collect_cons.
  destruct (contrib_of e); [exact IH | | discriminate].
  destruct (collect l); simpl; congruence.
Qed.

Lemma collect_perm l l' : Permutation l l' -> res_perm (collect l) (collect l').
Proof.
  induction 1 as [| e l l' Hp IH | e1 e2 l | l1 l2 l3 _ IH1 _ IH2].
  - simpl; constructor.
  - rewrite !collect_cons. destruct (contrib_of e); [exact IH | | exact I].
    destruct (collect l), (collect l'); simpl in *; auto.
  - rewrite !collect_cons.
    destruct (contrib_of e1) as [|f1|], (contrib_of e2) as [|f2|]; try apply res_perm_refl;
      destruct (collect l) eqn:E; simpl; auto; try apply Permutation_refl.
    apply perm_swap.
  - eapply res_perm_trans; eassumption.
Qed.

Lemma list_all_perm l l' : Permutation l l' -> list_all l = list_all l'.
Proof.
  intros Hp. apply collect_perm in Hp. unfold list_all.
  destruct (collect l), (collect l'); simpl in *; try tauto; try reflexivity.
  f_equal. apply sortf_perm. exact Hp.
Qed.

Lemma compute_perm l l' b c : Permutation l l' -> compute l b c = compute l' b c.
Proof. intros Hp. unfold compute, to_process. rewrite (list_all_perm _ _ Hp). reflexivity. Qed.

Lemma compute_cached_perm l l' b c : Permutation l l' -> compute_cached l b c = compute_cached l' b c.
Proof. intros Hp. unfold compute_cached, to_process. rewrite (list_all_perm _ _ Hp). reflexivity. Qed.

(* ---------- extra entries ---------- *)
Lemma filter_insert_out (p : ifile -> bool) x l :
  p x = false -> filter p (insert ifile_leb x l) = filter p l.
Proof.
  intros Hx. induction l as [|y r IH]; simpl; [rewrite Hx; reflexivity|].
  destruct (ifile_leb x y); simpl; [rewrite Hx; reflexivity|].
  destruct (p y); [f_equal|]; exact IH.
Qed.

Lemma to_process_skip e l b : contrib_of e = CSkip -> to_process (e :: l) b = to_process l b.
Proof. intros H. unfold to_process, list_all. rewrite collect_cons, H. reflexivity. Qed.

Lemma to_process_beyond e f l b :
  contrib_of e = CFile f -> b < fnum f -> to_process (e :: l) b = to_process l b.
Proof.
  intros H Hb. unfold to_process, list_all. rewrite collect_cons, H.
  destruct (collect l) as [fs| |]; simpl; try reflexivity.
  change (isort ifile_leb (f :: fs)) with (insert ifile_leb f (isort ifile_leb fs)).
  rewrite filter_insert_out; [reflexivity|]. apply N.leb_gt. exact Hb.
Qed.

(* an entry the digest must ignore: not an immutable file, or an immutable file numbered beyond the beacon *)
Definition ignorable (b : N) (e : entry) : Prop :=
  contrib_of e = CSkip \/ exists f, contrib_of e = CFile f /\ b < fnum f.

Lemma compute_ignorable e l b c : ignorable b e -> compute (e :: l) b c = compute l b c.
Proof.
  intros [H | [f [H Hb]]]; unfold compute.
  - rewrite (to_process_skip _ _ _ H). reflexivity.
  - rewrite (to_process_beyond _ _ _ _ H Hb). reflexivity.
Qed.

Lemma compute_ignorable_mid l1 e l2 b c : ignorable b e -> compute (l1 ++ e :: l2) b c = compute (l1 ++ l2) b c.
Proof.
  intros H. rewrite (compute_perm (l1 ++ e :: l2) (e :: l1 ++ l2)).
  - apply compute_ignorable. exact H.
  - symmetry. apply Permutation_middle.
Qed.

(* ---------- provenance of processed files ---------- *)
Lemma collect_in l fs : collect l = Ok fs ->
  forall f, In f fs -> In (fname f, KFile (fcontent f)) l /\ contrib_of (fname f, KFile (fcontent f)) = CFile f.
Proof.
  revert fs; induction l as [|e l IH]; intros fs; [intros [= <-] f []|].
  rewrite collect_cons. destruct (contrib_of e) eqn:Ec.
  - intros H f Hf. destruct (IH _ H f Hf). split; [right|]; assumption.
  - destruct (collect l) as [fs'| |]; simpl; try discriminate. intros [= <-] g [<- | Hg].
    + destruct e as [nm [c|]]; simpl in Ec; [|discriminate].
      destruct (has_immutable_ext nm) eqn:Ei; [|discriminate].
      destruct (parse_u64 _) eqn:Ep; [|discriminate]. injection Ec as <-.
      unfold fname, fcontent; simpl. split; [left; reflexivity|]. rewrite Ei, Ep. reflexivity.
    + destruct (IH _ eq_refl g Hg). split; [right|]; assumption.
  - discriminate.
Qed.

Lemma to_process_in l b fs : to_process l b = Ok fs ->
  forall f, In f fs -> In (fname f, KFile (fcontent f)) l /\ fnum f <= b.
Proof.
  unfold to_process, list_all. destruct (collect l) as [cs| |] eqn:Ec; simpl; try discriminate.
  set (kept := filter _ _). destruct (last (map Some kept) None) as [g|]; [|discriminate].
  destruct (fnum g <? b); [discriminate|]. intros [= <-] f Hf.
  apply filter_In in Hf as [Hf Hle]. apply N.leb_le in Hle. split; [|exact Hle].
  apply (Permutation_in _ (Permutation_sym (isort_is_perm _ ifile_leb cs))) in Hf.
  apply (collect_in _ _ Ec). exact Hf.
Qed.

(* ---------- caches ---------- *)
Definition unique_names (l : listing) : Prop :=
  forall nm k1 k2, In (nm, k1) l -> In (nm, k2) l -> k1 = k2.

(* every cached digest is the digest of the present file of that name *)
Definition coherent (l : listing) (c : cache) : Prop :=
  forall nm d, cache_get c nm = Some d -> forall content, In (nm, KFile content) l -> d = file_digest content.

Lemma coherent_nil l : coherent l [].
Proof. intros nm d H. discriminate. Qed.

Lemma compute_coherent l b c : coherent l c -> compute l b c = compute l b [].
Proof.
  intros Hc. unfold compute. destruct (to_process l b) as [fs| |] eqn:E; simpl; try reflexivity.
  do 2 f_equal. apply map_ext_in. intros f Hf. unfold digest_with. simpl.
  destruct (cache_get c (fname f)) as [d|] eqn:Eg; [|reflexivity].
  apply (Hc _ _ Eg). apply (to_process_in _ _ _ E). exact Hf.
Qed.

Lemma cache_get_cons k d c nm :
  cache_get ((k, d) :: c) nm = if name_eqb k nm then Some d else cache_get c nm.
Proof. reflexivity. Qed.

Lemma updated_cache_coherent l c fs :
  unique_names l -> coherent l c ->
  (forall f, In f fs -> In (fname f, KFile (fcontent f)) l) ->
  coherent l (updated_cache c fs).
Proof.
  intros Hu Hc. unfold updated_cache.
  assert (G : forall acc, coherent l acc ->
            (forall f, In f fs -> In (fname f, KFile (fcontent f)) l) ->
            coherent l (fold_left (fun acc f => match cache_get c (fname f) with
                                               | Some _ => acc
                                               | None => (fname f, file_digest (fcontent f)) :: acc end) fs acc)).
  { induction fs as [|f fs IH]; intros acc Hacc Hin; simpl; [exact Hacc|].
    apply IH; [|intros g Hg; apply Hin; right; exact Hg].
    destruct (cache_get c (fname f)); [exact Hacc|].
    intros nm d. rewrite cache_get_cons. destruct (name_eqb (fname f) nm) eqn:En.
    - intros [= <-] content Hcont. apply name_eqb_eq in En; subst nm.
      assert (Hf : In (fname f, KFile (fcontent f)) l) by (apply Hin; left; reflexivity).
      pose proof (Hu _ _ _ Hf Hcont) as Heq. injection Heq as ->. reflexivity.
    - apply Hacc. }
  apply G. exact Hc.
Qed.

Lemma compute_cached_coherent l b c :
  unique_names l -> coherent l c -> coherent l (snd (compute_cached l b c)).
Proof.
  intros Hu Hc. unfold compute_cached. destruct (to_process l b) as [fs| |] eqn:E; simpl; try exact Hc.
  apply updated_cache_coherent; try assumption. intros f Hf. apply (to_process_in _ _ _ E). exact Hf.
Qed.

Lemma to_process_range_in l lo hi fs : to_process_range l lo hi = Ok fs ->
  forall f, In f fs -> In (fname f, KFile (fcontent f)) l.
Proof.
  unfold to_process_range, list_all. destruct (collect l) as [cs| |] eqn:Ec; simpl; try discriminate.
  intros [= <-] f Hf. apply filter_In in Hf as [Hf _].
  apply (Permutation_in _ (Permutation_sym (isort_is_perm _ ifile_leb cs))) in Hf.
  apply (collect_in _ _ Ec). exact Hf.
Qed.

Lemma compute_range_cached_coherent l lo hi c :
  unique_names l -> coherent l c -> coherent l (snd (compute_range_cached l lo hi c)).
Proof.
  intros Hu Hc. unfold compute_range_cached. destruct (to_process_range l lo hi) as [fs| |] eqn:E; simpl; try exact Hc.
  apply updated_cache_coherent; try assumption. intros f Hf. apply (to_process_range_in _ _ _ _ E). exact Hf.
Qed.

(* with a coherent cache the digest list of a range is the cache-less one *)
Lemma compute_range_coherent l lo hi c :
  coherent l c -> fst (compute_range_cached l lo hi c) = fst (compute_range_cached l lo hi []).
Proof.
  intros Hc. unfold compute_range_cached. destruct (to_process_range l lo hi) as [fs| |] eqn:E; simpl; try reflexivity.
  f_equal. apply map_ext_in. intros f Hf. f_equal. unfold digest_with. simpl.
  destruct (cache_get c (fname f)) as [d|] eqn:Eg; [|reflexivity].
  apply (Hc _ _ Eg). apply (to_process_range_in _ _ _ _ E). exact Hf.
Qed.

Lemma hop_cache_coherent l h c :
  unique_names l -> coherent l c -> coherent l (hop_cache l h c).
Proof.
  intros Hu Hc. destruct h as [b|lo hi]; simpl.
  - apply compute_cached_coherent; assumption.
  - apply compute_range_cached_coherent; assumption.
Qed.

Lemma run_history_coherent l hs c :
  unique_names l -> coherent l c -> coherent l (run_history l hs c).
Proof.
  intros Hu. revert c; induction hs as [|h hs IH]; intros c Hc; simpl; [exact Hc|].
  apply IH. apply hop_cache_coherent; assumption.
Qed.

Lemma compute_cached_fst l b c : fst (compute_cached l b c) = compute l b c.
Proof. unfold compute_cached, compute. destruct (to_process l b); reflexivity. Qed.

(* ---------- sensitivity (cache-less) ---------- *)
Lemma file_digest_inj c1 c2 : file_digest c1 = file_digest c2 -> c1 = c2.
Proof. unfold file_digest. intros H. injection H as H. exact H. Qed.

Lemma map_file_digest_inj x y : map file_digest x = map file_digest y -> x = y.
Proof.
  revert y; induction x as [|a x IH]; intros [|a' y]; simpl; try discriminate; auto.
  intros H. injection H as Ha Hr. f_equal; [exact Ha | apply IH; exact Hr].
Qed.

Lemma root_of_inj a b : root_of a = root_of b -> a = b.
Proof. unfold root_of. intros H. injection H as H. exact H. Qed.

Lemma digest_nil f : digest_with [] f = file_digest (fcontent f).
Proof. reflexivity. Qed.

Lemma to_process_ok_kept l b fs : to_process l b = Ok fs ->
  exists cs, collect l = Ok cs /\ fs = filter (fun f => fnum f <=? b) (sortf cs).
Proof.
  unfold to_process, list_all. destruct (collect l) as [cs| |]; simpl; try discriminate.
  set (kept := filter _ _). destruct (last (map Some kept) None) as [g|]; [|discriminate].
  destruct (fnum g <? b); [discriminate|]. intros [= <-]. exists cs. split; reflexivity.
Qed.

Lemma filter_perm {A} (p : A -> bool) l l' : Permutation l l' -> Permutation (filter p l) (filter p l').
Proof.
  induction 1; simpl; auto.
  - destruct (p x); auto.
  - destruct (p x), (p y); auto. apply perm_swap.
  - eapply Permutation_trans; eassumption.
Qed.

(* contents of the processed files, as a multiset, when a covered file [f] is in front *)
Lemma kept_contents_perm f cs b :
  fnum f <= b ->
  Permutation (map fcontent (filter (fun g => fnum g <=? b) (sortf (f :: cs))))
              (fcontent f :: map fcontent (filter (fun g => fnum g <=? b) cs)).
Proof.
  intros Hle. apply N.leb_le in Hle.
  transitivity (map fcontent (filter (fun g => fnum g <=? b) (f :: cs))).
  - apply Permutation_map. apply filter_perm. symmetry. apply isort_is_perm.
  - simpl. rewrite Hle. reflexivity.
Qed.

Lemma kept_contents_perm' cs b :
  Permutation (map fcontent (filter (fun g => fnum g <=? b) (sortf cs)))
              (map fcontent (filter (fun g => fnum g <=? b) cs)).
Proof. apply Permutation_map. apply filter_perm. symmetry. apply isort_is_perm. Qed.

Lemma perm_cons_same_tail (x y : N) X : Permutation (x :: X) (y :: X) -> x = y.
Proof.
  intros H. pose proof (Permutation_count_occ N.eq_dec) as [Hc _]. specialize (Hc H x).
  simpl in Hc. destruct (N.eq_dec x x) as [_|n]; [|congruence].
  destruct (N.eq_dec y x) as [e|n]; [symmetry; exact e | lia].
Qed.

Lemma change_sensitive l1 l2 nm c1 c2 f1 b r r' :
  contrib_of (nm, KFile c1) = CFile f1 -> fnum f1 <= b -> c1 <> c2 ->
  compute (l1 ++ (nm, KFile c1) :: l2) b [] = Ok r ->
  compute (l1 ++ (nm, KFile c2) :: l2) b [] = Ok r' ->
  r <> r'.
Proof.
  intros Hc Hle Hne.
  rewrite (compute_perm _ ((nm, KFile c1) :: l1 ++ l2)) by (symmetry; apply Permutation_middle).
  rewrite (compute_perm (l1 ++ (nm, KFile c2) :: l2) ((nm, KFile c2) :: l1 ++ l2)) by (symmetry; apply Permutation_middle).
  assert (Hc2 : contrib_of (nm, KFile c2) = CFile (fnum f1, nm, c2)).
  { simpl in Hc |- *. destruct (has_immutable_ext nm); [|discriminate].
    destruct (parse_u64 _); [|discriminate]. injection Hc as <-. reflexivity. }
  assert (Hf1 : f1 = (fnum f1, nm, c1)).
  { simpl in Hc. destruct (has_immutable_ext nm); [|discriminate].
    destruct (parse_u64 _); [|discriminate]. injection Hc as <-. reflexivity. }
  unfold compute.
  destruct (to_process ((nm, KFile c1) :: l1 ++ l2) b) as [fs| |] eqn:E1; simpl; try discriminate.
  destruct (to_process ((nm, KFile c2) :: l1 ++ l2) b) as [fs'| |] eqn:E2; simpl; try discriminate.
  intros [= <-] [= <-] Heq. apply root_of_inj in Heq.
  apply to_process_ok_kept in E1 as [cs1 [Hcs1 ->]]. apply to_process_ok_kept in E2 as [cs2 [Hcs2 ->]].
  rewrite collect_cons, Hc in Hcs1. rewrite collect_cons, Hc2 in Hcs2.
  destruct (collect (l1 ++ l2)) as [cs| |]; simpl in *; try discriminate.
  injection Hcs1 as <-. injection Hcs2 as <-.
  assert (Hm : map fcontent (filter (fun g => fnum g <=? b) (sortf (f1 :: cs)))
             = map fcontent (filter (fun g => fnum g <=? b) (sortf ((fnum f1, nm, c2) :: cs)))).
  { apply map_file_digest_inj. rewrite !map_map. exact Heq. }
  pose proof (kept_contents_perm f1 cs b Hle) as P1.
  pose proof (kept_contents_perm (fnum f1, nm, c2) cs b Hle) as P2.
  rewrite Hm in P1. apply Hne.
  assert (Hp : Permutation (fcontent f1 :: map fcontent (filter (fun g => fnum g <=? b) cs))
                           (c2 :: map fcontent (filter (fun g => fnum g <=? b) cs))).
  { etransitivity; [symmetry; exact P1 | exact P2]. }
  apply perm_cons_same_tail in Hp. rewrite Hf1 in Hp. exact Hp.
Qed.

Lemma removal_sensitive l1 l2 nm c1 f1 b r :
  contrib_of (nm, KFile c1) = CFile f1 -> fnum f1 <= b ->
  compute (l1 ++ (nm, KFile c1) :: l2) b [] = Ok r ->
  compute (l1 ++ l2) b [] <> Ok r.
Proof.
  intros Hc Hle.
  rewrite (compute_perm _ ((nm, KFile c1) :: l1 ++ l2)) by (symmetry; apply Permutation_middle).
  unfold compute.
  destruct (to_process ((nm, KFile c1) :: l1 ++ l2) b) as [fs| |] eqn:E1; simpl; try discriminate.
  intros [= <-].
  destruct (to_process (l1 ++ l2) b) as [fs'| |] eqn:E2; simpl; try discriminate.
  intros [= Heq].
  apply to_process_ok_kept in E1 as [cs1 [Hcs1 ->]]. apply to_process_ok_kept in E2 as [cs2 [Hcs2 ->]].
  rewrite collect_cons, Hc in Hcs1. rewrite Hcs2 in Hcs1. simpl in Hcs1. injection Hcs1 as <-.
  apply (f_equal (@length bt)) in Heq. rewrite !map_length in Heq.
  pose proof (Permutation_length (kept_contents_perm f1 cs2 b Hle)) as L1.
  pose proof (Permutation_length (kept_contents_perm' cs2 b)) as L2.
  rewrite !map_length in L1, L2. cbn [length] in L1. rewrite map_length in L1. rewrite L1, L2 in Heq. rewrite map_length in Heq. lia.
Qed.
