(* C12/Model.v — the Cardano database digest.  Executable definitions only.
   Source: internal/cardano-node/mithril-cardano-node-internal-database/src/
     entities/immutable_file.rs   (is_immutable, ImmutableFile::new, list_all_in_dir, Ord)
     digesters/cardano_immutable_digester.rs (list_immutable_files_to_process, compute_merkle_tree,
                                              fetch_immutables_cached, update_cache)
     digesters/immutable_digester.rs (compute_immutables_digests)
     digesters/cache/{memory,json}_provider.rs (get/store keyed by file name)
   File names are byte strings; file contents are abstract ids (equal id <-> equal bytes);
   SHA-256 is ideal (Base/SymHash).  The Merkle root over the ordered digests is modelled by
   [root_of], an injective function of the leaf sequence (that MKTree's root is such a function
   is C09's subject; here it is an explicit idealisation, see props/C12.json). *)
From Coq Require Import String Ascii.
From MV Require Import Base.Prelude Base.SymHash Base.SortUnique Gen.Consts.
Open Scope N_scope.

Definition name := list N.                       (* bytes of a file name *)
Inductive kind := KFile (content : N) | KDir.    (* sub-directories and non-files are skipped *)
Definition entry := (name * kind)%type.
Definition listing := list entry.                (* what walking `immutable/` yields, in any order *)

Definition bytes_of_string (s : string) : name := map Byte.to_N (list_byte_of_string s).
Definition EXTS : list name := map bytes_of_string IMMUTABLE_EXTENSIONS.

Definition DOT : N := 46.  Definition PLUS : N := 43.

(* index of the last '.' in a name, if any *)
Fixpoint last_dot (nm : name) (i : nat) (acc : option nat) : option nat :=
  match nm with
  | [] => acc
  | c :: r => last_dot r (S i) (if c =? DOT then Some i else acc)
  end.

(* std::path::Path::{file_stem, extension} on a file name:
   no '.'            -> (name, None)
   only leading '.'  -> (name, None)            (".chunk" has no extension)
   otherwise split at the last '.'              ("a.b.chunk" -> ("a.b", "chunk"); "x." -> ("x","")) *)
Definition split_ext (nm : name) : name * option name :=
  match last_dot nm 0 None with
  | None => (nm, None)
  | Some O => (nm, None)
  | Some i => (firstn i nm, Some (skipn (S i) nm))
  end.

Definition name_eqb (a b : name) : bool := list_eqb N.eqb a b.

Definition has_immutable_ext (nm : name) : bool :=
  match snd (split_ext nm) with
  | Some e => existsb (name_eqb e) EXTS
  | None => false
  end.

(* fn is_immutable: a regular file whose extension is one of IMMUTABLE_FILE_EXTENSIONS *)
Definition is_immutable (e : entry) : bool :=
  match snd e with KFile _ => has_immutable_ext (fst e) | KDir => false end.

(* u64::from_str: optional leading '+', then one or more ASCII digits, value < 2^64 *)
Fixpoint parse_digits (s : name) (acc : N) : option N :=
  match s with
  | [] => Some acc
  | c :: r => if (48 <=? c) && (c <=? 57)
              then (let v := acc * 10 + (c - 48) in if v <? U64 then parse_digits r v else None)
              else None
  end.
Definition parse_u64 (s : name) : option N :=
  match s with
  | [] => None
  | c :: r => if c =? PLUS then (match r with [] => None | _ => parse_digits r 0 end)
              else parse_digits s 0
  end.

(* an ImmutableFile: (number, file name, content id) *)
Definition ifile := (N * name * N)%type.

(* lexicographic order on byte strings (PathBuf::cmp of two entries of one directory) *)
Fixpoint name_leb (a b : name) : bool :=
  match a, b with
  | [], _ => true
  | _ :: _, [] => false
  | x :: a', y :: b' => if x <? y then true else if y <? x then false else name_leb a' b'
  end.

(* impl Ord for ImmutableFile: number, then path.  Two entries of one directory never share a
   name, so the final tie-break on the content id is unobservable; it only makes [ifile_leb]
   a total order on the model's triples. *)
Definition ifile_leb (a b : ifile) : bool :=
  match a, b with
  | (n1, p1, c1), (n2, p2, c2) =>
      if n1 <? n2 then true else if n2 <? n1 then false
      else if name_eqb p1 p2 then c1 <=? c2 else name_leb p1 p2
  end.

(* ImmutableFile::new for every entry that passes the is_immutable filter, in walk order;
   the first failure (non-numeric stem) fails the whole listing *)
Fixpoint collect (l : listing) : result (list ifile) :=
  match l with
  | [] => Ok []
  | (nm, k) :: r =>
      match k with
      | KFile c =>
          if has_immutable_ext nm then
            match parse_u64 (fst (split_ext nm)) with
            | Some n => rmap (cons (n, nm, c)) (collect r)
            | None => Err
            end
          else collect r
      | KDir => collect r
      end
  end.

(* ImmutableFile::list_all_in_dir *)
Definition list_all (l : listing) : result (list ifile) := rmap (isort ifile_leb) (collect l).

Definition fnum (f : ifile) : N := fst (fst f).
Definition fname (f : ifile) : name := snd (fst f).
Definition fcontent (f : ifile) : N := snd f.

(* fn list_immutable_files_to_process *)
Definition to_process (l : listing) (beacon : N) : result (list ifile) :=
  do fs <- list_all l;
  let kept := filter (fun f => fnum f <=? beacon) fs in
  match last (map Some kept) None with
  | None => Err                                    (* NotEnoughImmutable, nothing found *)
  | Some f => if fnum f <? beacon then Err else Ok kept
  end.

(* digest cache: file name -> hex digest *)
Definition cache := list (name * bt).
Fixpoint cache_get (c : cache) (nm : name) : option bt :=
  match c with
  | [] => None
  | (k, d) :: r => if name_eqb k nm then Some d else cache_get r nm
  end.

(* hex(sha256(content)) *)
Definition file_digest (content : N) : bt := BHex (BHash SHA256 [BLit [content]]).

(* compute_immutables_digests: cached value if any, else hash the file *)
Definition digest_with (c : cache) (f : ifile) : bt :=
  match cache_get c (fname f) with Some d => d | None => file_digest (fcontent f) end.

(* idealised Merkle root of an ordered list of leaves *)
Definition root_of (leaves : list bt) : bt := BHash BLAKE2S_256 leaves.

(* compute_merkle_tree(...).compute_root() *)
Definition compute (l : listing) (beacon : N) (c : cache) : result bt :=
  do fs <- to_process l beacon;
  Ok (root_of (map (digest_with c) fs)).

(* update_cache: store (file name, digest) for the entries that were hashed (insert = overwrite;
   newest first so that [cache_get] sees it) *)
Definition updated_cache (c : cache) (fs : list ifile) : cache :=
  fold_left (fun acc f => match cache_get c (fname f) with
                          | Some _ => acc
                          | None => (fname f, file_digest (fcontent f)) :: acc end) fs c.

(* one computation with a cache provider: result and the cache afterwards (unchanged on error) *)
Definition compute_cached (l : listing) (beacon : N) (c : cache) : result bt * cache :=
  match to_process l beacon with
  | Ok fs => (Ok (root_of (map (digest_with c) fs)), updated_cache c fs)
  | Err => (Err, c)
  | Panic => (Panic, c)
  end.

(* fn list_immutable_files_to_process_for_range: every immutable file whose number lies in lo..=hi;
   an empty selection is not an error *)
Definition to_process_range (l : listing) (lo hi : N) : result (list ifile) :=
  do fs <- list_all l;
  Ok (filter (fun f => (lo <=? fnum f) && (fnum f <=? hi)) fs).

(* compute_digests_for_range with a cache provider: the (file name, digest) entries returned, and the
   cache afterwards *)
Definition compute_range_cached (l : listing) (lo hi : N) (c : cache) : result (list (name * bt)) * cache :=
  match to_process_range l lo hi with
  | Ok fs => (Ok (map (fun f => (fname f, digest_with c f)) fs), updated_cache c fs)
  | Err => (Err, c)
  | Panic => (Panic, c)
  end.

(* a cache history: successive computations over an unchanged directory with one cache provider:
   Merkle trees at beacons and digest lists for ranges (the two operations of ImmutableDigester that
   read and write the cache) *)
Inductive hop := HBeacon (b : N) | HRange (lo hi : N).
Definition hop_cache (l : listing) (h : hop) (c : cache) : cache :=
  match h with
  | HBeacon b => snd (compute_cached l b c)
  | HRange lo hi => snd (compute_range_cached l lo hi c)
  end.
Fixpoint run_history (l : listing) (hs : list hop) (c : cache) : cache :=
  match hs with
  | [] => c
  | h :: r => run_history l r (hop_cache l h c)
  end.

(* ---- correspondence: a batch of scenarios over related directories; observed: which scenarios
   fail, and the equality pattern of the roots of those that succeed ---- *)
Record scenario := { sc_listing : listing; sc_beacon : N; sc_history : list hop;
                     sc_range : option (N * N) }.   (* after the root: digest list of this range, same cache *)

Definition run_scenario (s : scenario) : result bt :=
  fst (compute_cached (sc_listing s) (sc_beacon s) (run_history (sc_listing s) (sc_history s) [])).

(* the digest list served for [sc_range] after the history and the root computation *)
Definition run_scenario_range (s : scenario) : option (result (list (name * bt))) :=
  match sc_range s with
  | None => None
  | Some (lo, hi) =>
      let c := hop_cache (sc_listing s) (HBeacon (sc_beacon s)) (run_history (sc_listing s) (sc_history s) []) in
      Some (fst (compute_range_cached (sc_listing s) lo hi c))
  end.

Definition run (ss : list scenario) : obs :=
  let rs := map run_scenario ss in
  let oks := flat_map (fun r => match r with Ok t => [t] | _ => [] end) rs in
  let ds := flat_map (fun s => match run_scenario_range s with Some d => [d] | None => [] end) ss in
  let dhashes := flat_map (fun d => match d with Ok l => map snd l | _ => [] end) ds in
  OL [ OL (map (fun r => OB (is_ok r)) rs);
       OL (map (fun d => match d with
                         | Ok l => OL [OB true; OL (map (fun p => OLN (fst p)) l)]
                         | _ => OL [OB false] end) ds);
       OLN (eq_pattern (oks ++ dhashes)) ].
