(* C06/Proofs.v — SignerBuilder::new as a function of the registered set. *)
From Coq Require Import Lia Permutation Sorted.
From MV Require Import Base.Prelude Base.SymHash C06.Model C06.Order C06.Tree.
Open Scope N_scope.

Definition ent (s : signer) : entry := mkE (s_vk s) (s_stake s).
Definition wf_signer (s : signer) : Prop := length (s_vk s) = VK_LEN.
(* a party id is listed with one stake (always true of a stake distribution keyed by pool id) *)
Definition consistent (l : list signer) : Prop :=
  forall s s', In s l -> In s' l -> s_party s = s_party s' -> s_stake s = s_stake s'.
Definition stake_sum (l : list entry) : N := fold_right (fun e a => e_stake e + a) 0 l.

(* ---- the stake looked up for a listed signer ---- *)
Lemma sd_lookup_some l p st : sd_lookup (stake_dist l) p = Some st ->
  exists s, In s l /\ s_party s = p /\ s_stake s = st.
Proof.
  induction l as [|s l IH]; cbn [stake_dist map sd_lookup]; [discriminate|].
  fold (stake_dist l). destruct (sd_lookup (stake_dist l) p) eqn:E.
  - intros [= <-]. destruct (IH eq_refl) as (s' & H1 & H2). exists s'. split; [right; exact H1 | exact H2].
  - destruct (N.eqb (s_party s) p) eqn:Ep; [|discriminate]. intros [= <-].
    apply N.eqb_eq in Ep. exists s. repeat split; auto. left; reflexivity.
Qed.

Lemma sd_lookup_in l s : In s l -> exists st, sd_lookup (stake_dist l) (s_party s) = Some st.
Proof.
  induction l as [|x l IH]; intros Hin; [destruct Hin|].
  cbn [stake_dist map sd_lookup]. fold (stake_dist l).
  destruct (sd_lookup (stake_dist l) (s_party s)) eqn:E; [eexists; reflexivity|].
  destruct Hin as [-> | Hin].
  - rewrite N.eqb_refl. eexists; reflexivity.
  - destruct (IH Hin) as [st H]. congruence.
Qed.

Lemma sd_lookup_consistent l s : consistent l -> In s l ->
  sd_lookup (stake_dist l) (s_party s) = Some (s_stake s).
Proof.
  intros Hc Hin. destruct (sd_lookup_in l s Hin) as [st H]. rewrite H. f_equal.
  destruct (sd_lookup_some _ _ _ H) as (s' & H1 & H2 & H3). rewrite <- H3. symmetry. apply Hc; auto.
Qed.

(* ---- the registration fold ---- *)
Definition reg_step (sd : list (N * N)) (acc : result keyreg) (s : signer) : result keyreg :=
  do kr <- acc; kw_register sd kr s.
Definition ereg_step (acc : result keyreg) (e : entry) : result keyreg := do kr <- acc; kr_register kr e.

Lemma reg_fold_entries sd l : forall acc,
  (forall s, In s l -> sd_lookup sd (s_party s) = Some (s_stake s)) ->
  fold_left (reg_step sd) l acc = fold_left ereg_step (map ent l) acc.
Proof.
  induction l as [|s l IH]; intros acc H; [reflexivity|].
  cbn [fold_left map]. rewrite IH by (intros; apply H; right; assumption). f_equal.
  unfold reg_step, ereg_step, kw_register. rewrite (H s) by (left; reflexivity). reflexivity.
Qed.

(* registration succeeds iff no key repeats *)
Fixpoint okregb (es : list entry) (K : list (list N)) : bool :=
  match es with
  | [] => true
  | e :: r => negb (vk_mem (e_vk e) K) && okregb r (e_vk e :: K)
  end.

Lemma ereg_err es : fold_left ereg_step es Err = Err.
Proof. induction es; cbn; auto. Qed.

Lemma ereg_fold es : forall kr,
  fold_left ereg_step es (Ok kr) =
  if okregb es (kr_keys kr)
  then Ok (mkKR (fold_ins es (kr_entries kr)) (rev (map e_vk es) ++ kr_keys kr))
  else Err.
Proof.
  induction es as [|e es IH]; intros kr; cbn [fold_left okregb map rev fold_ins].
  - destruct kr; reflexivity.
  - unfold ereg_step at 2. cbn [rbind]. unfold kr_register.
    destruct (vk_mem (e_vk e) (kr_keys kr)); cbn [negb andb].
    + apply ereg_err.
    + rewrite IH. cbn [kr_keys kr_entries]. rewrite <- app_assoc. reflexivity.
Qed.

Lemma vk_mem_In k K : vk_mem k K = true <-> In k K.
Proof.
  unfold vk_mem. rewrite existsb_exists. split.
  - intros (x & H1 & H2). apply bytes_eqb_eq in H2. subst. exact H1.
  - intros H. exists k. split; [exact H | apply bytes_eqb_eq; reflexivity].
Qed.

Lemma NoDup_app_r {A} (l l' : list A) : NoDup (l ++ l') -> NoDup l'.
Proof. induction l as [|x l IH]; cbn; auto. intros H. inversion H; auto. Qed.

Lemma okregb_spec es : forall K, NoDup K ->
  (okregb es K = true <-> NoDup (rev (map e_vk es) ++ K)).
Proof.
  induction es as [|e es IH]; intros K HK; cbn [okregb map rev].
  - cbn. split; auto.
  - rewrite andb_true_iff, negb_true_iff, <- app_assoc. cbn [app].
    split.
    + intros [H1 H2]. apply IH; [|exact H2]. constructor; [|exact HK].
      intros Hin. apply vk_mem_In in Hin. congruence.
    + intros H.
      assert (HK' : NoDup (e_vk e :: K)).
      { apply NoDup_app_r in H. exact H. }
      split; [| apply IH; assumption].
      inversion HK' as [|? ? Hn _]; subst.
      destruct (vk_mem (e_vk e) K) eqn:E; [|reflexivity]. apply vk_mem_In in E. contradiction.
Qed.

Lemma okregb_nil es : okregb es [] = true <-> NoDup (map e_vk es).
Proof.
  rewrite okregb_spec by constructor. rewrite app_nil_r. split; intros H.
  - apply NoDup_rev in H. rewrite rev_involutive in H. exact H.
  - apply NoDup_rev. exact H.
Qed.

Lemma okregb_perm es es' : Permutation es es' -> okregb es [] = okregb es' [].
Proof.
  intros Hp. apply eq_true_iff_eq. rewrite !okregb_nil.
  split; apply Permutation_NoDup; apply Permutation_map; [exact Hp | symmetry; exact Hp].
Qed.

(* ---- closing ---- *)
Lemma checked_sum_spec l : forall acc, acc < U64 ->
  checked_sum acc l = if acc + stake_sum l <? U64 then Ok (acc + stake_sum l) else Err.
Proof.
  induction l as [|e l IH]; intros acc Ha; cbn [checked_sum stake_sum fold_right].
  - rewrite N.add_0_r. apply N.ltb_lt in Ha. rewrite Ha. reflexivity.
  - fold (stake_sum l). destruct (acc + e_stake e <? U64) eqn:E.
    + apply N.ltb_lt in E. rewrite IH by exact E. rewrite N.add_assoc. reflexivity.
    + apply N.ltb_ge in E. destruct (acc + (e_stake e + stake_sum l) <? U64) eqn:E2; [|reflexivity].
      apply N.ltb_lt in E2. lia.
Qed.

Lemma stake_sum_perm l l' : Permutation l l' -> stake_sum l = stake_sum l'.
Proof. unfold stake_sum. induction 1; cbn [fold_right]; [reflexivity | lia | lia | congruence]. Qed.

(* the function SignerBuilder::new computes, in terms of the set of registered entries *)
Definition close_entries (es : list entry) : result closed :=
  if okregb es [] then
    let srt := fold_ins es [] in
    if stake_sum srt <? U64 then
      if stake_sum srt =? 0 then Err else Ok (mkC srt (stake_sum srt))
    else Err
  else Err.

Lemma builder_spec l : Forall wf_signer l -> consistent l -> l <> [] ->
  signer_builder l = close_entries (map ent l).
Proof.
  intros Hwf Hc Hne. unfold signer_builder. destruct l as [|s0 l0]; [contradiction|].
  set (l := s0 :: l0) in *. change (fold_left _ l (Ok kr_init)) with (fold_left (reg_step (stake_dist l)) l (Ok kr_init)).
  rewrite reg_fold_entries by (intros; apply sd_lookup_consistent; assumption).
  rewrite ereg_fold. cbn [kr_keys kr_entries kr_init]. unfold close_entries.
  destruct (okregb (map ent l) []); [|reflexivity].
  cbn [rbind]. unfold kr_close. cbn [kr_entries].
  assert (Hwe : Forall wf (map ent l)).
  { rewrite Forall_forall in *. intros e He. apply in_map_iff in He as (s & <- & Hs). apply Hwf. exact Hs. }
  destruct (fold_ins_spec (map ent l) [] Hwe (Forall_nil _) (SSorted_nil _)) as (Hs & Hw & _).
  rewrite checked_sum_spec by (cbv; reflexivity). rewrite N.add_0_l.
  destruct (stake_sum (fold_ins (map ent l) []) <? U64); [|reflexivity].
  cbn [rbind]. rewrite bt_collect_sorted by assumption. reflexivity.
Qed.

Lemma consistent_perm l l' : Permutation l l' -> consistent l -> consistent l'.
Proof.
  intros Hp Hc s s' H1 H2. apply Hc; eapply Permutation_in; try eassumption; symmetry; assumption.
Qed.

Theorem builder_perm l l' : Forall wf_signer l -> consistent l -> Permutation l l' ->
  signer_builder l = signer_builder l'.
Proof.
  intros Hwf Hc Hp. destruct l as [|s0 l0].
  - apply Permutation_nil in Hp. subst. reflexivity.
  - assert (Hne' : l' <> []) by (intros ->; symmetry in Hp; apply Permutation_nil in Hp; discriminate).
    rewrite (builder_spec (s0 :: l0)) by (auto; discriminate).
    rewrite (builder_spec l'); [| eapply Permutation_Forall; eauto | eapply consistent_perm; eauto | exact Hne'].
    assert (Hpe : Permutation (map ent (s0 :: l0)) (map ent l')) by (apply Permutation_map; exact Hp).
    unfold close_entries. rewrite (okregb_perm _ _ Hpe).
    assert (Hwe : Forall wf (map ent (s0 :: l0))).
    { rewrite Forall_forall in *. intros e He. apply in_map_iff in He as (s & <- & Hs). apply Hwf. exact Hs. }
    rewrite (fold_ins_perm _ _ Hwe Hpe). reflexivity.
Qed.

(* ---- what a successful close contains ---- *)
Lemma builder_ok l c : Forall wf_signer l -> consistent l -> signer_builder l = Ok c ->
  ssorted (c_entries c) /\
  (forall e, In e (c_entries c) <-> In e (map ent l)) /\
  Permutation (c_entries c) (map ent l) /\
  NoDup (map s_vk l) /\
  c_total c = stake_sum (map ent l) /\ 0 < c_total c < U64.
Proof.
  intros Hwf Hc H. destruct l as [|s0 l0]; [discriminate|].
  rewrite builder_spec in H by (auto; discriminate). unfold close_entries in H.
  set (l := s0 :: l0) in *.
  assert (Hwe : Forall wf (map ent l)).
  { rewrite Forall_forall in *. intros e He. apply in_map_iff in He as (s & <- & Hs). apply Hwf. exact Hs. }
  destruct (fold_ins_spec (map ent l) [] Hwe (Forall_nil _) (SSorted_nil _)) as (Hs & Hw & Hm).
  destruct (okregb (map ent l) []) eqn:Eok; [|discriminate].
  apply okregb_nil in Eok. rewrite map_map in Eok. cbn [ent e_vk] in Eok.
  destruct (stake_sum (fold_ins (map ent l) []) <? U64) eqn:E1; [|discriminate].
  destruct (stake_sum (fold_ins (map ent l) []) =? 0) eqn:E2; [discriminate|].
  injection H as <-. cbn [c_entries c_total].
  assert (Hmem : forall e, In e (fold_ins (map ent l) []) <-> In e (map ent l)).
  { intros e. rewrite Hm. cbn. intuition. }
  assert (Hperm : Permutation (fold_ins (map ent l) []) (map ent l)).
  { apply NoDup_Permutation; [apply ssorted_NoDup; exact Hs | | exact Hmem].
    apply (NoDup_map_inv e_vk). rewrite map_map. exact Eok. }
  apply N.ltb_lt in E1. apply N.eqb_neq in E2.
  repeat split; auto; try (apply Hmem; assumption).
  - apply stake_sum_perm. exact Hperm.
  - apply N.neq_0_lt_0. exact E2.
Qed.

Lemma stake_le_sum e l : In e l -> e_stake e <= stake_sum l.
Proof.
  induction l as [|x l IH]; intros Hin; [destruct Hin|].
  cbn [stake_sum fold_right]. fold (stake_sum l). destruct Hin as [-> | H]; [lia|].
  specialize (IH H). lia.
Qed.

Lemma position_spec e l : forall i, NoDup l -> In e l ->
  exists k, position e l i = Some (i + N.of_nat k) /\ nth_error l k = Some e.
Proof.
  induction l as [|y l IH]; intros i Hnd Hin; [destruct Hin|].
  cbn [position]. destruct (entry_eqb y e) eqn:E.
  - apply entry_eqb_eq in E. subst. exists O. cbn. rewrite N.add_0_r. auto.
  - inversion Hnd; subst. destruct Hin as [-> | Hin]; [rewrite (proj2 (entry_eqb_eq e e) eq_refl) in E; discriminate|].
    destruct (IH (i + 1) H2 Hin) as (k & H3 & H4). exists (S k). split; [|exact H4].
    rewrite H3. f_equal. lia.
Qed.

Lemma position_sound e l : forall i j, position e l i = Some j ->
  exists k, j = i + N.of_nat k /\ nth_error l k = Some e.
Proof.
  induction l as [|y l IH]; intros i j H; [discriminate|].
  cbn [position] in H. destruct (entry_eqb y e) eqn:E.
  - apply entry_eqb_eq in E. injection H as <-. subst. exists O. cbn. split; [lia | reflexivity].
  - destruct (IH _ _ H) as (k & -> & Hk). exists (S k). split; [lia | exact Hk].
Qed.

Theorem slot_spec l c s : Forall wf_signer l -> consistent l -> signer_builder l = Ok c -> In s l ->
  exists k, signer_slot c s = Some (N.of_nat k) /\ nth_error (c_entries c) k = Some (ent s).
Proof.
  intros Hwf Hc H Hin. destruct (builder_ok _ _ Hwf Hc H) as (Hs & Hm & _).
  unfold signer_slot, slot_of. fold (ent s).
  destruct (position_spec (ent s) (c_entries c) 0 (ssorted_NoDup _ Hs)) as (k & H1 & H2).
  - apply Hm. apply in_map. exact Hin.
  - exists k. rewrite N.add_0_l in H1. auto.
Qed.

Theorem slot_inj c s s' j : signer_slot c s = Some j -> signer_slot c s' = Some j -> ent s = ent s'.
Proof.
  unfold signer_slot, slot_of. fold (ent s) (ent s'). intros H H'.
  apply position_sound in H as (k & -> & Hk). apply position_sound in H' as (k' & E & Hk').
  assert (k = k') by lia. subst. congruence.
Qed.

(* ---- the aggregate key determines the registered set ---- *)
Theorem avk_inj l l' a a' : Forall wf_signer l -> Forall wf_signer l' -> consistent l -> consistent l' ->
  compute_avk l = Ok a -> compute_avk l' = Ok a' ->
  a_root a = a_root a' -> a_n a = a_n a' ->
  Permutation (map ent l) (map ent l').
Proof.
  unfold compute_avk. intros Hwf Hwf' Hc Hc' H H' Hr Hn.
  destruct (signer_builder l) as [c| |] eqn:Eb; try discriminate.
  destruct (signer_builder l') as [c'| |] eqn:Eb'; try discriminate.
  cbn [rbind] in H, H'.
  destruct (builder_ok _ _ Hwf Hc Eb) as (_ & Hm & Hp & _ & Ht & Hb).
  destruct (builder_ok _ _ Hwf' Hc' Eb') as (_ & Hm' & Hp' & _ & Ht' & Hb').
  unfold avk_of in H, H'.
  destruct (c_entries c) as [|e0 es0] eqn:Ec; [discriminate|].
  destruct (c_entries c') as [|e0' es0'] eqn:Ec'; [discriminate|].
  rewrite <- Ec in *. rewrite <- Ec' in *. clear Ec Ec'.
  injection H as <-. injection H' as <-. cbn [a_root a_n] in Hr, Hn.
  apply Nat2N.inj in Hn.
  apply mt_root_inj in Hr; [|rewrite !map_length; exact Hn].
  assert (Hent : c_entries c = c_entries c').
  { assert (Hall : forall e, In e (c_entries c) -> wf e /\ e_stake e < U64).
    { intros e He. split.
      - apply Hm in He. apply in_map_iff in He as (s & <- & Hs). rewrite Forall_forall in Hwf. apply Hwf. exact Hs.
      - apply Hm in He. apply stake_le_sum in He. lia. }
    assert (Hall' : forall e, In e (c_entries c') -> wf e /\ e_stake e < U64).
    { intros e He. split.
      - apply Hm' in He. apply in_map_iff in He as (s & <- & Hs). rewrite Forall_forall in Hwf'. apply Hwf'. exact Hs.
      - apply Hm' in He. apply stake_le_sum in He. lia. }
    clear -Hr Hall Hall'. revert Hr Hall Hall'. generalize (c_entries c') as y. generalize (c_entries c) as x.
    induction x as [|e x IH]; intros [|e' y] Hr Hx Hy; try discriminate; [reflexivity|].
    cbn [map] in Hr. injection Hr as Hh Hr.
    assert (e = e').
    { destruct (Hx e (or_introl eq_refl)) as [W1 S1]. destruct (Hy e' (or_introl eq_refl)) as [W2 S2].
      apply leaf_hash_inj; auto. unfold leaf_hash. rewrite Hh. reflexivity. }
    subst. f_equal. apply IH; auto; intros; [apply Hx | apply Hy]; right; assumption. }
  rewrite <- Hp, <- Hp', Hent. reflexivity.
Qed.
