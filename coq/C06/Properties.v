(* C06/Properties.v — the property theorems, nothing else.
   C06: the aggregate verification key, the total stake and every signer slot are
   functions of the *set* of registered (verification key, stake) pairs; distinct
   sets give distinct keys.  Hashing is ideal (H-inj, Base/SymHash.v).
   [wf_signer]: a verification key is 96 bytes.  [consistent]: a pool id is listed
   with one stake (the list comes from a stake distribution keyed by pool id). *)
From Coq Require Import Permutation.
From MV Require Import Base.Prelude Base.SymHash C06.Model C06.Order C06.Tree C06.Proofs.
Open Scope N_scope.

(* order of arrival is irrelevant: same closed registration (or the same failure),
   hence the same aggregate key and the same slot for every signer *)
Theorem C06_perm : forall l l',
  Forall wf_signer l -> consistent l -> Permutation l l' ->
  signer_builder l = signer_builder l' /\
  compute_avk l = compute_avk l' /\
  forall s, rmap (fun c => signer_slot c s) (signer_builder l) = rmap (fun c => signer_slot c s) (signer_builder l').
Proof.
  intros l l' Hwf Hc Hp. pose proof (builder_perm l l' Hwf Hc Hp) as H.
  unfold compute_avk. rewrite H. repeat split; reflexivity.
Qed.

(* every listed signer gets the slot at which its (key, stake) sits in the closed
   registration; two signers share a slot only if they are the same entry *)
Theorem C06_slot : forall l c s,
  Forall wf_signer l -> consistent l -> signer_builder l = Ok c -> In s l ->
  (exists k, signer_slot c s = Some (N.of_nat k) /\ nth_error (c_entries c) k = Some (ent s)) /\
  (forall s' j, signer_slot c s = Some j -> signer_slot c s' = Some j -> ent s = ent s').
Proof.
  intros l c s Hwf Hc H Hin. split; [eapply slot_spec; eauto | intros s' j; apply slot_inj].
Qed.

(* the total is the sum of the listed stakes, positive and below 2^64; the closed
   registration is the strictly (stake, key)-sorted arrangement of exactly the listed entries *)
Theorem C06_total : forall l c,
  Forall wf_signer l -> consistent l -> signer_builder l = Ok c ->
  c_total c = stake_sum (map ent l) /\ 0 < c_total c < U64 /\
  ssorted (c_entries c) /\ Permutation (c_entries c) (map ent l) /\ NoDup (map s_vk l).
Proof.
  intros l c Hwf Hc H. destruct (builder_ok l c Hwf Hc H) as (H1 & _ & H3 & H4 & H5 & H6). auto.
Qed.

(* the registration fails exactly when the list is empty, a key repeats, or the total is 0 or overflows *)
Theorem C06_failure : forall l,
  Forall wf_signer l -> consistent l ->
  signer_builder l = close_entries (map ent l) \/ l = [].
Proof.
  intros l Hwf Hc. destruct l as [|s l]; [right; reflexivity | left; apply builder_spec; auto; discriminate].
Qed.

(* distinct registered sets yield distinct aggregate keys: (root, nr_leaves) determines the set *)
Theorem C06_inj : forall l l' a a',
  Forall wf_signer l -> Forall wf_signer l' -> consistent l -> consistent l' ->
  compute_avk l = Ok a -> compute_avk l' = Ok a' ->
  a_root a = a_root a' -> a_n a = a_n a' ->
  Permutation (map ent l) (map ent l').
Proof. exact avk_inj. Qed.

(* the Merkle commitment alone: root and number of leaves determine the leaf sequence *)
Theorem C06_tree_inj : forall L L', length L = length L' -> mt_root L = mt_root L' -> L = L'.
Proof. exact mt_root_inj. Qed.

(* non-vacuity: three signers, two with equal stake and keys sharing 95 bytes; all six orders
   give the same key with total 12, and the slots are (stake, key) ranks *)
Example C06_ex :
  let a := mkS 1 (key_of_N 7) 5 in let b := mkS 2 (key_of_N 6) 5 in let c := mkS 3 (key_of_N 9) 2 in
  Forall wf_signer [a; b; c] /\ consistent [a; b; c] /\
  compute_avk [a; b; c] = compute_avk [c; b; a] /\
  (exists k, compute_avk [b; a; c] = Ok k /\ a_total k = 12 /\ a_n k = 3) /\
  rmap (fun r => map (signer_slot r) [a; b; c]) (signer_builder [b; c; a]) = Ok [Some 2; Some 1; Some 0].
Proof.
  cbv zeta. split; [repeat constructor|]. split.
  - intros s s' [<-|[<-|[<-|[]]]] [<-|[<-|[<-|[]]]]; cbn; intros; try reflexivity; discriminate.
  - split; [vm_compute; reflexivity|]. split; [eexists; split; [vm_compute; reflexivity| split; reflexivity] | vm_compute; reflexivity].
Qed.
