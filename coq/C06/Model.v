(* C06/Model.v — one aggregate key from one registration set.  Executable definitions only.
   Source: mithril-stm/src/protocol/key_registration/{register,registration_entry,
             closed_registration_entry,concatenation_registration_entry}.rs,
           mithril-stm/src/signature_scheme/bls_multi_signature/verification_key.rs (Ord/Eq),
           mithril-stm/src/membership_commitment/merkle_tree/{tree,leaf}.rs (MerkleTree::new),
           mithril-stm/src/proof_system/concatenation/aggregate_key.rs,
           mithril-stm/src/protocol/participant/initializer.rs (signer index),
           mithril-common/src/crypto_helper/cardano/key_certification.rs (KeyRegWrapper),
           mithril-common/src/protocol/signer_builder.rs (SignerBuilder::new).
   A verification key is its 96-byte compressed form (a list of bytes); hashing is
   ideal (Base/SymHash.v).  The certification checks of KeyRegWrapper::register
   (operational certificate, KES signature, proof of possession) are the subject
   of C07 and are taken as passed here: a [signer] is an honest SignerWithStake. *)
From MV Require Import Base.Prelude Base.SymHash.
Open Scope N_scope.

(* ---- bytes ---- *)
Definition VK_LEN : nat := 96.

(* the [n] low-order bytes of x, big-endian (u64::to_be_bytes for n = 8) *)
Fixpoint be_bytes (n : nat) (x : N) : list N :=
  match n with
  | O => []
  | S n' => be_bytes n' (x / 256) ++ [x mod 256]
  end.
(* harness notation: a key given as the 768-bit number its bytes spell
   (same bytes as [be_bytes VK_LEN k], computed with shifts: linear instead of quadratic in the width) *)
Fixpoint be_bytes_acc (n : nat) (x : N) (acc : list N) : list N :=
  match n with
  | O => acc
  | S n' => be_bytes_acc n' (N.shiftr x 8) (N.land x 255 :: acc)
  end.
Definition key_of_N (k : N) : list N := be_bytes_acc VK_LEN k [].

Definition bytes_eqb (a b : list N) : bool := list_eqb N.eqb a b.

(* ---- entries and their order ---- *)
(* RegistrationEntry(vk, stake) / ClosedRegistrationEntry{vk, stake} / MerkleTreeConcatenationLeaf(vk, stake) *)
Record entry := mkE { e_vk : list N; e_stake : N }.

(* BlsVerificationKey::compare_verification_keys: first differing byte of the zipped byte strings *)
Fixpoint cmp_bytes (a b : list N) : comparison :=
  match a, b with
  | x :: a', y :: b' => match N.compare x y with Eq => cmp_bytes a' b' | c => c end
  | _, _ => Eq
  end.

(* Ord for RegistrationEntry and ClosedRegistrationEntry: stake, then key *)
Definition cmp_entry (a b : entry) : comparison :=
  match N.compare (e_stake a) (e_stake b) with
  | Eq => cmp_bytes (e_vk a) (e_vk b)
  | c => c
  end.

(* derived PartialEq of the entry types: key (point equality = equality of compressed bytes) and stake *)
Definition entry_eqb (a b : entry) : bool := bytes_eqb (e_vk a) (e_vk b) && N.eqb (e_stake a) (e_stake b).

(* BTreeSet<entry>::insert on the in-order contents: an element comparing Equal is kept, not replaced *)
Fixpoint bt_insert (x : entry) (l : list entry) : list entry :=
  match l with
  | [] => [x]
  | y :: r =>
      match cmp_entry x y with
      | Lt => x :: l
      | Eq => l
      | Gt => y :: bt_insert x r
      end
  end.
(* iterator.collect::<BTreeSet<_>>() *)
Definition bt_collect (l : list entry) : list entry := fold_left (fun acc e => bt_insert e acc) l [].

(* ---- KeyRegistration ---- *)
Record keyreg := mkKR { kr_entries : list entry;          (* BTreeSet<RegistrationEntry>, in order *)
                        kr_keys : list (list N) }.        (* HashSet<VerificationKeyForConcatenation> *)
Definition kr_init : keyreg := mkKR [] [].
Definition vk_mem (k : list N) (ks : list (list N)) : bool := existsb (bytes_eqb k) ks.

(* KeyRegistration::register_by_entry *)
Definition kr_register (kr : keyreg) (e : entry) : result keyreg :=
  if vk_mem (e_vk e) (kr_keys kr) then Err
  else Ok (mkKR (bt_insert e (kr_entries kr)) (e_vk e :: kr_keys kr)).

(* try_fold(0u64, checked_add): an overflow is a returned error *)
Fixpoint checked_sum (acc : N) (l : list entry) : result N :=
  match l with
  | [] => Ok acc
  | e :: r => if acc + e_stake e <? U64 then checked_sum (acc + e_stake e) r else Err
  end.

Record closed := mkC { c_entries : list entry;            (* BTreeSet<ClosedRegistrationEntry>, in order *)
                       c_total : N }.

(* KeyRegistration::close_registration *)
Definition kr_close (kr : keyreg) : result closed :=
  do t <- checked_sum 0 (kr_entries kr);
  if t =? 0 then Err else Ok (mkC (bt_collect (kr_entries kr)) t).

(* ---- Merkle tree commitment (MerkleTree::new, bottom-up over the heap levels) ---- *)
(* MerkleTreeConcatenationLeaf::to_bytes: 96 key bytes then the stake, big-endian *)
Definition leaf_bytes (e : entry) : list N := e_vk e ++ be_bytes 8 (e_stake e).
Definition leaf_hash (e : entry) : bt := BHash BLAKE2B_256 [BLit (leaf_bytes e)].
Definition zpad : bt := BHash BLAKE2B_256 [BLit [0]].           (* D::digest([0u8]) *)
Definition node (l r : bt) : bt := BHash BLAKE2B_256 [l; r].

(* number of doublings from p to reach n: depth n = log2 (n.next_power_of_two()) *)
Fixpoint depth_aux (fuel p n : nat) : nat :=
  match fuel with
  | O => O
  | S f => if Nat.leb n p then O else S (depth_aux f (2 * p) n)
  end.
Definition depth (n : nat) : nat := depth_aux n 1 n.
Definition np2 (n : nat) : nat := 2 ^ depth n.                   (* usize::next_power_of_two *)

(* one heap level from the level below: nodes[i] = H(nodes[2i+1] || nodes[2i+2]) *)
Fixpoint pair_up (l : list bt) : list bt :=
  match l with
  | a :: b :: r => node a b :: pair_up r
  | _ => []
  end.
Fixpoint levels_up (d : nat) (l : list bt) : list bt :=
  match d with O => l | S d' => levels_up d' (pair_up l) end.
(* the leaf level is the n leaf digests followed by z for every child index >= num_nodes *)
Definition leaf_level (leaves : list bt) : list bt :=
  leaves ++ repeat zpad (np2 (length leaves) - length leaves).
Definition mt_root (leaves : list bt) : bt :=
  hd zpad (levels_up (depth (length leaves)) (leaf_level leaves)).

(* AggregateVerificationKeyForConcatenation: (root, nr_leaves) and the total stake *)
Record avk := mkAvk { a_root : bt; a_n : N; a_total : N }.
(* From<&ClosedKeyRegistration>; MerkleTree::new asserts n > 0 *)
Definition avk_of (c : closed) : result avk :=
  match c_entries c with
  | [] => Panic
  | es => Ok (mkAvk (mt_root (map leaf_hash es)) (N.of_nat (length es)) (c_total c))
  end.

(* ClosedKeyRegistration::get_signer_index_for_registration: iter().position(|r| r == entry) *)
Fixpoint position (e : entry) (l : list entry) (i : N) : option N :=
  match l with
  | [] => None
  | y :: r => if entry_eqb y e then Some i else position e r (i + 1)
  end.
Definition slot_of (c : closed) (e : entry) : option N := position e (c_entries c) 0.

(* ---- KeyRegWrapper / SignerBuilder::new ---- *)
(* an honest SignerWithStake: pool id (claimed party id = the one derived from the
   operational certificate), verification key, stake *)
Record signer := mkS { s_party : N; s_vk : list N; s_stake : N }.

(* HashMap::from_iter(stake distribution): a later pair overwrites an earlier one *)
Fixpoint sd_lookup (sd : list (N * N)) (p : N) : option N :=
  match sd with
  | [] => None
  | (q, st) :: r =>
      match sd_lookup r p with
      | Some x => Some x
      | None => if N.eqb q p then Some st else None
      end
  end.

(* KeyRegWrapper::register after the certification checks: the stake is the distribution's *)
Definition kw_register (sd : list (N * N)) (kr : keyreg) (s : signer) : result keyreg :=
  match sd_lookup sd (s_party s) with
  | Some st => kr_register kr (mkE (s_vk s) st)
  | None => Err
  end.

Definition stake_dist (l : list signer) : list (N * N) := map (fun s => (s_party s, s_stake s)) l.

(* SignerBuilder::new(signers, params): registers in caller order, then closes *)
Definition signer_builder (l : list signer) : result closed :=
  match l with
  | [] => Err
  | _ =>
      do kr <- fold_left (fun acc s => do kr <- acc; kw_register (stake_dist l) kr s) l (Ok kr_init);
      kr_close kr
  end.

(* SignerBuilder::compute_aggregate_verification_key (also what a signer's clerk and the
   client's stake-distribution message recomputation yield: the same call chain) *)
Definition compute_avk (l : list signer) : result avk := do c <- signer_builder l; avk_of c.

(* Initializer::try_create_signer: the initializer holds (vk, the stake it was set up with) *)
Definition signer_slot (c : closed) (s : signer) : option N := slot_of c (mkE (s_vk s) (s_stake s)).

(* ---- observation for the correspondence channel ---- *)
(* one case = a table of keys and several signer lists (index lists into the table:
   permutations and edits of a base set).  Observed per list: outcome, number of
   leaves, total stake, every listed signer's slot; plus the equality pattern of the
   aggregate keys over all lists of the case. *)
Definition avk_term (r : result avk) : bt :=
  match r with
  | Ok a => BHash 99 [a_root a; BLit [a_n a]; BLit [a_total a]]
  | _ => BLit []
  end.

Definition mk_signers (kb : list (list N)) (l : list (N * (N * N))) : list signer :=
  map (fun t => mkS (fst t) (nth (N.to_nat (fst (snd t))) kb []) (snd (snd t))) l.

Definition obs_list (l : list signer) : obs :=
  match signer_builder l with
  | Ok c =>
      match avk_of c with
      | Ok a => OL [OZ 0; ON (a_n a); ON (a_total a);
                    OL (map (fun s => OOpt (option_map ON (signer_slot c s))) l)]
      | Err => OL [OZ 1]
      | Panic => OL [OZ 2]
      end
  | Err => OL [OZ 1]
  | Panic => OL [OZ 2]
  end.

(* lists are (party, (key index, stake)); the last component is the harness's
   "all code paths computed the same key" flag, which is true by construction here
   (one function) *)
Definition run (keys : list N) (lists : list (list (N * (N * N)))) : obs :=
  let kb := map key_of_N keys in
  let ls := map (mk_signers kb) lists in
  OL [OLN (eq_pattern (map (fun l => avk_term (compute_avk l)) ls)); OL (map obs_list ls); OZ 1].
