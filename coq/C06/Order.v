(* C06/Order.v — the (stake, key bytes) order is a strict total order on well-formed
   entries; BTreeSet insertion keeps a strictly sorted list; a strictly sorted list
   is determined by its set of members. *)
From Coq Require Import Lia Permutation Sorted.
From MV Require Import Base.Prelude Base.SymHash C06.Model.
Open Scope N_scope.

Definition wf (e : entry) : Prop := length (e_vk e) = VK_LEN.

(* ---- byte strings ---- *)
Lemma bytes_eqb_eq a b : bytes_eqb a b = true <-> a = b.
Proof. apply list_eqb_N_eq. Qed.

Lemma cmp_bytes_refl a : cmp_bytes a a = Eq.
Proof. induction a as [|x a IH]; cbn [cmp_bytes]; [reflexivity|]. rewrite N.compare_refl. exact IH. Qed.

Lemma cmp_bytes_eq a : forall b, length a = length b -> cmp_bytes a b = Eq -> a = b.
Proof.
  induction a as [|x a IH]; intros [|y b] Hl H; try discriminate; [reflexivity|].
  cbn [cmp_bytes] in H. destruct (N.compare x y) eqn:E; try discriminate.
  apply N.compare_eq in E. subst. f_equal. apply IH; [injection Hl; auto | exact H].
Qed.

Lemma cmp_bytes_antisym a : forall b, cmp_bytes b a = CompOpp (cmp_bytes a b).
Proof.
  induction a as [|x a IH]; intros [|y b]; cbn [cmp_bytes]; try reflexivity.
  rewrite (N.compare_antisym x y). destruct (N.compare x y); cbn; auto.
Qed.

Lemma cmp_bytes_trans a : forall b c, length a = length b -> length b = length c ->
  cmp_bytes a b = Lt -> cmp_bytes b c = Lt -> cmp_bytes a c = Lt.
Proof.
  induction a as [|x a IH]; intros [|y b] [|z c] Hab Hbc H1 H2; try discriminate.
  cbn [cmp_bytes] in *.
  destruct (N.compare x y) eqn:Exy; try discriminate;
  destruct (N.compare y z) eqn:Eyz; try discriminate.
  - apply N.compare_eq in Exy, Eyz. subst. rewrite N.compare_refl.
    cbn in Hab, Hbc. apply (IH b c); [lia | lia | exact H1 | exact H2].
  - apply N.compare_eq in Exy. subst. rewrite Eyz. reflexivity.
  - apply N.compare_eq in Eyz. subst. rewrite Exy. reflexivity.
  - rewrite N.compare_lt_iff in Exy, Eyz.
    assert (x < z) by lia. apply N.compare_lt_iff in H. rewrite H. reflexivity.
Qed.

(* ---- entries ---- *)
Lemma entry_eta e : mkE (e_vk e) (e_stake e) = e.
Proof. destruct e; reflexivity. Qed.

Lemma cmp_entry_refl a : cmp_entry a a = Eq.
Proof. unfold cmp_entry. rewrite N.compare_refl. apply cmp_bytes_refl. Qed.

Lemma cmp_entry_eq a b : wf a -> wf b -> cmp_entry a b = Eq -> a = b.
Proof.
  unfold wf, cmp_entry. intros Ha Hb H.
  destruct (N.compare (e_stake a) (e_stake b)) eqn:E; try discriminate.
  apply N.compare_eq in E. apply cmp_bytes_eq in H; [|congruence].
  destruct a, b; cbn in *; subst; reflexivity.
Qed.

Lemma cmp_entry_antisym a b : cmp_entry b a = CompOpp (cmp_entry a b).
Proof.
  unfold cmp_entry. rewrite (N.compare_antisym (e_stake a) (e_stake b)).
  destruct (N.compare (e_stake a) (e_stake b)); cbn; auto. apply cmp_bytes_antisym.
Qed.

Lemma cmp_entry_trans a b c : wf a -> wf b -> wf c ->
  cmp_entry a b = Lt -> cmp_entry b c = Lt -> cmp_entry a c = Lt.
Proof.
  unfold wf, cmp_entry. intros Ha Hb Hc H1 H2.
  destruct (N.compare (e_stake a) (e_stake b)) eqn:Eab; try discriminate;
  destruct (N.compare (e_stake b) (e_stake c)) eqn:Ebc; try discriminate.
  - apply N.compare_eq in Eab, Ebc. rewrite Eab, Ebc, N.compare_refl.
    apply (cmp_bytes_trans _ (e_vk b)); [congruence | congruence | exact H1 | exact H2].
  - apply N.compare_eq in Eab. rewrite Eab, Ebc. reflexivity.
  - apply N.compare_eq in Ebc. rewrite <- Ebc, Eab. reflexivity.
  - rewrite N.compare_lt_iff in Eab, Ebc.
    assert (H : e_stake a < e_stake c) by lia. apply N.compare_lt_iff in H. rewrite H. reflexivity.
Qed.

Lemma cmp_entry_irrefl a : cmp_entry a a <> Lt.
Proof. rewrite cmp_entry_refl. discriminate. Qed.

Lemma cmp_entry_gt_lt a b : cmp_entry a b = Gt -> cmp_entry b a = Lt.
Proof. intros H. rewrite cmp_entry_antisym, H. reflexivity. Qed.

Lemma entry_eqb_eq a b : entry_eqb a b = true <-> a = b.
Proof.
  unfold entry_eqb. rewrite andb_true_iff, bytes_eqb_eq, N.eqb_eq. split.
  - intros [H1 H2]. destruct a, b; cbn in *; subst; reflexivity.
  - intros ->. split; reflexivity.
Qed.

(* ---- strictly sorted lists ---- *)
Definition lt_entry (a b : entry) : Prop := cmp_entry a b = Lt.
Definition ssorted (l : list entry) : Prop := StronglySorted lt_entry l.

Lemma insert_In x l : Forall wf (x :: l) -> forall y, In y (bt_insert x l) <-> y = x \/ In y l.
Proof.
  intros Hwf y. induction l as [|z r IH]; cbn [bt_insert].
  - cbn. intuition.
  - inversion Hwf as [|? ? Hx Hl]; subst. inversion Hl as [|? ? Hz Hr]; subst.
    destruct (cmp_entry x z) eqn:E.
    + apply cmp_entry_eq in E; auto. subst. cbn. intuition.
    + cbn. intuition.
    + cbn [In]. rewrite IH by (constructor; assumption). intuition.
Qed.

Lemma insert_sorted x l : Forall wf (x :: l) -> ssorted l -> ssorted (bt_insert x l).
Proof.
  intros Hwf Hs. induction Hs as [|z r Hs IH Hz]; cbn [bt_insert].
  - constructor; constructor.
  - inversion Hwf as [|? ? Hx Hl]; subst. inversion Hl as [|? ? Hwz Hr]; subst.
    destruct (cmp_entry x z) eqn:E.
    + constructor; assumption.
    + constructor; [constructor; assumption|].
      constructor; [exact E|].
      rewrite Forall_forall in *. intros w Hw. eapply cmp_entry_trans; eauto.
      apply Hz. exact Hw.
    + constructor; [apply IH; constructor; assumption|].
      rewrite Forall_forall. intros w Hw.
      apply insert_In in Hw; [|constructor; assumption].
      destruct Hw as [-> | Hw]; [apply cmp_entry_gt_lt; exact E|].
      rewrite Forall_forall in Hz. apply Hz. exact Hw.
Qed.

Lemma insert_wf x l : Forall wf (x :: l) -> Forall wf (bt_insert x l).
Proof.
  intros H. rewrite Forall_forall. intros y Hy. apply insert_In in Hy; [|exact H].
  rewrite Forall_forall in H. apply H. cbn. intuition.
Qed.

Definition fold_ins (l acc : list entry) : list entry := fold_left (fun acc e => bt_insert e acc) l acc.

Lemma fold_ins_spec l : forall acc, Forall wf l -> Forall wf acc -> ssorted acc ->
  ssorted (fold_ins l acc) /\ Forall wf (fold_ins l acc) /\
  (forall y, In y (fold_ins l acc) <-> In y l \/ In y acc).
Proof.
  induction l as [|x l IH]; intros acc Hl Ha Hs; cbn [fold_ins fold_left].
  - repeat split; auto; cbn; intuition.
  - inversion Hl as [|? ? Hx Hl']; subst.
    assert (Hxa : Forall wf (x :: acc)) by (constructor; assumption).
    destruct (IH (bt_insert x acc) Hl' (insert_wf _ _ Hxa) (insert_sorted _ _ Hxa Hs)) as (H1 & H2 & H3).
    repeat split; auto.
    + intros Hy. apply H3 in Hy. destruct Hy as [Hy | Hy]; [left; right; exact Hy|].
      apply insert_In in Hy; auto. cbn. intuition.
    + intros Hy. apply H3. cbn in Hy. rewrite insert_In by exact Hxa. intuition.
Qed.

Lemma ssorted_NoDup l : ssorted l -> NoDup l.
Proof.
  induction 1 as [|x l Hs IH Hx]; constructor; auto.
  intros Hin. rewrite Forall_forall in Hx. apply (cmp_entry_irrefl x). apply Hx. exact Hin.
Qed.

(* a strictly sorted list is determined by its members *)
Lemma ssorted_unique l : forall l', ssorted l -> ssorted l' ->
  (forall y, In y l <-> In y l') -> l = l'.
Proof.
  induction l as [|x l IH]; intros [|x' l'] Hs Hs' Hm.
  - reflexivity.
  - exfalso. apply (proj2 (Hm x')). left; reflexivity.
  - exfalso. apply (proj1 (Hm x)). left; reflexivity.
  - inversion Hs as [|? ? Hsl Hx]; subst. inversion Hs' as [|? ? Hsl' Hx']; subst.
    rewrite Forall_forall in Hx, Hx'.
    assert (x = x').
    { destruct (proj1 (Hm x) (or_introl eq_refl)) as [E | Hin]; [auto|].
      destruct (proj2 (Hm x') (or_introl eq_refl)) as [E | Hin']; [auto|].
      exfalso. specialize (Hx _ Hin'). specialize (Hx' _ Hin). unfold lt_entry in *.
      rewrite cmp_entry_antisym, Hx in Hx'. discriminate. }
    subst x'. f_equal. apply IH; auto.
    intros y. split; intros Hy.
    + destruct (proj1 (Hm y) (or_intror Hy)) as [E | H]; [|exact H].
      subst y. exfalso. apply (cmp_entry_irrefl x). apply Hx. exact Hy.
    + destruct (proj2 (Hm y) (or_intror Hy)) as [E | H]; [|exact H].
      subst y. exfalso. apply (cmp_entry_irrefl x). apply Hx'. exact Hy.
Qed.

(* collecting a strictly sorted set again changes nothing *)
Lemma bt_collect_sorted l : Forall wf l -> ssorted l -> bt_collect l = l.
Proof.
  intros Hwf Hs. unfold bt_collect. change (fold_ins l [] = l).
  destruct (fold_ins_spec l [] Hwf (Forall_nil _) (SSorted_nil _)) as (H1 & _ & H3).
  apply ssorted_unique; auto. intros y. rewrite H3. cbn. intuition.
Qed.

(* order independence of the collected set *)
Lemma fold_ins_perm l l' : Forall wf l -> Permutation l l' -> fold_ins l [] = fold_ins l' [].
Proof.
  intros Hwf Hp.
  assert (Hwf' : Forall wf l') by (eapply Permutation_Forall; eauto).
  destruct (fold_ins_spec l [] Hwf (Forall_nil _) (SSorted_nil _)) as (H1 & _ & H3).
  destruct (fold_ins_spec l' [] Hwf' (Forall_nil _) (SSorted_nil _)) as (H1' & _ & H3').
  apply ssorted_unique; auto. intros y. rewrite H3, H3'. cbn.
  split; intros [H | []]; left; [eapply Permutation_in; eauto | eapply Permutation_in; [symmetry|]; eauto].
Qed.
