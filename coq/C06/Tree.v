(* C06/Tree.v — the commitment (root, number of leaves) determines the leaf sequence
   (H-inj: constructor injectivity of BHash), and a leaf determines (key, stake). *)
From Coq Require Import Lia Arith PeanoNat.
From MV Require Import Base.Prelude Base.SymHash C06.Model C06.Order.
Close Scope N_scope.
Open Scope nat_scope.

(* ---- big-endian bytes ---- *)
Lemma be_bytes_length n : forall x, length (be_bytes n x) = n.
Proof. induction n as [|n IH]; intros x; cbn [be_bytes]; [reflexivity|]. rewrite app_length, IH. cbn. lia. Qed.

Lemma be_bytes_inj n : forall x y, (x < 256 ^ N.of_nat n)%N -> (y < 256 ^ N.of_nat n)%N ->
  be_bytes n x = be_bytes n y -> x = y.
Proof.
  induction n as [|n IH]; intros x y Hx Hy H.
  - cbn in Hx, Hy. lia.
  - cbn [be_bytes] in H. apply app_inj_tail in H as [H1 H2].
    rewrite Nat2N.inj_succ, N.pow_succ_r' in Hx, Hy.
    assert (x / 256 = y / 256)%N.
    { apply IH; auto; apply N.div_lt_upper_bound; lia. }
    rewrite (N.div_mod x 256), (N.div_mod y 256) by lia. congruence.
Qed.

Lemma app_inj_length {A} (a1 : list A) : forall b1 a2 b2, length a1 = length b1 ->
  a1 ++ a2 = b1 ++ b2 -> a1 = b1 /\ a2 = b2.
Proof.
  induction a1 as [|x a1 IH]; intros [|y b1] a2 b2 Hl H; try discriminate.
  - split; [reflexivity | exact H].
  - cbn in H. injection H as -> H. injection Hl as Hl. destruct (IH _ _ _ Hl H) as [-> ->]. split; reflexivity.
Qed.

Lemma leaf_hash_inj a b : wf a -> wf b -> (e_stake a < U64)%N -> (e_stake b < U64)%N ->
  leaf_hash a = leaf_hash b -> a = b.
Proof.
  unfold wf, leaf_hash, leaf_bytes. intros Ha Hb Sa Sb H.
  apply H_inj in H as [_ H]. injection H as H.
  apply app_inj_length in H as [H1 H2]; [|congruence].
  apply (be_bytes_inj 8) in H2; [| exact Sa | exact Sb].
  destruct a, b; cbn in *; subst; reflexivity.
Qed.

(* ---- shape ---- *)
Lemma depth_aux_ge fuel : forall p n, n <= p * 2 ^ fuel -> n <= p * 2 ^ depth_aux fuel p n.
Proof.
  induction fuel as [|f IH]; intros p n H; cbn [depth_aux].
  - exact H.
  - destruct (Nat.leb n p) eqn:E.
    + apply Nat.leb_le in E. cbn. lia.
    + assert (H' : n <= 2 * p * 2 ^ f) by (cbn [Nat.pow] in H; lia).
      apply IH in H'. cbn [Nat.pow]. lia.
Qed.

Lemma np2_ge n : n <= np2 n.
Proof.
  unfold np2, depth. pose proof (depth_aux_ge n 1 n) as H.
  assert (n <= 1 * 2 ^ n) by (pose proof (Nat.pow_gt_lin_r 2 n); lia).
  apply H in H0. lia.
Qed.

Lemma pair_ind (P : list bt -> Prop) :
  P [] -> (forall a, P [a]) -> (forall a b r, P r -> P (a :: b :: r)) -> forall l, P l.
Proof. intros H0 H1 H2. fix IH 1. intros [|a [|b r]]; [exact H0 | apply H1 | apply H2, IH]. Qed.

Lemma pair_up_length l : 2 * length (pair_up l) + Nat.b2n (Nat.odd (length l)) = length l.
Proof.
  induction l as [|a|a b r IH] using pair_ind; cbn [pair_up length]; try reflexivity.
  change (Nat.odd (S (S (length r)))) with (Nat.odd (length r)). lia.
Qed.

Lemma pair_up_inj l : forall l', length l = length l' -> Nat.odd (length l) = false ->
  pair_up l = pair_up l' -> l = l'.
Proof.
  induction l as [|a|a b r IH] using pair_ind; intros l' Hl Ho H.
  - destruct l'; [reflexivity | discriminate].
  - discriminate.
  - destruct l' as [|a' [|b' r']]; try discriminate.
    cbn [pair_up] in H. unfold node in H. injection H as -> -> H.
    f_equal. f_equal. apply IH; [cbn in Hl; lia | exact Ho | exact H].
Qed.

Lemma pow2_even d : Nat.odd (2 ^ S d) = false.
Proof. cbn [Nat.pow]. rewrite Nat.odd_mul. reflexivity. Qed.

Lemma levels_up_inj d : forall l l', length l = 2 ^ d -> length l' = 2 ^ d ->
  hd zpad (levels_up d l) = hd zpad (levels_up d l') -> l = l'.
Proof.
  induction d as [|d IH]; intros l l' Hl Hl' H.
  - cbn in *. destruct l as [|a [|]]; try discriminate. destruct l' as [|a' [|]]; try discriminate.
    cbn in H. congruence.
  - cbn [levels_up] in H.
    assert (Ho : Nat.odd (length l) = false) by (rewrite Hl; apply pow2_even).
    assert (Ho' : Nat.odd (length l') = false) by (rewrite Hl'; apply pow2_even).
    pose proof (pair_up_length l) as E. pose proof (pair_up_length l') as E'.
    rewrite Ho in E. rewrite Ho' in E'. cbn [Nat.b2n] in E, E'.
    cbn [Nat.pow] in Hl, Hl'.
    apply pair_up_inj; [lia | exact Ho |].
    apply IH; [lia | lia | exact H].
Qed.

(* the tree term and the number of leaves determine the leaf sequence *)
Lemma mt_root_inj L L' : length L = length L' -> mt_root L = mt_root L' -> L = L'.
Proof.
  unfold mt_root, leaf_level. intros Hl H. rewrite <- Hl in H.
  pose proof (np2_ge (length L)) as Hge.
  apply levels_up_inj in H.
  - apply app_inj_length in H as [H _]; assumption.
  - rewrite app_length, repeat_length. unfold np2 in *. lia.
  - rewrite app_length, repeat_length, <- Hl. unfold np2 in *. lia.
Qed.
