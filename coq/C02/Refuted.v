(* C02/Refuted.v — full statements the faithful model does not satisfy (witnesses by vm_compute). *)
From Coq Require Import List NArith Bool Permutation.
From MV Require Import Base.Prelude C02.Model C02.Spec.
Import ListNotations.
Open Scope N_scope.

(* Without the hypothesis [no_ties] the RESULT (not success / failure, not its validity) depends on the
   order: two valid signatures with the same sigma paired with different registration entries compete with
   `<`, the first one keeps the index.  Not reachable with real BLS signatures through
   aggregate_signatures (a sigma valid under vk determines vk; a closed registration holds a key once). *)
Definition tie_a : sr := {| sg := 1; ent := 0; idxs := [0]; slot := 0; sok := true; lost := [] |}.
Definition tie_b : sr := {| sg := 1; ent := 1; idxs := [0]; slot := 1; sok := true; lost := [] |}.
Theorem C02_order_exact_refuted_with_ties :
  exists m k l l', Permutation l l' /\
    option_map (map proj) (select m k l) <> option_map (map proj) (select m k l').
Proof.
  exists 4, 1, [tie_a; tie_b], [tie_b; tie_a]. split; [apply perm_swap|].
  vm_compute. discriminate.
Qed.

(* k = 0: with no valid signature at all the code still answers NotEnoughSignatures(0, 0) *)
Theorem C02_complete_refuted_k0 :
  exists m l, 0 <= N.of_nat (length (covered m l)) /\ select m 0 l = None.
Proof. exists 4, []. split; [vm_compute; discriminate | reflexivity]. Qed.
