(* C02/Proofs4.v — redundant copies, aggregate-level corollaries. *)
From Coq Require Import List NArith Bool Lia Permutation Sorted.
From MV Require Import Base.Prelude Base.SortUnique C02.Model.
From MV Require Import C02.Spec C02.Proofs1 C02.Proofs2 C02.Proofs.
Import ListNotations.
Open Scope N_scope.

(* ------------------------------------------------------------------ the selection only looks at the map through [lookup] *)
Lemma owned_ext mp mp' D s : (forall i, lookup mp i = lookup mp' i) -> owned mp D s = owned mp' D s.
Proof. intros H. unfold owned. apply filter_ext. intros i. unfold owns. rewrite H. reflexivity. Qed.

Lemma pass2_ext k mp mp' D : (forall i, lookup mp i = lookup mp' i) ->
  forall dom seen acc count, pass2 k mp D dom seen acc count = pass2 k mp' D dom seen acc count.
Proof.
  intros H. induction dom as [|i dom IH]; intros seen acc count; [reflexivity|].
  cbn [pass2]. rewrite <- H. destruct (lookup mp i) as [s|]; [|apply IH].
  destruct (existsb (key_eqb s) seen); [apply IH|].
  rewrite <- (owned_ext mp mp' D s H).
  destruct (k <=? count + N.of_nat (length (owned mp D s))); [reflexivity | apply IH].
Qed.

Lemma select_ext m k l l' :
  (forall i, lookup (pass1 (filter (valid m) l)) i = lookup (pass1 (filter (valid m) l')) i) ->
  select m k l = select m k l'.
Proof.
  intros H. unfold select. rewrite (domain_ext _ _ H). apply pass2_ext. exact H.
Qed.

(* a signature each of whose indices is already carried by an EARLIER valid signature with a sigma that
   is not larger changes nothing at all — in particular a repeated copy (same or shorter index list) of
   an earlier signature *)
Theorem select_redundant m k l1 c' l2 :
  (forall i, In i (idxs c') -> exists c, In c l1 /\ valid m c = true /\ In i (idxs c) /\ sg c <= sg c') ->
  select m k (l1 ++ c' :: l2) = select m k (l1 ++ l2).
Proof.
  intros H. apply select_ext. intros i. rewrite !filter_app. cbn [filter].
  destruct (valid m c') eqn:Ev; [|reflexivity].
  rewrite !lookup_pass1, !best_app. cbn [best fold_left]. f_equal.
  destruct (memN i (idxs c')) eqn:Em; [|reflexivity].
  apply memN_In in Em. destruct (H i Em) as [c [Hc [Hv [Hi Hle]]]].
  assert (HcV : In c (filter (valid m) l1)) by (apply filter_In; split; assumption).
  destruct (best (filter (valid m) l1) i None) as [x|] eqn:Eb.
  - cbn [pick]. pose proof (best_min _ _ _ _ Eb) as [_ Hmin]. specialize (Hmin c HcV Hi).
    destruct (sg c' <? sg x) eqn:El; [|reflexivity]. apply N.ltb_lt in El. lia.
  - apply best_none in Eb. destruct Eb as [_ Eb]. exfalso. exact (Eb c HcV Hi).
Qed.

Theorem select_dup m k l1 c l2 : In c l1 -> select m k (l1 ++ c :: l2) = select m k (l1 ++ l2).
Proof.
  intros Hc. destruct (valid m c) eqn:Ev.
  - apply select_redundant. intros i Hi. exists c. repeat split; try assumption. lia.
  - change (c :: l2) with ([c] ++ l2). apply select_junk. cbn. rewrite Ev. reflexivity.
Qed.

Theorem select_monotone_app m k l extra res :
  select m k l = Some res ->
  exists res', select m k (l ++ extra) = Some res' /\ valid_quorum m k (l ++ extra) res'.
Proof.
  apply select_monotone_quorum. intros s Hs _. apply in_or_app. left. exact Hs.
Qed.

(* ------------------------------------------------------------------ aggregate = signer_index filter + select *)
Theorem aggregate_junk n m k l1 bad l2 :
  forallb (fun s => negb (slot s <? n) || negb (valid m s)) bad = true ->
  aggregate n m k (l1 ++ bad ++ l2) = aggregate n m k (l1 ++ l2).
Proof.
  intros H. unfold aggregate. rewrite !filter_app.
  apply select_junk. rewrite forallb_forall in *. intros s Hs. apply filter_In in Hs. destruct Hs as [Hs Hr].
  specialize (H s Hs). rewrite Hr in H. cbn in H. exact H.
Qed.

Theorem aggregate_sound n m k l res : aggregate n m k l = Some res ->
  valid_quorum m k l res /\ forall r, In r res -> slot r < n.
Proof.
  unfold aggregate. intros H. apply select_sound in H. destruct H as [H1 [H2 [H3 [H4 H5]]]]. split.
  - repeat split; try assumption.
    + apply H4. assumption.
    + destruct (H4 r H) as [_ [s [Hs [Hv He]]]]. apply filter_In in Hs. exists s. split; [apply Hs|]. split; assumption.
    + apply (H5 r i H H0).
    + destruct (H5 r i H H0) as [_ [o [Ho Hrest]]]. apply filter_In in Ho. exists o. split; [apply Ho | exact Hrest].
  - intros r Hr. destruct (H4 r Hr) as [_ [s [Hs [_ He]]]]. apply filter_In in Hs. destruct Hs as [_ Hs].
    apply N.ltb_lt in Hs. rewrite He. exact Hs.
Qed.


Theorem aggregate_success_iff n m k l :
  aggregate n m k l <> None <->
  (k <= N.of_nat (length (covered m (registered n l))) /\ covered m (registered n l) <> []).
Proof. apply select_success_iff. Qed.

Theorem aggregate_monotone n m k l l' res :
  (forall s, In s l -> In s l') ->
  aggregate n m k l = Some res ->
  exists res', aggregate n m k l' = Some res' /\ valid_quorum m k l' res' /\ forall r, In r res' -> slot r < n.
Proof.
  intros H Hs. unfold aggregate in Hs.
  assert (Hincl : forall s, In s (filter (fun s => slot s <? n) l) -> valid m s = true -> In s (filter (fun s => slot s <? n) l')).
  { intros s Hin _. apply filter_In in Hin. apply filter_In. split; [apply H, Hin | apply Hin]. }
  destruct (select_monotone_quorum m k _ _ res Hincl Hs) as [res' [Hr _]].
  exists res'. split; [exact Hr|]. apply aggregate_sound. exact Hr.
Qed.
