(* C02/Spec.v — specification layer: definitions used in the statements of Properties.v. *)
From Coq Require Import List NArith Bool.
From MV Require Import Base.Prelude C02.Model.
Import ListNotations.
Open Scope N_scope.

(* the distinct lottery indices carried by the valid signatures of the input *)
Definition covered (m : N) (l : list sr) : list N := nodup N.eq_dec (flat_map idxs (filter (valid m) l)).

(* what the C01 verifier needs from a selection result, stated on the input list:
   (i) at least k indices, (ii) pairwise distinct, one entry per signature (sigma, registration entry),
   every entry is a valid input signature with its index list replaced by a non-empty list, and every
   index it now carries is < m and was carried in the input by a valid signature with the same sigma and
   the same registration entry (so the lottery is won for it: the draw depends on sigma, index, stake only). *)
Definition valid_quorum (m k : N) (l res : list sr) : Prop :=
  k <= N.of_nat (length (all_res_idx res)) /\
  NoDup (all_res_idx res) /\
  NoDup (map key res) /\
  (forall r, In r res -> idxs r <> [] /\ exists s, In s l /\ valid m s = true /\ r = with_idxs s (idxs r)) /\
  (forall r i, In r res -> In i (idxs r) ->
     i < m /\ exists o, In o l /\ valid m o = true /\ key o = key r /\ In i (idxs o) /\ ~ In i (lost o)).

(* the signatures whose signer_index is a registered index (n registered parties) *)
Definition registered (n : N) (l : list sr) : list sr := filter (fun s => slot s <? n) l.

(* what is compared between two results: sigma, registration entry, index list *)
Definition proj (r : sr) : (N * N) * list N := (key r, idxs r).

(* no two valid signatures share a sigma while being paired with different registration entries
   (BLS: a sigma that verifies for msg||root under vk determines vk; a closed registration holds a key
   once) *)
Definition no_ties (m : N) (l : list sr) : Prop :=
  forall s s', In s l -> In s' l -> valid m s = true -> valid m s' = true -> sg s = sg s' -> ent s = ent s'.


(* example input used by the non-vacuity examples of Properties.v *)
Definition ex_l : list sr :=
  [ {| sg := 5; ent := 0; idxs := [0; 1; 2]; slot := 0; sok := true; lost := [] |};
    {| sg := 3; ent := 1; idxs := [2; 3]; slot := 1; sok := true; lost := [] |};
    {| sg := 1; ent := 2; idxs := [0; 4]; slot := 2; sok := true; lost := [4] |} ].
