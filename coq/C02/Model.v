(* C02/Model.v — executable model of the quorum selection of the concatenation clerk.  Definitions only.
   Source (mithril-stm/src/proof_system/concatenation):
     clerk.rs   ConcatenationClerk::select_valid_signatures_for_k_indices   -> pass1 / pass2 / select
     proof.rs   ConcatenationProof::aggregate_signatures (registration lookup by signer_index, `?`;
                selection; sort)                                           -> aggregate
   A single signature as the clerk sees it:
     key    the class of the code's Eq / Hash on SingleSignatureWithRegisteredParty: sigma bytes and
            registration entry (vk, stake) — NOT the index list, NOT the signer_index;
     rank   position of sigma in the byte order used by `<` (compare_signatures);
     idxs   the lottery indices it carries;   slot  its signer_index;
     sok    S-ideal: sigma is the valid signature of the entry's key on msg||root;
     lost   the carried indices for which the lottery (RO + C08, real decision supplied per case) is lost.
   SingleSignatureForConcatenation::verify = sok && every index < m and won  (C01.Model.check_indices).
   The BTreeMap is an association list with shadowing insert, iterated in ascending key order;
   the HashMap of removal lists is a list of (key, index) pairs (only membership is ever asked);
   the HashSet of results is a list, observed as a sorted set. *)
From MV Require Export Base.Prelude.
Open Scope N_scope.

Record sr := { key : N; rank : N; idxs : list N; slot : N; sok : bool; lost : list N }.

Definition memN (x : N) (l : list N) : bool := existsb (N.eqb x) l.

(* concatenation_signature.verify(..).is_ok() *)
Definition valid (m : N) (s : sr) : bool :=
  sok s && forallb (fun i => (i <? m) && negb (memN i (lost s))) (idxs s).

Definition bymap := list (N * sr).
Fixpoint lookup (mp : bymap) (i : N) : option sr :=
  match mp with [] => None | (j, s) :: r => if j =? i then Some s else lookup r i end.
Definition update (mp : bymap) (i : N) (s : sr) : bymap := (i, s) :: mp.

Definition memp (k i : N) (l : list (N * N)) : bool := existsb (fun p => (fst p =? k) && (snd p =? i)) l.

(* body of the first loop for one (signature, index) pair; after fix: a signature whose key equals the
   current owner's leaves both maps untouched *)
Definition step1 (st : bymap * list (N * N)) (s : sr) (i : N) : bymap * list (N * N) :=
  let '(mp, rem) := st in
  match lookup mp i with
  | Some prev =>
      if key prev =? key s then (mp, rem)
      else if rank s <? rank prev then (update mp i s, (key prev, i) :: rem)
      else (mp, (key s, i) :: rem)
  | None => (update mp i s, rem)
  end.
Definition step_sig (st : bymap * list (N * N)) (s : sr) := fold_left (fun st i => step1 st s i) (idxs s) st.
Definition pass1 (l : list sr) := fold_left step_sig l ([], []).

(* indices a signature keeps: its own list minus its removal list *)
Definition assigned (rem : list (N * N)) (s : sr) : list N := filter (fun i => negb (memp (key s) i rem)) (idxs s).
Definition with_idxs (s : sr) (ix : list N) : sr :=
  {| key := key s; rank := rank s; idxs := ix; slot := slot s; sok := sok s; lost := lost s |}.

(* sig_by_index.values(): owners in ascending index order *)
Fixpoint insert_sorted (x : N) (l : list N) : list N :=
  match l with [] => [x] | y :: r => if x <=? y then x :: l else y :: insert_sorted x r end.
Definition sortN (l : list N) : list N := fold_right insert_sorted [] l.
Definition domain (mp : bymap) : list N := sortN (nodup N.eq_dec (map fst mp)).
Definition owners (mp : bymap) : list sr :=
  flat_map (fun i => match lookup mp i with Some s => [s] | None => [] end) (domain mp).

(* second loop: None = Err(NotEnoughSignatures) *)
Fixpoint pass2 (k : N) (rem : list (N * N)) (os : list sr) (seen : list N) (acc : list sr) (count : N)
  : option (list sr) :=
  match os with
  | [] => None
  | s :: r =>
      if memN (key s) seen then pass2 k rem r seen acc count
      else
        let a := assigned rem s in
        let count' := count + N.of_nat (length a) in
        let acc' := with_idxs s a :: acc in
        if k <=? count' then Some acc' else pass2 k rem r (key s :: seen) acc' count'
  end.

Definition select (m k : N) (l : list sr) : option (list sr) :=
  let '(mp, rem) := pass1 (filter (valid m) l) in
  pass2 k rem (owners mp) [] [] 0.

(* aggregate_signatures: every signer_index must be a registered index (`collect::<Result<..>>()?`),
   whatever else the signature is; n = number of registered parties.
   outcome 0 = Ok, 1 = NotEnoughSignatures, 3 = other error *)
Definition pairs_of (res : list sr) : list N :=
  sortN (flat_map (fun s => map (fun i => slot s * 4294967296 + i) (idxs s)) res).
Definition all_res_idx (res : list sr) : list N := flat_map idxs res.

(* observation: outcome, sorted set of (slot, index) pairs, and whether the result meets the
   verifier's count and uniqueness tests (C01 (i), (ii)) *)
Definition run (n m k : N) (l : list sr) : obs :=
  if existsb (fun s => n <=? slot s) l then OL [OZ 3] else
  match select m k l with
  | None => OL [OZ 1]
  | Some res =>
      let ix := all_res_idx res in
      OL [OZ 0; OLN (pairs_of res);
          OB ((k <=? N.of_nat (length ix)) && (length ix =? length (nodup N.eq_dec ix))%nat)]
  end.
