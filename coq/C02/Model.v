(* C02/Model.v — executable model of the quorum selection of the concatenation clerk.  Definitions only.
   Source (mithril-stm/src/proof_system/concatenation), as of fix commits 7025ae76f and cf2d616cd:
     clerk.rs   ConcatenationClerk::select_valid_signatures_for_k_indices   -> pass1 / pass2 / select
     proof.rs   ConcatenationProof::aggregate_signatures (registration lookup by signer_index, an
                unregistered index is skipped; selection; sort)             -> aggregate / run
   A single signature as the clerk sees it (SingleSignatureWithRegisteredParty):
     sg     sigma, as its position in the byte order used by `<` (BlsSignature::compare_signatures);
            equal numbers = equal bytes;
     ent    the registration entry (vk, stake) it is paired with;
     (sg, ent) is exactly what the code's Eq / Hash on SingleSignatureWithRegisteredParty look at
            (NOT the index list, NOT the signer_index): [key];
     idxs   the lottery indices it carries (a Vec: order and repetitions are possible);
     slot   its signer_index;
     sok    S-ideal: sigma is the valid signature of the entry's key on msg||root;
     lost   the carried indices for which the lottery (RO + C08, real decision supplied per case) is lost.
   SingleSignatureForConcatenation::verify = sok && every index < m and won  (C01.Model.check_indices).
   The BTreeMap sig_by_index is an association list with shadowing insert, iterated in ascending key
   order ([domain]); the HashMap owned_indices_by_sig is the function [owned]; the HashSet of results is
   a list, observed as a sorted set. *)
From MV Require Export Base.Prelude.
From MV Require Import Base.SortUnique.
Open Scope N_scope.

Record sr := { sg : N; ent : N; idxs : list N; slot : N; sok : bool; lost : list N }.

Definition key (s : sr) : N * N := (sg s, ent s).
Definition key_eqb (a b : sr) : bool := (sg a =? sg b) && (ent a =? ent b).

Definition memN (x : N) (l : list N) : bool := existsb (N.eqb x) l.

(* concatenation_signature.verify(..).is_ok() *)
Definition valid (m : N) (s : sr) : bool :=
  sok s && forallb (fun i => (i <? m) && negb (memN i (lost s))) (idxs s).

Definition bymap := list (N * sr).
Fixpoint lookup (mp : bymap) (i : N) : option sr :=
  match mp with [] => None | (j, s) :: r => if j =? i then Some s else lookup r i end.
Definition update (mp : bymap) (i : N) (s : sr) : bymap := (i, s) :: mp.

(* body of the first loop for one (signature, index) pair: the index goes to the smaller sigma *)
Definition step1 (mp : bymap) (s : sr) (i : N) : bymap :=
  match lookup mp i with
  | Some prev => if sg s <? sg prev then update mp i s else mp
  | None => update mp i s
  end.
Definition step_sig (mp : bymap) (s : sr) : bymap := fold_left (fun mp i => step1 mp s i) (idxs s) mp.
Definition pass1 (l : list sr) : bymap := fold_left step_sig l [].

(* sig_by_index.keys(): ascending *)
Definition sortN (l : list N) : list N := isort N.leb l.
Definition domain (mp : bymap) : list N := sortN (nodup N.eq_dec (map fst mp)).

(* owned_indices_by_sig[s]: the indices whose owner equals s (Eq of the code), ascending *)
Definition owns (mp : bymap) (s : sr) (i : N) : bool :=
  match lookup mp i with Some o => key_eqb o s | None => false end.
Definition owned (mp : bymap) (D : list N) (s : sr) : list N := filter (owns mp s) D.

Definition with_idxs (s : sr) (ix : list N) : sr :=
  {| sg := sg s; ent := ent s; idxs := ix; slot := slot s; sok := sok s; lost := lost s |}.

(* second loop over sig_by_index.values(); None = Err(NotEnoughSignatures) *)
Fixpoint pass2 (k : N) (mp : bymap) (D dom : list N) (seen acc : list sr) (count : N) : option (list sr) :=
  match dom with
  | [] => None
  | i :: r =>
      match lookup mp i with
      | None => pass2 k mp D r seen acc count
      | Some s =>
          if existsb (key_eqb s) seen then pass2 k mp D r seen acc count
          else
            let a := owned mp D s in
            let count' := count + N.of_nat (length a) in
            let acc' := with_idxs s a :: acc in
            if k <=? count' then Some acc' else pass2 k mp D r (s :: seen) acc' count'
      end
  end.

Definition select (m k : N) (l : list sr) : option (list sr) :=
  let mp := pass1 (filter (valid m) l) in
  let D := domain mp in
  pass2 k mp D D [] [] 0.

(* aggregate_signatures: a signature whose signer_index is not a registered index is skipped
   (n = number of registered parties); then the selection. *)
Definition aggregate (n m k : N) (l : list sr) : option (list sr) :=
  select m k (filter (fun s => slot s <? n) l).

Definition pairs_of (res : list sr) : list N :=
  sortN (flat_map (fun s => map (fun i => slot s * 4294967296 + i) (idxs s)) res).
Definition all_res_idx (res : list sr) : list N := flat_map idxs res.

(* observation: outcome (0 = Ok, 1 = NotEnoughSignatures), sorted (slot, index) pairs, and whether the
   result meets the verifier's count and uniqueness tests (C01 (i), (ii)) *)
Definition run (n m k : N) (l : list sr) : obs :=
  match aggregate n m k l with
  | None => OL [OZ 1]
  | Some res =>
      let ix := all_res_idx res in
      OL [OZ 0; OLN (pairs_of res);
          OB ((k <=? N.of_nat (length ix)) && (length ix =? length (nodup N.eq_dec ix))%nat)]
  end.
