(* C02/Proofs1.v — the first loop computes, per index, the first carrier with the smallest sigma. *)
From Coq Require Import List NArith Bool Lia Permutation Sorted.
From MV Require Import Base.Prelude Base.SortUnique C02.Model.
Import ListNotations.
Open Scope N_scope.

(* ------------------------------------------------------------------ keys *)
Lemma key_eqb_eq a b : key_eqb a b = true <-> key a = key b.
Proof.
  unfold key_eqb, key. rewrite andb_true_iff, !N.eqb_eq. split.
  - intros [-> ->]. reflexivity.
  - intros H. injection H. auto.
Qed.
Lemma key_eqb_refl a : key_eqb a a = true.
Proof. apply key_eqb_eq. reflexivity. Qed.
Lemma existsb_key s seen : existsb (key_eqb s) seen = true <-> In (key s) (map key seen).
Proof.
  rewrite existsb_exists, in_map_iff. split.
  - intros [x [Hx He]]. exists x. apply key_eqb_eq in He. auto.
  - intros [x [He Hx]]. exists x. split; [exact Hx|]. apply key_eqb_eq. auto.
Qed.
Lemma memN_In i l : memN i l = true <-> In i l.
Proof.
  unfold memN. rewrite existsb_exists. split.
  - intros [x [Hx He]]. apply N.eqb_eq in He. subst. exact Hx.
  - intros H. exists i. split; [exact H | apply N.eqb_refl].
Qed.

(* ------------------------------------------------------------------ first loop *)
Definition pick (o : option sr) (s : sr) : option sr :=
  match o with
  | Some p => if sg s <? sg p then Some s else Some p
  | None => Some s
  end.

Lemma pick_idem o s : pick (pick o s) s = pick o s.
Proof.
  destruct o as [p|]; cbn [pick].
  - destruct (sg s <? sg p) eqn:E; cbn [pick]; rewrite ?N.ltb_irrefl, ?E; reflexivity.
  - rewrite N.ltb_irrefl. reflexivity.
Qed.

Lemma lookup_step1 mp s i j :
  lookup (step1 mp s i) j = if i =? j then pick (lookup mp i) s else lookup mp j.
Proof.
  unfold step1. destruct (lookup mp i) as [p|] eqn:E; cbn [pick].
  - destruct (sg s <? sg p); cbn [update lookup].
    + reflexivity.
    + destruct (i =? j) eqn:Eij; [|reflexivity]. apply N.eqb_eq in Eij. subst. exact E.
  - cbn [update lookup]. reflexivity.
Qed.

Lemma lookup_fold_step1 s ix : forall mp j,
  lookup (fold_left (fun mp i => step1 mp s i) ix mp) j
  = if memN j ix then pick (lookup mp j) s else lookup mp j.
Proof.
  induction ix as [|a ix IH]; intros mp j; [reflexivity|].
  cbn [fold_left]. rewrite IH, lookup_step1.
  unfold memN at 2. cbn [existsb]. fold (memN j ix).
  rewrite (N.eqb_sym j a).
  destruct (a =? j) eqn:Eaj; cbn [orb].
  - apply N.eqb_eq in Eaj. subst a. destruct (memN j ix); [apply pick_idem | reflexivity].
  - reflexivity.
Qed.

Definition best (l : list sr) (i : N) (o : option sr) : option sr :=
  fold_left (fun o s => if memN i (idxs s) then pick o s else o) l o.

Lemma lookup_fold_step_sig l : forall mp i,
  lookup (fold_left step_sig l mp) i = best l i (lookup mp i).
Proof.
  induction l as [|s l IH]; intros mp i; [reflexivity|].
  cbn [fold_left best]. rewrite IH. unfold step_sig. rewrite lookup_fold_step1. reflexivity.
Qed.
Lemma lookup_pass1 l i : lookup (pass1 l) i = best l i None.
Proof. unfold pass1. rewrite lookup_fold_step_sig. reflexivity. Qed.

Lemma best_app l1 l2 i o : best (l1 ++ l2) i o = best l2 i (best l1 i o).
Proof. unfold best. apply fold_left_app. Qed.

Lemma best_none l : forall i o, best l i o = None <-> o = None /\ forall s, In s l -> ~ In i (idxs s).
Proof.
  induction l as [|a l IH]; intros i o; cbn [best fold_left].
  - split; [intros ->; split; [reflexivity | intros s []] | intros [-> _]; reflexivity].
  - fold (best l i (if memN i (idxs a) then pick o a else o)). rewrite IH.
    destruct (memN i (idxs a)) eqn:E.
    + split.
      * intros [H _]. destruct o as [p|]; cbn [pick] in H; [destruct (sg a <? sg p)|]; discriminate.
      * intros [_ H]. exfalso. apply (H a); [left; reflexivity | apply memN_In; exact E].
    + split.
      * intros [-> H]. split; [reflexivity|]. intros s [<-|Hs]; [|apply H, Hs].
        intros Hc. apply memN_In in Hc. congruence.
      * intros [-> H]. split; [reflexivity|]. intros s Hs. apply H. right. exact Hs.
Qed.

Lemma best_some l : forall i o x, best l i o = Some x ->
  o = Some x \/ (In x l /\ In i (idxs x)).
Proof.
  induction l as [|a l IH]; intros i o x; cbn [best fold_left].
  - intros ->. left. reflexivity.
  - fold (best l i (if memN i (idxs a) then pick o a else o)). intros H. apply IH in H.
    destruct H as [H|[H1 H2]]; [|right; split; [right; exact H1 | exact H2]].
    destruct (memN i (idxs a)) eqn:E; [|left; exact H].
    destruct o as [p|]; cbn [pick] in H.
    + destruct (sg a <? sg p).
      * injection H as <-. right. split; [left; reflexivity | apply memN_In; exact E].
      * left. exact H.
    + injection H as <-. right. split; [left; reflexivity | apply memN_In; exact E].
Qed.

(* the owner has the smallest sigma among the carriers *)
Lemma best_min l : forall i o x, best l i o = Some x ->
  (forall p, o = Some p -> sg x <= sg p) /\ (forall s, In s l -> In i (idxs s) -> sg x <= sg s).
Proof.
  induction l as [|a l IH]; intros i o x; cbn [best fold_left].
  - intros ->. split; [intros p [= <-]; lia | intros s []].
  - fold (best l i (if memN i (idxs a) then pick o a else o)). intros H. apply IH in H.
    destruct H as [H1 H2].
    destruct (memN i (idxs a)) eqn:E.
    + destruct o as [p|]; cbn [pick] in H1.
      * destruct (sg a <? sg p) eqn:El.
        -- apply N.ltb_lt in El. specialize (H1 a eq_refl). split.
           ++ intros q [= <-]. lia.
           ++ intros s [<-|Hs] Hc; [exact H1 | apply H2; assumption].
        -- apply N.ltb_ge in El. specialize (H1 p eq_refl). split.
           ++ intros q [= <-]. exact H1.
           ++ intros s [<-|Hs] Hc; [lia | apply H2; assumption].
      * specialize (H1 a eq_refl). split; [intros p [=]|].
        intros s [<-|Hs] Hc; [exact H1 | apply H2; assumption].
    + split; [exact H1|]. intros s [<-|Hs] Hc; [|apply H2; assumption].
      apply memN_In in Hc. congruence.
Qed.
