(* C02/Properties.v — statements only. *)
From Coq Require Import List NArith Bool.
From MV Require Import Base.Prelude C02.Model C02.Proofs.
Import ListNotations.
Open Scope N_scope.

Theorem C02_junk : forall (m k : N) (l1 bad l2 : list sr),
  forallb (fun s => negb (valid m s)) bad = true ->
  select m k (l1 ++ bad ++ l2) = select m k (l1 ++ l2).
Proof. exact select_junk. Qed.
