(* C02/Properties.v — statements only (each is Print-Assumptions-audited by the driver).
   Model: C02/Model.v ([select] = ConcatenationClerk::select_valid_signatures_for_k_indices,
   [aggregate] = the signer_index filter of ConcatenationProof::aggregate_signatures + [select]).
   Spec layer: C02/Spec.v ([covered] = the distinct indices carried by valid input signatures,
   [valid_quorum] = what the C01 verifier needs from the result, stated on the input list).
   All statements hold for every m, k, and every input list (any length, any index lists, repeated
   indices inside a list, copies with equal or different index lists, any order). *)
From Coq Require Import List NArith Bool Permutation.
From MV Require Import C01.Model.
From MV Require Import Base.Prelude C02.Model C02.Spec C02.Proofs C02.Proofs4 C02.Proofs5 C02.LinkC01.
Import ListNotations.
Open Scope N_scope.

(* a success is always a valid quorum *)
Theorem C02_sound : forall (m k : N) (l res : list sr),
  select m k l = Some res -> valid_quorum m k l res.
Proof. exact select_sound. Qed.

(* 1. completeness: enough valid coverage => success with a valid quorum *)
Theorem C02_complete : forall (m k : N) (l : list sr),
  0 < k -> k <= N.of_nat (length (covered m l)) ->
  exists res, select m k l = Some res /\ valid_quorum m k l res.
Proof. exact select_complete. Qed.

(* 2. NotEnoughSignatures exactly when the valid signatures do not cover k distinct indices
      (for k = 0 the code still needs one covered index) *)
Theorem C02_success_iff : forall (m k : N) (l : list sr),
  select m k l <> None <-> (k <= N.of_nat (length (covered m l)) /\ covered m l <> []).
Proof. exact select_success_iff. Qed.

(* 3. invalid signatures anywhere in the list change nothing at all *)
Theorem C02_junk : forall (m k : N) (l1 bad l2 : list sr),
  forallb (fun s => negb (valid m s)) bad = true ->
  select m k (l1 ++ bad ++ l2) = select m k (l1 ++ l2).
Proof. exact select_junk. Qed.

(* 6. monotonicity: if every valid signature of l is still present in l' (whatever else l' contains:
      valid, invalid, repeated, re-ordered), a success stays a success and is a valid quorum *)
Theorem C02_monotone : forall (m k : N) (l l' res : list sr),
  (forall s, In s l -> valid m s = true -> In s l') ->
  select m k l = Some res ->
  exists res', select m k l' = Some res' /\ valid_quorum m k l' res'.
Proof. exact select_monotone_quorum. Qed.

Theorem C02_monotone_app : forall (m k : N) (l extra res : list sr),
  select m k l = Some res ->
  exists res', select m k (l ++ extra) = Some res' /\ valid_quorum m k (l ++ extra) res'.
Proof. exact select_monotone_app. Qed.

(* 4. copies: a signature each of whose indices is already carried by an EARLIER valid signature with a
      sigma that is not larger changes nothing at all; in particular a repeated copy of an earlier
      signature, with the same index list or any sub-list of it, whatever its registration entry *)
Theorem C02_dup_redundant : forall (m k : N) (l1 : list sr) (c' : sr) (l2 : list sr),
  (forall i, In i (idxs c') -> exists c, In c l1 /\ valid m c = true /\ In i (idxs c) /\ sg c <= sg c') ->
  select m k (l1 ++ c' :: l2) = select m k (l1 ++ l2).
Proof. exact select_redundant. Qed.

Theorem C02_dup : forall (m k : N) (l1 : list sr) (c : sr) (l2 : list sr),
  In c l1 -> select m k (l1 ++ c :: l2) = select m k (l1 ++ l2).
Proof. exact select_dup. Qed.

(* 5. order: success / failure does not depend on the order *)
Theorem C02_order_success : forall (m k : N) (l l' : list sr),
  Permutation l l' -> (select m k l <> None <-> select m k l' <> None).
Proof. exact select_perm_success. Qed.

(* 5'. order, exact: when no two valid signatures share a sigma while paired with different registration
       entries, every permutation of the input gives the same list of (sigma, entry, index list)
       (without the hypothesis: Refuted.v, C02_order_exact_refuted_with_ties) *)
Theorem C02_order_exact : forall (m k : N) (l l' : list sr),
  Permutation l l' -> no_ties m l ->
  option_map (map proj) (select m k l) = option_map (map proj) (select m k l').
Proof. exact select_perm_exact. Qed.

(* the aggregation entry point: signatures with an unregistered signer_index are junk as well *)
Theorem C02_aggregate_junk : forall (n m k : N) (l1 bad l2 : list sr),
  forallb (fun s => negb (slot s <? n) || negb (valid m s)) bad = true ->
  aggregate n m k (l1 ++ bad ++ l2) = aggregate n m k (l1 ++ l2).
Proof. exact aggregate_junk. Qed.

Theorem C02_aggregate_sound : forall (n m k : N) (l res : list sr),
  aggregate n m k l = Some res -> valid_quorum m k l res /\ forall r, In r res -> slot r < n.
Proof. exact aggregate_sound. Qed.

Theorem C02_aggregate_success_iff : forall (n m k : N) (l : list sr),
  aggregate n m k l <> None <->
  (k <= N.of_nat (length (covered m (registered n l))) /\ covered m (registered n l) <> []).
Proof. exact aggregate_success_iff. Qed.

Theorem C02_aggregate_monotone : forall (n m k : N) (l l' res : list sr),
  (forall s, In s l -> In s l') ->
  aggregate n m k l = Some res ->
  exists res', aggregate n m k l' = Some res' /\ valid_quorum m k l' res' /\ forall r, In r res' -> slot r < n.
Proof. exact aggregate_monotone. Qed.

(* 1'. link to C01: read the result as a ConcatenationProof (any batch path).  Under an interpretation of
       sigma ranks / registration entries as C01 objects for which the model's validity flag means what
       C01 checks ([embeds]), the C01 verifier's per-signature index and lottery checks, its uniqueness
       test and its `< k` test all pass (prelim reduces to the Merkle batch-path check, which is C09's
       completeness theorem for the path the clerk computes and is exercised, not proved, here), the
       aggregate-signature check passes, and so the result verifies as soon as its batch path does. *)
Theorem C02_result_passes_C01 :
  forall (sigma_of : N -> MV.Base.IdealSig.sg) (vk_of stake_of : N -> N) (won : lot) (phi : N)
         (msg : list N) (a : avk) (m k : N) (l res : list sr) (vals : list MV.Base.SymHash.bt) (pidx : list N),
  embeds sigma_of vk_of stake_of won phi msg a m l ->
  select m k l = Some res ->
  let g := {| a_sigs := map (to_sigreg sigma_of vk_of stake_of) res; a_vals := vals; a_pidx := pidx |} in
  let p := {| p_m := m; p_k := k; p_phi := phi |} in
  prelim won p msg a g = ver_bpath (av_root a) (av_nl a) (leaves_of (a_sigs g)) vals pidx /\
  sagg (msgp msg (av_root a)) (a_sigs g) = true /\
  (ver_bpath (av_root a) (av_nl a) (leaves_of (a_sigs g)) vals pidx = Ok true ->
   C01.Model.verify won p msg a g = Ok true).
Proof.
  exact (fun sigma_of vk_of stake_of won phi msg a m k l res vals pidx He Hs =>
           quorum_passes_c01 sigma_of vk_of stake_of won phi msg a m k l res vals pidx He (select_sound m k l res Hs)).
Qed.

(* non-vacuity *)
Example C02_ex_embeds :
  embeds (fun g => SigOf (if g =? 5 then 1 else 2) (msgp [7] (MV.Base.SymHash.BLit []))) (fun e => e + 1) (fun _ => 1)
         (fun _ _ _ _ _ _ => true) 0 [7] {| av_root := MV.Base.SymHash.BLit []; av_nl := 3; av_total := 3 |} 10 ex_l.
Proof.
  intros o [<-|[<-|[<-|[]]]] Hv; try (vm_compute in Hv; discriminate); (split; [vm_compute; reflexivity | intros; reflexivity]).
Qed.
Example C02_ex_covered : covered 10 ex_l = [0; 1; 2; 3].
Proof. vm_compute. reflexivity. Qed.
Example C02_ex_select :
  select 10 4 ex_l
  = Some [ {| sg := 3; ent := 1; idxs := [2; 3]; slot := 1; sok := true; lost := [] |};
           {| sg := 5; ent := 0; idxs := [0; 1]; slot := 0; sok := true; lost := [] |} ].
Proof. vm_compute. reflexivity. Qed.
Example C02_ex_no_ties : no_ties 10 ex_l.
Proof.
  intros s s' Hs Hs' _ _. cbn in Hs, Hs'.
  repeat (destruct Hs as [<-|Hs]; [repeat (destruct Hs' as [<-|Hs']; [cbn; intros; try reflexivity; discriminate|]); destruct Hs'|]).
  destruct Hs.
Qed.
Example C02_ex_not_enough : select 10 5 ex_l = None.
Proof. vm_compute. reflexivity. Qed.
