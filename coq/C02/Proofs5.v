(* C02/Proofs5.v — the result is invariant under permutations of the input (no sigma ties between entries). *)
From Coq Require Import List NArith Bool Lia Permutation Sorted.
From MV Require Import Base.Prelude Base.SortUnique C02.Model.
From MV Require Import C02.Spec C02.Proofs1 C02.Proofs2 C02.Proofs C02.Proofs4.
Import ListNotations.
Open Scope N_scope.

(* ------------------------------------------------------------------ the result depends on the map only through the owners' keys *)
Definition okey (mp : bymap) (i : N) : option (N * N) := option_map key (lookup mp i).

Lemma key_eqb_cong a a' b b' : key a = key a' -> key b = key b' -> key_eqb a b = key_eqb a' b'.
Proof.
  unfold key, key_eqb. intros H1 H2. injection H1 as -> ->. injection H2 as -> ->. reflexivity.
Qed.

Lemma existsb_key_cong s s' seen seen' :
  key s = key s' -> map key seen = map key seen' ->
  existsb (key_eqb s) seen = existsb (key_eqb s') seen'.
Proof.
  intros Hk Hm.
  destruct (existsb (key_eqb s) seen) eqn:E1, (existsb (key_eqb s') seen') eqn:E2; try reflexivity.
  - apply existsb_key in E1. rewrite Hk, Hm in E1. apply existsb_key in E1. congruence.
  - apply existsb_key in E2. rewrite <- Hk, <- Hm in E2. apply existsb_key in E2. congruence.
Qed.

Lemma okey_cases mp mp' i : okey mp i = okey mp' i ->
  (lookup mp i = None /\ lookup mp' i = None) \/
  (exists s s', lookup mp i = Some s /\ lookup mp' i = Some s' /\ key s = key s').
Proof.
  unfold okey. destruct (lookup mp i) as [s|], (lookup mp' i) as [s'|]; cbn [option_map]; intros H; try discriminate.
  - right. exists s, s'. injection H as H1 H2. repeat split; try reflexivity. unfold key. congruence.
  - left. split; reflexivity.
Qed.

Lemma owned_keq mp mp' D s s' : (forall i, okey mp i = okey mp' i) -> key s = key s' ->
  owned mp D s = owned mp' D s'.
Proof.
  intros H Hk. unfold owned. apply filter_ext. intros i. unfold owns.
  destruct (okey_cases mp mp' i (H i)) as [[-> ->]|[o [o' [-> [-> Ho]]]]]; [reflexivity|].
  apply key_eqb_cong; assumption.
Qed.


Lemma proj_with_idxs s s' a : key s = key s' -> proj (with_idxs s a) = proj (with_idxs s' a).
Proof. unfold proj, key, with_idxs. cbn. intros H. injection H as -> ->. reflexivity. Qed.

Lemma pass2_keq k mp mp' D : (forall i, okey mp i = okey mp' i) ->
  forall dom seen seen' acc acc' count,
    map key seen = map key seen' -> map proj acc = map proj acc' ->
    option_map (map proj) (pass2 k mp D dom seen acc count)
    = option_map (map proj) (pass2 k mp' D dom seen' acc' count).
Proof.
  intros H. induction dom as [|i dom IH]; intros seen seen' acc acc' count Hs Ha; [reflexivity|].
  cbn [pass2].
  destruct (okey_cases mp mp' i (H i)) as [[-> ->]|[s [s' [-> [-> Hk]]]]]; [apply IH; assumption|].
  rewrite (existsb_key_cong s s' seen seen' Hk Hs).
  destruct (existsb (key_eqb s') seen'); [apply IH; assumption|].
  rewrite (owned_keq mp mp' D s s' H Hk).
  destruct (k <=? count + N.of_nat (length (owned mp' D s'))).
  - cbn [option_map map]. f_equal. f_equal; [|exact Ha]. apply proj_with_idxs. exact Hk.
  - apply IH.
    + cbn [map]. rewrite Hk, Hs. reflexivity.
    + cbn [map]. f_equal; [|exact Ha]. apply proj_with_idxs. exact Hk.
Qed.

Lemma domain_keq mp mp' : (forall i, okey mp i = okey mp' i) -> domain mp = domain mp'.
Proof.
  intros H. unfold domain. apply sortN_eq. apply NoDup_Permutation; try apply NoDup_nodup.
  intros x. rewrite !nodup_In, !in_map_fst_lookup.
  destruct (okey_cases mp mp' x (H x)) as [[-> ->]|[s [s' [-> [-> _]]]]]; split; intros Hx; congruence.
Qed.

Lemma best_key_perm V V' i : Permutation V V' ->
  (forall s s', In s V -> In s' V -> sg s = sg s' -> ent s = ent s') ->
  option_map key (best V i None) = option_map key (best V' i None).
Proof.
  intros Hp Hnt.
  destruct (best V i None) as [x|] eqn:E, (best V' i None) as [x'|] eqn:E'; cbn [option_map].
  - f_equal.
    pose proof (best_some _ _ _ _ E) as [|[Hx Hi]]; [discriminate|].
    pose proof (best_some _ _ _ _ E') as [|[Hx' Hi']]; [discriminate|].
    pose proof (best_min _ _ _ _ E) as [_ Hm]. pose proof (best_min _ _ _ _ E') as [_ Hm'].
    assert (Hx'V : In x' V) by (eapply Permutation_in; [apply Permutation_sym|]; eassumption).
    assert (HxV' : In x V') by (eapply Permutation_in; eassumption).
    specialize (Hm x' Hx'V Hi'). specialize (Hm' x HxV' Hi).
    assert (Hsg : sg x = sg x') by lia.
    unfold key. rewrite Hsg, (Hnt x x' Hx Hx'V Hsg). reflexivity.
  - exfalso. pose proof (best_some _ _ _ _ E) as [|[Hx Hi]]; [discriminate|].
    apply best_none in E'. destruct E' as [_ E']. apply (E' x); [eapply Permutation_in; eassumption | exact Hi].
  - exfalso. pose proof (best_some _ _ _ _ E') as [|[Hx Hi]]; [discriminate|].
    apply best_none in E. destruct E as [_ E]. apply (E x'); [eapply Permutation_in; [apply Permutation_sym|]; eassumption | exact Hi].
  - reflexivity.
Qed.

Lemma filter_perm (A : Type) (f : A -> bool) l l' : Permutation l l' -> Permutation (filter f l) (filter f l').
Proof.
  induction 1; cbn [filter].
  - constructor.
  - destruct (f x); [constructor|]; assumption.
  - destruct (f x), (f y); try apply perm_swap; apply Permutation_refl.
  - eapply Permutation_trans; eassumption.
Qed.

(* 5. for any permutation of the input the result is the same list of (sigma, entry, index list) *)
Theorem select_perm_exact m k l l' : Permutation l l' -> no_ties m l ->
  option_map (map proj) (select m k l) = option_map (map proj) (select m k l').
Proof.
  intros Hp Hnt. unfold select.
  set (V := filter (valid m) l). set (V' := filter (valid m) l').
  assert (HpV : Permutation V V') by (apply filter_perm; exact Hp).
  assert (HntV : forall s s', In s V -> In s' V -> sg s = sg s' -> ent s = ent s').
  { intros s s' Hs Hs'. apply filter_In in Hs. apply filter_In in Hs'. destruct Hs, Hs'. apply Hnt; assumption. }
  assert (Hk : forall i, okey (pass1 V) i = okey (pass1 V') i).
  { intros i. unfold okey. rewrite !lookup_pass1. apply best_key_perm; assumption. }
  rewrite (domain_keq _ _ Hk). apply pass2_keq; [exact Hk | reflexivity | reflexivity].
Qed.
