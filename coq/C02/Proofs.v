(* C02/Proofs.v — soundness, exact characterisation of success, completeness, monotonicity. *)
From Coq Require Import List NArith Bool Lia Permutation Sorted.
From MV Require Import Base.Prelude Base.SortUnique C02.Model.
From MV Require Import C02.Spec C02.Proofs1 C02.Proofs2.
Import ListNotations.
Open Scope N_scope.

Lemma valid_idx m o i : valid m o = true -> In i (idxs o) -> i < m /\ ~ In i (lost o).
Proof.
  unfold valid. intros H Hi. apply andb_true_iff in H as [_ H].
  rewrite forallb_forall in H. specialize (H i Hi). apply andb_true_iff in H as [H1 H2].
  apply N.ltb_lt in H1. split; [exact H1|]. intros Hc. apply memN_In in Hc. rewrite Hc in H2. discriminate.
Qed.

Lemma dom_cov V i : In i (domain (pass1 V)) <-> In i (flat_map idxs V).
Proof.
  rewrite domain_in, lookup_pass1. split.
  - intros H. destruct (in_dec N.eq_dec i (flat_map idxs V)) as [Hin|Hn]; [exact Hin|].
    exfalso. apply H. apply best_none. split; [reflexivity|].
    intros s Hs Hc. apply Hn. apply in_flat_map. exists s. split; assumption.
  - intros H Hb. apply in_flat_map in H. destruct H as [s [Hs Hi]].
    apply best_none in Hb. destruct Hb as [_ Hb]. exact (Hb s Hs Hi).
Qed.

Lemma dom_cov_perm m l : Permutation (domain (pass1 (filter (valid m) l))) (covered m l).
Proof.
  apply NoDup_Permutation; [apply domain_nodup | apply NoDup_nodup|].
  intros i. unfold covered. rewrite nodup_In. apply dom_cov.
Qed.
Lemma dom_cov_length m l : length (domain (pass1 (filter (valid m) l))) = length (covered m l).
Proof. apply Permutation_length, dom_cov_perm. Qed.
Lemma dom_cov_nil m l : domain (pass1 (filter (valid m) l)) = [] <-> covered m l = [].
Proof.
  split; intros H; apply length_zero_iff_nil; [rewrite <- dom_cov_length | rewrite dom_cov_length]; rewrite H; reflexivity.
Qed.

Lemma lookup_pass1_in V i o : lookup (pass1 V) i = Some o -> In o V /\ In i (idxs o).
Proof.
  rewrite lookup_pass1. intros H. apply best_some in H. destruct H as [H|H]; [discriminate | exact H].
Qed.

(* ------------------------------------------------------------------ soundness of a success *)
Theorem select_sound m k l res : select m k l = Some res -> valid_quorum m k l res.
Proof.
  unfold select. set (V := filter (valid m) l). set (mp := pass1 V). set (D := domain mp).
  intros H. destruct (pass2_some k mp D D [] [] 0 res H eq_refl eq_refl) as [seen [Hres [Hk [Hin Hnd]]]].
  assert (HndS : NoDup (map key seen)) by (apply Hnd; constructor).
  assert (Hown : forall s, In s seen -> exists i, In i D /\ lookup mp i = Some s).
  { intros s Hs. destruct (Hin s Hs) as [[]|Hx]. exact Hx. }
  subst res. unfold valid_quorum. repeat split.
  - exact Hk.
  - apply all_res_idx_nodup; [apply domain_nodup | exact HndS].
  - rewrite map_key_rsig. exact HndS.
  - apply in_map_iff in H0. destruct H0 as [s [<- Hs]]. destruct (Hown s Hs) as [i [Hi Hl]].
    cbn [rsig with_idxs idxs]. intros Hc.
    assert (Hin' : In i (owned mp D s)).
    { apply owned_in. split; [exact Hi|]. exists s. split; [exact Hl | reflexivity]. }
    rewrite Hc in Hin'. destruct Hin'.
  - apply in_map_iff in H0. destruct H0 as [s [<- Hs]]. destruct (Hown s Hs) as [i [Hi Hl]].
    apply lookup_pass1_in in Hl. destruct Hl as [HsV _]. apply filter_In in HsV. destruct HsV as [Hsl Hv].
    exists s. split; [exact Hsl|]. split; [exact Hv | reflexivity].
  - apply in_map_iff in H0. destruct H0 as [s [<- Hs]]. cbn [rsig with_idxs idxs] in H1.
    apply owned_in in H1. destruct H1 as [_ [o [Ho _]]].
    apply lookup_pass1_in in Ho. destruct Ho as [HoV Hio]. apply filter_In in HoV. destruct HoV as [_ Hv].
    apply (valid_idx m o i Hv Hio).
  - apply in_map_iff in H0. destruct H0 as [s [<- Hs]]. cbn [rsig with_idxs idxs] in H1.
    apply owned_in in H1. destruct H1 as [_ [o [Ho Hk']]].
    apply lookup_pass1_in in Ho. destruct Ho as [HoV Hio]. apply filter_In in HoV. destruct HoV as [Hol Hv].
    exists o. split; [exact Hol|]. split; [exact Hv|]. split; [rewrite key_rsig; exact Hk'|].
    split; [exact Hio | apply (valid_idx m o i Hv Hio)].
Qed.

(* ------------------------------------------------------------------ exact characterisation of success *)
Lemma select_some_enough m k l res : select m k l = Some res ->
  k <= N.of_nat (length (covered m l)) /\ covered m l <> [].
Proof.
  intros H. pose proof (select_sound m k l res H) as [Hk [Hnd _]].
  revert H. unfold select. set (V := filter (valid m) l). set (mp := pass1 V). set (D := domain mp). intros H.
  destruct (pass2_some k mp D D [] [] 0 res H eq_refl eq_refl) as [seen [Hres _]].
  assert (Hlen : (length (all_res_idx res) <= length D)%nat).
  { apply NoDup_incl_length; [exact Hnd|]. rewrite Hres. apply all_res_idx_incl. }
  split.
  - rewrite <- dom_cov_length. fold V mp D. lia.
  - intros Hc. apply dom_cov_nil in Hc. fold V mp D in Hc. rewrite Hc in H. cbn [pass2] in H. discriminate.
Qed.

Lemma select_none_short m k l : select m k l = None ->
  N.of_nat (length (covered m l)) < k \/ covered m l = [].
Proof.
  unfold select. set (V := filter (valid m) l). set (mp := pass1 V). set (D := domain mp). intros H.
  destruct (pass2_none k mp D D [] [] 0 H eq_refl eq_refl (or_intror eq_refl)) as [seen [_ [Hall Hend]]].
  destruct Hend as [Hlt| ->].
  - left. rewrite <- dom_cov_length. fold V mp D.
    assert (Hlen : (length D <= length (all_res_idx (map (rsig mp D) seen)))%nat).
    { apply NoDup_incl_length; [apply domain_nodup|]. intros i Hi.
      assert (Hl : lookup mp i <> None) by (apply domain_in; exact Hi).
      destruct (lookup mp i) as [o|] eqn:Eo; [|congruence].
      specialize (Hall i o Hi Eo). apply in_map_iff in Hall. destruct Hall as [s [Hks Hs]].
      apply all_res_idx_in. exists s. split; [exact Hs|]. apply owned_in. split; [exact Hi|].
      exists o. split; [exact Eo | symmetry; exact Hks]. }
    lia.
  - right. apply dom_cov_nil. fold V mp D. destruct D as [|d D'] eqn:ED; [reflexivity|].
    exfalso. assert (Hd : In d (domain mp)) by (fold D; rewrite ED; left; reflexivity).
    apply domain_in in Hd. destruct (lookup mp d) as [o|] eqn:Eo; [|congruence].
    assert (Hd' : In d (d :: D')) by (left; reflexivity). apply (Hall d o Hd' Eo).
Qed.

Theorem select_success_iff m k l :
  select m k l <> None <-> (k <= N.of_nat (length (covered m l)) /\ covered m l <> []).
Proof.
  split.
  - intros H. destruct (select m k l) as [res|] eqn:E; [|congruence]. apply (select_some_enough m k l res E).
  - intros [Hk Hne] Hn. destruct (select_none_short m k l Hn) as [Hlt|He]; [lia | contradiction].
Qed.

Theorem select_complete m k l :
  0 < k -> k <= N.of_nat (length (covered m l)) ->
  exists res, select m k l = Some res /\ valid_quorum m k l res.
Proof.
  intros Hpos Hk. destruct (select m k l) as [res|] eqn:E.
  - exists res. split; [reflexivity | apply select_sound; exact E].
  - exfalso. destruct (select_none_short m k l E) as [Hlt|He]; [lia|]. rewrite He in Hk. cbn in Hk. lia.
Qed.

(* ------------------------------------------------------------------ monotonicity, order, copies *)
Lemma covered_incl m l l' :
  (forall s, In s l -> valid m s = true -> In s l') -> incl (covered m l) (covered m l').
Proof.
  intros H i. unfold covered. rewrite !nodup_In, !in_flat_map. intros [s [Hs Hi]].
  apply filter_In in Hs. destruct Hs as [Hs Hv]. exists s. split; [|exact Hi].
  apply filter_In. split; [apply H; assumption | exact Hv].
Qed.

Theorem select_monotone m k l l' :
  (forall s, In s l -> valid m s = true -> In s l') ->
  select m k l <> None -> select m k l' <> None.
Proof.
  intros H Hs. apply select_success_iff in Hs. destruct Hs as [Hk Hne]. apply select_success_iff.
  pose proof (covered_incl m l l' H) as Hincl.
  assert (Hlen : (length (covered m l) <= length (covered m l'))%nat).
  { apply NoDup_incl_length; [apply NoDup_nodup | exact Hincl]. }
  split; [lia|]. intros Hc. destruct (covered m l) as [|x r] eqn:E; [congruence|].
  specialize (Hincl x (or_introl eq_refl)). rewrite Hc in Hincl. destruct Hincl.
Qed.

Theorem select_monotone_quorum m k l l' res :
  (forall s, In s l -> valid m s = true -> In s l') ->
  select m k l = Some res -> exists res', select m k l' = Some res' /\ valid_quorum m k l' res'.
Proof.
  intros H Hs. assert (Hn : select m k l' <> None) by (apply (select_monotone m k l l' H); congruence).
  destruct (select m k l') as [res'|] eqn:E; [|congruence]. exists res'. split; [reflexivity | apply select_sound; exact E].
Qed.

Theorem select_perm_success m k l l' : Permutation l l' ->
  (select m k l <> None <-> select m k l' <> None).
Proof.
  intros Hp. split; apply select_monotone; intros s Hs _.
  - eapply Permutation_in; eassumption.
  - eapply Permutation_in; [apply Permutation_sym|]; eassumption.
Qed.

(* ------------------------------------------------------------------ junk *)
Lemma filter_app_junk (m : N) (l1 bad l2 : list sr) :
  forallb (fun s => negb (valid m s)) bad = true ->
  filter (valid m) (l1 ++ bad ++ l2) = filter (valid m) (l1 ++ l2).
Proof.
  intros H. rewrite !filter_app. f_equal.
  replace (filter (valid m) bad) with (@nil sr); [reflexivity|].
  induction bad as [|b r IH]; [reflexivity|].
  cbn [forallb] in H. apply andb_true_iff in H as [Hb Hr].
  cbn [filter]. destruct (valid m b); [discriminate|]. apply IH, Hr.
Qed.

Lemma select_junk (m k : N) (l1 bad l2 : list sr) :
  forallb (fun s => negb (valid m s)) bad = true ->
  select m k (l1 ++ bad ++ l2) = select m k (l1 ++ l2).
Proof. intros H. unfold select. rewrite (filter_app_junk m l1 bad l2 H). reflexivity. Qed.
