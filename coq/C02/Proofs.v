(* C02/Proofs.v — lemmas about the quorum selection model. *)
From Coq Require Import List NArith Bool Lia Permutation Sorted.
From MV Require Import Base.Prelude Base.SortUnique C02.Model.
Import ListNotations.
Open Scope N_scope.

(* ------------------------------------------------------------------ junk *)
Lemma filter_app_junk (m : N) (l1 bad l2 : list sr) :
  forallb (fun s => negb (valid m s)) bad = true ->
  filter (valid m) (l1 ++ bad ++ l2) = filter (valid m) (l1 ++ l2).
Proof.
  intros H. rewrite !filter_app. f_equal.
  replace (filter (valid m) bad) with (@nil sr); [reflexivity|].
  induction bad as [|b r IH]; [reflexivity|].
  cbn [forallb] in H. apply andb_true_iff in H as [Hb Hr].
  cbn [filter]. destruct (valid m b); [discriminate|]. apply IH, Hr.
Qed.

Lemma select_junk (m k : N) (l1 bad l2 : list sr) :
  forallb (fun s => negb (valid m s)) bad = true ->
  select m k (l1 ++ bad ++ l2) = select m k (l1 ++ l2).
Proof. intros H. unfold select. rewrite (filter_app_junk m l1 bad l2 H). reflexivity. Qed.
