(* C02/Proofs2.v — the ordered key set of the map; invariants of the second loop. *)
From Coq Require Import List NArith Bool Lia Permutation Sorted.
From MV Require Import Base.Prelude Base.SortUnique C02.Model.
From MV Require Import C02.Proofs1.
Import ListNotations.
Open Scope N_scope.

(* ------------------------------------------------------------------ domain *)
Lemma leb_total x y : N.leb x y = true \/ N.leb y x = true.
Proof. rewrite !N.leb_le. lia. Qed.
Lemma leb_trans x y z : N.leb x y = true -> N.leb y z = true -> N.leb x z = true.
Proof. rewrite !N.leb_le. lia. Qed.
Lemma leb_antisym x y : N.leb x y = true -> N.leb y x = true -> x = y.
Proof. rewrite !N.leb_le. lia. Qed.

Lemma sortN_perm l : Permutation l (sortN l).
Proof. apply isort_is_perm. Qed.
Lemma sortN_eq l l' : Permutation l l' -> sortN l = sortN l'.
Proof. apply isort_perm; [exact leb_total | exact leb_trans | exact leb_antisym]. Qed.

Lemma in_map_fst_lookup mp i : In i (map fst mp) <-> lookup mp i <> None.
Proof.
  induction mp as [|[j s] mp IH]; cbn [map fst lookup In].
  - split; [intros [] | intros H; apply H; reflexivity].
  - destruct (j =? i) eqn:E.
    + apply N.eqb_eq in E. split; [intros _; discriminate | intros _; left; exact E].
    + apply N.eqb_neq in E. rewrite <- IH. split; [intros [H|H]; [contradiction | exact H] | intros H; right; exact H].
Qed.

Lemma domain_in mp i : In i (domain mp) <-> lookup mp i <> None.
Proof.
  unfold domain. split; intros H.
  - apply in_map_fst_lookup. apply (nodup_In N.eq_dec). eapply Permutation_in; [apply Permutation_sym, sortN_perm | exact H].
  - apply in_map_fst_lookup in H. apply (nodup_In N.eq_dec) in H. eapply Permutation_in; [apply sortN_perm | exact H].
Qed.
Lemma domain_nodup mp : NoDup (domain mp).
Proof.
  unfold domain. eapply Permutation_NoDup; [apply sortN_perm | apply NoDup_nodup].
Qed.

Lemma domain_ext mp mp' : (forall i, lookup mp i = lookup mp' i) -> domain mp = domain mp'.
Proof.
  intros H. unfold domain. apply sortN_eq. apply NoDup_Permutation; try apply NoDup_nodup.
  intros x. rewrite !nodup_In, !in_map_fst_lookup, H. reflexivity.
Qed.

(* ------------------------------------------------------------------ second loop *)
Lemma nodup_app_intro (A : Type) (l1 l2 : list A) :
  NoDup l1 -> NoDup l2 -> (forall x, In x l1 -> ~ In x l2) -> NoDup (l1 ++ l2).
Proof.
  induction l1 as [|a l1 IH]; intros H1 H2 Hd; [exact H2|].
  cbn [app]. inversion H1 as [|? ? Ha H1']; subst. constructor.
  - rewrite in_app_iff. intros [H|H]; [contradiction | apply (Hd a); [left; reflexivity | exact H]].
  - apply IH; [exact H1' | exact H2 | intros x Hx; apply Hd; right; exact Hx].
Qed.

Section Pass2.
  Variables (k : N) (mp : bymap) (D : list N).
  Definition rsig (s : sr) : sr := with_idxs s (owned mp D s).

  Lemma key_rsig s : key (rsig s) = key s.
  Proof. reflexivity. Qed.
  Lemma map_key_rsig l : map key (map rsig l) = map key l.
  Proof. rewrite map_map. reflexivity. Qed.

  Lemma all_res_idx_cons s acc :
    N.of_nat (length (all_res_idx (rsig s :: acc)))
    = N.of_nat (length (all_res_idx acc)) + N.of_nat (length (owned mp D s)).
  Proof.
    unfold all_res_idx. cbn [flat_map rsig with_idxs idxs]. rewrite app_length. lia.
  Qed.

  Lemma pass2_some : forall dom seen acc count res,
    pass2 k mp D dom seen acc count = Some res ->
    acc = map rsig seen -> count = N.of_nat (length (all_res_idx acc)) ->
    exists seen', res = map rsig seen' /\ k <= N.of_nat (length (all_res_idx res)) /\
      (forall s, In s seen' -> In s seen \/ exists i, In i dom /\ lookup mp i = Some s) /\
      (NoDup (map key seen) -> NoDup (map key seen')).
  Proof.
    induction dom as [|i dom IH]; intros seen acc count res H Hacc Hcount; cbn [pass2] in H; [discriminate|].
    destruct (lookup mp i) as [s|] eqn:El.
    2:{ destruct (IH _ _ _ _ H Hacc Hcount) as [seen' [A [B [C E]]]]. exists seen'. repeat split; try assumption.
        intros s Hs. destruct (C s Hs) as [?|[j [Hj Hl]]]; [left; assumption | right; exists j; split; [right|]; assumption]. }
    destruct (existsb (key_eqb s) seen) eqn:Ee.
    { destruct (IH _ _ _ _ H Hacc Hcount) as [seen' [A [B [C E]]]]. exists seen'. repeat split; try assumption.
      intros s0 Hs. destruct (C s0 Hs) as [?|[j [Hj Hl]]]; [left; assumption | right; exists j; split; [right|]; assumption]. }
    assert (Hnew : ~ In (key s) (map key seen)).
    { intros Hc. apply existsb_key in Hc. congruence. }
    assert (Hc' : count + N.of_nat (length (owned mp D s)) = N.of_nat (length (all_res_idx (rsig s :: acc)))).
    { rewrite all_res_idx_cons, Hcount. reflexivity. }
    fold (rsig s) in H.
    destruct (k <=? count + N.of_nat (length (owned mp D s))) eqn:Ek.
    - injection H as <-. exists (s :: seen). repeat split.
      + cbn [map]. rewrite Hacc. reflexivity.
      + apply N.leb_le in Ek. rewrite <- Hc'. exact Ek.
      + intros s0 [<-|Hs]; [right; exists i; split; [left; reflexivity | exact El] | left; exact Hs].
      + intros Hnd. cbn [map]. constructor; assumption.
    - assert (Hacc' : rsig s :: acc = map rsig (s :: seen)) by (cbn [map]; rewrite Hacc; reflexivity).
      destruct (IH _ _ _ _ H Hacc' Hc') as [seen' [A [B [C E]]]]. exists seen'. repeat split; try assumption.
      + intros s0 Hs. destruct (C s0 Hs) as [[<-|?]|[j [Hj Hl]]].
        * right. exists i. split; [left; reflexivity | exact El].
        * left. assumption.
        * right. exists j. split; [right|]; assumption.
      + intros Hnd. apply E. cbn [map]. constructor; assumption.
  Qed.

  Lemma pass2_none : forall dom seen acc count,
    pass2 k mp D dom seen acc count = None ->
    acc = map rsig seen -> count = N.of_nat (length (all_res_idx acc)) ->
    (count < k \/ seen = []) ->
    exists seen', incl seen seen' /\
      (forall i o, In i dom -> lookup mp i = Some o -> In (key o) (map key seen')) /\
      (N.of_nat (length (all_res_idx (map rsig seen'))) < k \/ seen' = []).
  Proof.
    induction dom as [|i dom IH]; intros seen acc count H Hacc Hcount Hpre; cbn [pass2] in H.
    - exists seen. split; [apply incl_refl|]. split; [intros i o []|].
      destruct Hpre as [Hlt|He]; [left; rewrite <- Hacc, <- Hcount; exact Hlt | right; exact He].
    - destruct (lookup mp i) as [s|] eqn:El.
      2:{ destruct (IH _ _ _ H Hacc Hcount Hpre) as [seen' [A [B C]]]. exists seen'. repeat split; try assumption.
          intros j o [<-|Hj] Hl; [congruence | eapply B; eassumption]. }
      destruct (existsb (key_eqb s) seen) eqn:Ee.
      { destruct (IH _ _ _ H Hacc Hcount Hpre) as [seen' [A [B C]]]. exists seen'. repeat split; try assumption.
        intros j o [<-|Hj] Hl; [|eapply B; eassumption].
        rewrite El in Hl. injection Hl as <-. apply existsb_key in Ee.
        apply in_map_iff in Ee. destruct Ee as [x [Hx1 Hx2]]. apply in_map_iff. exists x. split; [exact Hx1 | apply A, Hx2]. }
      fold (rsig s) in H.
      assert (Hc' : count + N.of_nat (length (owned mp D s)) = N.of_nat (length (all_res_idx (rsig s :: acc)))).
      { rewrite all_res_idx_cons, Hcount. reflexivity. }
      destruct (k <=? count + N.of_nat (length (owned mp D s))) eqn:Ek; [discriminate|].
      apply N.leb_gt in Ek.
      assert (Hacc' : rsig s :: acc = map rsig (s :: seen)) by (cbn [map]; rewrite Hacc; reflexivity).
      destruct (IH _ _ _ H Hacc' Hc' (or_introl Ek)) as [seen' [A [B C]]]. exists seen'. repeat split; try assumption.
      + intros x Hx. apply A. right. exact Hx.
      + intros j o [<-|Hj] Hl; [|eapply B; eassumption].
        rewrite El in Hl. injection Hl as <-. apply in_map. apply A. left. reflexivity.
  Qed.

  (* the index lists of the result are pairwise disjoint *)
  Lemma owned_in s i : In i (owned mp D s) <-> In i D /\ exists o, lookup mp i = Some o /\ key o = key s.
  Proof.
    unfold owned, owns. rewrite filter_In. split.
    - intros [Hi H]. split; [exact Hi|]. destruct (lookup mp i) as [o|]; [|discriminate].
      exists o. split; [reflexivity | apply key_eqb_eq; exact H].
    - intros [Hi [o [Ho Hk]]]. split; [exact Hi|]. rewrite Ho. apply key_eqb_eq. exact Hk.
  Qed.

  Lemma all_res_idx_in seen i :
    In i (all_res_idx (map rsig seen)) <-> exists s, In s seen /\ In i (owned mp D s).
  Proof.
    unfold all_res_idx. rewrite in_flat_map. split.
    - intros [r [Hr Hi]]. apply in_map_iff in Hr. destruct Hr as [s [<- Hs]]. exists s. split; [exact Hs | exact Hi].
    - intros [s [Hs Hi]]. exists (rsig s). split; [apply in_map; exact Hs | exact Hi].
  Qed.

  Lemma all_res_idx_nodup seen : NoDup D -> NoDup (map key seen) -> NoDup (all_res_idx (map rsig seen)).
  Proof.
    intros HD. induction seen as [|s seen IH]; intros Hnd; [constructor|].
    cbn [map] in Hnd. inversion Hnd as [|? ? Hs Hnd']; subst.
    unfold all_res_idx. cbn [map flat_map]. apply nodup_app_intro.
    - cbn [rsig with_idxs idxs]. unfold owned. apply NoDup_filter. exact HD.
    - apply IH. exact Hnd'.
    - intros x Hx Hx'. cbn [rsig with_idxs idxs] in Hx. apply owned_in in Hx. destruct Hx as [_ [o [Ho Hk]]].
      fold (all_res_idx (map rsig seen)) in Hx'. apply all_res_idx_in in Hx'. destruct Hx' as [s' [Hs' Hi']].
      apply owned_in in Hi'. destruct Hi' as [_ [o' [Ho' Hk']]]. rewrite Ho in Ho'. injection Ho' as <-.
      apply Hs. rewrite <- Hk, Hk'. apply in_map. exact Hs'.
  Qed.

  Lemma all_res_idx_incl seen : incl (all_res_idx (map rsig seen)) D.
  Proof. intros i Hi. apply all_res_idx_in in Hi. destruct Hi as [s [_ Hi]]. apply owned_in in Hi. apply Hi. Qed.
End Pass2.
