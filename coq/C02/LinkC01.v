(* C02/LinkC01.v — a selection result, read as a C01 aggregate, passes every test of the C01 verifier
   that precedes the Merkle batch path, and the aggregate-signature check (definitions + proof). *)
From Coq Require Import List NArith Bool Lia Permutation.
From MV Require Import C01.Model C01.Proofs.
From MV Require Import Base.Prelude C02.Model.
From MV Require Import C02.Spec.
Import ListNotations.
Open Scope N_scope.

(* ------------------------------------------------------------------ link to the C01 verifier *)
Section C01Link.
  (* interpretation of the abstract sigma ranks / registration entries as C01's objects *)
  Variables (sigma_of : N -> MV.Base.IdealSig.sg) (vk_of stake_of : N -> N).
  Variables (won : lot) (phi : N) (msg : list N) (a : avk).

  Definition to_sigreg (r : sr) : sigreg :=
    {| sr_sig := {| s_sigma := sigma_of (C02.Model.sg r); s_idxs := idxs r; s_slot := slot r |};
       sr_vk := vk_of (ent r); sr_stake := stake_of (ent r) |}.

  (* the abstract validity flag of the C02 model agrees with C01's checks under the interpretation:
     a valid input signature verifies for msg||root under its entry's key, and each index it carries
     is won by (sigma, stake of the entry) *)
  Definition embeds (m : N) (l : list sr) : Prop :=
    forall o, In o l -> valid m o = true ->
      sg_verify (sigma_of (C02.Model.sg o)) (vk_of (ent o)) (msgp msg (av_root a)) = true /\
      forall i, In i (idxs o) ->
        won phi (sigma_of (C02.Model.sg o)) (msgp msg (av_root a)) i (stake_of (ent o)) (av_total a) = true.

  Lemma key_fields (x y : sr) : key x = key y -> C02.Model.sg x = C02.Model.sg y /\ ent x = ent y.
  Proof. unfold key. intros H. injection H. auto. Qed.

  Theorem quorum_passes_c01 m k l res vals pidx :
    embeds m l -> valid_quorum m k l res ->
    let g := {| a_sigs := map to_sigreg res; a_vals := vals; a_pidx := pidx |} in
    let p := {| p_m := m; p_k := k; p_phi := phi |} in
    prelim won p msg a g = ver_bpath (av_root a) (av_nl a) (leaves_of (a_sigs g)) vals pidx /\
    sagg (msgp msg (av_root a)) (a_sigs g) = true /\
    (ver_bpath (av_root a) (av_nl a) (leaves_of (a_sigs g)) vals pidx = Ok true ->
     C01.Model.verify won p msg a g = Ok true).
  Proof.
    intros Hemb [Hk [Hnd [_ [Hent Hidx]]]] g p.
    assert (Hci : forallb (check_indices won p (msgp msg (av_root a)) (av_total a)) (a_sigs g) = true).
    { apply forallb_forall. intros x Hx. cbn [g a_sigs] in Hx. apply in_map_iff in Hx. destruct Hx as [r [<- Hr]].
      unfold check_indices. cbn [to_sigreg sr_sig s_idxs s_sigma sr_stake p p_m p_phi].
      apply forallb_forall. intros i Hi. destruct (Hidx r i Hr Hi) as [Hlt [o [Ho [Hv [Hkey [Hio _]]]]]].
      apply andb_true_iff. split; [apply N.ltb_lt; exact Hlt|].
      destruct (key_fields o r Hkey) as [<- <-]. apply (Hemb o Ho Hv). exact Hio. }
    assert (Hall : all_idx (a_sigs g) = all_res_idx res).
    { unfold all_idx, all_res_idx. cbn [g a_sigs]. rewrite flat_map_map_c. reflexivity. }
    assert (Hs : sagg (msgp msg (av_root a)) (a_sigs g) = true).
    { unfold sagg. apply forallb_forall. intros x Hx. cbn [g a_sigs] in Hx. apply in_map_iff in Hx. destruct Hx as [r [<- Hr]].
      cbn [to_sigreg sr_sig s_sigma sr_vk]. destruct (Hent r Hr) as [_ [s [Hs [Hv He]]]].
      rewrite He. cbn [with_idxs C02.Model.sg ent]. apply (Hemb s Hs Hv). }
    assert (Hp : prelim won p msg a g = ver_bpath (av_root a) (av_nl a) (leaves_of (a_sigs g)) vals pidx).
    { unfold prelim. rewrite Hci. cbn [negb]. rewrite Hall.
      rewrite <- (NoDup_unique_count _ Hnd). rewrite Nat.eqb_refl. cbn [negb].
      replace (N.of_nat (length (all_res_idx res)) <? p_k p) with false; [reflexivity|].
      symmetry. apply N.ltb_ge. exact Hk. }
    split; [exact Hp|]. split; [exact Hs|].
    intros Hv. unfold C01.Model.verify. rewrite Hp, Hv, Hs. reflexivity.
  Qed.
End C01Link.
