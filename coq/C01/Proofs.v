(* C01/Proofs.v — soundness of the concatenation-proof verifier model. *)
From Coq Require Import Lia.
From MV Require Import Base.Prelude Base.SymHash Base.IdealSig C09.StmTree C09.Properties C01.Model.
Open Scope N_scope.

Lemma nodup_length_le (l : list N) : (length (nodup N.eq_dec l) <= length l)%nat.
Proof.
  induction l as [|a r IH]; simpl; [lia|]. destruct (in_dec N.eq_dec a r); simpl; lia.
Qed.

Lemma unique_count_NoDup (l : list N) : length l = unique_count l -> NoDup l.
Proof.
  unfold unique_count. induction l as [|a r IH]; simpl; [constructor|].
  destruct (in_dec N.eq_dec a r) as [Hin|Hn].
  - intros H. pose proof (nodup_length_le r). lia.
  - simpl. intros H. constructor; [exact Hn | apply IH; lia].
Qed.

Lemma NoDup_unique_count (l : list N) : NoDup l -> length l = unique_count l.
Proof.
  unfold unique_count. intros H. rewrite nodup_fixed_point; [reflexivity | exact H].
Qed.

Lemma leaf_of_not_pad vk st : leaf_of vk st <> BLit [0].
Proof. unfold leaf_of. intros H. injection H as H. discriminate. Qed.

Lemma leaf_of_inj vk st vk' st' : leaf_of vk st = leaf_of vk' st' -> vk = vk' /\ st = st'.
Proof. unfold leaf_of. intros H. injection H as -> ->. split; reflexivity. Qed.

Lemma msgp_inj m r m' r' : msgp m r = msgp m' r' -> m = m' /\ r = r'.
Proof. unfold msgp. intros H. injection H as -> ->. split; reflexivity. Qed.

(* the honest AVK of the registration whose committed leaves are L *)
Definition avk_of (L : list bt) (total : N) : avk :=
  {| av_root := mt_root (mk_tree L); av_nl := N.of_nat (length L); av_total := total |}.

Section Sound.
  Variable won : lot.

  (* what the preliminary checks establish *)
  Lemma prelim_sound L total p msg g :
    prelim won p msg (avk_of L total) g = Ok true ->
    let idx := all_idx (a_sigs g) in
    let mp := msgp msg (mt_root (mk_tree L)) in
    p_k p <= N.of_nat (length idx) /\
    NoDup idx /\
    (forall sr i, In sr (a_sigs g) -> In i (s_idxs (sr_sig sr)) ->
        i < p_m p /\ won (p_phi p) (s_sigma (sr_sig sr)) mp i (sr_stake sr) total = true) /\
    (forall j sr, nth_error (a_sigs g) j = Some sr ->
        exists pos, nth_error (a_pidx g) j = Some pos /\ pos < N.of_nat (length L) /\
                    nth_error L (N.to_nat pos) = Some (leaf_of (sr_vk sr) (sr_stake sr))).
  Proof.
    unfold prelim, avk_of; cbn [av_root av_nl av_total]. intros H.
    destruct (negb (forallb _ (a_sigs g))) eqn:E1; [discriminate|].
    destruct (negb (length (all_idx (a_sigs g)) =? unique_count (all_idx (a_sigs g)))%nat) eqn:E2; [discriminate|].
    destruct (N.of_nat (length (all_idx (a_sigs g))) <? p_k p) eqn:E3; [discriminate|].
    apply negb_false_iff in E1, E2. apply Nat.eqb_eq in E2. apply N.ltb_ge in E3.
    rewrite forallb_forall in E1.
    split; [exact E3|]. split; [apply unique_count_NoDup; exact E2|]. split.
    - intros sr i Hsr Hi. specialize (E1 sr Hsr). unfold check_indices in E1.
      rewrite forallb_forall in E1. specialize (E1 i Hi). apply andb_true_iff in E1 as [Hb Hw].
      apply N.ltb_lt in Hb. split; assumption.
    - intros j sr Hj.
      assert (Hlen : length (leaves_of (a_sigs g)) = length (a_pidx g)).
      { unfold ver_bpath in H.
        destruct (negb (length (leaves_of (a_sigs g)) =? length (a_pidx g))%nat) eqn:El; [discriminate|].
        apply negb_false_iff in El. apply Nat.eqb_eq in El. exact El. }
      assert (Hjlt : (j < length (a_pidx g))%nat).
      { rewrite <- Hlen. unfold leaves_of. rewrite map_length. apply nth_error_Some. rewrite Hj. discriminate. }
      destruct (nth_error (a_pidx g) j) as [pos|] eqn:Ep; [|apply nth_error_None in Ep; lia].
      exists pos. split; [reflexivity|].
      assert (Hleaf : nth_error (leaves_of (a_sigs g)) j = Some (leaf_of (sr_vk sr) (sr_stake sr))).
      { unfold leaves_of. rewrite nth_error_map, Hj. reflexivity. }
      exact (C09_stm_sound L _ _ _ H j pos _ Ep Hleaf (leaf_of_not_pad _ _)).
  Qed.

  Lemma verify_prelim p msg a g : verify won p msg a g = Ok true ->
    prelim won p msg a g = Ok true /\ sagg (msgp msg (av_root a)) (a_sigs g) = true.
  Proof.
    unfold verify. destruct (prelim won p msg a g) as [[|]| |]; try discriminate.
    intros H. injection H as H. split; [reflexivity | exact H].
  Qed.

  Lemma sagg_valid mp sigs : sagg mp sigs = true ->
    forall sr, In sr sigs -> s_sigma (sr_sig sr) = SigOf (sr_vk sr) mp.
  Proof.
    unfold sagg. rewrite forallb_forall. intros H sr Hsr. apply sg_verify_spec. apply H. exact Hsr.
  Qed.

  Theorem verify_sound L total p msg g :
    verify won p msg (avk_of L total) g = Ok true ->
    let idx := all_idx (a_sigs g) in
    let mp := msgp msg (mt_root (mk_tree L)) in
    p_k p <= N.of_nat (length idx) /\
    NoDup idx /\
    (forall i, In i idx -> i < p_m p) /\
    (forall sr i, In sr (a_sigs g) -> In i (s_idxs (sr_sig sr)) ->
        won (p_phi p) (s_sigma (sr_sig sr)) mp i (sr_stake sr) total = true) /\
    (forall j sr, nth_error (a_sigs g) j = Some sr ->
        exists pos, nth_error (a_pidx g) j = Some pos /\ pos < N.of_nat (length L) /\
                    nth_error L (N.to_nat pos) = Some (leaf_of (sr_vk sr) (sr_stake sr))) /\
    (forall sr, In sr (a_sigs g) -> s_sigma (sr_sig sr) = SigOf (sr_vk sr) mp).
  Proof.
    intros H. apply verify_prelim in H as [Hp Hs].
    destruct (prelim_sound _ _ _ _ _ Hp) as (Hk & Hnd & Hw & Hl).
    split; [exact Hk|]. split; [exact Hnd|]. split; [|split; [|split]].
    - intros i Hi. unfold all_idx in Hi. apply in_flat_map in Hi as (sr & Hsr & Hi).
      apply (Hw sr i Hsr Hi).
    - intros sr i Hsr Hi. apply (Hw sr i Hsr Hi).
    - exact Hl.
    - apply sagg_valid. exact Hs.
  Qed.

  (* the quorum statement: every index of an accepted aggregate was won by a COMMITTED (key, stake) with the
     unique valid signature of that key on msg||root — no adversary-chosen datum is left in the statement *)
  Theorem verify_quorum L total p msg g :
    verify won p msg (avk_of L total) g = Ok true ->
    let mp := msgp msg (mt_root (mk_tree L)) in
    exists idx, p_k p <= N.of_nat (length idx) /\ NoDup idx /\
      forall i, In i idx -> i < p_m p /\
        exists pos vk stake, nth_error L pos = Some (leaf_of vk stake) /\
          won (p_phi p) (SigOf vk mp) mp i stake total = true.
  Proof.
    intros H. destruct (verify_sound _ _ _ _ _ H) as (Hk & Hnd & Hm & Hw & Hl & Hs).
    exists (all_idx (a_sigs g)). split; [exact Hk|]. split; [exact Hnd|].
    intros i Hi. split; [apply Hm; exact Hi|].
    unfold all_idx in Hi. apply in_flat_map in Hi as (sr & Hsr & Hi).
    destruct (In_nth_error _ _ Hsr) as [j Hj].
    destruct (Hl j sr Hj) as (pos & _ & _ & Hpos).
    exists (N.to_nat pos), (sr_vk sr), (sr_stake sr). split; [exact Hpos|].
    rewrite <- (Hs sr Hsr). apply Hw; assumption.
  Qed.

  (* ---- mutation rejection, as corollaries *)
  Lemma accept_iff_not r : r <> Ok true <-> accepts r = false.
  Proof. destruct r as [[|]| |]; simpl; split; intros H; try reflexivity; try discriminate; try congruence. Qed.

  Corollary rejects_index_ge_m L total p msg g sr i :
    In sr (a_sigs g) -> In i (s_idxs (sr_sig sr)) -> p_m p <= i ->
    verify won p msg (avk_of L total) g <> Ok true.
  Proof.
    intros Hsr Hi Hge H. destruct (verify_sound _ _ _ _ _ H) as (_ & _ & Hm & _).
    assert (i < p_m p) by (apply Hm; unfold all_idx; apply in_flat_map; exists sr; split; assumption). lia.
  Qed.

  Corollary rejects_repeated_index L total p msg g :
    ~ NoDup (all_idx (a_sigs g)) -> verify won p msg (avk_of L total) g <> Ok true.
  Proof. intros Hn H. destruct (verify_sound _ _ _ _ _ H) as (_ & Hnd & _). contradiction. Qed.

  Corollary rejects_below_k L total p msg g :
    N.of_nat (length (all_idx (a_sigs g))) < p_k p -> verify won p msg (avk_of L total) g <> Ok true.
  Proof. intros Hn H. destruct (verify_sound _ _ _ _ _ H) as (Hk & _). lia. Qed.

  Corollary rejects_lost_index L total p msg g sr i :
    In sr (a_sigs g) -> In i (s_idxs (sr_sig sr)) ->
    won (p_phi p) (s_sigma (sr_sig sr)) (msgp msg (mt_root (mk_tree L))) i (sr_stake sr) total = false ->
    verify won p msg (avk_of L total) g <> Ok true.
  Proof.
    intros Hsr Hi Hl H. destruct (verify_sound _ _ _ _ _ H) as (_ & _ & _ & Hw & _).
    rewrite (Hw sr i Hsr Hi) in Hl. discriminate.
  Qed.

  Corollary rejects_uncommitted_party L total p msg g sr :
    In sr (a_sigs g) -> ~ In (leaf_of (sr_vk sr) (sr_stake sr)) L ->
    verify won p msg (avk_of L total) g <> Ok true.
  Proof.
    intros Hsr Hn H. destruct (verify_sound _ _ _ _ _ H) as (_ & _ & _ & _ & Hl & _).
    destruct (In_nth_error _ _ Hsr) as [j Hj]. destruct (Hl j sr Hj) as (pos & _ & _ & Hpos).
    apply Hn. eapply nth_error_In. exact Hpos.
  Qed.

  Corollary rejects_invalid_sigma L total p msg g sr :
    In sr (a_sigs g) -> s_sigma (sr_sig sr) <> SigOf (sr_vk sr) (msgp msg (mt_root (mk_tree L))) ->
    verify won p msg (avk_of L total) g <> Ok true.
  Proof.
    intros Hsr Hn H. destruct (verify_sound _ _ _ _ _ H) as (_ & _ & _ & _ & _ & Hs).
    apply Hn. apply Hs. exact Hsr.
  Qed.

  (* a signature made for another message, or under another registration, is not valid here *)
  Corollary rejects_other_message L total p msg g sr sk msg' root' :
    In sr (a_sigs g) -> s_sigma (sr_sig sr) = SigOf sk (msgp msg' root') ->
    (msg' <> msg \/ root' <> mt_root (mk_tree L)) ->
    verify won p msg (avk_of L total) g <> Ok true.
  Proof.
    intros Hsr He Hd. apply (rejects_invalid_sigma _ _ _ _ _ sr Hsr). rewrite He. intros Hq.
    unfold msgp in Hq. injection Hq as _ Hm Hr. destruct Hd as [Hd|Hd]; apply Hd; assumption.
  Qed.
End Sound.

(* the signer_index field carried by a single signature is not consulted by the aggregate verifier *)
Definition reslot (f : N -> N) (sr : sigreg) : sigreg :=
  {| sr_sig := {| s_sigma := s_sigma (sr_sig sr); s_idxs := s_idxs (sr_sig sr); s_slot := f (s_slot (sr_sig sr)) |};
     sr_vk := sr_vk sr; sr_stake := sr_stake sr |}.

Lemma forallb_map_c {A B} (f : A -> B) (q : B -> bool) l : forallb q (map f l) = forallb (fun x => q (f x)) l.
Proof. induction l as [|a r IH]; simpl; [reflexivity | rewrite IH; reflexivity]. Qed.
Lemma flat_map_map_c {A B C} (f : A -> B) (h : B -> list C) l : flat_map h (map f l) = flat_map (fun x => h (f x)) l.
Proof. induction l as [|a r IH]; simpl; [reflexivity | rewrite IH; reflexivity]. Qed.

Lemma slot_ignored won p msg a g f :
  verify won p msg a {| a_sigs := map (reslot f) (a_sigs g); a_vals := a_vals g; a_pidx := a_pidx g |}
  = verify won p msg a g.
Proof.
  unfold verify, prelim, sagg, all_idx, leaves_of, check_indices; cbn [a_sigs a_vals a_pidx].
  rewrite !forallb_map_c, !flat_map_map_c, !map_map. cbn [reslot sr_sig s_idxs s_sigma sr_vk sr_stake].
  reflexivity.
Qed.

(* ------------------------------------------------------------------ batch *)
Lemma prelim_all_each l : prelim_all l = Ok true ->
  forall w x, In (w, x) l -> bm_prelim w x = Ok true.
Proof.
  induction l as [|[w0 x0] r IH]; simpl; intros H w x Hin; [contradiction|].
  destruct (bm_prelim w0 x0) as [[|]| |] eqn:E; try discriminate.
  destruct Hin as [Heq|Hin]; [injection Heq as <- <-; exact E | apply IH; assumption].
Qed.

Theorem batch_each_w l : batch_verify_w l = Ok true ->
  forall w x, In (w, x) l -> bm_verify w x = Ok true.
Proof.
  unfold batch_verify_w. destruct (prelim_all l) as [[|]| |] eqn:E; try discriminate.
  intros H w x Hin. injection H as H. unfold sagg_batch in H. rewrite forallb_forall in H.
  pose proof (prelim_all_each l E w x Hin) as Hp. specialize (H (w, x) Hin). cbn [snd] in H.
  destruct x as [[[p msg] a] g]. unfold bm_verify, bm_prelim, bm_sagg, verify in *.
  rewrite Hp. rewrite H. reflexivity.
Qed.

Theorem batch_each won l : batch_verify won l = Ok true ->
  forall x, In x l -> bm_verify won x = Ok true.
Proof.
  unfold batch_verify. intros H x Hin. apply (batch_each_w _ H). apply in_map_iff. exists x. split; [reflexivity|exact Hin].
Qed.

(* conversely, without panics: if every member verifies alone the batch is accepted *)
Theorem batch_complete_w l : (forall w x, In (w, x) l -> bm_verify w x = Ok true) -> batch_verify_w l = Ok true.
Proof.
  intros H. unfold batch_verify_w.
  assert (Hp : prelim_all l = Ok true /\ sagg_batch l = true).
  { unfold sagg_batch. induction l as [|[w x] r IH]; simpl; [split; reflexivity|].
    assert (Hx := H w x (or_introl eq_refl)). destruct x as [[[p msg] a] g].
    unfold bm_verify in Hx. apply verify_prelim in Hx as [Hx1 Hx2].
    unfold bm_prelim, bm_sagg. rewrite Hx1. cbn [snd]. rewrite Hx2.
    destruct IH as [IH1 IH2]; [intros w' x' Hin; apply H; right; exact Hin|]. split; [exact IH1 | exact IH2]. }
  destruct Hp as [-> ->]. reflexivity.
Qed.

(* ------------------------------------------------------------------ non-vacuity: an honest 3-party aggregate *)
Definition exL : list (list N) := [[1; 10]; [2; 10]; [3; 30]].
Definition ex_msg : list N := [7; 7].
Definition ex_member (k : N) (idx3 : list N) : member :=
  MB exL 3 50 5 k ex_msg
     [GOf 1 ex_msg exL; GOf 3 ex_msg exL]
     [(0, [1], 0, 1, 10); (1, idx3, 2, 3, 30)]
     [SN 4] [0; 2]
     [(0, 1, 10); (1, 0, 30); (1, 2, 30); (1, 4, 30); (1, 5, 30)].
