(* C01/Properties.v — the property theorems, nothing else.
   C01: multi-signature soundness — an accepted aggregate carries a real stake quorum.
   Idealisations (DESIGN section 4; spelled out in C01/Model.v): S-ideal (signatures are terms, a valid
   signature of a key on a message is unique), S-agg (the random-coefficient aggregate checks of
   verify_aggregate / batch_verify_aggregates accept iff every constituent verifies), H-inj / H-sep
   (digests are terms; msg || root is an injective pairing), RO + C08 (the lottery decision is the
   oracle [won], whose meaning C08 proves).  [avk_of L total] is the aggregate verification key of the
   registration whose committed leaves are L (leaf = [leaf_of vk stake]). *)
From MV Require Import Base.Prelude Base.SymHash Base.IdealSig C09.StmTree C01.Model C01.Proofs.
Open Scope N_scope.

(* acceptance => (i) at least k indices, (ii) pairwise distinct, (iii) every index < m, (iv) every index
   won for msg||root by the (sigma, stake) of its signature under the AVK's total stake, (v) every
   (vk, stake) is the committed leaf at the position the batch path states (C09_stm_sound), (vi) every
   sigma is the valid signature of its vk on msg||root. *)
Theorem C01_sound : forall (won : lot) (L : list bt) (total : N) (p : params) (msg : list N) (g : agg),
  verify won p msg (avk_of L total) g = Ok true ->
  let idx := all_idx (a_sigs g) in
  let mp := msgp msg (mt_root (mk_tree L)) in
  p_k p <= N.of_nat (length idx) /\
  NoDup idx /\
  (forall i, In i idx -> i < p_m p) /\
  (forall sr i, In sr (a_sigs g) -> In i (s_idxs (sr_sig sr)) ->
      won (p_phi p) (s_sigma (sr_sig sr)) mp i (sr_stake sr) total = true) /\
  (forall j sr, nth_error (a_sigs g) j = Some sr ->
      exists pos, nth_error (a_pidx g) j = Some pos /\ pos < N.of_nat (length L) /\
                  nth_error L (N.to_nat pos) = Some (leaf_of (sr_vk sr) (sr_stake sr))) /\
  (forall sr, In sr (a_sigs g) -> s_sigma (sr_sig sr) = SigOf (sr_vk sr) mp).
Proof. exact verify_sound. Qed.

(* the same with every adversary-chosen datum eliminated: at least k distinct indices below m, each won
   by a COMMITTED (key, stake) through the unique valid signature of that key on msg||root *)
Theorem C01_quorum : forall (won : lot) (L : list bt) (total : N) (p : params) (msg : list N) (g : agg),
  verify won p msg (avk_of L total) g = Ok true ->
  let mp := msgp msg (mt_root (mk_tree L)) in
  exists idx, p_k p <= N.of_nat (length idx) /\ NoDup idx /\
    forall i, In i idx -> i < p_m p /\
      exists pos vk stake, nth_error L pos = Some (leaf_of vk stake) /\
        won (p_phi p) (SigOf vk mp) mp i stake total = true.
Proof. exact verify_quorum. Qed.

(* batch: accepted only if each member is accepted alone (each with its own lottery oracle), and
   conversely *)
Theorem C01_batch : forall (l : list (lot * bmember)), batch_verify_w l = Ok true ->
  forall w x, In (w, x) l -> bm_verify w x = Ok true.
Proof. exact batch_each_w. Qed.

Theorem C01_batch_one_oracle : forall (won : lot) (l : list bmember), batch_verify won l = Ok true ->
  forall x, In x l -> bm_verify won x = Ok true.
Proof. exact batch_each. Qed.

Theorem C01_batch_complete : forall (l : list (lot * bmember)),
  (forall w x, In (w, x) l -> bm_verify w x = Ok true) -> batch_verify_w l = Ok true.
Proof. exact batch_complete_w. Qed.

(* ---- what every class of mutation of the harness runs into *)
Corollary C01_rejects_index_ge_m : forall won L total p msg g sr i,
  In sr (a_sigs g) -> In i (s_idxs (sr_sig sr)) -> p_m p <= i ->
  verify won p msg (avk_of L total) g <> Ok true.
Proof. exact rejects_index_ge_m. Qed.

Corollary C01_rejects_repeated_index : forall won L total p msg g,
  ~ NoDup (all_idx (a_sigs g)) -> verify won p msg (avk_of L total) g <> Ok true.
Proof. exact rejects_repeated_index. Qed.

Corollary C01_rejects_below_k : forall won L total p msg g,
  N.of_nat (length (all_idx (a_sigs g))) < p_k p -> verify won p msg (avk_of L total) g <> Ok true.
Proof. exact rejects_below_k. Qed.

Corollary C01_rejects_lost_index : forall won L total p msg g sr i,
  In sr (a_sigs g) -> In i (s_idxs (sr_sig sr)) ->
  won (p_phi p) (s_sigma (sr_sig sr)) (msgp msg (mt_root (mk_tree L))) i (sr_stake sr) total = false ->
  verify won p msg (avk_of L total) g <> Ok true.
Proof. exact rejects_lost_index. Qed.

(* altered claimed stake or key, foreign party: the claimed (vk, stake) must be a committed leaf *)
Corollary C01_rejects_uncommitted_party : forall won L total p msg g sr,
  In sr (a_sigs g) -> ~ In (leaf_of (sr_vk sr) (sr_stake sr)) L ->
  verify won p msg (avk_of L total) g <> Ok true.
Proof. exact rejects_uncommitted_party. Qed.

Corollary C01_rejects_invalid_sigma : forall won L total p msg g sr,
  In sr (a_sigs g) -> s_sigma (sr_sig sr) <> SigOf (sr_vk sr) (msgp msg (mt_root (mk_tree L))) ->
  verify won p msg (avk_of L total) g <> Ok true.
Proof. exact rejects_invalid_sigma. Qed.

(* a signature made on another message or under another registration (root) *)
Corollary C01_rejects_other_message : forall won L total p msg g sr sk msg' root',
  In sr (a_sigs g) -> s_sigma (sr_sig sr) = SigOf sk (msgp msg' root') ->
  (msg' <> msg \/ root' <> mt_root (mk_tree L)) ->
  verify won p msg (avk_of L total) g <> Ok true.
Proof. exact rejects_other_message. Qed.

(* observation, not a violation: the signer_index carried inside a single signature is never consulted *)
Theorem C01_slot_not_consulted : forall won p msg a g (f : N -> N),
  verify won p msg a {| a_sigs := map (reslot f) (a_sigs g); a_vals := a_vals g; a_pidx := a_pidx g |}
  = verify won p msg a g.
Proof. exact slot_ignored. Qed.

(* ---- non-vacuity: an honest aggregate of a 3-party registration (parties 1 and 3 sign; k = 5, m = 5... 6)
   is accepted; with one more index required, with a repeated index, or with index m it is not. *)
Example C01_ex_accept :
  run_verify (ex_member 5 [0; 2; 4; 5]) = OZ 1 /\          (* index 5 = m: refused (the fixed defect) *)
  run_verify (ex_member 4 [0; 2; 4]) = OZ 0 /\
  run_verify (ex_member 5 [0; 2; 4]) = OZ 1 /\
  run_verify (ex_member 4 [0; 2; 1]) = OZ 1 /\
  run_batch [ex_member 4 [0; 2; 4]; ex_member 3 [0; 2; 4]] = OZ 0 /\
  run_batch [ex_member 4 [0; 2; 4]; ex_member 5 [0; 2; 4]] = OZ 1.
Proof. vm_compute. repeat split. Qed.

Example C01_ex_hyp : exists won L total p msg g, verify won p msg (avk_of L total) g = Ok true.
Proof.
  exists (fst (mb_parts (ex_member 4 [0; 2; 4]))), (payloads exL), 50.
  destruct (snd (mb_parts (ex_member 4 [0; 2; 4]))) as [[[p msg] a] g] eqn:E.
  exists p, msg, g. vm_compute in E. injection E as <- <- _ <-. vm_compute. reflexivity.
Qed.
