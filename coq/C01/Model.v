(* C01/Model.v — executable model of the concatenation-proof verifier.  Definitions only.
   Source (mithril-stm/src):
     proof_system/concatenation/single_signature.rs   check_indices              -> check_indices
     proof_system/concatenation/proof.rs              preliminary_verify         -> prelim
                                                      verify                     -> verify
                                                      batch_verify               -> batch_verify
     membership_commitment/merkle_tree/commitment.rs  verify_leaves_membership_from_batch_path
                                                                                 -> C09.StmTree.ver_bpath
     signature_scheme/bls_multi_signature/signature.rs verify_aggregate / batch_verify_aggregates
                                                                                 -> sagg / sagg_batch
   Idealisations (DESIGN section 4):
     S-ideal  a BLS signature is a term [SigOf sk msg | Junk n]; [sg_verify s vk m] holds iff s = SigOf vk m.
     S-agg    the random-coefficient aggregate check of [verify_aggregate] accepts iff every constituent
              (sigma_i, vk_i) verifies for msg||root.  The scalars are Blake2b("all sigmas" || position):
              stated, not proved (fails with probability ~2^-128).
     H-inj / H-sep  digests are terms (Base/SymHash.v); msg || root is an injective pairing because the
              root has a fixed length (32 bytes): [msgp].
     RO + C08 "index i is won by (sigma, stake) for msg||root under total stake, with phi_f" is the oracle
              [won]: the draw is Blake2b-512("map" || msg||root || index || sigma) (random oracle), the
              decision on the draw is C08's [is_lottery_won].  The correspondence run supplies the
              actual decisions of the real code for the (sigma, index, stake) triples of a case.
   The leaf committed for a party is the payload (vk, stake): [leaf_of] (real: 96 + 8 bytes). *)
From MV Require Export Base.Prelude Base.SymHash Base.IdealSig C09.StmTree C09.Model.
Open Scope N_scope.

Definition CONCAT : N := 100.            (* tag of the pairing msg || root; not a hash algorithm *)
Definition msgp (msg : list N) (root : bt) : bt := BHash CONCAT [BLit msg; root].

(* lottery oracle: phi_f tag, sigma, msg||root, index, stake, total stake *)
Definition lot := N -> sg -> bt -> N -> N -> N -> bool.

Record ssig := { s_sigma : sg; s_idxs : list N; s_slot : N }.        (* SingleSignature; slot = signer_index *)
Record sigreg := { sr_sig : ssig; sr_vk : N; sr_stake : N }.         (* SingleSignatureWithRegisteredParty *)
Record agg := { a_sigs : list sigreg; a_vals : list bt; a_pidx : list N }.   (* ConcatenationProof *)
Record avk := { av_root : bt; av_nl : N; av_total : N }.             (* AggregateVerificationKeyForConcatenation *)
Record params := { p_m : N; p_k : N; p_phi : N }.                    (* Parameters; phi_f only feeds [won] *)

Definition leaf_of (vk stake : N) : bt := BLit [vk; stake].

(* check_indices: for every index, `index >= params.m` -> Err (after fix: an index equal to m is
   refused), then the lottery.  No panic for total > 0 and phi_f in (0,1] (C08). *)
Definition check_indices (won : lot) (p : params) (mp : bt) (total : N) (sr : sigreg) : bool :=
  forallb (fun i => (i <? p_m p) &&
                    won (p_phi p) (s_sigma (sr_sig sr)) mp i (sr_stake sr) total)
          (s_idxs (sr_sig sr)).

(* every index of every signature, in signature order *)
Definition all_idx (sigs : list sigreg) : list N := flat_map (fun sr => s_idxs (sr_sig sr)) sigs.

(* nr_indices != unique_indices.len()  (a counter against a HashSet) *)
Definition unique_count (l : list N) : nat := length (nodup N.eq_dec l).

Definition leaves_of (sigs : list sigreg) : list bt := map (fun sr => leaf_of (sr_vk sr) (sr_stake sr)) sigs.

(* preliminary_verify: Ok true = Ok(..), Ok false / Err = Err(..), Panic = the batch-path panics *)
Definition prelim (won : lot) (p : params) (msg : list N) (a : avk) (g : agg) : result bool :=
  let mp := msgp msg (av_root a) in
  if negb (forallb (check_indices won p mp (av_total a)) (a_sigs g)) then Ok false else
  let idx := all_idx (a_sigs g) in
  if negb (length idx =? unique_count idx)%nat then Ok false else
  if N.of_nat (length idx) <? p_k p then Ok false else
  ver_bpath (av_root a) (av_nl a) (leaves_of (a_sigs g)) (a_vals g) (a_pidx g).

(* S-agg *)
Definition sagg (mp : bt) (sigs : list sigreg) : bool :=
  forallb (fun sr => sg_verify (s_sigma (sr_sig sr)) (sr_vk sr) mp) sigs.

Definition verify (won : lot) (p : params) (msg : list N) (a : avk) (g : agg) : result bool :=
  match prelim won p msg a g with
  | Ok true => Ok (sagg (msgp msg (av_root a)) (a_sigs g))
  | r => r
  end.

(* one batch member: (parameters, message, avk, proof) *)
Definition bmember := (params * list N * avk * agg)%type.
Definition bm_verify (won : lot) (x : bmember) : result bool :=
  let '(p, msg, a, g) := x in verify won p msg a g.
Definition bm_prelim (won : lot) (x : bmember) : result bool :=
  let '(p, msg, a, g) := x in prelim won p msg a g.
Definition bm_sagg (x : bmember) : bool :=
  let '(p, msg, a, g) := x in sagg (msgp msg (av_root a)) (a_sigs g).

(* AggregateSignature::batch_verify -> ConcatenationProof::batch_verify: preliminary_verify of every
   member in order (`?`), then batch_verify_aggregates over the per-member aggregates.  Each member
   comes with its own lottery oracle (msg||root, total stake and phi_f differ per member).
   S-agg for the batch (after fix: every aggregate is weighted by a coefficient derived from the whole
   batch): accepts iff every constituent of every member verifies.
   An empty batch never reaches ConcatenationProof::batch_verify (no proof type to dispatch on): Ok. *)
Fixpoint prelim_all (l : list (lot * bmember)) : result bool :=
  match l with
  | [] => Ok true
  | (w, x) :: r => match bm_prelim w x with
                   | Ok true => prelim_all r
                   | other => other
                   end
  end.

Definition sagg_batch (l : list (lot * bmember)) : bool := forallb (fun wx => bm_sagg (snd wx)) l.

Definition batch_verify_w (l : list (lot * bmember)) : result bool :=
  match prelim_all l with
  | Ok true => Ok (sagg_batch l)
  | r => r
  end.

Definition batch_verify (won : lot) (l : list bmember) : result bool :=
  batch_verify_w (map (fun x => (won, x)) l).

(* ------------------------------------------------------------------ case DSL of the correspondence run *)
(* a sigma of a case: the signature of key vk on msg under the registration whose leaves are Lr, or junk *)
Inductive sgspec := GOf (vk : N) (msg : list N) (Lr : list (list N)) | GJunk (k : N).
Definition root_of (L : list (list N)) : bt := mt_root (mk_tree (payloads L)).
Definition gden (s : sgspec) : sg :=
  match s with
  | GOf vk msg Lr => SigOf vk (msgp msg (root_of Lr))
  | GJunk k => Junk k
  end.

(* one verification: the AVK is that of registration L (leaves [vk; stake]) with the stated nr_leaves and
   total stake; sigs = (sigma number, indexes, slot, vk, stake); vals described as in C09.Model (SN p = the
   node at heap position p of the tree over L); wins = the (sigma number, index, stake) triples for which the
   real lottery (msg||root of L, total, phi_f of the case) says "won". *)
Inductive member :=
  MB (L : list (list N)) (nl total : N) (m k : N) (msg : list N)
     (sigmas : list sgspec) (sigs : list (N * list N * N * N * N))
     (vals : list sspec) (pidx : list N) (wins : list (N * N * N)).

Definition sig_nth (sigmas : list sgspec) (n : N) : sg := gden (nth (N.to_nat n) sigmas (GJunk 0)).

Definition won_of (sigmas : list sgspec) (wins : list (N * N * N)) : lot :=
  fun _ s _ i stake _ =>
    existsb (fun w => let '(sn, i', st') := w in
                      sg_eqb (sig_nth sigmas sn) s && (i =? i') && (stake =? st')) wins.

Definition mb_parts (x : member) : lot * bmember :=
  match x with
  | MB L nl total m k msg sigmas sigs vals pidx wins =>
      let t := mk_tree (payloads L) in
      (won_of sigmas wins,
       ({| p_m := m; p_k := k; p_phi := 0 |}, msg,
        {| av_root := mt_root t; av_nl := nl; av_total := total |},
        {| a_sigs := map (fun e => let '(sn, ix, slot, vk, st) := e in
                                   {| sr_sig := {| s_sigma := sig_nth sigmas sn; s_idxs := ix; s_slot := slot |};
                                      sr_vk := vk; sr_stake := st |}) sigs;
           a_vals := map (sden L t) vals; a_pidx := pidx |}))
  end.

Definition run_verify (x : member) : obs :=
  let '(w, b) := mb_parts x in verdict (bm_verify w b).

Definition run_batch (l : list member) : obs := verdict (batch_verify_w (map mb_parts l)).
