(* C19/Proofs.v — provenance of every file left by download_unpack *)
From Coq Require Import Lia.
From MV Require Import Base.Prelude Base.SymHash Base.IdealSig Gen.Consts C12.Model C12.Proofs C10.Model C10.Proofs C19.Model.
Open Scope list_scope.
Open Scope N_scope.

(* ---------- maps ---------- *)
Definition uniq (f : fs) : Prop := NoDup (map fst f).

Lemma path_eqb_eq a b : path_eqb a b = true <-> a = b.
Proof. apply name_eqb_eq. Qed.

Lemma remove_in e p f : In e (remove p f) -> In e f.
Proof. unfold remove. intros H. apply filter_In in H. tauto. Qed.
Lemma write_in e p c f : In e (write p c f) -> e = (p, c) \/ In e f.
Proof. intros [H|H]; [left; symmetry; exact H | right; eapply remove_in; eauto]. Qed.

Lemma lookup_in f p c : lookup f p = Some c -> In (p, c) f.
Proof.
  induction f as [|[k d] f IH]; simpl; [discriminate|].
  destruct (path_eqb k p) eqn:E.
  - apply path_eqb_eq in E. subst. intros [= ->]. left; reflexivity.
  - intros H. right. apply IH. exact H.
Qed.
Lemma in_lookup_uniq f p c : uniq f -> In (p, c) f -> lookup f p = Some c.
Proof.
  unfold uniq. induction f as [|[k d] f IH]; simpl; [intros _ []|].
  intros Hn [H|H].
  - injection H as -> ->. rewrite (proj2 (path_eqb_eq p p) eq_refl). reflexivity.
  - inversion Hn; subst. destruct (path_eqb k p) eqn:E.
    + apply path_eqb_eq in E. subst. exfalso. apply H2. change p with (fst (p, c)). apply in_map. exact H.
    + apply IH; assumption.
Qed.

Lemma nodup_map_filter {A B} (g : A -> B) (q : A -> bool) l : NoDup (map g l) -> NoDup (map g (filter q l)).
Proof.
  induction l as [|a l IH]; simpl; [auto|]. intros H. inversion H; subst.
  destruct (q a); simpl; [constructor|]; auto.
  intros Hin. apply H2. apply in_map_iff in Hin as (x & Hx & Hf). apply filter_In in Hf as [Hf _].
  rewrite <- Hx. apply in_map. exact Hf.
Qed.
Lemma uniq_write p c f : uniq f -> uniq (write p c f).
Proof.
  intros H. unfold uniq, write. simpl. constructor.
  - intros Hin. apply in_map_iff in Hin as ([k d] & Hk & Hf). simpl in Hk. subst k.
    apply filter_In in Hf as [_ Hf]. simpl in Hf. rewrite (proj2 (path_eqb_eq p p) eq_refl) in Hf. discriminate.
  - apply nodup_map_filter. exact H.
Qed.

(* ---------- unpacking ---------- *)
Definition from_archive (root : path) (a : archive) (e : path * N) : Prop :=
  exists q, In (q, snd e) (ar_entries a) /\ has_dotdot q = false /\ fst e = root ++ q.

Lemma fold_unpack_in root es f e :
  In e (fold_left (fun acc x => if has_dotdot (fst x) then acc else write (root ++ fst x) (snd x) acc) es f) ->
  In e f \/ exists q, In (q, snd e) es /\ has_dotdot q = false /\ fst e = root ++ q.
Proof.
  revert f; induction es as [|[q c] es IH]; simpl; intros f H; [left; exact H|].
  apply IH in H as [H|(q' & H1 & H2 & H3)].
  - destruct (has_dotdot q) eqn:Ed; [left; exact H|].
    apply write_in in H as [->|H]; [|left; exact H]. right. exists q. simpl. auto.
  - right. exists q'. auto.
Qed.
Lemma fold_unpack_uniq root es f : uniq f ->
  uniq (fold_left (fun acc x => if has_dotdot (fst x) then acc else write (root ++ fst x) (snd x) acc) es f).
Proof.
  revert f; induction es as [|[q c] es IH]; simpl; intros f H; [exact H|].
  apply IH. destruct (has_dotdot q); [exact H | apply uniq_write; exact H].
Qed.

Lemma firstn_In' {A} (k : nat) (l : list A) x : In x (firstn k l) -> In x l.
Proof. revert l; induction k as [|k IH]; intros [|a l]; simpl; try tauto. intros [H|H]; auto. Qed.

Lemma unpack_in root a f e : In e (snd (unpack root a f)) -> In e f \/ from_archive root a e.
Proof.
  unfold unpack. cbn [snd]. intros H. apply fold_unpack_in in H as [H|(q & H1 & H2 & H3)]; [left; exact H|].
  right. exists q. repeat split; auto. destruct (ar_fail a); [eapply firstn_In'; eauto | exact H1].
Qed.
Lemma unpack_uniq root a f : uniq f -> uniq (snd (unpack root a f)).
Proof. intros H. unfold unpack. cbn [snd]. apply fold_unpack_uniq. exact H. Qed.

Lemma try_locations_in root ls f e : In e (snd (try_locations root ls f)) ->
  In e f \/ exists a, In (Some a) ls /\ from_archive root a e.
Proof.
  revert f; induction ls as [|[a|] ls IH]; cbn [try_locations]; intros f; [intros H; left; exact H| |].
  - destruct (unpack root a f) as [ok f'] eqn:Eu. assert (Hu := unpack_in root a f). rewrite Eu in Hu. cbn [snd] in Hu.
    destruct ok; intros H.
    + cbn [snd] in H. apply Hu in H as [H|H]; [left; exact H | right; exists a; split; [left; reflexivity | exact H]].
    + apply IH in H as [H|(a' & H1 & H2)].
      * apply Hu in H as [H|H]; [left; exact H | right; exists a; split; [left; reflexivity | exact H]].
      * right. exists a'. split; [right; exact H1 | exact H2].
  - intros H. apply IH in H as [H|(a' & H1 & H2)]; [left; exact H | right; exists a'; split; [right; exact H1 | exact H2]].
Qed.
Lemma try_locations_uniq root ls f : uniq f -> uniq (snd (try_locations root ls f)).
Proof.
  revert f; induction ls as [|[a|] ls IH]; cbn [try_locations]; intros f H; [exact H| |apply IH; exact H].
  destruct (unpack root a f) as [ok f'] eqn:Eu. assert (Hu := unpack_uniq root a f H). rewrite Eu in Hu. cbn [snd] in Hu.
  destruct ok; [exact Hu | apply IH; exact Hu].
Qed.

Lemma run_imm_in ns t f e : In e (snd (run_imm ns t f)) ->
  In e f \/ exists n a, In n ns /\ In (Some a) (locs_of t n) /\ from_archive [] a e.
Proof.
  revert f; induction ns as [|n ns IH]; cbn [run_imm]; intros f; [intros H; left; exact H|].
  destruct (try_locations [] (locs_of t n) f) as [ok f'] eqn:Et.
  assert (Hu := try_locations_in [] (locs_of t n) f). rewrite Et in Hu. cbn [snd] in Hu.
  assert (Hstep : In e f' -> In e f \/ exists n0 a, In n0 (n :: ns) /\ In (Some a) (locs_of t n0) /\ from_archive [] a e).
  { intros H'. apply Hu in H' as [H'|(a & H1 & H2)]; [left; exact H'|]. right. exists n, a. split; [left; reflexivity | split; assumption]. }
  destruct ok; intros H.
  - apply IH in H as [H|(n0 & a & H1 & H2 & H3)]; [apply Hstep; exact H|]. right. exists n0, a. split; [right; exact H1 | split; assumption].
  - apply Hstep. exact H.
Qed.
Lemma run_imm_uniq ns t f : uniq f -> uniq (snd (run_imm ns t f)).
Proof.
  revert f; induction ns as [|n ns IH]; cbn [run_imm]; intros f H; [exact H|].
  destruct (try_locations [] (locs_of t n) f) as [ok f'] eqn:Et.
  assert (Hu := try_locations_uniq [] (locs_of t n) f H). rewrite Et in Hu. cbn [snd] in Hu.
  destruct ok; [apply IH; exact Hu | exact Hu].
Qed.

(* ---------- the temporary directory ---------- *)
Lemma is_prefix_app pre q : is_prefix pre (pre ++ q) = true.
Proof. induction pre as [|x pre IH]; simpl; [reflexivity|]. rewrite N.eqb_refl. exact IH. Qed.

Lemma rm_temp_in e f : In e (rm_temp f) <-> In e f /\ is_prefix TEMP (fst e) = false.
Proof. unfold rm_temp. rewrite filter_In. destruct (is_prefix TEMP (fst e)); simpl; intuition congruence. Qed.

Lemma rm_temp_write q c f : rm_temp (write (TEMP ++ q) c f) = rm_temp f.
Proof.
  unfold write, rm_temp. cbn [filter fst]. rewrite is_prefix_app. cbn [negb].
  unfold remove. induction f as [|[k d] f IH]; [reflexivity|]. cbn [filter fst].
  destruct (path_eqb k (TEMP ++ q)) eqn:E; cbn [negb].
  - apply path_eqb_eq in E. subst k. rewrite is_prefix_app. cbn [negb]. exact IH.
  - cbn [filter fst]. destruct (is_prefix TEMP k); cbn [negb]; [exact IH | f_equal; exact IH].
Qed.
Lemma rm_temp_unpack a f : rm_temp (snd (unpack TEMP a f)) = rm_temp f.
Proof.
  unfold unpack. cbn [snd]. generalize (match ar_fail a with Some k => firstn k (ar_entries a) | None => ar_entries a end).
  intros es. revert f. induction es as [|[q c] es IH]; simpl; intros f; [reflexivity|].
  rewrite IH. destruct (has_dotdot q); [reflexivity | apply rm_temp_write].
Qed.
Lemma rm_temp_try ls f : rm_temp (snd (try_locations TEMP ls f)) = rm_temp f.
Proof.
  revert f; induction ls as [|[a|] ls IH]; cbn [try_locations]; intros f; [reflexivity| |apply IH].
  destruct (unpack TEMP a f) as [ok f'] eqn:Eu. assert (Hu := rm_temp_unpack a f). rewrite Eu in Hu. cbn [snd] in Hu.
  destruct ok; [exact Hu | rewrite IH; exact Hu].
Qed.
Lemma rm_temp_id f : (forall e, In e f -> is_prefix TEMP (fst e) = false) -> rm_temp f = f.
Proof.
  unfold rm_temp. induction f as [|a f IH]; intros H; [reflexivity|]. cbn [filter].
  rewrite (H a (or_introl eq_refl)). cbn [negb]. f_equal. apply IH. intros e He. apply H. right; exact He.
Qed.

(* nothing from the ancillary archive survives a failed ancillary step: the directory is as before *)
Lemma anc_fail_clean vk tbl ls f f' :
  (forall e, In e f -> is_prefix TEMP (fst e) = false) ->
  anc_task vk tbl ls f = (false, f') -> f' = f.
Proof.
  intros Hf. unfold anc_task. destruct (try_locations TEMP ls f) as [ok f1] eqn:Et.
  assert (Hr := rm_temp_try ls f). rewrite Et in Hr. cbn [snd] in Hr. rewrite (rm_temp_id f Hf) in Hr.
  destruct ok; [destruct (anc_verify vk tbl f1)|]; intros [= <-]; exact Hr.
Qed.

(* ---------- a verified manifest vouches for what is moved ---------- *)
Definition vouched_by (vk : N) (m : manifest) (e : path * N) : Prop :=
  (exists s, m_sig m = Some s /\ sg_verify s vk (manifest_hash m) = true) /\
  In (fst e, file_digest (snd e)) (m_data m).

Definition tbl_ok (tbl : mtable) : Prop :=
  forall id m, tbl_get tbl id = Some m -> forall e, In e (m_data m) -> is_prefix TEMP (fst e) = false.

Lemma anc_verify_spec vk tbl f m : anc_verify vk tbl f = Some m ->
  (exists id, tbl_get tbl id = Some m) /\
  (exists s, m_sig m = Some s /\ sg_verify s vk (manifest_hash m) = true) /\
  (forall p h, In (p, h) (m_data m) -> exists c, lookup f (TEMP ++ p) = Some c /\ file_digest c = h).
Proof.
  unfold anc_verify. destruct (lookup f (TEMP ++ MANIFEST_NAME)) as [id|]; [|discriminate].
  destruct (tbl_get tbl id) as [m'|] eqn:Eg; [|discriminate].
  destruct (forallb (data_ok f) (m_data m')) eqn:Ed; [|discriminate].
  destruct (m_sig m') as [s|] eqn:Es; [|discriminate].
  destruct (sg_verify s vk (manifest_hash m')) eqn:Ev; [|discriminate].
  intros [= <-]. split; [exists id; exact Eg|]. split; [exists s; auto|].
  intros p h Hin. rewrite forallb_forall in Ed. specialize (Ed _ Hin). unfold data_ok in Ed. cbn [fst snd] in Ed.
  destruct (lookup f (TEMP ++ p)) as [c|]; [|discriminate]. exists c. split; [reflexivity|]. apply bt_eqb_eq. exact Ed.
Qed.

Lemma anc_move_in (m : manifest) (f1 : fs) d acc :
  uniq f1 ->
  (forall e, In e d -> is_prefix TEMP (fst e) = false) ->
  (forall p h, In (p, h) d -> exists c, lookup f1 (TEMP ++ p) = Some c /\ file_digest c = h) ->
  (forall q c, is_prefix TEMP q = true -> In (q, c) acc -> In (q, c) f1) ->
  forall e,
  In e (fold_left (fun acc e => match lookup acc (TEMP ++ fst e) with
                                | Some c => write (fst e) c (remove (TEMP ++ fst e) acc)
                                | None => acc end) d acc) ->
  In e acc \/ In (fst e, file_digest (snd e)) d.
Proof.
  intros Hu. revert acc. induction d as [|[p h] d IH]; intros acc Hd Hok Hinv e H; [left; exact H|].
  cbn [fold_left fst] in H.
  assert (Hd' : forall e, In e d -> is_prefix TEMP (fst e) = false) by (intros; apply Hd; right; assumption).
  assert (Hok' : forall p h, In (p, h) d -> exists c, lookup f1 (TEMP ++ p) = Some c /\ file_digest c = h) by (intros; eapply Hok; right; eassumption).
  destruct (lookup acc (TEMP ++ p)) as [c|] eqn:El.
  - apply IH in H; auto.
    + destruct H as [H|H]; [|right; right; exact H].
      apply write_in in H as [->|H]; [|left; eapply remove_in; eauto].
      right. left. cbn [fst snd]. f_equal.
      apply lookup_in in El. apply Hinv in El; [|apply is_prefix_app].
      destruct (Hok p h (or_introl eq_refl)) as (c0 & Hl & Hh). rewrite (in_lookup_uniq _ _ _ Hu El) in Hl.
      injection Hl as ->. symmetry. exact Hh.
    + intros q c' Hq Hin. apply write_in in Hin as [Hin|Hin].
      * injection Hin as -> ->. assert (Hx := Hd (p, h) (or_introl eq_refl)). cbn [fst] in Hx. rewrite Hx in Hq. discriminate.
      * apply Hinv; [exact Hq | eapply remove_in; eauto].
  - apply IH in H; auto. destruct H as [H|H]; [left; exact H | right; right; exact H].
Qed.

Lemma anc_task_in vk tbl ls f e :
  uniq f -> tbl_ok tbl ->
  In e (snd (anc_task vk tbl ls f)) ->
  In e f \/ (fst (anc_task vk tbl ls f) = true /\ exists id m, tbl_get tbl id = Some m /\ vouched_by vk m e).
Proof.
  intros Hu Ht. unfold anc_task. destruct (try_locations TEMP ls f) as [ok f1] eqn:Et.
  assert (Hin1 := try_locations_in TEMP ls f). rewrite Et in Hin1. cbn [snd] in Hin1.
  assert (Hu1 := try_locations_uniq TEMP ls f Hu). rewrite Et in Hu1. cbn [snd] in Hu1.
  assert (Hback : forall x, In x f1 -> is_prefix TEMP (fst x) = false -> In x f).
  { intros x Hx Hp. apply Hin1 in Hx as [Hx|(a & _ & q & _ & _ & Hq)]; [exact Hx|]. rewrite Hq, is_prefix_app in Hp. discriminate. }
  destruct ok; [destruct (anc_verify vk tbl f1) as [m|] eqn:Ev|]; cbn [fst snd]; intros H; apply rm_temp_in in H as [H Hp];
    try (left; apply Hback; assumption).
  destruct (anc_verify_spec _ _ _ _ Ev) as ((id & Hid) & Hsig & Hdata).
  unfold anc_move in H. apply (anc_move_in m f1 (m_data m) f1 Hu1) in H; auto.
  - destruct H as [H|H]; [left; apply Hback; assumption|].
    right. split; [reflexivity|]. exists id, m. split; [exact Hid|]. split; assumption.
  - intros x Hx. eapply Ht; eauto.
Qed.

(* ---------- the whole download ---------- *)
Lemma markers_in b f e : In e (markers b f) -> In e f \/ e = (CLEAN, 0) \/ (b = true /\ e = (MAGIC, MAGIC_CONTENT)).
Proof.
  unfold markers. destruct b; intros H.
  - apply write_in in H as [->|H]; [right; right; auto|]. apply write_in in H as [->|H]; auto.
  - apply write_in in H as [->|H]; auto.
Qed.

Definition from_immutable_archive (s : scenario) (e : path * N) : Prop :=
  exists rg n a, to_range (s_range s) (s_beacon s) = Ok rg /\ in_range rg n = true /\
    In (Some a) (locs_of (s_imm s) n) /\ from_archive [] a e /\
    keep_after_cleanup (expected_set (s_init s) (s_beacon s) (s_anc s)) e = true.
Definition is_marker (s : scenario) (e : path * N) : Prop :=
  fst (download_unpack s) = true /\ (e = (CLEAN, 0) \/ (s_net_known s = true /\ e = (MAGIC, MAGIC_CONTENT))).
Definition vouched_ancillary (s : scenario) (e : path * N) : Prop :=
  s_anc s = true /\ fst (download_unpack s) = true /\
  exists vk id m, s_vk s = Some vk /\ tbl_get (s_tbl s) id = Some m /\ vouched_by vk m e.

Lemma contained_char s e :
  uniq (s_init s) -> tbl_ok (s_tbl s) ->
  In e (snd (download_unpack s)) ->
  In e (s_init s) \/ is_marker s e \/ from_immutable_archive s e \/ vouched_ancillary s e.
Proof.
  intros Hu Ht. unfold is_marker, vouched_ancillary, from_immutable_archive. unfold download_unpack.
  destruct (to_range (s_range s) (s_beacon s)) as [rg| |] eqn:Er; cbn [snd]; try (intros H; left; exact H).
  destruct (s_anc s && negb (in_range rg (s_beacon s))) eqn:E1; cbn [snd]; [intros H; left; exact H|].
  destruct (negb (s_allow_override s) && _) eqn:E2; cbn [snd]; [intros H; left; exact H|].
  set (expected := expected_set (s_init s) (s_beacon s) (s_anc s)).
  set (ns := if tasks_run s then range_numbers rg else []).
  assert (Hns : forall n, In n ns -> in_range rg n = true).
  { intros n Hn. unfold ns in Hn. destruct (tasks_run s); [apply range_numbers_In; exact Hn | destruct Hn]. }
  assert (Himm : forall f1 ok1, run_imm ns (s_imm s) (s_init s) = (ok1, f1) ->
            uniq f1 /\ forall x, In x f1 -> In x (s_init s) \/
              exists n a, in_range rg n = true /\ In (Some a) (locs_of (s_imm s) n) /\ from_archive [] a x).
  { intros f1 ok1 Hr. split.
    - assert (H := run_imm_uniq ns (s_imm s) (s_init s) Hu). rewrite Hr in H. exact H.
    - intros x Hx. assert (H := run_imm_in ns (s_imm s) (s_init s) x). rewrite Hr in H.
      apply H in Hx as [Hx|(n & a & H1 & H2 & H3)]; [left; exact Hx|]. right. exists n, a.
      split; [apply Hns; exact H1 | auto]. }
  assert (Hfin : forall ok2 f2,
     (forall x, In x f2 -> In x (s_init s) \/
        (exists n a, in_range rg n = true /\ In (Some a) (locs_of (s_imm s) n) /\ from_archive [] a x) \/
        (ok2 = true /\ s_anc s = true /\ exists vk id m, s_vk s = Some vk /\ tbl_get (s_tbl s) id = Some m /\ vouched_by vk m x)) ->
     In e (snd (if ok2 then (true, markers (s_net_known s) (cleanup expected f2)) else (false, cleanup expected f2))) ->
     In e (s_init s) \/
     (fst (if ok2 then (true, markers (s_net_known s) (cleanup expected f2)) else (false, cleanup expected f2)) = true /\
        (e = (CLEAN, 0) \/ (s_net_known s = true /\ e = (MAGIC, MAGIC_CONTENT)))) \/
     (exists rg0 n a, Ok rg = Ok rg0 /\ in_range rg0 n = true /\ In (Some a) (locs_of (s_imm s) n) /\ from_archive [] a e /\
        keep_after_cleanup expected e = true) \/
     (s_anc s = true /\ fst (if ok2 then (true, markers (s_net_known s) (cleanup expected f2)) else (false, cleanup expected f2)) = true /\
        exists vk id m, s_vk s = Some vk /\ tbl_get (s_tbl s) id = Some m /\ vouched_by vk m e)).
  { intros ok2 f2 Hsrc H.
    assert (Hc : In e (cleanup expected f2) ->
              In e (s_init s) \/
              (exists rg0 n a, Ok rg = Ok rg0 /\ in_range rg0 n = true /\ In (Some a) (locs_of (s_imm s) n) /\ from_archive [] a e /\
                 keep_after_cleanup expected e = true) \/
              (ok2 = true /\ s_anc s = true /\ exists vk id m, s_vk s = Some vk /\ tbl_get (s_tbl s) id = Some m /\ vouched_by vk m e)).
    { intros Hin. unfold cleanup in Hin. apply filter_In in Hin as [Hin Hk].
      apply Hsrc in Hin as [Hin|[(n & a & H1 & H2 & H3)|Hin]]; [left; exact Hin| |right; right; exact Hin].
      right. left. exists rg, n, a. auto. }
    destruct ok2; cbn [fst snd] in *.
    - apply markers_in in H as [H|H].
      + apply Hc in H as [H|[H|(_ & Ha & Hv)]]; [left; exact H | right; right; left; exact H | right; right; right; auto].
      + right. left. split; [reflexivity|]. destruct H as [H|[H1 H2]]; [left; exact H | right; auto].
    - apply Hc in H as [H|[H|(Hf & _)]]; [left; exact H | right; right; left; exact H | discriminate]. }
  destruct (s_anc s) eqn:Ea; destruct (s_vk s) as [vk|] eqn:Ek; cbn [snd]; try (intros H; left; exact H).
  - (* ancillary included, key present *)

    destruct (run_imm ns (s_imm s) (s_init s)) as [ok1 f1] eqn:Eri.
    destruct (Himm f1 ok1 eq_refl) as [Hu1 Hsrc1]. cbn [andb].
    destruct ok1; [destruct (tasks_run s)|].
    + destruct (anc_task vk (s_tbl s) (s_anc_locs s) f1) as [ok2 f2] eqn:Eat.
      apply (Hfin ok2 f2). intros x Hx.
      assert (H := anc_task_in vk (s_tbl s) (s_anc_locs s) f1 x Hu1 Ht). rewrite Eat in H. cbn [fst snd] in H.
      apply H in Hx as [Hx|(Hok & id & m & Hid & Hv)].
      * apply Hsrc1 in Hx as [Hx|Hx]; auto.
      * right. right. split; [exact Hok|]. split; [reflexivity|]. exists vk, id, m. auto.
    + apply (Hfin true f1). intros x Hx. apply Hsrc1 in Hx as [Hx|Hx]; auto.
    + apply (Hfin false f1). intros x Hx. apply Hsrc1 in Hx as [Hx|Hx]; auto.
  - (* no ancillary, key present *)

    destruct (run_imm ns (s_imm s) (s_init s)) as [ok1 f1] eqn:Eri.
    destruct (Himm f1 ok1 eq_refl) as [Hu1 Hsrc1]. cbn [andb].
    destruct ok1; [apply (Hfin true f1) | apply (Hfin false f1)]; intros x Hx; apply Hsrc1 in Hx as [Hx|Hx]; auto.
  - (* no ancillary, no key *)

    destruct (run_imm ns (s_imm s) (s_init s)) as [ok1 f1] eqn:Eri.
    destruct (Himm f1 ok1 eq_refl) as [Hu1 Hsrc1]. cbn [andb].
    destruct ok1; [apply (Hfin true f1) | apply (Hfin false f1)]; intros x Hx; apply Hsrc1 in Hx as [Hx|Hx]; auto.
Qed.

(* ---------- the manifest hash: what the back-to-back concatenation still determines ---------- *)
Definition plain_key (k : path) : Prop := k <> [] /\ forall x, In x k -> x < 256.
Definition plain_data (d : list (path * bt)) : Prop :=
  forall e, In e d -> plain_key (fst e) /\ exists c, snd e = file_digest c.
Definition alt (d : list (path * bt)) : list bt := flat_map (fun e => [BLit (fst e); snd e]) d.

Lemma key_stream_plain k cur : (forall x, In x k -> x < 256) -> key_stream k cur = [BLit (rev cur ++ k)].
Proof.
  revert cur; induction k as [|a k IH]; intros cur H; cbn [key_stream].
  - rewrite app_nil_r. reflexivity.
  - assert (Ha : a <? 256 = true) by (apply N.ltb_lt; apply H; left; reflexivity). rewrite Ha.
    rewrite IH by (intros x Hx; apply H; right; exact Hx). cbn [rev]. rewrite <- app_assoc. reflexivity.
Qed.

Lemma stream_plain d : plain_data d ->
  flat_map (fun e => key_stream (fst e) [] ++ [snd e]) d = alt d.
Proof.
  induction d as [|e d IH]; intros H; [reflexivity|]. cbn [flat_map alt].
  destruct (H e (or_introl eq_refl)) as [[_ Hk] _]. rewrite (key_stream_plain (fst e) [] Hk). cbn [rev app].
  fold (alt d). rewrite IH by (intros x Hx; apply H; right; exact Hx). reflexivity.
Qed.

Lemma merge_alt d : plain_data d -> merge_lits (alt d) = alt d.
Proof.
  induction d as [|e d IH]; intros H; [reflexivity|].
  destruct (H e (or_introl eq_refl)) as [[Hne _] [c Hc]]. destruct e as [k v]. cbn [fst snd] in *. subst v.
  assert (IH' := IH (fun x Hx => H x (or_intror Hx))).
  unfold alt. cbn [flat_map app fst snd]. fold (alt d). unfold file_digest.
  cbn [merge_lits]. rewrite IH'. destruct k as [|x k]; [congruence | reflexivity].
Qed.

Lemma alt_inj d1 d2 : alt d1 = alt d2 -> d1 = d2.
Proof.
  revert d2; induction d1 as [|[k1 v1] d1 IH]; intros [|[k2 v2] d2] H; try reflexivity; try discriminate.
  unfold alt in H. cbn [flat_map app fst snd] in H. injection H as Hk Hv Hr. subst. f_equal. apply IH. exact Hr.
Qed.

Lemma manifest_hash_injective_plain m1 m2 :
  plain_data (m_data m1) -> plain_data (m_data m2) ->
  manifest_hash m1 = manifest_hash m2 -> m_data m1 = m_data m2.
Proof.
  intros H1 H2 H. unfold manifest_hash, manifest_stream in H. injection H as H.
  rewrite (stream_plain _ H1), (stream_plain _ H2), (merge_alt _ H1), (merge_alt _ H2) in H.
  apply alt_inj. exact H.
Qed.
