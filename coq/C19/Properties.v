(* C19/Properties.v — the property theorems, nothing else.
   C19: after a database download the target directory holds, beyond its initial content and the
   client's markers, only immutable files of the requested range and ancillary files vouched by a
   manifest signed with the configured key; a failed ancillary verification keeps nothing. *)
From Coq Require Import String.
From MV Require Import Base.Prelude Base.SymHash Base.IdealSig Gen.Consts C12.Model C10.Model C19.Model C19.Proofs.
Open Scope list_scope.
Open Scope N_scope.

(* strongest true statement for ARBITRARY archives: every file left in the target directory was
   there before, is a marker of a successful run, is vouched by a manifest that verifies under the
   configured key (listed with the digest of its content; only after overall success), or is an entry
   of an immutable archive of a ranged number that the clean-up lets through (outside immutable/, or
   inside it under an expected name).  The last disjunct is where the full statement fails. *)
Theorem C19_contained_char : forall s e,
  uniq (s_init s) -> tbl_ok (s_tbl s) ->
  In e (snd (download_unpack s)) ->
  In e (s_init s) \/ is_marker s e \/ from_immutable_archive s e \/ vouched_ancillary s e.
Proof. exact contained_char. Qed.

(* the full statement, outside the two open finding classes: when every immutable archive carries
   only the trio files of its own number *)
Definition archives_well_formed (s : scenario) : Prop :=
  forall n a q c, In (Some a) (locs_of (s_imm s) n) -> In (q, c) (ar_entries a) -> has_dotdot q = false ->
    exists ext, In ext EXTS /\ q = IMM ++ trio_name n ext.
Definition ranged_immutable (s : scenario) (e : path * N) : Prop :=
  exists rg n ext a, to_range (s_range s) (s_beacon s) = Ok rg /\ in_range rg n = true /\ In ext EXTS /\
    fst e = IMM ++ trio_name n ext /\ In (Some a) (locs_of (s_imm s) n) /\ In e (ar_entries a).

Theorem C19_contained : forall s e,
  uniq (s_init s) -> tbl_ok (s_tbl s) -> archives_well_formed s ->
  In e (snd (download_unpack s)) ->
  In e (s_init s) \/ is_marker s e \/ ranged_immutable s e \/ vouched_ancillary s e.
Proof.
  intros s e Hu Ht Hw Hin. destruct (contained_char s e Hu Ht Hin) as [H|[H|[H|H]]]; auto.
  right. right. left. destruct H as (rg & n & a & Hr & Hn & Ha & (q & Hq & Hd & Hp) & _).
  destruct (Hw n a q (snd e) Ha Hq Hd) as (ext & Hext & ->). simpl in Hp.
  exists rg, n, ext, a. repeat split; auto. destruct e as [p c]. simpl in *. subst p. exact Hq.
Qed.

(* nothing from the ancillary archive survives a failed ancillary step (download or verification):
   the directory is exactly as the immutable downloads left it *)
Theorem C19_ancillary_fail_clean : forall vk tbl ls f f',
  (forall e, In e f -> is_prefix TEMP (fst e) = false) ->
  anc_task vk tbl ls f = (false, f') -> f' = f.
Proof. exact anc_fail_clean. Qed.

(* ... and a successful one adds only what a verified manifest vouches for *)
Theorem C19_ancillary_vouched : forall vk tbl ls f e,
  uniq f -> tbl_ok tbl -> In e (snd (anc_task vk tbl ls f)) ->
  In e f \/ (fst (anc_task vk tbl ls f) = true /\ exists id m, tbl_get tbl id = Some m /\ vouched_by vk m e).
Proof. exact anc_task_in. Qed.

(* the manifest hash concatenates keys and values; as long as no key contains the text of a digest
   (plain, non-empty byte keys; values are digests) it still determines the manifest - the ambiguity
   C19_refuted_manifest_resplit needs a key that swallows a neighbouring value *)
Theorem C19_manifest_hash_injective_plain : forall m1 m2,
  plain_data (m_data m1) -> plain_data (m_data m2) ->
  manifest_hash m1 = manifest_hash m2 -> m_data m1 = m_data m2.
Proof. exact manifest_hash_injective_plain. Qed.

(* non-vacuity: an honest download with ancillary files *)
Definition p (s : String.string) : path := bytes s.
Definition ex_imm (n : N) (c : N) : archive :=
  {| ar_entries := [(IMM ++ trio_name n (p "chunk"), c); (IMM ++ trio_name n (p "primary"), c + 1); (IMM ++ trio_name n (p "secondary"), c + 2)];
     ar_fail := None |}.
Definition ex_data : list (path * bt) := [(p "ledger/100/state", file_digest 50); (p "immutable/00002.chunk", file_digest 51)].
Definition ex_manifest : manifest := {| m_data := ex_data; m_sig := Some (SigOf 1 (manifest_hash {| m_data := ex_data; m_sig := None |})) |}.
Definition ex_scn : scenario :=
  {| s_init := [(p "myfile", 9)]; s_beacon := 1; s_range := RFull; s_allow_override := true; s_anc := true; s_vk := Some 1;
     s_net_known := true; s_par := 1; s_imm := [(0, [None; Some (ex_imm 0 10)]); (1, [Some (ex_imm 1 20)])];
     s_anc_locs := [Some {| ar_entries := [(p "ledger/100/state", 50); (p "ancillary_manifest.json", 77); (p "immutable/00002.chunk", 51); (p "unlisted", 52)]; ar_fail := None |}];
     s_tbl := [(77, ex_manifest)] |}.
Example C19_ex :
  fst (download_unpack ex_scn) = true /\ length (snd (download_unpack ex_scn)) = 11%nat /\
  lookup (snd (download_unpack ex_scn)) (p "ledger/100/state") = Some 50 /\
  lookup (snd (download_unpack ex_scn)) (p "unlisted") = None /\
  plain_data ex_data /\
  archives_well_formed ex_scn.
Proof.
  split; [vm_compute; reflexivity|]. split; [vm_compute; reflexivity|]. split; [vm_compute; reflexivity|].
  split; [vm_compute; reflexivity|].
  split.
  { intros e [<-|[<-|[]]]; (split; [split; [discriminate | intros x Hx; vm_compute in Hx; repeat (destruct Hx as [<-|Hx]; [reflexivity|]); destruct Hx] | eexists; reflexivity]). }
  intros n a q c Ha Hq _. unfold ex_scn in Ha. cbn [s_imm locs_of] in Ha.
  destruct (0 =? n) eqn:E0; [apply N.eqb_eq in E0; subst n|].
  - destruct Ha as [Ha|[Ha|[]]]; [discriminate|]. injection Ha as <-. cbn [ex_imm ar_entries] in Hq.
    destruct Hq as [Hq|[Hq|[Hq|[]]]]; injection Hq as <- <-; eexists; (split; [|reflexivity]); vm_compute; tauto.
  - destruct (1 =? n) eqn:E1; [apply N.eqb_eq in E1; subst n|destruct Ha].
    destruct Ha as [Ha|[]]. injection Ha as <-. cbn [ex_imm ar_entries] in Hq.
    destruct Hq as [Hq|[Hq|[Hq|[]]]]; injection Hq as <- <-; eexists; (split; [|reflexivity]); vm_compute; tauto.
Qed.
