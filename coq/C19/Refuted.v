(* C19/Refuted.v — the full containment statement fails on the faithful model (open findings). *)
From Coq Require Import String.
From MV Require Import Base.Prelude Base.SymHash Base.IdealSig Gen.Consts C12.Model C10.Model C19.Model C19.Proofs C19.Properties.
Open Scope list_scope.
Open Scope N_scope.

(* an archive for immutable 2 that also carries a ledger file, a volatile file, a chunk for number 1
   and a stray file inside immutable/ *)
Definition hostile : archive :=
  {| ar_entries := [(p "immutable/00002.chunk", 20); (p "immutable/00002.primary", 21); (p "immutable/00002.secondary", 22);
                    (p "ledger/12345/state", 66); (p "volatile/blocks-0.dat", 67);
                    (p "immutable/00001.chunk", 68); (p "immutable/stray.txt", 69)];
     ar_fail := None |}.
Definition scn : scenario :=
  {| s_init := [(p "immutable/00001.chunk", 11)]; s_beacon := 2; s_range := RRange 2 2; s_allow_override := true;
     s_anc := false; s_vk := None; s_net_known := false; s_par := 1; s_imm := [(2, [Some hostile])]; s_anc_locs := []; s_tbl := [] |}.

(* C19-foreign-entry: a ledger file from an IMMUTABLE archive stays in the restored database although
   no ancillary download was requested and nothing vouches for it *)
Theorem C19_refuted_ledger :
  fst (download_unpack scn) = true /\
  lookup (snd (download_unpack scn)) (p "ledger/12345/state") = Some 66 /\
  lookup (snd (download_unpack scn)) (p "volatile/blocks-0.dat") = Some 67 /\
  lookup (s_init scn) (p "ledger/12345/state") = None /\
  (* the stray file inside immutable/ is the only thing the clean-up removes *)
  lookup (snd (download_unpack scn)) (p "immutable/stray.txt") = None.
Proof. repeat (split; [vm_compute; reflexivity|]). vm_compute; reflexivity. Qed.

(* C19-other-immutable: the archive of immutable 2 overwrites a file of immutable 1, which is outside
   the requested range 2..=2 (expected names are 0..=beacon, not the range) *)
Theorem C19_refuted_out_of_range :
  fst (download_unpack scn) = true /\
  to_range (s_range scn) (s_beacon scn) = Ok (2, 2) /\ in_range (2, 2) 1 = false /\
  lookup (s_init scn) (p "immutable/00001.chunk") = Some 11 /\
  lookup (snd (download_unpack scn)) (p "immutable/00001.chunk") = Some 68.
Proof. repeat (split; [vm_compute; reflexivity|]). vm_compute; reflexivity. Qed.

(* hence the full statement (C19_contained without its well-formedness hypothesis) is false *)
Theorem C19_refuted_full :
  exists s e, uniq (s_init s) /\ tbl_ok (s_tbl s) /\ In e (snd (download_unpack s)) /\
    ~ (In e (s_init s) \/ is_marker s e \/ ranged_immutable s e \/ vouched_ancillary s e).
Proof.
  exists scn, (p "ledger/12345/state", 66). split; [|split; [|split]].
  - unfold uniq. vm_compute. constructor; [intros []|constructor].
  - intros id m H. vm_compute in H. discriminate.
  - vm_compute. tauto.
  - intros [H|[H|[H|H]]].
    + vm_compute in H. destruct H as [H|[]]. discriminate.
    + destruct H as (_ & [H|(H & _)]); [vm_compute in H | vm_compute in H]; discriminate.
    + destruct H as (rg & n & ext & a & _ & _ & _ & Hp & _). cbn [fst] in Hp. vm_compute in Hp.
      injection Hp as Hp _. discriminate.
    + destruct H as (H & _). vm_compute in H. discriminate.
Qed.

(* C19-aborted-ancillary-temp: several downloads at a time, the archive of immutable 0 cannot be fetched,
   the batch is aborted while the ancillary archive is being unpacked: its files - never verified, here
   there is not even a manifest - stay in the temporary directory inside the target directory *)
Definition anc_unverified : archive :=
  {| ar_entries := [(p "ledger/777/state", 90); (p "volatile/blocks-0.dat", 91)]; ar_fail := None |}.
Definition scn_abort : scenario :=
  {| s_init := [(p "myfile.txt", 5)]; s_beacon := 1; s_range := RFull; s_allow_override := true;
     s_anc := true; s_vk := Some 1; s_net_known := true; s_par := 20;
     s_imm := [(0, [None]); (1, [Some (ex_imm 1 20)])]; s_anc_locs := [Some anc_unverified]; s_tbl := [] |}.
Theorem C19_refuted_aborted_ancillary :
  fst (download_unpack_aborted scn_abort 2 anc_unverified) = false /\
  lookup (snd (download_unpack_aborted scn_abort 2 anc_unverified)) (TEMP ++ p "ledger/777/state") = Some 90 /\
  lookup (s_init scn_abort) (TEMP ++ p "ledger/777/state") = None /\
  (forall id, tbl_get (s_tbl scn_abort) id = None) /\
  (* one download at a time: the same mirror leaves nothing but the user's file *)
  snd (download_unpack {| s_init := s_init scn_abort; s_beacon := 1; s_range := RFull; s_allow_override := true;
         s_anc := true; s_vk := Some 1; s_net_known := true; s_par := 1; s_imm := s_imm scn_abort;
         s_anc_locs := s_anc_locs scn_abort; s_tbl := [] |}) = [(p "myfile.txt", 5)].
Proof. repeat (split; [vm_compute; reflexivity|]). vm_compute; reflexivity. Qed.

(* C19-manifest-hash-ambiguity: keys and values are hashed back to back.  The signed manifest lists
   ledger/7/state (content 50) and volatile/b (content 51); the served one lists ONE file whose name is
   "ledger/7/state" ++ hex digest of content 50 ++ "volatile/b", with the digest of content 51.  Same
   stream, same hash: the signature of the first verifies for the second, and the download puts a file at
   a path the signed manifest does not list. *)
Definition m_signed : manifest :=
  {| m_data := [(p "ledger/7/state", file_digest 50); (p "volatile/b", file_digest 51)]; m_sig := None |}.
Definition resplit_key : path := p "ledger/7/state" ++ [HEXTOK 50] ++ p "volatile/b".
Definition m_served : manifest :=
  {| m_data := [(resplit_key, file_digest 51)]; m_sig := Some (SigOf 1 (manifest_hash m_signed)) |}.
Definition scn_resplit : scenario :=
  {| s_init := []; s_beacon := 0; s_range := RFull; s_allow_override := true; s_anc := true; s_vk := Some 1;
     s_net_known := false; s_par := 1; s_imm := [(0, [Some (ex_imm 0 10)])];
     s_anc_locs := [Some {| ar_entries := [(resplit_key, 51); (p "ancillary_manifest.json", 77)]; ar_fail := None |}];
     s_tbl := [(77, m_served)] |}.
Theorem C19_refuted_manifest_resplit :
  m_data m_served <> m_data m_signed /\
  manifest_hash m_served = manifest_hash m_signed /\
  fst (download_unpack scn_resplit) = true /\
  lookup (snd (download_unpack scn_resplit)) resplit_key = Some 51 /\
  ~ In resplit_key (map fst (m_data m_signed)).
Proof.
  split; [intros H; vm_compute in H; discriminate|].
  repeat (split; [vm_compute; reflexivity|]).
  intros H. vm_compute in H. destruct H as [H|[H|[]]]; discriminate.
Qed.
