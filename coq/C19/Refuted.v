(* C19/Refuted.v — the full containment statement fails on the faithful model (open findings). *)
From Coq Require Import String.
From MV Require Import Base.Prelude Base.SymHash Base.IdealSig Gen.Consts C12.Model C10.Model C19.Model C19.Proofs C19.Properties.
Open Scope list_scope.
Open Scope N_scope.

(* an archive for immutable 2 that also carries a ledger file, a volatile file, a chunk for number 1
   and a stray file inside immutable/ *)
Definition hostile : archive :=
  {| ar_entries := [(p "immutable/00002.chunk", 20); (p "immutable/00002.primary", 21); (p "immutable/00002.secondary", 22);
                    (p "ledger/12345/state", 66); (p "volatile/blocks-0.dat", 67);
                    (p "immutable/00001.chunk", 68); (p "immutable/stray.txt", 69)];
     ar_fail := None |}.
Definition scn : scenario :=
  {| s_init := [(p "immutable/00001.chunk", 11)]; s_beacon := 2; s_range := RRange 2 2; s_allow_override := true;
     s_anc := false; s_vk := None; s_net_known := false; s_imm := [(2, [Some hostile])]; s_anc_locs := []; s_tbl := [] |}.

(* C19-foreign-entry: a ledger file from an IMMUTABLE archive stays in the restored database although
   no ancillary download was requested and nothing vouches for it *)
Theorem C19_refuted_ledger :
  fst (download_unpack scn) = true /\
  lookup (snd (download_unpack scn)) (p "ledger/12345/state") = Some 66 /\
  lookup (snd (download_unpack scn)) (p "volatile/blocks-0.dat") = Some 67 /\
  lookup (s_init scn) (p "ledger/12345/state") = None /\
  (* the stray file inside immutable/ is the only thing the clean-up removes *)
  lookup (snd (download_unpack scn)) (p "immutable/stray.txt") = None.
Proof. repeat (split; [vm_compute; reflexivity|]). vm_compute; reflexivity. Qed.

(* C19-other-immutable: the archive of immutable 2 overwrites a file of immutable 1, which is outside
   the requested range 2..=2 (expected names are 0..=beacon, not the range) *)
Theorem C19_refuted_out_of_range :
  fst (download_unpack scn) = true /\
  to_range (s_range scn) (s_beacon scn) = Ok (2, 2) /\ in_range (2, 2) 1 = false /\
  lookup (s_init scn) (p "immutable/00001.chunk") = Some 11 /\
  lookup (snd (download_unpack scn)) (p "immutable/00001.chunk") = Some 68.
Proof. repeat (split; [vm_compute; reflexivity|]). vm_compute; reflexivity. Qed.

(* hence the full statement (C19_contained without its well-formedness hypothesis) is false *)
Theorem C19_refuted_full :
  exists s e, uniq (s_init s) /\ tbl_ok (s_tbl s) /\ In e (snd (download_unpack s)) /\
    ~ (In e (s_init s) \/ is_marker s e \/ ranged_immutable s e \/ vouched_ancillary s e).
Proof.
  exists scn, (p "ledger/12345/state", 66). split; [|split; [|split]].
  - unfold uniq. vm_compute. constructor; [intros []|constructor].
  - intros id m H. vm_compute in H. discriminate.
  - vm_compute. tauto.
  - intros [H|[H|[H|H]]].
    + vm_compute in H. destruct H as [H|[]]. discriminate.
    + destruct H as (_ & [H|(H & _)]); [vm_compute in H | vm_compute in H]; discriminate.
    + destruct H as (rg & n & ext & a & _ & _ & _ & Hp & _). cbn [fst] in Hp. vm_compute in Hp.
      injection Hp as Hp _. discriminate.
    + destruct H as (H & _). vm_compute in H. discriminate.
Qed.
