(* C19/Model.v — what a Cardano database download leaves in the target directory.  Executable only.
   Source: mithril-client/src/cardano_database_client/download_unpack/internal_downloader.rs
             (download_unpack, batch_download_unpack with max_parallel_downloads = 1)
           .../download_unpack/download_task.rs (download_unpack_file: locations in order,
             build_download_future: immutable archives unpacked straight into the target directory,
             ancillary archive into target/ancillary-<id>, verified, listed files moved, temp removed)
           .../download_unpack/download_unpack_options.rs (verify_compatibility, verify_can_write_to_target_directory)
           mithril-client/src/utils/unexpected_downloaded_file_verifier.rs (expected state = names present in
             immutable/ before + trio names for 0..=last(+1); clean-up of immutable/ only)
           mithril-client/src/utils/ancillary_verifier.rs + internal/.../entities/ancillary_files_manifest.rs
           mithril-client/src/utils/bootstrap_files.rs, file_downloader/http.rs (tar unpack)
   File system = finite map path -> content id (regular files only; a directory exists iff a file lies
   below it).  tar's unpack: regular-file entries, later entries and existing files are overwritten,
   entries with a `..` component are skipped (trusted: the tar crate's traversal guard).
   SHA-256 ideal (C12.Model.file_digest), Ed25519 ideal (Base/IdealSig). *)
From Coq Require Import String.
From MV Require Import Base.Prelude Base.SymHash Base.IdealSig Base.SortUnique Gen.Consts C12.Model C10.Model.
Open Scope list_scope.
Open Scope N_scope.

Definition path := list N.                 (* bytes of a '/'-separated relative path *)
Definition fs := list (path * N).          (* unique keys; content ids: 0 = empty file *)
Definition SLASH : N := 47.

Definition path_eqb (a b : path) : bool := name_eqb a b.
Fixpoint is_prefix (pre p : path) : bool :=
  match pre, p with
  | [], _ => true
  | x :: pre', y :: p' => (x =? y) && is_prefix pre' p'
  | _ :: _, [] => false
  end.
Fixpoint strip_prefix (pre p : path) : option path :=
  match pre, p with
  | [], _ => Some p
  | x :: pre', y :: p' => if x =? y then strip_prefix pre' p' else None
  | _ :: _, [] => None
  end.
Fixpoint first_comp (p : path) : path :=
  match p with [] => [] | c :: r => if c =? SLASH then [] else c :: first_comp r end.
(* split on '/' *)
Fixpoint components_go (p cur : path) : list path :=
  match p with
  | [] => [rev cur]
  | c :: r => if c =? SLASH then rev cur :: components_go r [] else components_go r (c :: cur)
  end.
Definition components (p : path) : list path := components_go p [].
Definition has_dotdot (p : path) : bool := existsb (name_eqb [46; 46]) (components p).

Fixpoint lookup (f : fs) (p : path) : option N :=
  match f with [] => None | (k, c) :: r => if path_eqb k p then Some c else lookup r p end.
Definition remove (p : path) (f : fs) : fs := filter (fun e => negb (path_eqb (fst e) p)) f.
Definition write (p : path) (c : N) (f : fs) : fs := (p, c) :: remove p f.

(* ---------- archives and locations ---------- *)
(* [ar_fail = Some k]: the archive is corrupt after its k-th entry: those are unpacked, then an error *)
Record archive := { ar_entries : list (path * N); ar_fail : option nat }.
Definition location := option archive.     (* None: nothing can be downloaded from this location *)

Definition unpack (root : path) (a : archive) (f : fs) : bool * fs :=
  let es := match ar_fail a with Some k => firstn k (ar_entries a) | None => ar_entries a end in
  (match ar_fail a with None => true | Some _ => false end,
   fold_left (fun acc e => if has_dotdot (fst e) then acc else write (root ++ fst e) (snd e) acc) es f).

(* DownloadTask::download_unpack_file: first location that succeeds; failed attempts leave what they unpacked *)
Fixpoint try_locations (root : path) (ls : list location) (f : fs) : bool * fs :=
  match ls with
  | [] => (false, f)
  | None :: r => try_locations root r f
  | Some a :: r => let (ok, f') := unpack root a f in if ok then (true, f') else try_locations root r f'
  end.

Definition imm_locs := list (N * list location).
Fixpoint locs_of (t : imm_locs) (n : N) : list location :=
  match t with [] => [] | (k, l) :: r => if k =? n then l else locs_of r n end.

(* immutable tasks in ascending order, one at a time; the first failing task stops the batch *)
Fixpoint run_imm (ns : list N) (t : imm_locs) (f : fs) : bool * fs :=
  match ns with
  | [] => (true, f)
  | n :: r => let (ok, f') := try_locations [] (locs_of t n) f in if ok then run_imm r t f' else (false, f')
  end.

(* ---------- ancillary ---------- *)
Record manifest := { m_data : list (path * bt); m_sig : option sg }.
Definition mtable := list (N * manifest).  (* content id -> the manifest that content parses to *)
Fixpoint tbl_get (t : mtable) (id : N) : option manifest :=
  match t with [] => None | (k, m) :: r => if k =? id then Some m else tbl_get r id end.

Definition bytes (s : String.string) : path := bytes_of_string s.
Definition TEMP : path := bytes "ancillary-tmp/"%string.
Definition MANIFEST_NAME : path := bytes "ancillary_manifest.json"%string.
Definition IMM : path := bytes "immutable/"%string.

(* AncillaryFilesManifest::compute_hash: sha256 over key, value, key, value ... fed to the hasher one
   after the other, WITHOUT separators: what is hashed is the concatenation.  Values are the hex text of
   digests (ideal terms); a key is bytes, in which an element >= 256 stands for the 64 hex characters of
   [file_digest (x - 256)] (a path can contain the text of a digest).  Adjacent literal pieces merge. *)
Definition HEXTOK (c : N) : N := 256 + c.
Fixpoint key_stream (p : path) (cur : list N) : list bt :=
  match p with
  | [] => [BLit (rev cur)]
  | x :: r => if x <? 256 then key_stream r (x :: cur)
              else BLit (rev cur) :: file_digest (x - 256) :: key_stream r []
  end.
Fixpoint merge_lits (l : list bt) : list bt :=
  match l with
  | [] => []
  | BLit a :: r => match merge_lits r with
                   | BLit b :: r' => BLit (a ++ b) :: r'
                   | r' => match a with [] => r' | _ => BLit a :: r' end
                   end
  | x :: r => x :: merge_lits r
  end.
Definition manifest_stream (m : manifest) : list bt :=
  merge_lits (flat_map (fun e => key_stream (fst e) [] ++ [snd e]) (m_data m)).
Definition manifest_hash (m : manifest) : bt := BHash SHA256 (manifest_stream m).

Definition data_ok (f : fs) (e : path * bt) : bool :=
  match lookup f (TEMP ++ fst e) with Some c => bt_eqb (file_digest c) (snd e) | None => false end.

(* AncillaryVerifier::verify *)
Definition anc_verify (vk : N) (tbl : mtable) (f : fs) : option manifest :=
  match lookup f (TEMP ++ MANIFEST_NAME) with
  | None => None
  | Some id =>
      match tbl_get tbl id with
      | None => None
      | Some m =>
          if forallb (data_ok f) (m_data m) then
            match m_sig m with
            | Some s => if sg_verify s vk (manifest_hash m) then Some m else None
            | None => None
            end
          else None
      end
  end.

(* ValidatedAncillaryManifest::move_to_final_location: rename temp/file -> target/file *)
Definition anc_move (m : manifest) (f : fs) : fs :=
  fold_left (fun acc e => match lookup acc (TEMP ++ fst e) with
                          | Some c => write (fst e) c (remove (TEMP ++ fst e) acc)
                          | None => acc end) (m_data m) f.
Definition rm_temp (f : fs) : fs := filter (fun e => negb (is_prefix TEMP (fst e))) f.

Definition anc_task (vk : N) (tbl : mtable) (ls : list location) (f : fs) : bool * fs :=
  let (ok, f1) := try_locations TEMP ls f in
  if ok then
    match anc_verify vk tbl f1 with
    | Some m => (true, rm_temp (anc_move m f1))
    | None => (false, rm_temp f1)
    end
  else (false, rm_temp f1).

(* ---------- expected state and clean-up ---------- *)
Definition imm_names_present (f : fs) : list path :=
  flat_map (fun e => match strip_prefix IMM (fst e) with Some rest => [first_comp rest] | None => [] end) f.
Definition expected_set (f : fs) (beacon : N) (anc : bool) : list path :=
  imm_names_present f ++ expected_names (0, if anc then beacon + 1 else beacon).
Definition keep_after_cleanup (expected : list path) (e : path * N) : bool :=
  match strip_prefix IMM (fst e) with
  | Some rest => existsb (name_eqb (first_comp rest)) expected
  | None => true
  end.
Definition cleanup (expected : list path) (f : fs) : fs := filter (keep_after_cleanup expected) f.

Definition dir_exists (d : path) (f : fs) : bool :=    (* d ends with '/' *)
  existsb (fun e => is_prefix d (fst e)) f.

(* create_bootstrap_node_files: `clean` (empty) and, for a known network, `protocolMagicId` *)
Definition CLEAN : path := bytes "clean"%string.
Definition MAGIC : path := bytes "protocolMagicId"%string.
Definition MAGIC_CONTENT : N := 1.
Definition markers (net_known : bool) (f : fs) : fs :=
  let f1 := write CLEAN 0 f in if net_known then write MAGIC MAGIC_CONTENT f1 else f1.

(* ---------- download_unpack ---------- *)
Record scenario := {
  s_init : fs;
  s_beacon : N;
  s_range : irange;
  s_allow_override : bool;
  s_anc : bool;
  s_vk : option N;                 (* ancillary verification key given to the client builder *)
  s_net_known : bool;
  s_par : N;                       (* DownloadUnpackOptions::max_parallel_downloads *)
  s_imm : imm_locs;                (* per immutable number: the locations in the order they are tried *)
  s_anc_locs : list location;
  s_tbl : mtable }.

(* batch_download_unpack: the first `max_parallel_downloads` tasks are spawned, a further one each time a
   task ends.  With 0 nothing is ever spawned and the batch "succeeds" at once (pop_up_to_n 0 = [],
   join_next = None).  With 1 the tasks run one after the other; with more they run concurrently, which
   this model renders by the sequential order (exact when no task fails and the archives used do not
   write the same path - the cases the harness runs with more than one download at a time; an aborted
   batch is modelled apart: [download_unpack_aborted]). *)
Definition tasks_run (s : scenario) : bool := negb (s_par s =? 0).

Definition download_unpack (s : scenario) : bool * fs :=
  let f0 := s_init s in
  match to_range (s_range s) (s_beacon s) with
  | Ok rg =>
      if s_anc s && negb (in_range rg (s_beacon s)) then (false, f0)
      else if negb (s_allow_override s) &&
              (dir_exists IMM f0 || (s_anc s && (dir_exists (bytes "volatile/"%string) f0 || dir_exists (bytes "ledger/"%string) f0)))
      then (false, f0)
      else
        let expected := expected_set f0 (s_beacon s) (s_anc s) in
        match s_anc s, s_vk s with
        | true, None => (false, f0)                 (* ancillary task cannot be built *)
        | _, _ =>
            let (ok1, f1) := run_imm (if tasks_run s then range_numbers rg else []) (s_imm s) f0 in
            let (ok2, f2) := match ok1, s_anc s && tasks_run s, s_vk s with
                             | true, true, Some vk => anc_task vk (s_tbl s) (s_anc_locs s) f1
                             | _, _, _ => (ok1, f1)
                             end in
            let f3 := cleanup expected f2 in
            if ok2 then (true, markers (s_net_known s) f3) else (false, f3)
        end
  | _ => (false, f0)
  end.

(* max_parallel_downloads > 1, a task fails while the ancillary task is still running: abort_all drops
   the future of the ancillary task where it is - neither verification nor the removal of its temporary
   directory takes place - and what its unpacking thread wrote stays.  One schedule class: the immutable
   tasks as modelled above (ending in failure), the ancillary archive [a] unpacked up to its k-th entry. *)
Definition download_unpack_aborted (s : scenario) (k : nat) (a : archive) : bool * fs :=
  let f0 := s_init s in
  match to_range (s_range s) (s_beacon s) with
  | Ok rg =>
      let (ok1, f1) := run_imm (range_numbers rg) (s_imm s) f0 in
      if ok1 then download_unpack s
      else (false, cleanup (expected_set f0 (s_beacon s) (s_anc s))
                     (snd (unpack TEMP {| ar_entries := ar_entries a; ar_fail := Some k |} f1)))
  | _ => (false, f0)
  end.

(* ---------- correspondence ---------- *)
Definition entry_leb (a b : path * N) : bool :=
  if name_eqb (fst a) (fst b) then snd a <=? snd b else name_leb (fst a) (fst b).
Definition obs_fs (f : fs) : obs :=
  OL (map (fun e => OL [OLN (fst e); ON (snd e)]) (isort entry_leb f)).
Definition run (s : scenario) : obs :=
  let (ok, f) := download_unpack s in OL [OB ok; obs_fs f].
