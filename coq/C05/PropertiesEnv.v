(* C05/PropertiesEnv.v — the property theorems about the hand-written CBOR envelope branches
   (C05/ModelEnv.v), nothing else.
   [E] is what ciborium makes of the envelope bytes (any finite map: the theorems hold whatever it
   answers), [V] what blst answers on group elements, [env_small E] / [small bs]: every byte string
   involved is shorter than 2^56 bytes. *)
From MV Require Import Base.Prelude C05.Model C05.Proofs C05.Roundtrip C05.ModelEnv C05.ProofsEnv.
Open Scope N_scope.

(* ---- the envelope model extends C05.Model: with no oracle entry it is the same function ---- *)
Theorem C05_env_conservative_registered_party : forall md V bs, q_sigreg md V [] bs = p_sigreg md V bs.
Proof. exact q_sigreg_nil. Qed.
Theorem C05_env_conservative_aggregate_signature : forall md V bs, q_aggr md V [] bs = p_aggr md V bs.
Proof. exact q_aggr_nil. Qed.

(* ---- totality through every mix of formats: CBOR envelopes around legacy layouts around CBOR
        envelopes ..., whatever ciborium and blst answer, in checked and wrapping builds ---- *)
Theorem C05_env_registration_entry_total : forall V E bs, q_reg V E bs <> Crash.
Proof. exact q_reg_nc. Qed.
Theorem C05_env_signature_registered_party_total :
  forall md V E bs, env_small E -> small bs -> q_sigreg md V E bs <> Crash.
Proof. exact q_sigreg_nc. Qed.
Theorem C05_env_concatenation_proof_total :
  forall md V E bs, env_small E -> small bs -> q_cproof md V E bs <> Crash.
Proof. exact q_cproof_nc. Qed.
Theorem C05_env_aggregate_signature_total :
  forall md V E bs, env_small E -> small bs -> q_aggr md V E bs <> Crash.
Proof. exact q_aggr_nc. Qed.

(* ---- a CBOR envelope around the two legacy layouts decodes to the encoded value ---- *)
Theorem C05_env_registered_party_mixed_roundtrip : forall md V E k x,
  is_cbor k = true -> sigreg_ok V x ->
  lookup E k = Some (ESigReg (e_ssig (sr_sig x)) (e_reg (sr_reg x))) ->
  is_cbor (e_ssig (sr_sig x)) = false -> is_cbor (e_reg (sr_reg x)) = false ->
  q_sigreg md V E k = Val x.
Proof. exact q_sigreg_env_legacy. Qed.

(* ---- non-vacuity: an aggregate signature as CBOR envelope > CBOR proof envelope > one CBOR
        registered-party envelope (legacy signature, CBOR registration envelope) and one legacy
        registered party > legacy batch path; and the type tag / rejected-leaf / unknown cases ---- *)
Definition exE_vkb := ex_vk.
Definition exE_k_reg : bytes := [1; 101].
Definition exE_k_sr : bytes := [1; 102].
Definition exE_k_cp : bytes := [1; 103].
Definition exE_k_ag : bytes := [1; 104].
Definition exE_k_ag1 : bytes := [1; 105].
Definition exE_k_leaf : bytes := [1; 106].
Definition exE : env :=
  [ (exE_k_reg, EReg exE_vkb 7);
    (exE_k_sr, ESigReg (e_ssig (sr_sig ex_sr)) exE_k_reg);
    (exE_k_cp, ECProof [exE_k_sr; e_sigreg ex_sr] (e_bpath (cp_bp ex_proof)));
    (exE_k_ag, EAggr 0 exE_k_cp);
    (exE_k_ag1, EAggr 1 exE_k_cp);
    (exE_k_leaf, ESsig None) ].
Example C05_ex_env :
  env_small exE /\
  q_aggr Checked ex_V exE exE_k_ag =
    Val {| cp_sigs := [ {| sr_sig := sr_sig ex_sr; sr_reg := {| rg_vk := ex_vk; rg_stake := 7 |} |}; ex_sr ];
           cp_bp := cp_bp ex_proof |} /\
  q_aggr Wrapping ex_V exE (0 :: exE_k_cp) = q_aggr Checked ex_V exE exE_k_ag /\
  q_aggr Checked ex_V exE exE_k_ag1 = Fail /\
  q_aggr Checked ex_V exE [1; 99] = Cbor /\
  q_ssig Checked ex_V exE exE_k_leaf = Fail /\
  q_aggr Checked (mkV []) exE exE_k_ag = Fail.
Proof.
  split; [|vm_compute; repeat split; reflexivity].
  unfold env_small, exE. repeat constructor; cbn [snd entry_small]; unfold small; try lt_by_compute.
Qed.
