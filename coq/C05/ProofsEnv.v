(* C05/ProofsEnv.v — lemmas about the envelope model (C05/ModelEnv.v): it extends C05/Model.v,
   it is total whatever ciborium / blst answer, and mixed-format encodings round-trip. *)
From Coq Require Import Lia.
From MV Require Import Base.Prelude C05.Model C05.Proofs C05.Roundtrip C05.ModelEnv.
Open Scope N_scope.

(* ---------- the oracle's payloads are byte strings of the same address space ---------- *)
Definition entry_small (e : entry) : Prop :=
  match e with
  | EReg vk _ => small vk
  | ESigReg s r => small s /\ small r
  | ECProof sigs bp => Forall (fun b => small b) sigs /\ small bp
  | EAggr _ p => small p
  | ESsig _ => True
  | EBpath _ => True
  end.
Definition env_small (E : env) : Prop := Forall (fun ke => entry_small (snd ke)) E.

Lemma lookup_small E bs e : env_small E -> lookup E bs = Some e -> entry_small e.
Proof.
  induction 1 as [|[k x] r Hx Hr IH]; cbn [lookup]; [discriminate|].
  destruct (bytes_eqb k bs); [intros H; inversion H; subst; exact Hx|exact IH].
Qed.

Lemma is_cbor_versioned {A} bs (f : bytes -> out A) :
  versioned bs f = if is_cbor bs then Cbor else f bs.
Proof.
  unfold versioned, is_cbor. destruct bs as [|b r]; [reflexivity|].
  destruct b as [|p]; [reflexivity|]. destruct p; reflexivity.
Qed.

Lemma obind_ext {A B} (o : out A) (f g : A -> out B) : (forall a, f a = g a) -> obind o f = obind o g.
Proof. intros H. destruct o; cbn; [apply H|reflexivity|reflexivity|reflexivity]. Qed.

(* ---------- conservative extension: without oracle entries the envelope model is C05.Model ---------- *)
Lemma q_ssig_nil md V bs : q_ssig md V [] bs = p_ssig md V bs.
Proof. unfold q_ssig, p_ssig. rewrite is_cbor_versioned. reflexivity. Qed.
Lemma q_bpath_nil bs : q_bpath [] bs = p_bpath bs.
Proof. unfold q_bpath, p_bpath. rewrite is_cbor_versioned. reflexivity. Qed.
Lemma q_reg_nil V bs : q_reg V [] bs = p_reg V bs.
Proof. unfold q_reg, p_reg. rewrite is_cbor_versioned. reflexivity. Qed.
Lemma q_sigreg_legacy_nil md V bs : q_sigreg_legacy md V [] bs = p_sigreg_legacy md V bs.
Proof.
  unfold q_sigreg_legacy, p_sigreg_legacy. cbv zeta.
  apply obind_ext; intro h. apply obind_ext; intro so. apply obind_ext; intro rb.
  rewrite q_reg_nil. apply obind_ext; intro r. apply obind_ext; intro so8. apply obind_ext; intro h2.
  apply obind_ext; intro se. apply obind_ext; intro sb. rewrite q_ssig_nil. reflexivity.
Qed.
Lemma q_sigreg_nil md V bs : q_sigreg md V [] bs = p_sigreg md V bs.
Proof.
  unfold q_sigreg, p_sigreg. rewrite is_cbor_versioned. cbn [lookup].
  rewrite q_sigreg_legacy_nil. reflexivity.
Qed.
Lemma cq_loop_nil md V bs n : forall fuel k idx acc,
  cq_loop md V [] fuel bs k n idx acc = cp_loop md V fuel bs k n idx acc.
Proof.
  induction fuel as [|f IH]; intros k idx acc; [reflexivity|].
  cbn [cq_loop cp_loop]. destruct (k <? n); [|reflexivity]. cbv zeta.
  apply obind_ext; intro i8. apply obind_ext; intro h. apply obind_ext; intro e.
  apply obind_ext; intro sb. rewrite q_sigreg_nil. apply obind_ext; intro sr. apply IH.
Qed.
Lemma q_cproof_legacy_nil md V bs : q_cproof_legacy md V [] bs = p_cproof_legacy md V bs.
Proof.
  unfold q_cproof_legacy, p_cproof_legacy. cbv zeta.
  apply obind_ext; intro h. apply obind_ext; intros _. rewrite cq_loop_nil.
  apply obind_ext; intro r. apply obind_ext; intro rest. rewrite q_bpath_nil. reflexivity.
Qed.
Lemma q_cproof_nil md V bs : q_cproof md V [] bs = p_cproof md V bs.
Proof.
  unfold q_cproof, p_cproof. rewrite is_cbor_versioned. cbn [lookup].
  rewrite q_cproof_legacy_nil. reflexivity.
Qed.
Lemma q_aggr_nil md V bs : q_aggr md V [] bs = p_aggr md V bs.
Proof.
  unfold q_aggr, p_aggr, p_aggr_legacy, is_cbor. cbn [lookup].
  destruct bs as [|b r]; [reflexivity|].
  assert (R : (if b =? 0 then q_cproof md V [] r else Fail) = (if b =? 0 then p_cproof md V r else Fail))
    by (rewrite q_cproof_nil; reflexivity).
  destruct b as [|p]; [exact R|]. destruct p; try exact R. reflexivity.
Qed.

(* ---------- totality ---------- *)
Lemma q_ssig_nc md V E bs : small bs -> q_ssig md V E bs <> Crash.
Proof.
  intros Hs. unfold q_ssig. destruct (is_cbor bs).
  - destruct (lookup E bs) as [[| | | |[s|]|]|]; discriminate.
  - apply p_ssig_legacy_nc, Hs.
Qed.
Lemma q_bpath_nc E bs : small bs -> q_bpath E bs <> Crash.
Proof.
  intros Hs. unfold q_bpath. destruct (is_cbor bs).
  - destruct (lookup E bs) as [[| | | | |[b|]]|]; discriminate.
  - apply p_bpath_legacy_nc, Hs.
Qed.
Lemma q_reg_nc V E bs : q_reg V E bs <> Crash.
Proof.
  unfold q_reg. destruct (is_cbor bs).
  - destruct (lookup E bs) as [[vk st| | | | |]|]; try discriminate.
    apply bind_nc; [apply p_vk_nc|intros; discriminate].
  - apply p_reg_legacy_nc.
Qed.
Lemma q_sigreg_legacy_nc md V E bs : small bs -> q_sigreg_legacy md V E bs <> Crash.
Proof.
  intros Hs. unfold q_sigreg_legacy. peel. peel. peel.
  apply bind_nc; [apply q_reg_nc|intros r _].
  getb E2. unfold small in Hs. rewrite BOUND_val in Hs.
  peel; [|rewrite U64_val; lia]. peel. peel. peel.
  apply bind_nc; [|intros; discriminate].
  apply q_ssig_nc. getb E5. unfold small. rewrite BOUND_val. lia.
Qed.
Lemma q_sigreg_nc md V E bs : env_small E -> small bs -> q_sigreg md V E bs <> Crash.
Proof.
  intros HE Hs. unfold q_sigreg. destruct (is_cbor bs).
  - destruct (lookup E bs) as [e|] eqn:L; [|discriminate].
    pose proof (lookup_small _ _ _ HE L) as He.
    destruct e as [| sb rb | | | |]; try discriminate. destruct He as [Hsb Hrb].
    apply bind_nc; [apply q_ssig_nc, Hsb|intros s _].
    apply bind_nc; [apply q_reg_nc|intros; discriminate].
  - apply q_sigreg_legacy_nc, Hs.
Qed.
Lemma cq_loop_nc md V E bs n : env_small E -> small bs ->
  forall fuel k idx acc, 8 * k <= idx -> idx <= len bs -> len bs < N.of_nat fuel + k ->
  cq_loop md V E fuel bs k n idx acc <> Crash.
Proof.
  intros HE Hs. pose proof Hs as Hs'. unfold small in Hs'. rewrite BOUND_val in Hs'.
  induction fuel as [|f IH]; intros k idx acc Hk Hi Hf.
  - lia.
  - cbn [cq_loop]. destruct (k <? n); [|discriminate].
    peel; [|rewrite U64_val; lia]. peel. peel. peel.
    getb E0. apply cadd_some in E1. getb E2.
    apply bind_nc; [apply q_sigreg_nc; [exact HE|unfold small; rewrite BOUND_val; lia]|intros sr _].
    apply IH; lia.
Qed.
Lemma cq_loop_val md V E bs n :
  forall fuel k idx acc r, idx <= len bs -> cq_loop md V E fuel bs k n idx acc = Val r -> snd r <= len bs.
Proof.
  induction fuel as [|f IH]; intros k idx acc r Hi H.
  - discriminate.
  - cbn [cq_loop] in H. destruct (k <? n).
    + apply bind_val in H. destruct H as [i8 [_ H]].
      apply bind_val in H. destruct H as [h [_ H]].
      apply bind_val in H. destruct H as [e [_ H]].
      apply bind_val in H. destruct H as [sb [Hsb H]].
      apply bind_val in H. destruct H as [sr [_ H]].
      destruct (get bs i8 e) eqn:G; cbn in Hsb; [|discriminate]. getb G.
      eapply IH; [|exact H]. lia.
    + inversion H. cbn. assumption.
Qed.
Lemma q_cproof_legacy_nc md V E bs : env_small E -> small bs -> q_cproof_legacy md V E bs <> Crash.
Proof.
  intros HE Hs. unfold q_cproof_legacy. peel. getb E0.
  unfold alloc_ok.
  match goal with |- context [cp_capacity bs ?t] =>
    pose proof (cp_capacity_le bs t) as Hc;
    assert (Hle : cp_capacity bs t * SIGREG_SIZE <=? ISIZE_MAX = true)
      by (apply N.leb_le; unfold small in Hs; rewrite BOUND_val in Hs; rewrite ISIZE_val; lia);
    rewrite Hle end.
  cbn [obind].
  apply bind_nc; [apply cq_loop_nc; [exact HE|assumption|lia|lia|unfold len; lia]|intros r Hr].
  apply cq_loop_val in Hr; [|lia].
  peel. apply bind_nc; [|intros; discriminate].
  apply q_bpath_nc. getb E1. unfold small in *. lia.
Qed.
Lemma q_sigs_nc md V E l : env_small E -> Forall (fun b => small b) l -> q_sigs md V E l <> Crash.
Proof.
  intros HE. induction 1 as [|b r Hb Hr IH]; cbn [q_sigs]; [discriminate|].
  apply bind_nc; [apply q_sigreg_nc; assumption|intros x _].
  apply bind_nc; [exact IH|intros; discriminate].
Qed.
Lemma q_cproof_nc md V E bs : env_small E -> small bs -> q_cproof md V E bs <> Crash.
Proof.
  intros HE Hs. unfold q_cproof. destruct (is_cbor bs).
  - destruct (lookup E bs) as [e|] eqn:L; [|discriminate].
    pose proof (lookup_small _ _ _ HE L) as He.
    destruct e as [| | sigs bp | | |]; try discriminate. destruct He as [Hl Hbp].
    apply bind_nc; [apply q_sigs_nc; assumption|intros l _].
    apply bind_nc; [apply q_bpath_nc, Hbp|intros; discriminate].
  - apply q_cproof_legacy_nc; assumption.
Qed.
Lemma q_aggr_nc md V E bs : env_small E -> small bs -> q_aggr md V E bs <> Crash.
Proof.
  intros HE Hs. unfold q_aggr. destruct (is_cbor bs).
  - destruct (lookup E bs) as [e|] eqn:L; [|discriminate].
    pose proof (lookup_small _ _ _ HE L) as He.
    destruct e as [| | | ty p | |]; try discriminate.
    destruct (ty =? 0); [|discriminate]. apply q_cproof_nc; assumption.
  - destruct bs as [|t rest]; [discriminate|]. destruct (t =? 0); [|discriminate].
    apply q_cproof_nc; [exact HE|]. unfold small, len in *. cbn [length] in Hs. lia.
Qed.

(* ---------- mixed-format round trips ---------- *)
(* a CBOR envelope around the two legacy layouts *)
Lemma q_sigreg_env_legacy md V E k x :
  is_cbor k = true -> sigreg_ok V x ->
  lookup E k = Some (ESigReg (e_ssig (sr_sig x)) (e_reg (sr_reg x))) ->
  is_cbor (e_ssig (sr_sig x)) = false -> is_cbor (e_reg (sr_reg x)) = false ->
  q_sigreg md V E k = Val x.
Proof.
  intros Hk Hx HL Hs Hr. unfold q_sigreg. rewrite Hk, HL.
  unfold q_ssig, q_reg. rewrite Hs, Hr.
  destruct Hx as [Hsig [Hreg _]].
  rewrite (ssig_roundtrip md V _ Hsig). cbn [obind].
  rewrite (reg_roundtrip V _ Hreg). cbn [obind]. destruct x; reflexivity.
Qed.
