(* C05/ModelEnv.v — the hand-written CBOR *envelope* branches of mithril-stm (first byte = 1), on top
   of C05/Model.v.  Executable definitions only.

   Four types of mithril-stm are not CBOR-encoded by a serde derive but through a hand-written
   envelope whose fields are byte strings that are decoded again, each with its own version
   dispatch:
     ClosedRegistrationEntry::from_bytes             {verification_key_bytes, stake}
     SingleSignatureWithRegisteredParty::from_bytes  {signature_bytes, registration_entry_bytes}
     ConcatenationProof::from_bytes                  {signature_bytes: [bytes], batch_proof_bytes}
     AggregateSignature::from_bytes_cbor             {signature_type, proof_bytes}  (+ legacy fallback)
   so one input can mix the formats at every nesting level (a CBOR envelope around legacy layouts,
   a legacy layout around CBOR envelopes, ...).  C05/Model.v answers [Cbor] (no opinion) as soon
   as a first byte is 1; here the third-party step only (ciborium turning the envelope bytes into
   the envelope's fields, and the serde-derived CBOR of the two leaf types SingleSignature and
   MerkleBatchPath) is an oracle [E]: a finite map from byte strings to what ciborium makes of them,
   supplied by the harness from provenance (it built the envelope).  Everything the repository
   itself does with the fields is modelled: which inner decoder runs on which field, in which
   order, the type tag, the fallback.  A byte string starting with 1 that is not in [E] is still
   [Cbor]. *)
From MV Require Import Base.Prelude C05.Model.
Open Scope N_scope.

Inductive entry :=
| EReg (vk : bytes) (stake : N)            (* ClosedRegistrationEntryCborEnvelope *)
| ESigReg (sig reg : bytes)                (* SingleSignatureWithRegisteredPartyCborEnvelope *)
| ECProof (sigs : list bytes) (bp : bytes) (* ConcatenationProofCborEnvelope *)
| EAggr (ty : N) (proof : bytes)           (* AggregateSignatureCborEnvelope *)
| ESsig (r : option ssig)                  (* derived CBOR of SingleSignature: value / rejected *)
| EBpath (r : option bpath).               (* derived CBOR of MerkleBatchPath: value / rejected *)
Definition env := list (bytes * entry).

Fixpoint lookup (E : env) (bs : bytes) : option entry :=
  match E with
  | [] => None
  | (k, e) :: r => if bytes_eqb k bs then Some e else lookup r bs
  end.

(* codec::has_cbor_v1_prefix *)
Definition is_cbor (bs : bytes) : bool := match bs with 1 :: _ => true | _ => false end.

(* ---------- leaves: SingleSignature, MerkleBatchPath (from_versioned_bytes, derived CBOR) ---------- *)
Definition q_ssig (md : mode) (V : oracle) (E : env) (bs : bytes) : out ssig :=
  if is_cbor bs then
    match lookup E bs with
    | Some (ESsig (Some s)) => Val s
    | Some (ESsig None) => Fail
    | _ => Cbor
    end
  else p_ssig_legacy md V bs.
Definition q_bpath (E : env) (bs : bytes) : out bpath :=
  if is_cbor bs then
    match lookup E bs with
    | Some (EBpath (Some b)) => Val b
    | Some (EBpath None) => Fail
    | _ => Cbor
    end
  else p_bpath_legacy bs.

(* ---------- ClosedRegistrationEntry::from_bytes ---------- *)
Definition q_reg (V : oracle) (E : env) (bs : bytes) : out reg :=
  if is_cbor bs then
    match lookup E bs with
    | Some (EReg vkb stake) =>
        do! vk <- p_vk V vkb ;;                       (* VerificationKeyForConcatenation::from_bytes(&envelope.verification_key_bytes) *)
        Val {| rg_vk := vk; rg_stake := stake |}
    | _ => Cbor
    end
  else p_reg_legacy V bs.

(* ---------- SingleSignatureWithRegisteredParty::from_bytes ---------- *)
Definition q_sigreg_legacy (md : mode) (V : oracle) (E : env) (bs : bytes) : out sigreg :=
  do! h <- of_opt (get bs 0 8) ;;
  let size_reg := be64 h in
  do! sig_offset <- of_opt (cadd 8 size_reg) ;;
  do! rb <- of_opt (get bs 8 sig_offset) ;;
  do! r <- q_reg V E rb ;;
  do! so8 <- of_res (madd md sig_offset 8) ;;
  do! h2 <- of_opt (get bs sig_offset so8) ;;
  let size_sig := be64 h2 in
  do! sig_end <- of_opt (cadd so8 size_sig) ;;
  do! sb <- of_opt (get bs so8 sig_end) ;;
  do! s <- q_ssig md V E sb ;;
  Val {| sr_sig := s; sr_reg := r |}.
Definition q_sigreg (md : mode) (V : oracle) (E : env) (bs : bytes) : out sigreg :=
  if is_cbor bs then
    match lookup E bs with
    | Some (ESigReg sb rb) =>
        do! s <- q_ssig md V E sb ;;                  (* the signature is decoded first *)
        do! r <- q_reg V E rb ;;
        Val {| sr_sig := s; sr_reg := r |}
    | _ => Cbor
    end
  else q_sigreg_legacy md V E bs.

(* ---------- ConcatenationProof::from_bytes ---------- *)
Fixpoint cq_loop (md : mode) (V : oracle) (E : env) (fuel : nat) (bs : bytes) (k n idx : N) (acc : list sigreg)
  : out (list sigreg * N) :=
  match fuel with
  | O => Crash
  | S f =>
      if k <? n then
        do! i8 <- of_res (madd md idx 8) ;;
        do! h <- of_opt (get bs idx i8) ;;
        let size := be64 h in
        do! e <- of_opt (cadd i8 size) ;;
        do! sb <- of_opt (get bs i8 e) ;;
        do! sr <- q_sigreg md V E sb ;;
        cq_loop md V E f bs (k + 1) n e (sr :: acc)
      else Val (rev acc, idx)
  end.
Definition q_cproof_legacy (md : mode) (V : oracle) (E : env) (bs : bytes) : out cproof :=
  do! h <- of_opt (get bs 0 8) ;;
  let total := be64 h in
  do! _ <- alloc_ok (cp_capacity bs total) SIGREG_SIZE ;;
  do! r <- cq_loop md V E (S (length bs)) bs 0 total 8 [] ;;
  do! rest <- of_opt (get_from bs (snd r)) ;;
  do! bp <- q_bpath E rest ;;
  Val {| cp_sigs := fst r; cp_bp := bp |}.
(* envelope.signature_bytes.iter().map(from_bytes).collect::<StmResult<Vec<_>>>()? : stops at the first error *)
Fixpoint q_sigs (md : mode) (V : oracle) (E : env) (l : list bytes) : out (list sigreg) :=
  match l with
  | [] => Val []
  | b :: r => do! x <- q_sigreg md V E b ;; do! xs <- q_sigs md V E r ;; Val (x :: xs)
  end.
Definition q_cproof (md : mode) (V : oracle) (E : env) (bs : bytes) : out cproof :=
  if is_cbor bs then
    match lookup E bs with
    | Some (ECProof sigs bpb) =>
        do! l <- q_sigs md V E sigs ;;
        do! b <- q_bpath E bpb ;;
        Val {| cp_sigs := l; cp_bp := b |}
    | _ => Cbor
    end
  else q_cproof_legacy md V E bs.

(* ---------- AggregateSignature::from_bytes ---------- *)
(* first byte 1: from_bytes_cbor(&bytes[1..]).or_else(|_| from_bytes_legacy(bytes)); the legacy decoder
   refuses the type prefix 1 (no future_snark), so an error of the CBOR branch stays an error *)
Definition q_aggr (md : mode) (V : oracle) (E : env) (bs : bytes) : out cproof :=
  if is_cbor bs then
    match lookup E bs with
    | Some (EAggr ty proof) => if ty =? 0 then q_cproof md V E proof else Fail
    | _ => Cbor
    end
  else
    match bs with
    | [] => Fail
    | t :: rest => if t =? 0 then q_cproof md V E rest else Fail
    end.

(* ---------- the correspondence channel ---------- *)
(* types 2 (SingleSignatureWithRegisteredParty) and 7 (AggregateSignature) with an envelope oracle;
   every other type as in C05.Model.run *)
Definition run_env (ty : N) (md : mode) (l : list (N * bytes)) (E : env) (bs : bytes) : obs :=
  let V := mkV l in
  match ty with
  | 2 => oout obs_sigreg (q_sigreg md V E bs)
  | 7 => oout obs_aggr (q_aggr md V E bs)
  | _ => run ty md l bs
  end.
