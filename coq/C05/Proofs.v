(* C05/Proofs.v — lemmas: totality (no Crash), allocation bounds, round trips. *)
From Coq Require Import Lia.
From MV Require Import Base.Prelude C05.Model.
Open Scope N_scope.

Lemma of_opt_nc {A} (o : option A) : of_opt o <> Crash.
Proof. destruct o; discriminate. Qed.

Lemma bind_nc {A B} (o : out A) (f : A -> out B) :
  o <> Crash -> (forall a, o = Val a -> f a <> Crash) -> obind o f <> Crash.
Proof. destruct o; cbn; intros H1 H2; try discriminate; [apply H2; reflexivity | congruence]. Qed.

Lemma versioned_nc {A} (bs : bytes) (legacy : bytes -> out A) :
  legacy bs <> Crash -> versioned bs legacy <> Crash.
Proof.
  intros H. unfold versioned. destruct bs as [|b r]; [exact H|].
  destruct b as [|p]; [exact H|]. destruct p; try exact H. discriminate.
Qed.

Lemma p_params_legacy_nc bs : p_params_legacy bs <> Crash.
Proof.
  unfold p_params_legacy.
  repeat (apply bind_nc; [apply of_opt_nc | intros ? _]). discriminate.
Qed.
Lemma p_params_nc bs : p_params bs <> Crash.
Proof. apply versioned_nc, p_params_legacy_nc. Qed.
