(* C05/Proofs.v — lemmas: totality (no Crash, which includes "fuel never exhausted"),
   allocation bounds. Round trips are in Roundtrip.v. *)
From Coq Require Import Lia.
From MV Require Import Base.Prelude C05.Model.
Open Scope N_scope.

(* inputs are shorter than 2^56 bytes (a Rust slice is at most isize::MAX = 2^63-1 bytes; an
   x86-64 address space has 2^47) *)
Definition BOUND : N := 72057594037927936.
Definition small {A} (bs : list A) : Prop := len bs < BOUND.

Lemma U64_val : U64 = 18446744073709551616. Proof. reflexivity. Qed.
Lemma BOUND_val : BOUND = 72057594037927936. Proof. reflexivity. Qed.
Lemma ISIZE_val : ISIZE_MAX = 9223372036854775807. Proof. reflexivity. Qed.
Global Opaque U64 BOUND ISIZE_MAX.

(* ---------- outcome algebra ---------- *)
Lemma of_opt_nc {A} (o : option A) : of_opt o <> Crash.
Proof. destruct o; discriminate. Qed.

Lemma bind_nc {A B} (o : out A) (f : A -> out B) :
  o <> Crash -> (forall a, o = Val a -> f a <> Crash) -> obind o f <> Crash.
Proof. destruct o; cbn; intros H1 H2; try discriminate; [apply H2; reflexivity | congruence]. Qed.

Lemma bind_val {A B} (o : out A) (f : A -> out B) (b : B) :
  obind o f = Val b -> exists a, o = Val a /\ f a = Val b.
Proof. destruct o; cbn; intros H; try discriminate. eauto. Qed.

Lemma versioned_nc {A} (bs : bytes) (legacy : bytes -> out A) :
  legacy bs <> Crash -> versioned bs legacy <> Crash.
Proof.
  intros H. unfold versioned. destruct bs as [|b r]; [exact H|].
  destruct b as [|p]; [exact H|]. destruct p; try exact H. discriminate.
Qed.

(* ---------- machine arithmetic ---------- *)
Lemma madd_ok md a b : a + b < U64 -> madd md a b = Ok (a + b).
Proof. intros H. unfold madd. apply N.ltb_lt in H. rewrite H. reflexivity. Qed.
Lemma mmul_ok md a b : a * b < U64 -> mmul md a b = Ok (a * b).
Proof. intros H. unfold mmul. apply N.ltb_lt in H. rewrite H. reflexivity. Qed.
Lemma msub_ok md a b : b <= a -> msub md a b = Ok (a - b).
Proof. intros H. unfold msub. apply N.leb_le in H. rewrite H. reflexivity. Qed.
Lemma cadd_some a b c : cadd a b = Some c -> c = a + b /\ a + b < U64.
Proof. unfold cadd. destruct (a + b <? U64) eqn:E; intros H; inversion H. apply N.ltb_lt in E. auto. Qed.
Lemma cmul_some a b c : cmul a b = Some c -> c = a * b /\ a * b < U64.
Proof. unfold cmul. destruct (a * b <? U64) eqn:E; intros H; inversion H. apply N.ltb_lt in E. auto. Qed.

(* ---------- slices ---------- *)
Lemma get_some bs a b s : get bs a b = Some s -> a <= b /\ b <= len bs /\ len s = b - a.
Proof.
  unfold get. destruct ((a <=? b) && (b <=? len bs)) eqn:E; intros H; inversion H; subst; clear H.
  apply andb_true_iff in E. destruct E as [E1 E2]. apply N.leb_le in E1. apply N.leb_le in E2.
  repeat split; try assumption.
  unfold len in *. rewrite firstn_length, skipn_length. lia.
Qed.
Lemma get_from_some bs a s : get_from bs a = Some s -> a <= len bs /\ len s = len bs - a.
Proof. unfold get_from. intros H. apply get_some in H. lia. Qed.

Ltac getb H := first [apply get_some in H | apply get_from_some in H].

(* one step of a totality proof: peel the next bind *)
Ltac peel :=
  lazymatch goal with
  | |- obind (of_opt ?o) _ <> Crash =>
      let E := fresh "E" in destruct o eqn:E; cbn [of_opt obind]; [|discriminate]
  | |- obind (of_res (madd _ _ _)) _ <> Crash => rewrite madd_ok; [cbn [of_res obind]|]
  | |- obind (of_res (mmul _ _ _)) _ <> Crash => rewrite mmul_ok; [cbn [of_res obind]|]
  | |- obind (of_res (msub _ _ _)) _ <> Crash => rewrite msub_ok; [cbn [of_res obind]|]
  | |- Val _ <> Crash => discriminate
  | |- Fail <> Crash => discriminate
  | |- (if ?c then _ else _) <> Crash => destruct c
  end.

(* ---------- fixed-size group elements ---------- *)
Lemma p_sig_nc V bs : p_sig V bs <> Crash.
Proof. unfold p_sig. repeat peel. Qed.
Lemma p_vk_nc V bs : p_vk V bs <> Crash.
Proof. unfold p_vk. repeat peel. Qed.
Lemma p_sk_nc V bs : p_sk V bs <> Crash.
Proof. unfold p_sk. repeat peel. Qed.
Lemma p_vkpop_nc V bs : p_vkpop V bs <> Crash.
Proof.
  unfold p_vkpop. peel. apply bind_nc; [apply p_vk_nc|intros vk _].
  repeat peel.
Qed.

(* ---------- Parameters ---------- *)
Lemma p_params_legacy_nc bs : p_params_legacy bs <> Crash.
Proof. unfold p_params_legacy. repeat peel. Qed.
Lemma p_params_nc bs : p_params bs <> Crash.
Proof. apply versioned_nc, p_params_legacy_nc. Qed.

(* ---------- SingleSignature ---------- *)
Lemma ss_loop_nc md bs n : small bs ->
  forall fuel i acc, i <= len bs -> len bs < N.of_nat fuel + i -> ss_loop md fuel bs i n acc <> Crash.
Proof.
  unfold small. rewrite BOUND_val. intros Hs. induction fuel as [|f IH]; intros i acc Hi Hf.
  - lia.
  - cbn [ss_loop]. destruct (i <? n); [|discriminate].
    peel; [|rewrite U64_val; lia]. peel; [|rewrite U64_val; lia]. peel; [|rewrite U64_val; lia].
    peel. getb E. apply IH; lia.
Qed.
Lemma ss_loop_val md bs n : small bs ->
  forall fuel i acc r, i <= n -> i <= len bs -> ss_loop md fuel bs i n acc = Val r -> n <= len bs.
Proof.
  unfold small. rewrite BOUND_val. intros Hs. induction fuel as [|f IH]; intros i acc r Hn Hi H.
  - discriminate.
  - cbn [ss_loop] in H. destruct (i <? n) eqn:Lt.
    + apply N.ltb_lt in Lt.
      rewrite mmul_ok in H by (rewrite U64_val; lia). cbn [of_res obind] in H.
      rewrite !madd_ok in H by (rewrite U64_val; lia). cbn [of_res obind] in H.
      destruct (get bs (8 + i * 8) (16 + i * 8)) eqn:E; cbn [of_opt obind] in H; [|discriminate].
      getb E. eapply IH; [| |exact H]; lia.
    + apply N.ltb_ge in Lt. lia.
Qed.
Lemma p_ssig_legacy_nc md V bs : small bs -> p_ssig_legacy md V bs <> Crash.
Proof.
  intros Hs. unfold p_ssig_legacy. peel. getb E.
  apply bind_nc; [apply ss_loop_nc; [assumption|lia|unfold len; lia]|intros idx Hidx].
  apply ss_loop_val in Hidx; [|assumption|lia|lia].
  unfold small in Hs. rewrite BOUND_val in Hs.
  peel; [|rewrite U64_val; lia]. peel; [|rewrite U64_val; lia]. peel; [|rewrite U64_val; lia].
  peel. apply bind_nc; [apply p_sig_nc|intros sg _].
  peel; [|rewrite U64_val; lia]. peel. discriminate.
Qed.
Lemma p_ssig_nc md V bs : small bs -> p_ssig md V bs <> Crash.
Proof. intros. apply versioned_nc, p_ssig_legacy_nc. assumption. Qed.

(* ---------- ClosedRegistrationEntry ---------- *)
Lemma p_reg_legacy_nc V bs : p_reg_legacy V bs <> Crash.
Proof. unfold p_reg_legacy. peel. apply bind_nc; [apply p_vk_nc|intros vk _]. peel. discriminate. Qed.
Lemma p_reg_nc V bs : p_reg V bs <> Crash.
Proof. apply versioned_nc, p_reg_legacy_nc. Qed.

(* ---------- SingleSignatureWithRegisteredParty ---------- *)
Lemma p_sigreg_legacy_nc md V bs : small bs -> p_sigreg_legacy md V bs <> Crash.
Proof.
  intros Hs. unfold p_sigreg_legacy. peel. peel. peel.
  apply bind_nc; [apply p_reg_nc|intros r _].
  getb E1. unfold small in Hs. rewrite BOUND_val in Hs.
  peel; [|rewrite U64_val; lia]. peel. peel. peel.
  apply bind_nc; [|intros; discriminate].
  apply p_ssig_nc. getb E4. unfold small. rewrite BOUND_val. lia.
Qed.
Lemma p_sigreg_nc md V bs : small bs -> p_sigreg md V bs <> Crash.
Proof. intros. apply versioned_nc, p_sigreg_legacy_nc. assumption. Qed.

(* ---------- MerkleBatchPath ---------- *)
Lemma bp_vals_nc bs n : small bs ->
  forall fuel i acc, i <= len bs -> len bs < N.of_nat fuel + i -> bp_vals fuel bs i n acc <> Crash.
Proof.
  unfold small. rewrite BOUND_val. intros Hs. induction fuel as [|f IH]; intros i acc Hi Hf.
  - lia.
  - cbn [bp_vals]. destruct (i <? n); [|discriminate].
    peel. peel. peel. getb E1.
    unfold oand in E0. destruct (cadd i 1) as [x|] eqn:C1; [|discriminate].
    destruct (cmul x HASH) as [y|] eqn:C2; [|discriminate].
    apply cadd_some in C1. apply cmul_some in C2. apply cadd_some in E0. unfold HASH in *.
    apply IH; lia.
Qed.
Lemma bp_idx_nc bs off n : small bs ->
  forall fuel i acc, i <= len bs -> len bs < N.of_nat fuel + i -> bp_idx fuel bs off i n acc <> Crash.
Proof.
  unfold small. rewrite BOUND_val. intros Hs. induction fuel as [|f IH]; intros i acc Hi Hf.
  - lia.
  - cbn [bp_idx]. destruct (i <? n); [|discriminate].
    peel. peel. peel. getb E1.
    unfold oand in E0. destruct (cadd i 1) as [x|] eqn:C1; [|discriminate].
    destruct (cmul x 8) as [y|] eqn:C2; [|discriminate].
    apply cadd_some in C1. apply cmul_some in C2. apply cadd_some in E0.
    apply IH; lia.
Qed.
Lemma p_bpath_legacy_nc bs : small bs -> p_bpath_legacy bs <> Crash.
Proof.
  intros Hs. unfold p_bpath_legacy. peel. peel.
  apply bind_nc; [apply bp_vals_nc; [assumption|lia|unfold len; lia]|intros vals _].
  peel.
  apply bind_nc; [apply bp_idx_nc; [assumption|lia|unfold len; lia]|intros idx _]. discriminate.
Qed.
Lemma p_bpath_nc bs : small bs -> p_bpath bs <> Crash.
Proof. intros. apply versioned_nc, p_bpath_legacy_nc. assumption. Qed.

(* ---------- MerkleTreeBatchCommitment, aggregate verification key ---------- *)
Lemma p_bcommit_legacy_nc bs : p_bcommit_legacy bs <> Crash.
Proof. unfold p_bcommit_legacy. repeat peel. Qed.
Lemma p_bcommit_nc bs : p_bcommit bs <> Crash.
Proof. apply versioned_nc, p_bcommit_legacy_nc. Qed.
Lemma p_avk_legacy_nc bs : p_avk_legacy bs <> Crash.
Proof.
  unfold p_avk_legacy. peel. peel. peel.
  apply bind_nc; [apply p_bcommit_nc|intros; discriminate].
Qed.
Lemma p_avk_nc bs : p_avk bs <> Crash.
Proof. apply versioned_nc, p_avk_legacy_nc. Qed.

(* ---------- MerkleTree ---------- *)
Lemma npow2_pos n : 1 <= npow2 n.
Proof.
  unfold npow2. destruct (n =? 0); [lia|].
  assert (2 ^ N.log2_up n <> 0) by (apply N.pow_nonzero; lia). lia.
Qed.
Lemma mt_num_nodes_nc md n : mt_num_nodes md n <> Crash.
Proof.
  unfold mt_num_nodes. peel. peel.
  unfold checked_npow2 in E. destruct (npow2 n <? U64); inversion E; subst.
  apply cadd_some in E0. pose proof (npow2_pos n).
  rewrite msub_ok by lia. discriminate.
Qed.
Lemma mt_num_nodes_val md n k : mt_num_nodes md n = Val k -> n <= k.
Proof.
  unfold mt_num_nodes. intros H.
  destruct (checked_npow2 n) eqn:E; cbn [of_opt obind] in H; [|discriminate].
  destruct (cadd n n0) eqn:E0; cbn [of_opt obind] in H; [|discriminate].
  unfold checked_npow2 in E. destruct (npow2 n <? U64); inversion E; subst.
  apply cadd_some in E0. pose proof (npow2_pos n).
  rewrite msub_ok in H by lia. cbn in H. inversion H. lia.
Qed.
Lemma mt_loop_nc md bs n : small bs ->
  forall fuel i acc, i <= len bs -> len bs < N.of_nat fuel + i -> mt_loop md fuel bs i n acc <> Crash.
Proof.
  unfold small. rewrite BOUND_val. intros Hs. induction fuel as [|f IH]; intros i acc Hi Hf.
  - lia.
  - cbn [mt_loop]. destruct (i <? n); [|discriminate]. unfold HASH.
    peel; [|rewrite U64_val; lia]. peel; [|rewrite U64_val; lia]. peel; [|rewrite U64_val; lia].
    peel; [|rewrite U64_val; lia]. peel; [|rewrite U64_val; lia].
    peel. getb E. apply IH; lia.
Qed.
Lemma mt_capacity_le bs k : mt_capacity bs k * VEC_SIZE <= len bs.
Proof.
  unfold mt_capacity, VEC_SIZE, HASH.
  assert (N.min k (len bs / 32) <= len bs / 32) by lia.
  pose proof (N.mul_div_le (len bs) 32). lia.
Qed.
Lemma p_mtree_legacy_nc md bs : small bs -> p_mtree_legacy md bs <> Crash.
Proof.
  intros Hs. unfold p_mtree_legacy. peel.
  apply bind_nc; [apply mt_num_nodes_nc|intros k Hk]. apply mt_num_nodes_val in Hk.
  unfold alloc_ok. pose proof (mt_capacity_le bs k) as Hc.
  assert (Hle : mt_capacity bs k * VEC_SIZE <=? ISIZE_MAX = true).
  { apply N.leb_le. unfold small in Hs. rewrite BOUND_val in Hs. rewrite ISIZE_val. lia. }
  rewrite Hle. cbn [obind].
  apply bind_nc; [apply mt_loop_nc; [assumption|lia|unfold len; lia]|intros nodes _].
  peel; [|lia]. discriminate.
Qed.
Lemma p_mtree_nc md bs : small bs -> p_mtree md bs <> Crash.
Proof. intros. apply versioned_nc, p_mtree_legacy_nc. assumption. Qed.

(* ---------- ConcatenationProof, AggregateSignature ---------- *)
Lemma cp_loop_nc md V bs n : small bs ->
  forall fuel k idx acc, 8 * k <= idx -> idx <= len bs -> len bs < N.of_nat fuel + k ->
  cp_loop md V fuel bs k n idx acc <> Crash.
Proof.
  intros Hs. pose proof Hs as Hs'. unfold small in Hs'. rewrite BOUND_val in Hs'.
  induction fuel as [|f IH]; intros k idx acc Hk Hi Hf.
  - lia.
  - cbn [cp_loop]. destruct (k <? n); [|discriminate].
    peel; [|rewrite U64_val; lia]. peel. peel. peel.
    getb E. apply cadd_some in E0. getb E1.
    apply bind_nc; [apply p_sigreg_nc; unfold small; rewrite BOUND_val; lia|intros sr _].
    apply IH; lia.
Qed.
Lemma cp_loop_val md V bs n :
  forall fuel k idx acc r, idx <= len bs -> cp_loop md V fuel bs k n idx acc = Val r -> snd r <= len bs.
Proof.
  induction fuel as [|f IH]; intros k idx acc r Hi H.
  - discriminate.
  - cbn [cp_loop] in H. destruct (k <? n).
    + apply bind_val in H. destruct H as [i8 [_ H]].
      apply bind_val in H. destruct H as [h [_ H]].
      apply bind_val in H. destruct H as [e [_ H]].
      apply bind_val in H. destruct H as [sb [Hsb H]].
      apply bind_val in H. destruct H as [sr [_ H]].
      destruct (get bs i8 e) eqn:G; cbn in Hsb; [|discriminate]. getb G.
      eapply IH; [|exact H]. lia.
    + inversion H. cbn. assumption.
Qed.
Lemma cp_capacity_le bs total : cp_capacity bs total * SIGREG_SIZE <= 45 * len bs.
Proof.
  unfold cp_capacity, SIGREG_SIZE.
  assert (N.min total (len bs / 8) <= len bs / 8) by lia.
  pose proof (N.mul_div_le (len bs) 8). lia.
Qed.
Lemma p_cproof_legacy_nc md V bs : small bs -> p_cproof_legacy md V bs <> Crash.
Proof.
  intros Hs. unfold p_cproof_legacy. peel. getb E.
  unfold alloc_ok.
  match goal with |- context [cp_capacity bs ?t] =>
    pose proof (cp_capacity_le bs t) as Hc;
    assert (Hle : cp_capacity bs t * SIGREG_SIZE <=? ISIZE_MAX = true)
      by (apply N.leb_le; unfold small in Hs; rewrite BOUND_val in Hs; rewrite ISIZE_val; lia);
    rewrite Hle end.
  cbn [obind].
  apply bind_nc; [apply cp_loop_nc; [assumption|lia|lia|unfold len; lia]|intros r Hr].
  apply cp_loop_val in Hr; [|lia].
  peel. apply bind_nc; [|intros; discriminate].
  apply p_bpath_nc. getb E0. unfold small in *. lia.
Qed.
Lemma p_cproof_nc md V bs : small bs -> p_cproof md V bs <> Crash.
Proof. intros. apply versioned_nc, p_cproof_legacy_nc. assumption. Qed.
Lemma p_aggr_nc md V bs : small bs -> p_aggr md V bs <> Crash.
Proof.
  intros Hs. unfold p_aggr.
  assert (L : p_aggr_legacy md V bs <> Crash).
  { unfold p_aggr_legacy. destruct bs as [|t rest]; [discriminate|].
    destruct (t =? 0); [|discriminate]. apply p_cproof_nc.
    unfold small, len in *. cbn [length] in Hs. lia. }
  destruct bs as [|b r]; [exact L|]. destruct b as [|p]; [exact L|]. destruct p; try exact L. discriminate.
Qed.

(* ---------- Initializer ---------- *)
Lemma p_init_legacy_nc V bs : p_init_legacy V bs <> Crash.
Proof.
  unfold p_init_legacy. peel. peel. apply bind_nc; [apply p_params_nc|intros ps _].
  peel. apply bind_nc; [apply p_sk_nc|intros sk _].
  peel. apply bind_nc; [apply p_vkpop_nc|intros; discriminate].
Qed.
Lemma p_init_nc V bs : p_init V bs <> Crash.
Proof. apply versioned_nc, p_init_legacy_nc. Qed.
