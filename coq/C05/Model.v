(* C05/Model.v — the hand-written fixed-layout ("legacy") parsers of mithril-stm,
   the versioned dispatch of codec.rs, and the hex codec.  Executable definitions only.

   Sources (after the fix: commit of this property, see known_findings.json):
     mithril-stm/src/codec.rs                                   from_versioned_bytes
     mithril-stm/src/protocol/parameters.rs                     Parameters::from_bytes_legacy
     mithril-stm/src/protocol/single_signature/signature.rs     SingleSignature::from_bytes_legacy
     .../single_signature/signature_registered_party.rs         SingleSignatureWithRegisteredParty::from_bytes_legacy
     .../key_registration/closed_registration_entry.rs          ClosedRegistrationEntry::from_bytes_legacy
     .../membership_commitment/merkle_tree/path.rs              MerkleBatchPath::from_bytes_legacy
     .../membership_commitment/merkle_tree/commitment.rs        MerkleTreeBatchCommitment::from_bytes_legacy
     .../membership_commitment/merkle_tree/tree.rs              MerkleTree::from_bytes_legacy
     .../proof_system/concatenation/aggregate_key.rs            AggregateVerificationKeyForConcatenation::from_bytes_legacy
     .../proof_system/concatenation/proof.rs                    ConcatenationProof::from_bytes_legacy
     .../protocol/aggregate_signature/signature.rs              AggregateSignature::from_bytes / from_bytes_legacy
     .../protocol/participant/initializer.rs                    Initializer::from_bytes_legacy
     .../signature_scheme/bls_multi_signature/*.rs              fixed-size group elements (validity = oracle)
     hex 0.4 (FromHex for Vec<u8>, encode)                      hex_decode / hex_encode

   Machine arithmetic is explicit.  `+`, `*`, `-` on usize are [madd]/[mmul]/[msub]: in a build
   with overflow checks an overflow is a panic ([Crash]); without, the value wraps.  `checked_add`,
   `checked_mul` are [cadd]/[cmul] (None on overflow).  `slice.get(a..b)` is [get]: None unless
   a <= b <= len, never a panic.  `Vec::with_capacity(n)` for elements of s bytes is [alloc_ok]:
   a panic ("capacity overflow") when n*s exceeds isize::MAX; the number of requested bytes is
   given by the separate functions [*_capacity].  Loops run on fuel = input length + 1; running
   out of fuel is [Crash], so totality theorems also say the fuel is never exhausted.
   usize is 64 bits.  The CBOR branch of the versioned dispatch (first byte = 1) is third-party
   code (ciborium) and is NOT modelled: outcome [Cbor].
   blst's verdicts on fixed-size group elements are an oracle [V kind window]:
     kind 0: 48-byte signature (sig_validate with subgroup check), 1: 96-byte verification key
     (key_validate), 2: 32-byte signing key, 3: first half of a proof of possession (from_bytes). *)
From MV Require Import Base.Prelude.
Open Scope N_scope.

(* ---------- outcomes ---------- *)
Inductive out (A : Type) : Type :=
| Val (a : A)      (* Ok(value) *)
| Fail             (* Err(_) *)
| Crash            (* panic / abort / fuel exhausted *)
| Cbor.            (* delegated to the CBOR decoder: not modelled *)
Arguments Val {A} a.
Arguments Fail {A}.
Arguments Crash {A}.
Arguments Cbor {A}.

Definition obind {A B} (o : out A) (f : A -> out B) : out B :=
  match o with Val a => f a | Fail => Fail | Crash => Crash | Cbor => Cbor end.
Notation "'do!' x <- e ;; k" := (obind e (fun x => k)) (at level 200, x name, e at level 100, k at level 200).

Definition of_opt {A} (o : option A) : out A := match o with Some a => Val a | None => Fail end.
Definition of_res {A} (r : result A) : out A := match r with Ok a => Val a | Err => Fail | Panic => Crash end.

(* ---------- machine arithmetic on usize (64 bits) ---------- *)
Inductive mode := Checked | Wrapping.

Definition madd (md : mode) (a b : N) : result N :=
  if a + b <? U64 then Ok (a + b)
  else match md with Checked => Panic | Wrapping => Ok ((a + b) mod U64) end.
Definition mmul (md : mode) (a b : N) : result N :=
  if a * b <? U64 then Ok (a * b)
  else match md with Checked => Panic | Wrapping => Ok ((a * b) mod U64) end.
Definition msub (md : mode) (a b : N) : result N :=
  if b <=? a then Ok (a - b)
  else match md with Checked => Panic | Wrapping => Ok (U64 + a - b) end.
Definition cadd (a b : N) : option N := if a + b <? U64 then Some (a + b) else None.
Definition cmul (a b : N) : option N := if a * b <? U64 then Some (a * b) else None.
Definition oand {A B} (o : option A) (f : A -> option B) : option B :=
  match o with Some a => f a | None => None end.

Definition ISIZE_MAX : N := 9223372036854775807.      (* 2^63 - 1 *)
(* usize::checked_next_power_of_two *)
Definition npow2 (n : N) : N := if n =? 0 then 1 else 2 ^ N.log2_up n.
Definition checked_npow2 (n : N) : option N := if npow2 n <? U64 then Some (npow2 n) else None.

(* ---------- byte strings ---------- *)
Definition bytes := list N.
Definition len {A} (bs : list A) : N := N.of_nat (length bs).
(* slice::get(a..b) *)
Definition get (bs : bytes) (a b : N) : option bytes :=
  if (a <=? b) && (b <=? len bs)
  then Some (firstn (N.to_nat (b - a)) (skipn (N.to_nat a) bs)) else None.
(* slice::get(a..) *)
Definition get_from (bs : bytes) (a : N) : option bytes := get bs a (len bs).
(* u64::from_be_bytes *)
Definition be64 (s : bytes) : N := fold_left (fun acc b => acc * 256 + b) s 0.

Fixpoint bytes_eqb (a b : bytes) : bool :=
  match a, b with
  | [], [] => true
  | x :: a', y :: b' => (x =? y) && bytes_eqb a' b'
  | _, _ => false
  end.

(* Vec::with_capacity(cap) for elements of elem bytes *)
Definition alloc_ok (cap elem : N) : out unit :=
  if cap * elem <=? ISIZE_MAX then Val tt else Crash.

(* ---------- the oracle for blst ---------- *)
Definition oracle := N -> bytes -> bool.
Definition mkV (l : list (N * bytes)) : oracle :=
  fun k w => existsb (fun e => (fst e =? k) && bytes_eqb (snd e) w) l.

(* ---------- decoded values ---------- *)
Record params := { p_m : N; p_k : N; p_phi : N }.                 (* phi_f as its 64 bits *)
Record ssig := { ss_indexes : list N; ss_sigma : bytes; ss_signer : N }.
Record reg := { rg_vk : bytes; rg_stake : N }.
Record sigreg := { sr_sig : ssig; sr_reg : reg }.
Record bpath := { bp_values : list bytes; bp_indices : list N }.
Record bcommit := { bc_nr : N; bc_root : bytes }.
Record mtree := { mt_n : N; mt_off : N; mt_nodes : list bytes }.
Record avk := { av_c : bcommit; av_stake : N }.
Record cproof := { cp_sigs : list sigreg; cp_bp : bpath }.
Record vkpop := { vp_vk : bytes; vp_k1 : bytes; vp_k2 : bytes }.
Record init := { in_stake : N; in_params : params; in_sk : bytes; in_pk : vkpop }.

(* ---------- codec.rs: from_versioned_bytes ---------- *)
Definition versioned {A} (bs : bytes) (legacy : bytes -> out A) : out A :=
  match bs with
  | 1 :: _ => Cbor          (* from_cbor_bytes(&bytes[1..]) : ciborium, not modelled *)
  | _ => legacy bs
  end.

(* ---------- fixed-size group elements ---------- *)
Definition p_sig (V : oracle) (bs : bytes) : out bytes :=      (* BlsSignature::from_bytes *)
  do! w <- of_opt (get bs 0 48) ;; if V 0 w then Val w else Fail.
Definition p_vk (V : oracle) (bs : bytes) : out bytes :=       (* BlsVerificationKey::from_bytes *)
  do! w <- of_opt (get bs 0 96) ;; if V 1 w then Val w else Fail.
Definition p_sk (V : oracle) (bs : bytes) : out bytes :=       (* BlsSigningKey::from_bytes *)
  do! w <- of_opt (get bs 0 32) ;; if V 2 w then Val w else Fail.
Definition p_vkpop (V : oracle) (bs : bytes) : out vkpop :=    (* BlsVerificationKeyProofOfPossession::from_bytes *)
  do! vb <- of_opt (get bs 0 96) ;;
  do! vk <- p_vk V vb ;;
  do! pb <- of_opt (get_from bs 96) ;;
  do! k1 <- of_opt (get pb 0 48) ;;
  if V 3 k1 then
    (do! k2 <- of_opt (get pb 48 96) ;;          (* uncompress_p1: any 48 bytes are accepted *)
     Val {| vp_vk := vk; vp_k1 := k1; vp_k2 := k2 |})
  else Fail.

(* ---------- Parameters ---------- *)
Definition p_params_legacy (bs : bytes) : out params :=
  do! a <- of_opt (get bs 0 8) ;;
  do! b <- of_opt (get bs 8 16) ;;
  do! c <- of_opt (get bs 16 24) ;;
  Val {| p_m := be64 a; p_k := be64 b; p_phi := be64 c |}.
Definition p_params (bs : bytes) : out params := versioned bs p_params_legacy.

(* ---------- SingleSignature ---------- *)
(* for i in 0..nr_indexes { bytes.get(8 + i * 8..16 + i * 8)? } *)
Fixpoint ss_loop (md : mode) (fuel : nat) (bs : bytes) (i n : N) (acc : list N) : out (list N) :=
  match fuel with
  | O => Crash
  | S f =>
      if i <? n then
        do! i8 <- of_res (mmul md i 8) ;;
        do! a <- of_res (madd md 8 i8) ;;
        do! b <- of_res (madd md 16 i8) ;;
        do! s <- of_opt (get bs a b) ;;
        ss_loop md f bs (i + 1) n (be64 s :: acc)
      else Val (rev acc)
  end.
Definition p_ssig_legacy (md : mode) (V : oracle) (bs : bytes) : out ssig :=
  do! h <- of_opt (get bs 0 8) ;;
  let n := be64 h in
  do! idx <- ss_loop md (S (length bs)) bs 0 n [] ;;
  do! n8 <- of_res (mmul md n 8) ;;
  do! off <- of_res (madd md 8 n8) ;;
  do! o48 <- of_res (madd md off 48) ;;
  do! sg <- of_opt (get bs off o48) ;;
  do! sigma <- p_sig V sg ;;
  do! o56 <- of_res (madd md off 56) ;;
  do! t <- of_opt (get bs o48 o56) ;;
  Val {| ss_indexes := idx; ss_sigma := sigma; ss_signer := be64 t |}.
Definition p_ssig (md : mode) (V : oracle) (bs : bytes) : out ssig := versioned bs (p_ssig_legacy md V).

(* ---------- ClosedRegistrationEntry ---------- *)
Definition p_reg_legacy (V : oracle) (bs : bytes) : out reg :=
  do! vb <- of_opt (get bs 0 96) ;;
  do! vk <- p_vk V vb ;;
  do! sb <- of_opt (get bs 96 104) ;;
  Val {| rg_vk := vk; rg_stake := be64 sb |}.
Definition p_reg (V : oracle) (bs : bytes) : out reg := versioned bs (p_reg_legacy V).

(* ---------- SingleSignatureWithRegisteredParty (fixed code: checked_add on both sums) ---------- *)
Definition p_sigreg_legacy (md : mode) (V : oracle) (bs : bytes) : out sigreg :=
  do! h <- of_opt (get bs 0 8) ;;
  let size_reg := be64 h in
  do! sig_offset <- of_opt (cadd 8 size_reg) ;;
  do! rb <- of_opt (get bs 8 sig_offset) ;;
  do! r <- p_reg V rb ;;
  do! so8 <- of_res (madd md sig_offset 8) ;;
  do! h2 <- of_opt (get bs sig_offset so8) ;;
  let size_sig := be64 h2 in
  do! sig_end <- of_opt (cadd so8 size_sig) ;;
  do! sb <- of_opt (get bs so8 sig_end) ;;
  do! s <- p_ssig md V sb ;;
  Val {| sr_sig := s; sr_reg := r |}.
Definition p_sigreg (md : mode) (V : oracle) (bs : bytes) : out sigreg := versioned bs (p_sigreg_legacy md V).

(* ---------- MerkleBatchPath (all arithmetic checked in the source) ---------- *)
Definition HASH : N := 32.     (* <Blake2b<U32> as Digest>::output_size() *)
Fixpoint bp_vals (fuel : nat) (bs : bytes) (i n : N) (acc : list bytes) : out (list bytes) :=
  match fuel with
  | O => Crash
  | S f =>
      if i <? n then
        do! lo <- of_opt (oand (cmul i HASH) (fun x => cadd x 16)) ;;
        do! hi <- of_opt (oand (cadd i 1) (fun x => oand (cmul x HASH) (fun y => cadd y 16))) ;;
        do! s <- of_opt (get bs lo hi) ;;
        bp_vals f bs (i + 1) n (s :: acc)
      else Val (rev acc)
  end.
Fixpoint bp_idx (fuel : nat) (bs : bytes) (off i n : N) (acc : list N) : out (list N) :=
  match fuel with
  | O => Crash
  | S f =>
      if i <? n then
        do! lo <- of_opt (oand (cmul i 8) (fun x => cadd x off)) ;;
        do! hi <- of_opt (oand (cadd i 1) (fun x => oand (cmul x 8) (fun y => cadd y off))) ;;
        do! s <- of_opt (get bs lo hi) ;;
        bp_idx f bs off (i + 1) n (be64 s :: acc)
      else Val (rev acc)
  end.
Definition p_bpath_legacy (bs : bytes) : out bpath :=
  do! h1 <- of_opt (get bs 0 8) ;;
  do! h2 <- of_opt (get bs 8 16) ;;
  let len_v := be64 h1 in
  let len_i := be64 h2 in
  do! vals <- bp_vals (S (length bs)) bs 0 len_v [] ;;
  do! off <- of_opt (oand (cmul len_v HASH) (fun x => cadd x 16)) ;;
  do! idx <- bp_idx (S (length bs)) bs off 0 len_i [] ;;
  Val {| bp_values := vals; bp_indices := idx |}.
Definition p_bpath (bs : bytes) : out bpath := versioned bs p_bpath_legacy.

(* ---------- MerkleTreeBatchCommitment ---------- *)
Definition p_bcommit_legacy (bs : bytes) : out bcommit :=
  do! h <- of_opt (get bs 0 8) ;;
  do! root <- of_opt (get_from bs 8) ;;
  Val {| bc_nr := be64 h; bc_root := root |}.
Definition p_bcommit (bs : bytes) : out bcommit := versioned bs p_bcommit_legacy.

(* ---------- MerkleTree (fixed code: checked node count, bounded capacity) ---------- *)
Definition VEC_SIZE : N := 24.      (* size_of::<Vec<u8>>() *)
Definition mt_num_nodes (md : mode) (n : N) : out N :=
  do! p <- of_opt (checked_npow2 n) ;;
  do! s <- of_opt (cadd n p) ;;
  of_res (msub md s 1).
Definition mt_capacity (bs : bytes) (num_nodes : N) : N := N.min num_nodes (len bs / HASH).
Fixpoint mt_loop (md : mode) (fuel : nat) (bs : bytes) (i n : N) (acc : list bytes) : out (list bytes) :=
  match fuel with
  | O => Crash
  | S f =>
      if i <? n then
        do! a0 <- of_res (mmul md i HASH) ;;
        do! a <- of_res (madd md 8 a0) ;;
        do! i1 <- of_res (madd md i 1) ;;
        do! b0 <- of_res (mmul md i1 HASH) ;;
        do! b <- of_res (madd md 8 b0) ;;
        do! s <- of_opt (get bs a b) ;;
        mt_loop md f bs (i + 1) n (s :: acc)
      else Val (rev acc)
  end.
Definition p_mtree_legacy (md : mode) (bs : bytes) : out mtree :=
  do! h <- of_opt (get bs 0 8) ;;
  let n := be64 h in
  do! num_nodes <- mt_num_nodes md n ;;
  do! _ <- alloc_ok (mt_capacity bs num_nodes) VEC_SIZE ;;
  do! nodes <- mt_loop md (S (length bs)) bs 0 num_nodes [] ;;
  do! off <- of_res (msub md num_nodes n) ;;
  Val {| mt_n := n; mt_off := off; mt_nodes := nodes |}.
Definition p_mtree (md : mode) (bs : bytes) : out mtree := versioned bs (p_mtree_legacy md).

(* ---------- AggregateVerificationKeyForConcatenation ---------- *)
Definition p_avk_legacy (bs : bytes) : out avk :=
  let size := len bs in
  do! split <- of_opt (if 8 <=? size then Some (size - 8) else None) ;;      (* checked_sub *)
  do! sb <- of_opt (get_from bs split) ;;
  do! cb <- of_opt (get bs 0 split) ;;
  do! c <- p_bcommit cb ;;
  Val {| av_c := c; av_stake := be64 sb |}.
Definition p_avk (bs : bytes) : out avk := versioned bs p_avk_legacy.

(* ---------- ConcatenationProof (fixed code: bounded capacity, checked_add on the end offset) ---------- *)
Definition SIGREG_SIZE : N := 360.      (* size_of::<SingleSignatureWithRegisteredParty>() *)
Definition cp_capacity (bs : bytes) (total : N) : N := N.min total (len bs / 8).
Fixpoint cp_loop (md : mode) (V : oracle) (fuel : nat) (bs : bytes) (k n idx : N) (acc : list sigreg)
  : out (list sigreg * N) :=
  match fuel with
  | O => Crash
  | S f =>
      if k <? n then
        do! i8 <- of_res (madd md idx 8) ;;
        do! h <- of_opt (get bs idx i8) ;;
        let size := be64 h in
        do! e <- of_opt (cadd i8 size) ;;
        do! sb <- of_opt (get bs i8 e) ;;
        do! sr <- p_sigreg md V sb ;;
        cp_loop md V f bs (k + 1) n e (sr :: acc)
      else Val (rev acc, idx)
  end.
Definition p_cproof_legacy (md : mode) (V : oracle) (bs : bytes) : out cproof :=
  do! h <- of_opt (get bs 0 8) ;;
  let total := be64 h in
  do! _ <- alloc_ok (cp_capacity bs total) SIGREG_SIZE ;;
  do! r <- cp_loop md V (S (length bs)) bs 0 total 8 [] ;;
  do! rest <- of_opt (get_from bs (snd r)) ;;
  do! bp <- p_bpath rest ;;
  Val {| cp_sigs := fst r; cp_bp := bp |}.
Definition p_cproof (md : mode) (V : oracle) (bs : bytes) : out cproof := versioned bs (p_cproof_legacy md V).

(* ---------- AggregateSignature (no future_snark: only prefix 0 = Concatenation) ---------- *)
Definition p_aggr_legacy (md : mode) (V : oracle) (bs : bytes) : out cproof :=
  match bs with
  | [] => Fail                                       (* bytes.first() *)
  | t :: rest => if t =? 0 then p_cproof md V rest else Fail
  end.
(* first byte 1: CBOR attempt (not modelled); its failure falls back to the legacy decoder, which
   rejects the prefix 1 *)
Definition p_aggr (md : mode) (V : oracle) (bs : bytes) : out cproof :=
  match bs with 1 :: _ => Cbor | _ => p_aggr_legacy md V bs end.

(* ---------- Initializer ---------- *)
Definition p_init_legacy (V : oracle) (bs : bytes) : out init :=
  do! sb <- of_opt (get bs 0 8) ;;
  do! pb <- of_opt (get bs 8 32) ;;
  do! ps <- p_params pb ;;
  do! kb <- of_opt (get bs 32 64) ;;
  do! sk <- p_sk V kb ;;
  do! vb <- of_opt (get bs 64 256) ;;
  do! pk <- p_vkpop V vb ;;
  Val {| in_stake := be64 sb; in_params := ps; in_sk := sk; in_pk := pk |}.
Definition p_init (V : oracle) (bs : bytes) : out init := versioned bs (p_init_legacy V).

(* ---------- hex (crate hex 0.4) ---------- *)
Definition hex_digit (d : N) : N := if d <? 10 then 48 + d else 87 + d.       (* lower case *)
Fixpoint hex_encode (bs : bytes) : list N :=
  match bs with
  | [] => []
  | b :: r => hex_digit (b / 16) :: hex_digit (b mod 16) :: hex_encode r
  end.
Definition hex_val (c : N) : option N :=
  if (48 <=? c) && (c <=? 57) then Some (c - 48)
  else if (97 <=? c) && (c <=? 102) then Some (c - 87)
  else if (65 <=? c) && (c <=? 70) then Some (c - 55)
  else None.
Fixpoint hex_pairs (cs : list N) : option bytes :=
  match cs with
  | [] => Some []
  | [_] => None
  | a :: b :: r =>
      match hex_val a, hex_val b, hex_pairs r with
      | Some x, Some y, Some t => Some (x * 16 + y :: t)
      | _, _, _ => None
      end
  end.
Definition hex_decode (cs : list N) : option bytes :=
  if N.even (len cs) then hex_pairs cs else None.            (* OddLength is checked first *)

(* ---------- the legacy layouts as encoders (specification of the wire format) ---------- *)
Fixpoint enc_be (k : nat) (n : N) : bytes :=          (* the k low bytes of n, most significant first *)
  match k with O => [] | S k' => enc_be k' (n / 256) ++ [n mod 256] end.
Definition enc64 (n : N) : bytes := enc_be 8 n.          (* u64::to_be_bytes *)
Definition e_params (p : params) : bytes := enc64 (p_m p) ++ enc64 (p_k p) ++ enc64 (p_phi p).
Definition e_ssig (s : ssig) : bytes :=
  enc64 (len (ss_indexes s)) ++ flat_map enc64 (ss_indexes s) ++ ss_sigma s ++ enc64 (ss_signer s).
Definition e_reg (r : reg) : bytes := rg_vk r ++ enc64 (rg_stake r).
Definition e_sigreg (x : sigreg) : bytes :=
  let r := e_reg (sr_reg x) in let s := e_ssig (sr_sig x) in
  enc64 (len r) ++ r ++ enc64 (len s) ++ s.
Definition e_bpath (b : bpath) : bytes :=
  enc64 (len (bp_values b)) ++ enc64 (len (bp_indices b)) ++ concat (bp_values b) ++ flat_map enc64 (bp_indices b).
Definition e_bcommit (c : bcommit) : bytes := enc64 (bc_nr c) ++ bc_root c.
Definition e_mtree (t : mtree) : bytes := enc64 (mt_n t) ++ concat (mt_nodes t).
Definition e_avk (a : avk) : bytes := e_bcommit (av_c a) ++ enc64 (av_stake a).
Definition e_cproof (p : cproof) : bytes :=
  enc64 (len (cp_sigs p)) ++ flat_map (fun x => let b := e_sigreg x in enc64 (len b) ++ b) (cp_sigs p) ++ e_bpath (cp_bp p).
Definition e_aggr (p : cproof) : bytes := 0 :: e_cproof p.
Definition e_vkpop (k : vkpop) : bytes := vp_vk k ++ vp_k1 k ++ vp_k2 k.
Definition e_init (i : init) : bytes :=
  enc64 (in_stake i) ++ e_params (in_params i) ++ in_sk i ++ e_vkpop (in_pk i).

(* ---------- observations for the correspondence channel ---------- *)
Definition oout {A} (f : A -> obs) (o : out A) : obs :=
  match o with
  | Val a => OL [OZ 0; f a]
  | Fail => OL [OZ 1]
  | Crash => OL [OZ 2]
  | Cbor => OL [OZ 3]
  end.
(* the model has no opinion where the code delegates to the CBOR decoder *)
Definition rc (m i : obs) : obs := if obs_eqb m (OL [OZ 3]) then i else m.

Definition obs_params (p : params) : obs := OL [ON (p_m p); ON (p_k p); ON (p_phi p)].
Definition obs_ssig (s : ssig) : obs := OL [OLN (ss_indexes s); OLN (ss_sigma s); ON (ss_signer s)].
Definition obs_reg (r : reg) : obs := OL [OLN (rg_vk r); ON (rg_stake r)].
Definition obs_sigreg (x : sigreg) : obs := OL [obs_ssig (sr_sig x); obs_reg (sr_reg x)].
Definition obs_bpath (b : bpath) : obs := OL [OL (map OLN (bp_values b)); OLN (bp_indices b)].
Definition obs_bcommit (c : bcommit) : obs := OL [ON (bc_nr c); OLN (bc_root c)].
Definition obs_mtree (t : mtree) : obs := OL [ON (mt_n t); ON (mt_off t); OL (map OLN (mt_nodes t))].
Definition obs_avk (a : avk) : obs := OL [obs_bcommit (av_c a); ON (av_stake a)].
Definition obs_cproof (p : cproof) : obs := OL [OL (map obs_sigreg (cp_sigs p)); obs_bpath (cp_bp p)].
Definition obs_aggr (p : cproof) : obs := OL [OZ 0; obs_cproof p].
(* the second half of a proof of possession is accepted unvalidated and re-encoded by blst: not observed *)
Definition obs_vkpop (k : vkpop) : obs := OL [OLN (vp_vk k); OLN (vp_k1 k)].
Definition obs_init (i : init) : obs :=
  OL [ON (in_stake i); obs_params (in_params i); OLN (in_sk i); obs_vkpop (in_pk i)].

(* one case: type tag, overflow mode of the build, valid windows, input *)
Definition run (ty : N) (md : mode) (l : list (N * bytes)) (bs : bytes) : obs :=
  let V := mkV l in
  match ty with
  | 0 => oout obs_params (p_params bs)
  | 1 => oout obs_ssig (p_ssig md V bs)
  | 2 => oout obs_sigreg (p_sigreg md V bs)
  | 3 => oout obs_bpath (p_bpath bs)
  | 4 => oout obs_bcommit (p_bcommit bs)
  | 5 => oout obs_mtree (p_mtree md bs)
  | 6 => oout obs_avk (p_avk bs)
  | 7 => oout obs_aggr (p_aggr md V bs)
  | 8 => oout obs_init (p_init V bs)
  | 9 => oout OLN (p_vk V bs)
  | 10 => oout obs_vkpop (p_vkpop V bs)
  | _ => OL [OZ 9]
  end.

Definition run_hex (cs : list N) : obs :=
  match hex_decode cs with Some b => OL [OZ 0; OLN b] | None => OL [OZ 1] end.
