(* C05/Prefix.v — the three decoders as they were BEFORE the fix commit (mithril 51f316df6), and
   the witnesses of the finding evaluated on them.  Regression documentation only: the faithful
   model of today's code is Model.v; nothing here is used by the correspondence run. *)
From MV Require Import Base.Prelude C05.Model.
Open Scope N_scope.

(* SingleSignatureWithRegisteredParty::from_bytes_legacy: `8 + size_reg_party`,
   `sig_offset + 8 + size_sig` with the plain operators *)
Definition p_sigreg_legacy_old (md : mode) (V : oracle) (bs : bytes) : out sigreg :=
  do! h <- of_opt (get bs 0 8) ;;
  let size_reg := be64 h in
  do! e <- of_res (madd md 8 size_reg) ;;
  do! rb <- of_opt (get bs 8 e) ;;
  do! r <- p_reg V rb ;;
  do! so8 <- of_res (madd md e 8) ;;
  do! h2 <- of_opt (get bs e so8) ;;
  do! sig_end <- of_res (madd md so8 (be64 h2)) ;;
  do! sb <- of_opt (get bs so8 sig_end) ;;
  do! s <- p_ssig md V sb ;;
  Val {| sr_sig := s; sr_reg := r |}.

(* ConcatenationProof::from_bytes_legacy: Vec::with_capacity(total_sigs),
   `bytes_index + 8 + sig_reg_size` with the plain operators *)
Fixpoint cp_loop_old (md : mode) (V : oracle) (fuel : nat) (bs : bytes) (k n idx : N) (acc : list sigreg)
  : out (list sigreg * N) :=
  match fuel with
  | O => Crash
  | S f =>
      if k <? n then
        do! i8 <- of_res (madd md idx 8) ;;
        do! h <- of_opt (get bs idx i8) ;;
        do! e <- of_res (madd md i8 (be64 h)) ;;
        do! sb <- of_opt (get bs i8 e) ;;
        do! sr <- p_sigreg md V sb ;;
        cp_loop_old md V f bs (k + 1) n e (sr :: acc)
      else Val (rev acc, idx)
  end.
Definition cp_capacity_old (total : N) : N := total.
Definition p_cproof_legacy_old (md : mode) (V : oracle) (bs : bytes) : out cproof :=
  do! h <- of_opt (get bs 0 8) ;;
  let total := be64 h in
  do! _ <- alloc_ok (cp_capacity_old total) SIGREG_SIZE ;;
  do! r <- cp_loop_old md V (S (length bs)) bs 0 total 8 [] ;;
  do! rest <- of_opt (get_from bs (snd r)) ;;
  do! bp <- p_bpath rest ;;
  Val {| cp_sigs := fst r; cp_bp := bp |}.
Definition p_aggr_old (md : mode) (V : oracle) (bs : bytes) : out cproof :=
  match bs with
  | [] => Fail
  | 1 :: _ => Cbor
  | t :: rest => if t =? 0 then versioned rest (p_cproof_legacy_old md V) else Fail
  end.

(* MerkleTree::from_bytes_legacy: n + n.next_power_of_two() - 1, Vec::with_capacity(num_nodes).
   usize::next_power_of_two panics on overflow in a checked build and returns 0 otherwise. *)
Definition mt_num_nodes_old (md : mode) (n : N) : out N :=
  do! p <- (match checked_npow2 n with Some p => Val p | None => match md with Checked => Crash | Wrapping => Val 0 end end) ;;
  do! s <- of_res (madd md n p) ;;
  of_res (msub md s 1).
Definition mt_capacity_old (num_nodes : N) : N := num_nodes.

(* 25 input bytes: type prefix 0, signature count 2^64-1: capacity overflow, in both arithmetic modes *)
Theorem C05_prefix_aggregate_signature_crash :
  p_aggr_old Checked (mkV []) (0 :: repeat 255 8 ++ repeat 0 16) = Crash /\
  p_aggr_old Wrapping (mkV []) (0 :: repeat 255 8 ++ repeat 0 16) = Crash.
Proof. vm_compute. split; reflexivity. Qed.
(* count 2^40 in the same 25 bytes: a request of 360 * 2^40 bytes, far above 64*25 + 2^20 *)
Theorem C05_prefix_aggregate_signature_alloc :
  cp_capacity_old (be64 [0; 0; 1; 0; 0; 0; 0; 0]) * SIGREG_SIZE = 395824185999360 /\
  64 * 25 + 1048576 < cp_capacity_old (be64 [0; 0; 1; 0; 0; 0; 0; 0]) * SIGREG_SIZE.
Proof. vm_compute. split; reflexivity. Qed.
(* 16 input bytes: registered-party size 2^64-1: overflow panic in a checked build, an error otherwise *)
Theorem C05_prefix_registered_party_crash :
  p_sigreg_legacy_old Checked (mkV []) (repeat 255 8 ++ repeat 0 8) = Crash /\
  p_sigreg_legacy_old Wrapping (mkV []) (repeat 255 8 ++ repeat 0 8) = Fail.
Proof. vm_compute. split; reflexivity. Qed.
(* leaf count 2^63 + 1: next_power_of_two overflows; leaf count 2^40: 24 * (2^41 - 1) bytes requested *)
Theorem C05_prefix_merkle_tree_crash :
  mt_num_nodes_old Checked 9223372036854775809 = Crash /\
  mt_num_nodes_old Wrapping 9223372036854775809 = Val 9223372036854775808 /\
  (do! k <- mt_num_nodes_old Checked 1099511627776 ;; Val (mt_capacity_old k * VEC_SIZE)) = Val 52776558133224.
Proof. vm_compute. repeat split; reflexivity. Qed.
