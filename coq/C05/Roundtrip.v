(* C05/Roundtrip.v — decode (encode v) = v for the hex codec, big-endian u64 fields and the
   loop-free legacy layouts. *)
From Coq Require Import ZArith Lia.
From MV Require Import Base.Prelude C05.Model C05.Proofs.
Open Scope N_scope.

Definition bytes_ok (bs : bytes) : Prop := Forall (fun b => b < 256) bs.

(* ---------- hex ---------- *)
Lemma hex_val_digit d : d < 16 -> hex_val (hex_digit d) = Some d.
Proof.
  intros H.
  assert (C : d = 0 \/ d = 1 \/ d = 2 \/ d = 3 \/ d = 4 \/ d = 5 \/ d = 6 \/ d = 7 \/ d = 8 \/ d = 9 \/
              d = 10 \/ d = 11 \/ d = 12 \/ d = 13 \/ d = 14 \/ d = 15) by lia.
  repeat (destruct C as [C|C]; [subst; reflexivity|]). subst; reflexivity.
Qed.
Lemma hex_pairs_encode bs : bytes_ok bs -> hex_pairs (hex_encode bs) = Some bs.
Proof.
  induction 1 as [|b r Hb Hr IH]; [reflexivity|].
  cbn [hex_encode hex_pairs].
  rewrite hex_val_digit by (apply N.div_lt_upper_bound; lia).
  rewrite hex_val_digit by (apply N.mod_lt; lia).
  rewrite IH. f_equal. f_equal. pose proof (N.div_mod b 16). lia.
Qed.
Lemma hex_encode_length bs : length (hex_encode bs) = (2 * length bs)%nat.
Proof. induction bs as [|b r IH]; [reflexivity|]. cbn [hex_encode length]. rewrite IH. lia. Qed.
Lemma hex_roundtrip bs : bytes_ok bs -> hex_decode (hex_encode bs) = Some bs.
Proof.
  intros H. unfold hex_decode, len. rewrite hex_encode_length.
  replace (N.of_nat (2 * length bs)) with (2 * N.of_nat (length bs)) by lia.
  rewrite N.even_mul. cbn [N.even orb]. apply hex_pairs_encode, H.
Qed.
(* the decoder is a total function into option: it has no crashing outcome; accepted strings have even length *)
Lemma hex_decode_even cs b : hex_decode cs = Some b -> N.even (len cs) = true.
Proof. unfold hex_decode. destruct (N.even (len cs)); [reflexivity|discriminate]. Qed.
Lemma hex_pairs_length cs b : hex_pairs cs = Some b -> length cs = (2 * length b)%nat.
Proof.
  revert b. induction cs as [cs IH] using (well_founded_induction (Wf_nat.well_founded_ltof _ (@length N))).
  intros b H. destruct cs as [|x [|y r]]; cbn [hex_pairs] in H.
  - inversion H. reflexivity.
  - discriminate.
  - destruct (hex_val x), (hex_val y); try discriminate.
    destruct (hex_pairs r) eqn:E; [|discriminate]. inversion H; subst.
    apply IH in E; [|unfold Wf_nat.ltof; cbn; lia]. cbn [length]. lia.
Qed.

(* ---------- big-endian u64 ---------- *)
Lemma be64_snoc l b : be64 (l ++ [b]) = be64 l * 256 + b.
Proof. unfold be64. rewrite fold_left_app. reflexivity. Qed.
Lemma be64_enc_be k : forall n, be64 (enc_be k n) = n mod 256 ^ N.of_nat k.
Proof.
  induction k as [|k IH]; intros n.
  - cbn. symmetry. apply N.mod_1_r.
  - cbn [enc_be]. rewrite be64_snoc, IH.
    rewrite Nat2N.inj_succ, N.pow_succ_r'.
    rewrite (N.mod_mul_r n 256 (256 ^ N.of_nat k)) by (try apply N.pow_nonzero; lia). lia.
Qed.
Lemma be64_enc64 n : n < U64 -> be64 (enc64 n) = n.
Proof.
  rewrite U64_val. intros H. unfold enc64. rewrite be64_enc_be.
  change (256 ^ N.of_nat 8) with 18446744073709551616. apply N.mod_small, H.
Qed.
Lemma enc_be_len k : forall n, length (enc_be k n) = k.
Proof. induction k as [|k IH]; intros n; [reflexivity|]. cbn [enc_be]. rewrite app_length, IH. cbn. lia. Qed.
Lemma enc64_len n : len (enc64 n) = 8.
Proof. unfold len, enc64. rewrite enc_be_len. reflexivity. Qed.

(* ---------- slices of concatenations ---------- *)
Lemma len_app {A} (a b : list A) : len (a ++ b) = len a + len b.
Proof. unfold len. rewrite app_length. lia. Qed.
Lemma get_app_l a r k : len a = k -> get (a ++ r) 0 k = Some a.
Proof.
  intros H. unfold get. rewrite len_app.
  replace ((0 <=? k) && (k <=? len a + len r)) with true
    by (symmetry; apply andb_true_iff; split; apply N.leb_le; lia).
  cbn [N.to_nat skipn]. f_equal. rewrite N.sub_0_r. subst k. unfold len. rewrite Nat2N.id.
  rewrite firstn_app, Nat.sub_diag, firstn_all. cbn [firstn]. apply app_nil_r.
Qed.
Lemma get_app_skip a r k x y : len a = k -> get (a ++ r) (k + x) (k + y) = get r x y.
Proof.
  intros H. unfold get. rewrite len_app, H.
  replace ((k + x <=? k + y) && (k + y <=? k + len r)) with ((x <=? y) && (y <=? len r)).
  2:{ f_equal; apply eq_true_iff_eq; rewrite !N.leb_le; lia. }
  destruct ((x <=? y) && (y <=? len r)); [|reflexivity]. f_equal.
  replace (k + y - (k + x)) with (y - x) by lia.
  replace (N.to_nat (k + x)) with (length a + N.to_nat x)%nat by (unfold len in H; lia).
  rewrite skipn_app. rewrite skipn_all2 by lia.
  replace (length a + N.to_nat x - length a)%nat with (N.to_nat x) by lia. reflexivity.
Qed.
Lemma get_all a : get a 0 (len a) = Some a.
Proof. rewrite <- (app_nil_r a) at 1. apply get_app_l. reflexivity. Qed.
Lemma get_from_app a r : get_from (a ++ r) (len a) = Some r.
Proof.
  unfold get_from. rewrite len_app.
  replace (len a) with (len a + 0) at 1 by lia.
  rewrite get_app_skip by reflexivity. apply get_all.
Qed.

Lemma get_skip a r k x y x' y' : len a = k -> x' = k + x -> y' = k + y -> get (a ++ r) x' y' = get r x y.
Proof. intros H -> ->. apply get_app_skip, H. Qed.
Lemma get_whole a k : len a = k -> get a 0 k = Some a.
Proof. intros <-. apply get_all. Qed.
Lemma get_from_skip a r k : len a = k -> get_from (a ++ r) k = Some r.
Proof. intros <-. apply get_from_app. Qed.

(* ---------- Parameters ---------- *)
Definition params_ok (p : params) : Prop := p_m p < U64 /\ p_k p < U64 /\ p_phi p < U64.
Lemma params_roundtrip p : params_ok p -> p_params_legacy (e_params p) = Val p.
Proof.
  intros [Hm [Hk Hp]]. unfold p_params_legacy, e_params.
  rewrite (get_app_l _ _ 8) by apply enc64_len. cbn [of_opt obind].
  rewrite (get_skip _ _ 8 0 8) by (try apply enc64_len; reflexivity).
  rewrite (get_app_l _ _ 8) by apply enc64_len. cbn [of_opt obind].
  rewrite (get_skip _ _ 8 8 16) by (try apply enc64_len; reflexivity).
  rewrite (get_skip _ _ 8 0 8) by (try apply enc64_len; reflexivity).
  rewrite (get_whole _ 8) by apply enc64_len. cbn [of_opt obind].
  rewrite !be64_enc64 by assumption. destruct p; reflexivity.
Qed.

(* ---------- ClosedRegistrationEntry ---------- *)
Definition reg_ok (V : oracle) (r : reg) : Prop := len (rg_vk r) = 96 /\ V 1 (rg_vk r) = true /\ rg_stake r < U64.
Lemma reg_roundtrip V r : reg_ok V r -> p_reg_legacy V (e_reg r) = Val r.
Proof.
  intros [Hl [Hv Hs]]. unfold p_reg_legacy, e_reg.
  rewrite (get_app_l _ _ 96) by assumption. cbn [of_opt obind].
  unfold p_vk. rewrite (get_whole _ 96) by assumption. cbn [of_opt obind]. rewrite Hv. cbn [obind].
  rewrite (get_skip _ _ 96 0 8) by (try assumption; reflexivity).
  rewrite (get_whole _ 8) by apply enc64_len. cbn [of_opt obind].
  rewrite be64_enc64 by assumption. destruct r; reflexivity.
Qed.

(* ---------- MerkleTreeBatchCommitment, aggregate verification key ---------- *)
Lemma bcommit_roundtrip c : bc_nr c < U64 -> p_bcommit_legacy (e_bcommit c) = Val c.
Proof.
  intros H. unfold p_bcommit_legacy, e_bcommit.
  rewrite (get_app_l _ _ 8) by apply enc64_len. cbn [of_opt obind].
  rewrite (get_from_skip _ _ 8) by apply enc64_len. cbn [of_opt obind].
  rewrite be64_enc64 by assumption. destruct c; reflexivity.
Qed.
