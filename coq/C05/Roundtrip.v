(* C05/Roundtrip.v — decode (encode v) = v for the hex codec, big-endian u64 fields and the
   loop-free legacy layouts. *)
From Coq Require Import ZArith Lia.
From MV Require Import Base.Prelude C05.Model C05.Proofs.
Open Scope N_scope.

Definition bytes_ok (bs : bytes) : Prop := Forall (fun b => b < 256) bs.

(* ---------- hex ---------- *)
Lemma hex_val_digit d : d < 16 -> hex_val (hex_digit d) = Some d.
Proof.
  intros H.
  assert (C : d = 0 \/ d = 1 \/ d = 2 \/ d = 3 \/ d = 4 \/ d = 5 \/ d = 6 \/ d = 7 \/ d = 8 \/ d = 9 \/
              d = 10 \/ d = 11 \/ d = 12 \/ d = 13 \/ d = 14 \/ d = 15) by lia.
  repeat (destruct C as [C|C]; [subst; reflexivity|]). subst; reflexivity.
Qed.
Lemma hex_pairs_encode bs : bytes_ok bs -> hex_pairs (hex_encode bs) = Some bs.
Proof.
  induction 1 as [|b r Hb Hr IH]; [reflexivity|].
  cbn [hex_encode hex_pairs].
  rewrite hex_val_digit by (apply N.div_lt_upper_bound; lia).
  rewrite hex_val_digit by (apply N.mod_lt; lia).
  rewrite IH. f_equal. f_equal. pose proof (N.div_mod b 16). lia.
Qed.
Lemma hex_encode_length bs : length (hex_encode bs) = (2 * length bs)%nat.
Proof. induction bs as [|b r IH]; [reflexivity|]. cbn [hex_encode length]. rewrite IH. lia. Qed.
Lemma hex_roundtrip bs : bytes_ok bs -> hex_decode (hex_encode bs) = Some bs.
Proof.
  intros H. unfold hex_decode, len. rewrite hex_encode_length.
  replace (N.of_nat (2 * length bs)) with (2 * N.of_nat (length bs)) by lia.
  rewrite N.even_mul. cbn [N.even orb]. apply hex_pairs_encode, H.
Qed.
(* the decoder is a total function into option: it has no crashing outcome; accepted strings have even length *)
Lemma hex_decode_even cs b : hex_decode cs = Some b -> N.even (len cs) = true.
Proof. unfold hex_decode. destruct (N.even (len cs)); [reflexivity|discriminate]. Qed.
Lemma hex_pairs_length cs b : hex_pairs cs = Some b -> length cs = (2 * length b)%nat.
Proof.
  revert b. induction cs as [cs IH] using (well_founded_induction (Wf_nat.well_founded_ltof _ (@length N))).
  intros b H. destruct cs as [|x [|y r]]; cbn [hex_pairs] in H.
  - inversion H. reflexivity.
  - discriminate.
  - destruct (hex_val x), (hex_val y); try discriminate.
    destruct (hex_pairs r) eqn:E; [|discriminate]. inversion H; subst.
    apply IH in E; [|unfold Wf_nat.ltof; cbn; lia]. cbn [length]. lia.
Qed.

(* ---------- big-endian u64 ---------- *)
Lemma be64_snoc l b : be64 (l ++ [b]) = be64 l * 256 + b.
Proof. unfold be64. rewrite fold_left_app. reflexivity. Qed.
Lemma be64_enc_be k : forall n, be64 (enc_be k n) = n mod 256 ^ N.of_nat k.
Proof.
  induction k as [|k IH]; intros n.
  - cbn. symmetry. apply N.mod_1_r.
  - cbn [enc_be]. rewrite be64_snoc, IH.
    rewrite Nat2N.inj_succ, N.pow_succ_r'.
    rewrite (N.mod_mul_r n 256 (256 ^ N.of_nat k)) by (try apply N.pow_nonzero; lia). lia.
Qed.
Lemma be64_enc64 n : n < U64 -> be64 (enc64 n) = n.
Proof.
  rewrite U64_val. intros H. unfold enc64. rewrite be64_enc_be.
  change (256 ^ N.of_nat 8) with 18446744073709551616. apply N.mod_small, H.
Qed.
Lemma enc_be_len k : forall n, length (enc_be k n) = k.
Proof. induction k as [|k IH]; intros n; [reflexivity|]. cbn [enc_be]. rewrite app_length, IH. cbn. lia. Qed.
Lemma enc64_len n : len (enc64 n) = 8.
Proof. unfold len, enc64. rewrite enc_be_len. reflexivity. Qed.

(* ---------- slices of concatenations ---------- *)
Lemma len_app {A} (a b : list A) : len (a ++ b) = len a + len b.
Proof. unfold len. rewrite app_length. lia. Qed.
Lemma get_app_l a r k : len a = k -> get (a ++ r) 0 k = Some a.
Proof.
  intros H. unfold get. rewrite len_app.
  replace ((0 <=? k) && (k <=? len a + len r)) with true
    by (symmetry; apply andb_true_iff; split; apply N.leb_le; lia).
  cbn [N.to_nat skipn]. f_equal. rewrite N.sub_0_r. subst k. unfold len. rewrite Nat2N.id.
  rewrite firstn_app, Nat.sub_diag, firstn_all. cbn [firstn]. apply app_nil_r.
Qed.
Lemma get_app_skip a r k x y : len a = k -> get (a ++ r) (k + x) (k + y) = get r x y.
Proof.
  intros H. unfold get. rewrite len_app, H.
  replace ((k + x <=? k + y) && (k + y <=? k + len r)) with ((x <=? y) && (y <=? len r)).
  2:{ f_equal; apply eq_true_iff_eq; rewrite !N.leb_le; lia. }
  destruct ((x <=? y) && (y <=? len r)); [|reflexivity]. f_equal.
  replace (k + y - (k + x)) with (y - x) by lia.
  replace (N.to_nat (k + x)) with (length a + N.to_nat x)%nat by (unfold len in H; lia).
  rewrite skipn_app. rewrite skipn_all2 by lia.
  replace (length a + N.to_nat x - length a)%nat with (N.to_nat x) by lia. reflexivity.
Qed.
Lemma get_all a : get a 0 (len a) = Some a.
Proof. rewrite <- (app_nil_r a) at 1. apply get_app_l. reflexivity. Qed.
Lemma get_from_app a r : get_from (a ++ r) (len a) = Some r.
Proof.
  unfold get_from. rewrite len_app.
  replace (len a) with (len a + 0) at 1 by lia.
  rewrite get_app_skip by reflexivity. apply get_all.
Qed.

Lemma get_skip a r k x y x' y' : len a = k -> x' = k + x -> y' = k + y -> get (a ++ r) x' y' = get r x y.
Proof. intros H -> ->. apply get_app_skip, H. Qed.
Lemma get_whole a k : len a = k -> get a 0 k = Some a.
Proof. intros <-. apply get_all. Qed.
Lemma get_from_skip a r k : len a = k -> get_from (a ++ r) k = Some r.
Proof. intros <-. apply get_from_app. Qed.

(* ---------- Parameters ---------- *)
Definition params_ok (p : params) : Prop := p_m p < U64 /\ p_k p < U64 /\ p_phi p < U64.
Lemma params_roundtrip p : params_ok p -> p_params_legacy (e_params p) = Val p.
Proof.
  intros [Hm [Hk Hp]]. unfold p_params_legacy, e_params.
  rewrite (get_app_l _ _ 8) by apply enc64_len. cbn [of_opt obind].
  rewrite (get_skip _ _ 8 0 8) by (try apply enc64_len; reflexivity).
  rewrite (get_app_l _ _ 8) by apply enc64_len. cbn [of_opt obind].
  rewrite (get_skip _ _ 8 8 16) by (try apply enc64_len; reflexivity).
  rewrite (get_skip _ _ 8 0 8) by (try apply enc64_len; reflexivity).
  rewrite (get_whole _ 8) by apply enc64_len. cbn [of_opt obind].
  rewrite !be64_enc64 by assumption. destruct p; reflexivity.
Qed.

(* ---------- ClosedRegistrationEntry ---------- *)
Definition reg_ok (V : oracle) (r : reg) : Prop := len (rg_vk r) = 96 /\ V 1 (rg_vk r) = true /\ rg_stake r < U64.
Lemma reg_roundtrip V r : reg_ok V r -> p_reg_legacy V (e_reg r) = Val r.
Proof.
  intros [Hl [Hv Hs]]. unfold p_reg_legacy, e_reg.
  rewrite (get_app_l _ _ 96) by assumption. cbn [of_opt obind].
  unfold p_vk. rewrite (get_whole _ 96) by assumption. cbn [of_opt obind]. rewrite Hv. cbn [obind].
  rewrite (get_skip _ _ 96 0 8) by (try assumption; reflexivity).
  rewrite (get_whole _ 8) by apply enc64_len. cbn [of_opt obind].
  rewrite be64_enc64 by assumption. destruct r; reflexivity.
Qed.

(* ---------- MerkleTreeBatchCommitment, aggregate verification key ---------- *)
Lemma bcommit_roundtrip c : bc_nr c < U64 -> p_bcommit_legacy (e_bcommit c) = Val c.
Proof.
  intros H. unfold p_bcommit_legacy, e_bcommit.
  rewrite (get_app_l _ _ 8) by apply enc64_len. cbn [of_opt obind].
  rewrite (get_from_skip _ _ 8) by apply enc64_len. cbn [of_opt obind].
  rewrite be64_enc64 by assumption. destruct c; reflexivity.
Qed.

(* ---------- SingleSignature (looped layout) ---------- *)
Lemma get_mid pre mid post a m : len pre = a -> len mid = m -> get (pre ++ mid ++ post) a (a + m) = Some mid.
Proof.
  intros Ha Hm. rewrite (get_skip pre _ a 0 m) by (try assumption; lia). apply get_app_l, Hm.
Qed.
Lemma get_mid' pre mid post a b : len pre = a -> b = a + len mid -> get (pre ++ mid ++ post) a b = Some mid.
Proof. intros Ha ->. apply get_mid; [assumption|reflexivity]. Qed.
Lemma flat_enc64_len l : len (flat_map enc64 l) = 8 * len l.
Proof.
  induction l as [|x r IH]; [reflexivity|]. cbn [flat_map]. rewrite len_app, IH, enc64_len.
  unfold len. cbn [length]. lia.
Qed.

Definition u64s (l : list N) : Prop := Forall (fun x => x < U64) l.

Lemma ss_loop_enc md pre post : len pre = 8 ->
  forall todo fuel done acc,
  u64s todo -> (length todo < fuel)%nat -> len (done ++ todo) < BOUND ->
  ss_loop md fuel (pre ++ flat_map enc64 (done ++ todo) ++ post) (len done) (len (done ++ todo)) acc
  = Val (rev acc ++ todo).
Proof.
  intros Hpre. induction todo as [|x t IH]; intros fuel done acc Hu Hf Hb.
  - destruct fuel as [|f]; [cbn in Hf; lia|]. cbn [ss_loop]. rewrite app_nil_r.
    rewrite N.ltb_irrefl. rewrite app_nil_r. reflexivity.
  - destruct fuel as [|f]; [cbn in Hf; lia|]. cbn [ss_loop].
    assert (Hlt : len done <? len (done ++ x :: t) = true).
    { apply N.ltb_lt. rewrite len_app. unfold len. cbn [length]. lia. }
    rewrite Hlt. rewrite BOUND_val in Hb. rewrite len_app in Hb.
    assert (Hd : len done < 72057594037927936) by lia.
    rewrite mmul_ok by (rewrite U64_val; lia). cbn [of_res obind].
    rewrite !madd_ok by (rewrite U64_val; lia). cbn [of_res obind].
    inversion Hu as [|? ? Hx Ht]; subst.
    assert (G : get (pre ++ flat_map enc64 (done ++ x :: t) ++ post) (8 + len done * 8) (16 + len done * 8) = Some (enc64 x)).
    { rewrite flat_map_app. cbn [flat_map]. rewrite <- !app_assoc.
      rewrite (app_assoc pre). apply get_mid'.
      - rewrite len_app, flat_enc64_len. lia.
      - rewrite enc64_len. lia. }
    rewrite G. cbn [of_opt obind]. rewrite be64_enc64 by assumption.
    replace (done ++ x :: t) with ((done ++ [x]) ++ t) by (rewrite <- app_assoc; reflexivity).
    replace (len done + 1) with (len (done ++ [x])) by (rewrite len_app; reflexivity).
    rewrite IH.
    + cbn [rev]. rewrite <- app_assoc. reflexivity.
    + assumption.
    + cbn [length] in Hf. lia.
    + rewrite BOUND_val. rewrite !len_app in *. unfold len in *. cbn [length] in *. lia.
Qed.

Definition ssig_ok (V : oracle) (s : ssig) : Prop :=
  u64s (ss_indexes s) /\ len (ss_indexes s) < BOUND /\ len (ss_sigma s) = 48 /\ V 0 (ss_sigma s) = true /\ ss_signer s < U64.

Lemma ssig_roundtrip md V s : ssig_ok V s -> p_ssig_legacy md V (e_ssig s) = Val s.
Proof.
  intros [Hu [Hb [Hl [Hv Hs]]]]. unfold p_ssig_legacy, e_ssig.
  set (idx := ss_indexes s) in *. set (sg := ss_sigma s) in *.
  pose proof Hb as Hb'. rewrite BOUND_val in Hb'.
  rewrite (get_app_l _ _ 8) by apply enc64_len. cbn [of_opt obind].
  rewrite be64_enc64 by (rewrite U64_val; lia).
  assert (Hlen : length (enc64 (len idx) ++ flat_map enc64 idx ++ sg ++ enc64 (ss_signer s)) = (8 + 8 * length idx + 48 + 8)%nat).
  { rewrite !app_length. fold (length (enc64 (len idx))).
    pose proof (enc64_len (len idx)) as E1. pose proof (enc64_len (ss_signer s)) as E2.
    pose proof (flat_enc64_len idx) as E3. unfold len in *. lia. }
  pose proof (ss_loop_enc md (enc64 (len idx)) (sg ++ enc64 (ss_signer s)) (enc64_len _) idx
                (S (length (enc64 (len idx) ++ flat_map enc64 idx ++ sg ++ enc64 (ss_signer s)))) [] []) as L.
  cbn [app rev] in L. change (len []) with 0 in L. rewrite L; [|assumption|rewrite Hlen; lia|assumption].
  cbn [obind].
  rewrite mmul_ok by (rewrite U64_val; lia). cbn [of_res obind].
  rewrite madd_ok by (rewrite U64_val; lia). cbn [of_res obind].
  rewrite madd_ok by (rewrite U64_val; lia). cbn [of_res obind].
  assert (G1 : get (enc64 (len idx) ++ flat_map enc64 idx ++ sg ++ enc64 (ss_signer s)) (8 + len idx * 8) (8 + len idx * 8 + 48) = Some sg).
  { rewrite (app_assoc (enc64 (len idx))). apply get_mid'.
    - rewrite len_app, flat_enc64_len, enc64_len. lia.
    - rewrite Hl. reflexivity. }
  rewrite G1. cbn [of_opt obind].
  unfold p_sig. rewrite (get_whole _ 48) by assumption. cbn [of_opt obind]. rewrite Hv. cbn [obind].
  rewrite madd_ok by (rewrite U64_val; lia). cbn [of_res obind].
  assert (G2 : get (enc64 (len idx) ++ flat_map enc64 idx ++ sg ++ enc64 (ss_signer s)) (8 + len idx * 8 + 48) (8 + len idx * 8 + 56) = Some (enc64 (ss_signer s))).
  { rewrite (app_assoc (enc64 (len idx))). rewrite (app_assoc (enc64 (len idx) ++ flat_map enc64 idx)).
    rewrite <- (app_nil_r (enc64 (ss_signer s))) at 1. apply get_mid'.
    - rewrite !len_app, flat_enc64_len, enc64_len, Hl. lia.
    - rewrite enc64_len. lia. }
  rewrite G2. cbn [of_opt obind]. rewrite be64_enc64 by assumption.
  subst idx sg. destruct s; reflexivity.
Qed.

(* ---------- MerkleBatchPath (two looped sections) ---------- *)
Lemma cadd_ok a b : a + b < U64 -> cadd a b = Some (a + b).
Proof. intros H. unfold cadd. apply N.ltb_lt in H. rewrite H. reflexivity. Qed.
Lemma cmul_ok a b : a * b < U64 -> cmul a b = Some (a * b).
Proof. intros H. unfold cmul. apply N.ltb_lt in H. rewrite H. reflexivity. Qed.

Definition hashes (l : list bytes) : Prop := Forall (fun v => len v = 32) l.
Lemma concat_hash_len l : hashes l -> len (concat l) = 32 * len l.
Proof.
  induction 1 as [|v r Hv Hr IH]; [reflexivity|]. cbn [concat]. rewrite len_app, IH, Hv.
  unfold len. cbn [length]. lia.
Qed.
Lemma hashes_app a b : hashes a -> hashes b -> hashes (a ++ b).
Proof. intros. apply Forall_app; split; assumption. Qed.

Lemma bp_vals_enc pre post : len pre = 16 ->
  forall todo fuel done acc,
  hashes done -> hashes todo -> (length todo < fuel)%nat -> len (done ++ todo) < BOUND ->
  bp_vals fuel (pre ++ concat (done ++ todo) ++ post) (len done) (len (done ++ todo)) acc
  = Val (rev acc ++ todo).
Proof.
  intros Hpre. induction todo as [|x t IH]; intros fuel done acc Hd Hu Hf Hb.
  - destruct fuel as [|f]; [cbn in Hf; lia|]. cbn [bp_vals]. rewrite app_nil_r.
    rewrite N.ltb_irrefl. rewrite app_nil_r. reflexivity.
  - destruct fuel as [|f]; [cbn in Hf; lia|]. cbn [bp_vals].
    assert (Hlt : len done <? len (done ++ x :: t) = true).
    { apply N.ltb_lt. rewrite len_app. unfold len. cbn [length]. lia. }
    rewrite Hlt. rewrite BOUND_val in Hb. rewrite len_app in Hb.
    assert (Hdn : len done < 72057594037927936) by lia.
    unfold HASH, oand.
    rewrite cmul_ok by (rewrite U64_val; lia). rewrite cadd_ok by (rewrite U64_val; lia). cbn [of_opt obind].
    rewrite cadd_ok by (rewrite U64_val; lia). rewrite cmul_ok by (rewrite U64_val; lia).
    rewrite cadd_ok by (rewrite U64_val; lia). cbn [of_opt obind].
    inversion Hu as [|? ? Hx Ht]; subst.
    assert (G : get (pre ++ concat (done ++ x :: t) ++ post) (len done * 32 + 16) ((len done + 1) * 32 + 16) = Some x).
    { rewrite concat_app. cbn [concat]. rewrite <- !app_assoc.
      rewrite (app_assoc pre). apply get_mid'.
      - rewrite len_app, concat_hash_len by assumption. lia.
      - rewrite Hx. lia. }
    rewrite G. cbn [of_opt obind].
    replace (done ++ x :: t) with ((done ++ [x]) ++ t) by (rewrite <- app_assoc; reflexivity).
    replace (len done + 1) with (len (done ++ [x])) by (rewrite len_app; reflexivity).
    rewrite IH.
    + cbn [rev]. rewrite <- app_assoc. reflexivity.
    + apply hashes_app; [assumption|]. constructor; [assumption|constructor].
    + assumption.
    + cbn [length] in Hf. lia.
    + rewrite BOUND_val. rewrite !len_app in *. unfold len in *. cbn [length] in *. lia.
Qed.

Lemma bp_idx_enc pre post off : len pre = off -> off < BOUND * 64 ->
  forall todo fuel done acc,
  u64s todo -> (length todo < fuel)%nat -> len (done ++ todo) < BOUND ->
  bp_idx fuel (pre ++ flat_map enc64 (done ++ todo) ++ post) off (len done) (len (done ++ todo)) acc
  = Val (rev acc ++ todo).
Proof.
  intros Hpre Hoff. rewrite BOUND_val in Hoff. induction todo as [|x t IH]; intros fuel done acc Hu Hf Hb.
  - destruct fuel as [|f]; [cbn in Hf; lia|]. cbn [bp_idx]. rewrite app_nil_r.
    rewrite N.ltb_irrefl. rewrite app_nil_r. reflexivity.
  - destruct fuel as [|f]; [cbn in Hf; lia|]. cbn [bp_idx].
    assert (Hlt : len done <? len (done ++ x :: t) = true).
    { apply N.ltb_lt. rewrite len_app. unfold len. cbn [length]. lia. }
    rewrite Hlt. rewrite BOUND_val in Hb. rewrite len_app in Hb.
    assert (Hdn : len done < 72057594037927936) by lia.
    unfold oand.
    rewrite cmul_ok by (rewrite U64_val; lia). rewrite cadd_ok by (rewrite U64_val; lia). cbn [of_opt obind].
    rewrite cadd_ok by (rewrite U64_val; lia). rewrite cmul_ok by (rewrite U64_val; lia).
    rewrite cadd_ok by (rewrite U64_val; lia). cbn [of_opt obind].
    inversion Hu as [|? ? Hx Ht]; subst.
    assert (G : get (pre ++ flat_map enc64 (done ++ x :: t) ++ post) (len done * 8 + len pre) ((len done + 1) * 8 + len pre) = Some (enc64 x)).
    { rewrite flat_map_app. cbn [flat_map]. rewrite <- !app_assoc.
      rewrite (app_assoc pre). apply get_mid'.
      - rewrite len_app, flat_enc64_len. lia.
      - rewrite enc64_len. lia. }
    rewrite G. cbn [of_opt obind]. rewrite be64_enc64 by assumption.
    replace (done ++ x :: t) with ((done ++ [x]) ++ t) by (rewrite <- app_assoc; reflexivity).
    replace (len done + 1) with (len (done ++ [x])) by (rewrite len_app; reflexivity).
    rewrite IH.
    + cbn [rev]. rewrite <- app_assoc. reflexivity.
    + assumption.
    + cbn [length] in Hf. lia.
    + rewrite BOUND_val. rewrite !len_app in *. unfold len in *. cbn [length] in *. lia.
Qed.

Definition bpath_ok (b : bpath) : Prop :=
  hashes (bp_values b) /\ len (bp_values b) < BOUND /\ u64s (bp_indices b) /\ len (bp_indices b) < BOUND.

Lemma bpath_roundtrip b : bpath_ok b -> p_bpath_legacy (e_bpath b) = Val b.
Proof.
  intros [Hh [Hbv [Hu Hbi]]]. unfold p_bpath_legacy, e_bpath.
  set (vs := bp_values b) in *. set (ix := bp_indices b) in *.
  pose proof Hbv as Hbv'. pose proof Hbi as Hbi'. rewrite BOUND_val in Hbv', Hbi'.
  rewrite (get_app_l _ _ 8) by apply enc64_len. cbn [of_opt obind].
  rewrite (get_skip _ _ 8 0 8) by (try apply enc64_len; reflexivity).
  rewrite (get_app_l _ _ 8) by apply enc64_len. cbn [of_opt obind].
  rewrite !be64_enc64 by (rewrite U64_val; lia).
  set (bs := enc64 (len vs) ++ enc64 (len ix) ++ concat vs ++ flat_map enc64 ix).
  assert (Hlen : length bs = (16 + 32 * length vs + 8 * length ix)%nat).
  { unfold bs. rewrite !app_length.
    pose proof (enc64_len (len vs)) as E1. pose proof (enc64_len (len ix)) as E2.
    pose proof (flat_enc64_len ix) as E3. pose proof (concat_hash_len vs Hh) as E4. unfold len in *. lia. }
  assert (Hpre : len (enc64 (len vs) ++ enc64 (len ix)) = 16) by (rewrite len_app, !enc64_len; reflexivity).
  pose proof (bp_vals_enc (enc64 (len vs) ++ enc64 (len ix)) (flat_map enc64 ix) Hpre vs (S (length bs)) [] []) as L.
  cbn [app rev] in L. change (len (@nil bytes)) with 0 in L.
  rewrite <- app_assoc in L. fold bs in L.
  rewrite L; [|constructor|assumption|rewrite Hlen; lia|assumption]. cbn [obind].
  unfold HASH, oand. rewrite cmul_ok by (rewrite U64_val; lia). rewrite cadd_ok by (rewrite U64_val; lia).
  cbn [of_opt obind].
  assert (Hpre2 : len ((enc64 (len vs) ++ enc64 (len ix)) ++ concat vs) = len vs * 32 + 16).
  { rewrite len_app, Hpre, concat_hash_len by assumption. lia. }
  pose proof (bp_idx_enc ((enc64 (len vs) ++ enc64 (len ix)) ++ concat vs) [] _ Hpre2) as L2.
  specialize (L2 ltac:(rewrite BOUND_val; lia) ix (S (length bs)) [] []).
  cbn [app rev] in L2. change (len (@nil N)) with 0 in L2. rewrite app_nil_r in L2.
  rewrite <- !app_assoc in L2. fold bs in L2.
  rewrite L2; [|assumption|rewrite Hlen; lia|assumption]. cbn [obind].
  subst vs ix. destruct b; reflexivity.
Qed.

(* ---------- the version dispatch on legacy encodings ---------- *)
Lemma versioned_not1 {A} b t (f : bytes -> out A) : b <> 1 -> versioned (b :: t) f = f (b :: t).
Proof. intros H. unfold versioned. destruct b as [|p]; [reflexivity|]. destruct p; try reflexivity. congruence. Qed.
Lemma versioned_app_not1 {A} b t l (f : bytes -> out A) : b <> 1 -> versioned ((b :: t) ++ l) f = f ((b :: t) ++ l).
Proof. intros H. cbn [app]. apply versioned_not1, H. Qed.
Lemma enc_be_hd0 k : forall n, n < 256 ^ N.of_nat k -> enc_be (S k) n = 0 :: enc_be k n.
Proof.
  induction k as [|k IH]; intros n H.
  - cbn in H. assert (n = 0) by lia. subst. reflexivity.
  - change (enc_be (S (S k)) n) with (enc_be (S k) (n / 256) ++ [n mod 256]).
    rewrite IH.
    + reflexivity.
    + rewrite Nat2N.inj_succ, N.pow_succ_r' in H. apply N.div_lt_upper_bound; lia.
Qed.
Lemma enc64_hd0 n : n < BOUND -> exists t, enc64 n = 0 :: t.
Proof.
  rewrite BOUND_val. intros H. unfold enc64. rewrite enc_be_hd0.
  - eauto.
  - change (256 ^ N.of_nat 7) with 72057594037927936. assumption.
Qed.
Lemma versioned_enc64 {A} n r (f : bytes -> out A) : n < BOUND -> versioned (enc64 n ++ r) f = f (enc64 n ++ r).
Proof. intros H. destruct (enc64_hd0 n H) as [t ->]. cbn [app]. apply versioned_not1. discriminate. Qed.

(* ---------- aggregate verification key ---------- *)
Definition avk_ok (a : avk) : Prop := bc_nr (av_c a) < BOUND /\ av_stake a < U64.
Lemma avk_roundtrip a : avk_ok a -> p_avk (e_avk a) = Val a.
Proof.
  intros [Hn Hs]. unfold p_avk, e_avk, e_bcommit. rewrite <- app_assoc.
  rewrite versioned_enc64 by assumption.
  unfold p_avk_legacy.
  set (c := av_c a) in *.
  assert (Hlen : len (enc64 (bc_nr c) ++ bc_root c ++ enc64 (av_stake a)) = 8 + len (bc_root c) + 8).
  { rewrite !len_app, !enc64_len. lia. }
  rewrite Hlen.
  replace (8 <=? 8 + len (bc_root c) + 8) with true by (symmetry; apply N.leb_le; lia).
  cbn [of_opt obind]. replace (8 + len (bc_root c) + 8 - 8) with (8 + len (bc_root c)) by lia.
  rewrite (app_assoc (enc64 (bc_nr c))).
  rewrite (get_from_skip _ _ (8 + len (bc_root c))) by (rewrite len_app, enc64_len; reflexivity).
  cbn [of_opt obind].
  rewrite (get_app_l _ _ (8 + len (bc_root c))) by (rewrite len_app, enc64_len; reflexivity).
  cbn [of_opt obind].
  unfold p_bcommit. rewrite versioned_enc64 by assumption.
  fold (e_bcommit c). rewrite bcommit_roundtrip by (rewrite BOUND_val, U64_val in *; lia). cbn [obind].
  rewrite be64_enc64 by assumption. subst c. destruct a; reflexivity.
Qed.

(* ---------- SingleSignatureWithRegisteredParty ---------- *)
Lemma e_reg_len r : len (rg_vk r) = 96 -> len (e_reg r) = 104.
Proof. intros H. unfold e_reg. rewrite len_app, enc64_len, H. reflexivity. Qed.
Lemma e_ssig_len s : len (ss_sigma s) = 48 -> len (e_ssig s) = 64 + 8 * len (ss_indexes s).
Proof. intros H. unfold e_ssig. rewrite !len_app, !enc64_len, flat_enc64_len, H. lia. Qed.

Definition sigreg_ok (V : oracle) (x : sigreg) : Prop :=
  ssig_ok V (sr_sig x) /\ reg_ok V (sr_reg x) /\ (exists b t, rg_vk (sr_reg x) = b :: t /\ b <> 1).

Lemma sigreg_roundtrip md V x : sigreg_ok V x -> p_sigreg_legacy md V (e_sigreg x) = Val x.
Proof.
  intros [Hs [Hr [b [t [Hvk Hb]]]]]. unfold p_sigreg_legacy, e_sigreg.
  set (r := e_reg (sr_reg x)). set (s := e_ssig (sr_sig x)).
  assert (Lr : len r = 104) by (apply e_reg_len; apply Hr).
  assert (Ls : len s = 64 + 8 * len (ss_indexes (sr_sig x))) by (apply e_ssig_len; apply Hs).
  assert (Hbi : len (ss_indexes (sr_sig x)) < 72057594037927936) by (destruct Hs as [_ [H _]]; rewrite BOUND_val in H; exact H).
  rewrite (get_app_l _ _ 8) by apply enc64_len. cbn [of_opt obind].
  rewrite be64_enc64 by (rewrite U64_val; lia).
  unfold cadd at 1. replace (8 + len r <? U64) with true by (symmetry; apply N.ltb_lt; rewrite U64_val; lia).
  cbn [of_opt obind].
  rewrite (get_mid' (enc64 (len r)) r (enc64 (len s) ++ s) 8 (8 + len r)) by (try apply enc64_len; reflexivity).
  cbn [of_opt obind].
  assert (Pr : p_reg V r = Val (sr_reg x)).
  { unfold p_reg, r, e_reg. rewrite Hvk. rewrite versioned_app_not1 by assumption.
    rewrite <- Hvk. apply reg_roundtrip, Hr. }
  rewrite Pr. cbn [obind].
  rewrite madd_ok by (rewrite U64_val; lia). cbn [of_res obind].
  rewrite (app_assoc (enc64 (len r)) r).
  rewrite (get_mid' (enc64 (len r) ++ r) (enc64 (len s)) s (8 + len r) (8 + len r + 8))
    by (rewrite ?len_app, ?enc64_len; reflexivity).
  cbn [of_opt obind]. rewrite be64_enc64 by (rewrite U64_val; lia).
  unfold cadd. replace (8 + len r + 8 + len s <? U64) with true by (symmetry; apply N.ltb_lt; rewrite U64_val; lia).
  cbn [of_opt obind].
  rewrite (app_assoc (enc64 (len r) ++ r)). rewrite <- (app_nil_r s) at 2.
  rewrite (get_mid' ((enc64 (len r) ++ r) ++ enc64 (len s)) s [] (8 + len r + 8) (8 + len r + 8 + len s))
    by (rewrite ?len_app, ?enc64_len; reflexivity).
  cbn [of_opt obind].
  assert (Ps : p_ssig md V s = Val (sr_sig x)).
  { unfold p_ssig, s, e_ssig. rewrite versioned_enc64 by (rewrite BOUND_val; lia).
    apply ssig_roundtrip, Hs. }
  rewrite Ps. cbn [obind]. destruct x; reflexivity.
Qed.

(* ---------- ConcatenationProof, AggregateSignature ---------- *)
Definition sr_frame (x : sigreg) : bytes := enc64 (len (e_sigreg x)) ++ e_sigreg x.
Lemma e_cproof_frames p : e_cproof p = enc64 (len (cp_sigs p)) ++ flat_map sr_frame (cp_sigs p) ++ e_bpath (cp_bp p).
Proof. reflexivity. Qed.
Lemma e_sigreg_hd0 V x : sigreg_ok V x -> exists t, e_sigreg x = 0 :: t.
Proof.
  intros [_ [Hr _]]. unfold e_sigreg.
  destruct (enc64_hd0 (len (e_reg (sr_reg x)))) as [t Ht].
  - rewrite e_reg_len by apply Hr. rewrite BOUND_val. lia.
  - rewrite Ht. cbn [app]. eauto.
Qed.
Lemma p_sigreg_enc md V x : sigreg_ok V x -> p_sigreg md V (e_sigreg x) = Val x.
Proof.
  intros H. unfold p_sigreg. destruct (e_sigreg_hd0 V x H) as [t Ht]. rewrite Ht.
  rewrite versioned_not1 by discriminate. rewrite <- Ht. apply sigreg_roundtrip, H.
Qed.

Lemma cp_loop_enc md V post : forall todo fuel pre k n acc,
  Forall (sigreg_ok V) todo -> (length todo < fuel)%nat ->
  len pre + len (flat_map sr_frame todo) < BOUND -> n = k + len todo ->
  cp_loop md V fuel (pre ++ flat_map sr_frame todo ++ post) k n (len pre) acc
  = Val (rev acc ++ todo, len pre + len (flat_map sr_frame todo)).
Proof.
  induction todo as [|x t IH]; intros fuel pre k n acc Hok Hf Hb Hn.
  - destruct fuel as [|f]; [cbn in Hf; lia|]. cbn [cp_loop]. subst n. change (len (@nil sigreg)) with 0.
    rewrite N.add_0_r, N.ltb_irrefl. cbn [flat_map]. change (len (@nil N)) with 0.
    rewrite N.add_0_r, app_nil_r. reflexivity.
  - destruct fuel as [|f]; [cbn in Hf; lia|]. cbn [cp_loop].
    assert (Hlt : k <? n = true).
    { apply N.ltb_lt. subst n. unfold len. cbn [length]. lia. }
    rewrite Hlt. cbn [flat_map] in *. rewrite BOUND_val in Hb. unfold sr_frame at 1 in Hb.
    rewrite !len_app, enc64_len in Hb.
    set (E := e_sigreg x) in *.
    rewrite madd_ok by (rewrite U64_val; lia). cbn [of_res obind].
    change (sr_frame x) with (enc64 (len E) ++ E). rewrite <- !app_assoc.
    rewrite (get_mid' pre (enc64 (len E)) (E ++ flat_map sr_frame t ++ post) (len pre) (len pre + 8))
      by (rewrite ?enc64_len; reflexivity).
    cbn [of_opt obind]. rewrite be64_enc64 by (rewrite U64_val; lia).
    unfold cadd. replace (len pre + 8 + len E <? U64) with true by (symmetry; apply N.ltb_lt; rewrite U64_val; lia).
    cbn [of_opt obind].
    rewrite (app_assoc pre (enc64 (len E))).
    rewrite (get_mid' (pre ++ enc64 (len E)) E (flat_map sr_frame t ++ post) (len pre + 8) (len pre + 8 + len E))
      by (rewrite ?len_app, ?enc64_len; reflexivity).
    cbn [of_opt obind].
    inversion Hok as [|? ? Hx Ht]; subst.
    unfold E at 1. rewrite p_sigreg_enc by assumption. cbn [obind].
    rewrite (app_assoc (pre ++ enc64 (len E)) E).
    replace (len pre + 8 + len E) with (len ((pre ++ enc64 (len E)) ++ E)) by (rewrite !len_app, enc64_len; reflexivity).
    rewrite IH.
    + cbn [rev]. rewrite <- app_assoc. cbn [app]. f_equal. f_equal.
      rewrite !len_app, enc64_len. lia.
    + assumption.
    + cbn [length] in Hf. lia.
    + rewrite BOUND_val, !len_app, enc64_len. lia.
    + unfold len. cbn [length]. lia.
Qed.

Definition cproof_ok (V : oracle) (p : cproof) : Prop :=
  Forall (sigreg_ok V) (cp_sigs p) /\ len (cp_sigs p) < BOUND /\ bpath_ok (cp_bp p) /\ small (e_cproof p).

Lemma alloc_ok_small bs total : small bs -> alloc_ok (cp_capacity bs total) SIGREG_SIZE = Val tt.
Proof.
  intros Hs. unfold alloc_ok. pose proof (cp_capacity_le bs total) as Hc.
  replace (cp_capacity bs total * SIGREG_SIZE <=? ISIZE_MAX) with true; [reflexivity|].
  symmetry. apply N.leb_le. unfold small in Hs. rewrite BOUND_val in Hs. rewrite ISIZE_val. lia.
Qed.

Lemma cproof_roundtrip md V p : cproof_ok V p -> p_cproof_legacy md V (e_cproof p) = Val p.
Proof.
  intros [Hs [Hn [Hbp Hsm]]]. unfold p_cproof_legacy.
  rewrite e_cproof_frames in *.
  set (sigs := cp_sigs p) in *. set (B := e_bpath (cp_bp p)) in *.
  rewrite (get_app_l _ _ 8) by apply enc64_len. cbn [of_opt obind]. cbv zeta.
  rewrite alloc_ok_small by assumption. cbn [obind].
  rewrite be64_enc64 by (rewrite BOUND_val in Hn; rewrite U64_val; lia).
  unfold small in Hsm. rewrite !len_app, enc64_len in Hsm.
  pose proof (cp_loop_enc md V B sigs (S (length (enc64 (len sigs) ++ flat_map sr_frame sigs ++ B)))
                (enc64 (len sigs)) 0 (len sigs) []) as L.
  rewrite enc64_len in L. cbn [rev app] in L.
  rewrite L; [|assumption| |lia|lia].
  2:{ rewrite !app_length.
      assert (length sigs <= length (flat_map sr_frame sigs))%nat.
      { clear. induction sigs as [|x r IH]; [cbn; lia|]. cbn [flat_map length]. rewrite app_length.
        unfold sr_frame at 1. rewrite app_length.
        pose proof (enc64_len (len (e_sigreg x))) as E. unfold len in *. lia. }
      lia. }
  cbn [obind snd fst].
  rewrite (app_assoc (enc64 (len sigs))).
  rewrite (get_from_skip _ _ (8 + len (flat_map sr_frame sigs))) by (rewrite len_app, enc64_len; reflexivity).
  cbn [of_opt obind].
  assert (Pb : p_bpath B = Val (cp_bp p)).
  { unfold p_bpath, B, e_bpath. rewrite versioned_enc64 by apply Hbp. apply bpath_roundtrip, Hbp. }
  rewrite Pb. cbn [obind]. subst sigs. destruct p; reflexivity.
Qed.

Theorem aggr_roundtrip md V p : cproof_ok V p -> p_aggr md V (e_aggr p) = Val p.
Proof.
  intros H. unfold p_aggr, e_aggr, p_aggr_legacy. cbn [N.eqb].
  unfold p_cproof. rewrite e_cproof_frames.
  rewrite versioned_enc64 by apply H. rewrite <- e_cproof_frames. apply cproof_roundtrip, H.
Qed.

(* ---------- key with proof of possession, Initializer ---------- *)
Definition vkpop_ok (V : oracle) (k : vkpop) : Prop :=
  len (vp_vk k) = 96 /\ V 1 (vp_vk k) = true /\ len (vp_k1 k) = 48 /\ V 3 (vp_k1 k) = true /\ len (vp_k2 k) = 48.
Lemma vkpop_roundtrip V k : vkpop_ok V k -> p_vkpop V (e_vkpop k) = Val k.
Proof.
  intros [L1 [V1 [L2 [V2 L3]]]]. unfold p_vkpop, e_vkpop.
  rewrite (get_app_l _ _ 96) by assumption. cbn [of_opt obind].
  unfold p_vk. rewrite (get_whole _ 96) by assumption. cbn [of_opt obind]. rewrite V1. cbn [obind].
  rewrite (get_from_skip _ _ 96) by assumption. cbn [of_opt obind].
  rewrite (get_app_l _ _ 48) by assumption. cbn [of_opt obind]. rewrite V2.
  rewrite (get_skip _ _ 48 0 48) by (try assumption; reflexivity).
  rewrite (get_whole _ 48) by assumption. cbn [of_opt obind]. destruct k; reflexivity.
Qed.
Lemma e_params_len p : len (e_params p) = 24.
Proof. unfold e_params. rewrite !len_app, !enc64_len. reflexivity. Qed.
Lemma e_vkpop_len V k : vkpop_ok V k -> len (e_vkpop k) = 192.
Proof. intros [L1 [_ [L2 [_ L3]]]]. unfold e_vkpop. rewrite !len_app, L1, L2, L3. reflexivity. Qed.

Definition init_ok (V : oracle) (i : init) : Prop :=
  in_stake i < U64 /\ params_ok (in_params i) /\ p_m (in_params i) < BOUND /\
  len (in_sk i) = 32 /\ V 2 (in_sk i) = true /\ vkpop_ok V (in_pk i).
Lemma init_roundtrip V i : init_ok V i -> p_init_legacy V (e_init i) = Val i.
Proof.
  intros [Hs [Hp [Hm [Lk [Vk Hv]]]]]. unfold p_init_legacy, e_init.
  rewrite (get_app_l _ _ 8) by apply enc64_len. cbn [of_opt obind].
  rewrite (get_mid' (enc64 (in_stake i)) (e_params (in_params i)) _ 8 32)
    by (rewrite ?enc64_len, ?e_params_len; reflexivity).
  cbn [of_opt obind].
  assert (Pp : p_params (e_params (in_params i)) = Val (in_params i)).
  { unfold p_params, e_params. rewrite versioned_enc64 by assumption. apply params_roundtrip, Hp. }
  rewrite Pp. cbn [obind].
  rewrite (app_assoc (enc64 (in_stake i))).
  rewrite (get_mid' (enc64 (in_stake i) ++ e_params (in_params i)) (in_sk i) _ 32 64)
    by (rewrite ?len_app, ?enc64_len, ?e_params_len, ?Lk; reflexivity).
  cbn [of_opt obind].
  unfold p_sk. rewrite (get_whole _ 32) by assumption. cbn [of_opt obind]. rewrite Vk. cbn [obind].
  rewrite (app_assoc (enc64 (in_stake i) ++ e_params (in_params i))).
  rewrite <- (app_nil_r (e_vkpop (in_pk i))).
  rewrite (get_mid' ((enc64 (in_stake i) ++ e_params (in_params i)) ++ in_sk i) (e_vkpop (in_pk i)) [] 64 256)
    by (rewrite ?len_app, ?enc64_len, ?e_params_len, ?Lk, ?(e_vkpop_len V) by assumption; reflexivity).
  cbn [of_opt obind]. rewrite vkpop_roundtrip by assumption. cbn [obind].
  rewrite be64_enc64 by assumption. destruct i; reflexivity.
Qed.

(* ---------- MerkleTree ---------- *)
Lemma mt_loop_enc md pre post : len pre = 8 ->
  forall todo fuel done acc,
  hashes done -> hashes todo -> (length todo < fuel)%nat -> len (done ++ todo) < BOUND ->
  mt_loop md fuel (pre ++ concat (done ++ todo) ++ post) (len done) (len (done ++ todo)) acc
  = Val (rev acc ++ todo).
Proof.
  intros Hpre. induction todo as [|x t IH]; intros fuel done acc Hd Hu Hf Hb.
  - destruct fuel as [|f]; [cbn in Hf; lia|]. cbn [mt_loop]. rewrite app_nil_r.
    rewrite N.ltb_irrefl. rewrite app_nil_r. reflexivity.
  - destruct fuel as [|f]; [cbn in Hf; lia|]. cbn [mt_loop].
    assert (Hlt : len done <? len (done ++ x :: t) = true).
    { apply N.ltb_lt. rewrite len_app. unfold len. cbn [length]. lia. }
    rewrite Hlt. rewrite BOUND_val in Hb. rewrite len_app in Hb.
    assert (Hdn : len done < 72057594037927936) by lia.
    unfold HASH.
    rewrite mmul_ok by (rewrite U64_val; lia). cbn [of_res obind].
    rewrite madd_ok by (rewrite U64_val; lia). cbn [of_res obind].
    rewrite madd_ok by (rewrite U64_val; lia). cbn [of_res obind].
    rewrite mmul_ok by (rewrite U64_val; lia). cbn [of_res obind].
    rewrite madd_ok by (rewrite U64_val; lia). cbn [of_res obind].
    inversion Hu as [|? ? Hx Ht]; subst.
    assert (G : get (pre ++ concat (done ++ x :: t) ++ post) (8 + len done * 32) (8 + (len done + 1) * 32) = Some x).
    { rewrite concat_app. cbn [concat]. rewrite <- !app_assoc.
      rewrite (app_assoc pre). apply get_mid'.
      - rewrite len_app, concat_hash_len by assumption. lia.
      - rewrite Hx. lia. }
    rewrite G. cbn [of_opt obind].
    replace (done ++ x :: t) with ((done ++ [x]) ++ t) by (rewrite <- app_assoc; reflexivity).
    replace (len done + 1) with (len (done ++ [x])) by (rewrite len_app; reflexivity).
    rewrite IH.
    + cbn [rev]. rewrite <- app_assoc. reflexivity.
    + apply hashes_app; [assumption|]. constructor; [assumption|constructor].
    + assumption.
    + cbn [length] in Hf. lia.
    + rewrite BOUND_val. rewrite !len_app in *. unfold len in *. cbn [length] in *. lia.
Qed.

(* a well-formed tree: n leaves, n + next_power_of_two(n) - 1 nodes of 32 bytes, leaves at the end *)
Definition mtree_ok (t : mtree) : Prop :=
  hashes (mt_nodes t) /\ len (mt_nodes t) < BOUND /\ mt_n t < BOUND /\
  len (mt_nodes t) + 1 = mt_n t + npow2 (mt_n t) /\ mt_off t + mt_n t = len (mt_nodes t) /\ small (e_mtree t).
Lemma mtree_roundtrip md t : mtree_ok t -> p_mtree_legacy md (e_mtree t) = Val t.
Proof.
  intros [Hh [Hb [Hn [Hc [Ho Hsm]]]]]. unfold p_mtree_legacy, e_mtree in *.
  set (nodes := mt_nodes t) in *. set (n := mt_n t) in *.
  pose proof Hb as Hb'. pose proof Hn as Hn'. rewrite BOUND_val in Hb', Hn'.
  rewrite (get_app_l _ _ 8) by apply enc64_len. cbn [of_opt obind]. cbv zeta.
  rewrite be64_enc64 by (rewrite U64_val; lia).
  pose proof (npow2_pos n) as Hp.
  assert (Hnum : mt_num_nodes md n = Val (len nodes)).
  { unfold mt_num_nodes, checked_npow2.
    replace (npow2 n <? U64) with true by (symmetry; apply N.ltb_lt; rewrite U64_val; lia).
    cbn [of_opt obind]. unfold cadd.
    replace (n + npow2 n <? U64) with true by (symmetry; apply N.ltb_lt; rewrite U64_val; lia).
    cbn [of_opt obind]. rewrite msub_ok by lia. cbn [of_res]. f_equal. lia. }
  rewrite Hnum. cbn [obind].
  set (bs := enc64 n ++ concat nodes).
  assert (Hlen : length bs = (8 + 32 * length nodes)%nat).
  { unfold bs. rewrite app_length. pose proof (enc64_len n) as E1.
    pose proof (concat_hash_len nodes Hh) as E2. unfold len in *. lia. }
  fold bs in Hsm.
  unfold alloc_ok. pose proof (mt_capacity_le bs (len nodes)) as Hcap.
  replace (mt_capacity bs (len nodes) * VEC_SIZE <=? ISIZE_MAX) with true.
  2:{ symmetry. apply N.leb_le. unfold small in Hsm. rewrite BOUND_val in Hsm. rewrite ISIZE_val. lia. }
  cbn [obind].
  pose proof (mt_loop_enc md (enc64 n) [] (enc64_len n) nodes (S (length bs)) [] []) as L.
  cbn [app rev] in L. change (len (@nil bytes)) with 0 in L. rewrite app_nil_r in L. fold bs in L.
  rewrite L; [|constructor|assumption|rewrite Hlen; lia|assumption]. cbn [obind].
  rewrite msub_ok by lia. cbn [of_res obind].
  replace (len nodes - n) with (mt_off t) by lia.
  subst nodes n. destruct t; reflexivity.
Qed.

(* ---------- a concrete honest aggregate signature (non-vacuity of cproof_ok) ---------- *)
Definition ex_vk := repeat 200 96.
Definition ex_sigma := repeat 200 48.
Definition ex_V := mkV [(0, ex_sigma); (1, ex_vk)].
Definition ex_sr := {| sr_sig := {| ss_indexes := [1; 4; 5]; ss_sigma := ex_sigma; ss_signer := 2 |};
                       sr_reg := {| rg_vk := ex_vk; rg_stake := 77 |} |}.
Definition ex_proof := {| cp_sigs := [ex_sr; ex_sr]; cp_bp := {| bp_values := [repeat 7 32]; bp_indices := [0; 2] |} |}.
Ltac lt_by_compute := (rewrite ?BOUND_val, ?U64_val; vm_compute; reflexivity).
Lemma ex_sr_ok : sigreg_ok ex_V ex_sr.
Proof.
  split; [|split].
  - unfold ssig_ok, u64s. cbn [ex_sr sr_sig ss_indexes ss_sigma ss_signer].
    split; [|split; [|split; [|split]]].
    + constructor; [lt_by_compute|constructor; [lt_by_compute|constructor; [lt_by_compute|constructor]]].
    + lt_by_compute.
    + vm_compute; reflexivity.
    + vm_compute; reflexivity.
    + lt_by_compute.
  - unfold reg_ok. cbn [ex_sr sr_reg rg_vk rg_stake].
    split; [vm_compute; reflexivity|split; [vm_compute; reflexivity|lt_by_compute]].
  - exists 200, (repeat 200 95). split; [reflexivity|discriminate].
Qed.
