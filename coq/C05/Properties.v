(* C05/Properties.v — the property theorems, nothing else. *)
From MV Require Import Base.Prelude C05.Model C05.Proofs.
Open Scope N_scope.

Theorem C05_params_total : forall bs, p_params bs <> Crash.
Proof. exact p_params_nc. Qed.
