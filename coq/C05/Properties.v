(* C05/Properties.v — the property theorems, nothing else.
   C05: the hand-written decoders of mithril-stm return a value or an error on every input
   ([Crash] = panic, abort, arithmetic overflow in a checked build, capacity overflow, or fuel
   exhausted), in checked and in wrapping builds, whatever blst answers on group elements; their
   pre-allocations are linear in the input; honest encodings decode to the encoded value.
   [small bs]: the input is shorter than 2^56 bytes. *)
From MV Require Import Base.Prelude C05.Model C05.Proofs C05.Roundtrip.
Open Scope N_scope.

(* ---- totality (also: the loops never run out of their fuel = input length + 1) ---- *)
Theorem C05_params_total : forall bs, p_params bs <> Crash.
Proof. exact p_params_nc. Qed.
Theorem C05_single_signature_total : forall md V bs, small bs -> p_ssig md V bs <> Crash.
Proof. exact p_ssig_nc. Qed.
Theorem C05_registration_entry_total : forall V bs, p_reg V bs <> Crash.
Proof. exact p_reg_nc. Qed.
Theorem C05_signature_registered_party_total : forall md V bs, small bs -> p_sigreg md V bs <> Crash.
Proof. exact p_sigreg_nc. Qed.
Theorem C05_batch_path_total : forall bs, small bs -> p_bpath bs <> Crash.
Proof. exact p_bpath_nc. Qed.
Theorem C05_batch_commitment_total : forall bs, p_bcommit bs <> Crash.
Proof. exact p_bcommit_nc. Qed.
Theorem C05_merkle_tree_total : forall md bs, small bs -> p_mtree md bs <> Crash.
Proof. exact p_mtree_nc. Qed.
Theorem C05_aggregate_key_total : forall bs, p_avk bs <> Crash.
Proof. exact p_avk_nc. Qed.
Theorem C05_concatenation_proof_total : forall md V bs, small bs -> p_cproof md V bs <> Crash.
Proof. exact p_cproof_nc. Qed.
Theorem C05_aggregate_signature_total : forall md V bs, small bs -> p_aggr md V bs <> Crash.
Proof. exact p_aggr_nc. Qed.
Theorem C05_initializer_total : forall V bs, p_init V bs <> Crash.
Proof. exact p_init_nc. Qed.
Theorem C05_group_elements_total : forall V bs,
  p_sig V bs <> Crash /\ p_vk V bs <> Crash /\ p_sk V bs <> Crash /\ p_vkpop V bs <> Crash.
Proof. intros; repeat split; [apply p_sig_nc|apply p_vk_nc|apply p_sk_nc|apply p_vkpop_nc]. Qed.

(* ---- allocation: the two pre-allocations (elements * element size) are linear in the input ---- *)
Theorem C05_concatenation_proof_alloc : forall bs total, cp_capacity bs total * SIGREG_SIZE <= 45 * len bs.
Proof. exact cp_capacity_le. Qed.
Theorem C05_merkle_tree_alloc : forall bs num_nodes, mt_capacity bs num_nodes * VEC_SIZE <= len bs.
Proof. exact mt_capacity_le. Qed.

(* ---- round trips ---- *)
Theorem C05_hex_roundtrip : forall bs, bytes_ok bs -> hex_decode (hex_encode bs) = Some bs.
Proof. exact hex_roundtrip. Qed.
(* hex decoding is a total function into option; what it accepts has even length and two characters per byte *)
Theorem C05_hex_decode_shape : forall cs b, hex_decode cs = Some b -> N.even (len cs) = true.
Proof. exact hex_decode_even. Qed.
Theorem C05_u64_roundtrip : forall n, n < U64 -> be64 (enc64 n) = n.
Proof. exact be64_enc64. Qed.
Theorem C05_params_roundtrip : forall p, params_ok p -> p_params_legacy (e_params p) = Val p.
Proof. exact params_roundtrip. Qed.
Theorem C05_registration_entry_roundtrip : forall V r, reg_ok V r -> p_reg_legacy V (e_reg r) = Val r.
Proof. exact reg_roundtrip. Qed.
Theorem C05_batch_commitment_roundtrip : forall c, bc_nr c < U64 -> p_bcommit_legacy (e_bcommit c) = Val c.
Proof. exact bcommit_roundtrip. Qed.

Theorem C05_single_signature_roundtrip : forall md V s, ssig_ok V s -> p_ssig_legacy md V (e_ssig s) = Val s.
Proof. exact ssig_roundtrip. Qed.

Theorem C05_batch_path_roundtrip : forall b, bpath_ok b -> p_bpath_legacy (e_bpath b) = Val b.
Proof. exact bpath_roundtrip. Qed.

Theorem C05_aggregate_key_roundtrip : forall a, avk_ok a -> p_avk (e_avk a) = Val a.
Proof. exact avk_roundtrip. Qed.
Theorem C05_signature_registered_party_roundtrip : forall md V x, sigreg_ok V x -> p_sigreg md V (e_sigreg x) = Val x.
Proof. exact p_sigreg_enc. Qed.
Theorem C05_concatenation_proof_roundtrip : forall md V p, cproof_ok V p -> p_cproof_legacy md V (e_cproof p) = Val p.
Proof. exact cproof_roundtrip. Qed.
(* through the public entry point: type prefix 0, version dispatch, legacy layout *)
Theorem C05_aggregate_signature_roundtrip : forall md V p, cproof_ok V p -> p_aggr md V (e_aggr p) = Val p.
Proof. exact aggr_roundtrip. Qed.

Theorem C05_key_with_pop_roundtrip : forall V k, vkpop_ok V k -> p_vkpop V (e_vkpop k) = Val k.
Proof. exact vkpop_roundtrip. Qed.
Theorem C05_initializer_roundtrip : forall V i, init_ok V i -> p_init_legacy V (e_init i) = Val i.
Proof. exact init_roundtrip. Qed.
Theorem C05_merkle_tree_roundtrip : forall md t, mtree_ok t -> p_mtree_legacy md (e_mtree t) = Val t.
Proof. exact mtree_roundtrip. Qed.

(* ---- non-vacuity: concrete encodings that decode, in both arithmetic modes ---- *)
Example C05_ex_single_signature :
  let sigma := repeat 200 48 in
  let s := {| ss_indexes := [1; 4; 5; 8]; ss_sigma := sigma; ss_signer := 1 |} in
  small (e_ssig s) /\
  p_ssig Checked (mkV [(0, sigma)]) (e_ssig s) = Val s /\ p_ssig Wrapping (mkV [(0, sigma)]) (e_ssig s) = Val s /\
  p_ssig Checked (mkV []) (e_ssig s) = Fail.
Proof. vm_compute. repeat split; reflexivity. Qed.
Example C05_ex_merkle_tree :
  let t := {| mt_n := 3; mt_off := 3; mt_nodes := repeat (repeat 9 32) 6 |} in
  p_mtree Checked (e_mtree t) = Val t /\ p_mtree Wrapping (e_mtree t) = Val t /\
  len (mt_nodes t) + 1 = mt_n t + npow2 (mt_n t).
Proof. vm_compute. repeat split; reflexivity. Qed.
Example C05_ex_hex : hex_decode [52; 97; 70; 102] = Some [74; 255] /\ hex_decode [52; 97; 70] = None /\ hex_decode [52; 103] = None.
Proof. vm_compute. repeat split. Qed.
(* the 25-byte input of the finding (aggregate signature, count 2^64-1) is now an error *)
Example C05_ex_witness :
  p_aggr Checked (mkV []) (0 :: repeat 255 8 ++ repeat 0 16) = Fail /\
  cp_capacity (repeat 255 8 ++ repeat 0 16) 18446744073709551615 = 3.
Proof. vm_compute. repeat split. Qed.

(* the hypotheses of the round-trip theorems are satisfiable: two signatures with three indices, a batch path *)
Example C05_ex_proof_ok : cproof_ok ex_V ex_proof /\ p_aggr Checked ex_V (e_aggr ex_proof) = Val ex_proof.
Proof.
  split.
  - unfold cproof_ok. cbn [ex_proof cp_sigs cp_bp]. split; [|split; [|split]].
    + constructor; [apply ex_sr_ok|constructor; [apply ex_sr_ok|constructor]].
    + lt_by_compute.
    + unfold bpath_ok, hashes, u64s. cbn [bp_values bp_indices]. split; [|split; [|split]].
      * constructor; [vm_compute; reflexivity|constructor].
      * lt_by_compute.
      * constructor; [lt_by_compute|constructor; [lt_by_compute|constructor]].
      * lt_by_compute.
    + unfold small. lt_by_compute.
  - vm_compute. reflexivity.
Qed.
