(* C18/Refuted.v — regression schedules.
   Before the fixes (repository commits "fix: give_back_resource_pool_item discards a stale
   resource", "fix: resource pool checks its capacity under the lock that pushes", "fix: refresh
   the Merkle map pool atomically") three schedules broke the pool on the real code: a
   generation-0 resource was handed out after the refresh to generation 1 (twice, by two
   different races), and the queue grew to 2 in a pool of size 1.  The same schedules (each old
   critical section is still given its step; the surplus steps fall on idle threads) are safe on
   the model of today's code — as the theorems of Properties.v say they must be.  Nothing is
   refuted any more: these are the witnesses kept as regression runs; the harness replays them on
   the real pool in every check. *)
From MV Require Import Base.Prelude C18.Model C18.Legacy.
Open Scope N_scope.

Definition nop (t : nat) : ev := Step t CiNone ChNone 0.
Definition handouts (sz : N) (k n : nat) (sched : list ev) : list (N * N * N) :=
  flat_map (fun x => match snd x with
                     | OHandout r tag => [(rid r, built_for r, disc (pl (fst x)))]
                     | _ => [] end)
           (trace (init sz (initial_queue k 1) n) sched).
Definition max_queue (sz : N) (k n : nat) (sched : list ev) : nat :=
  fold_right Nat.max 0%nat (map (fun x => length (queue (pl (fst x)))) (trace (init sz (initial_queue k 1) n) sched)).

(* (a) thread 0 holds a generation-0 item across a complete refresh by thread 1, then returns it
   with give_back_resource_pool_item; thread 3 cycles through the pool *)
Definition w_item : list ev :=
  [Step 0 CiAcquire ChNone 0; Step 1 CiRefresh ChNone 0] ++ repeat (nop 1) 12 ++
  [Step 2 CiAcquire ChNone 0; Step 0 CiNone ChGiveItem 0] ++ repeat (nop 0) 3 ++
  [Step 3 CiAcquire ChNone 0; Step 3 CiNone ChDrop 0] ++ repeat (nop 3) 3 ++
  [Step 3 CiAcquire ChNone 0; Step 3 CiNone ChDrop 0] ++ repeat (nop 3) 3 ++
  [Step 3 CiAcquire ChNone 0].

(* (b) thread 0 acquires in the middle of thread 1's refresh (formerly: between set_discriminant
   and clear) and drops the item after the refresh *)
Definition w_window : list ev :=
  [Step 1 CiRefresh ChNone 0; nop 1; nop 1; Step 0 CiAcquire ChNone 0] ++ repeat (nop 1) 12 ++
  [Step 2 CiAcquire ChNone 0; Step 0 CiNone ChDrop 0] ++ repeat (nop 0) 3 ++
  [Step 3 CiAcquire ChNone 0; Step 3 CiNone ChDrop 0] ++ repeat (nop 3) 3 ++
  [Step 3 CiAcquire ChNone 0].

(* (c) two overlapping refreshes of a pool of size 1, steps strictly alternating *)
Definition w_cap : list ev :=
  [Step 0 CiRefresh ChNone 0; Step 1 CiRefresh ChNone 0] ++
  flat_map (fun _ => [nop 0; nop 1]) (seq 0 5) ++ [Step 2 CiAcquire ChNone 0].

(* every hand-out is (resource id, built for, discriminant at the hand-out): always equal generations *)
Theorem C18_regression_item :
  handouts 2 2 4 w_item = [(1, 0, 0); (100, 1, 1); (101, 1, 1); (101, 1, 1); (101, 1, 1)]
  /\ max_queue 2 2 4 w_item = 2%nat.
Proof. vm_compute. split; reflexivity. Qed.

Theorem C18_regression_window :
  handouts 2 2 4 w_window = [(100, 1, 1); (101, 1, 1); (100, 1, 1); (100, 1, 1)]
  /\ max_queue 2 2 4 w_window = 1%nat.
Proof. vm_compute. split; reflexivity. Qed.

Theorem C18_regression_cap :
  handouts 1 1 3 w_cap = [(101, 2, 2)] /\ max_queue 1 1 3 w_cap = 1%nat.
Proof. vm_compute. split; reflexivity. Qed.

(* ---- the pool before the fixes (Legacy.v): the full statements were false ----
   hand-outs are (thread, resource id, built for, discriminant at the hand-out) *)
Definition lnop (t : nat) : nat * lchoice := (t, LNone).

(* (a) C18_safe failed: give_back_resource_pool_item used the pool's current discriminant *)
Definition lw_item : list (nat * lchoice) :=
  [(0%nat, LAcquire); (1%nat, LRefresh)] ++ repeat (lnop 1) 10 ++
  [(2%nat, LAcquire); (0%nat, LGiveItem)] ++ repeat (lnop 0) 3 ++
  [(3%nat, LAcquire); (3%nat, LDrop); lnop 3; lnop 3; (3%nat, LAcquire)].
Theorem C18_legacy_refuted_item :
  exists t r, In (t, r, 0, 1) (fst (lrun (linit 2 2 4) lw_item 100 [] 0)).
Proof. exists 3%nat, 1. vm_compute. intuition. Qed.

(* (b) C18_safe failed: an acquire between set_discriminant and clear tags an old resource with the
   new generation; its Drop then re-admits it *)
Definition lw_window : list (nat * lchoice) :=
  [(1%nat, LRefresh); lnop 1; (0%nat, LAcquire)] ++ repeat (lnop 1) 9 ++
  [(2%nat, LAcquire); (0%nat, LDrop); lnop 0; lnop 0;
   (3%nat, LAcquire); (3%nat, LDrop); lnop 3; lnop 3; (3%nat, LAcquire)].
Theorem C18_legacy_refuted_window :
  exists t r, In (t, r, 0, 1) (fst (lrun (linit 2 2 4) lw_window 100 [] 0)).
Proof. exists 3%nat, 1. vm_compute. intuition. Qed.

(* (c) C18_cap failed: the size test was outside the lock that pushes (two overlapping refreshes
   of a pool of size 1 that starts with one resource: the queue reaches 2) *)
Definition lw_cap : list (nat * lchoice) :=
  [(0%nat, LRefresh); (1%nat, LRefresh)] ++ flat_map (fun _ => [lnop 0; lnop 1]) (seq 0 5).
Theorem C18_legacy_refuted_cap :
  snd (lrun (linit 1 1 3) lw_cap 100 [] 1) = 2%nat.
Proof. vm_compute. reflexivity. Qed.
